#!/bin/sh
# repository's own suite with the hook guard OFF (plain build tree /repo/_build)
set -e
if [ ! -f /repo/_build/build.ninja ]; then cmake -G Ninja -S /repo -B /repo/_build -DLIBTINS_BUILD_TESTS=1 >/dev/null; fi
cmake --build /repo/_build -j16 >/dev/null
cmake --build /repo/_build --target tests -j16 >/dev/null
ctest --test-dir /repo/_build -j8 --timeout 900
