#!/bin/sh
# usage: build_harness.sh <name>   (compiles harness/<name>.cpp against the sanitizer build of /repo)
set -e
mkdir -p /verif/build/bin
exec g++ -std=c++11 -O1 -g -fsanitize=address,undefined -fno-sanitize-recover=all -fsanitize-recover=enum -fno-omit-frame-pointer \
  -DTINS_VERIF_HOOKS -I/repo/include -I/verif/build/asan/include -I/verif/build -I/verif/harness \
  /verif/harness/$1.cpp -o /verif/build/bin/$1 /verif/build/asan/lib/libtins.a -lpcap -lssl -lcrypto -lpthread
