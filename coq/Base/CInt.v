(* C integer helpers shared by generated kernels and hand models. *)
From Coq Require Import ZArith Bool Lia.
Local Open Scope Z_scope.

Definition wrap (w : Z) (x : Z) : Z := x mod 2 ^ w.
Definition swrap (w : Z) (x : Z) : Z :=
  let y := x mod 2 ^ w in if y <? 2 ^ (w - 1) then y else y - 2 ^ w.
Definition b2z (b : bool) : Z := if b then 1 else 0.

(* byte swap of a w-bit word (w in {16,32,64}) *)
Definition byte_at (x : Z) (i : Z) : Z := (x / 2 ^ (8 * i)) mod 256.
Definition bswap (w : Z) (x : Z) : Z :=
  match w with
  | 16 => byte_at x 0 * 256 + byte_at x 1
  | 32 => byte_at x 0 * 16777216 + byte_at x 1 * 65536 + byte_at x 2 * 256 + byte_at x 3
  | 64 => byte_at x 0 * 72057594037927936 + byte_at x 1 * 281474976710656
          + byte_at x 2 * 1099511627776 + byte_at x 3 * 4294967296
          + byte_at x 4 * 16777216 + byte_at x 5 * 65536 + byte_at x 6 * 256 + byte_at x 7
  | _ => x
  end.

Definition w32 (x : Z) : Z := x mod 4294967296.
Definition w16 (x : Z) : Z := x mod 65536.
Definition w8 (x : Z) : Z := x mod 256.

Lemma wrap32 x : wrap 32 x = w32 x.
Proof. reflexivity. Qed.
Lemma wrap16 x : wrap 16 x = w16 x.
Proof. reflexivity. Qed.
Lemma wrap8 x : wrap 8 x = w8 x.
Proof. reflexivity. Qed.

Lemma w32_range x : 0 <= w32 x < 4294967296.
Proof. unfold w32. apply Z.mod_pos_bound. lia. Qed.
Lemma w32_small x : 0 <= x < 4294967296 -> w32 x = x.
Proof. intros. unfold w32. apply Z.mod_small. lia. Qed.
