(* Shared result type, association-list map keyed by Z (model of std::map<uint32_t,...>),
   token type used by the extracted script runners. *)
From Coq Require Export ZArith List Bool Lia.
Export ListNotations.
Local Open Scope Z_scope.

Inductive res (A : Type) : Type :=
| Ok (a : A)
| Throw (e : Z)        (* a libtins exception; code from Base.Exn *)
| OOB (site : Z)       (* the C++ would touch memory outside an object/buffer at this site *)
| OutOfFuel.
Arguments Ok {A} a.
Arguments Throw {A} e.
Arguments OOB {A} site.
Arguments OutOfFuel {A}.

Definition bind {A B} (r : res A) (f : A -> res B) : res B :=
  match r with
  | Ok a => f a
  | Throw e => Throw e
  | OOB s => OOB s
  | OutOfFuel => OutOfFuel
  end.
Notation "'do' x <- r ; k" := (bind r (fun x => k)) (at level 200, x pattern, r at level 100, k at level 200).

(* exception codes (shared with the C++ harnesses) *)
Definition EX_malformed_packet : Z := 1.
Definition EX_serialization_error : Z := 2.
Definition EX_option_not_found : Z := 3.
Definition EX_field_not_present : Z := 4.
Definition EX_invalid_address : Z := 5.
Definition EX_value_too_large : Z := 6.
Definition EX_dns_decompression_pointer_loops : Z := 7.
Definition EX_dns_decompression_pointer_out_of_bounds : Z := 8.
Definition EX_pdu_not_found : Z := 9.
Definition EX_invalid_option_value : Z := 10.
Definition EX_other : Z := 99.

Definition zlen {A} (l : list A) : Z := Z.of_nat (length l).

Lemma zlen_nonneg {A} (l : list A) : 0 <= zlen l.
Proof. unfold zlen. lia. Qed.
Lemma zlen_app {A} (a b : list A) : zlen (a ++ b) = zlen a + zlen b.
Proof. unfold zlen. rewrite app_length. lia. Qed.
Lemma zlen_nil {A} : zlen (@nil A) = 0.
Proof. reflexivity. Qed.
Lemma zlen_cons {A} (x : A) l : zlen (x :: l) = 1 + zlen l.
Proof. unfold zlen. cbn [length]. lia. Qed.

Definition zskipn {A} (n : Z) (l : list A) : list A := skipn (Z.to_nat n) l.
Definition zfirstn {A} (n : Z) (l : list A) : list A := firstn (Z.to_nat n) l.

Lemma zlen_zskipn {A} n (l : list A) : 0 <= n <= zlen l -> zlen (zskipn n l) = zlen l - n.
Proof. unfold zlen, zskipn. intros. rewrite skipn_length. lia. Qed.

(* ---- key-sorted association list: the abstract behaviour of std::map<Z, V> ---- *)
Section ZMap.
  Context {V : Type}.
  Definition zmap := list (Z * V).

  Fixpoint zfind (k : Z) (m : zmap) : option V :=
    match m with
    | [] => None
    | (k', v) :: r => if k' =? k then Some v else zfind k r
    end.

  (* insert or replace, keeping key order *)
  Fixpoint zput (k : Z) (v : V) (m : zmap) : zmap :=
    match m with
    | [] => [(k, v)]
    | (k', v') :: r =>
        if k <? k' then (k, v) :: m
        else if k =? k' then (k, v) :: r
        else (k', v') :: zput k v r
    end.

  Fixpoint zdel (k : Z) (m : zmap) : zmap :=
    match m with
    | [] => []
    | (k', v') :: r => if k' =? k then r else (k', v') :: zdel k r
    end.

  (* first key strictly greater than k *)
  Fixpoint zsucc (k : Z) (m : zmap) : option Z :=
    match m with
    | [] => None
    | (k', _) :: r => if k <? k' then Some k' else zsucc k r
    end.

  Definition zfirst (m : zmap) : option Z :=
    match m with [] => None | (k, _) :: _ => Some k end.

  Definition zkeys (m : zmap) : list Z := map fst m.
End ZMap.
Arguments zmap V : clear implicits.

(* ---- tokens printed by the script runners (kept trivial for extraction) ---- *)
Inductive tok : Type :=
| TN (n : Z)            (* decimal number *)
| TB (b : list Z)       (* byte string, printed as hex *)
| TL (l : list tok).    (* bracketed list *)
