(* Extraction of the executable models (and nothing else) to OCaml.
   Only ExtrOcamlBasic is used: bool/option/unit/list/prod/sumbool map to OCaml natives,
   Z / positive / nat stay inductive.  Run with cwd = /verif/build/ml. *)
Require Extraction.
Require Import ExtrOcamlBasic.
From LT Require Import Base.Prelude Base.CInt Model.DataTracker Model.AckTracker Model.IPReasm Model.PDUTree Model.Addr Model.RadioTap Model.DNS Model.Checksum Model.TcpOpts Model.Match Model.Follower Model.Wifi Model.Capture Model.TLV Model.LegacyStream.
Extraction Language OCaml.
Extraction "models.ml" Z.add Z.mul Z.sub Z.opp Z.div_eucl Z.compare Z.of_nat
  dt_step dt_new ack_step ack_new ipr_step tree_step ts0 addr_step rt_step dns_step sum_step tcpo_step match_step fo_step fo_new wifi_step cap_step tlv_step ls_step.
