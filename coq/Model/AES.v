(* AES-128 encryption (FIPS 197) as an executable function: the block cipher OpenSSL provides to libtins' CCMP code.
   The S-box literal is the standard's table; the function is validated against OpenSSL's AES_encrypt by the
   correspondence check (harness op "aes") and never reasoned about: the CCMP theorems hold for ANY block function. *)
From Coq Require Import ZArith List.
Import ListNotations.
Local Open Scope Z_scope.

Definition aes_sbox : list Z :=
  [99; 124; 119; 123; 242; 107; 111; 197; 48; 1; 103; 43; 254; 215; 171; 118; 202; 130; 201; 125; 250; 89; 71; 240; 173; 212; 162; 175; 156; 164; 114; 192; 183; 253; 147; 38; 54; 63; 247; 204; 52; 165; 229; 241; 113; 216; 49; 21; 4; 199; 35; 195; 24; 150; 5; 154; 7; 18; 128; 226; 235; 39; 178; 117; 9; 131; 44; 26; 27; 110; 90; 160; 82; 59; 214; 179; 41; 227; 47; 132; 83; 209; 0; 237; 32; 252; 177; 91; 106; 203; 190; 57; 74; 76; 88; 207; 208; 239; 170; 251; 67; 77; 51; 133; 69; 249; 2; 127; 80; 60; 159; 168; 81; 163; 64; 143; 146; 157; 56; 245; 188; 182; 218; 33; 16; 255; 243; 210; 205; 12; 19; 236; 95; 151; 68; 23; 196; 167; 126; 61; 100; 93; 25; 115; 96; 129; 79; 220; 34; 42; 144; 136; 70; 238; 184; 20; 222; 94; 11; 219; 224; 50; 58; 10; 73; 6; 36; 92; 194; 211; 172; 98; 145; 149; 228; 121; 231; 200; 55; 109; 141; 213; 78; 169; 108; 86; 244; 234; 101; 122; 174; 8; 186; 120; 37; 46; 28; 166; 180; 198; 232; 221; 116; 31; 75; 189; 139; 138; 112; 62; 181; 102; 72; 3; 246; 14; 97; 53; 87; 185; 134; 193; 29; 158; 225; 248; 152; 17; 105; 217; 142; 148; 155; 30; 135; 233; 206; 85; 40; 223; 140; 161; 137; 13; 191; 230; 66; 104; 65; 153; 45; 15; 176; 84; 187; 22].

Definition sb (x : Z) : Z := nth (Z.to_nat x) aes_sbox 0.
Definition xtime (a : Z) : Z := let b := a * 2 in if 256 <=? b then Z.lxor (b - 256) 27 else b.
Definition nz (l : list Z) (i : nat) : Z := nth i l 0.
Definition xorl (a b : list Z) : list Z := map (fun p => Z.lxor (fst p) (snd p)) (combine a b).

(* key expansion: the 4-byte words w0..w43 *)
Definition rot_sub (w : list Z) (rcon : Z) : list Z :=
  match w with [a; b; c; d] => [Z.lxor (sb b) rcon; sb c; sb d; sb a] | _ => w end.

Fixpoint expand (n : nat) (i : nat) (rcon : Z) (prev4 : list (list Z)) (acc : list (list Z)) : list (list Z) :=
  match n with
  | O => acc
  | S m =>
      match prev4 with
      | [w0; w1; w2; w3] =>
          let t := if Nat.eqb (Nat.modulo i 4) 0 then rot_sub w3 rcon else w3 in
          let w := xorl w0 t in
          expand m (S i) (if Nat.eqb (Nat.modulo i 4) 0 then xtime rcon else rcon) [w1; w2; w3; w] (acc ++ [w])
      | _ => acc
      end
  end.

Fixpoint chunk4 (l : list Z) : list (list Z) :=
  match l with a :: b :: c :: d :: r => [a; b; c; d] :: chunk4 r | _ => [] end.

Definition round_keys (key : list Z) : list (list Z) :=
  let w := chunk4 key in
  let all := expand 40 4 1 w w in
  (fix rk (n : nat) (ws : list (list Z)) : list (list Z) :=
     match n, ws with
     | S m, a :: b :: c :: d :: r => (a ++ b ++ c ++ d) :: rk m r
     | _, _ => []
     end) 11%nat all.

Definition shift_rows (s : list Z) : list Z :=
  map (nz s) [0; 5; 10; 15; 4; 9; 14; 3; 8; 13; 2; 7; 12; 1; 6; 11]%nat.

Definition mix_col (c : list Z) : list Z :=
  match c with
  | [a0; a1; a2; a3] =>
      let m2 := xtime in let m3 x := Z.lxor (xtime x) x in
      [Z.lxor (Z.lxor (m2 a0) (m3 a1)) (Z.lxor a2 a3); Z.lxor (Z.lxor a0 (m2 a1)) (Z.lxor (m3 a2) a3);
       Z.lxor (Z.lxor a0 a1) (Z.lxor (m2 a2) (m3 a3)); Z.lxor (Z.lxor (m3 a0) a1) (Z.lxor a2 (m2 a3))]
  | _ => c
  end.
Definition mix_columns (s : list Z) : list Z := concat (map mix_col (chunk4 s)).

Fixpoint rounds (rks : list (list Z)) (s : list Z) : list Z :=
  match rks with
  | [] => s
  | [last] => xorl (shift_rows (map sb s)) last
  | rk :: rest => rounds rest (xorl (mix_columns (shift_rows (map sb s))) rk)
  end.

Definition aes_encrypt (key block : list Z) : list Z :=
  match round_keys key with
  | rk0 :: rest => rounds rest (xorl block rk0)
  | [] => block
  end.
