(* Faithful executable model of Tins::TCPIP::AckTracker / AckedRange (src/tcp_ip/ack_tracker.cpp).
   boost::icl::interval_set<uint32_t> is modelled by canonical lists of closed intervals
   (sorted, disjoint, non-adjacent); that model is validated against boost by the correspondence run. *)
From LT Require Import Base.Prelude Base.CInt Gen.Kernels.
Local Open Scope Z_scope.

Definition iset := list (Z * Z).

Fixpoint iset_insert (a b : Z) (s : iset) : iset :=
  match s with
  | [] => [(a, b)]
  | (l, h) :: r =>
      if h + 1 <? a then (l, h) :: iset_insert a b r
      else if b + 1 <? l then (a, b) :: (l, h) :: r
      else iset_insert (Z.min a l) (Z.max b h) r
  end.

Fixpoint iset_erase (a b : Z) (s : iset) : iset :=
  match s with
  | [] => []
  | (l, h) :: r =>
      if h <? a then (l, h) :: iset_erase a b r
      else if b <? l then (l, h) :: r
      else (if l <? a then [(l, a - 1)] else []) ++
           (if b <? h then (b + 1, h) :: r else iset_erase a b r)
  end.

Fixpoint iset_contains (a b : Z) (s : iset) : bool :=
  match s with
  | [] => false
  | (l, h) :: r => ((l <=? a) && (b <=? h)) || iset_contains a b r
  end.

(* AckedRange(first,last): the intervals produced by  while (has_next()) next()  *)
Fixpoint pieces (fuel : nat) (first last : Z) : list (Z * Z) :=
  match fuel with
  | O => []
  | S f =>
      if seq_compare first last <=? 0 then
        if first <=? last then (first, last) :: pieces f (w32 (last + 1)) last
        else (first, 4294967295) :: pieces f 0 last
      else []
  end.
Definition range_pieces (first last : Z) := pieces 4 first last.

Record ackst := mkack { a_ack : Z; a_sack : bool; a_ivs : iset }.

Definition ack_new (ack : Z) (use_sack : bool) := mkack (w32 ack) use_sack [].

Definition cleanup (st : ackst) (old_ack new_ack : Z) : ackst :=
  mkack (a_ack st) (a_sack st)
        (fold_left (fun s p => iset_erase (fst p) (snd p) s) (range_pieces old_ack new_ack) (a_ivs st)).

Definition sack_piece (st : ackst) (p : Z * Z) : ackst :=
  if seq_compare (fst p) (a_ack st) <=? 0
  then mkack (snd p) (a_sack st) (a_ivs st)
  else mkack (a_ack st) (a_sack st) (iset_insert (fst p) (snd p) (a_ivs st)).

Fixpoint process_sack (st : ackst) (edges : list Z) : ackst :=
  match edges with
  | l :: r :: rest =>
      let st' :=
        if seq_compare l r <? 0 then
          let last := w32 (r - 1) in
          if seq_compare last (a_ack st) >? 0
          then fold_left sack_piece (range_pieces l last) st
          else st
        else st in
      process_sack st' rest
  | _ => st
  end.

Definition ack_process (st : ackst) (ackseq : Z) (has_sack : bool) (edges : list Z) : ackst :=
  let st1 :=
    if seq_compare ackseq (a_ack st) >? 0
    then let c := cleanup st (a_ack st) ackseq in mkack ackseq (a_sack c) (a_ivs c)
    else st in
  if a_sack st1 && has_sack then process_sack st1 edges else st1.

Definition is_segment_acked (st : ackst) (seq len : Z) : bool :=
  if len =? 0 then true else
  forallb (fun p => negb ((seq_compare (snd p) (a_ack st) >=? 0) && negb (iset_contains (fst p) (snd p) (a_ivs st))))
          (range_pieces seq (w32 (seq + len - 1))).

(* ---- script interface: new <ack> <use_sack> | pkt <ackseq> <has_sack> [edges] | q <seq> <len> ---- *)
Definition ack_show (st : ackst) : list tok :=
  [TN (a_ack st); TL (map (fun p => TL [TN (fst p); TN (snd p)]) (a_ivs st))].

Definition tokZ (t : tok) : Z := match t with TN n => n | _ => 0 end.

Definition ack_step (st : ackst) (op : Z) (args : list tok) : ackst * list tok :=
  match op, args with
  | 0, [TN a; TN u] => let st' := ack_new a (negb (u =? 0)) in (st', ack_show st')
  | 1, [TN a; TN h; TL es] =>
      let st' := ack_process st (w32 a) (negb (h =? 0)) (map (fun t => w32 (tokZ t)) es) in (st', ack_show st')
  | 2, [TN s; TN l] => (st, [TN (b2z (is_segment_acked st (w32 s) (w32 l)))])
  | _, _ => (st, [TN (-3)])
  end.
