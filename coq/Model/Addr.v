(* Executable model of libtins' address types: IPv4Address (ip_address.cpp), HWAddress<n> / IPv6Address as
   byte buffers (hw_address.cpp, address_helpers), AddressRange and its iterator (address_range.h).
   glibc's inet_pton(AF_INET) is modelled by [pton4] (validated against glibc by the correspondence run). *)
From LT Require Import Base.Prelude Base.CInt.
Local Open Scope Z_scope.

(* ---------- IPv4 (ip_addr_ as a host-order number) ---------- *)
Definition v4_incr (a : Z) : Z * bool := let a' := w32 (a + 1) in (a', a' =? 0).
Definition v4_decr (a : Z) : Z * bool := let a' := w32 (a - 1) in (a', a' =? 0).
Definition v4_from_prefix (p : Z) : Z := if p =? 0 then 0 else w32 (Z.shiftl 4294967295 (32 - p)).
Definition v4_and (a m : Z) : Z := Z.land a m.
Definition v4_or (a m : Z) : Z := Z.lor a m.
Definition v4_not (a : Z) : Z := w32 (Z.lnot a).

(* operator<< : four decimal groups *)
Fixpoint dec_digits (fuel : nat) (n : Z) (acc : list Z) : list Z :=
  match fuel with
  | O => acc
  | S f => let acc' := (48 + n mod 10) :: acc in if n / 10 =? 0 then acc' else dec_digits f (n / 10) acc'
  end.
Definition show_dec (n : Z) : list Z := dec_digits 20 n [].
Definition v4_to_string (a : Z) : list Z :=
  show_dec (Z.shiftr a 24 mod 256) ++ [46] ++ show_dec (Z.shiftr a 16 mod 256) ++ [46] ++
  show_dec (Z.shiftr a 8 mod 256) ++ [46] ++ show_dec (a mod 256).

(* glibc inet_pton4 *)
Fixpoint pton4_go (s : list Z) (saw_digit : bool) (octets : Z) (cur : Z) (acc : list Z) : option (list Z) :=
  match s with
  | [] => if octets <? 4 then None else Some (acc ++ [cur])
  | ch :: r =>
      if (48 <=? ch) && (ch <=? 57) then
        let nw := cur * 10 + (ch - 48) in
        if saw_digit && (cur =? 0) then None
        else if 255 <? nw then None
        else if saw_digit then pton4_go r true octets nw acc
        else if 4 <? octets + 1 then None else pton4_go r true (octets + 1) nw acc
      else if (ch =? 46) && saw_digit then
        if octets =? 4 then None else pton4_go r false octets 0 (acc ++ [cur])
      else None
  end.
Definition pton4 (s : list Z) : option Z :=
  match pton4_go s false 0 0 [] with
  | Some [a; b; c; d] => Some (a * 16777216 + b * 65536 + c * 256 + d)
  | _ => None
  end.

(* ---------- byte-buffer addresses (HWAddress<n>, IPv6Address) ---------- *)
Fixpoint inc_lsb (l : list Z) : list Z * bool :=      (* l is least-significant byte first *)
  match l with
  | [] => ([], true)
  | b :: r => if b =? 255 then let '(r', c) := inc_lsb r in (0 :: r', c) else ((b + 1) :: r, false)
  end.
Fixpoint dec_lsb (l : list Z) : list Z * bool :=
  match l with
  | [] => ([], true)
  | b :: r => if b =? 0 then let '(r', c) := dec_lsb r in (255 :: r', c) else ((b - 1) :: r, false)
  end.
Definition buf_incr (b : list Z) : list Z * bool := let '(r, c) := inc_lsb (rev b) in (rev r, c).
Definition buf_decr (b : list Z) : list Z * bool := let '(r, c) := dec_lsb (rev b) in (rev r, c).

Fixpoint buf_lt (a b : list Z) : bool :=      (* std::lexicographical_compare *)
  match a, b with
  | _, [] => false
  | [], _ :: _ => true
  | x :: r, y :: s => if x <? y then true else if y <? x then false else buf_lt r s
  end.
Fixpoint buf_eq (a b : list Z) : bool :=
  match a, b with
  | [], [] => true
  | x :: r, y :: s => (x =? y) && buf_eq r s
  | _, _ => false
  end.
Fixpoint buf_map2 (f : Z -> Z -> Z) (a b : list Z) : list Z :=
  match a, b with x :: r, y :: s => f x y :: buf_map2 f r s | _, _ => [] end.
Definition buf_and := buf_map2 Z.land.
Definition buf_or_not := buf_map2 (fun x m => Z.lor x (w8 (Z.lnot m))).

(* IPv6Address::from_prefix_length / HWAddress operator/ mask construction, n bytes *)
Fixpoint prefix_bytes (n : nat) (p : Z) (started : bool) : list Z :=
  match n with
  | O => []
  | S k =>
      if started then 0 :: prefix_bytes k p true
      else if 8 <? p then 255 :: prefix_bytes k (p - 8) false
      else w8 (Z.shiftl 255 (8 - p)) :: prefix_bytes k p true
  end.
Definition buf_from_prefix (n : nat) (p : Z) : list Z := prefix_bytes n p false.

(* hw_address_to_string / string_to_hw_address *)
Definition hexdig (v : Z) : Z := if 9 <? v then 97 - 10 + v else 48 + v.
Fixpoint hw_to_string (b : list Z) : list Z :=
  match b with
  | [] => []
  | [x] => [hexdig (x / 16); hexdig (x mod 16)]
  | x :: r => hexdig (x / 16) :: hexdig (x mod 16) :: 58 :: hw_to_string r
  end.

Definition hexval (c : Z) : option Z :=
  if (97 <=? c) && (c <=? 102) then Some (c - 97 + 10)
  else if (65 <=? c) && (c <=? 70) then Some (c - 65 + 10)
  else if (48 <=? c) && (c <=? 57) then Some (c - 48)
  else None.

(* inner loop: up to two characters; reading at index = size yields the terminating NUL (0) *)
Definition hw_group (s : list Z) : option (Z * list Z) :=
  (* returns (byte, rest) where rest starts at the character after the group *)
  let ch0 := match s with c :: _ => c | [] => 0 end in
  match hexval ch0 with
  | Some v0 =>
      let r1 := tl s in
      let ch1 := match r1 with c :: _ => c | [] => 0 end in
      match hexval ch1 with
      | Some v1 => Some (w8 (v0 * 16 + v1), tl r1)
      | None => if ch1 =? 58 then Some (v0, r1) else None
      end
  | None => if ch0 =? 58 then Some (0, s) else None
  end.

Fixpoint hw_parse_go (fuel : nat) (s : list Z) (count : nat) (n : nat) (acc : list Z) : option (list Z) :=
  match fuel with
  | O => None
  | S f =>
      match s with
      | [] => Some (acc ++ repeat 0 (n - count))
      | _ =>
          if Nat.ltb count n then
            match hw_group s with
            | None => None
            | Some (b, rest) =>
                match rest with
                | [] => Some (acc ++ [b] ++ repeat 0 (n - S count))
                | c :: rest' => if c =? 58 then hw_parse_go f rest' (S count) n (acc ++ [b]) else None
                end
            end
          else Some acc
      end
  end.
Definition hw_parse (n : nat) (s : list Z) : option (list Z) := hw_parse_go (S (length s)) s 0 n [].

(* ---------- AddressRange over an abstract address type ---------- *)
Section Range.
  Variable A : Type.
  Variables (lt eq : A -> A -> bool) (incr decr : A -> A * bool).

  Record range := mkrange { r_first : A; r_last : A; r_hosts : bool }.

  Definition contains (r : range) (x : A) : bool :=
    (lt (r_first r) x && lt x (r_last r)) || eq x (r_first r) || eq x (r_last r).

  Definition it_begin (r : range) : A * bool :=
    ((if r_hosts r then fst (incr (r_first r)) else r_first r), false).
  Definition it_end (r : range) : A * bool :=
    incr (if r_hosts r then fst (decr (r_last r)) else r_last r).
  Definition it_eq (a b : A * bool) : bool := Bool.eqb (snd a) (snd b) && eq (fst a) (fst b).
  Definition it_next (a : A * bool) : A * bool := incr (fst a).

  Definition is_iterable (r : range) : bool :=
    if negb (r_hosts r) then true else
    let '(a1, c1) := incr (r_first r) in
    if c1 then false else
    let '(a2, c2) := incr a1 in
    if c2 then false else
    let '(a3, _) := incr a2 in
    lt a3 (r_last r) || eq a3 (r_last r).

  (* for (it = begin; it != end && steps < limit; ++it) visit *it *)
  Fixpoint iterate (limit : nat) (it en : A * bool) : list A * bool (* finished? *) :=
    match limit with
    | O => ([], it_eq it en)
    | S k => if it_eq it en then ([], true) else let '(l, d) := iterate k (it_next it) en in (fst it :: l, d)
    end.
End Range.

Definition v4_lt (a b : Z) := a <? b.
Definition v4_eq (a b : Z) := a =? b.
Definition v4_range_from_mask (addr mask : Z) : range Z :=
  mkrange Z (v4_and addr mask) (w32 (Z.lor addr (v4_not mask))) true.
Definition buf_range_from_mask (addr mask : list Z) : range (list Z) :=
  mkrange (list Z) (buf_and addr mask) (buf_or_not addr mask) true.

(* ---------- script interface ---------- *)
Definition b2t (b : bool) : tok := TN (if b then 1 else 0).
Definition summarize {A} (f : A -> tok) (l : list A) (done : bool) : list tok :=
  [TN (zlen l); TL (map f (firstn 3 l)); TL (map f (firstn 3 (rev l))); b2t done].

Definition addr_step (st : unit) (op : Z) (args : list tok) : unit * list tok :=
  (st,
   match op, args with
   | 0, [TB s] => match pton4 s with Some v => [TN 1; TN v] | None => [TN 0] end
   | 1, [TN a] => [TB (v4_to_string a)]
   | 2, [TN a; TN b] => [b2t (v4_lt a b); b2t (v4_eq a b)]
   | 3, [TN a; TN m] => [TN (v4_and a m); TN (v4_or a m); TN (v4_not a)]
   | 4, [TN addr; TN p; TN x] =>
       let r := v4_range_from_mask addr (v4_from_prefix p) in
       [TN (r_first _ r); TN (r_last _ r); b2t (contains _ v4_lt v4_eq r x); b2t (is_iterable _ v4_lt v4_eq v4_incr r)]
   | 5, [TN f; TN l; TN h; TN lim] =>
       if l <? f then [TN (-1)] else
       let r := mkrange Z f l (negb (h =? 0)) in
       let '(vis, d) := iterate _ v4_eq v4_incr (Z.to_nat lim) (it_begin _ v4_incr r) (it_end _ v4_incr v4_decr r) in
       summarize TN vis d
   | 6, [TB s] => match hw_parse 6 s with Some b => [TN 1; TB b] | None => [TN 0] end
   | 7, [TB b] => [TB (hw_to_string b)]
   | 8, [TB a; TB b] => [b2t (buf_lt a b); b2t (buf_eq a b)]
   | 9, [TB addr; TN p; TB x] =>
       let r := buf_range_from_mask addr (buf_from_prefix (length addr) p) in
       [TB (r_first _ r); TB (r_last _ r); b2t (contains _ buf_lt buf_eq r x); b2t (is_iterable _ buf_lt buf_eq buf_incr r)]
   | 10, [TB f; TB l; TN h; TN lim] =>
       if buf_lt l f then [TN (-1)] else
       let r := mkrange (list Z) f l (negb (h =? 0)) in
       let '(vis, d) := iterate _ buf_eq buf_incr (Z.to_nat lim) (it_begin _ buf_incr r) (it_end _ buf_incr buf_decr r) in
       summarize TB vis d
   | _, _ => [TN (-3)]
   end).
