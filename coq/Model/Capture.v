(* Model of what libtins itself does around libpcap capture files (src/sniffer.cpp, src/packet_writer.cpp,
   src/timestamp.cpp, include/tins/sniffer.h): timestamp conversions and the per-packet loops.  The file format and the
   BPF engine are libpcap's and are observed, not modelled.  No proofs here. *)
From LT Require Import Base.Prelude Base.CInt.
Local Open Scope Z_scope.

(* Timestamp(const timeval&): uint64 microseconds *)
Definition ts_of_timeval (sec usec : Z) : Z := wrap 64 (sec * 1000000 + usec).
(* Timestamp::seconds() / microseconds() *)
Definition ts_seconds (t : Z) : Z := t / 1000000.
Definition ts_micro (t : Z) : Z := t mod 1000000.
(* PacketWriter::write(Packet&) hands (seconds, microseconds) to pcap_dump, which stores two 32-bit fields *)
Definition file_ts (t : Z) : Z * Z := (w32 (ts_seconds t), w32 (ts_micro t)).
(* reading: libpcap's savefile code keeps both fields in signed 32-bit integers before widening them into the timeval *)
Definition read_ts (sec usec : Z) : Z := ts_of_timeval (swrap 32 sec) (swrap 32 usec).

Section Loop.
  Context {frame pkt : Type}.
  (* the link-type handler on one captured frame: Some = a PDU was built; None = the constructor threw malformed_packet
     (swallowed by safe_alloc) or the raw-IP version nibble was neither 4 nor 6 *)
  Variable parse : frame -> option pkt.

  (* BaseSniffer::next_packet on the frames still unread: pcap_loop(handle, 1, handler) delivers one frame per call and
     returns 0 without calling the handler at end of file *)
  Fixpoint next_packet (fs : list frame) : option (pkt * list frame) :=
    match fs with
    | [] => None
    | f :: r => match parse f with Some p => Some (p, r) | None => next_packet r end
    end.

  (* BaseSniffer::sniff_loop(functor, max_packets) through SnifferIterator: the packets handed to the functor.
     cb p = false: the functor asked to stop; max_packets = 0: no limit (uint32 counter) *)
  Fixpoint sniff_loop (fuel : nat) (cb : pkt -> bool) (maxp : Z) (fs : list frame) : list pkt :=
    match fuel with
    | O => []
    | S f =>
        match next_packet fs with
        | None => []
        | Some (p, r) =>
            p :: (if cb p then (if maxp =? 1 then [] else sniff_loop f cb (if maxp =? 0 then 0 else maxp - 1) r) else [])
        end
    end.

  (* range iteration (begin()/end()): every packet until next_packet yields none *)
  Definition iterate (fs : list frame) : list pkt := sniff_loop (S (length fs)) (fun _ => true) 0 fs.
End Loop.

(* the raw-IP dispatch of sniff_loop_raw_handler: version nibble of the first byte *)
Definition raw_dispatch (first_byte : Z) : Z := let v := Z.shiftr first_byte 4 in if v =? 4 then 4 else if v =? 6 then 6 else 0.

(* ---- script interface (frames are byte strings; "parse" = the harness told us which frames the top-level class accepts) ----
   op 0: ts <t>                       -> [sec usec back]   file fields for a Timestamp of t us and the Timestamp read back
   op 1: loop <max> <stop_idx> [b...] -> indices visited: b = 1 when frame i parses; the functor returns false on frame stop_idx (-1 = never) *)
Fixpoint number {A} (i : Z) (l : list A) : list (Z * A) := match l with [] => [] | x :: r => (i, x) :: number (i + 1) r end.

Definition cap_step (st : unit) (op : Z) (args : list tok) : unit * list tok :=
  match op, args with
  | 0, [TN t] => let '(s, u) := file_ts t in (st, [TN s; TN u; TN (read_ts s u)])
  | 1, [TN maxp; TN stop; TL bs] =>
      let fs := number 0 (map (fun b => match b with TN 1 => true | _ => false end) bs) in
      let parse (f : Z * bool) := if snd f then Some (fst f) else None in
      (st, map TN (sniff_loop parse (S (length fs)) (fun p => negb (p =? stop)) maxp fs))
  | _, _ => (st, [TN (-3)])
  end.
