(* Executable model of Utils::sum_range / do_checksum / pseudoheader sums / crc32 (src/utils/checksum_utils.cpp)
   and of the way IP, UDP and TCP turn them into the checksum field they store. *)
From LT Require Import Base.Prelude Base.CInt Gen.CrcTable.
Local Open Scope Z_scope.

(* sum of native (little-endian) 16-bit words; an odd trailing byte is added as a low byte *)
Fixpoint sum_le (b : list Z) : Z :=
  match b with
  | x :: y :: r => x + 256 * y + sum_le r
  | [x] => x
  | [] => 0
  end.

(* while (c >> 16) c = (c & 0xffff) + (c >> 16);  -- three rounds suffice for a 32-bit accumulator *)
Definition fold_step (c : Z) : Z := if c / 65536 =? 0 then c else c mod 65536 + c / 65536.
Definition fold16 (c : Z) : Z := fold_step (fold_step (fold_step c)).

Definition sum_range (b : list Z) : Z := fold16 (w32 (sum_le b)).
Definition do_checksum (b : list Z) : Z := bswap 32 (sum_range b).

(* IP::write_serialization: the 16-bit word (as it sits in memory, little-endian) stored in the check field *)
Definition ip_check_word (hdr_with_zero_field : list Z) : Z :=
  let check := fold16 (do_checksum hdr_with_zero_field) in
  bswap 16 (w16 (Z.lnot check)).

(* UDP/TCP: pseudo = unfolded sum of the pseudo-header's native words; buf = transport header + payload, field zeroed *)
Definition l4_check_word (udp : bool) (pseudo : Z) (buf : list Z) : Z :=
  let check := fold16 (w32 (pseudo + sum_range buf)) in
  let c := w16 (Z.lnot check) in
  if udp && (c =? 0) then 65535 else c.

(* crc32: nibble table *)
Definition crc_step (crc byte : Z) : Z :=
  let c1 := Z.lxor (Z.shiftr crc 4) (nth (Z.to_nat (Z.land (Z.lxor crc byte) 15)) crc_table 0) in
  Z.lxor (Z.shiftr c1 4) (nth (Z.to_nat (Z.land (Z.lxor c1 (Z.shiftr byte 4)) 15)) crc_table 0).
Definition crc32 (b : list Z) : Z := fold_left crc_step b 0.

(* script: sum x<bytes> -> K sum_range do_checksum crc32 *)
Definition sum_step (st : unit) (op : Z) (args : list tok) : unit * list tok :=
  match op, args with
  | 0, [TB b] => (st, [TN (match b with [] => 0 | _ => sum_range b end); TN (match b with [] => 0 | _ => w16 (do_checksum b) end); TN (crc32 b)])
  | _, _ => (st, [TN (-3)])
  end.
