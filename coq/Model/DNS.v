(* Faithful executable model of Tins::DNS (src/dns.cpp, after the four repairs): constructor,
   compose_name, the four section getters, encode_domain_name, add_query / add_record with
   update_records / update_dname (unchecked accesses are [OOB]), serialisation.
   records : the bytes after the 12-byte header (records_data_); pointers hold MESSAGE offsets (records offset + 12). *)
From LT Require Import Base.Prelude Base.CInt.
Local Open Scope Z_scope.

Record dns := mkdns { d_hdr : list Z; d_rec : list Z; d_aidx : Z; d_nidx : Z; d_ridx : Z }.

Definition at_ (l : list Z) (i : Z) : Z := nth (Z.to_nat i) l 0.
Definition be16 (l : list Z) (i : Z) : Z := at_ l i * 256 + at_ l (i + 1).
Definition be32 (l : list Z) (i : Z) : Z := at_ l i * 16777216 + at_ l (i + 1) * 65536 + at_ l (i + 2) * 256 + at_ l (i + 3).
Definition to_be16 (v : Z) : list Z := [(v / 256) mod 256; v mod 256].
Definition to_be32 (v : Z) : list Z := [(v / 16777216) mod 256; (v / 65536) mod 256; (v / 256) mod 256; v mod 256].
Definition sub (l : list Z) (off len : Z) : list Z := zfirstn len (zskipn off l).
Definition set_range (l : list Z) (off : Z) (data : list Z) : list Z := zfirstn off l ++ data ++ zskipn (off + zlen data) l.
Definition insert_at (l : list Z) (off : Z) (data : list Z) : list Z := zfirstn off l ++ data ++ zskipn off l.

Definition qd (m : dns) := be16 (d_hdr m) 4.
Definition an (m : dns) := be16 (d_hdr m) 6.
Definition ns (m : dns) := be16 (d_hdr m) 8.
Definition ar (m : dns) := be16 (d_hdr m) 10.
Definition set_count (m : dns) (off v : Z) : dns :=
  mkdns (set_range (d_hdr m) off (to_be16 (w16 v))) (d_rec m) (d_aidx m) (d_nidx m) (d_ridx m).

Definition dns_empty : dns := mkdns (repeat 0 12) [] 0 0 0.

(* C strings: a char buffer turned into std::string stops at the first NUL *)
Fixpoint cstr (l : list Z) : list Z := match l with [] => [] | x :: r => if x =? 0 then [] else x :: cstr r end.

(* ---- InputMemoryStream over a list: (pos, limit) ---- *)
Definition M : Z := EX_malformed_packet.

(* skip_to_dname_end: returns the new position *)
Fixpoint skip_dname (fuel : nat) (d : list Z) (pos lim : Z) : res Z :=
  match fuel with
  | O => OutOfFuel
  | S f =>
      if lim <=? pos then Ok pos else
      let v := at_ d pos in
      let pos1 := pos + 1 in
      if v =? 0 then Ok pos1
      else if Z.land v 192 =? 192 then (if lim <? pos1 + 1 then Throw M else Ok (pos1 + 1))
      else if Z.land v 192 =? 0 then (if lim <? pos1 + v then Throw M else skip_dname f d (pos1 + v) lim)
      else Throw M
  end.

Definition skip_n (pos lim n : Z) : res Z := if lim <? pos + n then Throw M else Ok (pos + n).

Fixpoint skip_section (n : nat) (d : list Z) (pos lim : Z) : res Z :=
  match n with
  | O => Ok pos
  | S k =>
      do p1 <- skip_dname (S (length d)) d pos lim;
      do p2 <- skip_n p1 lim 8;
      do p3 <- skip_n p2 lim 2;
      let sz := be16 d p2 in
      do p4 <- skip_n p3 lim sz;
      skip_section k d p4 lim
  end.

Fixpoint skip_questions (n : nat) (d : list Z) (pos lim : Z) : res Z :=
  match n with
  | O => Ok pos
  | S k => do p1 <- skip_dname (S (length d)) d pos lim; do p2 <- skip_n p1 lim 4; skip_questions k d p2 lim
  end.

Definition dns_parse (b : list Z) : res dns :=
  if zlen b <? 12 then Throw M else
  let hdr := zfirstn 12 b in
  let d := zskipn 12 b in
  let m0 := mkdns hdr d 0 0 0 in
  match d with
  | [] => Ok m0
  | _ =>
      let lim := zlen d in
      do a <- skip_questions (Z.to_nat (qd m0)) d 0 lim;
      do n <- skip_section (Z.to_nat (an m0)) d a lim;
      do r <- skip_section (Z.to_nat (ns m0)) d n lim;
      Ok (mkdns hdr d a n r)
  end.

(* ---- compose_name: returns (bytes consumed at the start position, expanded name as written to the char buffer) ---- *)
Fixpoint compose_go (fuel : nat) (d : list Z) (p : Z) (out : list Z) (jumps : Z) (endp : option Z) : res (Z * list Z) :=
  match fuel with
  | O => OutOfFuel
  | S f =>
      let e := zlen d in
      if e <=? p then Throw M else
      let b := at_ d p in
      if b =? 0 then Ok ((match endp with Some x => x | None => p + 1 end), out)
      else if Z.land b 192 =? 192 then
        if 30 <? jumps then Throw EX_dns_decompression_pointer_loops else
        if e <? p + 2 then Throw M else
        let index := Z.land (be16 d p) 16383 in
        if (index <? 12) || (e <=? index - 12) then Throw EX_dns_decompression_pointer_out_of_bounds else
        compose_go f d (index - 12) out (jumps + 1) (match endp with Some x => Some x | None => Some (p + 2) end)
      else
        let size := b in
        let p1 := p + 1 in
        if (e <? p1 + size) || (255 <? zlen out + size + 1) then Throw M else
        let out1 := match out with [] => [] | _ => out ++ [46] end in
        compose_go f d (p1 + size) (out1 ++ sub d p1 size) jumps endp
  end.

(* current_out_ptr - out_ptr counts the dots already written; the C++ tests it BEFORE appending the next dot *)
Definition compose_name (d : list Z) (p : Z) : res (Z * list Z) :=
  do r <- compose_go 700 d p [] 0 None;
  Ok (fst r - p, snd r).

(* ---- encode_domain_name ---- *)
Fixpoint find_dot (l : list Z) (i : Z) (from : Z) : option Z :=
  match l with
  | [] => None
  | x :: r => if (from <=? i) && (x =? 46) then Some i else find_dot r (i + 1) from
  end.

Fixpoint encode_go (fuel : nat) (dn : list Z) (last : Z) : list Z :=
  match fuel with
  | O => []
  | S f =>
      match find_dot dn 0 (last + 1) with
      | Some idx => w8 (idx - last) :: sub dn last (idx - last) ++ encode_go f dn (idx + 1)
      | None => w8 (zlen dn - last) :: zskipn last dn
      end
  end.

Definition encode_domain_name (dn : list Z) : list Z :=
  match dn with
  | [] => [0]
  | _ => encode_go (S (length dn)) dn 0 ++ [0]
  end.

(* ---- getters ---- *)
Inductive rr := mkrr (name : list Z) (type cls ttl pref : Z) (data : list Z).

Fixpoint queries_go (fuel : nat) (d : list Z) (pos lim : Z) : res (list (list Z * Z * Z)) :=
  match fuel with
  | O => OutOfFuel
  | S f =>
      if lim <=? pos then Ok [] else
      do c <- compose_name d pos;
      do p1 <- skip_n pos lim (fst c);
      do p2 <- skip_n p1 lim 2;
      do p3 <- skip_n p2 lim 2;
      do rest <- queries_go f d p3 lim;
      Ok ((cstr (snd c), be16 d p1, be16 d p2) :: rest)
  end.

Definition dns_queries (m : dns) : res (list (list Z * Z * Z)) :=
  match d_rec m with
  | [] => Ok []
  | d => queries_go (S (length d)) d 0 (d_aidx m)
  end.

Definition is_name_type (t : Z) : bool := (t =? 2) || (t =? 5) || (t =? 39) || (t =? 12) || (t =? 15).

Fixpoint records_go (fuel : nat) (d : list Z) (pos lim : Z) (count : nat) : res (list rr) :=
  match fuel, count with
  | O, _ => OutOfFuel
  | _, O => Ok []
  | S f, S k =>
      if lim <=? pos then Ok [] else
      do c <- compose_name d pos;
      do p1 <- skip_n pos lim (fst c);
      do p2 <- skip_n p1 lim 2;
      do p3 <- skip_n p2 lim 2;
      do p4 <- skip_n p3 lim 4;
      do p5 <- skip_n p4 lim 2;
      let type := be16 d p1 in let cls := be16 d p2 in let ttl := be32 d p3 in
      let dsz0 := be16 d p4 in
      do pm <- (if type =? 15 then skip_n p5 lim 2 else Ok p5);
      let pref := if type =? 15 then be16 d p5 else 0 in
      let dsz := if type =? 15 then w16 (dsz0 - 2) else dsz0 in
      if lim <? pm + dsz then Throw M else
      do r <- (if type =? 28 then do q <- skip_n pm lim 16; Ok (q, sub d pm 16)
               else if type =? 1 then do q <- skip_n pm lim 4; Ok (q, sub d pm 4)
               else if is_name_type type then
                 do c2 <- compose_name d pm; do q <- skip_n pm lim dsz; Ok (q, cstr (snd c2))
               else if type =? 6 then
                 do c1 <- compose_name d pm; do q1 <- skip_n pm lim (fst c1);
                 do c2 <- compose_name d q1; do q2 <- skip_n q1 lim (fst c2);
                 if lim <? q2 + 20 then Throw M else
                 Ok (q2 + 20, encode_domain_name (cstr (snd c1)) ++ encode_domain_name (cstr (snd c2)) ++ sub d q2 20)
               else do q <- skip_n pm lim dsz; Ok (q, sub d pm dsz));
      do rest <- records_go f d (fst r) lim k;
      Ok (mkrr (cstr (snd c)) type cls ttl pref (snd r) :: rest)
  end.

Definition dns_section (m : dns) (start lim : Z) (count : Z) : res (list rr) :=
  if start <? zlen (d_rec m) then records_go (S (length (d_rec m))) (d_rec m) start lim (Z.to_nat count) else Ok [].

(* ---- editing ---- *)
(* update_dname: returns (new data, position after the name); every access unchecked *)
Fixpoint update_dname (fuel : nat) (d : list Z) (p threshold offset : Z) : res (list Z * Z) :=
  match fuel with
  | O => OutOfFuel
  | S f =>
      if (p <? 0) || (zlen d <=? p) then OOB 201 else
      let b := at_ d p in
      if b =? 0 then Ok (d, p + 1)
      else if negb (Z.land b 192 =? 0) then
        if zlen d <? p + 2 then OOB 202 else
        let index := Z.land (be16 d p) 16383 in
        if threshold + 12 <=? index
        then Ok (set_range d p (to_be16 (Z.lor (w16 (index + offset)) 49152)), p + 2)
        else Ok (d, p + 2)
      else update_dname f d (p + b + 1) threshold offset
  end.

Definition contains_dname (t : Z) : bool := (t =? 15) || (t =? 5) || (t =? 12) || (t =? 2).

Fixpoint update_records_go (n : nat) (d : list Z) (p threshold offset : Z) : res (list Z) :=
  match n with
  | O => Ok d
  | S k =>
      do r1 <- update_dname (S (length d)) d p threshold offset;
      let '(d1, p1) := r1 in
      if zlen d1 <? p1 + 10 then OOB 203 else
      let type := be16 d1 p1 in
      let size0 := be16 d1 (p1 + 8) in
      let p2 := p1 + 10 in
      let p3 := if type =? 15 then p2 + 2 else p2 in
      let size := if type =? 15 then w16 (size0 - 2) else size0 in
      do r2 <- (if contains_dname type then update_dname (S (length d1)) d1 p3 threshold offset
               else if type =? 6 then
                 do ra <- update_dname (S (length d1)) d1 p3 threshold offset;
                 update_dname (S (length (fst ra))) (fst ra) (snd ra) threshold offset
               else Ok (d1, p3));
      update_records_go k (fst r2) (p3 + size) threshold offset
  end.

Definition update_records (d : list Z) (section_start num threshold offset : Z) : res (list Z * Z) :=
  do d' <- (if section_start <? zlen d then update_records_go (Z.to_nat num) d section_start threshold offset else Ok d);
  Ok (d', w32 (section_start + offset)).

Definition add_query (m : dns) (name : list Z) (type cls : Z) : res dns :=
  let new_str := encode_domain_name name ++ to_be16 type ++ to_be16 cls in
  let offset := zlen new_str in
  let threshold := d_aidx m in
  do r1 <- update_records (d_rec m) (d_aidx m) (an m) threshold offset;
  do r2 <- update_records (fst r1) (d_nidx m) (ns m) threshold offset;
  do r3 <- update_records (fst r2) (d_ridx m) (ar m) threshold offset;
  if zlen (fst r3) <? threshold then OOB 204 else
  let d' := insert_at (fst r3) threshold new_str in
  Ok (set_count (mkdns (d_hdr m) d' (snd r1) (snd r2) (snd r3)) 4 (qd m + 1)).

(* data as the script passes it: A -> 4 raw bytes, AAAA -> 16 raw bytes, name types -> the name text, else raw *)
Definition record_bytes (name : list Z) (type cls ttl pref : Z) (data : list Z) : list Z :=
  let body :=
    if type =? 1 then zfirstn 4 (data ++ [0;0;0;0])
    else if type =? 28 then zfirstn 16 (data ++ repeat 0 16)
    else if contains_dname type then encode_domain_name data
    else data in
  encode_domain_name name ++ to_be16 type ++ to_be16 cls ++ to_be32 ttl ++
  to_be16 (w16 (zlen body + (if type =? 15 then 2 else 0))) ++ (if type =? 15 then to_be16 pref else []) ++ body.

Definition add_record (m : dns) (which : Z) (name : list Z) (type cls ttl pref : Z) (data : list Z) : res dns :=
  let bytes := record_bytes name type cls ttl pref data in
  let offset := zlen bytes in
  match which with
  | 0 => (* answer: sections authority, additional; threshold = authority index *)
      let threshold := d_nidx m in
      do r2 <- update_records (d_rec m) (d_nidx m) (ns m) threshold offset;
      do r3 <- update_records (fst r2) (d_ridx m) (ar m) threshold offset;
      if zlen (fst r3) <? threshold then OOB 205 else
      Ok (set_count (mkdns (d_hdr m) (insert_at (fst r3) threshold bytes) (d_aidx m) (snd r2) (snd r3)) 6 (an m + 1))
  | 1 => (* authority *)
      let threshold := d_ridx m in
      do r3 <- update_records (d_rec m) (d_ridx m) (ar m) threshold offset;
      if zlen (fst r3) <? threshold then OOB 206 else
      Ok (set_count (mkdns (d_hdr m) (insert_at (fst r3) threshold bytes) (d_aidx m) (d_nidx m) (snd r3)) 8 (ns m + 1))
  | _ => (* additional *)
      Ok (set_count (mkdns (d_hdr m) (d_rec m ++ bytes) (d_aidx m) (d_nidx m) (d_ridx m)) 10 (ar m + 1))
  end.

(* ---- script interface ---- *)
Definition show_err {A} (tag : Z) (r : res A) (f : A -> tok) : tok :=
  match r with
  | Ok a => TL [TN tag; f a]
  | Throw e => TL [TN tag; TN (- e)]
  | OOB n => TL [TN tag; TN (-1000 - n)]
  | OutOfFuel => TL [TN tag; TN (-98)]
  end.

Definition show_rr (r : rr) : tok :=
  match r with mkrr n t c ttl p d => TL [TB n; TN t; TN c; TN ttl; TN p; TB d] end.

Definition dns_show (m : dns) : list tok :=
  [TL [TN (qd m); TN (an m); TN (ns m); TN (ar m)];
   show_err 81 (dns_queries m) (fun qs => TL (map (fun q => match q with (n, t, c) => TL [TB n; TN t; TN c] end) qs));
   show_err 65 (dns_section m (d_aidx m) (d_nidx m) (an m)) (fun rs => TL (map show_rr rs));
   show_err 78 (dns_section m (d_nidx m) (d_ridx m) (ns m)) (fun rs => TL (map show_rr rs));
   show_err 82 (dns_section m (d_ridx m) (zlen (d_rec m)) (ar m)) (fun rs => TL (map show_rr rs));
   TB (d_hdr m ++ d_rec m)].

Definition dns_apply (m : dns) (r : res dns) : option dns * list tok :=
  match r with
  | Ok m' => (Some m', dns_show m')
  | Throw e => (Some m, [TN (- e)])
  | OOB n => (Some m, [TN (-1000 - n)])
  | OutOfFuel => (Some m, [TN (-98)])
  end.

(* ops: 0 new | 1 parse x | 2 addq xname type class | 3 adda | 4 addn | 5 addr  xname type class ttl pref xdata *)
Definition dns_step (st : option dns) (op : Z) (args : list tok) : option dns * list tok :=
  match op, args, st with
  | 0, _, _ => (Some dns_empty, dns_show dns_empty)
  | 1, [TB b], _ =>
      match dns_parse b with
      | Ok m => (Some m, dns_show m)
      | Throw e => (None, [TN (- e)])
      | _ => (None, [TN (-98)])
      end
  | 2, [TB n; TN t; TN c], Some m => dns_apply m (add_query m n t c)
  | 3, [TB n; TN t; TN c; TN ttl; TN p; TB d], Some m => dns_apply m (add_record m 0 n t c ttl p d)
  | 4, [TB n; TN t; TN c; TN ttl; TN p; TB d], Some m => dns_apply m (add_record m 1 n t c ttl p d)
  | 5, [TB n; TN t; TN c; TN ttl; TN p; TB d], Some m => dns_apply m (add_record m 2 n t c ttl p d)
  | _, _, _ => (st, [TN (-3)])
  end.
