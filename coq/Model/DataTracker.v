(* Faithful executable model of Tins::TCPIP::DataTracker (src/tcp_ip/data_tracker.cpp).
   No proofs here.  Sequence comparison is the GENERATED kernel. *)
From LT Require Import Base.Prelude Base.CInt Gen.Kernels.
Local Open Scope Z_scope.

Record dt := mkdt {
  dt_seq : Z;                       (* seq_number_  (uint32) *)
  dt_buf : zmap (list Z);           (* buffered_payload_, key order *)
  dt_total : Z;                     (* total_buffered_bytes_ (uint32) *)
  dt_out : list Z                   (* payload_ *)
}.

Definition dt_new (seq : Z) : dt := mkdt (w32 seq) [] 0 [].

(* DataTracker::store_payload *)
Definition store_payload (st : dt) (seq : Z) (pl : list Z) : dt :=
  match zfind seq (dt_buf st) with
  | None => mkdt (dt_seq st) (zput seq pl (dt_buf st)) (w32 (dt_total st + zlen pl)) (dt_out st)
  | Some old =>
      if zlen old <? zlen pl
      then mkdt (dt_seq st) (zput seq pl (dt_buf st)) (w32 (dt_total st + (zlen pl - zlen old))) (dt_out st)
      else st
  end.

(* iterator after erase: successor in key order, wrapping to begin() *)
Definition next_iter (k : Z) (m : zmap (list Z)) : option Z :=
  match zsucc k m with
  | Some k' => Some k'
  | None => zfirst m
  end.

(* DataTracker::erase_iterator: returns new state and the iterator (as a key) *)
Definition erase_iterator (st : dt) (k : Z) : dt * option Z :=
  let sz := match zfind k (dt_buf st) with Some v => zlen v | None => 0 end in
  let m' := zdel k (dt_buf st) in
  (mkdt (dt_seq st) m' (w32 (dt_total st - sz)) (dt_out st), next_iter k m').

(* the while loop of process_payload *)
Fixpoint drain (fuel : nat) (st : dt) (it : option Z) (added : bool) : res (dt * bool) :=
  match fuel with
  | O => OutOfFuel
  | S f =>
    match it with
    | None => Ok (st, added)
    | Some k =>
      if seq_compare k (dt_seq st) <=? 0 then
        match zfind k (dt_buf st) with
        | None => OOB 1 (* iterator does not designate an element: impossible *)
        | Some pl =>
          if seq_compare k (dt_seq st) <? 0 then
            let fragment_end := w32 (k + zlen pl) in
            if seq_compare fragment_end (dt_seq st) >? 0 then
              (* slice it *)
              let diff := w32 (dt_seq st - k) in
              if zlen pl <? diff then OOB 2 else
              let st1 := mkdt (dt_seq st) (zput k [] (dt_buf st)) (w32 (dt_total st - zlen pl)) (dt_out st) in
              let st2 := store_payload st1 (dt_seq st) (zskipn diff pl) in
              let '(st3, it') := erase_iterator st2 k in
              drain f st3 it' added
            else
              let '(st3, it') := erase_iterator st k in
              drain f st3 it' added
          else
            let st1 := mkdt (w32 (dt_seq st + zlen pl)) (dt_buf st) (dt_total st) (dt_out st ++ pl) in
            let '(st3, it') := erase_iterator st1 k in
            drain f st3 it' true
        end
      else Ok (st, added)
    end
  end.

Definition drain_fuel (st : dt) : nat := (2 * length (dt_buf st) + 2)%nat.

(* DataTracker::process_payload *)
Definition process_payload (st : dt) (seq0 : Z) (pl0 : list Z) : res (dt * bool) :=
  let seq := w32 seq0 in
  let chunk_end := w32 (seq + zlen pl0) in
  if seq_compare chunk_end (dt_seq st) <? 0 then Ok (st, false) else
  let sliced := seq_compare seq (dt_seq st) <? 0 in
  let diff := w32 (dt_seq st - seq) in
  if sliced && (zlen pl0 <? diff) then OOB 3 else
  let pl := if sliced then zskipn diff pl0 else pl0 in
  let seq' := if sliced then dt_seq st else seq in
  let st1 := store_payload st seq' pl in
  let it := match zfind (dt_seq st1) (dt_buf st1) with Some _ => Some (dt_seq st1) | None => None end in
  drain (drain_fuel st1) st1 it false.

(* DataTracker::advance_sequence *)
Fixpoint adv_filter (seq : Z) (m : zmap (list Z)) (total : Z) : zmap (list Z) * Z :=
  match m with
  | [] => ([], total)
  | (k, v) :: r =>
      if seq_compare k seq <=? 0
      then adv_filter seq r (w32 (total - zlen v))
      else let '(r', t') := adv_filter seq r total in ((k, v) :: r', t')
  end.

Definition advance_sequence (st : dt) (seq0 : Z) : dt :=
  let seq := w32 seq0 in
  if seq_compare seq (dt_seq st) <=? 0 then st else
  let '(m', t') := adv_filter seq (dt_buf st) (dt_total st) in
  mkdt seq m' t' (dt_out st).

(* ---- script interface ----
   op 0: new <seq>            -> ok
   op 1: seg <seq> <bytes>    -> r seq out buf total
   op 2: adv <seq>            -> r=0 seq out buf total *)
Definition show (r : Z) (st : dt) : list tok :=
  [TN r; TN (dt_seq st); TB (dt_out st);
   TL (map (fun kv => TL [TN (fst kv); TN (zlen (snd kv))]) (dt_buf st)); TN (dt_total st)].

Definition dt_step (st : dt) (op : Z) (args : list tok) : dt * list tok :=
  match op, args with
  | 0, [TN s] => (dt_new s, [TN 0])
  | 1, [TN s; TB b] | 1, [TN s; TB b; TN _] =>      (* an optional last number: further TCP flags of the segment (FIN, PSH ...); the tracker never sees them *)
      match process_payload st s b with
      | Ok (st', r) => (st', show (b2z r) st')
      | OOB n => (st, [TN (-1); TN n])
      | _ => (st, [TN (-2)])
      end
  | 2, [TN s] => let st' := advance_sequence st s in (st', show 0 st')
  | _, _ => (st, [TN (-3)])
  end.
