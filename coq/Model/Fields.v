(* Header structs as bit images: a packed header of [n] bytes is the number  sum byte_i * 256^i ;
   on this little-endian target an integer member at byte offset o and a bit-field allocated from bit b of byte o
   both occupy bits [8*o + b, 8*o + b + w) of that number.  Member assignment = replace those bits. *)
From Coq Require Import ZArith List Bool String.
From LT Require Import Gen.Layouts.
Import ListNotations.
Local Open Scope Z_scope.

Definition m_name (m : member) : string := match m with (n, _, _, _) => n end.
Definition m_pos (m : member) : Z := match m with (_, off, b, _) => 8 * off + b end.
Definition m_width (m : member) : Z := match m with (_, _, _, w) => w end.

Definition field_get (img p w : Z) : Z := Z.land (Z.shiftr img p) (Z.ones w).
Definition field_set (img p w v : Z) : Z :=
  Z.lor (Z.land img (Z.lnot (Z.shiftl (Z.ones w) p))) (Z.shiftl (Z.land v (Z.ones w)) p).

Definition member_get (img : Z) (m : member) : Z := field_get img (m_pos m) (m_width m).
Definition member_set (img : Z) (m : member) (v : Z) : Z := field_set img (m_pos m) (m_width m) v.

Definition disjoint (a b : member) : bool :=
  (m_pos a + m_width a <=? m_pos b) || (m_pos b + m_width b <=? m_pos a).

Definition fits (sz : Z) (m : member) : bool := (0 <=? m_pos m) && (0 <? m_width m) && (m_pos m + m_width m <=? 8 * sz).

Fixpoint pairwise_disjoint (ms : list member) : bool :=
  match ms with
  | [] => true
  | m :: r => forallb (disjoint m) r && pairwise_disjoint r
  end.

Definition layout_ok (l : layout) : bool :=
  forallb (fits (l_sizeof l)) (l_members l) && (l_union_like l || pairwise_disjoint (l_members l)).

(* image of a byte list *)
Fixpoint image (bytes : list Z) : Z := match bytes with [] => 0 | b :: r => b + 256 * image r end.
Fixpoint unimage (n : nat) (img : Z) : list Z := match n with O => [] | S k => img mod 256 :: unimage k (img / 256) end.
