(* Faithful executable model of Tins::TCPIP::StreamFollower / Stream / Flow / StreamIdentifier
   (src/tcp_ip/stream_follower.cpp, stream.cpp, flow.cpp, stream_identifier.cpp) on top of the DataTracker model.
   No proofs here.  Modelled: default callbacks setup (auto cleanup of delivered payload on), ack tracking off.
   A packet is the abstract content the follower looks at: family, addresses, ports, TCP flags, seq, ack, optional RawPDU. *)
From LT Require Import Base.Prelude Base.CInt Gen.Kernels Model.DataTracker.
Local Open Scope Z_scope.

Record pkt := mkpkt {
  p_v6 : bool; p_src : Z; p_dst : Z;          (* addresses as big-endian numbers: 32 or 128 bits *)
  p_sport : Z; p_dport : Z;
  p_flags : Z; p_seq : Z; p_ack : Z;
  p_data : option (list Z);                   (* the RawPDU under TCP, if any *)
  p_ts : Z                                    (* microseconds *)
}.

Definition FIN := 1. Definition SYN := 2. Definition RST := 4. Definition ACK := 16.
Definition has_flags (p : pkt) (f : Z) : bool := Z.land (p_flags p) f =? f.

(* ---- StreamIdentifier ---- *)
(* serialize(): the address bytes at the start of a zero-filled 16-byte array; arrays compare lexicographically,
   i.e. as big-endian 128-bit numbers *)
Definition ser_addr (v6 : bool) (a : Z) : Z := if v6 then a else a * 2 ^ 96.

Record sid := mksid { sid_v6 : bool; min_addr : Z; max_addr : Z; min_port : Z; max_port : Z }.

Definition sid_make (v6 : bool) (ca cp sa sp : Z) : sid :=
  if sa <? ca then mksid v6 sa ca sp cp
  else if (ca =? sa) && (sp <? cp) then mksid v6 ca sa sp cp
  else mksid v6 ca sa cp sp.

Definition make_identifier (p : pkt) : sid :=
  sid_make (p_v6 p) (ser_addr (p_v6 p) (p_src p)) (p_sport p) (ser_addr (p_v6 p) (p_dst p)) (p_dport p).

(* operator< is lexicographic on (is_v6, min_address, max_address, min_port, max_port); for 128-bit addresses and 16-bit
   ports that is the numeric order of this code (Proofs/Follower.v: sid_code_lt) *)
Definition sid_code (i : sid) : Z :=
  (((b2z (sid_v6 i) * 2 ^ 128 + min_addr i) * 2 ^ 128 + max_addr i) * 65536 + min_port i) * 65536 + max_port i.

(* ---- Flow ---- *)
Definition UNKNOWN := 0. Definition SYN_SENT := 1. Definition ESTABLISHED := 2. Definition FIN_SENT := 3. Definition RST_SENT := 4.

Record flow := mkflow { f_v6 : bool; f_dst : Z; f_dport : Z; f_state : Z; f_dt : dt }.

Definition flow_new (v6 : bool) (dst dport seq : Z) : flow := mkflow v6 dst dport UNKNOWN (dt_new seq).

Definition packet_belongs (f : flow) (p : pkt) : bool :=
  Bool.eqb (f_v6 f) (p_v6 p) && (p_dst p =? f_dst f) && (p_dport p =? f_dport f).

Definition update_state (f : flow) (p : pkt) : flow :=
  if has_flags p FIN then mkflow (f_v6 f) (f_dst f) (f_dport f) FIN_SENT (f_dt f)
  else if has_flags p RST then mkflow (f_v6 f) (f_dst f) (f_dport f) RST_SENT (f_dt f)
  else if (f_state f =? SYN_SENT) && has_flags p ACK then mkflow (f_v6 f) (f_dst f) (f_dport f) ESTABLISHED (f_dt f)
  else if (f_state f =? UNKNOWN) && has_flags p SYN then
    let d := f_dt f in
    mkflow (f_v6 f) (f_dst f) (f_dport f) SYN_SENT (mkdt (w32 (p_seq p + 1)) (dt_buf d) (dt_total d) (dt_out d))
  else f.

(* what a flow reports while processing one packet *)
Inductive fev := FOOO (seq : Z) (pl : list Z) | FData (pl : list Z).

(* Flow::process_packet followed by Stream::on_*_flow_data (auto cleanup: payload cleared after the callback) *)
Definition flow_process (f : flow) (p : pkt) : res (flow * list fev) :=
  let f1 := update_state f p in
  match p_data p with
  | None => Ok (f1, [])
  | Some pl =>
      let d := f_dt f1 in
      let chunk_end := w32 (p_seq p + zlen pl) in
      let cur := dt_seq d in
      let ooo := if (seq_compare chunk_end cur <? 0) || (seq_compare (p_seq p) cur >? 0) then [FOOO (p_seq p) pl] else [] in
      do r <- process_payload d (p_seq p) pl;
      let '(d', added) := r in
      if added : bool then
        Ok (mkflow (f_v6 f1) (f_dst f1) (f_dport f1) (f_state f1) (mkdt (dt_seq d') (dt_buf d') (dt_total d') []),
            ooo ++ [FData (dt_out d')])
      else Ok (mkflow (f_v6 f1) (f_dst f1) (f_dport f1) (f_state f1) d', ooo)
  end.

(* ---- Stream ---- *)
Record stream := mkstream { s_client : flow; s_server : flow; s_create : Z; s_last : Z; s_partial : bool }.

Definition stream_new (p : pkt) : stream :=
  mkstream (flow_new (p_v6 p) (p_dst p) (p_dport p) (p_seq p))
           (flow_new (p_v6 p) (p_src p) (p_sport p) (p_ack p))
           (p_ts p) (p_ts p) (negb (has_flags p SYN)).

Definition is_finished (s : stream) : bool :=
  let c := f_state (s_client s) in let v := f_state (s_server s) in
  if (c =? RST_SENT) || (v =? RST_SENT) then true else (c =? FIN_SENT) && (v =? FIN_SENT).

(* events of the whole follower, in callback order.  A stream is named by what its accessors return:
   family, client address/port, server address/port *)
Record sname := mksname { n_v6 : bool; n_caddr : Z; n_cport : Z; n_saddr : Z; n_sport : Z }.
Definition name_of (s : stream) : sname :=
  mksname (f_v6 (s_server s)) (f_dst (s_server s)) (f_dport (s_server s)) (f_dst (s_client s)) (f_dport (s_client s)).

Inductive ev :=
| ENew (n : sname)
| EOOO (n : sname) (client : bool) (seq : Z) (pl : list Z)
| EData (n : sname) (client : bool) (pl : list Z)
| EClosed (n : sname)
| ETerm (n : sname) (reason : Z).          (* 0 TIMEOUT, 1 BUFFERED_DATA, 2 SACKED_SEGMENTS *)

Definition lift (n : sname) (client : bool) (e : fev) : ev :=
  match e with FOOO q pl => EOOO n client q pl | FData pl => EData n client pl end.

(* Stream::process_packet *)
Definition stream_process (s : stream) (p : pkt) : res (stream * list ev) :=
  let n := name_of s in
  do r <- (if packet_belongs (s_client s) p then
             do x <- flow_process (s_client s) p;
             Ok (mkstream (fst x) (s_server s) (s_create s) (p_ts p) (s_partial s), map (lift n true) (snd x))
           else if packet_belongs (s_server s) p then
             do x <- flow_process (s_server s) p;
             Ok (mkstream (s_client s) (fst x) (s_create s) (p_ts p) (s_partial s), map (lift n false) (snd x))
           else Ok (mkstream (s_client s) (s_server s) (s_create s) (p_ts p) (s_partial s), []));
  let '(s', evs) := r in
  Ok (s', evs ++ (if is_finished s' then [EClosed n] else [])).

(* ---- StreamFollower ---- *)
Record follower := mkfo {
  fo_streams : zmap stream;         (* std::map<stream_id, Stream>, keyed by sid_code *)
  fo_last_cleanup : Z;
  fo_keep_alive : Z; fo_max_chunks : Z; fo_max_bytes : Z; fo_attach : bool
}.

Definition fo_new : follower := mkfo [] 0 300000000 512 3145728 false.

Fixpoint cleanup (m : zmap stream) (keep now : Z) : zmap stream * list ev :=
  match m with
  | [] => ([], [])
  | (k, s) :: r =>
      let '(r', e) := cleanup r keep now in
      if s_last s + keep <=? now then (r', ETerm (name_of s) 0 :: e) else ((k, s) :: r', e)
  end.

Definition maybe_cleanup (fo : follower) (m : zmap stream) (ts : Z) : follower * list ev :=
  if fo_last_cleanup fo + fo_keep_alive fo <=? ts then
    let '(m', e) := cleanup m (fo_keep_alive fo) ts in
    (mkfo m' ts (fo_keep_alive fo) (fo_max_chunks fo) (fo_max_bytes fo) (fo_attach fo), e)
  else (mkfo m (fo_last_cleanup fo) (fo_keep_alive fo) (fo_max_chunks fo) (fo_max_bytes fo) (fo_attach fo), []).

Definition over_limit (fo : follower) (s : stream) : bool :=
  let chunks := zlen (dt_buf (f_dt (s_client s))) + zlen (dt_buf (f_dt (s_server s))) in
  let bytes := w32 (dt_total (f_dt (s_client s)) + dt_total (f_dt (s_server s))) in
  (fo_max_chunks fo <? chunks) || (fo_max_bytes fo <? bytes).

Definition process_packet (fo : follower) (p : pkt) : res (follower * list ev) :=
  let ts := p_ts p in
  let k := sid_code (make_identifier p) in
  let found := zfind k (fo_streams fo) in
  let is_syn := has_flags p SYN && negb (has_flags p ACK) in
  let created :=
    match found with
    | Some s => Some (s, [], false)
    | None =>
        if is_syn || (fo_attach fo && match p_data p with Some _ => true | None => false end) then
          let s := stream_new p in
          let s := if is_syn then s else
            mkstream (mkflow (f_v6 (s_client s)) (f_dst (s_client s)) (f_dport (s_client s)) ESTABLISHED (f_dt (s_client s)))
                     (mkflow (f_v6 (s_server s)) (f_dst (s_server s)) (f_dport (s_server s)) ESTABLISHED (f_dt (s_server s)))
                     (s_create s) (s_last s) (s_partial s) in
          Some (s, [ENew (name_of s)], true)
        else None
    end in
  match created with
  | None => let '(fo', e) := maybe_cleanup fo (fo_streams fo) ts in Ok (fo', e)
  | Some (s, e0, _) =>
      do r <- stream_process s p;
      let '(s', e1) := r in
      let term := over_limit fo s' in
      let e2 := if term then [ETerm (name_of s') 1] else [] in
      let m' := if is_finished s' || term then zdel k (fo_streams fo) else zput k s' (fo_streams fo) in
      let '(fo', e3) := maybe_cleanup fo m' ts in
      Ok (fo', e0 ++ e1 ++ e2 ++ e3)
  end.

(* ---- script interface ----
   op 0: cfg <attach> <keep_alive_us> <max_chunks> <max_bytes>   -> [0]       (new follower)
   op 1: pkt <xsrc> <xdst> <sport> <dport> <flags> <seq> <ack> <data | -1> <ts>    -> the events of this call
         addresses: 4 bytes = IPv4, 16 bytes = IPv6
   op 2: live                                                   -> names of the tracked streams in map order *)
Fixpoint be (b : list Z) (acc : Z) : Z := match b with [] => acc | x :: r => be r (acc * 256 + x) end.
Fixpoint to_be (n : nat) (v : Z) : list Z := match n with O => [] | S m => to_be m (v / 256) ++ [v mod 256] end.

Definition show_addr (v6 : bool) (a : Z) : tok := TB (to_be (if v6 then 16 else 4) a).
Definition show_name (n : sname) : list tok :=
  [show_addr (n_v6 n) (n_caddr n); TN (n_cport n); show_addr (n_v6 n) (n_saddr n); TN (n_sport n)].
Definition show_ev (e : ev) : tok :=
  match e with
  | ENew n => TL (TN 1 :: show_name n)
  | EOOO n c q pl => TL (TN 2 :: show_name n ++ [TN (b2z c); TN q; TB pl])
  | EData n c pl => TL (TN 3 :: show_name n ++ [TN (b2z c); TB pl])
  | EClosed n => TL (TN 4 :: show_name n)
  | ETerm n r => TL (TN 5 :: show_name n ++ [TN r])
  end.

Definition fo_step (fo : follower) (op : Z) (args : list tok) : follower * list tok :=
  match op, args with
  | 0, [TN a; TN k; TN c; TN b] | 0, [TN a; TN k; TN c; TN b; TN _] =>      (* optional: ACK tracking on (its bookkeeping is C19's subject; here it must not change any report) *)
      (mkfo [] 0 k c b (negb (a =? 0)), [TN 0])
  | 1, [TB s; TB d; TN sp; TN dp; TN fl; TN q; TN a; dat; TN ts] | 1, [TB s; TB d; TN sp; TN dp; TN fl; TN q; TN a; dat; TN ts; TL _] =>      (* optional: SACK edges *)
      let v6 := zlen s =? 16 in
      let p := mkpkt v6 (be s 0) (be d 0) sp dp fl q a (match dat with TB x => Some x | _ => None end) ts in
      match process_packet fo p with
      | Ok (fo', e) => (fo', map show_ev e)
      | OOB n => (fo, [TN (-1); TN n])
      | _ => (fo, [TN (-2)])
      end
  | 2, [] => (fo, map (fun kv => TL (show_name (name_of (snd kv)))) (fo_streams fo))
  | _, _ => (fo, [TN (-3)])
  end.

(* a whole capture: the reports of every call, call by call *)
Fixpoint run (fo : follower) (ps : list pkt) : res (follower * list (list ev)) :=
  match ps with
  | [] => Ok (fo, [])
  | p :: r =>
      do x <- process_packet fo p;
      do y <- run (fst x) r;
      Ok (fst y, snd x :: snd y)
  end.

Definition fo_init (attach : bool) (keep chunks bytes : Z) : follower := mkfo [] 0 keep chunks bytes attach.
