(* Faithful executable model of Tins::IPv4Reassembler / Internals::IPv4Stream (src/ip_reassembler.cpp).
   The upper-layer parser is a parameter: [upper_ok proto bytes] says whether pdu_from_flag accepts
   the reassembled payload (it throws malformed_packet otherwise); on acceptance the parsed PDU
   re-serialises to the same bytes (checked by the correspondence run for the protocols it uses). *)
From LT Require Import Base.Prelude Base.CInt Model.TcpOpts.
Local Open Scope Z_scope.

Record ipkt := mkpkt {
  p_id : Z; p_src : Z; p_dst : Z; p_proto : Z; p_ttl : Z; p_tos : Z;
  p_df : bool; p_mf : bool; p_off : Z;          (* 13-bit fragment offset field *)
  p_payload : list Z
}.

Record stream := mkstream {
  s_frags : list (Z * list Z);      (* (byte offset, payload), offset order *)
  s_recv : Z; s_total : Z; s_end : bool;
  s_first : option (Z * Z)          (* ttl, tos of the offset-0 fragment *)
}.
Definition stream0 := mkstream [] 0 0 false None.

Definition key := (Z * Z * Z)%type.
Definition make_key (p : ipkt) : key :=
  if p_src p <? p_dst p then (p_id p, p_src p, p_dst p) else (p_id p, p_dst p, p_src p).
Definition key_eqb (a b : key) : bool :=
  let '(i, x, y) := a in let '(j, u, v) := b in (i =? j) && (x =? u) && (y =? v).

Definition table := list (key * stream).
Fixpoint tfind (k : key) (t : table) : option stream :=
  match t with [] => None | (k', s) :: r => if key_eqb k' k then Some s else tfind k r end.
Fixpoint tdel (k : key) (t : table) : table :=
  match t with [] => [] | (k', s) :: r => if key_eqb k' k then tdel k r else (k', s) :: tdel k r end.
Definition tput (k : key) (s : stream) (t : table) : table := (k, s) :: tdel k t.

(* vector insert keeping offset order; [None] = duplicate offset, ignored *)
Fixpoint frag_insert (off : Z) (pl : list Z) (fs : list (Z * list Z)) : option (list (Z * list Z)) :=
  match fs with
  | [] => Some [(off, pl)]
  | (o, q) :: r =>
      if o <? off then match frag_insert off pl r with Some r' => Some ((o, q) :: r') | None => None end
      else if o =? off then None
      else Some ((off, pl) :: fs)
  end.

Definition extract_offset (p : ipkt) : Z := w16 (p_off p * 8).

Definition add_fragment (s : stream) (p : ipkt) : stream :=
  let off := extract_offset p in
  match frag_insert off (p_payload p) (s_frags s) with
  | None => s
  | Some fs =>
      let sz := zlen (p_payload p) in
      let s1 := mkstream fs (s_recv s + sz)
                  (if p_mf p then s_total s else off + sz)
                  (if p_mf p then s_end s else true)
                  (if off =? 0 then Some (p_ttl p, p_tos p) else s_first s) in
      s1
  end.

Definition is_complete (s : stream) : bool :=
  if negb (s_end s) || negb (s_recv s =? s_total s) then false
  else match s_frags s with (o, _) :: _ => o =? 0 | [] => false end.

(* contiguity re-check of allocate_pdu *)
Fixpoint assemble (expected : Z) (fs : list (Z * list Z)) : option (list Z) :=
  match fs with
  | [] => Some []
  | (o, q) :: r =>
      if expected =? o then
        match assemble (o + zlen q) r with Some b => Some (q ++ b) | None => None end
      else None
  end.

Inductive outcome :=
| NotFragmented
| Fragmented
| Reassembled (ttl tos : Z) (payload : list Z)
| Malformed.

Section WithUpper.
  Variable upper_ok : Z -> list Z -> bool.

  Definition is_fragmented (p : ipkt) : bool := p_mf p || negb (p_off p =? 0).

  Definition process (t : table) (p : ipkt) : table * outcome :=
    match p_payload p with
    | [] => (t, NotFragmented)             (* no inner PDU *)
    | _ =>
      if is_fragmented p then
        let k := make_key p in
        let s := match tfind k t with Some s => s | None => stream0 end in
        let s' := add_fragment s p in
        let t' := tput k s' t in
        if is_complete s' then
          match assemble 0 (s_frags s') with
          | None => (tdel k t', Fragmented)
          | Some bytes =>
              if upper_ok (p_proto p) bytes then
                match s_first s' with
                | Some (ttl, tos) => (tdel k t', Reassembled ttl tos bytes)
                | None => (tdel k t', Reassembled 128 0 bytes)   (* default-constructed IP; unreachable, see theorem *)
                end
              else (t', Malformed)
          end
        else (t', Fragmented)
      else (t, NotFragmented)
    end.
End WithUpper.

(* instance used by the correspondence run: UDP needs 8 bytes of header, TCP is accepted exactly when the TCP option
   model (Model/TcpOpts.v, tied to TCP(buffer) by C03's correspondence) accepts the segment, unknown protocols are raw *)
Definition upper_ok_run (proto : Z) (b : list Z) : bool :=
  if proto =? 17 then 8 <=? zlen b
  else if proto =? 6 then match tcp_reserialize b with Ok _ => true | _ => false end
  else true.

(* script: pkt <id> <src> <dst> <proto> <ttl> <tos> <df> <mf> <off13> x<payload> *)
Definition ipr_pkt (t : table) (id src dst proto ttl tos df mf off : Z) (pl : list Z) : table * list tok :=
  let p := mkpkt id src dst proto ttl tos (negb (df =? 0)) (negb (mf =? 0)) off pl in
  match process upper_ok_run t p with
  | (t', NotFragmented) => (t', [TN 0])
  | (t', Fragmented) => (t', [TN 1])
  | (t', Reassembled ttl tos b) => (t', [TN 2; TN ttl; TN tos; TB b])
  | (t', Malformed) => (t', [TN (-1)])
  end.

(* an optional last number: octets of the captured frame behind the IP total length (padding, trailer); IP(buffer) cuts the
   payload at the total length, so they are not part of the packet the reassembler sees *)
Definition ipr_step (t : table) (op : Z) (args : list tok) : table * list tok :=
  match op, args with
  | 0, [TN id; TN src; TN dst; TN proto; TN ttl; TN tos; TN df; TN mf; TN off; TB pl] => ipr_pkt t id src dst proto ttl tos df mf off pl
  | 0, [TN id; TN src; TN dst; TN proto; TN ttl; TN tos; TN df; TN mf; TN off; TB pl; TN _] => ipr_pkt t id src dst proto ttl tos df mf off pl
  | _, _ => (t, [TN (-3)])
  end.
