(* Executable model of the legacy follower's reassembly, TCPStream::generic_process / safe_insert (src/tcp_stream.cpp), for one
   direction: the same state shape as the DataTracker model (delivery point, std::map of fragments keyed by sequence number,
   delivered bytes; the byte counter of the record is not used), its own comparison kernel (compare_seq_numbers, GENERATED),
   "keep the largest, the newcomer on a tie" on equal starts.  No proofs here. *)
From LT Require Import Base.Prelude Base.CInt Gen.Kernels Model.DataTracker.
Local Open Scope Z_scope.

(* TCPStream::safe_insert *)
Definition store_l (st : dt) (seq : Z) (pl : list Z) : dt :=
  match zfind seq (dt_buf st) with
  | None => mkdt (dt_seq st) (zput seq pl (dt_buf st)) (dt_total st) (dt_out st)
  | Some old =>
      if zlen pl <? zlen old then st
      else mkdt (dt_seq st) (zput seq pl (dt_buf st)) (dt_total st) (dt_out st)
  end.

(* erase_iterator of tcp_stream.cpp: successor, wrapping to begin() *)
Definition erase_l (st : dt) (k : Z) : dt * option Z :=
  let m' := zdel k (dt_buf st) in
  (mkdt (dt_seq st) m' (dt_total st) (dt_out st), next_iter k m').

(* the while loop of generic_process *)
Fixpoint drain_l (fuel : nat) (st : dt) (it : option Z) (added : bool) : res (dt * bool) :=
  match fuel with
  | O => OutOfFuel
  | S f =>
    match it with
    | None => Ok (st, added)
    | Some k =>
      if compare_seq_numbers k (dt_seq st) <=? 0 then
        match zfind k (dt_buf st) with
        | None => OOB 1
        | Some pl =>
          if compare_seq_numbers k (dt_seq st) <? 0 then
            let fragment_end := w32 (k + zlen pl) in
            if compare_seq_numbers fragment_end (dt_seq st) >? 0 then
              let diff := w32 (dt_seq st - k) in
              if zlen pl <? diff then OOB 2 else
              let st2 := store_l st (dt_seq st) (zskipn diff pl) in
              let '(st3, it') := erase_l st2 k in
              drain_l f st3 it' added
            else
              let '(st3, it') := erase_l st k in
              drain_l f st3 it' added
          else
            let st1 := mkdt (w32 (dt_seq st + zlen pl)) (dt_buf st) (dt_total st) (dt_out st ++ pl) in
            let '(st3, it') := erase_l st1 k in
            drain_l f st3 it' true
        end
      else Ok (st, added)
    end
  end.

(* the data part of TCPStream::generic_process for a segment (seq, payload) *)
Definition process_l (st : dt) (seq0 : Z) (pl0 : list Z) : res (dt * bool) :=
  let seq := w32 seq0 in
  let chunk_end := w32 (seq + zlen pl0) in
  if compare_seq_numbers chunk_end (dt_seq st) >=? 0 then
    let sliced := compare_seq_numbers seq (dt_seq st) <? 0 in
    let diff := w32 (dt_seq st - seq) in
    if sliced && (zlen pl0 <? diff) then OOB 3 else
    let pl := if sliced then zskipn diff pl0 else pl0 in
    let seq' := if sliced then dt_seq st else seq in
    let st1 := store_l st seq' pl in
    let it := match zfind (dt_seq st1) (dt_buf st1) with Some _ => Some (dt_seq st1) | None => None end in
    drain_l (drain_fuel st1) st1 it false
  else Ok (st, false).

(* script:  new <seq> -> 0 ; seg <seq> x<bytes> -> <delivered so far> *)
Definition ls_step (st : dt) (op : Z) (args : list tok) : dt * list tok :=
  match op, args with
  | 0, [TN s] => (dt_new s, [TN 0])
  | 1, [TN s; TB b] | 1, [TN s; TB b; TN _] =>
      match process_l st s b with
      | Ok (st', _) => (st', [TB (dt_out st')])
      | OOB n => (st, [TN (-1); TN n])
      | _ => (st, [TN (-2)])
      end
  | _, _ => (st, [TN (-3)])
  end.
