(* Executable model of matches_response (after the repairs) for EthernetII, IP, UDP, TCP, ICMP, DNS, RawPDU.
   The reply is a byte buffer; every read goes through [rd], which yields OOB outside the buffer. *)
From LT Require Import Base.Prelude Base.CInt.
Local Open Scope Z_scope.

Inductive req :=
| REth (src dst : list Z) (inner : option req)                      (* 6-byte addresses *)
| RIP (src dst : list Z) (hsize proto : Z) (id : list Z) (inner : option req)   (* 4-byte addresses, 2-byte id *)
| RUDP (sport dport : list Z) (inner : option req)                  (* 2-byte ports as on the wire *)
| RTCP (sport dport : list Z) (inner : option req)
| RICMP (type : Z) (id seq : list Z)
| RDNS (id : list Z)
| RRaw
| RDot1Q (id : Z) (inner : option req)                              (* 12-bit VLAN id *)
| RIP6 (src dst : list Z) (inner : option req)                      (* 16-byte addresses *)
| RICMP6 (type : Z) (id seq : list Z).

Definition rd (b : list Z) (off len : Z) : res (list Z) :=
  if (off <? 0) || (zlen b <? off + len) then OOB 1 else Ok (zfirstn len (zskipn off b)).

Fixpoint beq (a b : list Z) : bool :=
  match a, b with [], [] => true | x :: r, y :: s => (x =? y) && beq r s | _, _ => false end.

Definition is_multicast6 (a : list Z) : bool := match a with x :: _ => negb (Z.land x 1 =? 0) | [] => false end.
Definition bcast6 : list Z := [255;255;255;255;255;255].
Definition bcast4 : list Z := [255;255;255;255].

Definition inner_match (m : req -> list Z -> res bool) (inner : option req) (b : list Z) : res bool :=
  match inner with Some r => m r b | None => Ok true end.

Definition is_ext (h : Z) : bool :=
  (h =? 0) || (h =? 60) || (h =? 43) || (h =? 44) || (h =? 51) || (h =? 135) || (h =? 59).

(* IPv6::matches_response: the walk over the reply's extension headers; None = "return false" *)
Fixpoint ext_loop (fuel : nat) (cur : Z) (b : list Z) : res (option (Z * list Z)) :=
  match fuel with
  | O => OutOfFuel
  | S f =>
      if (8 <? zlen b) && is_ext cur then
        do l <- rd b 1 1;
        let n := (w8 (nth 0 l 0) + 1) * 8 in
        if zlen b <? n then Ok None else
        do c <- rd b 0 1; ext_loop f (nth 0 c 0) (zskipn n b)
      else Ok (Some (cur, b))
  end.

Fixpoint matches (r : req) (b : list Z) : res bool :=
  match r with
  | RRaw => Ok true
  | RDNS id => if zlen b <? 12 then Ok false else do x <- rd b 0 2; Ok (beq x id)
  | RICMP type id seq =>
      if zlen b <? 8 then Ok false else
      do t <- rd b 0 1; do i <- rd b 4 2; do s <- rd b 6 2;
      let rt := match t with [x] => x | _ => -1 end in
      if ((type =? 8) && (rt =? 0)) || ((type =? 13) && (rt =? 14)) || ((type =? 17) && (rt =? 18))
      then Ok (beq i id && beq s seq) else Ok false
  | RUDP sp dp inner =>
      if zlen b <? 8 then Ok false else
      do s <- rd b 0 2; do d <- rd b 2 2;
      if beq s dp && beq d sp then
        match inner with Some r' => matches r' (zskipn 8 b) | None => Ok false end
      else Ok false
  | RTCP sp dp inner =>
      if zlen b <? 20 then Ok false else
      do s <- rd b 0 2; do d <- rd b 2 2; do o <- rd b 12 1;
      if beq s dp && beq d sp then
        let doff := (match o with [x] => x / 16 | _ => 0 end) * 4 in
        let sz := if zlen b <? doff then zlen b else doff in
        match inner with Some r' => matches r' (zskipn sz b) | None => Ok true end
      else Ok false
  | RIP src dst hsize proto id inner =>
      if zlen b <? 20 then Ok false else
      do p <- rd b 9 1; do rs <- rd b 12 4; do rdst <- rd b 16 4;
      let quoted_hit :=
        match p with
        | [1] =>
            (* ICMP destination unreachable quoting our header (8-byte ICMP header first) *)
            if (8 <? zlen b - 20) && (nth 20 b 0 =? 3) && (20 <=? zlen b - 28) then
              beq (zfirstn 4 (zskipn (28 + 12) b)) src && beq (zfirstn 4 (zskipn (28 + 16) b)) dst &&
              beq (zfirstn 2 (zskipn (28 + 4) b)) id && (nth (28 + 9) b 0 =? proto)
            else false
        | _ => false
        end in
      if quoted_hit then Ok true else
      if (beq src rdst && (beq dst rs || beq dst bcast4)) || (beq dst bcast4 && beq src [0;0;0;0]) then
        (* the reply's own header length (IHL), at least 20, at most the buffer *)
        let ihl := Z.land (nth 0 b 0) 15 * 4 in
        let sz0 := if ihl <? 20 then 20 else ihl in
        let sz := if zlen b <? sz0 then zlen b else sz0 in
        match inner with Some r' => matches r' (zskipn sz b) | None => Ok true end
      else Ok false
  | RDot1Q id inner =>
      if zlen b <? 4 then Ok false else
      do t <- rd b 0 2;
      if Z.land (nth 0 t 0) 15 * 256 + nth 1 t 0 =? id then
        match inner with Some r' => matches r' (zskipn 4 b) | None => Ok true end
      else Ok false
  | RIP6 src dst inner =>
      if zlen b <? 40 then Ok false else
      do nh <- rd b 6 1; do rs <- rd b 8 16; do rdst <- rd b 24 16;
      if beq src rdst && (beq dst rs || ((nth 0 dst 0 =? 255) && (nth 1 dst 0 =? 2))) then
        match inner with
        | None => Ok true
        | Some r' =>
            do x <- ext_loop (S (length b)) (nth 0 nh 0) (zskipn 40 b);
            match x with
            | None => Ok false
            | Some (cur, rest) => if is_ext cur then Ok false else matches r' rest
            end
        end
      else Ok false
  | RICMP6 type id seq =>
      if zlen b <? 8 then Ok false else
      do t <- rd b 0 2; do i <- rd b 4 2; do s <- rd b 6 2;
      let rt := nth 0 t 0 in
      if (type =? 128) && (rt =? 129) then Ok (beq i id && beq s seq)
      else if ((type =? 133) && (rt =? 134)) || ((type =? 135) && (rt =? 136)) then Ok (nth 1 t 0 =? 0)
      else Ok false
  | REth src dst inner =>
      if zlen b <? 14 then Ok false else
      do rdst <- rd b 0 6; do rsrc <- rd b 6 6;
      if beq src rdst && (beq dst rsrc || beq dst bcast6 || is_multicast6 dst) then
        match inner with Some r' => matches r' (zskipn 14 b) | None => Ok true end
      else Ok false
  end.

(* script encoding of a request: nested token lists
   [1 xsrc xdst inner?] [2 xsrc xdst hsize proto xid inner?] [3 xsport xdport inner?] [4 xsport xdport inner?] [5 type xid xseq] [6 xid] [7]
   [8 id inner?] [9 xsrc xdst inner?] [10 type xid xseq] *)
Fixpoint decode (fuel : nat) (t : tok) : option req :=
  match fuel with
  | O => None
  | S f =>
      let inner l := match l with [] => Some None | [x] => match decode f x with Some r => Some (Some r) | None => None end | _ => None end in
      match t with
      | TL (TN 1 :: TB s :: TB d :: rest) => match inner rest with Some i => Some (REth s d i) | None => None end
      | TL (TN 2 :: TB s :: TB d :: TN hs :: TN p :: TB id :: rest) => match inner rest with Some i => Some (RIP s d hs p id i) | None => None end
      | TL (TN 3 :: TB s :: TB d :: rest) => match inner rest with Some i => Some (RUDP s d i) | None => None end
      | TL (TN 4 :: TB s :: TB d :: rest) => match inner rest with Some i => Some (RTCP s d i) | None => None end
      | TL [TN 5; TN ty; TB id; TB sq] => Some (RICMP ty id sq)
      | TL [TN 6; TB id] => Some (RDNS id)
      | TL [TN 7] => Some RRaw
      | TL (TN 8 :: TN id :: rest) => match inner rest with Some i => Some (RDot1Q id i) | None => None end
      | TL (TN 9 :: TB s :: TB d :: rest) => match inner rest with Some i => Some (RIP6 s d i) | None => None end
      | TL [TN 10; TN ty; TB id; TB sq] => Some (RICMP6 ty id sq)
      | _ => None
      end
  end.

Definition match_step (st : unit) (op : Z) (args : list tok) : unit * list tok :=
  match op, args with
  | 0, [r; TB b] =>
      (st, match decode 10 r with
           | Some q => match matches q b with Ok v => [TN (if v then 1 else 0)] | OOB n => [TN (-1000 - n)] | _ => [TN (-98)] end
           | None => [TN (-3)]
           end)
  | _, _ => (st, [TN (-3)])
  end.
