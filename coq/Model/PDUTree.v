(* Executable model of libtins' PDU ownership operations (include/tins/pdu.h, src/pdu.cpp, packet.h).
   A packet is a chain of layers; every layer object has a unique identity (allocation number), so
   aliasing, double ownership and use of freed objects are expressible: a faulty implementation
   would reuse or lose identities.  [l_pok] records whether the layer's parent pointer designates
   its owner (null for a root). *)
From LT Require Import Base.Prelude.
Local Open Scope Z_scope.

Record layer := mklayer { l_id : nat; l_cls : Z; l_tag : Z; l_pok : bool }.
Definition chain := list layer.

Record tstate := mkts {
  ts_vars : list (option chain);   (* 8 user variables followed by 4 Packet wrappers *)
  ts_next : nat;                   (* allocation counter *)
  ts_freed : list nat              (* identities of destroyed layers *)
}.

Definition NV : nat := 8.
Definition NP : nat := 4.
Definition ts0 : tstate := mkts (repeat None (NV + NP)) 0 [].

Definition getv (st : tstate) (i : nat) : option chain := nth i (ts_vars st) None.
Fixpoint set_nth {A} (i : nat) (x : A) (l : list A) : list A :=
  match l, i with
  | [], _ => []
  | _ :: r, O => x :: r
  | y :: r, S j => y :: set_nth j x r
  end.
Definition setv (st : tstate) (i : nat) (c : option chain) : tstate :=
  mkts (set_nth i c (ts_vars st)) (ts_next st) (ts_freed st).

Definition ids (c : chain) : list nat := map l_id c.

(* clone(): fresh objects, same class and fields, parents set by inner_pdu(ptr) *)
Fixpoint fresh_copy (n : nat) (c : chain) : chain :=
  match c with
  | [] => []
  | l :: r => mklayer n (l_cls l) (l_tag l) true :: fresh_copy (S n) r
  end.

Definition alloc_copy (st : tstate) (c : chain) : tstate * chain :=
  (mkts (ts_vars st) (ts_next st + length c) (ts_freed st), fresh_copy (ts_next st) c).

Definition free_chain (st : tstate) (c : chain) : tstate :=
  mkts (ts_vars st) (ts_next st) (ids c ++ ts_freed st).

(* re-parenting the head of a chain that gets linked under an owner / released to the user *)
Definition reparent (c : chain) : chain :=
  match c with [] => [] | l :: r => mklayer (l_id l) (l_cls l) (l_tag l) true :: r end.

Inductive top :=
| Mk (v : nat) (cls tag : Z)
| Clone (v w : nat)            (* also the copy constructor *)
| Assign (v w : nat)           (* copy assignment, same class *)
| Move (v w : nat)             (* move construction; the moved-from object's own fields are unspecified: the script resets its tag to 0 *)
| MAssign (v w : nat)          (* move assignment *)
| SetInner (v w : nat)         (* inner_pdu(PDU* ) : ownership of w moves under v *)
| SetInnerRef (v w : nat)      (* inner_pdu(const PDU&) *)
| Release (v w : nat)          (* v := w.release_inner_pdu() *)
| Div (v w : nat)              (* operator/= *)
| Del (v : nat)
| Tag (v : nat) (depth : nat) (val : Z)
| PkCopy (p q : nat)           (* Packet copy assignment *)
| PkMove (p q : nat).          (* Packet move assignment: swaps the owned pointers *)

Definition is_var (i : nat) : bool := Nat.ltb i NV.
Definition is_pk (i : nat) : bool := Nat.leb NV i && Nat.ltb i (NV + NP).

Definition head_cls (c : chain) : Z := match c with l :: _ => l_cls l | [] => -1 end.

(* fixed repair of PDU::copy_inner_pdu: when the source has no inner layer the target's is destroyed *)
Definition step (st : tstate) (o : top) : tstate :=
  match o with
  | Mk v cls tag =>
      if is_var v then
        match getv st v with
        | None => setv (mkts (ts_vars st) (S (ts_next st)) (ts_freed st)) v (Some [mklayer (ts_next st) cls tag true])
        | Some _ => st
        end
      else st
  | Clone v w =>
      match getv st v, getv st w with
      | None, Some c => if is_var v && is_var w then let '(st1, c') := alloc_copy st c in setv st1 v (Some c') else st
      | _, _ => st
      end
  | Assign v w =>
      match getv st v, getv st w with
      | Some (hv :: tv), Some (hw :: tw) =>
          if is_var v && is_var w && negb (Nat.eqb v w) && (l_cls hv =? l_cls hw) then
            let st1 := free_chain st tv in
            let '(st2, tw') := alloc_copy st1 tw in
            setv st2 v (Some (mklayer (l_id hv) (l_cls hv) (l_tag hw) (l_pok hv) :: tw'))
          else st
      | _, _ => st
      end
  | Move v w =>
      match getv st v, getv st w with
      | None, Some (hw :: tw) =>
          if is_var v && is_var w then
            let st1 := mkts (ts_vars st) (S (ts_next st)) (ts_freed st) in
            setv (setv st1 w (Some [mklayer (l_id hw) (l_cls hw) 0 (l_pok hw)])) v (Some (mklayer (ts_next st) (l_cls hw) (l_tag hw) true :: reparent tw))
          else st
      | _, _ => st
      end
  | MAssign v w =>
      match getv st v, getv st w with
      | Some (hv :: tv), Some (hw :: tw) =>
          if is_var v && is_var w && negb (Nat.eqb v w) && (l_cls hv =? l_cls hw) then
            let st1 := free_chain st tv in
            setv (setv st1 w (Some [mklayer (l_id hw) (l_cls hw) 0 (l_pok hw)])) v (Some (mklayer (l_id hv) (l_cls hv) (l_tag hw) (l_pok hv) :: reparent tw))
          else st
      | _, _ => st
      end
  | SetInner v w =>
      match getv st v, getv st w with
      | Some (hv :: tv), Some cw =>
          if is_var v && is_var w && negb (Nat.eqb v w) then
            let st1 := free_chain st tv in
            setv (setv st1 w None) v (Some (hv :: reparent cw))
          else st
      | _, _ => st
      end
  | SetInnerRef v w =>
      match getv st v, getv st w with
      | Some (hv :: tv), Some cw =>
          if is_var v && is_var w then
            (* the clone is taken first, then the old inner chain is destroyed *)
            let '(st1, cw') := alloc_copy st cw in
            let st2 := free_chain st1 tv in
            setv st2 v (Some (hv :: cw'))
          else st
      | _, _ => st
      end
  | Release v w =>
      match getv st v, getv st w with
      | None, Some (hw :: tw) =>
          if is_var v && is_var w then
            setv (setv st w (Some [hw])) v (match tw with [] => None | _ => Some (reparent tw) end)
          else st
      | _, _ => st
      end
  | Div v w =>
      match getv st v, getv st w with
      | Some cv, Some cw =>
          if is_var v && is_var w then
            let '(st1, cw') := alloc_copy st cw in setv st1 v (Some (cv ++ cw'))
          else st
      | _, _ => st
      end
  | Del v =>
      match getv st v with
      | Some c => if is_var v then setv (free_chain st c) v None else st
      | None => st
      end
  | Tag v depth val =>
      match getv st v with
      | Some c =>
          if is_var v then
            match nth_error c depth with
            | Some l => setv st v (Some (set_nth depth (mklayer (l_id l) (l_cls l) val (l_pok l)) c))
            | None => st
            end
          else st
      | None => st
      end
  | PkCopy p q =>
      if is_pk p && is_pk q then
        if Nat.eqb p q then st else
        let st1 := match getv st p with Some c => free_chain st c | None => st end in
        match getv st q with
        | Some c => let '(st2, c') := alloc_copy st1 c in setv st2 p (Some c')
        | None => setv st1 p None
        end
      else st
  | PkMove p q =>
      if is_pk p && is_pk q then
        if Nat.eqb p q then st else
        let a := getv st p in let b := getv st q in setv (setv st p b) q a
      else st
  end.

(* wrappers that mix a variable and a Packet are expressed with the primitives above by the script layer:
   pkwrap p v  = clone into p ; pkown p v = ownership transfer ; pkrel v p = transfer back ; pkdiv p w = Div *)
Definition step_ext (st : tstate) (code : Z) (a b c : Z) : tstate :=
  let na := Z.to_nat a in let nb := Z.to_nat b in
  if code =? 0 then (step st (Mk na b c))
  else if code =? 1 then (step st (Clone na nb))
  else if code =? 2 then (step st (Clone na nb)          (* copy constructor = clone *))
  else if code =? 3 then (step st (Assign na nb))
  else if code =? 4 then (step st (Move na nb))
  else if code =? 5 then (step st (MAssign na nb))
  else if code =? 6 then (step st (SetInner na nb))
  else if code =? 7 then (step st (SetInnerRef na nb))
  else if code =? 8 then (step st (Release na nb))
  else if code =? 9 then (step st (Div na nb))
  else if code =? 10 then (step st (Del na))
  else if code =? 11 then (step st (Tag na nb c))
  else if code =? 12 then ((* pkwrap p v : p (empty) := Packet( *v ) *)
      let p := (NV + na)%nat in
      match getv st p, getv st nb with
      | None, Some cv => if is_pk p && is_var nb then let '(st1, c') := alloc_copy st cv in setv st1 p (Some c') else st
      | _, _ => st
      end)
  else if code =? 13 then ((* pkown p v *)
      let p := (NV + na)%nat in
      match getv st p, getv st nb with
      | None, Some cv => if is_pk p && is_var nb then setv (setv st nb None) p (Some cv) else st
      | _, _ => st
      end)
  else if code =? 14 then (step st (PkCopy (NV + na) (NV + nb)))
  else if code =? 15 then (step st (PkMove (NV + na) (NV + nb)))
  else if code =? 16 then ((* pkrel v p *)
      let p := (NV + nb)%nat in
      match getv st na with
      | None => if is_var na && is_pk p then setv (setv st p None) na (getv st p) else st
      | Some _ => st
      end)
  else if code =? 17 then ((* pkdiv p w *)
      let p := (NV + na)%nat in
      match getv st p, getv st nb with
      | Some cp, Some cw => if is_pk p && is_var nb then let '(st1, cw') := alloc_copy st cw in setv st1 p (Some (cp ++ cw')) else st
      | _, _ => st
      end)
  else (st).

Definition show_layer (l : layer) : tok := TL [TN (l_cls l); TN (l_tag l); TN (if l_pok l then 1 else 0)].
Fixpoint show_vars (i : nat) (vs : list (option chain)) : list tok :=
  match vs with
  | [] => []
  | None :: r => show_vars (S i) r
  | Some c :: r =>
      TL [TN (if Nat.ltb i NV then Z.of_nat i else 100 + Z.of_nat (i - NV)); TL (map show_layer c)] :: show_vars (S i) r
  end.

Definition tree_step (st : tstate) (op : Z) (args : list tok) : tstate * list tok :=
  let arg n := match nth_error args n with Some (TN z) => z | _ => 0 end in
  let st' := step_ext st op (arg 0%nat) (arg 1%nat) (arg 2%nat) in
  (st', [TL (show_vars 0 (ts_vars st'))]).
