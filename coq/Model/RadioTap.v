(* Faithful executable model of Utils::RadioTapParser / Utils::RadioTapWriter / the RadioTap field
   setters and getters (src/utils/radiotap_parser.cpp, radiotap_writer.cpp, src/radiotap.cpp), for
   headers with a single present-flags word (no extended namespaces).  The buffer is
   RadioTap::options_payload_: index i of the buffer is offset i+4 of the RadioTap header.
   calculate_padding is the GENERATED kernel; the metadata table is Gen.RadioTapMeta. *)
From LT Require Import Base.Prelude Base.CInt Gen.Kernels Gen.RadioTapMeta.
Local Open Scope Z_scope.

Definition MAXF : Z := zlen radiotap_metadata.
Definition meta_size (bit : Z) : Z := fst (nth (Z.to_nat bit) radiotap_metadata (1, 1)).
Definition meta_align (bit : Z) : Z := snd (nth (Z.to_nat bit) radiotap_metadata (1, 1)).

Definition le32 (b : list Z) : Z :=
  match b with b0 :: b1 :: b2 :: b3 :: _ => b0 + 256 * b1 + 65536 * b2 + 16777216 * b3 | _ => 0 end.
Definition to_le32 (v : Z) : list Z := [v mod 256; (v / 256) mod 256; (v / 65536) mod 256; (v / 16777216) mod 256].

(* parser state: current bit, remaining flags (shifted), current pointer; [ps_null] = constructed on an empty buffer *)
Record pstate := mkps { ps_bit : Z; ps_flags : Z; ps_ptr : Z; ps_null : bool }.

(* align_buffer(radiotap_start = start_-4, ptr, n) *)
Definition align_ptr (ptr n : Z) : Z :=
  let off := Z.land (ptr + 4) (n - 1) in if off =? 0 then ptr else ptr + (n - off).

Fixpoint next_field_loop (fuel : nat) (bit flags : Z) : Z * Z :=
  match fuel with
  | O => (bit, flags)
  | S f => if (Z.land flags 1 =? 0) && (bit <? MAXF) then next_field_loop f (bit + 1) (Z.shiftr flags 1) else (bit, flags)
  end.

(* advance_to_next_field; returns the state and whether a field was found *)
Definition advance_to_next_field (s : pstate) : pstate * bool :=
  let '(bit, flags) := next_field_loop 40 (ps_bit s) (ps_flags s) in
  if bit <? MAXF then (mkps bit flags (align_ptr (ps_ptr s) (meta_align bit)) (ps_null s), true)
  else (mkps bit flags (ps_ptr s) (ps_null s), false).

Inductive perr := PMalformed | PUnsupported.

Definition parser_init (buf : list Z) : res pstate :=
  match buf with
  | [] => Ok (mkps MAXF 0 0 true)
  | _ =>
      if zlen buf <? 4 then Throw EX_malformed_packet else
      let flags := le32 buf in
      if 2147483648 <=? flags then Throw EX_other (* extended namespaces: outside the model *) else
      Ok (fst (advance_to_next_field (mkps 0 flags 4 false)))
  end.

Definition has_fields (buf : list Z) (s : pstate) : bool := negb (ps_bit s =? MAXF) && (ps_ptr s <? zlen buf).
Definition current_field (s : pstate) : Z := Z.shiftl 1 (ps_bit s).

Definition advance_field (s : pstate) : pstate :=
  if ps_null s || (ps_bit s =? MAXF) then s else
  let s1 := mkps (ps_bit s + 1) (Z.shiftr (ps_flags s) 1) (ps_ptr s + meta_size (ps_bit s)) false in
  let '(s2, found) := advance_to_next_field s1 in
  if found then s2 else mkps MAXF (ps_flags s2) (ps_ptr s2) false.

Definition zsub {A} (l : list A) (off len : Z) : list A := zfirstn len (zskipn off l).
Definition splice (l : list Z) (off : Z) (ins : list Z) : list Z := zfirstn off l ++ ins ++ zskipn off l.
Definition overwrite (l : list Z) (off : Z) (data : list Z) : list Z :=
  zfirstn off l ++ data ++ zskipn (off + zlen data) l.
Definition erase (l : list Z) (off len : Z) : list Z := zfirstn off l ++ zskipn (off + len) l.
Definition zeros (n : Z) : list Z := repeat 0 (Z.to_nat n).

(* get_bit(value) = round(log2(value)) for the single-bit flags the API passes *)
Definition get_bit (flag : Z) : Z := Z.log2 flag.

(* build_padding_vector *)
Fixpoint build_paddings (fuel : nat) (buf : list Z) (last_ptr : Z) (s : pstate) : list Z :=
  match fuel with
  | O => []
  | S f =>
      if has_fields buf s then
        let bit := ps_bit s in
        let cur := ps_ptr s in
        zeros (cur - last_ptr) ++ [meta_align bit] ++ repeat 1 (Z.to_nat (meta_size bit - 1)) ++
        build_paddings f buf (cur + meta_size bit) (advance_field s)
      else []
  end.

(* update_paddings (with the repaired running offset) *)
Fixpoint skip_while (v : Z) (p : list Z) (i : Z) : list Z * Z :=
  match p with
  | x :: r => if x =? v then skip_while v r (i + 1) else (p, i)
  | [] => ([], i)
  end.

Fixpoint update_paddings (fuel : nat) (buf : list Z) (p : list Z) (i last offset : Z) : list Z :=
  match fuel with
  | O => buf
  | S f =>
      match p with
      | [] => buf
      | _ =>
          let '(p1, start) := skip_while 1 p i in
          let '(p2, i2) := skip_while 0 p1 start in
          match p2 with
          | [] => buf
          | al :: p3 =>
              let offset1 := offset + (start - last) in
              let needed := w8 (calculate_padding al (w32 (offset1 + 4))) in
              let existing := i2 - start in
              let '(buf', offset2) :=
                if needed <? existing then (erase buf offset1 (existing - needed), offset1 - (existing - needed))
                else if existing <? needed then (splice buf offset1 (zeros (needed - existing)), offset1 + (needed - existing))
                else (buf, offset1) in
              update_paddings f buf' p3 (i2 + 1) i2 (offset2 + (i2 - start))
          end
      end
  end.

(* the scan of write_option: returns either "overwrite in place at ptr" or the insertion candidate and parser state *)
Fixpoint scan (fuel : nat) (buf : list Z) (flag : Z) (cand : Z) (s : pstate) : (option Z) * Z * pstate :=
  match fuel with
  | O => (None, cand, s)
  | S f =>
      if has_fields buf s then
        if flag <? current_field s then (None, cand, s)
        else if current_field s =? flag then (Some (ps_ptr s), cand, s)
        else scan f buf flag (ps_ptr s + meta_size (ps_bit s)) (advance_field s)
      else (None, cand, s)
  end.

Definition write_option (buf : list Z) (flag : Z) (data : list Z) : res (list Z) :=
  let bit := get_bit flag in
  if MAXF <=? bit then Throw 11 (* malformed_option *) else
  let is_empty := match buf with [] => true | _ => false end in
  do s0 <- parser_init buf;
  let '(hit, cand, s) := scan 40 buf flag (ps_ptr s0) s0 in
  match hit with
  | Some ptr =>
      if zlen buf <? ptr + zlen data then Throw EX_malformed_packet (* stored field truncated: rejected (repaired) *)
      else Ok (overwrite buf ptr data)
  | None =>
      let offset := if is_empty then 0 else cand in
      if zlen buf <? cand then Throw EX_malformed_packet else
      let paddings := build_paddings 40 buf cand s in
      let padding := calculate_padding (meta_align bit) (w32 (offset + 4)) in
      let buf1 := splice buf offset (zeros padding ++ data) in
      let buf2 := update_paddings 64 buf1 paddings 0 0 (offset + padding + zlen data) in
      let buf3 := if is_empty then zeros 4 ++ buf2 else buf2 in
      let flags := Z.lor (le32 buf3) flag in
      Ok (overwrite buf3 0 (to_le32 flags))
  end.

(* do_find_option *)
Fixpoint skip_to (fuel : nat) (buf : list Z) (flag : Z) (s : pstate) : pstate :=
  match fuel with
  | O => s
  | S f => if has_fields buf s && negb (current_field s =? flag) then skip_to f buf flag (advance_field s) else s
  end.

Definition find_option (buf : list Z) (flag : Z) : res (list Z) :=
  do s0 <- parser_init buf;
  let s := skip_to 40 buf flag s0 in
  if has_fields buf s then
    let size := meta_size (ps_bit s) in
    if zlen buf <? ps_ptr s + size then Throw EX_malformed_packet else Ok (zsub buf (ps_ptr s) size)
  else Throw EX_field_not_present.

(* the typed setters: value bytes as the API produces them *)
Definition setter_data (bit : Z) (v : list Z) : list Z :=
  if bit =? 7 then (match v with x :: _ => [x; 0] | [] => [0; 0] end)   (* signal_quality(uint8_t) -> 16-bit field *)
  else v.

Definition rt_default : list Z :=
  let app b flag data := match write_option b flag data with Ok b' => b' | _ => b end in
  let b0 := [0; 0; 0; 0] in
  let b1 := app b0 8 [108; 9; 160; 0] in          (* channel(2412, 0xa0) *)
  let b2 := app b1 2 [16] in                       (* flags(FCS) *)
  let b3 := app b2 1 [0; 0; 0; 0; 0; 0; 0; 0] in   (* tsft(0) *)
  let b4 := app b3 32 [206] in                     (* dbm_signal(-50) *)
  let b5 := app b4 16384 [0; 0] in                 (* rx_flags(0) *)
  app b5 2048 [0].                                 (* antenna(0) *)

Definition getter_bits : list Z := [0; 1; 2; 3; 5; 6; 7; 11; 12; 14; 15; 17; 18; 19].

Definition rt_show (buf : list Z) : list tok :=
  [TB buf; TN (le32 buf);
   TL (map (fun bit => match find_option buf (Z.shiftl 1 bit) with
                       | Ok v => TL [TN bit; TB v]
                       | Throw e => TL [TN bit; TN (- e)]
                       | _ => TL [TN bit; TN (-99)]
                       end) getter_bits);
   TN (4 + zlen buf)].

(* ops: 0 new | 1 parse x<payload> | 2 set <bit> x<value> | 3 opt <flag> x<data> | 4 noinner;  state = the object, if any *)
Definition rt_apply (buf : list Z) (r : res (list Z)) : option (list Z) * list tok :=
  match r with
  | Ok b' => (Some b', rt_show b')
  | Throw e => (Some buf, [TN (- e)])
  | OOB n => (Some buf, [TN (-1000 - n)])
  | OutOfFuel => (Some buf, [TN (-98)])
  end.

Definition rt_step (st : option (list Z)) (op : Z) (args : list tok) : option (list Z) * list tok :=
  match op, args, st with
  | 0, _, _ => (Some rt_default, rt_show rt_default)
  | 1, [TB b], _ =>
      (* RadioTap(buffer,size): the parser must accept the payload; a frame flagged FCS is rejected here
         (the script's inner frame is a 10-byte ACK without room for an FCS) *)
      match parser_init b with
      | Ok s0 =>
          let s := skip_to 40 b 2 s0 in
          if has_fields b s && negb (Z.land (nth (Z.to_nat (ps_ptr s)) b 0) 16 =? 0)
          then (None, [TN (- EX_malformed_packet)])
          else (Some b, rt_show b)
      | Throw e => (None, [TN (- e)])
      | _ => (None, [TN (-98)])
      end
  | 2, [TN bit; TB v], Some buf => rt_apply buf (write_option buf (Z.shiftl 1 bit) (setter_data bit v))
  | 3, [TN flag; TB d], Some buf => rt_apply buf (write_option buf flag d)
  | 4, [], Some buf => (Some buf, rt_show buf)      (* noinner: the 802.11 frame is taken away; the header does not change *)
  | _, _, _ => (st, [TN (-3)])
  end.
