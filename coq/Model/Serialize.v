(* PDU::size / PDU::serialize (src/pdu.cpp) over an abstract chain of layers: each layer has a header size,
   a trailer size and a write_serialization acting on the buffer handed to it (its own header, everything the
   inner layers produced, its own trailer). *)
From LT Require Import Base.Prelude.
Local Open Scope Z_scope.

Record layer := mklayer { hs : Z; ts : Z; wr : list Z -> list Z }.

Fixpoint total (ls : list layer) : Z := match ls with [] => 0 | l :: r => hs l + ts l + total r end.

Definition bsub (l : list Z) (off len : Z) : list Z := zfirstn len (zskipn off l).
Definition bset (l : list Z) (off : Z) (data : list Z) : list Z := zfirstn off l ++ data ++ zskipn (off + zlen data) l.

(* serialize(buffer, total_sz): the inner chain is serialised at offset header_size() first, then this layer writes *)
Fixpoint serialize_into (ls : list layer) (buf : list Z) : list Z :=
  match ls with
  | [] => buf
  | l :: r => wr l (bset buf (hs l) (serialize_into r (bsub buf (hs l) (total r))))
  end.

Definition serialize (ls : list layer) : list Z := serialize_into ls (repeat 0 (Z.to_nat (total ls))).
