(* InputMemoryStream (include/tins/memory_helpers.h): a cursor (position, end) over a caller's buffer whose
   every operation is guarded by can_read.  A parser written only with these operations is modelled as a
   list of cursor commands; raw pointer use (stream.pointer() handed on with a separately computed length) is the
   command [Raw n], which is NOT guarded. *)
From LT Require Import Base.Prelude.
Local Open Scope Z_scope.

Inductive cmd :=
| Read (n : Z)          (* read<T>() / read(ptr, n): checked *)
| Skip (n : Z)          (* skip(n): checked *)
| Shrink (n : Z)        (* stream.size(n) with n <= remaining, as the layer constructors use it *)
| Raw (n : Z).          (* touching pointer()[0 .. n) without asking the stream *)

Record cur := mkcur { c_pos : Z; c_end : Z }.

Definition step (len : Z) (c : cur) (k : cmd) : res cur :=
  match k with
  | Read n | Skip n => if (n <? 0) || (c_end c - c_pos c <? n) then Throw EX_malformed_packet else Ok (mkcur (c_pos c + n) (c_end c))
  | Shrink n => if (n <? 0) || (c_end c - c_pos c <? n) then Throw EX_malformed_packet else Ok (mkcur (c_pos c) (c_pos c + n))
  | Raw n => if (n <? 0) || (len <? c_pos c + n) then OOB 1 else Ok c
  end.

Fixpoint run (len : Z) (c : cur) (prog : list cmd) : res cur :=
  match prog with
  | [] => Ok c
  | k :: r => do c' <- step len c k; run len c' r
  end.

Definition checked (k : cmd) : bool := match k with Raw _ => false | _ => true end.
