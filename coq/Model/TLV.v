(* Executable model of the type-length-value option codecs that share one shape in libtins:
     DHCP (src/dhcp.cpp: 1-byte code, 1-byte length, PAD/END carry no length octet when parsed),
     DHCPv6 (src/dhcpv6.cpp: 2+2 bytes, big endian),
     802.11 management tagged parameters (src/dot11/dot11_base.cpp: 1+1, a trailing single octet is ignored),
     ICMPv6 neighbour-discovery options (src/icmpv6.cpp: 1+1, the length counts 8-octet units including the 2 header octets),
     PPPoE discovery tags (src/pppoe.cpp: 2+2, the tag type is kept in host order, i.e. little endian on the wire view).
   The parsing constructors' option loops and the write_serialization option loops, over the option region only.  No proofs here. *)
From LT Require Import Base.Prelude Base.CInt.
Local Open Scope Z_scope.

Record fmt := mkfmt {
  f_cw : Z;                 (* octets of the code: 1 or 2 *)
  f_cle : bool;             (* 2-octet code read in host (little-endian) order *)
  f_lw : Z;                 (* octets of the length: 1 or 2, big endian *)
  f_special : Z -> bool;    (* codes that carry no length octet when parsed *)
  f_unit8 : bool;           (* length counts units of 8 octets, header included *)
  f_lenient : bool          (* the loop runs only while a whole header is left; a shorter tail is ignored *)
}.

Definition M : Z := EX_malformed_packet.

Definition dec_num (le : bool) (bs : list Z) : Z :=
  match bs with
  | [a] => a
  | [a; b] => if le then a + 256 * b else 256 * a + b
  | _ => 0
  end.

Definition enc_num (w : Z) (le : bool) (n : Z) : list Z :=
  if w =? 1 then [n mod 256] else if le then [n mod 256; (n / 256) mod 256] else [(n / 256) mod 256; n mod 256].

Fixpoint decode (fuel : nat) (f : fmt) (b : list Z) : res (list (Z * list Z)) :=
  match fuel with
  | O => OutOfFuel
  | S n =>
      if f_lenient f && (zlen b <? f_cw f + f_lw f) then Ok [] else
      match b with
      | [] => Ok []
      | _ =>
        if zlen b <? f_cw f then Throw M else
        let code := dec_num (f_cle f) (zfirstn (f_cw f) b) in
        let b1 := zskipn (f_cw f) b in
        if f_special f code then do r <- decode n f b1; Ok ((code, []) :: r) else
        if zlen b1 <? f_lw f then Throw M else
        let l := dec_num false (zfirstn (f_lw f) b1) in
        let b2 := zskipn (f_lw f) b1 in
        if f_unit8 f && (8 * l <? 2) then Throw M else
        let sz := if f_unit8 f then 8 * l - 2 else l in
        if zlen b2 <? sz then Throw M else
        do r <- decode n f (zskipn sz b2); Ok ((code, zfirstn sz b2) :: r)
      end
  end.

Definition tlv_decode (f : fmt) (b : list Z) : res (list (Z * list Z)) := decode (S (length b)) f b.

(* the option loop of write_serialization: code, length_field, data (length_field = data size for options built by the API or by the parser) *)
Definition encode_opt (f : fmt) (o : Z * list Z) : list Z :=
  enc_num (f_cw f) (f_cle f) (fst o) ++
  enc_num (f_lw f) false (if f_unit8 f then (zlen (snd o) + 2) / 8 else zlen (snd o)) ++ snd o.

Definition tlv_encode (f : fmt) (os : list (Z * list Z)) : list Z := flat_map (encode_opt f) os.

(* the cached size of the option area under add_option / remove_option (first option with the code), as the classes keep it:
   options_size_ += / -= data size + the two header fields *)
Definition opt_size (f : fmt) (o : Z * list Z) : Z := f_cw f + f_lw f + zlen (snd o).

Fixpoint remove_first (c : Z) (os : list (Z * list Z)) : option (Z * list Z) * list (Z * list Z) :=
  match os with
  | [] => (None, [])
  | o :: r => if fst o =? c then (Some o, r) else let '(x, r') := remove_first c r in (x, o :: r')
  end.

Inductive hop := HAdd (o : Z * list Z) | HRem (c : Z).

Definition hstep (f : fmt) (st : list (Z * list Z) * Z) (h : hop) : list (Z * list Z) * Z :=
  match h with
  | HAdd o => (fst st ++ [o], snd st + opt_size f o)
  | HRem c => match remove_first c (fst st) with
              | (Some o, r) => (r, snd st - opt_size f o)
              | (None, _) => st
              end
  end.

Definition hrun (f : fmt) (hs : list hop) : list (Z * list Z) * Z := fold_left (hstep f) hs ([], 0).

Definition no_special (c : Z) : bool := false.
Definition dhcp_special (c : Z) : bool := (c =? 0) || (c =? 255).

Definition fmt_dhcp := mkfmt 1 false 1 dhcp_special false false.
Definition fmt_dhcpv6 := mkfmt 2 false 2 no_special false false.
Definition fmt_dot11 := mkfmt 1 false 1 no_special false true.
Definition fmt_icmpv6 := mkfmt 1 false 1 no_special true false.
Definition fmt_pppoe := mkfmt 2 true 2 no_special false false.

Definition fmt_of (n : Z) : option fmt :=
  if n =? 0 then Some fmt_dhcp else if n =? 1 then Some fmt_dhcpv6 else if n =? 2 then Some fmt_dot11
  else if n =? 3 then Some fmt_icmpv6 else if n =? 4 then Some fmt_pppoe else None.

(* script:  dec <fmt> x<region>          -> 0 [[code xdata] ...] | -<exception>
            enc <fmt> [[code xdata] ...] -> x<region>
            hist <fmt> [[0 code xdata] | [1 code] ...] -> <cached size> x<region>   (add / remove-first history) *)
Fixpoint opts_of_toks (l : list tok) : option (list (Z * list Z)) :=
  match l with
  | [] => Some []
  | TL [TN c; TB d] :: r => match opts_of_toks r with Some os => Some ((c, d) :: os) | None => None end
  | _ => None
  end.

Fixpoint hops_of_toks (l : list tok) : option (list hop) :=
  match l with
  | [] => Some []
  | TL [TN 0; TN c; TB d] :: r => match hops_of_toks r with Some hs => Some (HAdd (c, d) :: hs) | None => None end
  | TL [TN 1; TN c] :: r => match hops_of_toks r with Some hs => Some (HRem c :: hs) | None => None end
  | _ => None
  end.

Definition tlv_step (st : unit) (op : Z) (args : list tok) : unit * list tok :=
  match op, args with
  | 0, [TN n; TB b] =>
      (st, match fmt_of n with
           | Some f => match tlv_decode f b with
                       | Ok os => [TN 0; TL (map (fun o => TL [TN (fst o); TB (snd o)]) os)]
                       | Throw e => [TN (- e)]
                       | _ => [TN (-98)]
                       end
           | None => [TN (-3)]
           end)
  | 1, [TN n; TL l] =>
      (st, match fmt_of n, opts_of_toks l with
           | Some f, Some os => [TB (tlv_encode f os)]
           | _, _ => [TN (-3)]
           end)
  | 2, [TN n; TL l] =>
      (st, match fmt_of n, hops_of_toks l with
           | Some f, Some hs => let r := hrun f hs in [TN (snd r); TB (tlv_encode f (fst r))]
           | _, _ => [TN (-3)]
           end)
  | _, _ => (st, [TN (-3)])
  end.
