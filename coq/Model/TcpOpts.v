(* Executable model of the TCP header/option codec (src/tcp.cpp after the repair of calculate_options_size):
   TCP(buffer,size) option loop, write_option, calculate_options_size, header_size; pad_options_size is the
   GENERATED kernel. *)
From LT Require Import Base.Prelude Base.CInt Gen.Kernels.
Local Open Scope Z_scope.

(* PDUOption: option kind, length_field, data *)
Record topt := mkopt { o_kind : Z; o_lf : Z; o_data : list Z }.

Definition M : Z := EX_malformed_packet.

(* the option loop of TCP::TCP(const uint8_t*, uint32_t) over the option region [20, data_offset*4) *)
Fixpoint parse_options (fuel : nat) (r : list Z) : res (list topt) :=
  match fuel with
  | O => OutOfFuel
  | S f =>
      match r with
      | [] => Ok []
      | t :: r1 =>
          if t =? 0 then Ok []                                   (* EOL: the rest of the region is skipped *)
          else if t =? 1 then do rest <- parse_options f r1; Ok (mkopt 1 0 [] :: rest)
          else
            match r1 with
            | [] => Throw M                                      (* length byte outside the header *)
            | len :: r2 =>
                if len <? 2 then Throw M else
                let n := len - 2 in
                if zlen r2 <? n then Throw M else
                do rest <- parse_options f (zskipn n r2);
                Ok (mkopt t n (zfirstn n r2) :: rest)
            end
      end
  end.

Definition tcp_parse_options (r : list Z) : res (list topt) := parse_options (S (length r)) r.

(* TCP::write_option *)
Definition write_option (o : topt) : list Z :=
  if 1 <? o_kind o then
    let length := if o_lf o =? zlen (o_data o) then w8 (o_lf o + 2) else w8 (o_lf o) in
    w8 (o_kind o) :: length :: o_data o
  else [w8 (o_kind o)].

Definition write_options (os : list topt) : list Z := flat_map write_option os.

(* TCP::calculate_options_size (repaired: mirrors write_option) *)
Definition option_size (o : topt) : Z := if 1 <? o_kind o then 2 + zlen (o_data o) else 1.
Definition options_size (os : list topt) : Z := fold_right (fun o a => option_size o + a) 0 os.

Definition tcp_header_size (os : list topt) : Z := 20 + tcp_pad_options_size (options_size os).

(* the options area as TCP::write_serialization emits it: options, then zero padding to a multiple of 4 *)
Definition tcp_options_area (os : list topt) : list Z :=
  let sz := options_size os in
  write_options os ++ repeat 0 (Z.to_nat (tcp_pad_options_size sz - sz)).

Definition at_default (b : list Z) (i : Z) : Z := nth (Z.to_nat i) b 0.

(* whole-segment view used by the correspondence run: header fields are opaque bytes 0..19 *)
Definition tcp_reserialize (b : list Z) : res (list Z) :=
  if zlen b <? 20 then Throw M else
  let doff := at_default b 12 / 16 in
  if (zlen b <? doff * 4) || (doff * 4 <? 20) then Throw M else
  do os <- tcp_parse_options (zfirstn (doff * 4 - 20) (zskipn 20 b));
  Ok (tcp_options_area os).

(* script: tcpo x<segment> -> option area as re-serialised, or the exception *)
Definition tcpo_step (st : unit) (op : Z) (args : list tok) : unit * list tok :=
  match op, args with
  | 0, [TB b] => (st, match tcp_reserialize b with Ok a => [TN (20 + zlen a); TB a] | Throw e => [TN (- e)] | _ => [TN (-98)] end)
  | _, _ => (st, [TN (-3)])
  end.
