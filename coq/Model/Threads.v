(* The argument behind C18, as a model: threads that touch only their own objects and READ the library's static objects.
   What ties it to libtins is Gen/Statics.v (the generated inventory of every static object in a writable section) and the
   ThreadSanitizer run of the real code.  No proofs here. *)
From Coq Require Import ZArith List Bool Arith.
Import ListNotations.

Inductive loc := Priv (owner n : nat) | Shared (s : nat).
Record access := mkacc { a_thread : nat; a_loc : loc; a_write : bool }.

(* two accesses conflict: different threads, same location, at least one write *)
Definition conflict (a b : access) : Prop :=
  a_thread a <> a_thread b /\ a_loc a = a_loc b /\ (a_write a = true \/ a_write b = true).

(* the discipline libtins' code follows when every static object is immutable after start-up: own objects, or reads *)
Definition disciplined (a : access) : Prop :=
  match a_loc a with Priv t _ => t = a_thread a | Shared _ => a_write a = false end.

(* results: each thread steps a private state, reading the shared (immutable) part *)
Section Run.
  Variables Sh P : Type.
  Variable step : nat -> Sh -> P -> P.           (* thread id, shared statics, own state -> own state *)

  Definition upd (f : nat -> P) (t : nat) (v : P) : nat -> P := fun u => if Nat.eqb u t then v else f u.

  Fixpoint run (sh : Sh) (st : nat -> P) (schedule : list nat) : nat -> P :=
    match schedule with
    | [] => st
    | t :: r => run sh (upd st t (step t sh (st t))) r
    end.

  Fixpoint alone (sh : Sh) (t : nat) (p : P) (n : nat) : P :=
    match n with O => p | S m => alone sh t (step t sh p) m end.
End Run.
