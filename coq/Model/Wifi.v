(* Executable model of the 802.11 decryption code of src/crypto.cpp (after the repairs): RC4, WEPDecrypter::decrypt,
   RC4Key::from_packet (TKIP key mixing, S-box GENERATED from the source), SessionKeys::tkip_decrypt_unicast and
   SessionKeys::ccmp_decrypt_unicast (parametric in the block cipher), and RSNHandshakeCapturer's bookkeeping.
   Every access to the frame body goes through getb/setb, which yield OOB outside the vector.  No proofs here. *)
From LT Require Import Base.Prelude Base.CInt Gen.CrcTable Gen.TkipSbox Model.Checksum.
Local Open Scope Z_scope.

Definition nthz (l : list Z) (i : Z) : Z := nth (Z.to_nat i) l 0.
Definition upd (l : list Z) (i v : Z) : list Z := zfirstn i l ++ v :: zskipn (i + 1) l.
Definition getb (b : list Z) (i : Z) : res Z := if (i <? 0) || (zlen b <=? i) then OOB 1 else Ok (nthz b i).
Definition setb (b : list Z) (i v : Z) : res (list Z) := if (i <? 0) || (zlen b <=? i) then OOB 2 else Ok (upd b i v).

(* ---- RC4 ---- the 256-byte state is an array of its own: indices are reduced mod 256 by the code *)
Definition sw (s : list Z) (i j : Z) : list Z := let a := nthz s i in let b := nthz s j in upd (upd s i b) j a.

Fixpoint ksa_go (n : nat) (i j : Z) (s key : list Z) : list Z :=
  match n with
  | O => s
  | S m => let j' := (j + nthz s i + nthz key (i mod zlen key)) mod 256 in ksa_go m (i + 1) j' (sw s i j') key
  end.
Definition ksa (key : list Z) : list Z := ksa_go 256 0 0 (map Z.of_nat (seq 0 256)) key.

(* rc4(start, end, key, output) with start = buf+src, output = buf+dst: n bytes, in place *)
Fixpoint rc4_go (n : nat) (s : list Z) (i j : Z) (buf : list Z) (src dst : Z) : res (list Z) :=
  match n with
  | O => Ok buf
  | S m =>
      let i' := (i + 1) mod 256 in
      let j' := (j + nthz s i') mod 256 in
      let s' := sw s i' j' in
      let k := nthz s' ((nthz s' i' + nthz s' j') mod 256) in
      do x <- getb buf src;
      do buf' <- setb buf dst (Z.lxor x k);
      rc4_go m s' i' j' buf' (src + 1) (dst + 1)
  end.

Definition le32 (v : Z) : list Z := [Z.land v 255; Z.land (Z.shiftr v 8) 255; Z.land (Z.shiftr v 16) 255; Z.land (Z.shiftr v 24) 255].

Fixpoint beql (a b : list Z) : bool :=
  match a, b with [], [] => true | x :: r, y :: t => (x =? y) && beql r t | _, _ => false end.

(* the ICV comparison shared by WEP and TKIP: CRC-32 of the first n bytes against the 4 bytes that follow, little endian *)
Definition icv_ok (buf : list Z) (n : Z) : res bool :=
  let crc := crc32 (zfirstn n buf) in
  do c0 <- getb buf n; do c1 <- getb buf (n + 1); do c2 <- getb buf (n + 2); do c3 <- getb buf (n + 3);
  Ok (beql [c0; c1; c2; c3] (le32 crc)).

(* ---- WEPDecrypter::decrypt(RawPDU&, password): Some plaintext = the bytes handed to the SNAP constructor ---- *)
Definition wep_decrypt (pload password : list Z) : res (option (list Z)) :=
  if zlen pload <=? 8 then Ok None else
  do iv0 <- getb pload 0; do iv1 <- getb pload 1; do iv2 <- getb pload 2;
  let key := [iv0; iv1; iv2] ++ password in
  do buf <- rc4_go (Z.to_nat (zlen pload - 4)) (ksa key) 0 0 pload 4 0;
  let n := zlen pload - 8 in
  do good <- icv_ok buf n;
  if good then Ok (Some (zfirstn n buf)) else Ok None.

(* ---- TKIP ---- *)
Definition sbox16 (i : Z) : Z := Z.lxor (nthz tkip_sbox0 (Z.land i 255)) (nthz tkip_sbox1 (Z.shiftr i 8)).
Definition join (b1 b2 : Z) : Z := b1 * 256 + b2.
Definition rot1 (v : Z) : Z := w16 (Z.lor (Z.land (Z.shiftr v 1) 32767) (Z.shiftl v 15)).
Definition add16 (a b : Z) : Z := w16 (a + b).

(* one of the four unrolled double rounds of phase 1 *)
Definition p1_round (tk : list Z) (i : Z) (p : Z * Z * Z * Z * Z) : Z * Z * Z * Z * Z :=
  let '(p0, p1, p2, p3, p4) := p in
  let t a b := join (nthz tk a) (nthz tk b) in
  let p0 := add16 p0 (sbox16 (Z.lxor p4 (t 1 0))) in
  let p1 := add16 p1 (sbox16 (Z.lxor p0 (t 5 4))) in
  let p2 := add16 p2 (sbox16 (Z.lxor p1 (t 9 8))) in
  let p3 := add16 p3 (sbox16 (Z.lxor p2 (t 13 12))) in
  let p4 := add16 p4 (sbox16 (Z.lxor p3 (t 1 0)) + 2 * i) in
  let p0 := add16 p0 (sbox16 (Z.lxor p4 (t 3 2))) in
  let p1 := add16 p1 (sbox16 (Z.lxor p0 (t 7 6))) in
  let p2 := add16 p2 (sbox16 (Z.lxor p1 (t 11 10))) in
  let p3 := add16 p3 (sbox16 (Z.lxor p2 (t 15 14))) in
  let p4 := add16 p4 (sbox16 (Z.lxor p3 (t 3 2)) + 2 * i + 1) in
  (p0, p1, p2, p3, p4).

(* RC4Key::from_packet: the 16-byte RC4 key from the transmitter address, the first 8 body bytes and the temporal key *)
Definition tkip_key (ta tk pload : list Z) : res (list Z) :=
  do b0 <- getb pload 0; do b2 <- getb pload 2; do b4 <- getb pload 4; do b5 <- getb pload 5; do b6 <- getb pload 6; do b7 <- getb pload 7;
  let p := (join b5 b4, join b7 b6, join (nthz ta 1) (nthz ta 0), join (nthz ta 3) (nthz ta 2), join (nthz ta 5) (nthz ta 4)) in
  let '(p0, p1, p2, p3, p4) := p1_round tk 3 (p1_round tk 2 (p1_round tk 1 (p1_round tk 0 p))) in
  let t a b := join (nthz tk a) (nthz tk b) in
  let iv16 := join b0 b2 in
  let p5 := add16 p4 iv16 in
  let p0 := add16 p0 (sbox16 (Z.lxor p5 (t 1 0))) in
  let p1 := add16 p1 (sbox16 (Z.lxor p0 (t 3 2))) in
  let p2 := add16 p2 (sbox16 (Z.lxor p1 (t 5 4))) in
  let p3 := add16 p3 (sbox16 (Z.lxor p2 (t 7 6))) in
  let p4 := add16 p4 (sbox16 (Z.lxor p3 (t 9 8))) in
  let p5 := add16 p5 (sbox16 (Z.lxor p4 (t 11 10))) in
  let p0 := add16 p0 (rot1 (Z.lxor p5 (t 13 12))) in
  let p1 := add16 p1 (rot1 (Z.lxor p0 (t 15 14))) in
  let p2 := add16 p2 (rot1 p1) in
  let p3 := add16 p3 (rot1 p2) in
  let p4 := add16 p4 (rot1 p3) in
  let p5 := add16 p5 (rot1 p4) in
  let lo v := Z.land v 255 in let hi v := Z.land (Z.shiftr v 8) 255 in
  let k0 := hi iv16 in
  Ok [k0; Z.land (Z.lor k0 32) 127; lo iv16; lo (Z.shiftr (Z.lxor p5 (t 1 0)) 1);
      lo p0; hi p0; lo p1; hi p1; lo p2; hi p2; lo p3; hi p3; lo p4; hi p4; lo p5; hi p5].

(* SessionKeys::tkip_decrypt_unicast; ta = dot11.addr2(), tk = ptk[32..48) *)
Definition tkip_decrypt (ta tk pload : list Z) : res (option (list Z)) :=
  if zlen pload <=? 20 then Ok None else
  do key <- tkip_key ta tk pload;
  do buf <- rc4_go (Z.to_nat (zlen pload - 8)) (ksa key) 0 0 pload 8 0;
  do good <- icv_ok buf (zlen pload - 12);
  if good then Ok (Some (zfirstn (zlen pload - 20) buf)) else Ok None.

(* ---- CCMP, for any 16-byte block function E (libtins uses OpenSSL's AES; Model/AES.v when executed) ---- *)
Record d11 := mkd11 {
  h_to_ds : bool; h_from_ds : bool; h_qos : bool;              (* subtype == QOS_DATA_DATA *)
  h_fc0 : Z;                                                   (* protocol | type << 2 | (subtype << 4) & 0x80 *)
  h_more_frag : bool; h_order : bool;
  h_a1 : list Z; h_a2 : list Z; h_a3 : list Z; h_a4 : list Z;
  h_frag : Z; h_tid : Z                                        (* qos_control() & 0x0f *)
}.

Definition xorl (a b : list Z) : list Z := map (fun p => Z.lxor (fst p) (snd p)) (combine a b).
(* xor_range(MIC, x, MIC, n) on a 16-byte MIC: only the first n bytes change *)
Definition xor_first (mic x : list Z) : list Z := xorl (firstn (length x) mic) x ++ skipn (length x) mic.
Definition be16 (v : Z) : list Z := [Z.land (Z.shiftr v 8) 255; Z.land v 255].

Definition aad (h : d11) : list Z :=
  let four := h_from_ds h && h_to_ds h in
  let len := 22 + (if four then 6 else 0) + (if h_qos h then 2 else 0) in
  let fc1 := 64 + b2z (h_to_ds h) + 2 * b2z (h_from_ds h) + 4 * b2z (h_more_frag h) + 128 * b2z (h_order h) in
  let base := [0; len; h_fc0 h; fc1] ++ h_a1 h ++ h_a2 h ++ h_a3 h ++ [h_frag h; 0] in
  let base := if four then base ++ h_a4 h else base ++ [0; 0; 0; 0; 0; 0] in
  let qoff := if four then 30 else 24 in
  let base := base ++ [0; 0] in
  let base := if h_qos h then upd base qoff (h_tid h) else base in
  zfirstn 32 (base ++ [0; 0; 0; 0; 0; 0; 0; 0]).

(* in-place xor of one block: pload[dst+j] = ks[j] ^ pload[src+j], j < n, ascending *)
Fixpoint xor_inplace (n : nat) (ks : list Z) (buf : list Z) (src dst : Z) : res (list Z) :=
  match n, ks with
  | S m, k :: ks' => do x <- getb buf src; do buf' <- setb buf dst (Z.lxor k x); xor_inplace m ks' buf' (src + 1) (dst + 1)
  | _, _ => Ok buf
  end.

Section CCMP.
  Variable E : list Z -> list Z.        (* AES_encrypt under the temporal key *)

  Fixpoint ccmp_blocks (fuel : nat) (i blocks total offset : Z) (ctr_prefix mic buf : list Z) : res (list Z * list Z) :=
    match fuel with
    | O => if blocks <? i then Ok (mic, buf) else OutOfFuel
    | S f =>
        if blocks <? i then Ok (mic, buf) else
        let bs0 := if i =? blocks then total mod 16 else 16 in
        let bs := if bs0 =? 0 then 16 else bs0 in
        let cb := E (ctr_prefix ++ be16 i) in
        do buf' <- xor_inplace (Z.to_nat bs) cb buf offset ((i - 1) * 16);
        let mic' := E (xor_first mic (zfirstn bs (zskipn ((i - 1) * 16) buf'))) in
        ccmp_blocks f (i + 1) blocks total (offset + bs) ctr_prefix mic' buf'
    end.

  Definition ccmp_decrypt (h : d11) (pload : list Z) : res (option (list Z)) :=
    if zlen pload <=? 16 then Ok None else
    do p0 <- getb pload 0; do p1 <- getb pload 1; do p4 <- getb pload 4; do p5 <- getb pload 5; do p6 <- getb pload 6; do p7 <- getb pload 7;
    let pn := [p7; p6; p5; p4; p1; p0] in
    let a := aad h in
    let total := zlen pload - 16 in
    let blocks := (total + 15) / 16 in
    let prio := if h_qos h then h_tid h else 0 in
    let nonce := [prio] ++ h_a2 h ++ pn in
    let mic := E ([89] ++ nonce ++ be16 total) in
    let mic := E (xorl mic (zfirstn 16 a)) in
    let mic := E (xorl mic (zskipn 16 a)) in
    let ctr_prefix := [1] ++ nonce in
    let c0 := E (ctr_prefix ++ [0; 0]) in
    let nice := xorl (zfirstn 8 c0) (zskipn (zlen pload - 8) pload) in
    do r <- ccmp_blocks (Z.to_nat blocks) 1 blocks total 8 ctr_prefix mic pload;
    let '(mic', buf) := r in
    if beql nice (zfirstn 8 mic') then Ok (Some (zfirstn total buf)) else Ok None.
End CCMP.

(* ---- RSNHandshakeCapturer: per address pair, the messages collected so far (as opaque ids), and completions ---- *)
Inductive hmsg := M1 | M2 | M3 | M4 | MOther.     (* classification by the key-info bits *)

Definition classify (key_t key_ack key_mic install secure : bool) : hmsg :=
  if key_t && key_ack && negb key_mic && negb install then M1
  else if key_t && negb key_ack && key_mic && negb install then (if negb secure then M2 else M4)
  else if key_t && key_ack && key_mic && install then M3
  else MOther.

(* do_insert on the entry of one pair: None = no entry *)
Definition do_insert (entry : option (list Z)) (id : Z) (expected : Z) : option (list Z) * bool :=
  match entry with
  | None => (None, false)
  | Some l =>
      if zlen l =? expected then (Some (l ++ [id]), true)
      else if zlen l =? expected + 1 then (Some l, false)
      else (Some [], false)
  end.

(* process_packet for one pair: new entry and the completed handshake (the four message ids), if any *)
Definition hs_step (entry : option (list Z)) (m : hmsg) (id : Z) : option (list Z) * option (list Z) :=
  match m with
  | M1 => (Some [id], None)
  | M2 => (fst (do_insert entry id 1), None)
  | M3 => (fst (do_insert entry id 2), None)
  | M4 => let '(e, ok) := do_insert entry id 3 in if ok then (None, e) else (e, None)
  | MOther => (entry, None)
  end.

(* ---- script interface ----
   op 0: wep <xpassword> <xbody>                              -> [1 xplain] | [0] | [-1000-site]
   op 1: tkip <xta> <xtk> <xbody>                             -> same
   op 2: ccmp <xtk> [to from qos fc0 morefrag order xa1 xa2 xa3 xa4 frag tid] <xbody>   -> same   (E = AES under tk)
   op 3: aes <xkey> <xblock>                                  -> [xblock]
   op 4: hs <pair> <class 1..4 | 0> <id>                      -> [[ids of the completed handshake]] | [] *)
From LT Require Import Model.AES.

Definition show_dec (r : res (option (list Z))) : list tok :=
  match r with
  | Ok (Some p) => [TN 1; TB p]
  | Ok None => [TN 0]
  | OOB n => [TN (-1000 - n)]
  | _ => [TN (-98)]
  end.

Definition wifi_step (st : zmap (list Z)) (op : Z) (args : list tok) : zmap (list Z) * list tok :=
  match op, args with
  | 0, [TB pw; TB body] => (st, show_dec (wep_decrypt body pw))
  | 1, [TB ta; TB tk; TB body] => (st, show_dec (tkip_decrypt ta tk body))
  | 2, [TB tk; TL [TN to; TN fr; TN q; TN fc0; TN mf; TN od; TB a1; TB a2; TB a3; TB a4; TN frag; TN tid]; TB body] =>
      let nb v := negb (v =? 0) in
      (st, show_dec (ccmp_decrypt (aes_encrypt tk) (mkd11 (nb to) (nb fr) (nb q) fc0 (nb mf) (nb od) a1 a2 a3 a4 frag tid) body))
  | 3, [TB k; TB b] => (st, [TB (aes_encrypt k b)])
  | 4, [TN pr; TN cls; TN id] =>
      let m := match cls with 1 => M1 | 2 => M2 | 3 => M3 | 4 => M4 | _ => MOther end in
      let '(e, done) := hs_step (zfind pr st) m id in
      let st' := match e with Some l => zput pr l st | None => zdel pr st end in
      (st', match done with Some l => [TL (map TN l)] | None => [] end)
  | _, _ => (st, [TN (-3)])
  end.
