(* AckedRange: the while(has_next()) next() loop yields at most two closed intervals which together
   cover exactly the sequence numbers serially between first and last (wrap-around included). *)
From LT Require Import Base.Prelude Base.CInt Gen.Kernels Model.AckTracker Proofs.Seq32.
From Coq Require Import ZifyBool.
Local Open Scope Z_scope.
Ltac Zify.zify_post_hook ::= Z.div_mod_to_equations.

Lemma next_after_last last : u32 last -> (seq_compare (w32 (last + 1)) last <=? 0) = false.
Proof.
  intros H. unfold u32 in H. pose proof (w32_range (last + 1)).
  rewrite seq_compare_le by (unfold u32; lia). unfold rel, w32 in *.
  destruct (Z.eq_dec last 4294967295) as [->|Hne]; [reflexivity|].
  rewrite (Z.mod_small (last + 1)) by lia.
  replace ((last - (last + 1)) mod 4294967296) with 4294967295; [reflexivity|].
  apply Z.mod_unique with (q := -1); lia.
Qed.

Theorem range_pieces_eq first last : u32 first -> u32 last ->
  range_pieces first last =
    if rel first last <? 2147483648
    then (if first <=? last then [(first, last)] else [(first, 4294967295); (0, last)])
    else [].
Proof.
  intros Hf Hl. unfold range_pieces. cbn [pieces].
  rewrite (seq_compare_le first last) by assumption.
  destruct (rel first last <? 2147483648) eqn:E1; [|reflexivity].
  rewrite (next_after_last last Hl).
  destruct (first <=? last) eqn:E2; [reflexivity|].
  assert (H0 : u32 0) by (unfold u32; lia).
  rewrite (seq_compare_le 0 last H0 Hl).
  assert (Hlast : (rel 0 last <? 2147483648) = true).
  { unfold rel, u32 in *. rewrite Z.sub_0_r. rewrite Z.mod_small by lia.
    assert ((last - first) mod 4294967296 = last - first + 4294967296).
    { symmetry. apply Z.mod_unique with (q := -1); lia. }
    lia. }
  rewrite Hlast. replace (0 <=? last) with true by (unfold u32 in *; lia). reflexivity.
Qed.

Definition in_pieces (y : Z) (ps : list (Z * Z)) : Prop := exists p, In p ps /\ fst p <= y <= snd p.

Theorem range_pieces_mem first last y : u32 first -> u32 last -> u32 y ->
  rel first last < 2147483648 ->
  (in_pieces y (range_pieces first last) <-> rel first y <= rel first last).
Proof.
  intros Hf Hl Hy Hw. rewrite range_pieces_eq by assumption.
  replace (rel first last <? 2147483648) with true by lia.
  unfold in_pieces, rel, u32 in *.
  destruct (first <=? last) eqn:E.
  - rewrite (Z.mod_small (last - first)) by lia. split.
    + intros [p [[<-|[]] Hp]]. cbn in Hp. rewrite Z.mod_small; lia.
    + intros H. exists (first, last). split; [left; reflexivity|]. cbn.
      destruct (Z_le_gt_dec first y).
      * rewrite Z.mod_small in H by lia. lia.
      * assert ((y - first) mod 4294967296 = y - first + 4294967296) by (symmetry; apply Z.mod_unique with (q := -1); lia). lia.
  - assert (Hm : (last - first) mod 4294967296 = last - first + 4294967296) by (symmetry; apply Z.mod_unique with (q := -1); lia).
    rewrite Hm. split.
    + intros [p [[<-|[<-|[]]] Hp]]; cbn in Hp.
      * rewrite Z.mod_small; lia.
      * assert ((y - first) mod 4294967296 = y - first + 4294967296) by (symmetry; apply Z.mod_unique with (q := -1); lia). lia.
    + intros H. destruct (Z_le_gt_dec first y).
      * exists (first, 4294967295). split; [left; reflexivity|cbn; lia].
      * exists (0, last). split; [right; left; reflexivity|]. cbn.
        assert ((y - first) mod 4294967296 = y - first + 4294967296) by (symmetry; apply Z.mod_unique with (q := -1); lia). lia.
Qed.

Lemma range_pieces_wf first last p : u32 first -> u32 last -> In p (range_pieces first last) ->
  0 <= fst p <= snd p /\ snd p < 4294967296.
Proof.
  intros Hf Hl. rewrite range_pieces_eq by assumption. unfold u32 in *.
  destruct (rel first last <? 2147483648); [|intros []].
  destruct (first <=? last) eqn:E; cbn; intros H; intuition (subst; cbn; lia).
Qed.

Lemma range_pieces_len first last : u32 first -> u32 last -> (length (range_pieces first last) <= 2)%nat.
Proof.
  intros Hf Hl. rewrite range_pieces_eq by assumption.
  destruct (_ <? _); [destruct (_ <=? _)|]; cbn; lia.
Qed.
