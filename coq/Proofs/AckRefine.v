(* AckTracker refines the set-of-acknowledged-bytes specification, for EVERY conforming history (the cumulative ACK never moves
   backwards by more than nothing and at most half the sequence space forwards; every SACK block lies strictly above it,
   within half the sequence space; any initial sequence number, so histories wrap 2^32 any number of times):
   the tracker's cumulative ACK is the last one received, its interval set is canonical, holds only 32-bit numbers, and a
   sequence number is in it iff the specification says it is selectively acknowledged. *)
From LT Require Import Base.Prelude Base.CInt Gen.Kernels Model.AckTracker Proofs.Seq32 Proofs.ISetFacts Proofs.AckRange.
From Coq Require Import ZifyBool.
Local Open Scope Z_scope.
Ltac Zify.zify_post_hook ::= Z.div_mod_to_equations.

(* x lies serially above a, within half the sequence space *)
Definition above (a x : Z) : Prop := 0 < rel a x < 2147483648.

(* a SACK block [l, r) of a conforming receiver whose cumulative ACK is a *)
Definition blk_ok (a : Z) (b : Z * Z) : Prop :=
  u32 (fst b) /\ u32 (snd b) /\ 0 < rel (fst b) (snd b) /\ 0 < rel a (fst b) /\ rel a (fst b) + rel (fst b) (snd b) <= 2147483647.
Definition in_blk (b : Z * Z) (x : Z) : Prop := rel (fst b) x < rel (fst b) (snd b).

(* the specification: drop what the new cumulative ACK covers, add the blocks *)
Definition A_step (a' : Z) (blks : list (Z * Z)) (A : Z -> Prop) : Z -> Prop :=
  fun x => (A x /\ above a' x) \/ exists b, In b blks /\ in_blk b x.

Fixpoint edges_of (blks : list (Z * Z)) : list Z :=
  match blks with [] => [] | (l, r) :: t => l :: r :: edges_of t end.

Record TInv (st : ackst) (a : Z) (A : Z -> Prop) : Prop := mkTInv {
  ti_ack : a_ack st = a;
  ti_sack : a_sack st = true;
  ti_canon : canon (-1) (a_ivs st);
  ti_u32 : forall x, imem x (a_ivs st) -> u32 x;
  ti_mem : forall x, u32 x -> (imem x (a_ivs st) <-> A x);
  ti_above : forall x, A x -> above a x
}.

(* ---- folds over the (at most two) pieces of a serial range ---- *)
Definition ins_piece (s : iset) (p : Z * Z) : iset := iset_insert (fst p) (snd p) s.
Definition del_piece (s : iset) (p : Z * Z) : iset := iset_erase (fst p) (snd p) s.
Definition pieces_wf (ps : list (Z * Z)) : Prop := forall p, In p ps -> 0 <= fst p <= snd p /\ snd p < 4294967296.

Lemma fold_ins ps : forall s, pieces_wf ps -> canon (-1) s -> (forall x, imem x s -> u32 x) ->
  canon (-1) (fold_left ins_piece ps s) /\
  (forall x, imem x (fold_left ins_piece ps s) -> u32 x) /\
  (forall x, imem x (fold_left ins_piece ps s) <-> in_pieces x ps \/ imem x s).
Proof.
  induction ps as [|p r IH]; intros s Hwf Hc Hu; cbn [fold_left].
  - split; [assumption|]. split; [assumption|]. intros x. unfold in_pieces. split; [auto|]. intros [(p & [] & _)|H]. assumption.
  - destruct (Hwf p (or_introl eq_refl)) as [Hp1 Hp2].
    assert (Hc1 : canon (-1) (ins_piece s p)) by (apply insert_canon; [assumption|lia|lia]).
    assert (Hm1 : forall x, imem x (ins_piece s p) <-> (fst p <= x <= snd p \/ imem x s)) by (intros x; apply (insert_mem s (-1)); [assumption|lia]).
    assert (Hu1 : forall x, imem x (ins_piece s p) -> u32 x).
    { intros x Hx. apply Hm1 in Hx. destruct Hx as [Hx|Hx]; [unfold u32; lia|auto]. }
    destruct (IH (ins_piece s p) (fun q Hq => Hwf q (or_intror Hq)) Hc1 Hu1) as (A1 & A2 & A3).
    split; [assumption|]. split; [assumption|]. intros x. rewrite A3, Hm1. unfold in_pieces. split.
    + intros [(q & Hq & Hr)|[H|H]]; [left; exists q; split; [right; assumption|assumption]|left; exists p; split; [left; reflexivity|assumption]|right; assumption].
    + intros [(q & [->|Hq] & Hr)|H]; [right; left; assumption|left; exists q; auto|right; right; assumption].
Qed.

Lemma fold_del ps : forall s, pieces_wf ps -> canon (-1) s -> (forall x, imem x s -> u32 x) ->
  canon (-1) (fold_left del_piece ps s) /\
  (forall x, imem x (fold_left del_piece ps s) -> u32 x) /\
  (forall x, imem x (fold_left del_piece ps s) <-> imem x s /\ ~ in_pieces x ps).
Proof.
  induction ps as [|p r IH]; intros s Hwf Hc Hu; cbn [fold_left].
  - split; [assumption|]. split; [assumption|]. intros x. unfold in_pieces. split; [intros H; split; [assumption|intros (p & [] & _)]|tauto].
  - destruct (Hwf p (or_introl eq_refl)) as [Hp1 Hp2].
    assert (Hc1 : canon (-1) (del_piece s p)) by (apply erase_canon; [assumption|lia]).
    assert (Hm1 : forall x, imem x (del_piece s p) <-> (imem x s /\ ~ fst p <= x <= snd p)) by (intros x; apply (erase_mem s (-1)); [assumption|lia]).
    assert (Hu1 : forall x, imem x (del_piece s p) -> u32 x) by (intros x Hx; apply Hm1 in Hx; apply Hu, Hx).
    destruct (IH (del_piece s p) (fun q Hq => Hwf q (or_intror Hq)) Hc1 Hu1) as (A1 & A2 & A3).
    split; [assumption|]. split; [assumption|]. intros x. rewrite A3, Hm1. unfold in_pieces. split.
    + intros [[H1 H2] H3]. split; [assumption|]. intros (q & [->|Hq] & Hr); [tauto|apply H3; exists q; auto].
    + intros [H1 H2]. split; [split; [assumption|]|].
      * intros Hr. apply H2. exists p. split; [left; reflexivity|assumption].
      * intros (q & Hq & Hr). apply H2. exists q. split; [right; assumption|assumption].
Qed.

Lemma range_pieces_pwf first last : u32 first -> u32 last -> pieces_wf (range_pieces first last).
Proof. intros Hf Hl p Hp. apply (range_pieces_wf first last p Hf Hl Hp). Qed.

(* ---- serial arithmetic ---- *)
Lemma rel_range a b : 0 <= rel a b < 4294967296.
Proof. unfold rel. apply Z.mod_pos_bound. lia. Qed.

Lemma above_after a a' x : u32 a -> u32 a' -> u32 x -> rel a a' < 2147483648 -> above a x ->
  (above a' x <-> ~ rel a x <= rel a a').
Proof. unfold above, rel, u32. intros. lia. Qed.

Lemma blk_above a b x : u32 a -> blk_ok a b -> in_blk b x -> above a x.
Proof. unfold blk_ok, in_blk, above, rel, u32. intros Ha (H1 & H2 & H3 & H4 & H5) H. lia. Qed.

Lemma blk_last a b : u32 a -> blk_ok a b ->
  u32 (w32 (snd b - 1)) /\ rel (fst b) (w32 (snd b - 1)) = rel (fst b) (snd b) - 1 /\ above a (w32 (snd b - 1)).
Proof. unfold blk_ok, above, rel, u32, w32. intros Ha (H1 & H2 & H3 & H4 & H5). lia. Qed.

Lemma above_back a x : u32 a -> u32 x -> above a x -> 2147483648 <= rel x a.
Proof. unfold above, rel, u32. intros. lia. Qed.

(* ---- one SACK block ---- *)
Lemma sack_fold ps : forall st, (forall p, In p ps -> (seq_compare (fst p) (a_ack st) <=? 0) = false) ->
  fold_left sack_piece ps st = mkack (a_ack st) (a_sack st) (fold_left ins_piece ps (a_ivs st)).
Proof.
  induction ps as [|p r IH]; intros st H; cbn [fold_left]; [destruct st; reflexivity|].
  assert (Hp : sack_piece st p = mkack (a_ack st) (a_sack st) (ins_piece (a_ivs st) p)).
  { unfold sack_piece. rewrite (H p (or_introl eq_refl)). reflexivity. }
  rewrite Hp. rewrite IH; [reflexivity|]. intros q Hq. cbn [a_ack]. apply H. right. assumption.
Qed.

Lemma block_step st a A b : TInv st a A -> u32 a -> blk_ok a b ->
  TInv (process_sack st [fst b; snd b]) a (fun x => A x \/ in_blk b x).
Proof.
  intros [T1 T2 T3 T4 T5 T6] Ha Hb. pose proof Hb as (B1 & B2 & B3 & B4 & B5).
  destruct (blk_last a b Ha Hb) as (L1 & L2 & L3).
  cbn [process_sack].
  assert (C1 : (seq_compare (fst b) (snd b) <? 0) = true).
  { rewrite seq_compare_lt by assumption. pose proof (rel_range (fst b) (snd b)). lia. }
  rewrite C1.
  assert (C2 : (seq_compare (w32 (snd b - 1)) (a_ack st) >? 0) = true).
  { rewrite T1. rewrite seq_compare_gt by assumption. pose proof (above_back a _ Ha L1 L3). lia. }
  rewrite C2.
  set (ps := range_pieces (fst b) (w32 (snd b - 1))).
  assert (Hin : forall x, u32 x -> (in_pieces x ps <-> in_blk b x)).
  { intros x Hx. unfold ps. rewrite range_pieces_mem by (assumption || lia). unfold in_blk. lia. }
  assert (Hwf : pieces_wf ps) by (apply range_pieces_pwf; assumption).
  rewrite sack_fold.
  - destruct (fold_ins ps (a_ivs st) Hwf T3 T4) as (F1 & F2 & F3).
    constructor; cbn [a_ack a_sack a_ivs]; try assumption.
    + intros x Hx. rewrite F3, (Hin x Hx), (T5 x Hx). tauto.
    + intros x [H|H]; [apply T6; assumption|]. apply (blk_above a b x); assumption.
  - intros p Hp. rewrite T1. rewrite seq_compare_le; [|destruct (Hwf p Hp); unfold u32; lia|assumption].
    assert (Hu : u32 (fst p)) by (destruct (Hwf p Hp); unfold u32; lia).
    assert (Hab : above a (fst p)).
    { apply (blk_above a b); [assumption|assumption|]. apply Hin; [assumption|]. exists p. split; [assumption|]. destruct (Hwf p Hp). lia. }
    pose proof (above_back a (fst p) Ha Hu Hab). lia.
Qed.

(* in_blk only holds for 32-bit numbers when it is asked about them; outside, the specification is vacuous *)
Lemma blocks_step blks : forall st a A, TInv st a A -> u32 a -> Forall (blk_ok a) blks ->
  TInv (process_sack st (edges_of blks)) a (fun x => A x \/ exists b, In b blks /\ in_blk b x).
Proof.
  induction blks as [|[l r] t IH]; intros st a A HT Ha Hok.
  - cbn. destruct HT as [T1 T2 T3 T4 T5 T6]. constructor; try assumption.
    + intros x Hx. rewrite (T5 x Hx). split; [auto|]. intros [H|(b & [] & _)]. assumption.
    + intros x [H|(b & [] & _)]. auto.
  - inversion Hok as [|? ? Hb Ht]; subst.
    pose proof (block_step st a A (l, r) HT Ha Hb) as H1. cbn [fst snd] in H1.
    cbn [edges_of].
    assert (Hunf : process_sack st (l :: r :: edges_of t) = process_sack (process_sack st [l; r]) (edges_of t)).
    { cbn [process_sack]. reflexivity. }
    rewrite Hunf.
    pose proof (IH _ a _ H1 Ha Ht) as H2.
    destruct H2 as [T1 T2 T3 T4 T5 T6]. constructor; try assumption.
    + intros x Hx. rewrite (T5 x Hx). split.
      * intros [[H|H]|(b & Hb' & Hx')]; [left; assumption|right; exists (l, r); split; [left; reflexivity|assumption]|right; exists b; split; [right; assumption|assumption]].
      * intros [H|(b & [<-|Hb'] & Hx')]; [left; left; assumption|left; right; assumption|right; exists b; auto].
    + intros x [H|(b & [<-|Hb'] & Hx')]; apply T6; [left; left; assumption|left; right; assumption|right; exists b; auto].
Qed.

(* ---- one packet ---- *)
Theorem ack_step_refines st a A a' blks : TInv st a A -> u32 a -> u32 a' -> rel a a' < 2147483648 -> Forall (blk_ok a') blks ->
  TInv (ack_process st a' true (edges_of blks)) a' (A_step a' blks A).
Proof.
  intros HT Ha Ha' Hfw Hok. pose proof HT as [T1 T2 T3 T4 T5 T6].
  unfold ack_process. rewrite T1.
  assert (Hst1 : TInv (if seq_compare a' a >? 0
                       then mkack a' (a_sack (cleanup st a a')) (a_ivs (cleanup st a a')) else st) a' (fun x => A x /\ above a' x)).
  { rewrite seq_compare_gt by assumption.
    destruct (2147483648 <=? rel a' a) eqn:E.
    - unfold cleanup. cbn [a_sack a_ivs].
      destruct (fold_del (range_pieces a a') (a_ivs st) (range_pieces_pwf a a' Ha Ha') T3 T4) as (F1 & F2 & F3).
      constructor; cbn [a_ack a_sack a_ivs]; try assumption; try reflexivity.
      + intros x Hx. rewrite F3. rewrite (range_pieces_mem a a' x Ha Ha' Hx Hfw). rewrite (T5 x Hx). split.
        * intros [H1 H2]. split; [assumption|]. apply (above_after a a' x); auto.
        * intros [H1 H2]. split; [assumption|]. apply (above_after a a' x); auto.
      + intros x [_ H]. assumption.
    - assert (a' = a) by (revert E Hfw Ha Ha'; unfold rel, u32; intros; lia). subst a'.
      constructor; try assumption.
      + intros x Hx. rewrite (T5 x Hx). split; [intros H; split; [assumption|apply T6; assumption]|tauto].
      + intros x [_ H]. assumption. }
  set (st1 := if seq_compare a' a >? 0 then _ else st) in *.
  assert (Hs1 : a_sack st1 = true) by (destruct Hst1; assumption).
  rewrite Hs1. cbn [andb].
  exact (blocks_step blks st1 a' _ Hst1 Ha' Hok).
Qed.

(* ---- every conforming history ---- *)
Definition pkt := (Z * list (Z * Z))%type.

Fixpoint conforming (a : Z) (h : list pkt) : Prop :=
  match h with
  | [] => True
  | (a', blks) :: t => u32 a' /\ rel a a' < 2147483648 /\ Forall (blk_ok a') blks /\ conforming a' t
  end.

Fixpoint spec_set (A : Z -> Prop) (h : list pkt) : Z -> Prop :=
  match h with [] => A | (a', blks) :: t => spec_set (A_step a' blks A) t end.

Fixpoint spec_ack (a : Z) (h : list pkt) : Z :=
  match h with [] => a | (a', _) :: t => spec_ack a' t end.

Fixpoint run_ack (st : ackst) (h : list pkt) : ackst :=
  match h with [] => st | (a', blks) :: t => run_ack (ack_process st a' true (edges_of blks)) t end.

Lemma run_refines : forall h st a A, TInv st a A -> u32 a -> conforming a h ->
  TInv (run_ack st h) (spec_ack a h) (spec_set A h).
Proof.
  induction h as [|[a' blks] t IH]; intros st a A HT Ha Hc; [assumption|].
  destruct Hc as (Ha' & Hfw & Hok & Ht). cbn [run_ack spec_ack spec_set].
  apply IH; [apply (ack_step_refines st a A a' blks); assumption|assumption|assumption].
Qed.

Theorem tracker_refines_byte_set a0 h : u32 a0 -> conforming a0 h ->
  let st := run_ack (ack_new a0 true) h in
  a_ack st = spec_ack a0 h /\ canon (-1) (a_ivs st) /\ (forall x, imem x (a_ivs st) -> u32 x) /\
  (forall x, u32 x -> (imem x (a_ivs st) <-> spec_set (fun _ => False) h x)) /\
  (forall x, spec_set (fun _ => False) h x -> above (spec_ack a0 h) x).
Proof.
  intros Ha Hc. cbn zeta.
  assert (H0 : TInv (ack_new a0 true) a0 (fun _ => False)).
  { unfold ack_new. rewrite (w32_small a0) by exact Ha. constructor; cbn; try tauto; try reflexivity. }
  destruct (run_refines h _ a0 _ H0 Ha Hc) as [T1 T2 T3 T4 T5 T6]. auto.
Qed.

(* ---- the query: a segment is acknowledged iff every byte is below the cumulative ACK or selectively acknowledged ---- *)
Definition okp (st : ackst) (p : Z * Z) : bool :=
  negb ((seq_compare (snd p) (a_ack st) >=? 0) && negb (iset_contains (fst p) (snd p) (a_ivs st))).

Lemma piece_ok st a A f e : TInv st a A -> u32 a -> 0 <= f <= e -> e < 4294967296 ->
  (okp st (f, e) = true <-> (0 < rel e a < 2147483648) \/ forall y, f <= y <= e -> A y).
Proof.
  intros [T1 T2 T3 T4 T5 T6] Ha Hfe He. unfold okp. cbn [fst snd]. rewrite T1.
  assert (Hcmp : (seq_compare e a >=? 0) = negb ((0 <? rel e a) && (rel e a <? 2147483648))).
  { rewrite <- seq_compare_lt by (unfold u32; lia || assumption). rewrite Z.geb_leb. destruct (seq_compare e a <? 0) eqn:E; cbn [negb]; lia. }
  rewrite Hcmp.
  pose proof (contains_spec (a_ivs st) (-1) f e T3 ltac:(lia)) as Hcs.
  assert (HA : (forall y, f <= y <= e -> imem y (a_ivs st)) <-> (forall y, f <= y <= e -> A y)).
  { split; intros H y Hy; [apply T5; [unfold u32; lia|auto]|apply T5; [unfold u32; lia|auto]]. }
  destruct ((0 <? rel e a) && (rel e a <? 2147483648)) eqn:E1; cbn [negb andb].
  - split; [intros _; left; lia|reflexivity].
  - destruct (iset_contains f e (a_ivs st)) eqn:E2; cbn [negb].
    + split; [intros _; right; apply HA, Hcs; reflexivity|reflexivity].
    + split; [discriminate|]. intros [H|H]; [lia|]. exfalso.
      assert (Hft : false = true) by (apply Hcs, HA; assumption). discriminate.
Qed.

Theorem seg_acked_spec st a A seq len : TInv st a A -> u32 a -> u32 seq -> 0 < len < 2147483648 ->
  (rel seq a < 2147483648 \/ rel a seq + len <= 2147483647) ->
  (is_segment_acked st seq len = true <->
   forall x, u32 x -> rel seq x < len -> (0 < rel x a < 2147483648) \/ A x).
Proof.
  intros HT Ha Hs Hlen HW. pose proof HT as [T1 T2 T3 T4 T5 T6].
  unfold is_segment_acked. replace (len =? 0) with false by lia.
  set (last := w32 (seq + len - 1)).
  assert (Hl : u32 last) by (unfold last, u32; apply w32_range).
  assert (Hrl : rel seq last = len - 1) by (revert Hs Hlen; unfold last, rel, w32, u32; intros; lia).
  rewrite range_pieces_eq by assumption. replace (rel seq last <? 2147483648) with true by lia.
  fold (okp st). unfold u32 in *.
  assert (Hnota : ~ ((0 < rel a a < 2147483648) \/ A a)).
  { intros [H|H]; [unfold rel in H; rewrite Z.sub_diag in H; cbn in H; lia|]. apply T6 in H. unfold above, rel in H. rewrite Z.sub_diag in H. cbn in H. lia. }
  destruct (seq <=? last) eqn:Ele.
  - cbn [forallb]. rewrite Bool.andb_true_r. change ((fun p => okp st p) (seq, last)) with (okp st (seq, last)).
    rewrite (piece_ok st a A seq last HT Ha) by lia. split.
    + intros [H|H] x Hx Hr.
      * left. revert H Hx Hr Hrl HW Ele Hs Hl Ha Hlen. unfold rel. intros. lia.
      * right. apply H. revert Hx Hr Hrl Ele Hs Hl Hlen. unfold rel. intros. lia.
    + intros H. destruct (Z_lt_dec 0 (rel last a)) as [H1|H1]; [destruct (Z_lt_dec (rel last a) 2147483648) as [H2|H2]; [left; lia|]|].
      * right. intros y Hy. destruct (H y ltac:(lia) ltac:(revert Hy Hrl Ele Hs Hl Hlen; unfold rel; intros; lia)) as [Hb|Hb]; [|assumption].
        exfalso. apply Hnota. apply H; [lia|]. revert Hb Hy H2 H1 Hrl HW Ele Hs Hl Ha Hlen. unfold rel. intros. lia.
      * right. intros y Hy. destruct (H y ltac:(lia) ltac:(revert Hy Hrl Ele Hs Hl Hlen; unfold rel; intros; lia)) as [Hb|Hb]; [|assumption].
        exfalso. apply Hnota. apply H; [lia|]. revert Hb Hy H1 Hrl HW Ele Hs Hl Ha Hlen. unfold rel. intros. lia.
  - cbn [forallb]. rewrite Bool.andb_true_r. rewrite Bool.andb_true_iff.
    rewrite (piece_ok st a A seq 4294967295 HT Ha) by lia. rewrite (piece_ok st a A 0 last HT Ha) by lia. split.
    + intros [[H1|H1] [H2|H2]] x Hx Hr.
      * left. revert H1 H2 Hx Hr Hrl HW Ele Hs Hl Ha Hlen. unfold rel. intros. lia.
      * destruct (Z_le_dec seq x); [left; revert H1 Hx Hr Hrl HW Ele Hs Hl Ha Hlen l; unfold rel; intros; lia|right; apply H2; revert Hx Hr Hrl Ele Hs Hl Hlen n; unfold rel; intros; lia].
      * destruct (Z_le_dec seq x); [right; apply H1; lia|left; revert H2 Hx Hr Hrl HW Ele Hs Hl Ha Hlen n; unfold rel; intros; lia].
      * right. destruct (Z_le_dec seq x); [apply H1; lia|apply H2; revert Hx Hr Hrl Ele Hs Hl Hlen n; unfold rel; intros; lia].
    + intros H. split.
      * destruct (Z_lt_dec 0 (rel 4294967295 a)) as [H1|H1]; [destruct (Z_lt_dec (rel 4294967295 a) 2147483648) as [H2|H2]; [left; lia|]|];
          right; intros y Hy;
          (destruct (H y ltac:(lia) ltac:(revert Hy Hrl Ele Hs Hl Hlen; unfold rel; intros; lia)) as [Hb|Hb]; [|assumption]);
          exfalso; apply Hnota; (apply H; [lia|]); revert Hb Hy H1 Hrl HW Ele Hs Hl Ha Hlen; try revert H2; unfold rel; intros; lia.
      * destruct (Z_lt_dec 0 (rel last a)) as [H1|H1]; [destruct (Z_lt_dec (rel last a) 2147483648) as [H2|H2]; [left; lia|]|];
          right; intros y Hy;
          (destruct (H y ltac:(lia) ltac:(revert Hy Hrl Ele Hs Hl Hlen; unfold rel; intros; lia)) as [Hb|Hb]; [|assumption]);
          exfalso; apply Hnota; (apply H; [lia|]); revert Hb Hy H1 Hrl HW Ele Hs Hl Ha Hlen; try revert H2; unfold rel; intros; lia.
Qed.
