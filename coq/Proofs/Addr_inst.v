(* Instances of the abstract range theorems: IPv4 (numbers mod 2^32) and byte buffers (HWAddress<n>, IPv6Address). *)
From LT Require Import Base.Prelude Base.CInt Model.Addr Proofs.Range_iter.
From Coq Require Import ZifyBool.
Local Open Scope Z_scope.
Ltac Zify.zify_post_hook ::= Z.div_mod_to_equations.

(* ---------------- IPv4 ---------------- *)
Definition wf4 (a : Z) : Prop := 0 <= a < 4294967296.

Lemma v4_incr_spec a : wf4 a ->
  wf4 (fst (v4_incr a)) /\ fst (v4_incr a) = (a + 1) mod 4294967296 /\ snd (v4_incr a) = (a + 1 =? 4294967296).
Proof. unfold wf4, v4_incr, w32. cbn [fst snd]. intros H. repeat split; try lia. Qed.

Lemma v4_decr_spec a : wf4 a -> wf4 (fst (v4_decr a)) /\ fst (v4_decr a) = (a - 1) mod 4294967296.
Proof. unfold wf4, v4_decr, w32. cbn [fst snd]. intros H. repeat split; try lia. Qed.

Lemma v4_eq_spec a b : wf4 a -> wf4 b -> v4_eq a b = (a =? b).
Proof. reflexivity. Qed.
Lemma v4_lt_spec a b : wf4 a -> wf4 b -> v4_lt a b = (a <? b).
Proof. reflexivity. Qed.

Definition v4_iterate_range := iterate_range Z v4_eq v4_incr v4_decr wf4 (fun a => a) 4294967296
  (fun a H => H) v4_eq_spec v4_incr_spec.
Definition v4_iterate_hosts := iterate_hosts Z v4_eq v4_incr v4_decr wf4 (fun a => a) 4294967296
  (fun a H => H) v4_eq_spec v4_incr_spec v4_decr_spec.
Definition v4_contains_spec := contains_spec Z v4_lt v4_eq wf4 (fun a => a) v4_eq_spec v4_lt_spec.

(* ---------------- byte buffers ---------------- *)
Definition bytes_ok (b : list Z) : Prop := Forall (fun x => 0 <= x < 256) b.
Definition wfb (n : nat) (b : list Z) : Prop := length b = n /\ bytes_ok b.

Fixpoint bval (b : list Z) : Z :=      (* big-endian value *)
  match b with [] => 0 | x :: r => x * 256 ^ Z.of_nat (length r) + bval r end.
Fixpoint lval (l : list Z) : Z :=      (* little-endian value *)
  match l with [] => 0 | x :: r => x + 256 * lval r end.

Lemma pow256_pos k : 0 < 256 ^ Z.of_nat k.
Proof. apply Z.pow_pos_nonneg; lia. Qed.

Lemma pow256_succ k : 256 ^ Z.of_nat (S k) = 256 * 256 ^ Z.of_nat k.
Proof. rewrite Nat2Z.inj_succ, Z.pow_succ_r by lia. reflexivity. Qed.

Lemma bval_range b : bytes_ok b -> 0 <= bval b < 256 ^ Z.of_nat (length b).
Proof.
  induction 1 as [|x r Hx Hr IH]; cbn [bval length]; [cbn; lia|].
  rewrite pow256_succ. pose proof (pow256_pos (length r)). nia.
Qed.

Lemma lval_range l : bytes_ok l -> 0 <= lval l < 256 ^ Z.of_nat (length l).
Proof.
  induction 1 as [|x r Hx Hr IH]; cbn [lval length]; [cbn; lia|].
  rewrite pow256_succ. pose proof (pow256_pos (length r)). nia.
Qed.

Lemma lval_app l x : lval (l ++ [x]) = lval l + x * 256 ^ Z.of_nat (length l).
Proof.
  induction l as [|y r IH]; cbn [lval app length]; [cbn; lia|].
  rewrite IH, pow256_succ. ring.
Qed.

Lemma bval_rev b : bval b = lval (rev b).
Proof.
  induction b as [|x r IH]; cbn [bval rev]; [reflexivity|].
  rewrite lval_app, rev_length, IH. ring.
Qed.

Lemma bytes_ok_rev b : bytes_ok b -> bytes_ok (rev b).
Proof. unfold bytes_ok. intros H. apply Forall_rev. assumption. Qed.

Lemma inc_lsb_spec l : bytes_ok l ->
  let '(l', c) := inc_lsb l in
  bytes_ok l' /\ length l' = length l /\ lval l' = (lval l + 1) mod 256 ^ Z.of_nat (length l) /\
  c = (lval l + 1 =? 256 ^ Z.of_nat (length l)).
Proof.
  induction 1 as [|x r Hx Hr IH]; cbn [inc_lsb lval length].
  - cbn. repeat split; constructor.
  - pose proof (lval_range r Hr) as Rr. pose proof (pow256_pos (length r)) as Pp. rewrite pow256_succ.
    destruct (x =? 255) eqn:E.
    + destruct (inc_lsb r) as [r' c]. destruct IH as (I1 & I2 & I3 & I4).
      assert (x = 255) by lia. subst x. cbn [lval length]. repeat split.
      * constructor; [lia|assumption].
      * lia.
      * rewrite I3. destruct (Z.eq_dec (lval r + 1) (256 ^ Z.of_nat (length r))) as [Heq|Hne].
        -- rewrite Heq, Z.mod_same by lia.
           replace (255 + 256 * lval r + 1) with (256 * 256 ^ Z.of_nat (length r)) by lia.
           rewrite Z.mod_same by lia. reflexivity.
        -- rewrite (Z.mod_small (lval r + 1)) by lia. rewrite Z.mod_small by lia. lia.
      * rewrite I4. lia.
    + cbn [lval length]. repeat split.
      * constructor; [lia|assumption].
      * rewrite Z.mod_small by lia. lia.
      * lia.
Qed.

Lemma dec_lsb_spec l : bytes_ok l ->
  let '(l', c) := dec_lsb l in
  bytes_ok l' /\ length l' = length l /\ lval l' = (lval l - 1) mod 256 ^ Z.of_nat (length l).
Proof.
  induction 1 as [|x r Hx Hr IH]; cbn [dec_lsb lval length].
  - cbn. repeat split; constructor.
  - pose proof (lval_range r Hr) as Rr. pose proof (pow256_pos (length r)) as Pp. rewrite pow256_succ.
    destruct (x =? 0) eqn:E.
    + destruct (dec_lsb r) as [r' c]. destruct IH as (I1 & I2 & I3).
      assert (x = 0) by lia. subst x. cbn [lval length]. repeat split.
      * constructor; [lia|assumption].
      * lia.
      * rewrite I3. destruct (Z.eq_dec (lval r) 0) as [Heq|Hne].
        -- rewrite Heq. replace (0 - 1) with (-1) by lia.
           replace (-1 mod 256 ^ Z.of_nat (length r)) with (256 ^ Z.of_nat (length r) - 1)
             by (apply Z.mod_unique with (q := -1); lia).
           replace (0 + 256 * 0 - 1) with (-1) by lia.
           apply Z.mod_unique with (q := -1); lia.
        -- rewrite (Z.mod_small (lval r - 1)) by lia. rewrite Z.mod_small by lia. lia.
    + cbn [lval length]. repeat split.
      * constructor; [lia|assumption].
      * rewrite Z.mod_small by lia. lia.
Qed.

Lemma buf_incr_spec n b : wfb n b ->
  wfb n (fst (buf_incr b)) /\ bval (fst (buf_incr b)) = (bval b + 1) mod 256 ^ Z.of_nat n /\
  snd (buf_incr b) = (bval b + 1 =? 256 ^ Z.of_nat n).
Proof.
  intros [Hl Hb]. unfold buf_incr. pose proof (inc_lsb_spec (rev b) (bytes_ok_rev b Hb)) as H.
  destruct (inc_lsb (rev b)) as [r c]. destruct H as (H1 & H2 & H3 & H4). cbn [fst snd].
  rewrite rev_length in *. subst n. repeat split.
  - rewrite rev_length. assumption.
  - apply bytes_ok_rev. assumption.
  - rewrite bval_rev, rev_involutive, H3, <- bval_rev. reflexivity.
  - rewrite H4, <- bval_rev. reflexivity.
Qed.

Lemma buf_decr_spec n b : wfb n b ->
  wfb n (fst (buf_decr b)) /\ bval (fst (buf_decr b)) = (bval b - 1) mod 256 ^ Z.of_nat n.
Proof.
  intros [Hl Hb]. unfold buf_decr. pose proof (dec_lsb_spec (rev b) (bytes_ok_rev b Hb)) as H.
  destruct (dec_lsb (rev b)) as [r c]. destruct H as (H1 & H2 & H3). cbn [fst snd].
  rewrite rev_length in *. subst n. repeat split.
  - rewrite rev_length. assumption.
  - apply bytes_ok_rev. assumption.
  - rewrite bval_rev, rev_involutive, H3, <- bval_rev. reflexivity.
Qed.

Lemma buf_cmp_spec a : forall b, bytes_ok a -> bytes_ok b -> length a = length b ->
  buf_lt a b = (bval a <? bval b) /\ buf_eq a b = (bval a =? bval b).
Proof.
  induction a as [|x r IH]; intros [|y s] Ha Hb Hlen; cbn in Hlen; try discriminate.
  - split; reflexivity.
  - inversion Ha as [|? ? Hx Hr]; inversion Hb as [|? ? Hy Hs]; subst.
    injection Hlen as Hlen. destruct (IH s Hr Hs Hlen) as [I1 I2].
    cbn [buf_lt buf_eq bval]. rewrite <- Hlen.
    pose proof (bval_range r Hr) as Rr. pose proof (bval_range s Hs) as Rs. rewrite <- Hlen in Rs.
    pose proof (pow256_pos (length r)) as Pp.
    split.
    + destruct (x <? y) eqn:E1; [nia|]. destruct (y <? x) eqn:E2; [nia|].
      assert (x = y) by lia. subst. rewrite I1. lia.
    + rewrite I2. destruct (x =? y) eqn:E; cbn [andb]; [assert (x = y) by lia; subst; lia|nia].
Qed.

Lemma wfb_val_range n b : wfb n b -> 0 <= bval b < 256 ^ Z.of_nat n.
Proof. intros [<- H]. apply bval_range. assumption. Qed.
Lemma buf_eq_spec n a b : wfb n a -> wfb n b -> buf_eq a b = (bval a =? bval b).
Proof. intros [La Ha] [Lb Hb]. apply buf_cmp_spec; congruence. Qed.
Lemma buf_lt_spec n a b : wfb n a -> wfb n b -> buf_lt a b = (bval a <? bval b).
Proof. intros [La Ha] [Lb Hb]. apply buf_cmp_spec; congruence. Qed.

Definition buf_iterate_range n := iterate_range (list Z) buf_eq buf_incr buf_decr (wfb n) bval (256 ^ Z.of_nat n)
  (wfb_val_range n) (buf_eq_spec n) (buf_incr_spec n).
Definition buf_iterate_hosts n := iterate_hosts (list Z) buf_eq buf_incr buf_decr (wfb n) bval (256 ^ Z.of_nat n)
  (wfb_val_range n) (buf_eq_spec n) (buf_incr_spec n) (buf_decr_spec n).
Definition buf_contains_spec n := contains_spec (list Z) buf_lt buf_eq (wfb n) bval (buf_eq_spec n) (buf_lt_spec n).
