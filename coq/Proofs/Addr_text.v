(* Text round trips: parsing the printed form gives back the address (HWAddress<n>, IPv4 via the glibc inet_pton model). *)
From LT Require Import Base.Prelude Base.CInt Model.Addr Proofs.Addr_inst.
From Coq Require Import ZifyBool.
Local Open Scope Z_scope.
Ltac Zify.zify_post_hook ::= Z.div_mod_to_equations.

(* ---------- hardware addresses ---------- *)
Lemma hexval_hexdig v : 0 <= v < 16 -> hexval (hexdig v) = Some v.
Proof.
  intros H. unfold hexdig, hexval. destruct (9 <? v) eqn:E.
  - replace ((97 <=? 97 - 10 + v) && (97 - 10 + v <=? 102)) with true by lia. f_equal. lia.
  - replace ((97 <=? 48 + v) && (48 + v <=? 102)) with false by lia.
    replace ((65 <=? 48 + v) && (48 + v <=? 70)) with false by lia.
    replace ((48 <=? 48 + v) && (48 + v <=? 57)) with true by lia. f_equal. lia.
Qed.

Lemma hw_group_printed x rest : 0 <= x < 256 ->
  hw_group (hexdig (x / 16) :: hexdig (x mod 16) :: rest) = Some (x, rest).
Proof.
  intros H. unfold hw_group. cbn [tl].
  rewrite (hexval_hexdig (x / 16)) by lia. rewrite (hexval_hexdig (x mod 16)) by lia.
  f_equal. f_equal. unfold w8. lia.
Qed.

Lemma hw_parse_go_printed b : bytes_ok b -> b <> [] -> forall fuel count n acc,
  (length b <= fuel)%nat -> (count + length b = n)%nat ->
  hw_parse_go fuel (hw_to_string b) count n acc = Some (acc ++ b).
Proof.
  induction 1 as [|x r Hx Hr IH]; intros Hne fuel count n acc Hf Hn; [contradiction|].
  destruct fuel as [|fuel]; [cbn in Hf; lia|].
  destruct r as [|y r'].
  - (* last group *)
    cbn [hw_to_string hw_parse_go].
    replace (Nat.ltb count n) with true by (symmetry; apply Nat.ltb_lt; cbn in Hn; lia).
    rewrite hw_group_printed by assumption.
    cbn in Hn. replace (n - S count)%nat with 0%nat by lia. cbn [repeat]. rewrite app_nil_r. reflexivity.
  - change (hw_to_string (x :: y :: r')) with (hexdig (x / 16) :: hexdig (x mod 16) :: 58 :: hw_to_string (y :: r')).
    cbn [hw_parse_go].
    replace (Nat.ltb count n) with true by (symmetry; apply Nat.ltb_lt; cbn in Hn; lia).
    rewrite hw_group_printed by assumption. rewrite Z.eqb_refl.
    rewrite (IH ltac:(discriminate) fuel (S count) n (acc ++ [x])).
    + rewrite <- app_assoc. reflexivity.
    + cbn in *. lia.
    + cbn in *. lia.
Qed.

Lemma hw_to_string_length b : (length b <= length (hw_to_string b))%nat.
Proof.
  induction b as [|x r IH]; [cbn; lia|]. destruct r as [|y r']; [cbn; lia|].
  change (hw_to_string (x :: y :: r')) with (hexdig (x / 16) :: hexdig (x mod 16) :: 58 :: hw_to_string (y :: r')).
  cbn [length] in *. lia.
Qed.

Theorem hw_roundtrip n b : wfb n b -> (1 <= n)%nat -> hw_parse n (hw_to_string b) = Some b.
Proof.
  intros [Hl Hb] Hn. unfold hw_parse.
  assert (Hne : b <> []) by (destruct b; [cbn in Hl; lia|discriminate]).
  rewrite (hw_parse_go_printed b Hb Hne _ 0%nat n []); [reflexivity| |lia].
  pose proof (hw_to_string_length b). lia.
Qed.

(* ---------- IPv4 dotted decimal, against the model of glibc's inet_pton ---------- *)
Fixpoint dval (cur : Z) (ds : list Z) : Z :=
  match ds with [] => cur | d :: r => dval (cur * 10 + (d - 48)) r end.

Fixpoint okdsb (saw : bool) (cur : Z) (ds : list Z) : bool :=
  match ds with
  | [] => true
  | d :: r => (48 <=? d) && (d <=? 57) && negb (saw && (cur =? 0)) && (cur * 10 + (d - 48) <=? 255)
              && okdsb true (cur * 10 + (d - 48)) r
  end.

Definition dec_ok (n : Z) : bool :=
  let ds := show_dec n in okdsb false 0 ds && (dval 0 ds =? n) && negb (Nat.eqb (length ds) 0).

Lemma dec_ok_all : forallb dec_ok (map Z.of_nat (seq 0 256)) = true.
Proof. vm_compute. reflexivity. Qed.

Lemma dec_ok_byte n : 0 <= n < 256 -> dec_ok n = true.
Proof.
  intros H. pose proof dec_ok_all as A. rewrite forallb_forall in A. apply A.
  apply in_map_iff. exists (Z.to_nat n). split; [lia|]. apply in_seq. lia.
Qed.

Lemma pton_digits ds : forall r saw oct cur acc, okdsb saw cur ds = true -> ds <> [] ->
  (if saw then oct else oct + 1) <= 4 ->
  pton4_go (ds ++ r) saw oct cur acc = pton4_go r true (if saw then oct else oct + 1) (dval cur ds) acc.
Proof.
  induction ds as [|d ds IH]; intros r saw oct cur acc Hok Hne Hoct; [contradiction|].
  cbn [okdsb] in Hok. repeat (apply andb_true_iff in Hok; destruct Hok as [Hok ?]).
  cbn [app pton4_go dval].
  replace ((48 <=? d) && (d <=? 57)) with true by lia.
  replace (saw && (cur =? 0)) with false by (destruct saw, (cur =? 0); cbn in *; congruence).
  replace (255 <? cur * 10 + (d - 48)) with false by lia.
  destruct saw.
  - destruct ds as [|d2 ds2]; [reflexivity|]. rewrite (IH r true oct _ acc); [reflexivity|assumption|discriminate|assumption].
  - replace (4 <? oct + 1) with false by lia.
    destruct ds as [|d2 ds2]; [reflexivity|]. rewrite (IH r true (oct + 1) _ acc); [reflexivity|assumption|discriminate|assumption].
Qed.

Lemma pton_group n r oct acc : 0 <= n < 256 -> oct + 1 <= 4 ->
  pton4_go (show_dec n ++ r) false oct 0 acc = pton4_go r true (oct + 1) n acc.
Proof.
  intros Hn Ho. pose proof (dec_ok_byte n Hn) as H. unfold dec_ok in H.
  apply andb_true_iff in H. destruct H as [H H3]. apply andb_true_iff in H. destruct H as [H1 H2].
  rewrite (pton_digits (show_dec n) r false oct 0 acc H1); [|destruct (show_dec n); [discriminate|discriminate]|assumption].
  f_equal. lia.
Qed.

Theorem v4_roundtrip a : wf4 a -> pton4 (v4_to_string a) = Some a.
Proof.
  unfold wf4. intros Ha. unfold pton4, v4_to_string.
  set (a3 := Z.shiftr a 24 mod 256). set (a2 := Z.shiftr a 16 mod 256). set (a1 := Z.shiftr a 8 mod 256). set (a0 := a mod 256).
  assert (R3 : 0 <= a3 < 256) by (apply Z.mod_pos_bound; lia).
  assert (R2 : 0 <= a2 < 256) by (apply Z.mod_pos_bound; lia).
  assert (R1 : 0 <= a1 < 256) by (apply Z.mod_pos_bound; lia).
  assert (R0 : 0 <= a0 < 256) by (apply Z.mod_pos_bound; lia).
  rewrite <- ?app_assoc.
  rewrite pton_group by lia. cbn [app pton4_go]. replace ((48 <=? 46) && (46 <=? 57)) with false by reflexivity.
  change (46 =? 46) with true. cbn [andb]. replace (0 + 1 =? 4) with false by reflexivity.
  rewrite pton_group by lia. cbn [app pton4_go]. replace ((48 <=? 46) && (46 <=? 57)) with false by reflexivity.
  change (46 =? 46) with true. cbn [andb]. replace (0 + 1 + 1 =? 4) with false by reflexivity.
  rewrite pton_group by lia. cbn [app pton4_go]. replace ((48 <=? 46) && (46 <=? 57)) with false by reflexivity.
  change (46 =? 46) with true. cbn [andb]. replace (0 + 1 + 1 + 1 =? 4) with false by reflexivity.
  rewrite <- (app_nil_r (show_dec a0)). rewrite pton_group by lia. cbn [pton4_go].
  replace (0 + 1 + 1 + 1 + 1 <? 4) with false by reflexivity. cbn [app].
  f_equal. subst a3 a2 a1 a0. rewrite !Z.shiftr_div_pow2 by lia.
  change (2 ^ 24) with 16777216. change (2 ^ 16) with 65536. change (2 ^ 8) with 256. lia.
Qed.
