(* Capture loops and timestamps. *)
From LT Require Import Base.Prelude Base.CInt Model.Capture.
From Coq Require Import ZifyBool.
Local Open Scope Z_scope.
Ltac Zify.zify_post_hook ::= Z.div_mod_to_equations.

(* a timestamp written to a capture file and read back is the same microsecond count, as long as the seconds fit the
   31 bits libpcap's reader keeps *)
Lemma swrap32_small x : 0 <= x < 2147483648 -> swrap 32 (w32 x) = x.
Proof.
  intros H. unfold swrap, w32, wrap. change (2 ^ 32) with 4294967296. change (2 ^ (32 - 1)) with 2147483648.
  rewrite Z.mod_mod by lia. rewrite (Z.mod_small x) by lia. replace (x <? 2147483648) with true by lia. reflexivity.
Qed.

Theorem ts_roundtrip t : 0 <= t < 2147483648 * 1000000 ->
  read_ts (fst (file_ts t)) (snd (file_ts t)) = t.
Proof.
  intros H. unfold read_ts, file_ts, ts_seconds, ts_micro. cbn [fst snd].
  rewrite !swrap32_small by lia. unfold ts_of_timeval, wrap. change (2 ^ 64) with 18446744073709551616. lia.
Qed.

Section Loop.
  Context {frame pkt : Type}.
  Variable parse : frame -> option pkt.

  Fixpoint parsed (fs : list frame) : list pkt :=
    match fs with [] => [] | f :: r => match parse f with Some p => p :: parsed r | None => parsed r end end.

  (* what the functor sees, in terms of the packets that parse: stop after the first one it rejects, or after max *)
  Fixpoint visit (cb : pkt -> bool) (maxp : Z) (ps : list pkt) : list pkt :=
    match ps with
    | [] => []
    | p :: r => p :: (if cb p then (if maxp =? 1 then [] else visit cb (if maxp =? 0 then 0 else maxp - 1) r) else [])
    end.

  Lemma next_packet_spec fs : match next_packet parse fs with
                              | None => parsed fs = []
                              | Some (p, r) => parsed fs = p :: parsed r /\ (length r < length fs)%nat
                              end.
  Proof.
    induction fs as [|f r IH]; cbn; [reflexivity|]. destruct (parse f) as [p|].
    - split; [reflexivity|lia].
    - destruct (next_packet parse r) as [[p r']|]; [|exact IH]. destruct IH as [H1 H2]. split; [exact H1|lia].
  Qed.

  Theorem sniff_loop_spec fuel : forall cb maxp fs, (length fs < fuel)%nat ->
    sniff_loop parse fuel cb maxp fs = visit cb maxp (parsed fs).
  Proof.
    induction fuel as [|f IH]; intros cb maxp fs Hf; [lia|]. cbn [sniff_loop].
    pose proof (next_packet_spec fs) as Hn. destruct (next_packet parse fs) as [[p r]|].
    - destruct Hn as [Hp Hl]. rewrite Hp. cbn [visit]. f_equal. destruct (cb p); [|reflexivity].
      destruct (maxp =? 1); [reflexivity|]. apply IH. lia.
    - rewrite Hn. reflexivity.
  Qed.

  Lemma visit_all ps : visit (fun _ => true) 0 ps = ps.
  Proof. induction ps as [|p r IH]; cbn; [reflexivity|]. rewrite IH. reflexivity. Qed.

  (* range iteration / an always-true functor without a limit: exactly the frames that parse, in file order; malformed
     frames are skipped wherever they are, and the loop ends at end of file *)
  Theorem iterate_is_filter fs : iterate parse fs = parsed fs.
  Proof. unfold iterate. rewrite sniff_loop_spec by lia. apply visit_all. Qed.

  Lemma parsed_app a b : parsed (a ++ b) = parsed a ++ parsed b.
  Proof. induction a as [|f r IH]; cbn; [reflexivity|]. destruct (parse f); cbn; rewrite IH; reflexivity. Qed.

  (* a limit of k packets hands over the first k that parse *)
  Theorem limit_is_prefix k : forall ps, (0 < k)%nat -> visit (fun _ => true) (Z.of_nat k) ps = firstn k ps.
  Proof.
    induction k as [|k IH]; intros ps Hk; [lia|]. destruct ps as [|p r]; [reflexivity|]. cbn [visit firstn]. f_equal.
    destruct k as [|k]; [reflexivity|].
    replace (Z.of_nat (S (S k)) =? 1) with false by lia. replace (Z.of_nat (S (S k)) =? 0) with false by lia.
    replace (Z.of_nat (S (S k)) - 1) with (Z.of_nat (S k)) by lia. apply IH. lia.
  Qed.
End Loop.
