From Coq Require Import ZArith List Bool Lia.
From LT Require Import Gen.ClassTable Spec.Casts.
Import ListNotations.
Local Open Scope Z_scope.

Lemma table_sound_spec cls tg : table_sound cls tg = true ->
  forall K T, In K cls -> In T tg -> is_cacher K = false ->
  (find_accepts K T = true \/ cast_accepts K T = true) -> is_a K T = true.
Proof.
  unfold table_sound. intros H K T HK HT Hc Hacc.
  rewrite forallb_forall in H. specialize (H K HK). rewrite Hc in H. cbn in H.
  rewrite forallb_forall in H. specialize (H T HT). unfold sound_pair in H.
  destruct (find_accepts K T), (cast_accepts K T), (is_a K T); cbn in *; try reflexivity; try discriminate;
    destruct Hacc; discriminate.
Qed.

Lemma generated_table_sound : table_sound classes targets = true.
Proof. vm_compute. reflexivity. Qed.

Lemma generated_self_found : forallb self_found classes = true.
Proof. vm_compute. reflexivity. Qed.

Lemma sound_all : forall K T, In K classes -> In T targets -> is_cacher K = false ->
  (find_accepts K T = true \/ cast_accepts K T = true) -> is_a K T = true.
Proof. exact (table_sound_spec classes targets generated_table_sound). Qed.

Lemma self_all : forall K, In K classes -> In (k_id K) (map fst targets) -> find_accepts K (k_id K, k_flag K) = true.
Proof.
  intros K HK Hin. pose proof generated_self_found as H. rewrite forallb_forall in H. specialize (H K HK).
  unfold self_found in H. replace (zin (k_id K) (map fst targets)) with true in H; [exact H|].
  symmetry. unfold zin. apply existsb_exists. exists (k_id K). split; [assumption|apply Z.eqb_refl].
Qed.

(* whatever first_unsound returns is a genuine counterexample among the caching wrappers *)
Lemma first_unsound_is_counterexample K T : first_unsound = Some (K, T) ->
  In K classes /\ In T targets /\ is_cacher K = true /\
  (find_accepts K T = true \/ cast_accepts K T = true) /\ is_a K T = false.
Proof.
  unfold first_unsound.
  set (bad := flat_map _ classes). intros H.
  assert (Hin : In (K, T) bad) by (destruct bad; [discriminate|inversion H; left; reflexivity]).
  unfold bad in Hin. apply in_flat_map in Hin. destruct Hin as [K' [HK' Hin]].
  destruct (is_cacher K') eqn:Ec; [|contradiction].
  apply in_map_iff in Hin. destruct Hin as [T' [Heq HT']]. inversion Heq; subst.
  apply filter_In in HT'. destruct HT' as [HT' Hb]. unfold sound_pair in Hb.
  repeat split; try assumption;
  destruct (find_accepts K T), (cast_accepts K T), (is_a K T); cbn in *; try discriminate; auto.
Qed.
