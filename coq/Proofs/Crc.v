(* Utils::crc32 (src/utils/checksum_utils.cpp) -- the 802.11 FCS RadioTap appends and the WEP/TKIP ICV -- is the IEEE 802.3
   CRC-32 of its input, for every byte string.  The code starts from 0, applies no final complement and uses a 16-entry table
   that is NOT the usual nibble table: initial value and final complement are folded into the table.  Shown here:
     tins state = complement of the standard state, at every step, hence equal results. *)
From LT Require Import Base.Prelude Base.CInt Gen.CrcTable Model.Checksum.
Local Open Scope Z_scope.

Definition crc_poly : Z := 3988292384.   (* 0xEDB88320, the reflected IEEE 802.3 polynomial *)
Definition crc_ones : Z := 4294967295.

(* one step of the bit-serial (LSB first) division *)
Definition bit_step (t : Z) : Z := if Z.odd t then Z.lxor (Z.shiftr t 1) crc_poly else Z.shiftr t 1.
Definition bit4 (t : Z) : Z := bit_step (bit_step (bit_step (bit_step t))).

(* the usual 4-bit table: entry i is i pushed through four bit steps *)
Definition std_table : list Z := map bit4 [0;1;2;3;4;5;6;7;8;9;10;11;12;13;14;15].

Definition nib (tbl : list Z) (t n : Z) : Z :=
  Z.lxor (Z.shiftr t 4) (nth (Z.to_nat (Z.land (Z.lxor t n) 15)) tbl 0).

Definition std_step (t byte : Z) : Z := nib std_table (nib std_table t byte) (Z.shiftr byte 4).

(* table-driven IEEE CRC-32: initial value all ones, final complement *)
Definition crc32_ieee (b : list Z) : Z := Z.lxor (fold_left std_step b crc_ones) crc_ones.

(* bit-serial IEEE CRC-32, the definition a reader can compare with the standard *)
Definition bit8 (t : Z) : Z := bit4 (bit4 t).
Definition crc32_bitwise (b : list Z) : Z := Z.lxor (fold_left (fun t byte => bit8 (Z.lxor t byte)) b crc_ones) crc_ones.

Lemma crc_step_nib s byte : crc_step s byte = nib crc_table (nib crc_table s byte) (Z.shiftr byte 4).
Proof. reflexivity. Qed.

Lemma land15_range x : 0 <= Z.land x 15 < 16.
Proof. change 15 with (Z.ones 4). rewrite Z.land_ones by lia. apply Z.mod_pos_bound. reflexivity. Qed.

Lemma land15_flip x : Z.land (Z.lxor x crc_ones) 15 = Z.lxor (Z.land x 15) 15.
Proof.
  apply Z.bits_inj'. intros k Hk. rewrite Z.lxor_spec, !Z.land_spec, Z.lxor_spec.
  change 15 with (Z.ones 4). change crc_ones with (Z.ones 32).
  destruct (Z.ltb_spec k 4) as [L|L].
  - rewrite (Z.ones_spec_low 4 k), (Z.ones_spec_low 32 k) by lia. destruct (Z.testbit x k); reflexivity.
  - rewrite (Z.ones_spec_high 4 k) by lia. destruct (Z.testbit x k), (Z.testbit (Z.ones 32) k); reflexivity.
Qed.

(* the folded table: entry (i xor 15) is the standard entry i with the four top bits complemented *)
Lemma table_rel i : 0 <= i < 16 ->
  nth (Z.to_nat (Z.lxor i 15)) crc_table 0 = Z.lxor (nth (Z.to_nat i) std_table 0) 4026531840.
Proof.
  intros Hi.
  assert (H : forallb (fun i => nth (Z.to_nat (Z.lxor i 15)) crc_table 0 =? Z.lxor (nth (Z.to_nat i) std_table 0) 4026531840)
                [0;1;2;3;4;5;6;7;8;9;10;11;12;13;14;15] = true) by (vm_compute; reflexivity).
  rewrite forallb_forall in H. apply Z.eqb_eq, H.
  assert (i = 0 \/ i = 1 \/ i = 2 \/ i = 3 \/ i = 4 \/ i = 5 \/ i = 6 \/ i = 7 \/ i = 8 \/ i = 9 \/ i = 10 \/ i = 11 \/
          i = 12 \/ i = 13 \/ i = 14 \/ i = 15) as D by lia.
  cbn [In]. intuition.
Qed.

Lemma nib_rel t n : nib crc_table (Z.lxor t crc_ones) n = Z.lxor (nib std_table t n) crc_ones.
Proof.
  unfold nib.
  replace (Z.lxor (Z.lxor t crc_ones) n) with (Z.lxor (Z.lxor t n) crc_ones)
    by (rewrite !Z.lxor_assoc; f_equal; apply Z.lxor_comm).
  rewrite land15_flip, table_rel by apply land15_range.
  rewrite Z.shiftr_lxor. change (Z.shiftr crc_ones 4) with 268435455.
  set (a := Z.shiftr t 4). set (e := nth _ std_table 0).
  change crc_ones with (Z.lxor 268435455 4026531840).
  apply Z.bits_inj'. intros k _. rewrite !Z.lxor_spec.
  destruct (Z.testbit a k), (Z.testbit e k), (Z.testbit 268435455 k), (Z.testbit 4026531840 k); reflexivity.
Qed.

Lemma step_rel t byte : crc_step (Z.lxor t crc_ones) byte = Z.lxor (std_step t byte) crc_ones.
Proof. rewrite crc_step_nib. unfold std_step. rewrite !nib_rel. reflexivity. Qed.

Lemma fold_rel b : forall t, fold_left crc_step b (Z.lxor t crc_ones) = Z.lxor (fold_left std_step b t) crc_ones.
Proof.
  induction b as [|x r IH]; intros t; cbn [fold_left]; [reflexivity|].
  rewrite step_rel. apply IH.
Qed.

Theorem crc32_is_ieee b : crc32 b = crc32_ieee b.
Proof.
  unfold crc32, crc32_ieee. replace 0 with (Z.lxor crc_ones crc_ones) at 1 by reflexivity. apply fold_rel.
Qed.

(* ---- the table-driven form is the bit-serial division (linearity of the shift register over GF(2)) ---- *)
Ltac xor_bits := apply Z.bits_inj'; intros ?k _; rewrite ?Z.lxor_spec;
  repeat match goal with |- context[Z.testbit ?a ?k] => destruct (Z.testbit a k) end; reflexivity.

Lemma bit_step_lin a b : bit_step (Z.lxor a b) = Z.lxor (bit_step a) (bit_step b).
Proof.
  unfold bit_step. rewrite <- !Z.bit0_odd, Z.lxor_spec, Z.shiftr_lxor.
  set (x := Z.shiftr a 1). set (y := Z.shiftr b 1). set (p := crc_poly).
  destruct (Z.testbit a 0), (Z.testbit b 0); cbn [xorb]; xor_bits.
Qed.

Lemma bit4_lin a b : bit4 (Z.lxor a b) = Z.lxor (bit4 a) (bit4 b).
Proof. unfold bit4. rewrite !bit_step_lin. reflexivity. Qed.

Lemma bit_step_shl y k : 0 <= k -> bit_step (Z.shiftl y (k + 1)) = Z.shiftl y k.
Proof.
  intros Hk. unfold bit_step. rewrite <- Z.bit0_odd, Z.shiftl_spec_low by lia.
  rewrite Z.shiftr_shiftl_l by lia. f_equal. lia.
Qed.

Lemma bit4_shl y : bit4 (Z.shiftl y 4) = y.
Proof.
  unfold bit4. change 4 with (3 + 1). rewrite bit_step_shl by lia. change 3 with (2 + 1). rewrite bit_step_shl by lia.
  change 2 with (1 + 1). rewrite bit_step_shl by lia. change 1 with (0 + 1). rewrite bit_step_shl by lia. apply Z.shiftl_0_r.
Qed.

Lemma nibble_split x : x = Z.lxor (Z.land x 15) (Z.shiftl (Z.shiftr x 4) 4).
Proof.
  apply Z.bits_inj'. intros k Hk. rewrite Z.lxor_spec, Z.land_spec. change 15 with (Z.ones 4).
  destruct (Z.ltb_spec k 4) as [L|L].
  - rewrite Z.ones_spec_low, Z.shiftl_spec_low by lia. destruct (Z.testbit x k); reflexivity.
  - rewrite Z.ones_spec_high, Z.shiftl_spec_high, Z.shiftr_spec by lia. replace (k - 4 + 4) with k by lia.
    destruct (Z.testbit x k); reflexivity.
Qed.

Lemma bit4_table i : 0 <= i < 16 -> bit4 i = nth (Z.to_nat i) std_table 0.
Proof.
  intros Hi.
  assert (i = 0 \/ i = 1 \/ i = 2 \/ i = 3 \/ i = 4 \/ i = 5 \/ i = 6 \/ i = 7 \/ i = 8 \/ i = 9 \/ i = 10 \/ i = 11 \/
          i = 12 \/ i = 13 \/ i = 14 \/ i = 15) as D by lia.
  repeat (destruct D as [->|D]; [reflexivity|]). subst i. reflexivity.
Qed.

Lemma bit4_nib x : bit4 x = Z.lxor (Z.shiftr x 4) (nth (Z.to_nat (Z.land x 15)) std_table 0).
Proof.
  rewrite (nibble_split x) at 1. rewrite bit4_lin, bit4_shl, bit4_table by apply land15_range. apply Z.lxor_comm.
Qed.

Lemma nib_bit4 t n : nib std_table t n = Z.lxor (bit4 (Z.lxor t n)) (Z.shiftr n 4).
Proof.
  unfold nib. rewrite bit4_nib, Z.shiftr_lxor.
  set (a := Z.shiftr t 4). set (c := Z.shiftr n 4). set (e := nth _ std_table 0). xor_bits.
Qed.

Lemma std_step_bit8 t byte : 0 <= byte < 256 -> std_step t byte = bit8 (Z.lxor t byte).
Proof.
  intros Hb. unfold std_step, bit8. rewrite (nib_bit4 (nib std_table t byte)), (nib_bit4 t byte).
  replace (Z.shiftr (Z.shiftr byte 4) 4) with 0.
  - rewrite Z.lxor_0_r. f_equal. set (u := bit4 (Z.lxor t byte)). set (c := Z.shiftr byte 4). xor_bits.
  - rewrite Z.shiftr_shiftr by lia. change (4 + 4) with 8. rewrite Z.shiftr_div_pow2 by lia. symmetry. apply Z.div_small. lia.
Qed.

Lemma fold_std_bitwise b : Forall (fun x => 0 <= x < 256) b -> forall t,
  fold_left std_step b t = fold_left (fun t byte => bit8 (Z.lxor t byte)) b t.
Proof.
  induction 1 as [|x r Hx _ IH]; intros t; cbn [fold_left]; [reflexivity|].
  rewrite std_step_bit8 by exact Hx. apply IH.
Qed.

(* every byte string: libtins' crc32 is the bit-serial IEEE 802.3 CRC-32 (reflected 0x04C11DB7, init and final xor all ones) *)
Theorem crc32_is_bitwise_ieee b : Forall (fun x => 0 <= x < 256) b -> crc32 b = crc32_bitwise b.
Proof.
  intros Hb. rewrite crc32_is_ieee. unfold crc32_ieee, crc32_bitwise. rewrite fold_std_bitwise by exact Hb. reflexivity.
Qed.

(* ---- CRC-32 is affine over GF(2): the change of the CRC under a bit pattern d depends on d alone.  This is the algebraic
   fact behind the recorded C09 finding (TKIP frames are accepted on the ICV alone: a payload bit flip plus the key-free
   ICV patch [crc_delta d] verifies). ---- *)
Definition xor_bytes (a d : list Z) : list Z := map (fun p => Z.lxor (fst p) (snd p)) (combine a d).
Definition bit_run (b : list Z) (t : Z) : Z := fold_left (fun t byte => bit8 (Z.lxor t byte)) b t.
Definition crc_delta (d : list Z) : Z := bit_run d 0.

Lemma bit8_lin a b : bit8 (Z.lxor a b) = Z.lxor (bit8 a) (bit8 b).
Proof. unfold bit8. rewrite !bit4_lin. reflexivity. Qed.

Lemma bit_run_lin a : forall d t u, length a = length d ->
  bit_run (xor_bytes a d) (Z.lxor t u) = Z.lxor (bit_run a t) (bit_run d u).
Proof.
  induction a as [|x r IH]; intros [|y s] t u Hl; try discriminate Hl; [reflexivity|].
  unfold bit_run, xor_bytes in *. cbn [combine map fold_left fst snd].
  replace (Z.lxor (Z.lxor t u) (Z.lxor x y)) with (Z.lxor (Z.lxor t x) (Z.lxor u y)) by xor_bits.
  rewrite bit8_lin. apply IH. injection Hl as Hl. exact Hl.
Qed.

Lemma log2_byte x : 0 <= x < 256 -> Z.log2 x < 8.
Proof. intros Hx. destruct (Z.eq_dec x 0) as [->|Hn]; [reflexivity|]. apply Z.log2_lt_pow2; lia. Qed.

Lemma lxor_byte x y : 0 <= x < 256 -> 0 <= y < 256 -> 0 <= Z.lxor x y < 256.
Proof.
  intros Hx Hy. assert (H0 : 0 <= Z.lxor x y) by (apply Z.lxor_nonneg; lia). split; [exact H0|].
  destruct (Z.eq_dec (Z.lxor x y) 0) as [->|Hn]; [reflexivity|].
  change 256 with (2 ^ 8). apply Z.log2_lt_pow2; [lia|].
  pose proof (Z.log2_lxor x y ltac:(lia) ltac:(lia)) as Hl.
  pose proof (log2_byte x Hx). pose proof (log2_byte y Hy). lia.
Qed.

Lemma bytes_xor a : forall d, Forall (fun x => 0 <= x < 256) a -> Forall (fun x => 0 <= x < 256) d ->
  Forall (fun x => 0 <= x < 256) (xor_bytes a d).
Proof.
  unfold xor_bytes. induction a as [|x r IH]; intros [|y s] Ha Hd; cbn [combine map]; try constructor.
  - inversion Ha as [|? ? Hx _]; inversion Hd as [|? ? Hy _]; subst. cbn [fst snd]. apply lxor_byte; assumption.
  - inversion Ha; inversion Hd; subst. apply IH; assumption.
Qed.

Theorem crc32_malleable a d : Forall (fun x => 0 <= x < 256) a -> Forall (fun x => 0 <= x < 256) d -> length a = length d ->
  crc32 (xor_bytes a d) = Z.lxor (crc32 a) (crc_delta d).
Proof.
  intros Ha Hd Hl. rewrite !crc32_is_bitwise_ieee by (try apply bytes_xor; assumption).
  unfold crc32_bitwise, crc_delta. fold (bit_run (xor_bytes a d) crc_ones). fold (bit_run a crc_ones).
  replace crc_ones with (Z.lxor crc_ones 0) at 1 by reflexivity.
  rewrite bit_run_lin by exact Hl.
  set (p := bit_run a crc_ones). set (q := bit_run d 0). set (m := crc_ones). xor_bits.
Qed.
