(* CRC-32 residue: a string followed by its own CRC (little-endian) always leaves the same register state -- how receivers check an FCS/ICV *)
From LT Require Import Base.Prelude Base.CInt Gen.CrcTable Model.Checksum Model.Wifi Proofs.Crc.
Local Open Scope Z_scope.

Lemma byte_split x : x = Z.lxor (Z.land x 255) (Z.shiftl (Z.shiftr x 8) 8).
Proof.
  apply Z.bits_inj'. intros k Hk. rewrite Z.lxor_spec, Z.land_spec. change 255 with (Z.ones 8).
  destruct (Z.ltb_spec k 8) as [L|L].
  - rewrite Z.ones_spec_low, Z.shiftl_spec_low by lia. destruct (Z.testbit x k); reflexivity.
  - rewrite Z.ones_spec_high, Z.shiftl_spec_high, Z.shiftr_spec by lia. replace (k - 8 + 8) with k by lia.
    destruct (Z.testbit x k); reflexivity.
Qed.

Lemma bit8_shl y : bit8 (Z.shiftl y 8) = y.
Proof. unfold bit8. change 8 with (4 + 4). rewrite <- Z.shiftl_shiftl by lia. rewrite !bit4_shl. reflexivity. Qed.

Lemma bit8_split x : bit8 x = Z.lxor (Z.shiftr x 8) (bit8 (Z.land x 255)).
Proof. rewrite (byte_split x) at 1. rewrite bit8_lin, bit8_shl. apply Z.lxor_comm. Qed.

Lemma shiftr8_land255 x : Z.shiftr (Z.land x 255) 8 = 0.
Proof.
  apply Z.bits_inj'. intros k Hk. rewrite Z.shiftr_spec, Z.land_spec, Z.bits_0 by lia. change 255 with (Z.ones 8).
  rewrite Z.ones_spec_high by lia. apply andb_false_r.
Qed.

Lemma land255_idem_xor u K c : Z.land (Z.lxor (Z.lxor u K) (Z.land (Z.lxor u c) 255)) 255 = Z.land (Z.lxor K c) 255.
Proof.
  apply Z.bits_inj'. intros k _. rewrite ?Z.land_spec, ?Z.lxor_spec, ?Z.land_spec, ?Z.lxor_spec.
  destruct (Z.testbit u k), (Z.testbit K k), (Z.testbit c k), (Z.testbit 255 k); reflexivity.
Qed.

(* feeding the byte [(u xor c) land 255] into state [u xor K] *)
Lemma residue_step u K c :
  bit8 (Z.lxor (Z.lxor u K) (Z.land (Z.lxor u c) 255)) = Z.lxor (Z.shiftr u 8) (Z.lxor (Z.shiftr K 8) (bit8 (Z.land (Z.lxor K c) 255))).
Proof.
  rewrite bit8_split, land255_idem_xor, !Z.shiftr_lxor, shiftr8_land255, Z.lxor_0_r. apply Z.lxor_assoc.
Qed.

Lemma bit_step_range t : 0 <= t < 4294967296 -> 0 <= bit_step t < 4294967296.
Proof.
  intros Ht. unfold bit_step.
  assert (Hs : 0 <= Z.shiftr t 1 < 2147483648) by (rewrite Z.shiftr_div_pow2 by lia; change (2 ^ 1) with 2; split; [apply Z.div_pos; lia | apply Z.div_lt_upper_bound; lia]).
  destruct (Z.odd t); [|lia].
  assert (H0 : 0 <= Z.lxor (Z.shiftr t 1) crc_poly) by (apply Z.lxor_nonneg; unfold crc_poly; lia).
  split; [exact H0|].
  destruct (Z.eq_dec (Z.lxor (Z.shiftr t 1) crc_poly) 0) as [->|Hn]; [reflexivity|].
  change 4294967296 with (2 ^ 32). apply Z.log2_lt_pow2; [lia|].
  pose proof (Z.log2_lxor (Z.shiftr t 1) crc_poly ltac:(lia) ltac:(unfold crc_poly; lia)) as Hl.
  assert (Z.log2 (Z.shiftr t 1) < 32).
  { destruct (Z.eq_dec (Z.shiftr t 1) 0) as [->|Hz]; [reflexivity|]. apply Z.log2_lt_pow2; [lia|]. change (2 ^ 32) with 4294967296. lia. }
  assert (Z.log2 crc_poly < 32) by (vm_compute; reflexivity).
  lia.
Qed.

Lemma bit8_range t : 0 <= t < 4294967296 -> 0 <= bit8 t < 4294967296.
Proof. intros Ht. unfold bit8, bit4. repeat apply bit_step_range. exact Ht. Qed.

Lemma bit_run_range b : Forall (fun x => 0 <= x < 256) b -> forall t, 0 <= t < 4294967296 -> 0 <= bit_run b t < 4294967296.
Proof.
  unfold bit_run. induction 1 as [|x r Hx _ IH]; intros t Ht; cbn [fold_left]; [exact Ht|].
  apply IH. apply bit8_range.
  assert (H0 : 0 <= Z.lxor t x) by (apply Z.lxor_nonneg; lia). split; [exact H0|].
  destruct (Z.eq_dec (Z.lxor t x) 0) as [->|Hn]; [reflexivity|].
  change 4294967296 with (2 ^ 32). apply Z.log2_lt_pow2; [lia|].
  pose proof (Z.log2_lxor t x ltac:(lia) ltac:(lia)) as Hl. pose proof (log2_byte x Hx).
  assert (Z.log2 t < 32).
  { destruct (Z.eq_dec t 0) as [->|Hz]; [reflexivity|]. apply Z.log2_lt_pow2; [lia|]. change (2 ^ 32) with 4294967296. lia. }
  lia.
Qed.

(* the residue: running the register over a string followed by its own CRC (little-endian, as on the wire) always ends in
   the same state, whatever the string -- the way hardware and many software receivers check an FCS *)
Definition crc_residue : Z := 558161692.   (* 0x2144DF1C *)

Lemma residue_state t : 0 <= t < 4294967296 ->
  fold_left (fun t byte => bit8 (Z.lxor t byte)) (le32 (Z.lxor t crc_ones)) t = Z.lxor crc_residue crc_ones.
Proof.
  intros Ht. unfold le32. cbn [fold_left].
  replace (Z.land (Z.lxor t crc_ones) 255) with (Z.land (Z.lxor t crc_ones) 255) by reflexivity.
  pose proof (residue_step t 0 crc_ones) as S1. rewrite Z.lxor_0_r in S1. rewrite S1. clear S1.
  rewrite !Z.shiftr_lxor.
  replace (Z.shiftr t 16) with (Z.shiftr (Z.shiftr t 8) 8) by (rewrite Z.shiftr_shiftr by lia; reflexivity).
  replace (Z.shiftr t 24) with (Z.shiftr (Z.shiftr (Z.shiftr t 8) 8) 8) by (rewrite !Z.shiftr_shiftr by lia; reflexivity).
  set (u1 := Z.shiftr t 8). set (K1 := Z.lxor (Z.shiftr 0 8) _).
  rewrite (residue_step u1 K1 (Z.shiftr crc_ones 8)).
  set (u2 := Z.shiftr u1 8). set (K2 := Z.lxor (Z.shiftr K1 8) _).
  rewrite (residue_step u2 K2 (Z.shiftr crc_ones 16)).
  set (u3 := Z.shiftr u2 8). set (K3 := Z.lxor (Z.shiftr K2 8) _).
  rewrite (residue_step u3 K3 (Z.shiftr crc_ones 24)).
  replace (Z.shiftr u3 8) with 0.
  - vm_compute. reflexivity.
  - subst u3 u2 u1. rewrite !Z.shiftr_shiftr by lia. rewrite Z.shiftr_div_pow2 by lia.
    symmetry. apply Z.div_small. change (2 ^ (8 + 8 + (8 + 8))) with 4294967296. lia.
Qed.

Lemma land255_byte x : 0 <= Z.land x 255 < 256.
Proof. change 255 with (Z.ones 8). rewrite Z.land_ones by lia. apply Z.mod_pos_bound. reflexivity. Qed.

Lemma le32_bytes v : Forall (fun x => 0 <= x < 256) (le32 v).
Proof. unfold le32. constructor; [apply land255_byte|]. constructor; [apply land255_byte|]. constructor; [apply land255_byte|].
  constructor; [apply land255_byte|]. constructor. Qed.

Theorem crc32_residue m : Forall (fun x => 0 <= x < 256) m -> crc32 (m ++ le32 (crc32 m)) = crc_residue.
Proof.
  intros Hm.
  rewrite (crc32_is_bitwise_ieee (m ++ _)) by (apply Forall_app; split; [exact Hm|apply le32_bytes]).
  rewrite (crc32_is_bitwise_ieee m Hm). unfold crc32_bitwise.
  rewrite fold_left_app. fold (bit_run m crc_ones). set (t := bit_run m crc_ones).
  assert (Ht : 0 <= t < 4294967296) by (apply bit_run_range; [exact Hm|unfold crc_ones; lia]).
  rewrite (residue_state t Ht).
  rewrite Z.lxor_assoc, Z.lxor_nilpotent. apply Z.lxor_0_r.
Qed.
