(* DNS names: what encode_domain_name writes for a legal name is read back unchanged by compose_name,
   for ANY number of labels; compose_name always terminates within its fuel and never touches memory
   outside the message (its only failures are the libtins DNS exceptions). *)
From LT Require Import Base.Prelude Base.CInt Model.DNS.
From Coq Require Import ZifyBool.
Local Open Scope Z_scope.
Ltac Zify.zify_post_hook ::= Z.div_mod_to_equations.

Definition label_ok (l : list Z) : Prop := 1 <= zlen l <= 63 /\ Forall (fun x => 0 <= x < 256) l.

Fixpoint encode_labels_body (ls : list (list Z)) : list Z :=
  match ls with [] => [] | l :: r => zlen l :: l ++ encode_labels_body r end.
Definition encode_labels (ls : list (list Z)) : list Z := encode_labels_body ls ++ [0].

Fixpoint dotted (ls : list (list Z)) : list Z :=
  match ls with [] => [] | [l] => l | l :: r => l ++ 46 :: dotted r end.

Definition legal (ls : list (list Z)) : Prop := Forall label_ok ls /\ zlen (encode_labels ls) <= 255.

(* ---- list plumbing ---- *)
Lemma at_app_r pre l i : 0 <= i -> at_ (pre ++ l) (zlen pre + i) = at_ l i.
Proof.
  intros Hi. unfold at_, zlen. rewrite app_nth2 by lia. f_equal. lia.
Qed.

Lemma sub_app_mid pre (l post : list Z) : sub (pre ++ l ++ post) (zlen pre) (zlen l) = l.
Proof.
  unfold sub, zfirstn, zskipn, zlen. rewrite !Nat2Z.id.
  rewrite skipn_app, skipn_all, Nat.sub_diag. cbn [skipn app].
  rewrite firstn_app, Nat.sub_diag, firstn_all. cbn [firstn]. apply app_nil_r.
Qed.

Lemma zlen_dotted_cons l r : r <> [] -> zlen (dotted (l :: r)) = zlen l + 1 + zlen (dotted r).
Proof. intros H. destruct r; [contradiction|]. cbn [dotted]. rewrite zlen_app, zlen_cons. lia. Qed.

(* the reader, started in the middle of an encoded name with [out] already produced *)
Lemma compose_labels : forall ls fuel pre post out jumps endp,
  Forall label_ok ls -> (length ls < fuel)%nat ->
  zlen out + zlen (encode_labels_body ls) <= 254 ->
  compose_go fuel (pre ++ encode_labels_body ls ++ 0 :: post) (zlen pre) out jumps endp =
  Ok ((match endp with Some x => x | None => zlen pre + zlen (encode_labels_body ls) + 1 end),
      match ls with [] => out | _ => (match out with [] => [] | _ => out ++ [46] end) ++ dotted ls end).
Proof.
  induction ls as [|l r IH]; intros fuel pre post out jumps endp Hok Hf Hlen.
  - destruct fuel as [|fuel]; [cbn in Hf; lia|]. cbn [encode_labels_body app compose_go].
    assert (E : zlen (pre ++ 0 :: post) <=? zlen pre = false) by (rewrite zlen_app, zlen_cons; pose proof (zlen_nonneg post); lia).
    rewrite E. replace (at_ (pre ++ 0 :: post) (zlen pre)) with 0
      by (rewrite <- (Z.add_0_r (zlen pre)), at_app_r by lia; reflexivity).
    cbn [Z.eqb]. rewrite zlen_nil. destruct endp; [reflexivity|]. f_equal. f_equal. lia.
  - destruct fuel as [|fuel]; [cbn in Hf; lia|].
    inversion Hok as [|? ? Hl Hr]; subst. destruct Hl as [Hl1 Hl2].
    cbn [encode_labels_body] in *. rewrite zlen_cons, zlen_app in Hlen.
    set (d := pre ++ (zlen l :: l ++ encode_labels_body r) ++ 0 :: post).
    cbn [compose_go].
    assert (Hd : zlen d = zlen pre + (1 + zlen l + zlen (encode_labels_body r)) + (1 + zlen post)).
    { unfold d. rewrite !zlen_app, !zlen_cons, zlen_app. lia. }
    pose proof (zlen_nonneg post). pose proof (zlen_nonneg (encode_labels_body r)). pose proof (zlen_nonneg out).
    replace (zlen d <=? zlen pre) with false by lia.
    assert (Hb : at_ d (zlen pre) = zlen l).
    { unfold d. rewrite <- (Z.add_0_r (zlen pre)), at_app_r by lia. reflexivity. }
    rewrite Hb. replace (zlen l =? 0) with false by lia.
    assert (Hland : Z.land (zlen l) 192 = 0).
    { assert (Hr63 : 0 <= zlen l < 64) by lia. revert Hr63. generalize (zlen l). intros z Hz.
      apply Z.bits_inj'. intros n Hn. rewrite Z.land_spec, Z.bits_0.
      destruct (Z_lt_le_dec n 6).
      - replace (Z.testbit 192 n) with false; [apply andb_false_r|].
        assert (n = 0 \/ n = 1 \/ n = 2 \/ n = 3 \/ n = 4 \/ n = 5) as [->|[->|[->|[->|[->| ->]]]]] by lia; reflexivity.
      - rewrite (Z.bits_above_log2 z n); [reflexivity|lia|].
        destruct (Z.eq_dec z 0) as [->|]; [cbn; lia|]. apply Z.log2_lt_pow2; [lia|].
        apply Z.lt_le_trans with (2 ^ 6); [cbn; lia|]. apply Z.pow_le_mono_r; lia. }
    rewrite Hland. cbn [Z.eqb].
    replace ((zlen d <? zlen pre + 1 + zlen l) || (255 <? zlen out + zlen l + 1)) with false by lia.
    (* re-associate the buffer so that the induction hypothesis applies with a longer prefix *)
    assert (Hre : d = (pre ++ zlen l :: l) ++ encode_labels_body r ++ 0 :: post).
    { unfold d. rewrite <- ?app_assoc. cbn [app]. rewrite <- ?app_assoc. reflexivity. }
    assert (Hsub : sub d (zlen pre + 1) (zlen l) = l).
    { unfold d. replace (pre ++ (zlen l :: l ++ encode_labels_body r) ++ 0 :: post)
        with ((pre ++ [zlen l]) ++ l ++ (encode_labels_body r ++ 0 :: post))
        by (rewrite <- ?app_assoc; cbn [app]; rewrite <- ?app_assoc; reflexivity).
      replace (zlen pre + 1) with (zlen (pre ++ [zlen l])) by (rewrite zlen_app, zlen_cons, zlen_nil; lia).
      apply sub_app_mid. }
    rewrite Hsub. rewrite Hre.
    replace (zlen pre + 1 + zlen l) with (zlen (pre ++ zlen l :: l)) by (rewrite zlen_app, zlen_cons; lia).
    rewrite IH; [|assumption|cbn in Hf; lia|].
    + f_equal. f_equal.
      * destruct endp; [reflexivity|]. rewrite zlen_app, !zlen_cons, zlen_app. lia.
      * destruct r as [|l2 r2].
        -- cbn [dotted]. reflexivity.
        -- assert (Hne : (match out with [] => [] | _ :: _ => out ++ [46] end) ++ l <> []).
           { destruct l; [cbn in Hl1; lia|]. destruct out; discriminate. }
           destruct ((match out with [] => [] | _ :: _ => out ++ [46] end) ++ l) eqn:E; [contradiction|].
           rewrite <- E. change (dotted (l :: l2 :: r2)) with (l ++ 46 :: dotted (l2 :: r2)).
           rewrite <- !app_assoc. cbn [app]. reflexivity.
    + destruct out; cbn [app]; rewrite ?zlen_app, ?zlen_cons, ?zlen_app, ?zlen_cons; unfold zlen in *; cbn [length] in *; lia.
Qed.

Theorem name_codec labels pre post : legal labels ->
  compose_name (pre ++ encode_labels labels ++ post) (zlen pre) = Ok (zlen (encode_labels labels), dotted labels).
Proof.
  intros [Hok Hlen]. unfold compose_name, encode_labels in *.
  rewrite <- app_assoc. cbn [app].
  assert (Hn : (length labels < 700)%nat).
  { rewrite zlen_app, zlen_cons, zlen_nil in Hlen.
    assert (Z.of_nat (length labels) <= zlen (encode_labels_body labels)).
    { clear - Hok. induction Hok as [|l r [H1 _] Hr IH]; cbn [encode_labels_body length]; [cbn; lia|].
      rewrite zlen_cons, zlen_app. pose proof (zlen_nonneg l). lia. }
    lia. }
  rewrite (compose_labels labels 700 pre post [] 0 None Hok Hn).
  - cbn [bind fst snd]. f_equal. f_equal; [rewrite zlen_app, zlen_cons, zlen_nil; lia|]. destruct labels; reflexivity.
  - rewrite zlen_app, zlen_cons, !zlen_nil in *. lia.
Qed.

(* compose_name terminates within its fuel and its only failures are libtins exceptions (no OOB) *)
Definition wire_ok (d : list Z) : Prop := Forall (fun x => 0 <= x < 256) d.

Lemma at_range d p : wire_ok d -> 0 <= at_ d p < 256.
Proof.
  intros H. unfold at_. destruct (Nat.lt_ge_cases (Z.to_nat p) (length d)) as [Hl|Hl].
  - unfold wire_ok in H. rewrite Forall_forall in H. apply H. apply nth_In. assumption.
  - rewrite nth_overflow by assumption. lia.
Qed.

Lemma zlen_sub (d : list Z) off len : 0 <= off -> 0 <= len -> off + len <= zlen d -> zlen (sub d off len) = len.
Proof.
  intros H1 H2 H3. unfold sub, zfirstn, zskipn, zlen in *. rewrite firstn_length, skipn_length. lia.
Qed.

Lemma compose_go_total : forall fuel d p out jumps endp, wire_ok d -> 0 <= p ->
  0 <= zlen out <= 255 -> 0 <= jumps <= 31 -> (Z.to_nat ((255 - zlen out) + (31 - jumps)) + 2 <= fuel)%nat ->
  match compose_go fuel d p out jumps endp with
  | Ok _ => True
  | Throw e => e = EX_malformed_packet \/ e = EX_dns_decompression_pointer_loops \/ e = EX_dns_decompression_pointer_out_of_bounds
  | OOB _ => False
  | OutOfFuel => False
  end.
Proof.
  induction fuel as [|fuel IH]; intros d p out jumps endp Hd Hp Ho Hj Hf; [lia|].
  cbn [compose_go]. pose proof (at_range d p Hd) as Hb.
  destruct (zlen d <=? p) eqn:Ee; [left; reflexivity|].
  destruct (at_ d p =? 0) eqn:E0; [exact I|].
  destruct (Z.land (at_ d p) 192 =? 192).
  - destruct (30 <? jumps) eqn:Ej; [right; left; reflexivity|].
    destruct (zlen d <? p + 2); [left; reflexivity|].
    destruct ((Z.land (be16 d p) 16383 <? 12) || (zlen d <=? Z.land (be16 d p) 16383 - 12)) eqn:Eb; [right; right; reflexivity|].
    apply IH; try assumption; try lia.
  - destruct ((zlen d <? p + 1 + at_ d p) || (255 <? zlen out + at_ d p + 1)) eqn:Ec; [left; reflexivity|].
    assert (Hs : zlen (sub d (p + 1) (at_ d p)) = at_ d p) by (apply zlen_sub; lia).
    apply IH; try assumption; try lia.
    + rewrite zlen_app, Hs. destruct out as [|o0 out']; cbn [app]; unfold zlen in *; rewrite ?app_length in *; cbn [length] in *; rewrite ?app_length in *; cbn [length] in *; lia.
    + rewrite zlen_app, Hs. destruct out as [|o0 out']; cbn [app]; unfold zlen in *; rewrite ?app_length in *; cbn [length] in *; rewrite ?app_length in *; cbn [length] in *; lia.
Qed.

Theorem compose_name_total d p : wire_ok d -> 0 <= p ->
  match compose_name d p with
  | Ok _ => True
  | Throw e => e = EX_malformed_packet \/ e = EX_dns_decompression_pointer_loops \/ e = EX_dns_decompression_pointer_out_of_bounds
  | OOB _ => False
  | OutOfFuel => False
  end.
Proof.
  intros Hd Hp. unfold compose_name.
  pose proof (compose_go_total 700 d p [] 0 None Hd Hp) as H. change (zlen (@nil Z)) with 0 in H.
  specialize (H ltac:(lia) ltac:(lia) ltac:(cbn; lia)).
  destruct (compose_go 700 d p [] 0 None); cbn [bind]; auto.
Qed.
