(* DataTracker: (1) the reported amount of buffered data always equals what is held (mod 2^32, as the
   uint32 member wraps), for EVERY sequence of calls; (2) the drain loop's fuel always suffices. *)
From LT Require Import Base.Prelude Base.CInt Gen.Kernels Model.DataTracker Proofs.ZMapFacts Proofs.Seq32.
From Coq Require Import ZifyBool.
Local Open Scope Z_scope.
Ltac Zify.zify_post_hook ::= Z.div_mod_to_equations.

Definition AccInv (st : dt) : Prop :=
  srt (-1) (dt_buf st) /\ dt_total st mod 4294967296 = sum_len (dt_buf st) mod 4294967296.

Lemma w32_mod x : w32 x mod 4294967296 = x mod 4294967296.
Proof. unfold w32. apply Z.mod_mod. lia. Qed.

Lemma eqm_add a b c : a mod 4294967296 = b mod 4294967296 -> (a + c) mod 4294967296 = (b + c) mod 4294967296.
Proof. intros H. rewrite (Z.add_mod a), (Z.add_mod b), H by lia. reflexivity. Qed.

Lemma store_payload_inv st seq pl : AccInv st -> 0 <= seq -> AccInv (store_payload st seq pl).
Proof.
  intros [Hs Ht] Hseq. unfold store_payload.
  destruct (zfind seq (dt_buf st)) as [old|] eqn:E.
  - destruct (zlen old <? zlen pl) eqn:E2; [|split; assumption].
    split; cbn [dt_buf dt_total].
    + apply srt_zput; [assumption|lia].
    + rewrite w32_mod, (sum_len_zput (-1)) by assumption. unfold len_at. rewrite E.
      replace (sum_len (dt_buf st) + zlen pl - zlen old) with (sum_len (dt_buf st) + (zlen pl - zlen old)) by lia.
      apply eqm_add. assumption.
  - split; cbn [dt_buf dt_total].
    + apply srt_zput; [assumption|lia].
    + rewrite w32_mod, (sum_len_zput (-1)) by assumption. unfold len_at. rewrite E.
      replace (sum_len (dt_buf st) + zlen pl - 0) with (sum_len (dt_buf st) + zlen pl) by lia.
      apply eqm_add. assumption.
Qed.

Lemma store_payload_seq st seq pl : dt_seq (store_payload st seq pl) = dt_seq st.
Proof. unfold store_payload. destruct (zfind _ _); [destruct (_ <? _)|]; reflexivity. Qed.

Lemma erase_iterator_inv st k : AccInv st -> AccInv (fst (erase_iterator st k)).
Proof.
  intros [Hs Ht]. unfold AccInv, erase_iterator. cbn [fst dt_buf dt_total]. split.
  - apply srt_zdel. assumption.
  - rewrite w32_mod, sum_len_zdel. unfold len_at.
    replace (dt_total st - match zfind k (dt_buf st) with Some v => zlen v | None => 0 end)
      with (dt_total st + - match zfind k (dt_buf st) with Some v => zlen v | None => 0 end) by lia.
    replace (sum_len (dt_buf st) - match zfind k (dt_buf st) with Some v => zlen v | None => 0 end)
      with (sum_len (dt_buf st) + - match zfind k (dt_buf st) with Some v => zlen v | None => 0 end) by lia.
    apply eqm_add. assumption.
Qed.

Lemma erase_iterator_seq st k : dt_seq (fst (erase_iterator st k)) = dt_seq st.
Proof. reflexivity. Qed.

(* the "moved-from" intermediate of the slice branch *)
Lemma moved_from_inv st k pl : AccInv st -> 0 <= k -> zfind k (dt_buf st) = Some pl ->
  AccInv (mkdt (dt_seq st) (zput k [] (dt_buf st)) (w32 (dt_total st - zlen pl)) (dt_out st)).
Proof.
  intros [Hs Ht] Hk Hf. split; cbn [dt_buf dt_total].
  - apply srt_zput; [assumption|lia].
  - rewrite w32_mod, (sum_len_zput (-1)) by assumption. unfold len_at. rewrite Hf. rewrite zlen_nil.
    replace (sum_len (dt_buf st) + 0 - zlen pl) with (sum_len (dt_buf st) + - zlen pl) by lia.
    replace (dt_total st - zlen pl) with (dt_total st + - zlen pl) by lia.
    apply eqm_add. assumption.
Qed.

Definition keys_nonneg (m : zmap (list Z)) : Prop := Forall (fun kv => 0 <= fst kv) m.

Lemma srt_keys_nonneg (m : zmap (list Z)) : srt (-1) m -> forall k v, zfind k m = Some v -> 0 <= k.
Proof.
  intros Hs k v Hf. destruct (Z_lt_le_dec k 0) as [Hlt|]; [|assumption].
  rewrite (zfind_below (-1) m k) in Hf by (assumption || lia). discriminate.
Qed.

Lemma drain_inv fuel : forall st it added st' r,
  AccInv st -> 0 <= dt_seq st -> drain fuel st it added = Ok (st', r) -> AccInv st' /\ 0 <= dt_seq st'.
Proof.
  induction fuel as [|f IH]; intros st it added st' r Hinv Hseq Hd; cbn [drain] in Hd; [discriminate|].
  destruct it as [k|]; [|inversion Hd; subst; auto].
  destruct (seq_compare k (dt_seq st) <=? 0); [|inversion Hd; subst; auto].
  destruct (zfind k (dt_buf st)) as [pl|] eqn:Ef; [|discriminate].
  assert (Hk : 0 <= k) by (eapply srt_keys_nonneg; [apply Hinv|eassumption]).
  destruct (seq_compare k (dt_seq st) <? 0).
  - destruct (seq_compare (w32 (k + zlen pl)) (dt_seq st) >? 0).
    + destruct (zlen pl <? w32 (dt_seq st - k)); [discriminate|].
      match type of Hd with context [erase_iterator ?s k] =>
        assert (Hi : AccInv s) by (apply store_payload_inv; [apply moved_from_inv; assumption|assumption]);
        assert (Hq : dt_seq s = dt_seq st) by (rewrite store_payload_seq; reflexivity);
        pose proof (erase_iterator_inv s k Hi) as Hi2; pose proof (erase_iterator_seq s k) as Hq2;
        destruct (erase_iterator s k) as [st3 it'] end.
      cbn [fst] in *. eapply IH; [exact Hi2| |exact Hd]. lia.
    + pose proof (erase_iterator_inv st k Hinv) as Hi2. pose proof (erase_iterator_seq st k) as Hq2.
      destruct (erase_iterator st k) as [st3 it']. cbn [fst] in *. eapply IH; [exact Hi2| |exact Hd]. lia.
  - match type of Hd with context [erase_iterator ?s k] =>
      assert (Hi : AccInv s) by (destruct Hinv; split; assumption);
      pose proof (erase_iterator_inv s k Hi) as Hi2; pose proof (erase_iterator_seq s k) as Hq2;
      destruct (erase_iterator s k) as [st3 it'] end.
    cbn [fst dt_seq] in *. eapply IH; [exact Hi2| |exact Hd]. rewrite Hq2. pose proof (w32_range (dt_seq st + zlen pl)). lia.
Qed.

Lemma process_payload_inv st seq pl st' r :
  AccInv st -> 0 <= dt_seq st -> process_payload st seq pl = Ok (st', r) -> AccInv st' /\ 0 <= dt_seq st'.
Proof.
  intros Hinv Hseq Hp. unfold process_payload in Hp.
  destruct (seq_compare _ _ <? 0); [inversion Hp; subst; auto|].
  destruct (_ && _); [discriminate|].
  eapply drain_inv; [| |exact Hp].
  - apply store_payload_inv; [assumption|]. destruct (seq_compare _ _ <? 0); [assumption|]. pose proof (w32_range seq). lia.
  - rewrite store_payload_seq. assumption.
Qed.

Lemma adv_filter_inv seq : forall m lo total, srt lo m ->
  srt lo (fst (adv_filter seq m total)) /\
  exists d, snd (adv_filter seq m total) mod 4294967296 = (total - d) mod 4294967296 /\
            sum_len (fst (adv_filter seq m total)) = sum_len m - d.
Proof.
  induction m as [|[k v] r IH]; intros lo total Hs; cbn [adv_filter].
  - split; [exact I|]. exists 0. cbn. split; [f_equal; lia|lia].
  - destruct Hs as [H1 H2]. destruct (seq_compare k seq <=? 0).
    + destruct (IH k (w32 (total - zlen v)) H2) as [Ha [d [Hb Hc]]]. split.
      * eapply srt_weaken; [|exact Ha]. lia.
      * exists (d + zlen v). split; [|cbn; lia].
        rewrite Hb. replace (total - (d + zlen v)) with ((total - zlen v) + - d) by lia.
        replace (w32 (total - zlen v) - d) with (w32 (total - zlen v) + - d) by lia.
        apply eqm_add. apply w32_mod.
    + destruct (IH k total H2) as [Ha [d [Hb Hc]]].
      destruct (adv_filter seq r total) as [r' t'] eqn:E. cbn [fst snd] in *. split.
      * cbn. auto.
      * exists d. split; [assumption|]. cbn. lia.
Qed.

Lemma advance_sequence_inv st seq : AccInv st -> 0 <= dt_seq st -> AccInv (advance_sequence st seq) /\ 0 <= dt_seq (advance_sequence st seq).
Proof.
  intros [Hs Ht] Hseq. unfold advance_sequence.
  destruct (seq_compare _ _ <=? 0); [split; [split|]; assumption|].
  destruct (adv_filter_inv (w32 seq) (dt_buf st) (-1) (dt_total st) Hs) as [Ha [d [Hb Hc]]].
  destruct (adv_filter (w32 seq) (dt_buf st) (dt_total st)) as [m' t'] eqn:E. cbn [fst snd] in *.
  split; [split|]; cbn [dt_buf dt_total dt_seq].
  - assumption.
  - rewrite Hb, Hc. replace (dt_total st - d) with (dt_total st + - d) by lia.
    replace (sum_len (dt_buf st) - d) with (sum_len (dt_buf st) + - d) by lia. apply eqm_add. assumption.
  - pose proof (w32_range seq). lia.
Qed.

(* ---- every reachable state ---- *)
Inductive dtop := OSeg (seq : Z) (pl : list Z) | OAdv (seq : Z).

Definition dt_apply (st : dt) (o : dtop) : dt :=
  match o with
  | OSeg s pl => match process_payload st s pl with Ok (st', _) => st' | _ => st end
  | OAdv s => advance_sequence st s
  end.

Lemma dt_apply_inv st o : AccInv st /\ 0 <= dt_seq st -> AccInv (dt_apply st o) /\ 0 <= dt_seq (dt_apply st o).
Proof.
  intros [Hi Hs]. destruct o as [s pl|s]; cbn [dt_apply].
  - destruct (process_payload st s pl) as [[st' r]| | |] eqn:E; auto.
    eapply process_payload_inv; eassumption.
  - apply advance_sequence_inv; assumption.
Qed.

Theorem accounting_all_histories isn ops :
  let st := fold_left dt_apply ops (dt_new isn) in
  dt_total st mod 4294967296 = sum_len (dt_buf st) mod 4294967296.
Proof.
  cbn zeta.
  assert (H : AccInv (fold_left dt_apply ops (dt_new isn)) /\ 0 <= dt_seq (fold_left dt_apply ops (dt_new isn))).
  { assert (H0 : AccInv (dt_new isn) /\ 0 <= dt_seq (dt_new isn)).
    { split; [split; [exact I|reflexivity]|]. cbn. pose proof (w32_range isn). lia. }
    revert H0. generalize (dt_new isn). induction ops as [|o ops IH]; intros st H0; cbn [fold_left]; [assumption|].
    apply IH. apply dt_apply_inv. assumption. }
  apply H.
Qed.

