(* The drain loop of DataTracker::process_payload terminates: the fuel the model gives it
   (2*|buffer|+2) is never exhausted, for ANY state with a well-formed map and ANY input.
   Measure: 2*|buffer| - [a chunk is stored at the current sequence number]. *)
From LT Require Import Base.Prelude Base.CInt Gen.Kernels Model.DataTracker Proofs.ZMapFacts Proofs.Seq32 Proofs.DataTracker_acc.
From Coq Require Import ZifyBool ZifyNat.
Local Open Scope Z_scope.

Definition ind (seq : Z) (m : zmap (list Z)) : nat := match zfind seq m with Some _ => 1%nat | None => 0%nat end.
Definition measure (st : dt) : nat := (2 * length (dt_buf st) - ind (dt_seq st) (dt_buf st))%nat.

Lemma seq_compare_refl a : seq_compare a a = 0.
Proof. unfold seq_compare. rewrite Z.eqb_refl. reflexivity. Qed.

Lemma zfind_some_length {V} (m : zmap V) k v : zfind k m = Some v -> (1 <= length m)%nat.
Proof. destruct m; cbn; [discriminate|lia]. Qed.

Lemma ind_le1 s m : (ind s m <= 1)%nat.
Proof. unfold ind. destruct (zfind s m); lia. Qed.

(* erase branch: the erased key is not the current sequence number *)
Lemma measure_erase m k s pl : zfind k m = Some pl -> s <> k ->
  (2 * length (zdel k m) - ind s (zdel k m) < 2 * length m - ind s m)%nat.
Proof.
  intros Hf Hne. pose proof (zfind_some_length _ _ _ Hf). pose proof (ind_le1 s m).
  rewrite length_zdel, Hf. unfold ind. rewrite zfind_zdel_other by assumption.
  destruct (zfind s m); lia.
Qed.

(* deliver branch: whatever the new sequence number is *)
Lemma measure_deliver m k s s' pl : zfind k m = Some pl -> zfind s m <> None \/ True ->
  k = s -> (2 * length (zdel k m) - ind s' (zdel k m) < 2 * length m - ind s m)%nat.
Proof.
  intros Hf _ ->. pose proof (zfind_some_length _ _ _ Hf).
  rewrite length_zdel, Hf. unfold ind at 2. rewrite Hf. pose proof (ind_le1 s' (zdel s m)). lia.
Qed.

Lemma deliver_key_eq k s : 0 <= k < 4294967296 -> 0 <= s < 4294967296 ->
  (seq_compare k s <=? 0) = true -> (seq_compare k s <? 0) = false -> k = s.
Proof.
  intros Hk Hs H1 H2. rewrite seq_compare_spec in * by assumption. unfold seq_cmp_spec, rel in *.
  destruct ((s - k) mod 4294967296 =? 0) eqn:E1.
  - assert (Hz : (s - k) mod 4294967296 = 0) by lia.
    apply Z.mod_divide in Hz; [|lia]. destruct Hz as [q Hq]. lia.
  - destruct ((s - k) mod 4294967296 <? 2147483648); cbn in *; lia.
Qed.

(* slice branch *)
Lemma measure_slice m k s pl v : srt (-1) m -> 0 <= s -> 0 <= k -> zfind k m = Some pl -> s <> k ->
  let m1 := zput k [] m in
  let m2 := match zfind s m1 with
            | None => zput s v m1
            | Some old => if zlen old <? zlen v then zput s v m1 else m1
            end in
  srt (-1) (zdel k m2) /\
  (2 * length (zdel k m2) - ind s (zdel k m2) < 2 * length m - ind s m)%nat.
Proof.
  intros Hs Hs0 Hk0 Hf Hne m1 m2.
  pose proof (zfind_some_length _ _ _ Hf) as Hlen.
  assert (Hs1 : srt (-1) m1) by (apply srt_zput; [assumption|lia]).
  assert (Hl1 : length m1 = length m).
  { unfold m1. rewrite (length_zput (-1)) by assumption. rewrite Hf. reflexivity. }
  assert (Hf1 : zfind s m1 = zfind s m) by (apply zfind_zput_other; assumption).
  assert (Hk1 : zfind k m1 = Some []) by apply zfind_zput_same.
  subst m2. rewrite Hf1. unfold ind at 2.
  destruct (zfind s m) as [old|] eqn:Eo.
  - destruct (zlen old <? zlen v).
    + split; [apply srt_zdel; apply srt_zput; [assumption|lia]|].
      rewrite length_zdel, zfind_zput_other, Hk1 by congruence.
      rewrite (length_zput (-1)), Hf1, Hl1 by assumption.
      unfold ind. rewrite zfind_zdel_other, zfind_zput_same by assumption. lia.
    + split; [apply srt_zdel; assumption|].
      rewrite length_zdel, Hk1, Hl1.
      unfold ind. rewrite zfind_zdel_other, Hf1 by assumption. lia.
  - split; [apply srt_zdel; apply srt_zput; [assumption|lia]|].
    rewrite length_zdel, zfind_zput_other, Hk1 by congruence.
    rewrite (length_zput (-1)), Hf1, Hl1 by assumption.
    unfold ind. rewrite zfind_zdel_other, zfind_zput_same by assumption. lia.
Qed.

Lemma drain_terminates fuel : forall st it added,
  srt (-1) (dt_buf st) -> 0 <= dt_seq st < 4294967296 -> (measure st < fuel)%nat -> drain fuel st it added <> OutOfFuel.
Proof.
  induction fuel as [|f IH]; intros st it added Hs Hseq Hm; [lia|]. cbn [drain].
  destruct it as [k|]; [|discriminate].
  destruct (seq_compare k (dt_seq st) <=? 0) eqn:Ele; [|discriminate].
  destruct (zfind k (dt_buf st)) as [pl|] eqn:Ef; [|discriminate].
  assert (Hk : 0 <= k) by (eapply srt_keys_nonneg; eassumption).
  destruct (seq_compare k (dt_seq st) <? 0) eqn:Elt.
  - assert (Hne : dt_seq st <> k).
    { intros Heq. rewrite Heq, seq_compare_refl in Elt. discriminate. }
    destruct (seq_compare (w32 (k + zlen pl)) (dt_seq st) >? 0).
    + destruct (zlen pl <? w32 (dt_seq st - k)); [discriminate|].
      destruct (measure_slice (dt_buf st) k (dt_seq st) pl (zskipn (w32 (dt_seq st - k)) pl)) as [Ha Hb];
        try assumption; try lia.
      unfold erase_iterator, store_payload. cbn [dt_buf dt_seq dt_total dt_out].
      destruct (zfind (dt_seq st) (zput k [] (dt_buf st))) as [old|].
      * destruct (zlen old <? zlen _); cbn [dt_buf dt_seq dt_total dt_out];
          (apply IH; cbn [dt_buf dt_seq]; [assumption|assumption|unfold measure in *; cbn [dt_buf dt_seq]; lia]).
      * cbn [dt_buf dt_seq dt_total dt_out].
        apply IH; cbn [dt_buf dt_seq]; [assumption|assumption|unfold measure in *; cbn [dt_buf dt_seq]; lia].
    + unfold erase_iterator. cbn [dt_buf dt_seq dt_total dt_out].
      apply IH; cbn [dt_buf dt_seq]; [apply srt_zdel; assumption|assumption|].
      unfold measure in *. cbn [dt_buf dt_seq].
      pose proof (measure_erase (dt_buf st) k (dt_seq st) pl Ef Hne). lia.
  - unfold erase_iterator. cbn [dt_buf dt_seq dt_total dt_out].
    apply IH; cbn [dt_buf dt_seq]; [apply srt_zdel; assumption|apply w32_range|].
    unfold measure in *. cbn [dt_buf dt_seq].
    assert (Hklt : k < 4294967296).
    { destruct (Z_lt_le_dec k 4294967296); [assumption|]. exfalso.
      (* k >= 2^32 is excluded by the serial comparison only for u32 keys; handle generally *)
      unfold seq_compare in Ele, Elt.
      destruct (k =? dt_seq st) eqn:E1; [lia|].
      destruct (k <? dt_seq st) eqn:E2; [lia|].
      unfold wrap in *. change (2 ^ 32) with 4294967296 in *.
      destruct ((k - dt_seq st) mod 4294967296 >? 2147483648) eqn:E3; cbn in Ele, Elt; discriminate. }
    pose proof (measure_deliver (dt_buf st) k (dt_seq st) (w32 (dt_seq st + zlen pl)) pl Ef (or_intror I)
                  (deliver_key_eq k (dt_seq st) ltac:(lia) Hseq Ele Elt)). lia.
Qed.

Theorem process_payload_fuel st seq pl :
  srt (-1) (dt_buf st) -> 0 <= dt_seq st < 4294967296 -> process_payload st seq pl <> OutOfFuel.
Proof.
  intros Hs Hseq. unfold process_payload.
  destruct (seq_compare _ _ <? 0); [discriminate|].
  destruct (_ && _); [discriminate|].
  match goal with |- drain _ ?s _ _ <> _ => set (st1 := s) end.
  assert (H1 : srt (-1) (dt_buf st1)).
  { assert (Hi : AccInv (mkdt (dt_seq st) (dt_buf st) (sum_len (dt_buf st)) (dt_out st))) by (split; [assumption|reflexivity]).
    subst st1. unfold store_payload. destruct (zfind _ (dt_buf st)) as [old|].
    - destruct (zlen old <? _); cbn [dt_buf]; [apply srt_zput; [assumption|]|assumption].
      destruct (seq_compare _ _ <? 0); [lia|]. pose proof (w32_range seq). lia.
    - cbn [dt_buf]. apply srt_zput; [assumption|].
      destruct (seq_compare _ _ <? 0); [lia|]. pose proof (w32_range seq). lia. }
  apply drain_terminates; [assumption|subst st1; rewrite store_payload_seq; assumption|].
  unfold drain_fuel, measure. lia.
Qed.
