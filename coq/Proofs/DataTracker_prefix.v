(* DataTracker: what is handed to the application is exactly the contiguous covered prefix of the stream.

   For every stream s, every initial sequence number isn such that the stream does not cross 2^32 and is shorter than
   half the sequence space, and EVERY finite list of segments of s (any order, duplicates, retransmissions with other
   boundaries, overlaps, empty segments): no call leaves a buffer, the loop never runs out of fuel, and after every call
     - the delivered bytes are the prefix s[0:p) with p = seq_number_ - isn,
     - p is the first position no arrived segment covers (so p is the longest contiguous covered prefix),
     - every buffered chunk starts strictly after the delivery point, holds the stream's bytes for its range, and the
       positions delivered or buffered are exactly the positions covered by the arrived segments.
   The wrap past 2^32 is NOT covered by this file (see Properties/C06.v). *)
From LT Require Import Base.Prelude Base.CInt Gen.Kernels Model.DataTracker
  Proofs.ZMapFacts Proofs.Seq32 Proofs.DataTracker_acc Proofs.DataTracker_fuel.
From Coq Require Import ZifyBool.
Local Open Scope Z_scope.
Ltac Zify.zify_post_hook ::= Z.div_mod_to_equations.

(* ---- lists ---- *)
Lemma app_inj_len {A} (a c b d : list A) : a ++ b = c ++ d -> length a = length c -> a = c /\ b = d.
Proof.
  revert c. induction a as [|x a IH]; intros [|y c] H Hl; cbn in *; try discriminate; [auto|].
  injection H as -> H. destruct (IH c H) as [-> ->]; [lia|auto].
Qed.

Lemma zskipn_split {A} (d : Z) (l : list A) : 0 <= d <= zlen l ->
  exists l1, l = l1 ++ zskipn d l /\ zlen l1 = d.
Proof.
  intros Hd. exists (firstn (Z.to_nat d) l). unfold zskipn. split; [symmetry; apply firstn_skipn|].
  unfold zlen in *. rewrite firstn_length. lia.
Qed.

(* ---- the sorted association list, at its head ---- *)
Section Heads.
  Context {V : Type}.
  Implicit Types m r : zmap V.

  Lemma zput_head k (v v0 : V) r : zput k v ((k, v0) :: r) = (k, v) :: r.
  Proof. cbn. rewrite Z.ltb_irrefl, Z.eqb_refl. reflexivity. Qed.

  Lemma zput_cons_gt k k' (v v' : V) r : k' < k -> zput k v ((k', v') :: r) = (k', v') :: zput k v r.
  Proof. intros. cbn. destruct (k <? k') eqn:E1; [lia|]. destruct (k =? k') eqn:E2; [lia|]. reflexivity. Qed.

  Lemma zput_below lo m k (v : V) : srt lo m -> k <= lo -> zput k v m = (k, v) :: m.
  Proof. destruct m as [|[k' v'] r]; cbn; intros Hs Hk; [reflexivity|]. destruct (k <? k') eqn:E; [reflexivity|lia]. Qed.

  Lemma zdel_head k (v : V) r : zdel k ((k, v) :: r) = r.
  Proof. cbn. rewrite Z.eqb_refl. reflexivity. Qed.

  Lemma zfind_head k (v : V) r : zfind k ((k, v) :: r) = Some v.
  Proof. cbn. rewrite Z.eqb_refl. reflexivity. Qed.

  Lemma zfind_cons_ne k k' (v : V) r : k' <> k -> zfind k ((k', v) :: r) = zfind k r.
  Proof. intros. cbn. destruct (k' =? k) eqn:E; [lia|reflexivity]. Qed.

  Lemma srt_In_gt lo m k (v : V) : srt lo m -> In (k, v) m -> lo < k.
  Proof.
    revert lo. induction m as [|[k' v'] r IH]; cbn; intros lo Hs Hin; [contradiction|].
    destruct Hs as [H1 H2]. destruct Hin as [Heq|Hin]; [injection Heq as -> ->; assumption|].
    specialize (IH k' H2 Hin). lia.
  Qed.

  Lemma zfind_In m k (v : V) : zfind k m = Some v -> In (k, v) m.
  Proof.
    induction m as [|[k' v'] r IH]; cbn; intros H; [discriminate|].
    destruct (k' =? k) eqn:E; [injection H as ->; left; f_equal; lia|right; auto].
  Qed.

  Lemma zfind_None_In m k (v : V) : zfind k m = None -> ~ In (k, v) m.
  Proof.
    induction m as [|[k' v'] r IH]; cbn; intros H Hin; [assumption|].
    destruct (k' =? k) eqn:E; [discriminate|]. destruct Hin as [Heq|Hin]; [injection Heq as -> ->; lia|].
    exact (IH H Hin).
  Qed.

  Lemma zfind_In_unique lo m k (v v' : V) : srt lo m -> zfind k m = Some v -> In (k, v') m -> v' = v.
  Proof.
    revert lo. induction m as [|[k' v0] r IH]; cbn; intros lo Hs Hf Hin; [contradiction|].
    destruct Hs as [H1 H2]. destruct (k' =? k) eqn:E.
    - injection Hf as ->. destruct Hin as [Heq|Hin]; [injection Heq as _ ->; reflexivity|].
      pose proof (srt_In_gt k' r k v' H2 Hin). lia.
    - destruct Hin as [Heq|Hin]; [injection Heq as -> ->; lia|]. eapply IH; eassumption.
  Qed.

  Lemma In_zput k (v : V) m x : In x (zput k v m) -> x = (k, v) \/ In x m.
  Proof.
    induction m as [|[k' v'] r IH]; cbn; intros H.
    - destruct H as [H|[]]; auto.
    - destruct (k <? k') eqn:E1.
      + destruct H as [H|H]; auto.
      + destruct (k =? k') eqn:E2.
        * destruct H as [H|H]; auto.
        * destruct H as [H|H]; [auto|]. destruct (IH H); auto.
  Qed.

  Lemma In_zput_new k (v : V) m : In (k, v) (zput k v m).
  Proof.
    induction m as [|[k' v'] r IH]; cbn; [auto|].
    destruct (k <? k'); [left; reflexivity|]. destruct (k =? k'); [left; reflexivity|right; assumption].
  Qed.

  Lemma In_zput_old k (v : V) m x : In x m -> fst x <> k -> In x (zput k v m).
  Proof.
    induction m as [|[k' v'] r IH]; cbn; intros Hin Hne; [contradiction|].
    destruct (k <? k') eqn:E1; [right; assumption|].
    destruct (k =? k') eqn:E2.
    - destruct Hin as [Heq|Hin]; [subst x; cbn in Hne; lia|right; assumption].
    - destruct Hin as [Heq|Hin]; [left; assumption|right; auto].
  Qed.

  Lemma Forall_zput (P : Z * V -> Prop) k v m : Forall P m -> P (k, v) -> Forall P (zput k v m).
  Proof.
    intros Hm Hp. apply Forall_forall. intros x Hx. destruct (In_zput _ _ _ _ Hx) as [->|Hin]; [assumption|].
    rewrite Forall_forall in Hm. auto.
  Qed.
End Heads.

Lemma next_iter_first k (m : zmap (list Z)) : srt k m -> next_iter k m = zfirst m.
Proof.
  unfold next_iter. destruct m as [|[k' v'] r]; cbn; intros Hs; [reflexivity|].
  destruct (k <? k') eqn:E; [reflexivity|lia].
Qed.

(* serial comparison is integer comparison for numbers less than 2^31 apart *)
Lemma seq_compare_near a b : 0 <= a < 4294967296 -> 0 <= b < 4294967296 -> -2147483648 < a - b < 2147483648 ->
  (seq_compare a b <? 0) = (a <? b) /\ (seq_compare a b <=? 0) = (a <=? b) /\ (seq_compare a b >? 0) = (a >? b).
Proof.
  intros Ha Hb Hd. unfold seq_compare, wrap. change (2 ^ 32) with 4294967296.
  destruct (a =? b) eqn:E1; [repeat split; lia|].
  destruct (a <? b) eqn:E2.
  - rewrite (Z.mod_small (b - a)) by lia. destruct (b - a <? 2147483648) eqn:E3; [|lia]. repeat split; lia.
  - rewrite (Z.mod_small (a - b)) by lia. destruct (a - b >? 2147483648) eqn:E3; [lia|]. repeat split; lia.
Qed.

Section Prefix.
  Variable s : list Z.          (* the bytes of one direction of the connection *)
  Variable isn : Z.             (* the sequence number of s[0] *)
  Hypothesis Hisn : 0 <= isn.
  Hypothesis Hnowrap : isn + zlen s < 4294967296.
  Hypothesis Hhalf : zlen s < 2147483648.

  (* pl is the part of the stream that starts at offset off *)
  Definition at_off (off : Z) (pl : list Z) : Prop := exists a b, s = a ++ pl ++ b /\ zlen a = off.

  Lemma at_off_bounds off pl : at_off off pl -> 0 <= off /\ off + zlen pl <= zlen s.
  Proof.
    intros (a & b & Hs & Ha). rewrite Hs, !zlen_app. pose proof (zlen_nonneg a). pose proof (zlen_nonneg b). lia.
  Qed.

  Lemma at_off_skip off pl d : at_off off pl -> 0 <= d <= zlen pl -> at_off (off + d) (zskipn d pl).
  Proof.
    intros (a & b & Hs & Ha) Hd. destruct (zskipn_split d pl Hd) as (l1 & Hl & Hl1).
    exists (a ++ l1), b. split; [|rewrite zlen_app; lia].
    rewrite Hs. rewrite Hl at 1. rewrite <- !app_assoc. reflexivity.
  Qed.

  Lemma at_off_deliver out v : at_off 0 out -> at_off (zlen out) v -> at_off 0 (out ++ v).
  Proof.
    intros (a & b & Hs & Ha) (a2 & b2 & Hs2 & Ha2).
    assert (a = []) by (destruct a; [reflexivity|rewrite zlen_cons in Ha; pose proof (zlen_nonneg a); lia]). subst a.
    cbn [app] in Hs. rewrite Hs in Hs2.
    destruct (app_inj_len out a2 b (v ++ b2) Hs2) as [-> Hb]; [unfold zlen in Ha2; lia|].
    exists [], b2. split; [|reflexivity]. cbn [app]. rewrite Hs, Hb, <- app_assoc. reflexivity.
  Qed.

  Lemma at_off_prefix out : at_off 0 out -> out = zfirstn (zlen out) s.
  Proof.
    intros (a & b & Hs & Ha).
    assert (a = []) by (destruct a; [reflexivity|rewrite zlen_cons in Ha; pose proof (zlen_nonneg a); lia]). subst a.
    cbn [app] in Hs. unfold zfirstn, zlen. rewrite Nat2Z.id, Hs, firstn_app, Nat.sub_diag, firstn_all. cbn. rewrite app_nil_r. reflexivity.
  Qed.

  Definition chunk_ok (kv : Z * list Z) : Prop := isn <= fst kv /\ at_off (fst kv - isn) (snd kv).

  (* stream positions (offsets into s) *)
  Definition in_buf (m : zmap (list Z)) (i : Z) : Prop :=
    exists k v, In (k, v) m /\ k - isn <= i < k - isn + zlen v.
  Definition have (st : dt) (i : Z) : Prop := 0 <= i < dt_seq st - isn \/ in_buf (dt_buf st) i.

  (* invariant inside the delivery loop / between calls (the latter with all keys strictly after the delivery point) *)
  Definition DInv (st : dt) : Prop :=
    isn <= dt_seq st <= isn + zlen s /\ at_off 0 (dt_out st) /\ zlen (dt_out st) = dt_seq st - isn /\
    srt (isn - 1) (dt_buf st) /\ Forall chunk_ok (dt_buf st).
  Definition PInv (st : dt) : Prop := DInv st /\ srt (dt_seq st) (dt_buf st).

  Lemma in_buf_cons k v m i : in_buf ((k, v) :: m) i <-> (k - isn <= i < k - isn + zlen v) \/ in_buf m i.
  Proof.
    unfold in_buf. split.
    - intros (k' & v' & [Heq|Hin] & Hr); [injection Heq as -> ->; auto|right; eauto].
    - intros [Hr|(k' & v' & Hin & Hr)]; [exists k, v; cbn; auto|exists k', v'; cbn; auto].
  Qed.

  (* store_payload adds exactly the chunk's positions (the longer of two chunks with one start wins) *)
  Lemma store_in_buf lo sq m tot out k v :
    srt lo m ->
    let st' := store_payload (mkdt sq m tot out) k v in
    dt_seq st' = sq /\ dt_out st' = out /\
    (dt_buf st' = zput k v m \/ dt_buf st' = m) /\
    forall i, in_buf (dt_buf st') i <-> in_buf m i \/ (k - isn <= i < k - isn + zlen v).
  Proof.
    intros Hs. unfold store_payload. cbn [dt_buf dt_seq dt_total dt_out].
    destruct (zfind k m) as [old|] eqn:Ef.
    - destruct (zlen old <? zlen v) eqn:El; cbn [dt_buf dt_seq dt_out].
      + repeat split; auto.
        * intros (k' & v' & Hin & Hr). destruct (In_zput _ _ _ _ Hin) as [Heq|Hin2]; [injection Heq as -> ->; auto|left; exists k', v'; auto].
        * intros [(k' & v' & Hin & Hr)|Hr].
          -- destruct (Z.eq_dec k' k) as [->|Hne].
             ++ rewrite (zfind_In_unique lo m k old v' Hs Ef Hin) in Hr. exists k, v. split; [apply In_zput_new|lia].
             ++ exists k', v'. split; [apply In_zput_old; [assumption|exact Hne]|assumption].
          -- exists k, v. split; [apply In_zput_new|assumption].
      + repeat split; auto.
        intros [H|Hr]; [assumption|]. exists k, old. split; [apply zfind_In; assumption|lia].
    - cbn [dt_buf dt_seq dt_out]. repeat split; auto.
      + intros (k' & v' & Hin & Hr). destruct (In_zput _ _ _ _ Hin) as [Heq|Hin2]; [injection Heq as -> ->; auto|left; exists k', v'; auto].
      + intros [(k' & v' & Hin & Hr)|Hr].
        * exists k', v'. split; [|assumption]. apply In_zput_old; [assumption|]. cbn. intros ->. exact (zfind_None_In m k v' Ef Hin).
        * exists k, v. split; [apply In_zput_new|assumption].
  Qed.

  Definition drain_post (st : dt) (res : res (dt * bool)) : Prop :=
    match res with
    | Ok (st', _) => PInv st' /\ forall i, have st' i <-> have st i
    | OutOfFuel => True
    | _ => False
    end.

  (* the while loop: the iterator is always at the smallest key *)
  Lemma drain_prefix fuel : forall st added, DInv st -> drain_post st (drain fuel st (zfirst (dt_buf st)) added).
  Proof.
    induction fuel as [|f IH]; intros st added Hinv; [exact I|].
    destruct st as [sq m tot out]. destruct Hinv as (Hb & Hout & Hlen & Hsrt & Hch). cbn [dt_seq dt_buf dt_out] in *.
    destruct m as [|[k pl] tl].
    { cbn. split; [split; [repeat split; cbn [dt_seq dt_buf dt_out]; auto; try lia|exact I]|tauto]. }
    cbn [zfirst]. cbn [drain]. cbn [dt_seq dt_buf dt_out dt_total].
    destruct Hsrt as [Hk Htl]. inversion Hch as [|? ? Hck Hctl]; subst.
    destruct Hck as [Hk1 Hat]. cbn [fst snd] in Hk1, Hat.
    destruct (at_off_bounds _ _ Hat) as [_ Hkend]. pose proof (zlen_nonneg pl) as Hpl0.
    destruct (seq_compare_near k sq ltac:(lia) ltac:(lia) ltac:(lia)) as (C1 & C2 & _).
    rewrite C2, C1. rewrite zfind_head.
    destruct (k <=? sq) eqn:Ele.
    2:{ cbn. split; [split; [repeat split; cbn [dt_seq dt_buf dt_out]; auto; try lia; cbn; auto|cbn; split; [lia|assumption]]|tauto]. }
    destruct (k <? sq) eqn:Elt.
    - (* the chunk starts before the delivery point *)
      rewrite (w32_small (k + zlen pl)) by lia.
      destruct (seq_compare_near (k + zlen pl) sq ltac:(lia) ltac:(lia) ltac:(lia)) as (_ & _ & C3). rewrite C3.
      destruct (k + zlen pl >? sq) eqn:Egt.
      + (* slice: the part from the delivery point on is stored again *)
        rewrite (w32_small (sq - k)) by lia.
        destruct (zlen pl <? sq - k) eqn:Eoob; [lia|].
        rewrite zput_head.
        set (v' := zskipn (sq - k) pl).
        assert (Hv'len : zlen v' = zlen pl - (sq - k)) by (apply zlen_zskipn; lia).
        assert (Hv'at : at_off (sq - isn) v').
        { replace (sq - isn) with ((k - isn) + (sq - k)) by lia. apply at_off_skip; [assumption|lia]. }
        pose proof (store_in_buf (k - 1) sq ((k, []) :: tl) (w32 (tot - zlen pl)) out sq v') as Hst.
        cbn zeta in Hst. specialize (Hst ltac:(cbn; split; [lia|assumption])).
        destruct Hst as (Hq & Ho & Hshape & Hib).
        set (st2 := store_payload (mkdt sq ((k, []) :: tl) (w32 (tot - zlen pl)) out) sq v') in *.
        assert (Hshape2 : exists X, dt_buf st2 = (k, []) :: X /\ srt k X /\ Forall chunk_ok X /\
                          forall i, in_buf X i <-> in_buf tl i \/ (sq - isn <= i < sq - isn + zlen v')).
        { assert (Hib2 : forall X, dt_buf st2 = (k, []) :: X -> forall i, in_buf X i <-> in_buf tl i \/ (sq - isn <= i < sq - isn + zlen v')).
          { intros X HX i. specialize (Hib i). rewrite HX in Hib. rewrite !in_buf_cons in Hib. rewrite zlen_nil in Hib.
            split.
            - intros H. destruct (proj1 Hib (or_intror H)) as [[H1|H1]|H1]; [lia|auto|auto].
            - intros H. destruct (proj2 Hib) as [H1|H1]; [destruct H; [left; right; assumption|right; assumption]|lia|assumption]. }
          destruct Hshape as [Hsh|Hsh].
          - rewrite zput_cons_gt in Hsh by lia. exists (zput sq v' tl). split; [assumption|]. split; [apply srt_zput; [assumption|lia]|].
            split; [apply Forall_zput; [assumption|split; cbn; [lia|assumption]]|]. apply Hib2. assumption.
          - exists tl. split; [assumption|]. split; [assumption|]. split; [assumption|]. apply Hib2. assumption. }
        destruct Hshape2 as (X & HX & HsX & HcX & HiX).
        unfold erase_iterator. rewrite HX. rewrite zdel_head, zfind_head. rewrite next_iter_first by assumption.
        specialize (IH (mkdt (dt_seq st2) X (w32 (dt_total st2 - zlen (@nil Z))) (dt_out st2)) added).
        cbn [dt_buf] in IH. rewrite Hq, Ho in *.
        assert (Hd3 : DInv (mkdt sq X (w32 (dt_total st2 - zlen (@nil Z))) out)).
        { repeat split; cbn [dt_seq dt_buf dt_out]; auto; try lia. eapply srt_weaken; [|eassumption]. lia. }
        specialize (IH Hd3).
        destruct (drain f _ (zfirst X) added) as [[st' r]| | |]; cbn in IH |- *; auto.
        destruct IH as [Hp Hh]. split; [assumption|]. intros i. rewrite Hh. unfold have. cbn [dt_seq dt_buf].
        rewrite in_buf_cons. rewrite HiX. intuition lia.
      + (* entirely delivered already: dropped *)
        unfold erase_iterator. cbn [dt_buf dt_seq dt_out dt_total]. rewrite zdel_head, zfind_head. rewrite next_iter_first by assumption.
        specialize (IH (mkdt sq tl (w32 (tot - zlen pl)) out) added). cbn [dt_buf] in IH.
        assert (Hd3 : DInv (mkdt sq tl (w32 (tot - zlen pl)) out)).
        { repeat split; cbn [dt_seq dt_buf dt_out]; auto; try lia. eapply srt_weaken; [|eassumption]. lia. }
        specialize (IH Hd3).
        destruct (drain f _ (zfirst tl) added) as [[st' r]| | |]; cbn in IH |- *; auto.
        destruct IH as [Hp Hh]. split; [assumption|]. intros i. rewrite Hh. unfold have. cbn [dt_seq dt_buf].
        rewrite in_buf_cons. intuition lia.
    - (* the chunk starts at the delivery point: delivered *)
      assert (k = sq) by lia. subst k.
      unfold erase_iterator. cbn [dt_buf dt_seq dt_out dt_total]. rewrite zdel_head, zfind_head. rewrite next_iter_first by assumption.
      rewrite (w32_small (sq + zlen pl)) by lia.
      specialize (IH (mkdt (sq + zlen pl) tl (w32 (tot - zlen pl)) (out ++ pl)) true). cbn [dt_buf] in IH.
      assert (Hd3 : DInv (mkdt (sq + zlen pl) tl (w32 (tot - zlen pl)) (out ++ pl))).
      { repeat split; cbn [dt_seq dt_buf dt_out]; auto; try lia.
        - apply at_off_deliver; [assumption|]. rewrite Hlen. assumption.
        - rewrite zlen_app. lia.
        - eapply srt_weaken; [|eassumption]. lia. }
      specialize (IH Hd3).
      destruct (drain f _ (zfirst tl) true) as [[st' r]| | |]; cbn in IH |- *; auto.
      destruct IH as [Hp Hh]. split; [assumption|]. intros i. rewrite Hh. unfold have. cbn [dt_seq dt_buf].
      rewrite in_buf_cons. intuition lia.
  Qed.

  (* one call of process_payload with a segment of the stream *)
  Lemma process_prefix st off pl : PInv st -> at_off off pl ->
    match process_payload st (isn + off) pl with
    | Ok (st', _) => PInv st' /\ forall i, have st' i <-> have st i \/ (off <= i < off + zlen pl)
    | _ => False
    end.
  Proof.
    intros [Hinv Hsq] Hat.
    assert (Hfuel : process_payload st (isn + off) pl <> OutOfFuel).
    { apply process_payload_fuel; [eapply srt_weaken; [|exact Hsq]; destruct Hinv; lia|destruct Hinv; lia]. }
    revert Hfuel. unfold process_payload.
    destruct st as [sq m tot out]. destruct Hinv as (Hb & Hout & Hlen & Hsrt & Hch). cbn [dt_seq dt_buf dt_out] in *.
    destruct (at_off_bounds _ _ Hat) as [Hoff Hend]. pose proof (zlen_nonneg pl) as Hpl0.
    rewrite (w32_small (isn + off)) by lia. rewrite (w32_small (isn + off + zlen pl)) by lia.
    destruct (seq_compare_near (isn + off + zlen pl) sq ltac:(lia) ltac:(lia) ltac:(lia)) as (C1 & _ & _). rewrite C1.
    destruct (isn + off + zlen pl <? sq) eqn:Eold.
    { intros _. cbv iota. split; [split; [repeat split; cbn [dt_seq dt_buf dt_out]; auto; lia|assumption]|]. intros i. unfold have. cbn [dt_seq dt_buf]. intuition lia. }
    cbv iota. destruct (seq_compare_near (isn + off) sq ltac:(lia) ltac:(lia) ltac:(lia)) as (C2 & _ & _). rewrite C2.
    destruct (isn + off <? sq) eqn:Esl; cbv iota.
    - (* sliced: stored at the delivery point *)
      rewrite (w32_small (sq - (isn + off))) by lia.
      destruct (zlen pl <? sq - (isn + off)) eqn:Eoob; [lia|]. cbn [andb].
      set (v' := zskipn (sq - (isn + off)) pl).
      assert (Hv'len : zlen v' = zlen pl - (sq - (isn + off))) by (apply zlen_zskipn; lia).
      assert (Hv'at : at_off (sq - isn) v').
      { replace (sq - isn) with (off + (sq - (isn + off))) by lia. apply at_off_skip; [assumption|lia]. }
      pose proof (store_in_buf sq sq m tot out sq v' Hsq) as Hst. cbn zeta in Hst.
      destruct Hst as (Hq & Ho & Hshape & Hib).
      set (st1 := store_payload (mkdt sq m tot out) sq v') in *.
      assert (Hbuf : dt_buf st1 = (sq, v') :: m).
      { subst st1. unfold store_payload. cbn [dt_buf]. rewrite (zfind_below sq m sq Hsq) by lia. cbn [dt_buf].
        apply (zput_below sq); [assumption|lia]. }
      rewrite Hq.
      assert (Hzf : zfind sq (dt_buf st1) = Some v') by (rewrite Hbuf; apply zfind_head).
      rewrite Hzf.
      assert (Hd1 : DInv st1).
      { unfold DInv. rewrite Hq, Ho, Hbuf. split; [lia|]. split; [assumption|]. split; [assumption|]. split.
        - cbn. split; [lia|assumption].
        - constructor; [split; cbn; [lia|assumption]|assumption]. }
      pose proof (drain_prefix (drain_fuel st1) st1 false Hd1) as Hdr.
      replace (zfirst (dt_buf st1)) with (Some sq) in Hdr by (rewrite Hbuf; reflexivity).
      destruct (drain (drain_fuel st1) st1 (Some sq) false) as [[st' r]| | |]; cbn [drain_post] in Hdr; cbv iota; [|contradiction|contradiction|intros H; apply H; reflexivity].
      intros _. destruct Hdr as [Hp Hh]. split; [assumption|]. intros i. rewrite Hh. unfold have. rewrite Hq. rewrite Hib. cbn [dt_seq dt_buf]. intuition lia.
    - cbn [andb].
      pose proof (store_in_buf sq sq m tot out (isn + off) pl Hsq) as Hst. cbn zeta in Hst.
      destruct Hst as (Hq & Ho & Hshape & Hib).
      set (st1 := store_payload (mkdt sq m tot out) (isn + off) pl) in *.
      rewrite Hq.
      destruct (Z.eq_dec (isn + off) sq) as [Heq|Hne].
      + (* in order *)
        assert (Hbuf : dt_buf st1 = (sq, pl) :: m).
        { subst st1. rewrite Heq. unfold store_payload. cbn [dt_buf]. rewrite (zfind_below sq m sq Hsq) by lia. cbn [dt_buf].
          apply (zput_below sq); [assumption|lia]. }
        assert (Hzf : zfind sq (dt_buf st1) = Some pl) by (rewrite Hbuf; apply zfind_head).
        rewrite Hzf.
        assert (Hd1 : DInv st1).
        { unfold DInv. rewrite Hq, Ho, Hbuf. split; [lia|]. split; [assumption|]. split; [assumption|]. split.
          - cbn. split; [lia|assumption].
          - constructor; [split; cbn; [lia|]|assumption]. replace (sq - isn) with off by lia. assumption. }
        pose proof (drain_prefix (drain_fuel st1) st1 false Hd1) as Hdr.
        replace (zfirst (dt_buf st1)) with (Some sq) in Hdr by (rewrite Hbuf; reflexivity).
        destruct (drain (drain_fuel st1) st1 (Some sq) false) as [[st' r]| | |]; cbn [drain_post] in Hdr; cbv iota; [|contradiction|contradiction|intros H; apply H; reflexivity].
        intros _. destruct Hdr as [Hp Hh]. split; [assumption|]. intros i. rewrite Hh. unfold have. rewrite Hq. rewrite Hib. cbn [dt_seq dt_buf]. intuition lia.
      + (* ahead of the delivery point: buffered, nothing delivered *)
        assert (Hs1 : srt sq (dt_buf st1)).
        { destruct Hshape as [-> | ->]; [apply srt_zput; [assumption|lia]|assumption]. }
        rewrite (zfind_below sq (dt_buf st1) sq Hs1) by lia.
        assert (Hfu : exists n, drain_fuel st1 = S n) by (unfold drain_fuel; exists (2 * length (dt_buf st1) + 1)%nat; lia).
        destruct Hfu as [n ->]. cbn [drain]. intros _.
        split.
        * split; [|rewrite Hq; assumption]. unfold DInv. rewrite Hq, Ho. repeat split; auto; try lia.
          -- eapply srt_weaken; [|exact Hs1]. lia.
          -- destruct Hshape as [-> | ->]; [|assumption]. apply Forall_zput; [assumption|]. split; cbn; [lia|].
             replace (isn + off - isn) with off by lia. assumption.
        * intros i. unfold have. rewrite Hq. rewrite Hib. cbn [dt_seq dt_buf]. intuition lia.
  Qed.

  (* ---- every history of segments ---- *)
  Definition seg_ok (sg : Z * list Z) : Prop := at_off (fst sg) (snd sg).
  Definition covered (segs : list (Z * list Z)) (i : Z) : Prop :=
    exists off pl, In (off, pl) segs /\ off <= i < off + zlen pl.

  Fixpoint run (st : dt) (segs : list (Z * list Z)) : option dt :=
    match segs with
    | [] => Some st
    | (off, pl) :: r => match process_payload st (isn + off) pl with Ok (st', _) => run st' r | _ => None end
    end.

  Lemma run_prefix : forall segs st (C : Z -> Prop), PInv st -> (forall i, have st i <-> C i) -> Forall seg_ok segs ->
    exists st', run st segs = Some st' /\ PInv st' /\ forall i, have st' i <-> C i \/ covered segs i.
  Proof.
    induction segs as [|[off pl] r IH]; intros st C Hp Hc Hok.
    - exists st. split; [reflexivity|]. split; [assumption|]. intros i. rewrite Hc. unfold covered. split; [auto|].
      intros [H|(o & p & [] & _)]. assumption.
    - inversion Hok as [|? ? Hsg Hr]; subst. unfold seg_ok in Hsg. cbn [fst snd] in Hsg.
      pose proof (process_prefix st off pl Hp Hsg) as Hstep. cbn [run].
      destruct (process_payload st (isn + off) pl) as [[st1 b]| | |]; try contradiction.
      destruct Hstep as [Hp1 Hh1].
      destruct (IH st1 (fun i => C i \/ (off <= i < off + zlen pl)) Hp1) as (st' & Hrun & Hp' & Hh'); [|assumption|].
      { intros i. rewrite Hh1, Hc. tauto. }
      exists st'. split; [assumption|]. split; [assumption|]. intros i. rewrite Hh'. unfold covered. split.
      + intros [[H|H]|(o & p & Hin & Hrg)]; [auto| |].
        * right. exists off, pl. split; [left; reflexivity|assumption].
        * right. exists o, p. split; [right; assumption|assumption].
      + intros [H|(o & p & [Heq|Hin] & Hrg)]; [auto| |].
        * injection Heq as -> ->. auto.
        * right. exists o, p. auto.
  Qed.

  Theorem delivered_prefix_all_histories segs : Forall seg_ok segs ->
    exists st, run (dt_new isn) segs = Some st /\
      let p := dt_seq st - isn in
      0 <= p <= zlen s /\ dt_out st = zfirstn p s /\
      (forall i, 0 <= i < p -> covered segs i) /\ ~ covered segs p /\
      (forall k v, In (k, v) (dt_buf st) ->
         dt_seq st < k /\ at_off (k - isn) v /\ forall i, k - isn <= i < k - isn + zlen v -> covered segs i) /\
      (forall i, covered segs i -> 0 <= i < p \/ in_buf (dt_buf st) i).
  Proof.
    intros Hok.
    assert (H0 : PInv (dt_new isn)).
    { unfold dt_new. rewrite (w32_small isn) by (pose proof (zlen_nonneg s); lia). split; [|exact I].
      pose proof (zlen_nonneg s). repeat split; cbn; auto; try lia. exists [], s. split; reflexivity. }
    destruct (run_prefix segs (dt_new isn) (fun _ => False) H0) as (st & Hrun & [Hinv Hsq] & Hh); [|assumption|].
    { intros i. unfold have, dt_new, in_buf. rewrite (w32_small isn) by (pose proof (zlen_nonneg s); lia). cbn. split; [|tauto].
      intros [H|(k & v & [] & _)]. lia. }
    exists st. split; [assumption|]. cbn zeta.
    destruct Hinv as (Hb & Hout & Hlen & Hsrt & Hch).
    split; [lia|]. split; [rewrite <- Hlen; apply at_off_prefix; assumption|].
    split; [intros i Hi; destruct (proj1 (Hh i)) as [[]|H]; [left; assumption|assumption]|].
    split.
    { intros Hcov. destruct (proj2 (Hh _) (or_intror Hcov)) as [H|(k & v & Hin & Hr)]; [lia|].
      pose proof (srt_In_gt _ _ _ _ Hsq Hin). lia. }
    split.
    { intros k v Hin. split; [exact (srt_In_gt _ _ _ _ Hsq Hin)|].
      rewrite Forall_forall in Hch. destruct (Hch _ Hin) as [Hk Hat]. split; [exact Hat|].
      intros i Hi. destruct (proj1 (Hh i)) as [[]|H]; [right; exists k, v; auto|assumption]. }
    intros i Hcov. exact (proj2 (Hh i) (or_intror Hcov)).
  Qed.
End Prefix.
