(* DataTracker across the 2^32 wrap: the tracker started at ANY initial sequence number behaves exactly like the tracker
   started at 0 with every sequence number shifted (a simulation), for every history of segments of a stream shorter than
   half the sequence space.  std::map orders its keys numerically, not serially, and the erase loop wraps from end() to
   begin(): the simulation shows that the loop nevertheless visits the chunks in stream order.  Together with
   Proofs/DataTracker_prefix.v (the case isn = 0) this gives the delivered-prefix theorem for every isn. *)
From LT Require Import Base.Prelude Base.CInt Gen.Kernels Model.DataTracker
  Proofs.ZMapFacts Proofs.Seq32 Proofs.DataTracker_acc Proofs.DataTracker_fuel Proofs.DataTracker_prefix.
From Coq Require Import ZifyBool.
Local Open Scope Z_scope.
Ltac Zify.zify_post_hook ::= Z.div_mod_to_equations.

(* ---- sorted association lists are determined by their lookup function ---- *)
Section Ext.
  Context {V : Type}.
  Implicit Types m : zmap V.

  Lemma srt_ext : forall m1 m2 lo, srt lo m1 -> srt lo m2 -> (forall k, zfind k m1 = zfind k m2) -> m1 = m2.
  Proof.
    induction m1 as [|[k1 v1] r1 IH]; intros [|[k2 v2] r2] lo H1 H2 He.
    - reflexivity.
    - specialize (He k2). cbn in He. rewrite Z.eqb_refl in He. discriminate.
    - specialize (He k1). cbn in He. rewrite Z.eqb_refl in He. discriminate.
    - cbn in H1, H2. destruct H1 as [L1 S1]. destruct H2 as [L2 S2].
      assert (Hk : k1 = k2).
      { destruct (Z.lt_trichotomy k1 k2) as [Hlt|[Heq|Hgt]]; [|assumption|].
        - pose proof (He k1) as H. cbn in H. rewrite Z.eqb_refl in H. destruct (k2 =? k1) eqn:E; [lia|].
          rewrite (zfind_below k2 r2 k1) in H by (assumption || lia). discriminate.
        - pose proof (He k2) as H. cbn in H. rewrite Z.eqb_refl in H. destruct (k1 =? k2) eqn:E; [lia|].
          rewrite (zfind_below k1 r1 k2) in H by (assumption || lia). discriminate. }
      subst k2. pose proof (He k1) as H. cbn in H. rewrite Z.eqb_refl in H. injection H as ->.
      f_equal. apply (IH r2 k1); [assumption|assumption|].
      intros k. specialize (He k). cbn in He. destruct (k1 =? k) eqn:E; [|assumption].
      assert (k = k1) by lia. subst k. rewrite (zfind_below k1 r1 k1), (zfind_below k1 r2 k1) by (assumption || lia). reflexivity.
  Qed.

  Lemma In_zfind lo m k (v : V) : srt lo m -> In (k, v) m -> zfind k m = Some v.
  Proof.
    intros Hs Hin. destruct (zfind k m) as [v'|] eqn:E.
    - f_equal. symmetry. eapply zfind_In_unique; eassumption.
    - exfalso. exact (zfind_None_In m k v E Hin).
  Qed.

  Lemma zsucc_Some lo m k k' : srt lo m -> zsucc k m = Some k' ->
    k < k' /\ (exists v, In (k', v) m) /\ forall k'' (v'' : V), In (k'', v'') m -> k < k'' -> k' <= k''.
  Proof.
    revert lo. induction m as [|[k0 v0] r IH]; cbn; intros lo Hs H; [discriminate|].
    destruct Hs as [H1 H2]. destruct (k <? k0) eqn:E.
    - injection H as <-. split; [lia|]. split; [exists v0; auto|].
      intros k'' v'' [Heq|Hin] Hlt; [injection Heq as -> ->; lia|]. pose proof (srt_In_gt k0 r k'' v'' H2 Hin). lia.
    - destruct (IH k0 H2 H) as (A & (v & B) & C). split; [assumption|]. split; [exists v; auto|].
      intros k'' v'' [Heq|Hin] Hlt; [injection Heq as -> ->; lia|eauto].
  Qed.

  Lemma zsucc_None m k : zsucc k m = None -> forall k'' (v'' : V), In (k'', v'') m -> k'' <= k.
  Proof.
    induction m as [|[k0 v0] r IH]; cbn; intros H k'' v'' Hin; [contradiction|].
    destruct (k <? k0) eqn:E; [discriminate|]. destruct Hin as [Heq|Hin]; [injection Heq as -> ->; lia|eauto].
  Qed.

  Lemma zfirst_Some lo m k' : srt lo m -> zfirst m = Some k' ->
    (exists v, In (k', v) m) /\ forall k'' (v'' : V), In (k'', v'') m -> k' <= k''.
  Proof.
    destruct m as [|[k0 v0] r]; cbn; intros Hs H; [discriminate|]. injection H as <-. destruct Hs as [H1 H2].
    split; [exists v0; auto|]. intros k'' v'' [Heq|Hin]; [injection Heq as -> ->; lia|].
    pose proof (srt_In_gt k0 r k'' v'' H2 Hin). lia.
  Qed.
End Ext.

Section Wrap.
  Variable isn : Z.
  Hypothesis Hisn : 0 <= isn < 4294967296.
  Variable B : Z.                       (* all stream offsets lie in [0, B] *)
  Hypothesis HB : 0 <= B < 2147483648.

  Definition key (o : Z) : Z := w32 (isn + o).
  Definition unkey (k : Z) : Z := w32 (k - isn).

  Lemma unkey_key o : 0 <= o < 4294967296 -> unkey (key o) = o.
  Proof. unfold unkey, key, w32. lia. Qed.
  Lemma key_unkey k : 0 <= k < 4294967296 -> key (unkey k) = k.
  Proof. unfold unkey, key, w32. lia. Qed.
  Lemma key_range o : 0 <= key o < 4294967296.
  Proof. apply w32_range. Qed.
  Lemma key_inj a b : 0 <= a < 4294967296 -> 0 <= b < 4294967296 -> key a = key b -> a = b.
  Proof. intros Ha Hb H. rewrite <- (unkey_key a), <- (unkey_key b) by assumption. rewrite H. reflexivity. Qed.
  Lemma key_add a n : w32 (key a + n) = key (a + n).
  Proof. unfold key, w32. lia. Qed.
  Lemma key_sub a b : w32 (key a - key b) = w32 (a - b).
  Proof. unfold key, w32. lia. Qed.

  (* serial comparison of shifted numbers = integer comparison of the offsets *)
  Lemma cmp_key a b : 0 <= a <= B -> 0 <= b <= B ->
    (seq_compare (key a) (key b) <? 0) = (a <? b) /\ (seq_compare (key a) (key b) <=? 0) = (a <=? b) /\
    (seq_compare (key a) (key b) >? 0) = (a >? b).
  Proof.
    intros Ha Hb.
    assert (Hr : rel (key a) (key b) = w32 (b - a)) by (unfold rel, key, w32; lia).
    rewrite seq_compare_lt, seq_compare_le, seq_compare_gt by apply key_range. rewrite Hr. unfold w32. lia.
  Qed.

  (* the std::map holding the chunks of an offset-keyed map *)
  Definition phys (L : zmap (list Z)) : zmap (list Z) :=
    fold_right (fun kv acc => zput (key (fst kv)) (snd kv) acc) [] L.

  Definition offs_ok (L : zmap (list Z)) : Prop := Forall (fun kv => 0 <= fst kv < 4294967296) L.

  Lemma srt_phys L : srt (-1) (phys L).
  Proof. induction L as [|[o v] r IH]; cbn; [exact I|]. apply srt_zput; [assumption|]. pose proof (key_range o). lia. Qed.

  Lemma zfind_phys L : offs_ok L -> forall k, 0 <= k < 4294967296 -> zfind k (phys L) = zfind (unkey k) L.
  Proof.
    induction L as [|[o v] r IH]; intros Hok k Hk; [reflexivity|]. inversion Hok as [|? ? Ho Hr]; subst. cbn [fst] in Ho.
    cbn [phys fold_right fst snd]. fold (phys r). cbn [zfind].
    destruct (o =? unkey k) eqn:E.
    - assert (key o = k) by (assert (o = unkey k) by lia; subst o; apply key_unkey; assumption). subst k. apply zfind_zput_same.
    - rewrite zfind_zput_other; [apply IH; assumption|]. intros ->. rewrite unkey_key in E by assumption. lia.
  Qed.

  Lemma zfind_phys_out L k : ~ (0 <= k < 4294967296) -> zfind k (phys L) = None.
  Proof.
    intros Hk. induction L as [|[o v] r IH]; [reflexivity|]. cbn [phys fold_right fst snd]. fold (phys r).
    rewrite zfind_zput_other; [assumption|]. intros ->. apply Hk. apply key_range.
  Qed.

  Lemma zfind_phys_key L o : offs_ok L -> 0 <= o < 4294967296 -> zfind (key o) (phys L) = zfind o L.
  Proof. intros Hok Ho. rewrite zfind_phys by (assumption || apply key_range). rewrite unkey_key by assumption. reflexivity. Qed.

  Lemma offs_ok_zput L o v : offs_ok L -> 0 <= o < 4294967296 -> offs_ok (zput o v L).
  Proof. intros. apply Forall_zput; assumption. Qed.

  Lemma offs_ok_zdel L o : offs_ok L -> offs_ok (zdel o L).
  Proof.
    unfold offs_ok. induction L as [|[o' v'] r IH]; cbn; intros H; [constructor|]. inversion H; subst.
    destruct (o' =? o); [assumption|constructor; auto].
  Qed.

  Lemma phys_zput L o v : offs_ok L -> 0 <= o < 4294967296 -> zput (key o) v (phys L) = phys (zput o v L).
  Proof.
    intros Hok Ho. apply (srt_ext _ _ (-1)).
    - apply srt_zput; [apply srt_phys|]. pose proof (key_range o). lia.
    - apply srt_phys.
    - intros k. destruct (Z_lt_dec k 0) as [Hn|Hn]; [|destruct (Z_lt_dec k 4294967296) as [Hl|Hl]].
      + rewrite zfind_phys_out by lia. rewrite zfind_zput_other by (pose proof (key_range o); lia). apply zfind_phys_out. lia.
      + rewrite (zfind_phys (zput o v L)) by (try apply offs_ok_zput; assumption || lia).
        destruct (Z.eq_dec k (key o)) as [->|Hne].
        * rewrite unkey_key by assumption. rewrite !zfind_zput_same. reflexivity.
        * rewrite !zfind_zput_other; [apply zfind_phys; [assumption|lia]| |assumption].
          intros He. apply Hne. rewrite <- He. symmetry. apply key_unkey. lia.
      + rewrite zfind_phys_out by lia. rewrite zfind_zput_other by (pose proof (key_range o); lia). apply zfind_phys_out. lia.
  Qed.

  Lemma phys_zdel lo L o : srt lo L -> offs_ok L -> 0 <= o < 4294967296 -> zdel (key o) (phys L) = phys (zdel o L).
  Proof.
    intros Hs Hok Ho. apply (srt_ext _ _ (-1)).
    - apply srt_zdel. apply srt_phys.
    - apply srt_phys.
    - intros k. destruct (Z_lt_dec k 0) as [Hn|Hn]; [|destruct (Z_lt_dec k 4294967296) as [Hl|Hl]].
      + rewrite zfind_phys_out by lia. rewrite zfind_zdel_other by (pose proof (key_range o); lia). apply zfind_phys_out. lia.
      + rewrite (zfind_phys (zdel o L)) by (try apply offs_ok_zdel; assumption || lia).
        destruct (Z.eq_dec k (key o)) as [->|Hne].
        * rewrite unkey_key by assumption. rewrite (zfind_zdel_same (-1)) by apply srt_phys. rewrite (zfind_zdel_same lo) by assumption. reflexivity.
        * rewrite !zfind_zdel_other; [apply zfind_phys; [assumption|lia]| |assumption].
          intros He. apply Hne. rewrite <- He. symmetry. apply key_unkey. lia.
      + rewrite zfind_phys_out by lia. rewrite zfind_zdel_other by (pose proof (key_range o); lia). apply zfind_phys_out. lia.
  Qed.

  Lemma In_phys lo L k v : srt lo L -> offs_ok L -> In (k, v) (phys L) <-> (0 <= k < 4294967296 /\ In (unkey k, v) L).
  Proof.
    intros Hs Hok. split.
    - intros Hin. assert (Hk : 0 <= k < 4294967296).
      { destruct (Z_lt_dec k 0); [|destruct (Z_lt_dec k 4294967296); [lia|]];
          pose proof (In_zfind (-1) (phys L) k v (srt_phys L) Hin) as H; rewrite zfind_phys_out in H by lia; discriminate. }
      split; [assumption|]. apply zfind_In. rewrite <- zfind_phys by assumption. apply (In_zfind (-1)); [apply srt_phys|assumption].
    - intros [Hk Hin]. apply zfind_In. rewrite zfind_phys by assumption. apply (In_zfind lo); assumption.
  Qed.

  Lemma length_phys lo L : srt lo L -> offs_ok L -> length (phys L) = length L.
  Proof.
    revert lo. induction L as [|[o v] r IH]; intros lo Hs Hok; [reflexivity|]. cbn in Hs. destruct Hs as [H1 H2].
    inversion Hok as [|? ? Ho Hr]; subst. cbn [fst] in Ho.
    cbn [phys fold_right fst snd]. fold (phys r). rewrite (length_zput (-1)) by apply srt_phys.
    rewrite zfind_phys_key by assumption. rewrite (zfind_below o r o) by (assumption || lia). cbn. f_equal. eapply IH; eassumption.
  Qed.

  (* offsets bounded by B (and so below 2^31) *)
  Definition bounded (L : zmap (list Z)) : Prop := Forall (fun kv => 0 <= fst kv /\ fst kv + zlen (snd kv) <= B) L.

  Lemma bounded_offs L : bounded L -> offs_ok L.
  Proof.
    unfold bounded, offs_ok. intros H. eapply Forall_impl; [|exact H]. cbn. intros [o v] [H1 H2]. cbn in *. pose proof (zlen_nonneg v). lia.
  Qed.

  (* the iterator after erasing the chunk with the smallest offset: std::map's successor, wrapping to begin(), is the chunk
     with the next offset *)
  Lemma next_iter_phys o tl : 0 <= o <= B -> srt o tl -> bounded tl ->
    next_iter (key o) (phys tl) = option_map key (zfirst tl).
  Proof.
    intros Ho Hs Hb. pose proof (bounded_offs tl Hb) as Hok.
    assert (Hin : forall k v, In (k, v) (phys tl) <-> (0 <= k < 4294967296 /\ In (unkey k, v) tl)) by (intros; eapply In_phys; eassumption).
    assert (Hrange : forall o' v', In (o', v') tl -> o < o' <= B).
    { intros o' v' Hi. pose proof (srt_In_gt o tl o' v' Hs Hi). unfold bounded in Hb. rewrite Forall_forall in Hb.
      destruct (Hb _ Hi) as [_ H2]. cbn in H2. pose proof (zlen_nonneg v'). lia. }
    assert (Hkin : forall o' v', In (o', v') tl -> In (key o', v') (phys tl)).
    { intros o' v' Hi. apply Hin. split; [apply key_range|]. rewrite unkey_key by (specialize (Hrange _ _ Hi); lia). assumption. }
    destruct tl as [|[o1 v1] r] eqn:Etl.
    { reflexivity. }
    rewrite <- Etl in *. cbn [zfirst option_map]. rewrite Etl at 2. cbn [zfirst option_map].
    assert (Hmin : forall o' v', In (o', v') tl -> o1 <= o').
    { intros o' v' Hi. rewrite Etl in Hi, Hs. destruct Hi as [Heq|Hi]; [injection Heq as -> ->; lia|].
      cbn in Hs. destruct Hs as [_ Hs]. pose proof (srt_In_gt o1 r o' v' Hs Hi). lia. }
    assert (Hi1 : In (o1, v1) tl) by (rewrite Etl; left; reflexivity).
    pose proof (Hrange _ _ Hi1) as Hr1.
    unfold next_iter. destruct (zsucc (key o) (phys tl)) as [k'|] eqn:Es.
    - destruct (zsucc_Some (-1) (phys tl) (key o) k' (srt_phys tl) Es) as (Hlt & (v' & Hi') & Hleast).
      apply Hin in Hi'. destruct Hi' as [Hk' Hi'].
      pose proof (Hrange _ _ Hi') as Hr'. pose proof (Hmin _ _ Hi') as Hm'.
      f_equal.
      assert (Hk1 : key o1 <= key o \/ k' <= key o1).
      { destruct (Z_lt_dec (key o) (key o1)) as [Hc|Hc]; [right; eapply Hleast; [apply Hkin; exact Hi1|assumption]|left; lia]. }
      assert (Hu : k' = key (unkey k')) by (symmetry; apply key_unkey; assumption).
      remember (unkey k') as u eqn:Eu. subst k'. f_equal.
      clear - Hlt Hk1 Hr' Hm' Hr1 Ho HB Hisn. unfold key, w32 in *. lia.
    - pose proof (zsucc_None (phys tl) (key o) Es) as Hall.
      destruct (zfirst (phys tl)) as [k'|] eqn:Ef.
      + destruct (zfirst_Some (-1) (phys tl) k' (srt_phys tl) Ef) as ((v' & Hi') & Hleast).
        apply Hin in Hi'. destruct Hi' as [Hk' Hi'].
        pose proof (Hrange _ _ Hi') as Hr'. pose proof (Hmin _ _ Hi') as Hm'.
        f_equal.
        pose proof (Hleast _ _ (Hkin _ _ Hi1)) as Hle.
        pose proof (Hall _ _ (Hkin _ _ Hi1)) as Hal1.
        pose proof (Hall _ _ (Hkin _ _ Hi')) as Hal'.
        assert (Hu : k' = key (unkey k')) by (symmetry; apply key_unkey; assumption).
        remember (unkey k') as u eqn:Eu. subst k'. f_equal.
        clear - Hle Hal1 Hal' Hr' Hm' Hr1 Ho HB Hisn. unfold key, w32 in *. lia.
      + exfalso. destruct (phys tl) eqn:Ep; [|destruct p; discriminate].
        exact (Hkin _ _ Hi1).
  Qed.

  (* ---- the simulation ---- *)
  Definition T (st : dt) : dt := mkdt (key (dt_seq st)) (phys (dt_buf st)) (dt_total st) (dt_out st).

  Definition Tres (r : res (dt * bool)) : res (dt * bool) :=
    match r with Ok (st, b) => Ok (T st, b) | Throw e => Throw e | OOB n => OOB n | OutOfFuel => OutOfFuel end.

  Definition Sh (st : dt) : Prop :=
    0 <= dt_seq st <= B /\ srt (-1) (dt_buf st) /\ bounded (dt_buf st).

  Lemma store_sim st o v : srt (-1) (dt_buf st) -> bounded (dt_buf st) -> 0 <= o < 4294967296 ->
    store_payload (T st) (key o) v = T (store_payload st o v).
  Proof.
    intros Hs Hb Ho. pose proof (bounded_offs _ Hb) as Hok. unfold store_payload. cbn [T dt_buf dt_seq dt_total dt_out].
    rewrite zfind_phys_key by assumption.
    destruct (zfind o (dt_buf st)) as [old|].
    - destruct (zlen old <? zlen v); [|reflexivity]. unfold T. cbn [dt_buf dt_seq dt_total dt_out]. rewrite phys_zput by assumption. reflexivity.
    - unfold T. cbn [dt_buf dt_seq dt_total dt_out]. rewrite phys_zput by assumption. reflexivity.
  Qed.

  (* shape of the map after storing behind its first chunk *)
  Lemma store_behind_head sq k v0 tl tot out o v : k < o ->
    exists X, dt_buf (store_payload (mkdt sq ((k, v0) :: tl) tot out) o v) = (k, v0) :: X /\ (X = zput o v tl \/ X = tl) /\
      dt_seq (store_payload (mkdt sq ((k, v0) :: tl) tot out) o v) = sq /\
      dt_out (store_payload (mkdt sq ((k, v0) :: tl) tot out) o v) = out.
  Proof.
    intros Hlt. unfold store_payload. cbn [dt_buf dt_seq dt_out dt_total]. rewrite zfind_cons_ne by lia.
    destruct (zfind o tl) as [old|].
    - destruct (zlen old <? zlen v); cbn [dt_buf dt_seq dt_out].
      + rewrite zput_cons_gt by lia. exists (zput o v tl). auto.
      + exists tl. auto.
    - cbn [dt_buf dt_seq dt_out]. rewrite zput_cons_gt by lia. exists (zput o v tl). auto.
  Qed.

  Lemma bounded_zput L o v : bounded L -> 0 <= o -> o + zlen v <= B -> bounded (zput o v L).
  Proof. intros. apply Forall_zput; [assumption|]. cbn. lia. Qed.

  Lemma drain_sim fuel : forall st added, Sh st ->
    drain fuel (T st) (option_map key (zfirst (dt_buf st))) added = Tres (drain fuel st (zfirst (dt_buf st)) added).
  Proof.
    induction fuel as [|f IH]; intros st added Hsh; [reflexivity|].
    destruct st as [sq m tot out]. destruct Hsh as (Hsq & Hs & Hb). cbn [dt_seq dt_buf] in *.
    destruct m as [|[k pl] tl]; [reflexivity|].
    cbn [zfirst option_map]. cbn [drain]. cbn [T dt_seq dt_buf dt_out dt_total].
    cbn in Hs. destruct Hs as [Hk0 Htl]. inversion Hb as [|? ? Hbk Hbtl]; subst. cbn [fst snd] in Hbk. destruct Hbk as [Hk1 Hk2].
    pose proof (zlen_nonneg pl) as Hpl0.
    assert (Hok : offs_ok ((k, pl) :: tl)) by (apply bounded_offs; assumption).
    destruct (cmp_key k sq ltac:(lia) ltac:(lia)) as (C1 & C2 & _).
    destruct (seq_compare_near k sq ltac:(lia) ltac:(lia) ltac:(lia)) as (D1 & D2 & _).
    rewrite C1, C2, D1, D2.
    rewrite zfind_phys_key by (assumption || lia). rewrite zfind_head.
    destruct (k <=? sq) eqn:Ele; [|reflexivity].
    destruct (k <? sq) eqn:Elt.
    - rewrite key_add. rewrite (w32_small (k + zlen pl)) by lia.
      destruct (cmp_key (k + zlen pl) sq ltac:(lia) ltac:(lia)) as (_ & _ & C3).
      destruct (seq_compare_near (k + zlen pl) sq ltac:(lia) ltac:(lia) ltac:(lia)) as (_ & _ & D3).
      rewrite C3, D3.
      destruct (k + zlen pl >? sq) eqn:Egt.
      + rewrite key_sub.
        destruct (zlen pl <? w32 (sq - k)); [reflexivity|].
        rewrite (w32_small (sq - k)) by lia.
        set (v' := zskipn (sq - k) pl).
        assert (Hv'len : zlen v' = zlen pl - (sq - k)) by (apply zlen_zskipn; lia).
        rewrite phys_zput by (assumption || lia). rewrite zput_head.
        change (mkdt (key sq) (phys ((k, []) :: tl)) (w32 (tot - zlen pl)) out) with (T (mkdt sq ((k, []) :: tl) (w32 (tot - zlen pl)) out)).
        assert (Hb1 : bounded ((k, []) :: tl)) by (constructor; [cbn; try rewrite zlen_nil; lia|assumption]).
        rewrite store_sim; [|cbn; split; [lia|assumption]|exact Hb1|lia].
        destruct (store_behind_head sq k [] tl (w32 (tot - zlen pl)) out sq v' ltac:(lia)) as (X & HX & HXs & Hq & Ho).
        set (st2 := store_payload (mkdt sq ((k, []) :: tl) (w32 (tot - zlen pl)) out) sq v') in *.
        assert (HsX : srt k X) by (destruct HXs as [-> | ->]; [apply srt_zput; [assumption|lia]|assumption]).
        assert (HbX : bounded X) by (destruct HXs as [-> | ->]; [apply bounded_zput; [assumption|lia|lia]|assumption]).
        unfold erase_iterator. cbn [T dt_buf dt_seq dt_total dt_out]. rewrite HX.
        rewrite zfind_phys_key by (try (apply bounded_offs; constructor; [cbn; try rewrite zlen_nil; lia|assumption]); lia).
        rewrite zfind_head.
        rewrite (phys_zdel (k - 1)); [|cbn; split; [lia|assumption]|apply bounded_offs; constructor; [cbn; try rewrite zlen_nil; lia|assumption]|lia].
        rewrite zdel_head. rewrite next_iter_phys by (assumption || lia). rewrite next_iter_first by assumption.
        rewrite Hq, Ho.
        specialize (IH (mkdt sq X (w32 (dt_total st2 - zlen (@nil Z))) out) added).
        cbn [T dt_buf dt_seq dt_total dt_out] in IH. apply IH.
        split; [assumption|]. split; [eapply srt_weaken; [|exact HsX]; lia|assumption].
      + unfold erase_iterator. cbn [T dt_buf dt_seq dt_total dt_out].
        rewrite zfind_phys_key by (assumption || lia). rewrite zfind_head.
        rewrite (phys_zdel (-1)); [|cbn; split; [lia|assumption]|assumption|lia].
        rewrite zdel_head. rewrite next_iter_phys by (assumption || lia). rewrite next_iter_first by assumption.
        specialize (IH (mkdt sq tl (w32 (tot - zlen pl)) out) added).
        cbn [T dt_buf dt_seq dt_total dt_out] in IH. apply IH.
        split; [assumption|]. split; [eapply srt_weaken; [|exact Htl]; lia|assumption].
    - assert (k = sq) by lia. subst k.
      unfold erase_iterator. cbn [T dt_buf dt_seq dt_total dt_out].
      rewrite zfind_phys_key by (assumption || lia). rewrite zfind_head.
      rewrite (phys_zdel (-1)); [|cbn; split; [lia|assumption]|assumption|lia].
      rewrite zdel_head. rewrite next_iter_phys by (assumption || lia). rewrite next_iter_first by assumption.
      rewrite key_add. rewrite (w32_small (sq + zlen pl)) by lia.
      specialize (IH (mkdt (sq + zlen pl) tl (w32 (tot - zlen pl)) (out ++ pl)) true).
      cbn [T dt_buf dt_seq dt_total dt_out] in IH. apply IH.
      split; [cbn [dt_seq]; lia|]. split; [eapply srt_weaken; [|exact Htl]; lia|assumption].
  Qed.

  (* one call, from a state whose chunks all start strictly after the delivery point *)
  Lemma process_sim st off pl : Sh st -> srt (dt_seq st) (dt_buf st) -> 0 <= off -> off + zlen pl <= B ->
    process_payload (T st) (isn + off) pl = Tres (process_payload st (0 + off) pl).
  Proof.
    intros (Hsq & Hs & Hb) Hgt Hoff Hend. unfold process_payload.
    destruct st as [sq m tot out]. cbn [T dt_seq dt_buf dt_out dt_total] in *.
    pose proof (zlen_nonneg pl) as Hpl0.
    change (w32 (isn + off)) with (key off). rewrite key_add.
    replace (0 + off) with off by lia. rewrite (w32_small off) by lia. rewrite (w32_small (off + zlen pl)) by lia.
    destruct (cmp_key (off + zlen pl) sq ltac:(lia) ltac:(lia)) as (C1 & _ & _).
    destruct (seq_compare_near (off + zlen pl) sq ltac:(lia) ltac:(lia) ltac:(lia)) as (D1 & _ & _).
    rewrite C1, D1.
    destruct (off + zlen pl <? sq) eqn:Eold; [reflexivity|].
    destruct (cmp_key off sq ltac:(lia) ltac:(lia)) as (C2 & _ & _).
    destruct (seq_compare_near off sq ltac:(lia) ltac:(lia) ltac:(lia)) as (D2 & _ & _).
    rewrite C2, D2. rewrite key_sub.
    destruct ((off <? sq) && (zlen pl <? w32 (sq - off))); [reflexivity|].
    set (pl' := if off <? sq then zskipn (w32 (sq - off)) pl else pl).
    set (o' := if off <? sq then sq else off).
    assert (Ho' : 0 <= o' <= B /\ sq <= o') by (subst o'; destruct (off <? sq) eqn:E; lia).
    replace (if off <? sq then key sq else key off) with (key o') by (subst o'; destruct (off <? sq); reflexivity).
    change (mkdt (key sq) (phys m) tot out) with (T (mkdt sq m tot out)).
    rewrite store_sim by (assumption || lia).
    set (st1 := store_payload (mkdt sq m tot out) o' pl').
    assert (Hq : dt_seq st1 = sq) by (subst st1; apply store_payload_seq).
    cbn [T dt_seq dt_buf]. rewrite Hq.
    assert (Hshape : (dt_buf st1 = zput o' pl' m \/ dt_buf st1 = m)).
    { subst st1. unfold store_payload. cbn [dt_buf]. destruct (zfind o' m) as [old|]; [destruct (zlen old <? zlen pl')|]; cbn [dt_buf]; auto. }
    assert (Hpl' : o' + zlen pl' <= B).
    { subst o' pl'. destruct (off <? sq) eqn:E; [|lia]. destruct (Z_le_dec (sq - off) (zlen pl)) as [Hle|Hgt'].
      - rewrite (w32_small (sq - off)) by lia. rewrite zlen_zskipn by lia. lia.
      - unfold zskipn. rewrite skipn_all2 by (unfold zlen in *; rewrite (w32_small (sq - off)) by lia; lia). rewrite zlen_nil. lia. }
    assert (Hs1 : srt (-1) (dt_buf st1)) by (destruct Hshape as [-> | ->]; [apply srt_zput; [assumption|lia]|assumption]).
    assert (Hb1 : bounded (dt_buf st1)) by (destruct Hshape as [-> | ->]; [apply bounded_zput; [assumption|lia|lia]|assumption]).
    rewrite zfind_phys_key by (try apply bounded_offs; assumption || lia).
    assert (Hfuel : drain_fuel (T st1) = drain_fuel st1).
    { unfold drain_fuel. cbn [T dt_buf]. rewrite (length_phys (-1)) by (try apply bounded_offs; assumption). reflexivity. }
    rewrite Hfuel.
    destruct (zfind sq (dt_buf st1)) as [x|] eqn:Ef.
    - assert (Hfirst : zfirst (dt_buf st1) = Some sq).
      { assert (Hs1' : srt (sq - 1) (dt_buf st1)).
        { destruct Hshape as [-> | ->]; [apply srt_zput; [eapply srt_weaken; [|exact Hgt]; lia|lia]|eapply srt_weaken; [|exact Hgt]; lia]. }
        destruct (dt_buf st1) as [|[k0 v0] r0]; [discriminate|]. cbn. f_equal.
        cbn in Hs1'. destruct Hs1' as [Hk0 Hr0]. cbn in Ef. destruct (k0 =? sq) eqn:E0; [lia|].
        rewrite (zfind_below k0 r0 sq) in Ef by (assumption || lia). discriminate. }
      pose proof (drain_sim (drain_fuel st1) st1 false ltac:(split; [rewrite Hq; assumption|split; assumption])) as Hd.
      rewrite Hfirst in Hd. cbn [option_map] in Hd. exact Hd.
    - assert (Hfu : exists n, drain_fuel st1 = S n) by (unfold drain_fuel; exists (2 * length (dt_buf st1) + 1)%nat; lia).
      destruct Hfu as [n ->]. reflexivity.
  Qed.
End Wrap.

(* ---- every initial sequence number ---- *)
Section AnyISN.
  Variable s : list Z.
  Variable isn : Z.
  Hypothesis Hisn : 0 <= isn < 4294967296.
  Hypothesis Hhalf : zlen s < 2147483648.

  Let H00 : 0 <= 0. Proof. lia. Qed.
  Let Hnw : 0 + zlen s < 4294967296. Proof. lia. Qed.
  Let HB : 0 <= zlen s < 2147483648. Proof. pose proof (zlen_nonneg s). lia. Qed.

  Lemma PInv_Sh st : PInv s 0 st -> Sh (zlen s) st /\ srt (dt_seq st) (dt_buf st).
  Proof.
    intros [(Hb & Hout & Hlen & Hsrt & Hch) Hgt]. split; [|assumption]. split; [lia|]. split; [eapply srt_weaken; [|exact Hsrt]; lia|].
    unfold bounded. eapply Forall_impl; [|exact Hch]. intros [k v] [Hk Hat]. cbn [fst snd] in *.
    destruct (at_off_bounds s _ _ Hat). lia.
  Qed.

  Lemma PInv_new : PInv s 0 (dt_new 0).
  Proof.
    pose proof (zlen_nonneg s). split; [|exact I]. unfold dt_new. change (w32 0) with 0.
    repeat split; cbn; auto; try lia. exists [], s. split; reflexivity.
  Qed.

  Lemma run_sim : forall segs st, PInv s 0 st -> Forall (seg_ok s) segs ->
    run isn (T isn st) segs = option_map (T isn) (run 0 st segs).
  Proof.
    induction segs as [|[off pl] r IH]; intros st Hp Hok; [reflexivity|].
    inversion Hok as [|? ? Hsg Hr]; subst. unfold seg_ok in Hsg. cbn [fst snd] in Hsg.
    destruct (at_off_bounds s _ _ Hsg) as [Hoff Hend]. destruct (PInv_Sh st Hp) as [Hsh Hgt].
    cbn [run]. rewrite (process_sim isn Hisn (zlen s) HB st off pl Hsh Hgt Hoff Hend).
    pose proof (process_prefix s 0 H00 Hnw Hhalf st off pl Hp Hsg) as Hstep.
    destruct (process_payload st (0 + off) pl) as [[st1 b]| | |]; try contradiction.
    cbn [Tres]. apply IH; [apply Hstep|assumption].
  Qed.

  Theorem delivered_prefix_any_isn segs : Forall (seg_ok s) segs ->
    exists st, run isn (dt_new isn) segs = Some st /\
      let p := w32 (dt_seq st - isn) in
      0 <= p <= zlen s /\ dt_out st = zfirstn p s /\
      (forall i, 0 <= i < p -> covered segs i) /\ ~ covered segs p /\
      (forall k v, In (k, v) (dt_buf st) ->
         let o := w32 (k - isn) in
         p < o /\ at_off s o v /\ forall i, o <= i < o + zlen v -> covered segs i) /\
      (forall i, covered segs i ->
         0 <= i < p \/ exists k v, In (k, v) (dt_buf st) /\ w32 (k - isn) <= i < w32 (k - isn) + zlen v).
  Proof.
    intros Hok.
    destruct (delivered_prefix_all_histories s 0 H00 Hnw Hhalf segs Hok) as (st0 & Hrun & Hall).
    cbn zeta in Hall. rewrite Z.sub_0_r in Hall. destruct Hall as (Hp & Hout & Hcov & Hnc & Hbuf & Hhave).
    (* the invariant of the final 0-based state, for the shape of its buffer *)
    assert (HP : PInv s 0 st0).
    { assert (G : forall segs st, PInv s 0 st -> Forall (seg_ok s) segs -> forall st', run 0 st segs = Some st' -> PInv s 0 st').
      { induction segs0 as [|[off pl] r IH]; intros st HPs Hoks st' Hr; [injection Hr as <-; assumption|].
        inversion Hoks as [|? ? Hsg Hr']; subst. cbn [run] in Hr.
        pose proof (process_prefix s 0 H00 Hnw Hhalf st off pl HPs Hsg) as Hstep.
        destruct (process_payload st (0 + off) pl) as [[st1 b]| | |]; try contradiction. eapply IH; [apply Hstep|assumption|exact Hr]. }
      exact (G segs (dt_new 0) PInv_new Hok st0 Hrun). }
    destruct (PInv_Sh st0 HP) as [(Hsq & Hs0 & Hb0) Hgt0].
    pose proof (bounded_offs (zlen s) HB _ Hb0) as Hok0.
    exists (T isn st0). split.
    - replace (dt_new isn) with (T isn (dt_new 0)).
      + rewrite (run_sim segs (dt_new 0) PInv_new Hok), Hrun. reflexivity.
      + unfold dt_new, T, key. cbn. change (w32 0) with 0. rewrite Z.add_0_r. reflexivity.
    - cbn zeta. cbn [T dt_seq dt_buf dt_out].
      fold (unkey isn (key isn (dt_seq st0))). rewrite (unkey_key isn) by lia.
      split; [assumption|]. split; [assumption|]. split; [assumption|]. split; [assumption|]. split.
      + intros k v Hin. apply (In_phys isn (-1)) in Hin; [|assumption|assumption]. destruct Hin as [Hk Hin].
        fold (unkey isn k). destruct (Hbuf _ _ Hin) as (A & Bq & C). rewrite Z.sub_0_r in Bq, C. auto.
      + intros i Hc. destruct (Hhave i Hc) as [H|(k & v & Hin & Hr)]; [left; assumption|right].
        rewrite Z.sub_0_r in Hr.
        assert (Hkr : 0 <= k < 4294967296).
        { unfold bounded in Hb0. rewrite Forall_forall in Hb0. destruct (Hb0 _ Hin) as [H1 H2]. cbn in H1, H2. pose proof (zlen_nonneg v). lia. }
        exists (key isn k), v. split.
        * apply (In_phys isn (-1)); [assumption|assumption|]. split; [apply key_range|]. rewrite (unkey_key isn) by assumption. assumption.
        * fold (unkey isn (key isn k)). rewrite (unkey_key isn) by assumption. assumption.
  Qed.
End AnyISN.
