(* Field packing: get/set are exact inverses, setting a field disturbs no bit outside it (hence no disjoint
   field and no byte outside its bytes) — for ALL images, positions, widths and values. *)
From Coq Require Import ZArith List Bool Lia String.
From LT Require Import Gen.Layouts Model.Fields.
Import ListNotations.
Local Open Scope Z_scope.

Lemma ones_testbit w i : 0 <= w -> 0 <= i -> Z.testbit (Z.ones w) i = (i <? w).
Proof.
  intros Hw Hi. destruct (i <? w) eqn:E.
  - apply Z.ones_spec_low. apply Z.ltb_lt in E. lia.
  - apply Z.ones_spec_high. apply Z.ltb_ge in E. lia.
Qed.

Lemma field_get_testbit img p w i : 0 <= p -> 0 <= w -> 0 <= i ->
  Z.testbit (field_get img p w) i = Z.testbit img (i + p) && (i <? w).
Proof.
  intros Hp Hw Hi. unfold field_get. rewrite Z.land_spec, Z.shiftr_spec, ones_testbit by lia. reflexivity.
Qed.

Lemma field_set_testbit img p w v i : 0 <= p -> 0 <= w -> 0 <= i ->
  Z.testbit (field_set img p w v) i =
  if (p <=? i) && (i <? p + w) then Z.testbit v (i - p) else Z.testbit img i.
Proof.
  intros Hp Hw Hi. unfold field_set.
  rewrite Z.lor_spec, Z.land_spec, Z.lnot_spec by lia.
  destruct (Z_lt_le_dec i p) as [Hlt|Hge].
  - rewrite !Z.shiftl_spec_low by lia. replace ((p <=? i) && (i <? p + w)) with false by lia.
    cbn. rewrite andb_true_r, orb_false_r. reflexivity.
  - rewrite !Z.shiftl_spec by lia. rewrite Z.land_spec, !ones_testbit by lia.
    replace (p <=? i) with true by lia. cbn [andb].
    replace (i - p <? w) with (i <? p + w) by lia.
    destruct (i <? p + w); cbn; [rewrite andb_false_r, andb_true_r; reflexivity|rewrite andb_true_r, andb_false_r, orb_false_r; reflexivity].
Qed.

(* getter after setter returns the value (reduced to the field's width) *)
Theorem get_set img p w v : 0 <= p -> 0 <= w -> field_get (field_set img p w v) p w = Z.land v (Z.ones w).
Proof.
  intros Hp Hw. apply Z.bits_inj'. intros i Hi.
  rewrite field_get_testbit, field_set_testbit, Z.land_spec, ones_testbit by lia.
  destruct (i <? w) eqn:E.
  - replace ((p <=? i + p) && (i + p <? p + w)) with true by lia. replace (i + p - p) with i by lia. rewrite andb_true_r. reflexivity.
  - rewrite !andb_false_r. reflexivity.
Qed.

Theorem get_set_small img p w v : 0 <= p -> 0 <= w -> 0 <= v < 2 ^ w -> field_get (field_set img p w v) p w = v.
Proof.
  intros Hp Hw Hv. rewrite get_set by assumption. rewrite Z.land_ones by lia. apply Z.mod_small. assumption.
Qed.

(* a field with a disjoint bit range keeps its value *)
Theorem frame img p w v p' w' : 0 <= p -> 0 <= w -> 0 <= p' -> 0 <= w' ->
  (p + w <= p' \/ p' + w' <= p) -> field_get (field_set img p w v) p' w' = field_get img p' w'.
Proof.
  intros Hp Hw Hp' Hw' Hd. apply Z.bits_inj'. intros i Hi.
  rewrite !field_get_testbit, field_set_testbit by lia.
  destruct (i <? w') eqn:E; [|rewrite !andb_false_r; reflexivity].
  replace ((p <=? i + p') && (i + p' <? p + w)) with false by lia. reflexivity.
Qed.

(* no bit outside the field changes: in particular no other byte of the serialised header *)
Theorem outside_unchanged img p w v i : 0 <= p -> 0 <= w -> 0 <= i -> (i < p \/ p + w <= i) ->
  Z.testbit (field_set img p w v) i = Z.testbit img i.
Proof.
  intros Hp Hw Hi Ho. rewrite field_set_testbit by lia. replace ((p <=? i) && (i <? p + w)) with false by lia. reflexivity.
Qed.

(* the field holds the value at the specified position: bit k of the value is bit p+k of the image *)
Theorem inside_holds_value img p w v k : 0 <= p -> 0 <= w -> 0 <= k < w ->
  Z.testbit (field_set img p w v) (p + k) = Z.testbit v k.
Proof.
  intros Hp Hw Hk. rewrite field_set_testbit by lia. replace ((p <=? p + k) && (p + k <? p + w)) with true by lia.
  replace (p + k - p) with k by lia. reflexivity.
Qed.

(* the image stays within the struct *)
Theorem set_keeps_size img p w v n : 0 <= p -> 0 <= w -> 0 <= n -> p + w <= n -> 0 <= img < 2 ^ n ->
  0 <= field_set img p w v < 2 ^ n.
Proof.
  intros Hp Hw Hn Hfit Himg.
  assert (H0 : 0 <= field_set img p w v).
  { apply Z.bits_iff_nonneg_ex. exists n. intros i Hi. rewrite field_set_testbit by lia.
    replace ((p <=? i) && (i <? p + w)) with false by lia.
    destruct (Z.eq_dec img 0) as [->|Hne]; [apply Z.bits_0|].
    apply Z.bits_above_log2; [lia|]. assert (Z.log2 img < n) by (apply Z.log2_lt_pow2; lia). lia. }
  split; [assumption|].
  destruct (Z.eq_dec (field_set img p w v) 0) as [->|Hne]; [apply Z.pow_pos_nonneg; lia|].
  apply Z.log2_lt_pow2; [lia|].
  destruct (Z_lt_le_dec (Z.log2 (field_set img p w v)) n) as [|Hge]; [assumption|exfalso].
  pose proof (Z.bit_log2 (field_set img p w v) ltac:(lia)) as Hb.
  rewrite field_set_testbit in Hb by (try lia; apply Z.log2_nonneg).
  replace ((p <=? Z.log2 (field_set img p w v)) && (Z.log2 (field_set img p w v) <? p + w)) with false in Hb by lia.
  destruct (Z.eq_dec img 0) as [->|Hne2]; [rewrite Z.bits_0 in Hb; discriminate|].
  rewrite Z.bits_above_log2 in Hb; [discriminate|lia|].
  assert (Z.log2 img < n) by (apply Z.log2_lt_pow2; lia). lia.
Qed.

(* every generated header layout fits its struct and (unless it contains unions) its members are pairwise disjoint *)
Theorem generated_layouts_ok : forallb layout_ok layouts = true.
Proof. vm_compute. reflexivity. Qed.

Lemma disjoint_spec a b : disjoint a b = true -> m_pos a + m_width a <= m_pos b \/ m_pos b + m_width b <= m_pos a.
Proof. unfold disjoint. intros H. apply orb_true_iff in H. destruct H as [H|H]; apply Z.leb_le in H; auto. Qed.

Theorem member_frame img a b v : fits 65536 a = true -> fits 65536 b = true -> disjoint a b = true ->
  member_get (member_set img a v) b = member_get img b.
Proof.
  intros Ha Hb Hd. unfold member_get, member_set, fits in *.
  apply andb_true_iff in Ha. destruct Ha as [Ha _]. apply andb_true_iff in Ha. destruct Ha as [Ha1 Ha2].
  apply andb_true_iff in Hb. destruct Hb as [Hb _]. apply andb_true_iff in Hb. destruct Hb as [Hb1 Hb2].
  apply Z.leb_le in Ha1, Hb1. apply Z.ltb_lt in Ha2, Hb2.
  apply frame; try lia. apply disjoint_spec in Hd. lia.
Qed.
