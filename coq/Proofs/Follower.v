(* StreamFollower: connection keys, per-call behaviour, history-level bookkeeping and non-interference. *)
From LT Require Import Base.Prelude Base.CInt Gen.Kernels Model.DataTracker Model.Follower Proofs.ZMapFacts Proofs.Seq32 Proofs.DataTracker_acc.
From Coq Require Import ZifyBool.
Local Open Scope Z_scope.

(* ---------- A. identifiers ---------- *)
Definition addr_ok (v6 : bool) (a : Z) : Prop := 0 <= a < (if v6 then 2 ^ 128 else 2 ^ 32).
Definition port_ok (p : Z) : Prop := 0 <= p < 65536.
Definition pkt_ok (p : pkt) : Prop :=
  addr_ok (p_v6 p) (p_src p) /\ addr_ok (p_v6 p) (p_dst p) /\ port_ok (p_sport p) /\ port_ok (p_dport p).
Definition sid_ok (i : sid) : Prop :=
  0 <= min_addr i < 2 ^ 128 /\ 0 <= max_addr i < 2 ^ 128 /\ port_ok (min_port i) /\ port_ok (max_port i).

Lemma ser_addr_range v6 a : addr_ok v6 a -> 0 <= ser_addr v6 a < 2 ^ 128.
Proof. unfold addr_ok, ser_addr. destruct v6; lia. Qed.

Lemma ser_addr_inj v6 a b : ser_addr v6 a = ser_addr v6 b -> a = b.
Proof. unfold ser_addr. destruct v6; lia. Qed.

Lemma sid_make_ok v6 ca cp sa sp : 0 <= ca < 2 ^ 128 -> 0 <= sa < 2 ^ 128 -> port_ok cp -> port_ok sp -> sid_ok (sid_make v6 ca cp sa sp).
Proof.
  intros. unfold sid_make. destruct (sa <? ca); [|destruct ((ca =? sa) && (sp <? cp))]; unfold sid_ok; cbn; auto.
Qed.

Lemma make_identifier_ok p : pkt_ok p -> sid_ok (make_identifier p).
Proof. intros (H1 & H2 & H3 & H4). apply sid_make_ok; auto using ser_addr_range. Qed.

(* the map key: distinct identifiers have distinct codes, and the order of codes is operator< *)
Lemma sid_code_inj i j : sid_ok i -> sid_ok j -> sid_code i = sid_code j -> i = j.
Proof.
  destruct i as [v a b p q], j as [v' a' b' p' q']. unfold sid_ok, port_ok, sid_code. cbn.
  intros (Ha & Hb & Hp & Hq) (Ha' & Hb' & Hp' & Hq') H.
  assert (q = q' /\ p = p' /\ b = b' /\ a = a' /\ b2z v = b2z v') as (-> & -> & -> & -> & Hv).
  { destruct v, v'; cbn [b2z] in *; lia. }
  destruct v, v'; cbn in Hv; try lia; reflexivity.
Qed.

Definition sid_lt (i j : sid) : Prop :=
  b2z (sid_v6 i) < b2z (sid_v6 j) \/ (sid_v6 i = sid_v6 j /\
  (min_addr i < min_addr j \/ (min_addr i = min_addr j /\
  (max_addr i < max_addr j \/ (max_addr i = max_addr j /\
  (min_port i < min_port j \/ (min_port i = min_port j /\ max_port i < max_port j))))))).

Lemma sid_code_lt i j : sid_ok i -> sid_ok j -> (sid_code i < sid_code j <-> sid_lt i j).
Proof.
  destruct i as [v a b p q], j as [v' a' b' p' q']. unfold sid_ok, port_ok, sid_code, sid_lt. cbn.
  intros (Ha & Hb & Hp & Hq) (Ha' & Hb' & Hp' & Hq').
  destruct v, v'; cbn [b2z]; split; intros H; try lia;
    repeat match goal with H : _ \/ _ |- _ => destruct H | H : _ /\ _ |- _ => destruct H end; try lia; try discriminate.
Qed.

(* two packets get the same key exactly when they are of the same family and name the same two endpoints,
   in either direction *)
Definition same_endpoints (p q : pkt) : Prop :=
  p_v6 p = p_v6 q /\
  ((p_src p = p_src q /\ p_sport p = p_sport q /\ p_dst p = p_dst q /\ p_dport p = p_dport q) \/
   (p_src p = p_dst q /\ p_sport p = p_dport q /\ p_dst p = p_src q /\ p_dport p = p_sport q)).

Lemma sid_make_eq v ca cp sa sp ca' cp' sa' sp' :
  sid_make v ca cp sa sp = sid_make v ca' cp' sa' sp' <->
  ((ca = ca' /\ cp = cp' /\ sa = sa' /\ sp = sp') \/ (ca = sa' /\ cp = sp' /\ sa = ca' /\ sp = cp')).
Proof.
  unfold sid_make.
  destruct (sa <? ca) eqn:E1; destruct (sa' <? ca') eqn:E2;
  destruct ((ca =? sa) && (sp <? cp)) eqn:E3; destruct ((ca' =? sa') && (sp' <? cp')) eqn:E4;
  split; intros H; try (injection H as ? ? ? ?); try lia;
  (destruct H as [(-> & -> & -> & ->)|(-> & -> & -> & ->)]; try reflexivity; try lia;
   f_equal; lia).
Qed.

Theorem same_connection p q : pkt_ok p -> pkt_ok q ->
  (sid_code (make_identifier p) = sid_code (make_identifier q) <-> same_endpoints p q).
Proof.
  intros Hp Hq. split.
  - intros H. apply sid_code_inj in H; auto using make_identifier_ok.
    unfold make_identifier in H.
    assert (Hv : p_v6 p = p_v6 q).
    { unfold sid_make in H. repeat match type of H with context [if ?c then _ else _] => destruct c end; injection H; auto. }
    split; [exact Hv|]. rewrite <- Hv in H. apply sid_make_eq in H.
    destruct H as [(H1 & H2 & H3 & H4)|(H1 & H2 & H3 & H4)]; [left|right];
      repeat split; eauto using ser_addr_inj.
  - intros [Hv H]. f_equal. unfold make_identifier. rewrite <- Hv.
    apply sid_make_eq. destruct H as [(-> & -> & -> & ->)|(-> & -> & -> & ->)]; [left|right]; auto.
Qed.

(* ---------- B. flows and streams ---------- *)
Definition dt_ok (d : dt) : Prop := AccInv d /\ 0 <= dt_seq d.
Definition stream_ok (s : stream) : Prop := dt_ok (f_dt (s_client s)) /\ dt_ok (f_dt (s_server s)).

Definition key_of (n : sname) : Z :=
  sid_code (sid_make (n_v6 n) (ser_addr (n_v6 n) (n_caddr n)) (n_cport n) (ser_addr (n_v6 n) (n_saddr n)) (n_sport n)).

Definition ev_name (e : ev) : sname :=
  match e with ENew n | EOOO n _ _ _ | EData n _ _ | EClosed n | ETerm n _ => n end.
Definition ev_key (e : ev) : Z := key_of (ev_name e).

Lemma dt_new_ok seq : dt_ok (dt_new seq).
Proof. unfold dt_ok, dt_new, AccInv. cbn. pose proof (w32_range seq). repeat split; lia. Qed.

Lemma update_state_static f p :
  f_v6 (update_state f p) = f_v6 f /\ f_dst (update_state f p) = f_dst f /\ f_dport (update_state f p) = f_dport f.
Proof. unfold update_state. repeat match goal with |- context [if ?c then _ else _] => destruct c end; auto. Qed.

Lemma update_state_ok f p : dt_ok (f_dt f) -> dt_ok (f_dt (update_state f p)).
Proof.
  intros H. unfold update_state. repeat match goal with |- context [if ?c then _ else _] => destruct c end; auto.
  cbn [f_dt]. destruct H as [[H1 H2] H3]. unfold dt_ok, AccInv. cbn. pose proof (w32_range (p_seq p + 1)). repeat split; auto; lia.
Qed.

Lemma flow_process_static f p f' e : flow_process f p = Ok (f', e) ->
  f_v6 f' = f_v6 f /\ f_dst f' = f_dst f /\ f_dport f' = f_dport f.
Proof.
  unfold flow_process. intros H. pose proof (update_state_static f p) as Hs.
  destruct (p_data p) as [pl|]; [|injection H as <- _; exact Hs].
  destruct (process_payload _ _ _) as [[d' added]| | |]; cbn [bind] in H; try discriminate.
  destruct added; injection H as <- _; exact Hs.
Qed.

Lemma flow_process_ok f p f' e : dt_ok (f_dt f) -> flow_process f p = Ok (f', e) -> dt_ok (f_dt f').
Proof.
  unfold flow_process. intros Hok H. pose proof (update_state_ok f p Hok) as [Ha Hq].
  destruct (p_data p) as [pl|]; [|injection H as <- _; split; assumption].
  destruct (process_payload _ _ _) as [[d' added]| | |] eqn:E; cbn [bind] in H; try discriminate.
  destruct (process_payload_inv _ _ _ _ _ Ha Hq E) as [[H1 H2] H3].
  destruct added; injection H as <- _; cbn [f_dt]; split; auto; split; assumption.
Qed.

(* a finished direction stays finished *)
Lemma update_state_absorbing f p :
  f_state f = FIN_SENT \/ f_state f = RST_SENT -> f_state (update_state f p) = FIN_SENT \/ f_state (update_state f p) = RST_SENT.
Proof.
  intros H. unfold update_state, FIN_SENT, RST_SENT, SYN_SENT, UNKNOWN in *.
  destruct (has_flags p FIN); [auto|]. destruct (has_flags p RST); [auto|].
  destruct ((f_state f =? 1) && _) eqn:E1; [lia|]. destruct ((f_state f =? 0) && _) eqn:E2; [lia|]. exact H.
Qed.

Lemma stream_process_spec s p s' e : stream_process s p = Ok (s', e) ->
  name_of s' = name_of s /\ s_last s' = p_ts p /\ (forall x, In x e -> ev_name x = name_of s /\ (forall n, x <> ENew n) /\ (forall n r, x <> ETerm n r)) /\
  (In (EClosed (name_of s)) e <-> is_finished s' = true) /\ (stream_ok s -> stream_ok s').
Proof.
  unfold stream_process. intros H.
  match type of H with bind ?x _ = _ => destruct x as [[s1 e1]| | |] eqn:E end; cbn [bind] in H; try discriminate.
  injection H as <- <-.
  assert (Hb : name_of s1 = name_of s /\ s_last s1 = p_ts p /\
               (forall x, In x e1 -> ev_name x = name_of s /\ (exists c y, x = lift (name_of s) c y)) /\ (stream_ok s -> stream_ok s1)).
  { destruct (packet_belongs (s_client s) p).
    - destruct (flow_process (s_client s) p) as [[f' fe]| | |] eqn:Ef; cbn [bind] in E; try discriminate.
      injection E as <- <-. destruct (flow_process_static _ _ _ _ Ef) as (A & B & D). cbn [fst snd].
      split; [unfold name_of; cbn; congruence|]. split; [reflexivity|]. split.
      + intros x H. apply in_map_iff in H. destruct H as (y & <- & _). split; [destruct y; reflexivity|eauto].
      + intros [H1 H2]. split; cbn; [exact (flow_process_ok _ _ _ _ H1 Ef)|exact H2].
    - destruct (packet_belongs (s_server s) p).
      + destruct (flow_process (s_server s) p) as [[f' fe]| | |] eqn:Ef; cbn [bind] in E; try discriminate.
        injection E as <- <-. destruct (flow_process_static _ _ _ _ Ef) as (A & B & D). cbn [fst snd].
        split; [unfold name_of; cbn; congruence|]. split; [reflexivity|]. split.
        * intros x H. apply in_map_iff in H. destruct H as (y & <- & _). split; [destruct y; reflexivity|eauto].
        * intros [H1 H2]. split; cbn; [exact H1|exact (flow_process_ok _ _ _ _ H2 Ef)].
      + injection E as <- <-. split; [reflexivity|]. split; [reflexivity|]. split; [intros x []|].
        intros [H1 H2]. split; assumption. }
  destruct Hb as (Hn & Hl & He & Hok).
  split; [exact Hn|]. split; [exact Hl|]. split; [|split; [split|exact Hok]].
  - intros x H. split; [|split].
    + apply in_app_iff in H. destruct H as [H|H]; [apply He; exact H|].
      destruct (is_finished s1); [|contradiction]. destruct H as [<-|[]]. reflexivity.
    + intros n ->. apply in_app_iff in H. destruct H as [H|H].
      * destruct (He _ H) as (_ & c & y & Hy). destruct y; discriminate.
      * destruct (is_finished s1); [|contradiction]. destruct H as [H|[]]. discriminate.
    + intros n r ->. apply in_app_iff in H. destruct H as [H|H].
      * destruct (He _ H) as (_ & c & y & Hy). destruct y; discriminate.
      * destruct (is_finished s1); [|contradiction]. destruct H as [H|[]]. discriminate.
  - intros H. apply in_app_iff in H. destruct H as [H|H].
    + destruct (He _ H) as (_ & c & y & Hy). destruct y; discriminate.
    + destruct (is_finished s1); [reflexivity|contradiction].
  - intros H. apply in_app_iff. right. rewrite H. left. reflexivity.
Qed.

Lemma stream_process_once s p s' e (f : ev -> bool) : stream_process s p = Ok (s', e) ->
  (forall n c q pl, f (EOOO n c q pl) = false) -> (forall n c pl, f (EData n c pl) = false) -> (length (filter f e) <= 1)%nat.
Proof.
  unfold stream_process. intros H F1 F2.
  match type of H with bind ?x _ = _ => destruct x as [[s1 e1]| | |] eqn:E end; cbn [bind] in H; try discriminate.
  injection H as <- <-.
  assert (Hl : forall n c (l : list fev), filter f (map (lift n c) l) = []).
  { intros n c l. induction l as [|y r IH]; [reflexivity|]. cbn. destruct y; cbn; rewrite ?F1, ?F2; exact IH. }
  assert (He1 : filter f e1 = []).
  { destruct (packet_belongs (s_client s) p).
    - destruct (flow_process (s_client s) p) as [[f' fe]| | |]; cbn [bind] in E; try discriminate. injection E as <- <-. apply Hl.
    - destruct (packet_belongs (s_server s) p).
      + destruct (flow_process (s_server s) p) as [[f' fe]| | |]; cbn [bind] in E; try discriminate. injection E as <- <-. apply Hl.
      + injection E as <- <-. reflexivity. }
  rewrite filter_app, He1. cbn [app]. destruct (is_finished s1); cbn; [destruct (f _); cbn; lia|lia].
Qed.

(* ---------- C. the follower ---------- *)
Section FilterFacts.
  Context {V : Type}.
  Variable f : Z * V -> bool.

  Lemma srt_filter lo (m : zmap V) : srt lo m -> srt lo (filter f m).
  Proof.
    revert lo. induction m as [|[k v] r IH]; cbn; intros lo Hs; [exact I|]. destruct Hs as [H1 H2].
    destruct (f (k, v)); cbn.
    - split; [exact H1|apply IH; exact H2].
    - eapply srt_weaken; [|apply IH; exact H2]. lia.
  Qed.

  Lemma zfind_filter lo (m : zmap V) k : srt lo m ->
    zfind k (filter f m) = match zfind k m with Some v => if f (k, v) then Some v else None | None => None end.
  Proof.
    revert lo. induction m as [|[k' v] r IH]; cbn; intros lo Hs; [reflexivity|]. destruct Hs as [H1 H2].
    destruct (k' =? k) eqn:E.
    - assert (k' = k) by lia. subst k'. destruct (f (k, v)) eqn:Ef; cbn.
      + rewrite Z.eqb_refl. reflexivity.
      + rewrite (IH k H2). rewrite (zfind_below k r k H2) by lia. reflexivity.
    - destruct (f (k', v)); cbn; [rewrite E|]; apply (IH k' H2).
  Qed.
End FilterFacts.

Definition expired (keep now : Z) (kv : Z * stream) : bool := s_last (snd kv) + keep <=? now.

Lemma cleanup_fst m keep now : fst (cleanup m keep now) = filter (fun kv => negb (expired keep now kv)) m.
Proof.
  induction m as [|[k s] r IH]; cbn; [reflexivity|]. destruct (cleanup r keep now) as [r' e] eqn:E. cbn [fst] in IH.
  unfold expired at 1. cbn [snd]. destruct (s_last s + keep <=? now); cbn; congruence.
Qed.

Lemma cleanup_snd m keep now :
  snd (cleanup m keep now) = map (fun kv => ETerm (name_of (snd kv)) 0) (filter (expired keep now) m).
Proof.
  induction m as [|[k s] r IH]; cbn; [reflexivity|]. destruct (cleanup r keep now) as [r' e] eqn:E. cbn [snd] in IH.
  unfold expired at 1. cbn [snd]. destruct (s_last s + keep <=? now); cbn; congruence.
Qed.

Definition same_cfg (a b : follower) : Prop :=
  fo_keep_alive a = fo_keep_alive b /\ fo_max_chunks a = fo_max_chunks b /\ fo_max_bytes a = fo_max_bytes b /\ fo_attach a = fo_attach b.

Definition entry_ok (fo : follower) (k : Z) (s : stream) : Prop :=
  k = key_of (name_of s) /\ stream_ok s /\ is_finished s = false /\ over_limit fo s = false.

Definition Inv (fo : follower) : Prop :=
  srt (-1) (fo_streams fo) /\ forall k s, zfind k (fo_streams fo) = Some s -> entry_ok fo k s.

Lemma over_limit_cfg a b s : same_cfg a b -> over_limit a s = over_limit b s.
Proof. intros (_ & H2 & H3 & _). unfold over_limit. rewrite H2, H3. reflexivity. Qed.

Lemma sid_code_nonneg i : sid_ok i -> 0 <= sid_code i.
Proof. destruct i as [v a b p q]. unfold sid_ok, port_ok, sid_code. cbn. destruct v; cbn [b2z]; lia. Qed.

(* what maybe_cleanup does to a map whose entries are fine *)
Lemma maybe_cleanup_spec fo m ts fo' e :
  srt (-1) m -> maybe_cleanup fo m ts = (fo', e) ->
  same_cfg fo fo' /\ srt (-1) (fo_streams fo') /\
  let ran := fo_last_cleanup fo + fo_keep_alive fo <=? ts in
  (forall k, zfind k (fo_streams fo') =
     match zfind k m with Some s => if ran && expired (fo_keep_alive fo) ts (k, s) then None else Some s | None => None end) /\
  e = (if ran then map (fun kv => ETerm (name_of (snd kv)) 0) (filter (expired (fo_keep_alive fo) ts) m) else []).
Proof.
  intros Hs H. unfold maybe_cleanup in H. destruct (fo_last_cleanup fo + fo_keep_alive fo <=? ts) eqn:E.
  - pose proof (cleanup_fst m (fo_keep_alive fo) ts) as H1. pose proof (cleanup_snd m (fo_keep_alive fo) ts) as H2.
    destruct (cleanup m (fo_keep_alive fo) ts) as [m' e']. cbn [fst snd] in H1, H2. injection H as <- <-. cbn [fo_streams].
    split; [repeat split|]. split; [subst m'; apply srt_filter; exact Hs|]. cbn zeta. split; [|exact H2].
    intros k. subst m'. rewrite (zfind_filter _ (-1)) by exact Hs. destruct (zfind k m) as [s|]; [|reflexivity].
    cbn [andb]. destruct (expired _ _ _); reflexivity.
  - injection H as <- <-. cbn [fo_streams]. split; [repeat split|]. split; [exact Hs|]. cbn zeta. split; [|reflexivity].
    intros k. destruct (zfind k m); reflexivity.
Qed.

Definition pkey (p : pkt) : Z := sid_code (make_identifier p).
Definition create_cond (fo : follower) (p : pkt) : bool :=
  (has_flags p SYN && negb (has_flags p ACK)) || (fo_attach fo && match p_data p with Some _ => true | None => false end).
Definition created (p : pkt) : stream :=
  let s := stream_new p in
  if has_flags p SYN && negb (has_flags p ACK) then s else
  mkstream (mkflow (f_v6 (s_client s)) (f_dst (s_client s)) (f_dport (s_client s)) ESTABLISHED (f_dt (s_client s)))
           (mkflow (f_v6 (s_server s)) (f_dst (s_server s)) (f_dport (s_server s)) ESTABLISHED (f_dt (s_server s)))
           (s_create s) (s_last s) (s_partial s).

Lemma created_facts p : key_of (name_of (created p)) = pkey p /\ stream_ok (created p) /\ is_finished (created p) = false.
Proof.
  unfold created. destruct (has_flags p SYN && negb (has_flags p ACK)); (split; [reflexivity|split; [split; apply dt_new_ok|reflexivity]]).
Qed.

(* the shape of one call *)
Lemma process_packet_cases fo p fo' e : process_packet fo p = Ok (fo', e) ->
  (zfind (pkey p) (fo_streams fo) = None /\ create_cond fo p = false /\ maybe_cleanup fo (fo_streams fo) (p_ts p) = (fo', e)) \/
  (exists s e0 s' e1 e3,
     ((zfind (pkey p) (fo_streams fo) = Some s /\ e0 = []) \/
      (zfind (pkey p) (fo_streams fo) = None /\ create_cond fo p = true /\ s = created p /\ e0 = [ENew (name_of s)])) /\
     stream_process s p = Ok (s', e1) /\
     maybe_cleanup fo (if is_finished s' || over_limit fo s' then zdel (pkey p) (fo_streams fo) else zput (pkey p) s' (fo_streams fo)) (p_ts p) = (fo', e3) /\
     e = e0 ++ e1 ++ (if over_limit fo s' then [ETerm (name_of s') 1] else []) ++ e3).
Proof.
  unfold process_packet. fold (pkey p). intros H.
  destruct (zfind (pkey p) (fo_streams fo)) as [s|] eqn:Ef.
  - right. destruct (stream_process s p) as [[s' e1]| | |] eqn:Es; cbn [bind] in H; try discriminate.
    destruct (maybe_cleanup fo _ (p_ts p)) as [fo1 e3] eqn:Ec. injection H as <- <-.
    exists s, [], s', e1, e3. repeat split; auto.
  - fold (create_cond fo p) in H. destruct (create_cond fo p) eqn:Ecc.
    + right. fold (created p) in H.
      destruct (stream_process (created p) p) as [[s' e1]| | |] eqn:Es; cbn [bind] in H; try discriminate.
      destruct (maybe_cleanup fo _ (p_ts p)) as [fo1 e3] eqn:Ec. injection H as <- <-.
      exists (created p), [ENew (name_of (created p))], s', e1, e3. repeat split; auto.
    + left. destruct (maybe_cleanup fo (fo_streams fo) (p_ts p)) as [fo1 e3] eqn:Ec. injection H as <- <-. auto.
Qed.

Definition entries_ok (fo : follower) (m : zmap stream) : Prop := forall k s, zfind k m = Some s -> entry_ok fo k s.

Lemma entry_ok_cfg a b k s : same_cfg a b -> entry_ok a k s -> entry_ok b k s.
Proof. intros Hc (H1 & H2 & H3 & H4). repeat split; auto; try apply H2. rewrite <- (over_limit_cfg a b s Hc). exact H4. Qed.

Lemma pkey_pos p : pkt_ok p -> -1 < pkey p.
Proof. intros H. pose proof (sid_code_nonneg _ (make_identifier_ok p H)). unfold pkey. lia. Qed.

(* the map after the stream of the packet was processed, before the keep-alive sweep *)
Definition mid_map (fo : follower) (p : pkt) (s' : stream) : zmap stream :=
  if is_finished s' || over_limit fo s' then zdel (pkey p) (fo_streams fo) else zput (pkey p) s' (fo_streams fo).

Lemma mid_map_ok fo p s s' e1 :
  Inv fo -> pkt_ok p -> key_of (name_of s) = pkey p -> stream_ok s -> stream_process s p = Ok (s', e1) ->
  srt (-1) (mid_map fo p s') /\ entries_ok fo (mid_map fo p s').
Proof.
  intros [Hs He] Hp Hk Hok Hsp. destruct (stream_process_spec _ _ _ _ Hsp) as (Hn & _ & _ & _ & Hok').
  unfold mid_map. destruct (is_finished s' || over_limit fo s') eqn:E.
  - split; [apply srt_zdel; exact Hs|]. intros k x Hf.
    destruct (Z.eq_dec k (pkey p)) as [->|Hne].
    + rewrite (zfind_zdel_same (-1)) in Hf by exact Hs. discriminate.
    + rewrite zfind_zdel_other in Hf by exact Hne. apply He. exact Hf.
  - split; [apply srt_zput; [exact Hs|apply pkey_pos; exact Hp]|]. intros k x Hf.
    destruct (Z.eq_dec k (pkey p)) as [->|Hne].
    + rewrite zfind_zput_same in Hf. injection Hf as <-.
      apply orb_false_iff in E. destruct E as [E1 E2].
      split; [rewrite Hn; symmetry; exact Hk|]. split; [apply Hok'; exact Hok|]. split; assumption.
    + rewrite zfind_zput_other in Hf by exact Hne. apply He. exact Hf.
Qed.

Theorem process_packet_inv fo p fo' e :
  Inv fo -> pkt_ok p -> process_packet fo p = Ok (fo', e) -> Inv fo' /\ same_cfg fo fo'.
Proof.
  intros HI Hp H. pose proof HI as [Hs He].
  destruct (process_packet_cases _ _ _ _ H) as [(Hf & Hc & Hm)|(s & e0 & s' & e1 & e3 & Hfound & Hsp & Hm & ->)].
  - destruct (maybe_cleanup_spec _ _ _ _ _ Hs Hm) as (Hcfg & Hs' & Hz & _). split; [|exact Hcfg].
    split; [exact Hs'|]. intros k x Hx. rewrite Hz in Hx. destruct (zfind k (fo_streams fo)) as [y|] eqn:Ey; [|discriminate].
    destruct (_ && _); [discriminate|]. injection Hx as <-. eapply entry_ok_cfg; [exact Hcfg|]. apply He. exact Ey.
  - assert (Hks : key_of (name_of s) = pkey p /\ stream_ok s).
    { destruct Hfound as [[Hf _]|(Hf & _ & -> & _)].
      - destruct (He _ _ Hf) as (Hk & Hok & _). split; [symmetry; exact Hk|exact Hok].
      - destruct (created_facts p) as (A & B & _). split; assumption. }
    destruct Hks as [Hk Hok]. fold (mid_map fo p s') in Hm.
    destruct (mid_map_ok fo p s s' e1 HI Hp Hk Hok Hsp) as [Hs1 He1].
    destruct (maybe_cleanup_spec _ _ _ _ _ Hs1 Hm) as (Hcfg & Hs' & Hz & _). split; [|exact Hcfg].
    split; [exact Hs'|]. intros k x Hx. rewrite Hz in Hx. destruct (zfind k (mid_map fo p s')) as [y|] eqn:Ey; [|discriminate].
    destruct (_ && _); [discriminate|]. injection Hx as <-. eapply entry_ok_cfg; [exact Hcfg|]. apply He1. exact Ey.
Qed.

(* ---------- D. what one call reports ---------- *)
Definition live (fo : follower) (k : Z) : Prop := zfind k (fo_streams fo) <> None.
Definition is_new (x : ev) : bool := match x with ENew _ => true | _ => false end.
Definition is_removal (x : ev) : bool := match x with EClosed _ | ETerm _ _ => true | _ => false end.
Definition is_termk (k : Z) (x : ev) : bool := match x with ETerm n _ => key_of n =? k | _ => false end.
Definition is_closedk (k : Z) (x : ev) : bool := match x with EClosed n => key_of n =? k | _ => false end.
Definition cnt (f : ev -> bool) (e : list ev) : nat := length (filter f e).

Lemma cnt_app f a b : cnt f (a ++ b) = (cnt f a + cnt f b)%nat.
Proof. unfold cnt. rewrite filter_app, app_length. reflexivity. Qed.

Lemma cnt_zero f e : (forall x, In x e -> f x = false) -> cnt f e = 0%nat.
Proof.
  unfold cnt. induction e as [|x r IH]; cbn; intros H; [reflexivity|].
  rewrite (H x (or_introl eq_refl)). apply IH. intros y Hy. apply H. right. exact Hy.
Qed.

Lemma zfind_In {V} lo (m : zmap V) k v : srt lo m -> (In (k, v) m <-> zfind k m = Some v).
Proof.
  revert lo. induction m as [|[k' v'] r IH]; cbn; intros lo Hs; [split; [contradiction|discriminate]|].
  destruct Hs as [H1 H2]. destruct (k' =? k) eqn:E.
  - assert (k' = k) by lia. subst k'. split.
    + intros [H|H]; [congruence|]. apply (IH k) in H; [|exact H2]. rewrite (zfind_below k r k H2) in H by lia. discriminate.
    + intros H. left. congruence.
  - split.
    + intros [H|H]; [injection H as -> _; lia|]. apply (IH k' H2). exact H.
    + intros H. right. apply (IH k' H2). exact H.
Qed.

(* at most one entry per key *)
Lemma filter_key_none {V} (m : zmap V) k (g : Z * V -> bool) : forall lo,
  srt lo m -> k <= lo -> filter (fun kv => (fst kv =? k) && g kv) m = [].
Proof.
  induction m as [|[k' v] r IH]; cbn; intros lo Hs Hk; [reflexivity|]. destruct Hs as [H1 H2].
  replace (k' =? k) with false by lia. cbn. apply (IH k' H2). lia.
Qed.

Lemma filter_key_le1 {V} (m : zmap V) k (g : Z * V -> bool) : forall lo,
  srt lo m -> (length (filter (fun kv => (fst kv =? k)%Z && g kv) m) <= 1)%nat.
Proof.
  induction m as [|[k' v] r IH]; cbn; intros lo Hs; [lia|]. destruct Hs as [H1 H2].
  destruct (k' =? k) eqn:E.
  - assert (k' = k) by lia. subst k'. rewrite (filter_key_none r k g k H2) by lia.
    destruct (g (k, v)); cbn; lia.
  - cbn. apply (IH k' H2).
Qed.

Lemma cnt_timeouts (m : zmap stream) k keep ts : forall lo,
  srt lo m -> (forall k' s, zfind k' m = Some s -> k' = key_of (name_of s)) ->
  length (filter (is_termk k) (map (fun kv : Z * stream => ETerm (name_of (snd kv)) 0) (filter (expired keep ts) m))) =
  length (filter (fun kv => (fst kv =? k) && expired keep ts kv) m).
Proof.
  induction m as [|[k' s] r IH]; intros lo Hs He; [reflexivity|]. cbn [filter]. destruct Hs as [H1 H2].
  assert (Hk' : k' = key_of (name_of s)). { apply (He k' s). cbn. rewrite Z.eqb_refl. reflexivity. }
  assert (Her : forall k2 s2, zfind k2 r = Some s2 -> k2 = key_of (name_of s2)).
  { intros k2 s2 H. apply He. cbn. destruct (k' =? k2) eqn:E; [|exact H]. rewrite (zfind_below k' r k2 H2) in H by lia. discriminate. }
  cbn [fst]. destruct (expired keep ts (k', s)) eqn:Ex; cbn [map filter andb].
  - unfold is_termk at 1. cbn [snd]. rewrite <- Hk'. rewrite andb_true_r. destruct (k' =? k); cbn [length]; rewrite (IH k' H2 Her); reflexivity.
  - rewrite andb_false_r. apply (IH k' H2 Her).
Qed.

(* the keep-alive sweep: which entries go, and what is reported for them *)
Lemma timeouts_spec fo m ts fo' e3 :
  srt (-1) m -> entries_ok fo m -> maybe_cleanup fo m ts = (fo', e3) ->
  (forall k, zfind k (fo_streams fo') = zfind k m \/ (zfind k (fo_streams fo') = None /\ exists s, zfind k m = Some s /\ In (ETerm (name_of s) 0) e3)) /\
  (forall x, In x e3 -> exists k s, zfind k m = Some s /\ x = ETerm (name_of s) 0 /\ ev_key x = k /\ zfind k (fo_streams fo') = None) /\
  (forall k, (cnt (is_termk k) e3 <= 1)%nat) /\
  (forall k, zfind k m = None -> cnt (is_termk k) e3 = 0%nat) /\
  (forall k, cnt (is_closedk k) e3 = 0%nat) /\ cnt is_new e3 = 0%nat.
Proof.
  intros Hs He Hm. destruct (maybe_cleanup_spec _ _ _ _ _ Hs Hm) as (_ & _ & Hz & ->). cbn zeta in Hz.
  set (ran := fo_last_cleanup fo + fo_keep_alive fo <=? ts) in *.
  set (F := fun kv : Z * stream => ETerm (name_of (snd kv)) 0).
  assert (HinF : forall x, In x (if ran then map F (filter (expired (fo_keep_alive fo) ts) m) else []) ->
            exists k s, zfind k m = Some s /\ x = ETerm (name_of s) 0 /\ ev_key x = k /\ ran = true /\ expired (fo_keep_alive fo) ts (k, s) = true).
  { intros x Hx. destruct ran eqn:Er; [|contradiction]. apply in_map_iff in Hx. destruct Hx as ([k s] & <- & Hin).
    apply filter_In in Hin. destruct Hin as [Hin Hex]. apply (zfind_In (-1)) in Hin; [|exact Hs].
    exists k, s. repeat split; auto. destruct (He _ _ Hin) as (Hk & _). unfold ev_key, F. cbn. symmetry. exact Hk. }
  split; [|split; [|split; [|split; [|split]]]].
  - intros k. rewrite Hz. destruct (zfind k m) as [s|] eqn:Ef; [|left; reflexivity].
    destruct (ran && expired (fo_keep_alive fo) ts (k, s)) eqn:E; [|left; reflexivity].
    right. split; [reflexivity|]. exists s. split; [reflexivity|]. apply andb_true_iff in E. destruct E as [E1 E2]. rewrite E1.
    apply in_map_iff. exists (k, s). split; [reflexivity|]. apply filter_In. split; [|exact E2]. apply (zfind_In (-1)); assumption.
  - intros x Hx. destruct (HinF x Hx) as (k & s & H1 & H2 & H3 & H4 & H5). exists k, s. repeat split; auto.
    rewrite Hz, H1, H4, H5. reflexivity.
  - intros k. destruct ran; [|cbn; lia]. unfold cnt. 
    unfold F. rewrite (cnt_timeouts m k (fo_keep_alive fo) ts (-1) Hs) by (intros k' s H; apply (He k' s H)).
    eapply filter_key_le1. exact Hs.
  - intros k Hk. apply cnt_zero. intros x Hx. destruct (HinF x Hx) as (k' & s & H1 & -> & H3 & _). unfold ev_key in H3. cbn in H3.
    cbn. destruct (key_of (name_of s) =? k) eqn:E; [|reflexivity]. assert (k' = k) by lia. subst k'. congruence.
  - intros k. apply cnt_zero. intros x Hx. destruct (HinF x Hx) as (k' & s & _ & -> & _). reflexivity.
  - apply cnt_zero. intros x Hx. destruct (HinF x Hx) as (k' & s & _ & -> & _). reflexivity.
Qed.

(* the bookkeeping contract of one call: L = connections tracked before, L' = after *)
Record call_ok (L L' : Z -> Prop) (e : list ev) : Prop := {
  co_new_fresh : forall n, In (ENew n) e -> ~ L (key_of n);
  co_new_once : (cnt is_new e <= 1)%nat;
  co_known : forall x, In x e -> L (ev_key x) \/ In (ENew (ev_name x)) e;
  co_after : forall k, L' k <-> ((L k \/ exists n, In (ENew n) e /\ key_of n = k) /\ ~ exists x, In x e /\ is_removal x = true /\ ev_key x = k);
  co_term_once : forall k, (cnt (is_termk k) e <= 1)%nat;
  co_closed_once : forall k, (cnt (is_closedk k) e <= 1)%nat
}.

Lemma some_not_none {A} (o : option A) x : o = Some x -> o <> None.
Proof. congruence. Qed.

Theorem process_packet_call_ok fo p fo' e :
  Inv fo -> pkt_ok p -> process_packet fo p = Ok (fo', e) -> call_ok (live fo) (live fo') e.
Proof.
  intros HI Hp H. pose proof HI as [Hs He].
  destruct (process_packet_cases _ _ _ _ H) as [(Hf & Hc & Hm)|(s & e0 & s' & e1 & e3 & Hfound & Hsp & Hm & ->)].
  - (* no stream, none created: only the sweep *)
    destruct (timeouts_spec _ _ _ _ _ Hs He Hm) as (Hz & Hx & Ht & _ & Hcl & Hn).
    constructor.
    + intros n Hin. destruct (Hx _ Hin) as (k & s & _ & Heq & _). discriminate.
    + rewrite Hn. lia.
    + intros x Hin. destruct (Hx _ Hin) as (k & s & Hk & _ & Hkey & _). left. rewrite Hkey. eapply some_not_none; exact Hk.
    + intros k. unfold live. split.
      * intros Hl. destruct (Hz k) as [Hq|[Hq _]]; [|contradiction]. split; [left; congruence|].
        intros (x & Hin & _ & Hkey). destruct (Hx _ Hin) as (k' & s & _ & _ & Hkey' & Hnone). congruence.
      * intros [[Hl|(n & Hin & _)] Hno].
        -- destruct (Hz k) as [Hq|(Hq & s & Hk & Hin)]; [congruence|]. exfalso. apply Hno.
           exists (ETerm (name_of s) 0). split; [exact Hin|]. split; [reflexivity|]. destruct (He _ _ Hk) as (Hkey & _). unfold ev_key. cbn. congruence.
        -- destruct (Hx _ Hin) as (k' & s & _ & Heq & _). discriminate.
    + exact Ht.
    + intros k. rewrite Hcl. lia.
  - (* the packet's stream was found or created *)
    assert (Hks : key_of (name_of s) = pkey p /\ stream_ok s).
    { destruct Hfound as [[Hf _]|(Hf & _ & -> & _)].
      - destruct (He _ _ Hf) as (Hk & Hok & _). split; [symmetry; exact Hk|exact Hok].
      - destruct (created_facts p) as (A & B & _). split; assumption. }
    destruct Hks as [Hk Hok]. fold (mid_map fo p s') in Hm.
    destruct (mid_map_ok fo p s s' e1 HI Hp Hk Hok Hsp) as [Hs1 He1].
    destruct (stream_process_spec _ _ _ _ Hsp) as (Hn & _ & He1x & Hclosed & _).
    destruct (timeouts_spec _ _ _ _ _ Hs1 He1 Hm) as (Hz & Hx & Ht & Ht0 & Hcl & Hnw).
    set (e2 := if over_limit fo s' then [ETerm (name_of s') 1] else []).
    assert (He0 : e0 = [] /\ zfind (pkey p) (fo_streams fo) = Some s \/
                  e0 = [ENew (name_of s)] /\ zfind (pkey p) (fo_streams fo) = None) by (destruct Hfound as [[? ?]|(? & _ & _ & ?)]; auto).
    (* every event of the first three groups is about the packet's own connection *)
    assert (Hown : forall x, In x (e0 ++ e1 ++ e2) -> ev_name x = name_of s).
    { intros x Hin. apply in_app_iff in Hin. destruct Hin as [Hin|Hin].
      - destruct He0 as [[-> _]|[-> _]]; [contradiction|]. destruct Hin as [<-|[]]. reflexivity.
      - apply in_app_iff in Hin. destruct Hin as [Hin|Hin]; [apply He1x; exact Hin|].
        unfold e2 in Hin. destruct (over_limit fo s'); [|contradiction]. destruct Hin as [<-|[]]. exact Hn. }
    (* membership of the packet's key in the intermediate map *)
    assert (Hmid : zfind (pkey p) (mid_map fo p s') = if is_finished s' || over_limit fo s' then None else Some s').
    { unfold mid_map. destruct (is_finished s' || over_limit fo s').
      - apply (zfind_zdel_same (-1)). exact Hs.
      - apply zfind_zput_same. }
    assert (Hmid' : forall k, k <> pkey p -> zfind k (mid_map fo p s') = zfind k (fo_streams fo)).
    { intros k Hne. unfold mid_map. destruct (is_finished s' || over_limit fo s'); [apply zfind_zdel_other|apply zfind_zput_other]; exact Hne. }
    assert (Hsplit : forall x, In x (e0 ++ e1 ++ e2 ++ e3) -> In x (e0 ++ e1 ++ e2) \/ In x e3).
    { intros x Hin. rewrite !app_assoc in Hin. apply in_app_iff in Hin. rewrite <- !app_assoc in Hin. exact Hin. }
    constructor.
    + (* a new-stream report only for an untracked connection *)
      intros n Hin. destruct (Hsplit _ Hin) as [Hin'|Hin'].
      * pose proof (Hown _ Hin') as Hnm. cbn in Hnm. subst n. unfold live. rewrite Hk.
        destruct He0 as [[-> _]|[_ Hnone]]; [|rewrite Hnone; auto].
        exfalso. cbn [app] in Hin'. apply in_app_iff in Hin'. destruct Hin' as [Hin'|Hin'].
        -- destruct (He1x _ Hin') as (_ & Hnn & _). eapply Hnn. reflexivity.
        -- unfold e2 in Hin'. destruct (over_limit fo s'); [|contradiction]. destruct Hin' as [Hin'|[]]. discriminate.
      * destruct (Hx _ Hin') as (k & s2 & _ & Heq & _). discriminate.
    + (* at most one *)
      rewrite !cnt_app, Hnw.
      assert (cnt is_new e1 = 0%nat) as ->.
      { apply cnt_zero. intros x Hin. destruct (He1x _ Hin) as (_ & Hnn & _). destruct x; try reflexivity. exfalso. eapply Hnn. reflexivity. }
      assert (cnt is_new e2 = 0%nat) as -> by (unfold e2; destruct (over_limit fo s'); reflexivity).
      destruct He0 as [[-> _]|[-> _]]; cbn; lia.
    + (* every report concerns a tracked or a just announced connection *)
      intros x Hin. destruct (Hsplit _ Hin) as [Hin'|Hin'].
      * pose proof (Hown _ Hin') as Hnm. unfold ev_key. rewrite Hnm, Hk.
        destruct He0 as [[-> Hsome]|[-> _]]; [left; eapply some_not_none; exact Hsome|right; left; reflexivity].
      * destruct (Hx _ Hin') as (k & s2 & Hk2 & Hxeq & Hkey & _). rewrite Hkey.
        destruct (Z.eq_dec k (pkey p)) as [->|Hne].
        -- rewrite Hmid in Hk2. destruct (is_finished s' || over_limit fo s'); [discriminate|].
           destruct He0 as [[-> Hsome]|[-> _]]; [left; eapply some_not_none; exact Hsome|].
           right. left. f_equal. subst x. cbn. injection Hk2 as <-. symmetry. exact Hn.
        -- left. rewrite Hmid' in Hk2 by exact Hne. eapply some_not_none; exact Hk2.
    + (* tracked afterwards = (tracked before or announced) and not reported closed/terminated *)
      assert (Hrem_own : forall x, In x (e0 ++ e1 ++ e2) -> is_removal x = true -> is_finished s' || over_limit fo s' = true).
      { intros x Hin Hr. apply in_app_iff in Hin. destruct Hin as [Hin|Hin].
        - destruct He0 as [[-> _]|[-> _]]; [contradiction|]. destruct Hin as [<-|[]]. discriminate.
        - apply in_app_iff in Hin. destruct Hin as [Hin|Hin].
          + destruct (He1x _ Hin) as (Hnm & _ & Hnt). destruct x; try discriminate.
            * cbn in Hnm. subst n. apply Hclosed in Hin. rewrite Hin. reflexivity.
            * exfalso. eapply Hnt. reflexivity.
          + unfold e2 in Hin. destruct (over_limit fo s'); [apply orb_true_r|contradiction]. }
      intros k. unfold live. destruct (Z.eq_dec k (pkey p)) as [->|Hne].
      * split.
        -- intros Hl. destruct (Hz (pkey p)) as [Hq|[Hq _]]; [|contradiction]. rewrite Hq, Hmid in Hl.
           destruct (is_finished s' || over_limit fo s') eqn:Efo; [contradiction|]. split.
           ++ destruct He0 as [[-> Hsome]|[-> _]]; [left; congruence|right]. exists (name_of s). split; [left; reflexivity|exact Hk].
           ++ intros (x & Hin & Hr & Hkey). destruct (Hsplit _ Hin) as [Hin'|Hin'].
              ** pose proof (Hrem_own _ Hin' Hr) as Hro. congruence.
              ** destruct (Hx _ Hin') as (k' & s2 & _ & _ & Hkey' & Hnone). rewrite <- Hkey', Hkey, Hq, Hmid in Hnone. discriminate.
        -- intros [_ Hno]. destruct (is_finished s' || over_limit fo s') eqn:Efo.
           ++ exfalso. apply Hno. apply orb_true_iff in Efo. destruct Efo as [Ef|Eo].
              ** exists (EClosed (name_of s)). split; [|split; [reflexivity|exact Hk]].
                 apply in_app_iff. right. apply in_app_iff. left. apply Hclosed. exact Ef.
              ** exists (ETerm (name_of s') 1). split; [|split; [reflexivity|unfold ev_key; cbn; rewrite Hn; exact Hk]].
                 apply in_app_iff. right. apply in_app_iff. right. apply in_app_iff. left. unfold e2. rewrite Eo. left. reflexivity.
           ++ destruct (Hz (pkey p)) as [Hq|(Hq & s2 & Hs2 & Hin)]; [rewrite Hq, Hmid; discriminate|].
              exfalso. apply Hno. exists (ETerm (name_of s2) 0). split; [|split; [reflexivity|]].
              ** apply in_app_iff. right. apply in_app_iff. right. apply in_app_iff. right. exact Hin.
              ** destruct (He1 _ _ Hs2) as (Hkey & _). unfold ev_key. cbn. symmetry. exact Hkey.
      * rewrite <- (Hmid' k Hne). split.
        -- intros Hl. destruct (Hz k) as [Hq|[Hq _]]; [|contradiction]. split; [left; congruence|].
           intros (x & Hin & Hr & Hkey). destruct (Hsplit _ Hin) as [Hin'|Hin'].
           ++ apply Hne. rewrite <- Hkey. unfold ev_key. rewrite (Hown _ Hin'). exact Hk.
           ++ destruct (Hx _ Hin') as (k' & s2 & _ & _ & Hkey' & Hnone). congruence.
        -- intros [[Hl|(n & Hin & Hkey)] Hno].
           ++ destruct (Hz k) as [Hq|(Hq & s2 & Hs2 & Hin)]; [congruence|].
              exfalso. apply Hno. exists (ETerm (name_of s2) 0). split; [|split; [reflexivity|]].
              ** apply in_app_iff. right. apply in_app_iff. right. apply in_app_iff. right. exact Hin.
              ** destruct (He1 _ _ Hs2) as (Hkey & _). unfold ev_key. cbn. symmetry. exact Hkey.
           ++ exfalso. destruct (Hsplit _ Hin) as [Hin'|Hin'].
              ** apply Hne. rewrite <- Hkey. pose proof (Hown _ Hin') as Hnm. cbn in Hnm. rewrite Hnm. exact Hk.
              ** destruct (Hx _ Hin') as (k' & s2 & _ & Heq & _). discriminate.
    + (* a termination is reported at most once per connection *)
      intros k. rewrite !cnt_app.
      assert (cnt (is_termk k) e0 = 0%nat) as -> by (destruct He0 as [[-> _]|[-> _]]; reflexivity).
      assert (cnt (is_termk k) e1 = 0%nat) as ->.
      { apply cnt_zero. intros x Hin. destruct (He1x _ Hin) as (_ & _ & Hnt). destruct x; try reflexivity. exfalso. eapply Hnt. reflexivity. }
      unfold e2. destruct (over_limit fo s') eqn:Eo.
      * destruct (Z.eq_dec k (pkey p)) as [->|Hne].
        -- rewrite (Ht0 (pkey p)); [cbn; destruct (_ =? _); cbn; lia|]. rewrite Hmid, orb_true_r. reflexivity.
        -- assert (cnt (is_termk k) [ETerm (name_of s') 1] = 0%nat) as ->.
           { cbn. rewrite Hn, Hk. replace (pkey p =? k) with false by lia. reflexivity. }
           pose proof (Ht k). lia.
      * pose proof (Ht k). cbn. lia.
    + (* and so is a close *)
      intros k. rewrite !cnt_app, (Hcl k).
      assert (cnt (is_closedk k) e0 = 0%nat) as -> by (destruct He0 as [[-> _]|[-> _]]; reflexivity).
      assert (cnt (is_closedk k) e2 = 0%nat) as -> by (unfold e2; destruct (over_limit fo s'); reflexivity).
      pose proof (stream_process_once _ _ _ _ (is_closedk k) Hsp (fun _ _ _ _ => eq_refl) (fun _ _ _ => eq_refl)). unfold cnt. lia.
Qed.

(* ---------- E. whole histories ---------- *)
Inductive chain_ok : (Z -> Prop) -> list (list ev) -> (Z -> Prop) -> Prop :=
| chain_nil L L' : (forall k, L k <-> L' k) -> chain_ok L [] L'
| chain_cons L L1 L' e tr : call_ok L L1 e -> chain_ok L1 tr L' -> chain_ok L (e :: tr) L'.

Lemma same_cfg_trans a b c : same_cfg a b -> same_cfg b c -> same_cfg a c.
Proof. unfold same_cfg. intuition congruence. Qed.

Theorem run_bookkeeping ps : forall fo fo' tr,
  Inv fo -> Forall pkt_ok ps -> run fo ps = Ok (fo', tr) ->
  Inv fo' /\ same_cfg fo fo' /\ chain_ok (live fo) tr (live fo').
Proof.
  induction ps as [|p r IH]; intros fo fo' tr HI Hps H; cbn [run] in H.
  - injection H as <- <-. split; [exact HI|]. split; [repeat split|]. constructor. intros k. reflexivity.
  - destruct (process_packet fo p) as [[fo1 e]| | |] eqn:E1; cbn [bind fst snd] in H; try discriminate.
    destruct (run fo1 r) as [[fo2 tr2]| | |] eqn:E2; cbn [bind fst snd] in H; try discriminate.
    injection H as <- <-. inversion Hps as [|? ? Hp Hr]; subst.
    destruct (process_packet_inv _ _ _ _ HI Hp E1) as [HI1 Hc1].
    destruct (IH _ _ _ HI1 Hr E2) as (HI2 & Hc2 & Hch).
    split; [exact HI2|]. split; [eapply same_cfg_trans; eassumption|].
    econstructor; [eapply process_packet_call_ok; eassumption|exact Hch].
Qed.

Lemma fo_init_inv a k c b : Inv (fo_init a k c b).
Proof. split; [exact I|]. intros x s H. discriminate. Qed.

(* what every tracked connection satisfies between calls: it is not finished, and it holds a bounded amount of
   out-of-order data, the byte counter being exact (mod 2^32) *)
Theorem tracked_streams_bounded fo k s : Inv fo -> zfind k (fo_streams fo) = Some s ->
  is_finished s = false /\
  zlen (dt_buf (f_dt (s_client s))) + zlen (dt_buf (f_dt (s_server s))) <= fo_max_chunks fo /\
  w32 (dt_total (f_dt (s_client s)) + dt_total (f_dt (s_server s))) <= fo_max_bytes fo /\
  dt_total (f_dt (s_client s)) mod 4294967296 = sum_len (dt_buf (f_dt (s_client s))) mod 4294967296 /\
  dt_total (f_dt (s_server s)) mod 4294967296 = sum_len (dt_buf (f_dt (s_server s))) mod 4294967296.
Proof.
  intros [_ He] Hf. destruct (He _ _ Hf) as (_ & [[[_ A1] _] [[_ A2] _]] & Hfin & Hov).
  unfold over_limit in Hov. apply orb_false_iff in Hov. destruct Hov as [H1 H2]. repeat split; auto; lia.
Qed.

(* "finished" is: a reset from either side, or a FIN from both; per direction it never reverts *)
Lemma is_finished_iff s : is_finished s = true <->
  (f_state (s_client s) = RST_SENT \/ f_state (s_server s) = RST_SENT \/ (f_state (s_client s) = FIN_SENT /\ f_state (s_server s) = FIN_SENT)).
Proof. unfold is_finished, RST_SENT, FIN_SENT. destruct (_ || _) eqn:E; split; intros H; try lia; try reflexivity. Qed.

Lemma update_state_fin f p : has_flags p FIN = true -> f_state (update_state f p) = FIN_SENT.
Proof. intros H. unfold update_state. rewrite H. reflexivity. Qed.

Lemma update_state_rst f p : has_flags p FIN = false -> has_flags p RST = true -> f_state (update_state f p) = RST_SENT.
Proof. intros H1 H2. unfold update_state. rewrite H1, H2. reflexivity. Qed.

(* ---------- F. connections do not interfere ----------
   While no keep-alive sweep is due, what the follower reports about a connection, and the state it keeps for it, depend
   only on that connection's own packets: any interleaving with other connections' packets gives the same result. *)
Definition quiet (fo : follower) (p : pkt) : Prop := p_ts p < fo_last_cleanup fo + fo_keep_alive fo.

Lemma maybe_cleanup_quiet fo m ts : ts < fo_last_cleanup fo + fo_keep_alive fo ->
  maybe_cleanup fo m ts = (mkfo m (fo_last_cleanup fo) (fo_keep_alive fo) (fo_max_chunks fo) (fo_max_bytes fo) (fo_attach fo), []).
Proof. intros H. unfold maybe_cleanup. replace (_ <=? ts) with false by lia. reflexivity. Qed.

(* two followers that agree on the configuration, the sweep clock and one connection *)
Definition agree (k : Z) (a b : follower) : Prop :=
  same_cfg a b /\ fo_last_cleanup a = fo_last_cleanup b /\ zfind k (fo_streams a) = zfind k (fo_streams b).

Lemma create_cond_cfg a b p : same_cfg a b -> create_cond a p = create_cond b p.
Proof. intros (_ & _ & _ & H). unfold create_cond. rewrite H. reflexivity. Qed.

Lemma step_own k a b p a' e :
  Inv a -> Inv b -> agree k a b -> pkey p = k -> quiet a p -> process_packet a p = Ok (a', e) ->
  exists b', process_packet b p = Ok (b', e) /\ agree k a' b'.
Proof.
  intros [Hsa _] [Hsb _] (Hc & Hl & Hz) Hk Hq H. pose proof Hc as (C1 & C2 & C3 & C4).
  unfold process_packet in *. fold (pkey p) in *. fold (create_cond a p) in H. fold (create_cond b p).
  rewrite Hk in *. rewrite <- Hz. rewrite <- (create_cond_cfg a b p Hc).
  assert (Hqb : p_ts p < fo_last_cleanup b + fo_keep_alive b) by (unfold quiet in Hq; lia).
  destruct (match zfind k (fo_streams a) with
            | Some s => Some (s, [], false)
            | None => if create_cond a p then _ else None end) as [[[s e0] fl]|] eqn:Ecr.
  - destruct (stream_process s p) as [[s' e1]| | |]; cbn [bind] in *; try discriminate.
    rewrite <- (over_limit_cfg a b s' Hc).
    rewrite maybe_cleanup_quiet in * by assumption. injection H as <- <-.
    eexists. split; [reflexivity|]. split; [repeat split; cbn; auto|]. split; [cbn; exact Hl|]. cbn [fo_streams].
    destruct (is_finished s' || over_limit a s').
    + rewrite !(zfind_zdel_same (-1)) by assumption. reflexivity.
    + rewrite !zfind_zput_same. reflexivity.
  - rewrite maybe_cleanup_quiet in * by assumption. injection H as <- <-.
    eexists. split; [reflexivity|]. split; [repeat split; cbn; auto|]. split; [cbn; exact Hl|]. cbn [fo_streams]. exact Hz.
Qed.

Lemma step_other k a p a' e :
  Inv a -> pkt_ok p -> pkey p <> k -> quiet a p -> process_packet a p = Ok (a', e) ->
  agree k a' a /\ (forall x, In x e -> ev_key x <> k).
Proof.
  intros HI Hp Hk Hq H. pose proof HI as [Hs He].
  destruct (process_packet_cases _ _ _ _ H) as [(Hf & Hc & Hm)|(s & e0 & s' & e1 & e3 & Hfound & Hsp & Hm & ->)].
  - rewrite maybe_cleanup_quiet in Hm by exact Hq. injection Hm as <- <-. split; [|intros x []].
    split; [repeat split|]. split; reflexivity.
  - rewrite maybe_cleanup_quiet in Hm by exact Hq. injection Hm as <- <-. split.
    + split; [repeat split|]. split; [reflexivity|]. cbn [fo_streams].
      destruct (is_finished s' || over_limit a s'); [apply zfind_zdel_other|apply zfind_zput_other]; congruence.
    + assert (Hks : key_of (name_of s) = pkey p).
      { destruct Hfound as [[Hf _]|(Hf & _ & -> & _)]; [destruct (He _ _ Hf) as (Hkk & _); congruence|apply created_facts]. }
      destruct (stream_process_spec _ _ _ _ Hsp) as (Hn & _ & He1x & _).
      intros x Hin. rewrite app_nil_r in Hin. unfold ev_key.
      assert (ev_name x = name_of s); [|congruence].
      apply in_app_iff in Hin. destruct Hin as [Hin|Hin].
      * destruct Hfound as [[_ ->]|(_ & _ & _ & ->)]; [contradiction|]. destruct Hin as [<-|[]]. reflexivity.
      * apply in_app_iff in Hin. destruct Hin as [Hin|Hin]; [apply He1x; exact Hin|].
        destruct (over_limit a s'); [|contradiction]. destruct Hin as [<-|[]]. exact Hn.
Qed.

Lemma quiet_step a p a' e : quiet a p -> process_packet a p = Ok (a', e) ->
  fo_last_cleanup a' = fo_last_cleanup a /\ same_cfg a a'.
Proof.
  intros Hq H.
  destruct (process_packet_cases _ _ _ _ H) as [(_ & _ & Hm)|(s & e0 & s' & e1 & e3 & _ & _ & Hm & _)];
    rewrite maybe_cleanup_quiet in Hm by exact Hq; injection Hm as <- _; (split; [reflexivity|repeat split]).
Qed.

Lemma quiet_events a p a' e : Inv a -> pkt_ok p -> quiet a p -> process_packet a p = Ok (a', e) -> forall x, In x e -> ev_key x = pkey p.
Proof.
  intros HI Hp Hq H x Hin. destruct (Z.eq_dec (ev_key x) (pkey p)) as [Heq|Hne]; [exact Heq|].
  exfalso. assert (Hk : pkey p <> ev_key x) by congruence.
  destruct (step_other (ev_key x) a p a' e HI Hp Hk Hq H) as [_ Hno]. exact (Hno x Hin eq_refl).
Qed.

Lemma filter_all {A} (f : A -> bool) l : (forall x, In x l -> f x = true) -> filter f l = l.
Proof. induction l as [|x r IH]; cbn; intros H; [reflexivity|]. rewrite (H x (or_introl eq_refl)), IH; [reflexivity|]. intros y Hy. apply H. right. exact Hy. Qed.

Lemma filter_none {A} (f : A -> bool) l : (forall x, In x l -> f x = false) -> filter f l = [].
Proof. induction l as [|x r IH]; cbn; intros H; [reflexivity|]. rewrite (H x (or_introl eq_refl)). apply IH. intros y Hy. apply H. right. exact Hy. Qed.

Theorem connections_independent k ps : forall a b a' tr,
  Inv a -> Inv b -> agree k a b -> Forall pkt_ok ps -> Forall (quiet a) ps -> run a ps = Ok (a', tr) ->
  exists b' tr', run b (filter (fun p => pkey p =? k) ps) = Ok (b', tr') /\ agree k a' b' /\
                 concat tr' = filter (fun x => ev_key x =? k) (concat tr).
Proof.
  induction ps as [|p r IH]; intros a b a' tr HIa HIb Hag Hok Hq H; cbn [run] in H.
  - injection H as <- <-. exists b, []. split; [reflexivity|]. split; [exact Hag|reflexivity].
  - destruct (process_packet a p) as [[a1 e]| | |] eqn:E1; cbn [bind fst snd] in H; try discriminate.
    destruct (run a1 r) as [[a2 tr2]| | |] eqn:E2; cbn [bind fst snd] in H; try discriminate.
    injection H as <- <-. inversion Hok as [|? ? Hp Hr]; subst. inversion Hq as [|? ? Hqp Hqr]; subst.
    destruct (process_packet_inv _ _ _ _ HIa Hp E1) as [HIa1 _].
    destruct (quiet_step _ _ _ _ Hqp E1) as [Hclk Hcfg].
    assert (Hqr1 : Forall (quiet a1) r).
    { eapply Forall_impl; [|exact Hqr]. intros q Hqq. unfold quiet in *. destruct Hcfg as (C1 & _). rewrite Hclk, <- C1. exact Hqq. }
    cbn [filter concat]. rewrite filter_app. destruct (pkey p =? k) eqn:Ek.
    + assert (Hk : pkey p = k) by lia.
      destruct (step_own k a b p a1 e HIa HIb Hag Hk Hqp E1) as (b1 & Eb & Hag1).
      destruct (process_packet_inv _ _ _ _ HIb Hp Eb) as [HIb1 _].
      destruct (IH _ _ _ _ HIa1 HIb1 Hag1 Hr Hqr1 E2) as (b2 & tr' & Er & Hag2 & Hc).
      exists b2, (e :: tr'). cbn [run]. rewrite Eb. cbn [bind fst snd]. rewrite Er. cbn [bind fst snd].
      split; [reflexivity|]. split; [exact Hag2|]. cbn [concat]. rewrite Hc. f_equal.
      symmetry. apply filter_all. intros x Hin. rewrite (quiet_events _ _ _ _ HIa Hp Hqp E1 x Hin). lia.
    + assert (Hk : pkey p <> k) by lia.
      destruct (step_other k a p a1 e HIa Hp Hk Hqp E1) as [Hag1 Hno].
      assert (Hag1' : agree k a1 b).
      { destruct Hag1 as (A1 & A2 & A3). destruct Hag as (B1 & B2 & B3). split; [eapply same_cfg_trans; eassumption|]. split; congruence. }
      destruct (IH _ _ _ _ HIa1 HIb Hag1' Hr Hqr1 E2) as (b2 & tr' & Er & Hag2 & Hc).
      exists b2, tr'. split; [exact Er|]. split; [exact Hag2|]. rewrite Hc.
      rewrite (filter_none _ e); [reflexivity|]. intros x Hin. pose proof (Hno x Hin). lia.
Qed.

(* ---------- G. direction ---------- *)
Definition stream_wf (s : stream) : Prop :=
  f_v6 (s_client s) = f_v6 (s_server s) /\
  addr_ok (f_v6 (s_server s)) (f_dst (s_client s)) /\ addr_ok (f_v6 (s_server s)) (f_dst (s_server s)) /\
  port_ok (f_dport (s_client s)) /\ port_ok (f_dport (s_server s)).

Lemma created_wf p : pkt_ok p -> stream_wf (created p).
Proof.
  intros (H1 & H2 & H3 & H4). unfold created. destruct (has_flags p SYN && negb (has_flags p ACK)); unfold stream_wf; cbn; auto.
Qed.

Lemma stream_process_wf s p s' e : stream_process s p = Ok (s', e) -> stream_wf s -> stream_wf s'.
Proof.
  unfold stream_process. intros H.
  match type of H with bind ?x _ = _ => destruct x as [[s1 e1]| | |] eqn:E end; cbn [bind] in H; try discriminate.
  injection H as <- _. unfold stream_wf.
  destruct (packet_belongs (s_client s) p).
  - destruct (flow_process (s_client s) p) as [[f' fe]| | |] eqn:Ef; cbn [bind] in E; try discriminate.
    injection E as <- _. destruct (flow_process_static _ _ _ _ Ef) as (A & B & D). cbn. rewrite A, B, D. auto.
  - destruct (packet_belongs (s_server s) p).
    + destruct (flow_process (s_server s) p) as [[f' fe]| | |] eqn:Ef; cbn [bind] in E; try discriminate.
      injection E as <- _. destruct (flow_process_static _ _ _ _ Ef) as (A & B & D). cbn. rewrite A, B, D. auto.
    + injection E as <- _. cbn. auto.
Qed.

Definition Inv_wf (fo : follower) : Prop := forall k s, zfind k (fo_streams fo) = Some s -> stream_wf s.

Theorem process_packet_wf fo p fo' e : Inv fo -> Inv_wf fo -> pkt_ok p -> process_packet fo p = Ok (fo', e) -> Inv_wf fo'.
Proof.
  intros HI Hw Hp H. pose proof HI as [Hs He].
  destruct (process_packet_cases _ _ _ _ H) as [(Hf & Hc & Hm)|(s & e0 & s' & e1 & e3 & Hfound & Hsp & Hm & ->)].
  - destruct (maybe_cleanup_spec _ _ _ _ _ Hs Hm) as (_ & _ & Hz & _). intros k x Hx. rewrite Hz in Hx.
    destruct (zfind k (fo_streams fo)) as [y|] eqn:Ey; [|discriminate]. destruct (_ && _); [discriminate|]. injection Hx as <-. eapply Hw; eassumption.
  - assert (Hks : key_of (name_of s) = pkey p /\ stream_ok s /\ stream_wf s).
    { destruct Hfound as [[Hf _]|(Hf & _ & -> & _)].
      - destruct (He _ _ Hf) as (Hk & Hok & _). split; [symmetry; exact Hk|]. split; [exact Hok|eapply Hw; exact Hf].
      - destruct (created_facts p) as (A & B & _). split; [assumption|]. split; [assumption|apply created_wf; exact Hp]. }
    destruct Hks as (Hk & Hok & Hwf). fold (mid_map fo p s') in Hm.
    destruct (mid_map_ok fo p s s' e1 HI Hp Hk Hok Hsp) as [Hs1 _].
    destruct (maybe_cleanup_spec _ _ _ _ _ Hs1 Hm) as (_ & _ & Hz & _). intros k x Hx. rewrite Hz in Hx.
    destruct (zfind k (mid_map fo p s')) as [y|] eqn:Ey; [|discriminate]. destruct (_ && _); [discriminate|]. injection Hx as <-.
    unfold mid_map in Ey. destruct (is_finished s' || over_limit fo s').
    + destruct (Z.eq_dec k (pkey p)) as [->|Hne]; [rewrite (zfind_zdel_same (-1)) in Ey by exact Hs; discriminate|].
      rewrite zfind_zdel_other in Ey by exact Hne. eapply Hw; exact Ey.
    + destruct (Z.eq_dec k (pkey p)) as [->|Hne].
      * rewrite zfind_zput_same in Ey. injection Ey as <-. eapply stream_process_wf; eassumption.
      * rewrite zfind_zput_other in Ey by exact Hne. eapply Hw; exact Ey.
Qed.

(* every packet of a tracked connection is handed to one of its two directions, the one its destination names:
   towards the server endpoint -> the client's flow, towards the client endpoint -> the server's flow *)
Theorem routed_by_destination s p : pkt_ok p -> stream_wf s -> key_of (name_of s) = pkey p ->
  (packet_belongs (s_client s) p = true <-> (p_dst p = f_dst (s_client s) /\ p_dport p = f_dport (s_client s))) /\
  (packet_belongs (s_server s) p = true <-> (p_dst p = f_dst (s_server s) /\ p_dport p = f_dport (s_server s))) /\
  (packet_belongs (s_client s) p = true \/ packet_belongs (s_server s) p = true).
Proof.
  intros Hp (W1 & W2 & W3 & W4 & W5) Hk.
  set (q := mkpkt (f_v6 (s_server s)) (f_dst (s_server s)) (f_dst (s_client s)) (f_dport (s_server s)) (f_dport (s_client s)) 0 0 0 None 0).
  assert (Hq : pkt_ok q) by (unfold pkt_ok; cbn; auto).
  assert (Hkq : pkey q = pkey p) by (rewrite <- Hk; reflexivity).
  apply (same_connection q p Hq Hp) in Hkq. destruct Hkq as [Hv Hends]. cbn in Hv, Hends.
  unfold packet_belongs. rewrite W1, <- Hv. rewrite Bool.eqb_reflx. cbn [andb].
  split; [split; intros H; [split; lia|destruct H as [-> ->]; rewrite !Z.eqb_refl; reflexivity]|].
  split; [split; intros H; [split; lia|destruct H as [-> ->]; rewrite !Z.eqb_refl; reflexivity]|].
  destruct Hends as [(A & B & C & D)|(A & B & C & D)]; [left|right]; rewrite <- ?A, <- ?B, <- ?C, <- ?D, !Z.eqb_refl; reflexivity.
Qed.

(* the reassembler of a direction sees exactly the segments routed to it *)
Theorem flow_feeds_tracker f p pl f' evs : p_data p = Some pl -> flow_process f p = Ok (f', evs) ->
  exists d' added, process_payload (f_dt (update_state f p)) (p_seq p) pl = Ok (d', added) /\
    dt_seq (f_dt f') = dt_seq d' /\ dt_buf (f_dt f') = dt_buf d' /\ dt_total (f_dt f') = dt_total d' /\
    (added = true -> In (FData (dt_out d')) evs) /\ (added = false -> forall x, ~ In (FData x) evs).
Proof.
  unfold flow_process. intros Hd H. rewrite Hd in H.
  destruct (process_payload _ _ _) as [[d' added]| | |] eqn:E; cbn [bind] in H; try discriminate.
  exists d', added. split; [reflexivity|]. destruct added; injection H as <- <-; cbn [f_dt dt_seq dt_buf dt_total]; repeat split; auto; try discriminate.
  - intros _. apply in_app_iff. right. left. reflexivity.
  - intros _ x Hin. destruct (_ || _); [destruct Hin as [Hin|[]]; discriminate|contradiction].
Qed.

(* after a call in which the keep-alive sweep was due, no tracked connection has been idle for the keep-alive or longer *)
Theorem sweep_leaves_fresh fo p fo' e : Inv fo -> pkt_ok p -> process_packet fo p = Ok (fo', e) ->
  fo_last_cleanup fo + fo_keep_alive fo <= p_ts p ->
  fo_last_cleanup fo' = p_ts p /\ forall k s, zfind k (fo_streams fo') = Some s -> p_ts p < s_last s + fo_keep_alive fo.
Proof.
  intros HI Hp H Hdue. pose proof HI as [Hs He].
  assert (Hgen : forall m, srt (-1) m -> maybe_cleanup fo m (p_ts p) = (fo', snd (maybe_cleanup fo m (p_ts p))) ->
            fo_last_cleanup fo' = p_ts p /\ forall k s, zfind k (fo_streams fo') = Some s -> p_ts p < s_last s + fo_keep_alive fo).
  { intros m Hsm Hm. destruct (maybe_cleanup_spec _ _ _ _ _ Hsm Hm) as (_ & _ & Hz & _). cbn zeta in Hz. split.
    - unfold maybe_cleanup in Hm. replace (_ <=? p_ts p) with true in Hm by lia. destruct (cleanup m _ _). cbn [snd] in Hm. injection Hm as <-. reflexivity.
    - intros k s Hf. rewrite Hz in Hf. destruct (zfind k m) as [y|]; [|discriminate].
      replace (_ <=? p_ts p) with true in Hf by lia. cbn [andb] in Hf. unfold expired in Hf. cbn [snd] in Hf.
      destruct (s_last y + fo_keep_alive fo <=? p_ts p) eqn:E; [discriminate|]. injection Hf as <-. lia. }
  destruct (process_packet_cases _ _ _ _ H) as [(Hf & Hc & Hm)|(s & e0 & s' & e1 & e3 & Hfound & Hsp & Hm & ->)].
  - apply (Hgen _ Hs). rewrite Hm. reflexivity.
  - assert (Hks : key_of (name_of s) = pkey p /\ stream_ok s).
    { destruct Hfound as [[Hf _]|(Hf & _ & -> & _)].
      - destruct (He _ _ Hf) as (Hk & Hok & _). split; [symmetry; exact Hk|exact Hok].
      - destruct (created_facts p) as (A & B & _). split; assumption. }
    destruct Hks as [Hk Hok]. fold (mid_map fo p s') in Hm.
    destruct (mid_map_ok fo p s s' e1 HI Hp Hk Hok Hsp) as [Hs1 _].
    apply (Hgen _ Hs1). rewrite Hm. reflexivity.
Qed.
