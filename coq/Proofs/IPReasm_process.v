(* IPv4Reassembler::process: outcome for a fragment of a tracked datagram, and independence from other keys. *)
From LT Require Import Base.Prelude Base.CInt Model.IPReasm Proofs.IPReasm_tiling Proofs.IPReasm_stream.
From Coq Require Import ZifyBool.
Local Open Scope Z_scope.

Lemma key_eqb_eq a b : key_eqb a b = true <-> a = b.
Proof.
  destruct a as [[i x] y], b as [[j u] v]. cbn. split.
  - intros H. apply andb_true_iff in H. destruct H as [H H3]. apply andb_true_iff in H. destruct H as [H1 H2].
    f_equal; [f_equal|]; lia.
  - intros H. inversion H; subst. rewrite !Z.eqb_refl. reflexivity.
Qed.

Lemma key_eqb_refl a : key_eqb a a = true.
Proof. apply key_eqb_eq. reflexivity. Qed.

Lemma key_eqb_neq a b : a <> b -> key_eqb a b = false.
Proof. intros H. destruct (key_eqb a b) eqn:E; [apply key_eqb_eq in E; contradiction|reflexivity]. Qed.

Lemma tfind_tdel_same k t : tfind k (tdel k t) = None.
Proof.
  induction t as [|[k' s] r IH]; cbn; [reflexivity|].
  destruct (key_eqb k' k) eqn:E; [assumption|]. cbn. rewrite E. assumption.
Qed.

Lemma tfind_tdel_other k k2 t : k2 <> k -> tfind k2 (tdel k t) = tfind k2 t.
Proof.
  intros Hne. induction t as [|[k' s] r IH]; cbn; [reflexivity|].
  destruct (key_eqb k' k) eqn:E.
  - apply key_eqb_eq in E. subst. rewrite (key_eqb_neq k k2) by congruence. assumption.
  - cbn. rewrite IH. reflexivity.
Qed.

Lemma tfind_tput_same k s t : tfind k (tput k s t) = Some s.
Proof. unfold tput. cbn. rewrite key_eqb_refl. reflexivity. Qed.

Lemma tfind_tput_other k k2 s t : k2 <> k -> tfind k2 (tput k s t) = tfind k2 t.
Proof. intros Hne. unfold tput. cbn. rewrite (key_eqb_neq k k2) by congruence. apply tfind_tdel_other. assumption. Qed.

Section Process.
  Variable upper_ok : Z -> list Z -> bool.

  (* packets of other datagrams (different key) and unfragmented packets do not touch this key's stream *)
  Theorem process_frame t p k : make_key p <> k -> tfind k (fst (process upper_ok t p)) = tfind k t.
  Proof.
    intros Hk. unfold process.
    destruct (p_payload p); [reflexivity|].
    destruct (is_fragmented p); [|reflexivity].
    destruct (is_complete _).
    - destruct (assemble _ _).
      + destruct (upper_ok _ _).
        * destruct (s_first _) as [[? ?]|]; cbn [fst]; rewrite tfind_tdel_other, tfind_tput_other by congruence; reflexivity.
        * cbn [fst]. rewrite tfind_tput_other by congruence. reflexivity.
      + cbn [fst]. rewrite tfind_tdel_other, tfind_tput_other by congruence. reflexivity.
    - cbn [fst]. rewrite tfind_tput_other by congruence. reflexivity.
  Qed.

  Theorem process_unfragmented t p : is_fragmented p = false -> process upper_ok t p = (t, NotFragmented).
  Proof. intros H. unfold process. destruct (p_payload p); [reflexivity|]. rewrite H. reflexivity. Qed.

  Variables (id src dst proto : Z) (df : bool) (ttl tos : Z -> Z).
  Variable ps : parts.
  Hypothesis Htiled : tiled 0 ps.
  Hypothesis Hne : ps <> [].
  Hypothesis Halign : forall x, In x ps -> (fst x) mod 8 = 0.
  Hypothesis Hsize : plen ps <= 65535.
  Hypothesis Hmulti : (2 <= length ps)%nat.        (* the datagram really is fragmented *)

  Let fr := frag id src dst proto df ttl tos ps.
  Let inv := SInv ttl tos ps.
  Let k := make_key (fr (0, [])).

  Lemma key_frag x : make_key (fr x) = k.
  Proof. reflexivity. Qed.

  Lemma frag_is_fragmented x : In x ps -> is_fragmented (fr x) = true.
  Proof.
    intros Hin. unfold is_fragmented, fr, frag. cbn [p_mf p_off].
    destruct (fst x + zlen (snd x) =? plen ps) eqn:E; cbn [negb orb]; [|reflexivity].
    (* the last fragment of a datagram with >= 2 fragments does not start at 0 *)
    destruct ps as [|[o c] r]; [contradiction|]. cbn in Htiled. destruct Htiled as (-> & Hc & Ht).
    destruct r as [|y r']; [cbn in Hmulti; lia|].
    destruct Hin as [<-|Hin].
    - cbn in E. destruct y as [o2 c2]. cbn in Ht. destruct Ht as (_ & Hc2 & _). cbn in E.
      pose proof (plen_nonneg r'). lia.
    - pose proof (tiled_offsets_ge _ _ _ Ht Hin) as Hge. pose proof (Halign x (or_intror Hin)).
      apply negb_true_iff. apply Z.eqb_neq. intros Hz.
      assert (fst x = 0 \/ 8 <= fst x) as [H0|H8].
      { destruct (Z.eq_dec (fst x) 0); [left; assumption|right]. 
        pose proof (Z.div_mod (fst x) 8 ltac:(lia)). lia. }
      + lia.
      + pose proof (Z.div_le_lower_bound (fst x) 8 1 ltac:(lia) ltac:(lia)). lia.
  Qed.

  Lemma frag_payload_nonempty x : In x ps -> p_payload (fr x) <> [].
  Proof.
    intros Hin. pose proof (tiled_nonempty_chunks _ _ _ Htiled Hin) as H. cbn. destruct (snd x); [cbn in H; lia|discriminate].
  Qed.

  (* the main per-datagram step theorem *)
  Theorem process_fragment t s arr x :
    In x ps ->
    (tfind k t = Some s \/ (tfind k t = None /\ s = stream0)) -> inv s arr ->
    let all_arrived := forall y, In y ps -> In y (x :: arr) in
    let t' := fst (process upper_ok t (fr x)) in
    let out := snd (process upper_ok t (fr x)) in
    (all_arrived ->
       (upper_ok proto (concat (map snd ps)) = true ->
          out = Reassembled (ttl 0) (tos 0) (concat (map snd ps)) /\ tfind k t' = None) /\
       (upper_ok proto (concat (map snd ps)) = false -> out = Malformed)) /\
    (~ all_arrived ->
       out = Fragmented /\ exists s', tfind k t' = Some s' /\ inv s' (x :: arr)).
  Proof.
    intros Hin Hfind Hinv all_arrived t' out.
    assert (Hstep : inv (add_fragment s (fr x)) (x :: arr)).
    { apply SInv_step; assumption. }
    assert (Hs : match tfind k t with Some s0 => s0 | None => stream0 end = s).
    { destruct Hfind as [->|[-> ->]]; reflexivity. }
    subst t' out. unfold process.
    pose proof (frag_payload_nonempty x Hin) as Hpl.
    destruct (p_payload (fr x)) eqn:Epl; [contradiction|]. clear Epl Hpl.
    rewrite (frag_is_fragmented x Hin), key_frag, Hs.
    pose proof (complete_iff_all ttl tos ps Htiled Hne Halign Hsize _ _ Hstep) as Hiff.
    split.
    - intros Hall. apply Hiff in Hall.
      destruct (complete_payload ttl tos ps Htiled Hne Halign Hsize _ _ Hstep Hall) as [Ha Hf].
      rewrite Hall, Ha, Hf. cbn [p_proto fr frag].
      split; intros Hu; rewrite Hu; cbn [fst snd]; [split; [reflexivity|apply tfind_tdel_same]|reflexivity].
    - intros Hnot.
      destruct (is_complete (add_fragment s (fr x))) eqn:Ec.
      + exfalso. apply Hnot. unfold all_arrived. apply (proj1 Hiff). reflexivity.
      + cbn [fst snd]. split; [reflexivity|]. eexists. split; [apply tfind_tput_same|assumption].
  Qed.
End Process.
