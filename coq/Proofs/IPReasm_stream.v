(* From the tiling lemma to the reassembler: statuses and reassembled payload for every arrival
   order (with duplicates) of the fragments of one datagram, independent of other keys. *)
From LT Require Import Base.Prelude Base.CInt Model.IPReasm Proofs.IPReasm_tiling.
From Coq Require Import ZifyBool.
Local Open Scope Z_scope.
Ltac Zify.zify_post_hook ::= Z.div_mod_to_equations.

Lemma tiled_has_last qs : forall o, tiled o qs -> qs <> [] ->
  exists x, In x qs /\ fst x + zlen (snd x) = o + plen qs.
Proof.
  induction qs as [|[o' c] r IH]; intros o Ht Hn; [contradiction|].
  cbn in Ht. destruct Ht as (-> & Hc & Ht). destruct r as [|y r'].
  - exists (o, c). split; [left; reflexivity|cbn; lia].
  - destruct (IH _ Ht ltac:(discriminate)) as [x [Hx1 Hx2]]. exists x. split; [right; assumption|].
    cbn [plen] in *. lia.
Qed.

Section Datagram.
  (* one datagram: header fields, a per-fragment ttl/tos (fragments may differ in them), and a
     partition of its payload into non-empty fragments at multiples of 8 *)
  Variables (id src dst proto : Z) (df : bool) (ttl tos : Z -> Z).
  Variable ps : parts.
  Hypothesis Htiled : tiled 0 ps.
  Hypothesis Hne : ps <> [].
  Hypothesis Halign : forall x, In x ps -> (fst x) mod 8 = 0.
  Hypothesis Hsize : plen ps <= 65535.

  Let n := plen ps.

  Definition frag (x : Z * list Z) : ipkt :=
    mkpkt id src dst proto (ttl (fst x)) (tos (fst x)) df
          (negb (fst x + zlen (snd x) =? n)) (fst x / 8) (snd x).

  Lemma tiled_end o qs x : tiled o qs -> In x qs -> fst x + zlen (snd x) <= o + plen qs.
  Proof.
    revert o. induction qs as [|[o' c] r IH]; intros o Ht Hin; cbn in *; [contradiction|].
    destruct Ht as (-> & Hc & Ht). destruct Hin as [<-|Hin].
    - cbn. pose proof (plen_nonneg r). lia.
    - specialize (IH _ Ht Hin). lia.
  Qed.

  Lemma tiled_nonempty_chunks o qs x : tiled o qs -> In x qs -> 0 < zlen (snd x).
  Proof.
    revert o. induction qs as [|[o' c] r IH]; intros o Ht Hin; cbn in *; [contradiction|].
    destruct Ht as (-> & Hc & Ht). destruct Hin as [<-|Hin]; [assumption|eauto].
  Qed.

  (* exactly one fragment ends at n: the last one *)
  Lemma tiled_last_unique o qs x y : tiled o qs -> In x qs -> In y qs ->
    fst x + zlen (snd x) = o + plen qs -> fst y + zlen (snd y) = o + plen qs -> x = y.
  Proof.
    revert o. induction qs as [|[o' c] r IH]; intros o Ht Hx Hy Ex Ey; cbn in *; [contradiction|].
    destruct Ht as (-> & Hc & Ht).
    destruct Hx as [<-|Hx], Hy as [<-|Hy]; cbn in *.
    - reflexivity.
    - pose proof (tiled_offsets_ge _ _ _ Ht Hy). pose proof (tiled_nonempty_chunks _ _ _ Ht Hy). 
      assert (plen r = 0) by lia. destruct r as [|[o2 c2] r2]; [contradiction|]. cbn in *.
      destruct Ht as (_ & Hc2 & _). pose proof (plen_nonneg r2). lia.
    - pose proof (tiled_offsets_ge _ _ _ Ht Hx). pose proof (tiled_nonempty_chunks _ _ _ Ht Hx).
      assert (plen r = 0) by lia. destruct r as [|[o2 c2] r2]; [contradiction|]. cbn in *.
      destruct Ht as (_ & Hc2 & _). pose proof (plen_nonneg r2). lia.
    - eapply IH; try eassumption; lia.
  Qed.

  Lemma extract_offset_frag x : In x ps -> extract_offset (frag x) = fst x.
  Proof.
    intros Hin. unfold extract_offset, frag, w16. cbn [p_off].
    pose proof (Halign _ Hin). pose proof (tiled_offsets_ge _ _ _ Htiled Hin).
    pose proof (tiled_end _ _ _ Htiled Hin). pose proof (zlen_nonneg (snd x)).
    unfold n in *. lia.
  Qed.

  (* invariant of the per-key stream after the fragments [arr] (all from ps) have arrived *)
  Definition SInv (s : stream) (arr : list (Z * list Z)) : Prop :=
    sub (s_frags s) ps /\
    (forall x, In x (s_frags s) <-> In x arr) /\
    s_recv s = plen (s_frags s) /\
    (s_end s = true -> s_total s = n) /\
    (s_end s = true <-> exists x, In x arr /\ fst x + zlen (snd x) = n) /\
    (forall x, In x arr -> fst x = 0 -> s_first s = Some (ttl 0, tos 0)).

  Lemma SInv_init : SInv stream0 [].
  Proof.
    unfold SInv, stream0. cbn. repeat split; try tauto; try discriminate.
    - apply sub_nil_l.
    - intros [x [[] _]].
  Qed.

  Lemma SInv_step s arr x : SInv s arr -> In x ps -> SInv (add_fragment s (frag x)) (x :: arr).
  Proof.
    intros (H1 & H2 & H3 & H4 & H5 & H6) Hin. unfold add_fragment.
    rewrite extract_offset_frag by assumption. cbn [p_payload frag p_mf p_ttl p_tos].
    destruct x as [off pl]. cbn [fst snd] in *.
    pose proof (frag_insert_sub ps 0 (s_frags s) off pl Htiled H1 Hin) as Hfi.
    destruct (frag_insert off pl (s_frags s)) as [fs'|].
    - destruct Hfi as (F1 & F2 & F3 & F4). unfold SInv. cbn [s_frags s_recv s_total s_end s_first].
      repeat split.
      + assumption.
      + intros Hx. apply F4 in Hx. destruct Hx as [->|Hx]; [left; reflexivity|right; apply H2; assumption].
      + intros [<-|Hx]; apply F4; [left; reflexivity|right; apply H2; assumption].
      + lia.
      + destruct (off + zlen pl =? n) eqn:E; cbn [negb]; [intros _; lia|assumption].
      + destruct (off + zlen pl =? n) eqn:E; cbn [negb].
        * intros _. exists (off, pl). split; [left; reflexivity|cbn; lia].
        * intros He. apply H5 in He. destruct He as [y [Hy1 Hy2]]. exists y. split; [right|]; assumption.
      + destruct (off + zlen pl =? n) eqn:E; cbn [negb]; [reflexivity|].
        intros [y [[<-|Hy1] Hy2]]; [cbn in Hy2; lia|]. apply H5. exists y. split; assumption.
      + intros y [<-|Hy] Hy0; cbn [fst] in *.
        * subst. rewrite Z.eqb_refl. reflexivity.
        * destruct (off =? 0) eqn:E0; [assert (off = 0) by lia; subst; reflexivity|]. apply (H6 y); assumption.
    - (* duplicate: ignored *)
      unfold SInv. repeat split; try assumption.
      + intros Hx. right. apply H2. assumption.
      + intros [<-|Hx]; [assumption|apply H2; assumption].
      + intros He. apply H5 in He. destruct He as [y [Hy1 Hy2]]. exists y. split; [right|]; assumption.
      + intros [y [[<-|Hy1] Hy2]].
        * apply H5. exists (off, pl). split; [apply H2; assumption|assumption].
        * apply H5. exists y. split; assumption.
      + intros y [<-|Hy] Hy0; [|apply (H6 y); assumption].
        apply (H6 (off, pl)); [apply H2; assumption|assumption].
  Qed.

  Lemma first_in_ps : exists c, In (0, c) ps.
  Proof. destruct ps as [|[o c] r]; [contradiction|]. cbn in Htiled. destruct Htiled as (-> & _). exists c. left. reflexivity. Qed.

  Lemma sub_all fs qs : sub fs qs -> forall o, tiled o qs -> (forall x, In x qs -> In x fs) -> fs = qs.
  Proof.
    induction 1 as [|[o' c] fs qs H IH|[o' c] fs qs H IH]; intros o Ht Hall; [reflexivity| |].
    - exfalso. cbn in Ht. destruct Ht as (-> & Hc & Ht).
      pose proof (Hall (o, c) (or_introl eq_refl)) as Hin.
      pose proof (tiled_offsets_ge _ _ _ Ht (sub_in _ _ _ H Hin)) as Hge. cbn in Hge. lia.
    - cbn in Ht. destruct Ht as (-> & Hc & Ht). f_equal. apply (IH _ Ht).
      intros y Hy. destruct (Hall y (or_intror Hy)) as [<-|Hy']; [|assumption].
      pose proof (tiled_offsets_ge _ _ _ Ht Hy) as Hge. cbn in Hge. lia.
  Qed.

  (* completeness test <-> every fragment has arrived *)
  Theorem complete_iff_all s arr : SInv s arr ->
    (is_complete s = true <-> forall x, In x ps -> In x arr).
  Proof.
    intros (H1 & H2 & H3 & H4 & H5 & H6). unfold is_complete. split.
    - destruct (s_end s) eqn:Ee; cbn [negb orb]; [|discriminate].
      destruct (s_recv s =? s_total s) eqn:Er; cbn [negb]; [|discriminate].
      intros _ x Hx. rewrite H4 in Er by reflexivity.
      assert (s_frags s = ps) by (eapply sub_full; [eassumption|exact Htiled|unfold n in *; lia]).
      apply H2. congruence.
    - intros Hall.
      assert (Hfs : s_frags s = ps).
      { eapply sub_all; [eassumption|exact Htiled|]. intros x Hx. apply H2, Hall, Hx. }
      assert (He : s_end s = true).
      { apply H5. destruct (tiled_has_last ps 0 Htiled Hne) as [x [Hx1 Hx2]].
        exists x. split; [apply Hall; assumption|unfold n; lia]. }
      rewrite He. cbn [negb orb]. rewrite H3, Hfs, (H4 He). unfold n. rewrite Z.eqb_refl. cbn [negb].
      destruct ps as [|[o c] r]; [contradiction|]. cbn in Htiled. destruct Htiled as (-> & _). reflexivity.
  Qed.

  Theorem complete_payload s arr : SInv s arr -> is_complete s = true ->
    assemble 0 (s_frags s) = Some (concat (map snd ps)) /\ s_first s = Some (ttl 0, tos 0).
  Proof.
    intros Hinv Hc. pose proof (proj1 (complete_iff_all s arr Hinv) Hc) as Hall.
    destruct Hinv as (H1 & H2 & H3 & H4 & H5 & H6).
    assert (Hfs : s_frags s = ps).
    { eapply sub_all; [eassumption|exact Htiled|]. intros x Hx. apply H2, Hall, Hx. }
    split; [rewrite Hfs; apply assemble_tiled; exact Htiled|].
    destruct first_in_ps as [c Hc0]. apply (H6 (0, c)); [apply Hall; assumption|reflexivity].
  Qed.
End Datagram.
