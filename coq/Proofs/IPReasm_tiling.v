(* IPv4 reassembly: a stream that the byte-count test declares complete holds ALL fragments of the
   datagram (tiling lemma), for every partition into non-empty fragments and every arrival order
   with duplicates; the bytes handed to the upper layer are then exactly the original payload. *)
From LT Require Import Base.Prelude Base.CInt Model.IPReasm.
From Coq Require Import ZifyBool.
Local Open Scope Z_scope.

Definition parts := list (Z * list Z).

Fixpoint plen (fs : parts) : Z := match fs with [] => 0 | (_, c) :: r => zlen c + plen r end.

(* fragments tile [o, o + plen) without gaps, each non-empty *)
Fixpoint tiled (o : Z) (ps : parts) : Prop :=
  match ps with
  | [] => True
  | (o', c) :: r => o' = o /\ 0 < zlen c /\ tiled (o + zlen c) r
  end.

Inductive sub : parts -> parts -> Prop :=
| sub_nil : sub [] []
| sub_skip x fs ps : sub fs ps -> sub fs (x :: ps)
| sub_take x fs ps : sub fs ps -> sub (x :: fs) (x :: ps).

Lemma plen_nonneg fs : 0 <= plen fs.
Proof. induction fs as [|[o c] r IH]; cbn; [lia|]. pose proof (zlen_nonneg c). lia. Qed.

Lemma sub_plen_le fs ps : sub fs ps -> forall o, tiled o ps -> plen fs <= plen ps.
Proof.
  induction 1 as [|[o' c] fs ps H IH|[o' c] fs ps H IH]; intros o Ht; cbn in *; [lia| |].
  - destruct Ht as (_ & Hc & Ht). specialize (IH _ Ht). lia.
  - destruct Ht as (_ & Hc & Ht). specialize (IH _ Ht). lia.
Qed.

(* the tiling lemma: equal byte counts force equality *)
Lemma sub_full fs ps : sub fs ps -> forall o, tiled o ps -> plen fs = plen ps -> fs = ps.
Proof.
  induction 1 as [|[o' c] fs ps H IH|[o' c] fs ps H IH]; intros o Ht Hl; cbn in *; [reflexivity| |].
  - destruct Ht as (_ & Hc & Ht). pose proof (sub_plen_le _ _ H _ Ht). lia.
  - destruct Ht as (_ & Hc & Ht). f_equal. eapply IH; [exact Ht|lia].
Qed.

Lemma tiled_offsets_ge o ps x : tiled o ps -> In x ps -> o <= fst x.
Proof.
  revert o. induction ps as [|[o' c] r IH]; intros o Ht Hin; cbn in *; [contradiction|].
  destruct Ht as (-> & Hc & Ht). destruct Hin as [<-|Hin]; [cbn; lia|]. specialize (IH _ Ht Hin). lia.
Qed.

Lemma sub_in fs ps x : sub fs ps -> In x fs -> In x ps.
Proof. induction 1; cbn; intuition. Qed.

Lemma sub_refl ps : sub ps ps.
Proof. induction ps; constructor; assumption. Qed.

Lemma sub_nil_l ps : sub [] ps.
Proof. induction ps; constructor; assumption. Qed.

(* inserting a fragment of the partition into a sub-family of the partition *)
Lemma frag_insert_sub ps : forall o fs off pl, tiled o ps -> sub fs ps -> In (off, pl) ps ->
  match frag_insert off pl fs with
  | Some fs' => sub fs' ps /\ plen fs' = plen fs + zlen pl /\ ~ In (off, pl) fs /\
                (forall x, In x fs' <-> x = (off, pl) \/ In x fs)
  | None => In (off, pl) fs
  end.
Proof.
  induction ps as [|[o' c] r IH]; intros o fs off pl Ht Hs Hin; [contradiction|].
  destruct Ht as (-> & Hc & Ht).
  inversion Hs as [|x fs0 ps0 Hs'|x fs0 ps0 Hs']; subst.
  - (* head of the partition not yet in fs *)
    destruct Hin as [Heq|Hin].
    + inversion Heq; subst. 
      assert (Hlow : forall y, In y fs -> off + zlen pl <= fst y).
      { intros y Hy. apply (tiled_offsets_ge _ r); [assumption|]. eapply sub_in; eassumption. }
      destruct fs as [|[o2 q] fs2]; cbn [frag_insert].
      * repeat split; [constructor; assumption|cbn; lia|intros []|intros [?|[]]; auto|intros [?|[]]; left; auto].
      * pose proof (Hlow (o2, q) (or_introl eq_refl)) as H2. cbn in H2.
        destruct (o2 <? off) eqn:E1; [lia|]. destruct (o2 =? off) eqn:E2; [lia|].
        repeat split; [constructor; assumption|cbn; lia| |cbn; intuition|cbn; intuition].
        intros Hbad. specialize (Hlow _ Hbad). cbn in Hlow. lia.
    + specialize (IH _ fs off pl Ht Hs' Hin).
      destruct (frag_insert off pl fs) as [fs'|]; [|assumption].
      destruct IH as (H1 & H2 & H3 & H4). repeat split; try assumption; [constructor; assumption|apply H4|apply H4].
  - (* head of the partition already in fs *)
    cbn [frag_insert].
    destruct Hin as [Heq|Hin].
    + inversion Heq; subst. rewrite Z.ltb_irrefl, Z.eqb_refl. left. reflexivity.
    + pose proof (tiled_offsets_ge _ _ _ Ht Hin) as Hge. cbn in Hge.
      destruct (o <? off) eqn:E1; [|lia].
      specialize (IH _ fs0 off pl Ht Hs' Hin).
      destruct (frag_insert off pl fs0) as [fs'|]; [|right; assumption].
      destruct IH as (H1 & H2 & H3 & H4). repeat split.
      * apply sub_take. assumption.
      * cbn. lia.
      * intros [Hbad|Hbad]; [inversion Hbad; lia|contradiction].
      * intros [?|Hx]; [right; left; assumption|]. apply H4 in Hx. destruct Hx; [left|right; right]; assumption.
      * intros [?|[?|?]]; [right; apply H4; left; assumption|left; assumption|right; apply H4; right; assumption].
Qed.

Lemma assemble_tiled ps : forall o, tiled o ps -> assemble o ps = Some (concat (map snd ps)).
Proof.
  induction ps as [|[o' c] r IH]; intros o Ht; cbn in *; [reflexivity|].
  destruct Ht as (-> & Hc & Ht). rewrite Z.eqb_refl, (IH _ Ht). reflexivity.
Qed.
