(* Canonical interval sets (model of boost::icl::interval_set<uint32_t> as used by AckTracker):
   insertion, erasure and containment characterised by membership, canonical form preserved. *)
From LT Require Import Base.Prelude Base.CInt Gen.Kernels Model.AckTracker.
From Coq Require Import ZifyBool.
Local Open Scope Z_scope.

Fixpoint imem (x : Z) (s : iset) : Prop :=
  match s with
  | [] => False
  | (l, h) :: r => l <= x <= h \/ imem x r
  end.

(* sorted, disjoint, NON-ADJACENT, non-empty intervals, all above lo *)
Fixpoint canon (lo : Z) (s : iset) : Prop :=
  match s with
  | [] => True
  | (l, h) :: r => lo < l /\ l <= h /\ canon (h + 1) r
  end.

Lemma canon_weaken lo lo' s : lo' <= lo -> canon lo s -> canon lo' s.
Proof. destruct s as [|[l h] r]; cbn; [trivial|]. intuition lia. Qed.

Lemma canon_above lo s x : canon lo s -> imem x s -> lo < x.
Proof.
  revert lo. induction s as [|[l h] r IH]; cbn; intros lo Hc Hm; [contradiction|].
  destruct Hc as (H1 & H2 & H3). destruct Hm as [Hm|Hm]; [lia|]. specialize (IH _ H3 Hm). lia.
Qed.

Lemma insert_canon s : forall lo a b, canon lo s -> lo < a -> a <= b -> canon lo (iset_insert a b s).
Proof.
  induction s as [|[l h] r IH]; intros lo a b Hc Ha Hab; cbn [iset_insert].
  - cbn. auto.
  - destruct Hc as (H1 & H2 & H3).
    destruct (h + 1 <? a) eqn:E1.
    + cbn. repeat split; try assumption. apply IH; [assumption|lia|assumption].
    + destruct (b + 1 <? l) eqn:E2.
      * cbn. repeat split; try lia. assumption.
      * apply IH; [|lia|lia]. eapply canon_weaken; [|exact H3]. lia.
Qed.

Lemma insert_mem s : forall lo a b x, canon lo s -> a <= b ->
  (imem x (iset_insert a b s) <-> (a <= x <= b \/ imem x s)).
Proof.
  induction s as [|[l h] r IH]; intros lo a b x Hc Hab; cbn [iset_insert].
  - cbn. tauto.
  - destruct Hc as (H1 & H2 & H3).
    destruct (h + 1 <? a) eqn:E1.
    + cbn [imem]. rewrite (IH (h + 1)) by assumption. tauto.
    + destruct (b + 1 <? l) eqn:E2.
      * cbn [imem]. tauto.
      * rewrite (IH (h + 1)) by (assumption || lia). cbn [imem]. split.
        -- intros [Hx|Hx]; [|tauto]. destruct (Z_le_gt_dec a x), (Z_le_gt_dec x b); try lia; left; lia || (right; left; lia).
        -- intros [Hx|[Hx|Hx]]; [left; lia|left; lia|tauto].
Qed.

Lemma erase_canon s : forall lo a b, canon lo s -> a <= b -> canon lo (iset_erase a b s).
Proof.
  induction s as [|[l h] r IH]; intros lo a b Hc Hab; cbn [iset_erase]; [exact I|].
  destruct Hc as (H1 & H2 & H3).
  destruct (h <? a) eqn:E1.
  - cbn. repeat split; try assumption. apply IH; assumption.
  - destruct (b <? l) eqn:E2; [cbn; auto|].
    destruct (l <? a) eqn:E3; destruct (b <? h) eqn:E4; cbn [app].
    + cbn. repeat split; try lia. assumption.
    + cbn. repeat split; try lia. apply IH; [|assumption]. eapply canon_weaken; [|exact H3]. lia.
    + cbn. repeat split; try lia. assumption.
    + eapply canon_weaken; [|apply IH; [exact H3|assumption]]. lia.
Qed.

Lemma erase_mem s : forall lo a b x, canon lo s -> a <= b ->
  (imem x (iset_erase a b s) <-> (imem x s /\ ~ a <= x <= b)).
Proof.
  induction s as [|[l h] r IH]; intros lo a b x Hc Hab; cbn [iset_erase]; [cbn; tauto|].
  destruct Hc as (H1 & H2 & H3).
  assert (Hr : imem x r -> h + 1 < x) by (apply canon_above; assumption).
  destruct (h <? a) eqn:E1.
  - cbn [imem]. rewrite (IH (h + 1)) by assumption. split; [intros [?|[? ?]]; split; auto; lia|tauto].
  - destruct (b <? l) eqn:E2.
    + cbn [imem]. split; [intros [?|?]; split; auto; [lia|specialize (Hr H); lia]|tauto].
    + destruct (l <? a) eqn:E3; destruct (b <? h) eqn:E4; cbn [app imem].
      * split; [intros [?|[?|?]]; split; auto; try lia; specialize (Hr H); lia|].
        intros [[?|?] ?]; [|tauto]. destruct (Z_lt_le_dec x a); [left; lia|right; left; lia].
      * rewrite (IH (h + 1)) by assumption.
        split; [intros [?|[? ?]]; split; auto; lia|].
        intros [[?|?] ?]; [left; lia|tauto].
      * split; [intros [?|?]; split; auto; try lia; specialize (Hr H); lia|].
        intros [[?|?] ?]; [left; lia|tauto].
      * rewrite (IH (h + 1)) by assumption.
        split; [intros [? ?]; split; auto|]. intros [[?|?] ?]; [lia|tauto].
Qed.

Lemma contains_sound s : forall a b x, iset_contains a b s = true -> a <= x <= b -> imem x s.
Proof.
  induction s as [|[l h] r IH]; intros a b x Hc Hx; cbn in *; [discriminate|].
  apply orb_true_iff in Hc. destruct Hc as [Hc|Hc]; [left; lia|right; eauto].
Qed.

Lemma contains_complete s : forall lo a b, canon lo s -> a <= b ->
  (forall x, a <= x <= b -> imem x s) -> iset_contains a b s = true.
Proof.
  induction s as [|[l h] r IH]; intros lo a b Hc Hab Hall; cbn [iset_contains].
  - exfalso. apply (Hall a). lia.
  - destruct Hc as (H1 & H2 & H3). apply orb_true_iff.
    assert (Hr : forall y, imem y r -> h + 1 < y) by (intros y; apply canon_above; assumption).
    destruct (Z_lt_le_dec h a) as [Hlt|Hge].
    + (* the whole of [a,b] lies right of (l,h) *)
      right. apply (IH (h + 1)); [assumption|assumption|].
      intros x Hx. destruct (Hall x Hx) as [?|?]; [lia|assumption].
    + left. assert (Hla : l <= a).
      { destruct (Hall a ltac:(lia)) as [?|Hm]; [lia|]. specialize (Hr _ Hm). lia. }
      assert (Hbh : b <= h).
      { destruct (Z_le_gt_dec b h); [assumption|]. exfalso.
        destruct (Hall (h + 1) ltac:(lia)) as [?|Hm]; [lia|]. specialize (Hr _ Hm). lia. }
      lia.
Qed.

Theorem contains_spec s lo a b : canon lo s -> a <= b ->
  (iset_contains a b s = true <-> forall x, a <= x <= b -> imem x s).
Proof.
  intros Hc Hab. split; [intros H x; apply contains_sound; assumption|apply (contains_complete s lo); assumption].
Qed.
