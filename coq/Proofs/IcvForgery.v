(* The recorded C09 finding as a theorem about the model: a stream cipher with a CRC-32 ICV (WEP; TKIP as libtins checks it,
   i.e. without Michael) accepts a ciphertext modified WITHOUT the key -- flip any payload bits d and xor le32 (crc_delta d)
   into the encrypted ICV -- and reports the flipped plaintext as decrypted. *)
From LT Require Import Base.Prelude Base.CInt Model.Checksum Model.AES Model.Wifi Proofs.Wifi Proofs.Crc.
Local Open Scope Z_scope.

Lemma xorl3 ks : forall p q, xorl ks (xorl p q) = xorl (xorl ks p) q.
Proof.
  unfold xorl. induction ks as [|k ks IH]; intros p q; [reflexivity|].
  destruct p as [|x p]; [reflexivity|]. destruct q as [|y q]; [reflexivity|].
  cbn [combine map fst snd]. rewrite IH. f_equal. symmetry. apply Z.lxor_assoc.
Qed.

Lemma xorl_app m : forall d c e, length m = length d -> xorl (m ++ c) (d ++ e) = xorl m d ++ xorl c e.
Proof.
  unfold xorl. induction m as [|x m IH]; intros [|y d] c e Hl; try discriminate Hl; [reflexivity|].
  cbn [app combine map fst snd]. rewrite IH by (injection Hl as Hl; exact Hl). reflexivity.
Qed.

Lemma land255_lxor a b : Z.land (Z.lxor a b) 255 = Z.lxor (Z.land a 255) (Z.land b 255).
Proof.
  apply Z.bits_inj'. intros k _. rewrite ?Z.land_spec, ?Z.lxor_spec, ?Z.land_spec.
  destruct (Z.testbit a k), (Z.testbit b k), (Z.testbit 255 k); reflexivity.
Qed.

Lemma le32_lxor a b : le32 (Z.lxor a b) = xorl (le32 a) (le32 b).
Proof. unfold le32, xorl. cbn [combine map fst snd]. rewrite !Z.shiftr_lxor, !land255_lxor. reflexivity. Qed.

Theorem icv_forgery ks m d : Forall (fun x => 0 <= x < 256) m -> Forall (fun x => 0 <= x < 256) d -> length m = length d ->
  xorl ks (xorl m d ++ le32 (crc32 (xorl m d))) = xorl (xorl ks (m ++ le32 (crc32 m))) (d ++ le32 (crc_delta d)).
Proof.
  intros Hm Hd Hl. pose proof (crc32_malleable m d Hm Hd Hl) as Hc. change (xor_bytes m d) with (xorl m d) in Hc.
  rewrite Hc, le32_lxor, <- xorl_app by exact Hl. apply xorl3.
Qed.

Theorem wep_bitflip_accepted pw i0 i1 i2 kid m d : m <> [] ->
  Forall (fun x => 0 <= x < 256) m -> Forall (fun x => 0 <= x < 256) d -> length m = length d ->
  let E := wep_encrypt pw i0 i1 i2 kid m in
  wep_decrypt (firstn 4 E ++ xorl (skipn 4 E) (d ++ le32 (crc_delta d))) pw = Ok (Some (xorl m d)).
Proof.
  intros Hne Hm Hd Hl E. subst E. unfold wep_encrypt. cbn [firstn skipn app].
  rewrite <- icv_forgery by assumption.
  assert (Hlen : length (m ++ le32 (crc32 m)) = length (xorl m d ++ le32 (crc32 (xorl m d)))).
  { rewrite !app_length, xorl_length, <- Hl, Nat.min_id. reflexivity. }
  rewrite Hlen. apply (wep_roundtrip pw i0 i1 i2 kid (xorl m d)).
  destruct m as [|x m]; [contradiction|]. destruct d as [|y d]; [discriminate Hl|]. discriminate.
Qed.

(* TKIP as libtins checks it (ICV only, Michael never verified): the same forgery, over MSDU and Michael field *)
Theorem tkip_bitflip_accepted ta tk b0 b1 b2 b3 b4 b5 b6 b7 m mic d dm key : m <> [] -> length mic = 8%nat ->
  Forall (fun x => 0 <= x < 256) (m ++ mic) -> Forall (fun x => 0 <= x < 256) (d ++ dm) ->
  length m = length d -> length dm = 8%nat ->
  tkip_key ta tk [b0; b1; b2; b3; b4; b5; b6; b7] = Ok key ->
  let pt := m ++ mic ++ le32 (crc32 (m ++ mic)) in
  let ct := xorl (keystream (length pt) (ksa key) 0 0) pt in
  tkip_decrypt ta tk ([b0; b1; b2; b3; b4; b5; b6; b7] ++ xorl ct ((d ++ dm) ++ le32 (crc_delta (d ++ dm)))) = Ok (Some (xorl m d)).
Proof.
  intros Hne Hmic Hb Hbd Hl Hdm Hk pt ct. subst ct pt.
  assert (Hl2 : length (m ++ mic) = length (d ++ dm)) by (rewrite !app_length; lia).
  rewrite (app_assoc m mic). rewrite <- icv_forgery by assumption.
  rewrite (xorl_app m d mic dm Hl).
  assert (Hlen : length ((m ++ mic) ++ le32 (crc32 (m ++ mic))) =
                 length ((xorl m d ++ xorl mic dm) ++ le32 (crc32 (xorl m d ++ xorl mic dm)))).
  { rewrite !app_length, !xorl_length, <- Hl, Hmic, Hdm, !Nat.min_id. reflexivity. }
  rewrite Hlen, <- (app_assoc (xorl m d)).
  apply (tkip_roundtrip ta tk b0 b1 b2 b3 b4 b5 b6 b7 (xorl m d) (xorl mic dm) key).
  - destruct m as [|x m]; [contradiction|]. destruct d as [|y d]; [discriminate Hl|]. discriminate.
  - rewrite xorl_length, Hmic, Hdm. reflexivity.
  - exact Hk.
Qed.
