(* The legacy follower (TCPStream::generic_process, Model/LegacyStream.v) against the DataTracker model: on the segments of ONE
   stream -- any initial sequence number, any order, duplicates, overlaps -- both are in the same state (delivery point, map
   of fragments, delivered bytes) after every call.  The two differ on a tie (equal start, equal length: the legacy code keeps
   the newcomer, DataTracker the stored one), in the comparison function they call (proved equal in Seq32.v) and in the byte
   counter only DataTracker keeps; on a tie both chunks are the same slice of the stream, hence equal.
   The delivered-prefix theorem of DataTracker_wrap.v therefore holds verbatim for the legacy follower. *)
From LT Require Import Base.Prelude Base.CInt Gen.Kernels Model.DataTracker Model.LegacyStream
  Proofs.ZMapFacts Proofs.Seq32 Proofs.DataTracker_acc Proofs.DataTracker_fuel Proofs.DataTracker_prefix Proofs.DataTracker_wrap.
From Coq Require Import ZifyBool.
Local Open Scope Z_scope.
Ltac Zify.zify_post_hook ::= Z.div_mod_to_equations.

(* same delivery point, same fragments, same delivered bytes *)
Definition R (a b : dt) : Prop := dt_seq a = dt_seq b /\ dt_buf a = dt_buf b /\ dt_out a = dt_out b.

Lemma Forall_zdel {V} (P : Z * V -> Prop) k (m : zmap V) : Forall P m -> Forall P (zdel k m).
Proof.
  induction m as [|[k' v'] r IH]; cbn; intros H; [constructor|]. inversion H; subst.
  destruct (k' =? k); [assumption|constructor; auto].
Qed.

Section Legacy.
  Variable s : list Z.
  Variable isn : Z.
  Hypothesis Hhalf : zlen s < 2147483648.

  Definition pos (k : Z) : Z := w32 (k - isn).
  Definition cok (kv : Z * list Z) : Prop := 0 <= fst kv < 4294967296 /\ at_off s (pos (fst kv)) (snd kv).
  Definition WInv (st : dt) : Prop :=
    srt (-1) (dt_buf st) /\ Forall cok (dt_buf st) /\ 0 <= dt_seq st < 4294967296.

  Definition Rres (x y : res (dt * bool)) : Prop :=
    match x, y with
    | Ok (a, ba), Ok (b, bb) => R a b /\ ba = bb /\ WInv b
    | Throw e, Throw e' => e = e'
    | OOB n, OOB n' => n = n'
    | OutOfFuel, OutOfFuel => True
    | _, _ => False
    end.

  Lemma at_off_unique o a b : at_off s o a -> at_off s o b -> zlen a = zlen b -> a = b.
  Proof.
    intros (x & y & Hs & Hx) (x' & y' & Hs' & Hx') Hl. rewrite Hs in Hs'.
    destruct (app_inj_len x x' (a ++ y) (b ++ y') Hs') as [_ H2]; [unfold zlen in *; lia|].
    destruct (app_inj_len a b y y' H2) as [H3 _]; [unfold zlen in *; lia|]. exact H3.
  Qed.

  Lemma at_off_nil o : 0 <= o <= zlen s -> at_off s o [].
  Proof.
    intros Ho. exists (firstn (Z.to_nat o) s), (skipn (Z.to_nat o) s). split; [cbn [app]; symmetry; apply firstn_skipn|].
    unfold zlen in *. rewrite firstn_length. lia.
  Qed.

  Lemma cok_In m k v : Forall cok m -> In (k, v) m -> 0 <= k < 4294967296 /\ at_off s (pos k) v.
  Proof. intros H Hin. rewrite Forall_forall in H. exact (H _ Hin). Qed.

  (* lookups in the maps the two store rules produce *)
  Lemma zfind_store_d st q v x :
    zfind x (dt_buf (store_payload st q v)) =
    if x =? q then match zfind q (dt_buf st) with
                   | Some old => if zlen old <? zlen v then Some v else Some old
                   | None => Some v
                   end
    else zfind x (dt_buf st).
  Proof.
    unfold store_payload. destruct (x =? q) eqn:E.
    - assert (x = q) by lia. subst x. destruct (zfind q (dt_buf st)) as [old|] eqn:Ef.
      + destruct (zlen old <? zlen v); cbn [dt_buf]; [apply zfind_zput_same|assumption].
      + cbn [dt_buf]. apply zfind_zput_same.
    - destruct (zfind q (dt_buf st)) as [old|]; [destruct (zlen old <? zlen v)|]; cbn [dt_buf];
        try reflexivity; apply zfind_zput_other; lia.
  Qed.

  Lemma zfind_store_l st q v x :
    zfind x (dt_buf (store_l st q v)) =
    if x =? q then match zfind q (dt_buf st) with
                   | Some old => if zlen v <? zlen old then Some old else Some v
                   | None => Some v
                   end
    else zfind x (dt_buf st).
  Proof.
    unfold store_l. destruct (x =? q) eqn:E.
    - assert (x = q) by lia. subst x. destruct (zfind q (dt_buf st)) as [old|] eqn:Ef.
      + destruct (zlen v <? zlen old); cbn [dt_buf]; [assumption|apply zfind_zput_same].
      + cbn [dt_buf]. apply zfind_zput_same.
    - destruct (zfind q (dt_buf st)) as [old|]; [destruct (zlen v <? zlen old)|]; cbn [dt_buf];
        try reflexivity; apply zfind_zput_other; lia.
  Qed.

  Lemma srt_store_d st q v : srt (-1) (dt_buf st) -> 0 <= q -> srt (-1) (dt_buf (store_payload st q v)).
  Proof.
    intros Hs Hq. unfold store_payload. destruct (zfind q (dt_buf st)) as [old|]; [destruct (zlen old <? zlen v)|]; cbn [dt_buf];
      try assumption; apply srt_zput; assumption || lia.
  Qed.

  Lemma srt_store_l st q v : srt (-1) (dt_buf st) -> 0 <= q -> srt (-1) (dt_buf (store_l st q v)).
  Proof.
    intros Hs Hq. unfold store_l. destruct (zfind q (dt_buf st)) as [old|]; [destruct (zlen v <? zlen old)|]; cbn [dt_buf];
      try assumption; apply srt_zput; assumption || lia.
  Qed.

  Lemma cok_store_d st q v : Forall cok (dt_buf st) -> cok (q, v) -> Forall cok (dt_buf (store_payload st q v)).
  Proof.
    intros Hc Hv. unfold store_payload. destruct (zfind q (dt_buf st)) as [old|]; [destruct (zlen old <? zlen v)|]; cbn [dt_buf];
      try assumption; apply Forall_zput; assumption.
  Qed.

  Lemma store_seq_out_d st q v : dt_seq (store_payload st q v) = dt_seq st /\ dt_out (store_payload st q v) = dt_out st.
  Proof. unfold store_payload. destruct (zfind q (dt_buf st)); [destruct (_ <? _)|]; split; reflexivity. Qed.

  Lemma store_seq_out_l st q v : dt_seq (store_l st q v) = dt_seq st /\ dt_out (store_l st q v) = dt_out st.
  Proof. unfold store_l. destruct (zfind q (dt_buf st)); [destruct (_ <? _)|]; split; reflexivity. Qed.

  (* a tie is a tie between equal chunks *)
  Lemma tie_equal m q v old : srt (-1) m -> Forall cok m -> at_off s (pos q) v -> zfind q m = Some old ->
    (zlen old <? zlen v) = false -> (zlen v <? zlen old) = false -> old = v.
  Proof.
    intros Hs Hc Hv Hf H1 H2. destruct (cok_In m q old Hc (zfind_In _ _ _ Hf)) as [_ Ho].
    apply (at_off_unique (pos q)); [assumption|assumption|lia].
  Qed.

  (* storing in the same map *)
  Lemma store_equiv st_l st_d q v : R st_l st_d -> srt (-1) (dt_buf st_d) -> Forall cok (dt_buf st_d) -> 0 <= q -> at_off s (pos q) v ->
    R (store_l st_l q v) (store_payload st_d q v).
  Proof.
    intros (Hq1 & Hq2 & Hq3) Hs Hc Hq Hv.
    destruct (store_seq_out_d st_d q v) as [A1 A2]. destruct (store_seq_out_l st_l q v) as [B1 B2].
    split; [congruence|]. split; [|congruence].
    apply (srt_ext _ _ (-1)).
    - apply srt_store_l; [rewrite Hq2; assumption|assumption].
    - apply srt_store_d; assumption.
    - intros x. rewrite zfind_store_l, zfind_store_d, Hq2.
      destruct (x =? q); [|reflexivity].
      destruct (zfind q (dt_buf st_d)) as [old|] eqn:Ef; [|reflexivity].
      destruct (zlen old <? zlen v) eqn:E1; destruct (zlen v <? zlen old) eqn:E2; try reflexivity; try lia.
      f_equal. symmetry. eapply tie_equal; eassumption.
  Qed.

  (* the slice branch of the loop: DataTracker stores behind the emptied chunk and erases it, the legacy code stores and erases *)
  Lemma slice_equiv sq m t t' o k v :
    srt (-1) m -> Forall cok m -> k <> sq -> 0 <= k -> 0 <= sq -> at_off s (pos sq) v ->
    zdel k (dt_buf (store_l (mkdt sq m t' o) sq v)) =
    zdel k (dt_buf (store_payload (mkdt sq (zput k [] m) t o) sq v)).
  Proof.
    intros Hs Hc Hne Hk Hsq Hv.
    apply (srt_ext _ _ (-1)).
    - apply srt_zdel, srt_store_l; cbn [dt_buf]; assumption.
    - apply srt_zdel, srt_store_d; cbn [dt_buf]; [apply srt_zput; [assumption|lia]|assumption].
    - intros x. destruct (Z.eq_dec x k) as [->|Hx].
      + rewrite !(zfind_zdel_same (-1)); [reflexivity| |].
        * apply srt_store_d; cbn [dt_buf]; [apply srt_zput; [assumption|lia]|assumption].
        * apply srt_store_l; cbn [dt_buf]; assumption.
      + rewrite !zfind_zdel_other by assumption. rewrite zfind_store_l, zfind_store_d. cbn [dt_buf].
        rewrite (zfind_zput_other m k sq []) by lia.
        destruct (x =? sq) eqn:E; [|rewrite zfind_zput_other by assumption; reflexivity].
        destruct (zfind sq m) as [old|] eqn:Ef; [|reflexivity].
        destruct (zlen old <? zlen v) eqn:E1; destruct (zlen v <? zlen old) eqn:E2; try reflexivity; try lia.
        f_equal. symmetry. eapply tie_equal; eassumption.
  Qed.

  Lemma pos_add k d : 0 <= d -> pos k + d < 4294967296 -> pos (w32 (k + d)) = pos k + d.
  Proof. unfold pos, w32. intros. lia. Qed.

  Lemma pos_diff k q : pos k + w32 (q - k) < 4294967296 -> pos q = pos k + w32 (q - k).
  Proof. unfold pos, w32. intros. lia. Qed.

  Lemma drain_equiv fuel : forall st_l st_d it added, R st_l st_d -> WInv st_d ->
    Rres (drain_l fuel st_l it added) (drain fuel st_d it added).
  Proof.
    induction fuel as [|f IH]; intros st_l st_d it added HR HW; [exact I|].
    destruct st_l as [sq m tl ol]. destruct st_d as [sq' m' td od]. destruct HR as (E1 & E2 & E3). cbn [dt_seq dt_buf dt_out] in *. subst sq' m' od.
    destruct HW as (Hs & Hc & Hsq). cbn [dt_seq dt_buf] in *.
    cbn [drain_l drain]. cbn [dt_seq dt_buf dt_out dt_total].
    destruct it as [k|]; [|cbn; repeat split; auto; cbn [dt_seq]; lia].
    cbv zeta. rewrite !compare_seq_numbers_eq.
    destruct (seq_compare k sq <=? 0) eqn:Ele; [|cbn; repeat split; auto; cbn [dt_seq]; lia].
    destruct (zfind k m) as [pl|] eqn:Ef; [|exact eq_refl].
    rewrite (compare_seq_numbers_eq (w32 (k + zlen pl)) sq).
    destruct (cok_In m k pl Hc (zfind_In _ _ _ Ef)) as [Hk Hat].
    destruct (at_off_bounds s _ _ Hat) as [Hp0 Hpe]. pose proof (zlen_nonneg pl) as Hpl0.
    destruct (seq_compare k sq <? 0) eqn:Elt.
    - assert (Hne : k <> sq) by (intros ->; rewrite seq_compare_refl in Elt; discriminate).
      destruct (seq_compare (w32 (k + zlen pl)) sq >? 0).
      + destruct (zlen pl <? w32 (sq - k)) eqn:Eoob; [exact eq_refl|].
        set (v' := zskipn (w32 (sq - k)) pl).
        assert (Hd : 0 <= w32 (sq - k) <= zlen pl) by (pose proof (w32_range (sq - k)); lia).
        assert (Hv' : at_off s (pos sq) v').
        { rewrite (pos_diff k sq) by lia. apply at_off_skip; assumption. }
        unfold erase_l, erase_iterator.
        match goal with |- context [store_payload ?a sq v'] => set (sd := store_payload a sq v') end.
        set (sl := store_l (mkdt sq m tl ol) sq v').
        destruct (store_seq_out_d (mkdt sq (zput k [] m) (w32 (td - zlen pl)) ol) sq v') as [A1 A2]. fold sd in A1, A2.
        destruct (store_seq_out_l (mkdt sq m tl ol) sq v') as [B1 B2]. fold sl in B1, B2.
        cbn [dt_seq dt_out] in A1, A2, B1, B2.
        assert (Hbuf : zdel k (dt_buf sl) = zdel k (dt_buf sd)) by (apply slice_equiv; assumption || lia).
        rewrite Hbuf, A1, A2, B1, B2.
        apply IH.
        * repeat split; reflexivity.
        * split; [cbn [dt_buf]; apply srt_zdel, srt_store_d; cbn [dt_buf]; [apply srt_zput; [assumption|lia]|lia]|].
          split; [|assumption]. cbn [dt_buf]. apply Forall_zdel. apply cok_store_d; cbn [dt_buf].
          -- apply Forall_zput; [assumption|]. split; cbn [fst snd]; [assumption|]. apply at_off_nil. lia.
          -- split; cbn [fst snd]; assumption.
      + unfold erase_l, erase_iterator. cbn [dt_seq dt_buf dt_out dt_total]. apply IH.
        * repeat split; reflexivity.
        * split; [apply srt_zdel; assumption|]. split; [apply Forall_zdel; assumption|assumption].
    - assert (k = sq) by (apply deliver_key_eq; assumption). subst k.
      unfold erase_l, erase_iterator. cbn [dt_seq dt_buf dt_out dt_total]. apply IH.
      + repeat split; reflexivity.
      + split; [apply srt_zdel; assumption|]. split; [apply Forall_zdel; assumption|]. cbn [dt_seq]. apply w32_range.
  Qed.

  Lemma process_equiv st_l st_d off pl : R st_l st_d -> WInv st_d -> at_off s off pl ->
    Rres (process_l st_l (isn + off) pl) (process_payload st_d (isn + off) pl).
  Proof.
    intros HR HW Hat. destruct (at_off_bounds s _ _ Hat) as [Hoff Hend]. pose proof (zlen_nonneg pl) as Hpl0.
    destruct st_l as [sq m tl ol]. destruct st_d as [sq' m' td od]. destruct HR as (E1 & E2 & E3). cbn [dt_seq dt_buf dt_out] in *. subst sq' m' od.
    pose proof HW as (Hs & Hc & Hsq). cbn [dt_seq dt_buf] in *.
    unfold process_l, process_payload. cbn [dt_seq]. cbv zeta.
    set (seq := w32 (isn + off)).
    rewrite (compare_seq_numbers_eq seq sq), (compare_seq_numbers_eq (w32 (seq + zlen pl)) sq).
    assert (Hseq : 0 <= seq < 4294967296) by apply w32_range.
    assert (Hpseq : pos seq = off) by (unfold pos, seq, w32; lia).
    rewrite Z.geb_leb. replace (0 <=? seq_compare (w32 (seq + zlen pl)) sq) with (negb (seq_compare (w32 (seq + zlen pl)) sq <? 0)) by lia.
    destruct (seq_compare (w32 (seq + zlen pl)) sq <? 0); cbn [negb]; [cbn; repeat split; auto; cbn [dt_seq]; lia|].
    destruct ((seq_compare seq sq <? 0) && (zlen pl <? w32 (sq - seq))) eqn:Eoob; [exact eq_refl|].
    set (pl' := if seq_compare seq sq <? 0 then zskipn (w32 (sq - seq)) pl else pl).
    set (q := if seq_compare seq sq <? 0 then sq else seq).
    assert (Hq : 0 <= q < 4294967296) by (subst q; destruct (seq_compare seq sq <? 0); assumption).
    assert (Hv : at_off s (pos q) pl').
    { subst q pl'. destruct (seq_compare seq sq <? 0) eqn:E.
      - cbn [andb] in Eoob. assert (Hd : 0 <= w32 (sq - seq) <= zlen pl) by (pose proof (w32_range (sq - seq)); lia).
        rewrite (pos_diff seq sq) by lia. rewrite Hpseq. apply at_off_skip; assumption.
      - rewrite Hpseq. assumption. }
    pose proof (store_equiv (mkdt sq m tl ol) (mkdt sq m td ol) q pl' ltac:(repeat split; reflexivity) Hs Hc ltac:(lia) Hv) as (F1 & F2 & F3).
    set (sl := store_l (mkdt sq m tl ol) q pl') in *. set (sd := store_payload (mkdt sq m td ol) q pl') in *.
    unfold drain_fuel. rewrite F1, F2.
    apply drain_equiv; [repeat split; assumption|].
    destruct (store_seq_out_d (mkdt sq m td ol) q pl') as [A1 _]. fold sd in A1. cbn [dt_seq] in A1.
    split; [apply srt_store_d; cbn [dt_buf]; [assumption|lia]|]. split; [|rewrite A1; assumption].
    apply cok_store_d; cbn [dt_buf]; [assumption|split; cbn [fst snd]; assumption].
  Qed.

  (* ---- every history ---- *)
  Fixpoint run_l (st : dt) (segs : list (Z * list Z)) : option dt :=
    match segs with
    | [] => Some st
    | (off, pl) :: r => match process_l st (isn + off) pl with Ok (st', _) => run_l st' r | _ => None end
    end.

  Lemma run_equiv : forall segs st_l st_d, R st_l st_d -> WInv st_d -> Forall (seg_ok s) segs ->
    match run_l st_l segs, run isn st_d segs with
    | Some a, Some b => R a b
    | None, None => True
    | _, _ => False
    end.
  Proof.
    induction segs as [|[off pl] r IH]; intros st_l st_d HR HW Hok; [exact HR|].
    inversion Hok as [|? ? Hsg Hr]; subst. unfold seg_ok in Hsg. cbn [fst snd] in Hsg.
    pose proof (process_equiv st_l st_d off pl HR HW Hsg) as He. cbn [run_l run].
    destruct (process_l st_l (isn + off) pl) as [[a ba]| | |]; destruct (process_payload st_d (isn + off) pl) as [[b bb]| | |];
      cbn in He; try contradiction; try exact I.
    destruct He as (HR' & _ & HW'). apply IH; assumption.
  Qed.
End Legacy.

Theorem legacy_same_state s isn segs : 0 <= isn < 4294967296 -> zlen s < 2147483648 -> Forall (seg_ok s) segs ->
  exists st_l st_d, run_l isn (dt_new isn) segs = Some st_l /\ run isn (dt_new isn) segs = Some st_d /\ R st_l st_d.
Proof.
  intros Hisn Hhalf Hok.
  destruct (delivered_prefix_any_isn s isn Hisn Hhalf segs Hok) as (st_d & Hrun & _).
  assert (HW : WInv s isn (dt_new isn)).
  { split; [exact I|]. split; [constructor|]. cbn. apply w32_range. }
  pose proof (run_equiv s isn Hhalf segs (dt_new isn) (dt_new isn) ltac:(repeat split; reflexivity) HW Hok) as He.
  rewrite Hrun in He. destruct (run_l isn (dt_new isn) segs) as [st_l|]; [|contradiction].
  exists st_l, st_d. auto.
Qed.

(* the delivered-prefix theorem, for the legacy follower *)
Theorem legacy_delivered_prefix s isn segs : 0 <= isn < 4294967296 -> zlen s < 2147483648 -> Forall (seg_ok s) segs ->
  exists st, run_l isn (dt_new isn) segs = Some st /\
    let p := w32 (dt_seq st - isn) in
    0 <= p <= zlen s /\ dt_out st = zfirstn p s /\
    (forall i, 0 <= i < p -> covered segs i) /\ ~ covered segs p /\
    (forall k v, In (k, v) (dt_buf st) ->
       let o := w32 (k - isn) in
       p < o /\ at_off s o v /\ forall i, o <= i < o + zlen v -> covered segs i).
Proof.
  intros Hisn Hhalf Hok.
  destruct (legacy_same_state s isn segs Hisn Hhalf Hok) as (st_l & st_d & Hl & Hd & (E1 & E2 & E3)).
  destruct (delivered_prefix_any_isn s isn Hisn Hhalf segs Hok) as (st_d' & Hrun & Hall).
  rewrite Hd in Hrun. injection Hrun as <-. cbn zeta in Hall. destruct Hall as (A & B & C & D & E & _).
  exists st_l. split; [assumption|]. cbn zeta. rewrite E1, E2, E3. auto.
Qed.
