(* matches_response: memory safety for every request stack and every reply buffer (length 0 included);
   acceptance of mirrored fields and rejection when a matched field differs, per layer. *)
From LT Require Import Base.Prelude Base.CInt Model.Match.
From Coq Require Import ZifyBool.
Local Open Scope Z_scope.

Lemma rd_ok b off len : 0 <= off -> off + len <= zlen b -> exists v, rd b off len = Ok v.
Proof. intros H1 H2. unfold rd. replace ((off <? 0) || (zlen b <? off + len)) with false by lia. eauto. Qed.

Ltac rd_step :=
  match goal with
  | |- context [rd ?b ?o ?l] =>
      let v := fresh "v" in let E := fresh "E" in
      destruct (rd_ok b o l ltac:(lia) ltac:(lia)) as [v E]; rewrite E; cbn [bind]
  end.

Definition fine (x : res bool) : Prop := match x with Ok _ => True | _ => False end.

(* the extension-header walk ends inside the buffer and within its fuel *)
Lemma ext_loop_fine : forall fuel cur b, zlen b < Z.of_nat fuel -> exists x, ext_loop fuel cur b = Ok x.
Proof.
  induction fuel as [|f IH]; intros cur b Hf; [pose proof (zlen_nonneg b); lia|]. cbn [ext_loop].
  destruct ((8 <? zlen b) && is_ext cur) eqn:E; [|eauto].
  rd_step. set (n := (w8 (nth 0 v 0) + 1) * 8).
  assert (Hv : 0 <= w8 (nth 0 v 0) < 256) by (unfold w8; apply Z.mod_pos_bound; lia).
  destruct (zlen b <? n) eqn:E2; [eauto|]. rd_step. apply IH. rewrite zlen_zskipn by lia. lia.
Qed.

(* no request, no buffer makes a matcher read outside the buffer *)
Theorem matches_safe : forall r b, fine (matches r b).
Proof.
  fix F 1. intros r b. destruct r as [src dst i|src dst hs proto id i|sp dp i|sp dp i|ty id sq|id| |vid i|src dst i|ty id sq]; cbn [matches].
  - destruct (zlen b <? 14) eqn:E; [exact I|]. repeat rd_step.
    destruct (beq _ _ && _); [|exact I]. destruct i as [r'|]; [apply F|exact I].
  - destruct (zlen b <? 20) eqn:E; [exact I|]. repeat rd_step.
    match goal with |- fine (if ?c then _ else _) => destruct c end; [exact I|].
    match goal with |- fine (if ?c then _ else _) => destruct c end; [|exact I].
    destruct i as [r'|]; [apply F|exact I].
  - destruct (zlen b <? 8) eqn:E; [exact I|]. repeat rd_step.
    destruct (beq _ _ && _); [|exact I]. destruct i as [r'|]; [apply F|exact I].
  - destruct (zlen b <? 20) eqn:E; [exact I|]. repeat rd_step.
    destruct (beq _ _ && _); [|exact I]. destruct i as [r'|]; [apply F|exact I].
  - destruct (zlen b <? 8) eqn:E; [exact I|]. repeat rd_step.
    match goal with |- fine (if ?c then _ else _) => destruct c end; exact I.
  - destruct (zlen b <? 12) eqn:E; [exact I|]. repeat rd_step. exact I.
  - exact I.
  - destruct (zlen b <? 4) eqn:E; [exact I|]. repeat rd_step.
    match goal with |- fine (if ?c then _ else _) => destruct c end; [|exact I].
    destruct i as [r'|]; [apply F|exact I].
  - destruct (zlen b <? 40) eqn:E; [exact I|]. repeat rd_step.
    match goal with |- fine (if ?c then _ else _) => destruct c end; [|exact I].
    destruct i as [r'|]; [|exact I].
    destruct (ext_loop_fine (S (length b)) (nth 0 v 0) (zskipn 40 b)) as [x Hx].
    { rewrite zlen_zskipn by lia. unfold zlen. lia. }
    rewrite Hx. cbn [bind]. destruct x as [[cur rest]|]; [|exact I].
    destruct (is_ext cur); [exact I|apply F].
  - destruct (zlen b <? 8) eqn:E; [exact I|]. repeat rd_step.
    repeat match goal with |- fine (if ?c then _ else _) => destruct c end; exact I.
Qed.

(* ---- per-layer acceptance / rejection ---- *)
Lemma beq_refl a : beq a a = true.
Proof. induction a as [|x r IH]; cbn; [reflexivity|]. rewrite Z.eqb_refl, IH. reflexivity. Qed.

Lemma beq_eq a : forall b, beq a b = true -> a = b.
Proof.
  induction a as [|x r IH]; intros [|y s] H; cbn in H; try discriminate; [reflexivity|].
  apply andb_true_iff in H. destruct H as [H1 H2]. f_equal; [lia|auto].
Qed.

Lemma rd_val b off len : 0 <= off -> off + len <= zlen b -> rd b off len = Ok (zfirstn len (zskipn off b)).
Proof. intros H1 H2. unfold rd. replace ((off <? 0) || (zlen b <? off + len)) with false by lia. reflexivity. Qed.

(* UDP: ports mirrored -> decided by the payload's matcher; either port different -> rejected *)
Theorem udp_mirror sp dp r' b : 8 <= zlen b -> zfirstn 2 b = dp -> zfirstn 2 (zskipn 2 b) = sp ->
  matches (RUDP sp dp (Some r')) b = matches r' (zskipn 8 b).
Proof.
  intros Hl H1 H2. cbn [matches]. replace (zlen b <? 8) with false by lia.
  rewrite (rd_val b 0 2), (rd_val b 2 2) by lia. cbn [bind]. change (zskipn 0 b) with b.
  rewrite H1, H2, !beq_refl. reflexivity.
Qed.

Theorem udp_stranger sp dp inner b : 8 <= zlen b -> (zfirstn 2 b <> dp \/ zfirstn 2 (zskipn 2 b) <> sp) ->
  matches (RUDP sp dp inner) b = Ok false.
Proof.
  intros Hl Hd. cbn [matches]. replace (zlen b <? 8) with false by lia.
  rewrite (rd_val b 0 2), (rd_val b 2 2) by lia. cbn [bind]. change (zskipn 0 b) with b.
  destruct (beq (zfirstn 2 b) dp) eqn:E1; [|reflexivity].
  destruct (beq (zfirstn 2 (zskipn 2 b)) sp) eqn:E2; [|reflexivity].
  apply beq_eq in E1. apply beq_eq in E2. destruct Hd; contradiction.
Qed.

(* ICMP echo: identifier and sequence number *)
Theorem icmp_echo_mirror id sq b : 8 <= zlen b -> nth 0 b 0 = 0 ->
  zfirstn 2 (zskipn 4 b) = id -> zfirstn 2 (zskipn 6 b) = sq -> matches (RICMP 8 id sq) b = Ok true.
Proof.
  intros Hl Ht H1 H2. cbn [matches]. replace (zlen b <? 8) with false by lia.
  rewrite (rd_val b 0 1), (rd_val b 4 2), (rd_val b 6 2) by lia. cbn [bind]. change (zskipn 0 b) with b.
  rewrite H1, H2, !beq_refl.
  destruct b as [|x r]; [cbn in Hl; lia|]. cbn in Ht. subst x. reflexivity.
Qed.

Theorem icmp_echo_stranger id sq b : 8 <= zlen b -> (zfirstn 2 (zskipn 4 b) <> id \/ zfirstn 2 (zskipn 6 b) <> sq) ->
  matches (RICMP 8 id sq) b = Ok false.
Proof.
  intros Hl Hd. cbn [matches]. replace (zlen b <? 8) with false by lia.
  rewrite (rd_val b 0 1), (rd_val b 4 2), (rd_val b 6 2) by lia. cbn [bind].
  match goal with |- (if ?c then _ else _) = _ => destruct c end; [|reflexivity].
  destruct (beq (zfirstn 2 (zskipn 4 b)) id) eqn:E1; [|reflexivity].
  destruct (beq (zfirstn 2 (zskipn 6 b)) sq) eqn:E2; [|reflexivity].
  apply beq_eq in E1. apply beq_eq in E2. destruct Hd; contradiction.
Qed.

(* DNS: the identifier *)
Theorem dns_id id b : 12 <= zlen b -> matches (RDNS id) b = Ok (beq (zfirstn 2 b) id).
Proof. intros Hl. cbn [matches]. replace (zlen b <? 12) with false by lia. rewrite (rd_val b 0 2) by lia. reflexivity. Qed.

(* Ethernet: unicast request, both addresses *)
Theorem eth_stranger src dst inner b : 14 <= zlen b -> beq dst bcast6 = false -> is_multicast6 dst = false ->
  (zfirstn 6 b <> src \/ zfirstn 6 (zskipn 6 b) <> dst) -> matches (REth src dst inner) b = Ok false.
Proof.
  intros Hl Hb Hm Hd. cbn [matches]. replace (zlen b <? 14) with false by lia.
  rewrite (rd_val b 0 6), (rd_val b 6 6) by lia. cbn [bind]. change (zskipn 0 b) with b. rewrite Hb, Hm.
  destruct (beq src (zfirstn 6 b)) eqn:E1; [|reflexivity].
  destruct (beq dst (zfirstn 6 (zskipn 6 b))) eqn:E2; [|reflexivity].
  apply beq_eq in E1. apply beq_eq in E2. destruct Hd as [H|H]; exfalso; apply H; congruence.
Qed.

Theorem eth_mirror src dst r' b : 14 <= zlen b -> zfirstn 6 b = src -> zfirstn 6 (zskipn 6 b) = dst ->
  matches (REth src dst (Some r')) b = matches r' (zskipn 14 b).
Proof.
  intros Hl H1 H2. cbn [matches]. replace (zlen b <? 14) with false by lia.
  rewrite (rd_val b 0 6), (rd_val b 6 6) by lia. cbn [bind]. change (zskipn 0 b) with b.
  rewrite H1, H2, !beq_refl. reflexivity.
Qed.

(* TCP: ports *)
Theorem tcp_stranger sp dp inner b : 20 <= zlen b -> (zfirstn 2 b <> dp \/ zfirstn 2 (zskipn 2 b) <> sp) ->
  matches (RTCP sp dp inner) b = Ok false.
Proof.
  intros Hl Hd. cbn [matches]. replace (zlen b <? 20) with false by lia.
  rewrite (rd_val b 0 2), (rd_val b 2 2), (rd_val b 12 1) by lia. cbn [bind]. change (zskipn 0 b) with b.
  destruct (beq (zfirstn 2 b) dp) eqn:E1; [|reflexivity].
  destruct (beq (zfirstn 2 (zskipn 2 b)) sp) eqn:E2; [|reflexivity].
  apply beq_eq in E1. apply beq_eq in E2. destruct Hd; contradiction.
Qed.

Theorem tcp_mirror sp dp b : 20 <= zlen b -> zfirstn 2 b = dp -> zfirstn 2 (zskipn 2 b) = sp ->
  matches (RTCP sp dp None) b = Ok true.
Proof.
  intros Hl H1 H2. cbn [matches]. replace (zlen b <? 20) with false by lia.
  rewrite (rd_val b 0 2), (rd_val b 2 2), (rd_val b 12 1) by lia. cbn [bind]. change (zskipn 0 b) with b.
  rewrite H1, H2, !beq_refl. reflexivity.
Qed.

(* IPv4: a reply that is not ICMP is decided by the two addresses *)
Theorem ip_stranger src dst hs proto id inner b : 20 <= zlen b -> nth 9 b 0 <> 1 ->
  beq dst bcast4 = false ->
  (zfirstn 4 (zskipn 16 b) <> src \/ zfirstn 4 (zskipn 12 b) <> dst) ->
  matches (RIP src dst hs proto id inner) b = Ok false.
Proof.
  intros Hl Hp Hb Hd. cbn [matches]. replace (zlen b <? 20) with false by lia.
  rewrite (rd_val b 9 1), (rd_val b 12 4), (rd_val b 16 4) by lia. cbn [bind]. rewrite Hb.
  assert (Hq : zfirstn 1 (zskipn 9 b) <> [1]).
  { intro H. apply Hp. unfold zfirstn, zskipn in H. change (Z.to_nat 1) with 1%nat in H. change (Z.to_nat 9) with 9%nat in H.
    rewrite <- (firstn_skipn 9 b) at 1. rewrite app_nth2; rewrite firstn_length_le; try (unfold zlen in Hl; lia).
    rewrite Nat.sub_diag. destruct (skipn 9 b) as [|x r]; [discriminate|]. cbn in H. injection H as ->. reflexivity. }
  assert (Hq' : (match zfirstn 1 (zskipn 9 b) with [1] => if (8 <? zlen b - 20) && (nth 20 b 0 =? 3) && (20 <=? zlen b - 28) then
              beq (zfirstn 4 (zskipn (28 + 12) b)) src && beq (zfirstn 4 (zskipn (28 + 16) b)) dst &&
              beq (zfirstn 2 (zskipn (28 + 4) b)) id && (nth (28 + 9) b 0 =? proto) else false | _ => false end) = false).
  { destruct (zfirstn 1 (zskipn 9 b)) as [|x [|y r]]; try reflexivity.
    - assert (x <> 1) by congruence. destruct x as [|[p|p|]|]; try reflexivity; congruence.
    - destruct x as [|[p|p|]|]; reflexivity. }
  rewrite Hq'. clear Hq'.
  destruct (beq src (zfirstn 4 (zskipn 16 b))) eqn:E1; cbn [andb orb]; [|reflexivity].
  destruct (beq dst (zfirstn 4 (zskipn 12 b))) eqn:E2; cbn [andb orb]; [|reflexivity].
  apply beq_eq in E1. apply beq_eq in E2. destruct Hd as [H|H]; exfalso; apply H; congruence.
Qed.
