(* One's complement checksums: what libtins stores (computed on native little-endian words, folded, complemented,
   byte-swapped where the code swaps) verifies under the standard RFC 1071 algorithm (big-endian words) —
   for EVERY byte string, odd lengths included. *)
From LT Require Import Base.Prelude Base.CInt Model.Checksum.
From Coq Require Import ZifyBool.
Local Open Scope Z_scope.
Ltac Zify.zify_post_hook ::= Z.div_mod_to_equations.

(* RFC 1071: big-endian 16-bit words, an odd trailing byte padded with a zero low byte *)
Fixpoint sum_be (b : list Z) : Z :=
  match b with
  | x :: y :: r => 256 * x + y + sum_be r
  | [x] => 256 * x
  | [] => 0
  end.

Definition bytes_ok (b : list Z) : Prop := Forall (fun x => 0 <= x < 256) b.

(* induction two bytes at a time *)
Lemma list_ind2 {A} (P : list A -> Prop) :
  P [] -> (forall x, P [x]) -> (forall x y r, P r -> P (x :: y :: r)) -> forall l, P l.
Proof.
  intros H0 H1 H2. fix IH 1. intros [|x [|y r]]; [exact H0|apply H1|apply H2, IH].
Qed.

Lemma sum_le_be b : (sum_le b) mod 65535 = (256 * sum_be b) mod 65535.
Proof.
  induction b as [|x|x y r IH] using list_ind2; cbn [sum_le sum_be].
  - reflexivity.
  - replace (256 * (256 * x)) with (x + x * 65535) by lia. rewrite Z.mod_add by lia. reflexivity.
  - replace (256 * (256 * x + y + sum_be r)) with (x + 256 * y + 256 * sum_be r + x * 65535) by lia.
    rewrite Z.mod_add by lia.
    rewrite (Z.add_mod (x + 256 * y) (sum_le r)), IH, <- Z.add_mod by lia. reflexivity.
Qed.

Lemma sum_le_range b : bytes_ok b -> 0 <= sum_le b <= 32768 * zlen b + 255.
Proof.
  induction b as [|x|x y r IH] using list_ind2; cbn [sum_le]; intros H.
  - unfold zlen; cbn [length]; lia.
  - inversion H; subst. unfold zlen; cbn [length]; lia.
  - inversion H as [|? ? Hx H']; subst. inversion H' as [|? ? Hy Hr]; subst.
    specialize (IH Hr). unfold zlen in *; cbn [length] in *; lia.
Qed.

Lemma sum_be_range b : bytes_ok b -> 0 <= sum_be b <= 32768 * zlen b + 65535.
Proof.
  induction b as [|x|x y r IH] using list_ind2; cbn [sum_be]; intros H.
  - unfold zlen; cbn [length]; lia.
  - inversion H; subst. unfold zlen; cbn [length]; lia.
  - inversion H as [|? ? Hx H']; subst. inversion H' as [|? ? Hy Hr]; subst.
    specialize (IH Hr). unfold zlen in *; cbn [length] in *; lia.
Qed.

Lemma sum_be_pos_iff_le b : bytes_ok b -> (sum_be b = 0 <-> sum_le b = 0).
Proof.
  induction b as [|x|x y r IH] using list_ind2; cbn [sum_le sum_be]; intros H.
  - tauto.
  - inversion H; subst. lia.
  - inversion H as [|? ? Hx H']; subst. inversion H' as [|? ? Hy Hr]; subst.
    specialize (IH Hr). pose proof (sum_le_range r Hr). pose proof (sum_be_range r Hr). lia.
Qed.

(* folding = reduction mod 65535 with the representative 65535 for non-zero multiples *)
Lemma fold_step_spec c : 0 <= c -> 0 <= fold_step c <= c /\ (fold_step c) mod 65535 = c mod 65535 /\ (0 < c -> 0 < fold_step c) /\
  (65536 <= c -> fold_step c <= c / 65536 + 65535).
Proof.
  intros Hc. unfold fold_step. destruct (c / 65536 =? 0) eqn:E; [repeat split; lia|].
  repeat split; lia.
Qed.

Lemma fold16_spec c : 0 <= c < 4294967296 ->
  0 <= fold16 c < 65536 /\ (fold16 c) mod 65535 = c mod 65535 /\ (0 < c -> 0 < fold16 c).
Proof.
  intros Hc. unfold fold16.
  destruct (fold_step_spec c ltac:(lia)) as (A1 & A2 & A3 & A4).
  destruct (fold_step_spec (fold_step c) ltac:(lia)) as (B1 & B2 & B3 & B4).
  destruct (fold_step_spec (fold_step (fold_step c)) ltac:(lia)) as (C1 & C2 & C3 & C4).
  assert (H1 : fold_step c < 131071).
  { destruct (Z_lt_le_dec c 65536); [lia|]. specialize (A4 ltac:(lia)). lia. }
  assert (H2 : fold_step (fold_step c) <= 65536).
  { destruct (Z_lt_le_dec (fold_step c) 65536); [lia|]. specialize (B4 ltac:(lia)). lia. }
  assert (H3 : fold_step (fold_step (fold_step c)) < 65536).
  { destruct (Z_lt_le_dec (fold_step (fold_step c)) 65536); [lia|].
    assert (fold_step (fold_step c) = 65536) by lia. rewrite H. reflexivity. }
  repeat split; try lia; try (rewrite C2, B2, A2; reflexivity); try (intros Hp; auto).
Qed.

(* a non-zero multiple of 65535 folds to 0xffff: "the checksum verifies" *)
Lemma fold16_verifies c : 0 < c < 4294967296 -> c mod 65535 = 0 -> fold16 c = 65535.
Proof.
  intros Hc Hm. destruct (fold16_spec c ltac:(lia)) as (F1 & F2 & F3). specialize (F3 ltac:(lia)). lia.
Qed.

(* ---- the transfer from libtins' native-word arithmetic to RFC 1071 ---- *)
Theorem le_verifies_implies_be_verifies b : bytes_ok b -> zlen b <= 65535 ->
  fold16 (sum_le b) = 65535 -> fold16 (sum_be b) = 65535.
Proof.
  intros Hb Hl Hle.
  pose proof (sum_le_range b Hb) as Rl. pose proof (sum_be_range b Hb) as Rb.
  destruct (fold16_spec (sum_le b) ltac:(lia)) as (F1 & F2 & F3).
  assert (Hm : sum_le b mod 65535 = 0) by (rewrite <- F2, Hle; reflexivity).
  assert (Hpos : 0 < sum_le b).
  { destruct (Z.eq_dec (sum_le b) 0) as [E|]; [|lia]. rewrite E in Hle. discriminate. }
  apply fold16_verifies.
  - pose proof (sum_be_pos_iff_le b Hb). lia.
  - (* 256 * 256 = 1 (mod 65535) *)
    rewrite sum_le_be in Hm.
    assert (H2 : (256 * (256 * sum_be b)) mod 65535 = 0).
    { rewrite Z.mul_mod, Hm by lia. reflexivity. }
    replace (256 * (256 * sum_be b)) with (sum_be b + sum_be b * 65535) in H2 by lia.
    rewrite Z.mod_add in H2 by lia. exact H2.
Qed.

(* ---- what IP stores ---- *)
Lemma bswap16_compl s : 0 <= s < 65536 -> bswap 16 (w16 (Z.lnot (bswap 16 s))) = 65535 - s.
Proof.
  intros Hs. unfold bswap, byte_at, w16, Z.lnot. change (2 ^ (8 * 0)) with 1. change (2 ^ (8 * 1)) with 256. lia.
Qed.

Lemma fold_bswap32 s : 0 <= s < 65536 -> fold16 (bswap 32 s) = bswap 16 s.
Proof.
  intros Hs. unfold bswap, byte_at.
  change (2 ^ (8 * 0)) with 1. change (2 ^ (8 * 1)) with 256. change (2 ^ (8 * 2)) with 65536. change (2 ^ (8 * 3)) with 16777216.
  replace (s / 65536) with 0 by lia. replace (s / 16777216) with 0 by lia.
  set (lo := s / 1 mod 256). set (hi := s / 256 mod 256).
  assert (0 <= lo < 256) by (subst lo; lia). assert (0 <= hi < 256) by (subst hi; lia).
  replace (lo * 16777216 + hi * 65536 + 0 mod 256 * 256 + 0 mod 256) with ((lo * 256 + hi) * 65536) by (cbn; lia).
  unfold fold16. set (t := lo * 256 + hi). assert (0 <= t < 65536) by (subst t; lia).
  assert (Hs1 : fold_step (t * 65536) = t).
  { unfold fold_step. destruct (Z.eq_dec t 0) as [->|]; [reflexivity|].
    replace (t * 65536 / 65536) with t by lia. replace (t * 65536 mod 65536) with 0 by lia.
    destruct (t =? 0) eqn:E; lia. }
  rewrite Hs1. assert (Hs2 : fold_step t = t) by (unfold fold_step; replace (t / 65536) with 0 by lia; reflexivity).
  rewrite !Hs2. reflexivity.
Qed.

Theorem ip_check_word_is_complement hdr : bytes_ok hdr -> zlen hdr <= 65535 ->
  ip_check_word hdr = 65535 - sum_range hdr.
Proof.
  intros Hb Hl. unfold ip_check_word, do_checksum.
  pose proof (sum_le_range hdr Hb) as R. unfold sum_range.
  destruct (fold16_spec (w32 (sum_le hdr)) (w32_range _)) as (F1 & _).
  rewrite fold_bswap32 by assumption. apply bswap16_compl. assumption.
Qed.

(* inserting a 16-bit word at an even offset of a buffer whose bytes there are zero adds the word to the native sum *)
Fixpoint put_word (b : list Z) (off : nat) (w : Z) : list Z :=
  match off, b with
  | O, _ :: _ :: r => (w mod 256) :: (w / 256) :: r
  | S (S k), x :: y :: r => x :: y :: put_word r k w
  | _, _ => b
  end.

Fixpoint field_zero (b : list Z) (off : nat) : Prop :=
  match off, b with
  | O, x :: y :: _ => x = 0 /\ y = 0
  | S (S k), _ :: _ :: r => field_zero r k
  | _, _ => False
  end.

Lemma sum_le_put_word b : forall off w, 0 <= w < 65536 -> field_zero b off -> sum_le (put_word b off w) = sum_le b + w.
Proof.
  induction b as [|x|x y r IH] using list_ind2; intros off w Hw Hz.
  - destruct off as [|[|k]]; cbn in Hz; contradiction.
  - destruct off as [|[|k]]; cbn in Hz; contradiction.
  - destruct off as [|[|k]].
    + cbn in Hz. destruct Hz as [-> ->]. cbn [put_word sum_le]. lia.
    + cbn in Hz. contradiction.
    + cbn [put_word sum_le field_zero] in *. rewrite IH by assumption. lia.
Qed.

Lemma bytes_ok_put_word b : forall off w, 0 <= w < 65536 -> bytes_ok b -> bytes_ok (put_word b off w).
Proof.
  induction b as [|x|x y r IH] using list_ind2; intros off w Hw Hb; destruct off as [|[|k]]; cbn [put_word]; try assumption.
  - inversion Hb as [|? ? Hx H']; subst. inversion H' as [|? ? Hy Hr]; subst.
    constructor; [lia|]. constructor; [lia|]. assumption.
  - inversion Hb as [|? ? Hx H']; subst. inversion H' as [|? ? Hy Hr]; subst.
    constructor; [assumption|]. constructor; [assumption|]. apply IH; assumption.
Qed.

Lemma zlen_put_word b : forall off w, zlen (put_word b off w) = zlen b.
Proof.
  induction b as [|x|x y r IH] using list_ind2; intros off w; destruct off as [|[|k]]; cbn [put_word]; try reflexivity.
  rewrite !zlen_cons, IH. reflexivity.
Qed.

(* the IPv4 header as libtins emits it verifies under RFC 1071 *)
Theorem ip_header_checksum_verifies hdr off : bytes_ok hdr -> zlen hdr <= 65535 -> field_zero hdr off ->
  fold16 (sum_be (put_word hdr off (ip_check_word hdr))) = 65535.
Proof.
  intros Hb Hl Hz.
  pose proof (sum_le_range hdr Hb) as R.
  assert (Hw32 : w32 (sum_le hdr) = sum_le hdr) by (apply w32_small; lia).
  destruct (fold16_spec (sum_le hdr) ltac:(lia)) as (F1 & F2 & F3).
  assert (Hs : sum_range hdr = fold16 (sum_le hdr)) by (unfold sum_range; rewrite Hw32; reflexivity).
  rewrite ip_check_word_is_complement by assumption. rewrite Hs.
  assert (Hf0 : sum_le hdr = 0 -> fold16 (sum_le hdr) = 0) by (intros ->; reflexivity).
  set (w := 65535 - fold16 (sum_le hdr)). assert (Hw : 0 <= w < 65536) by (subst w; lia).
  apply le_verifies_implies_be_verifies.
  - apply bytes_ok_put_word; assumption.
  - rewrite zlen_put_word. assumption.
  - rewrite sum_le_put_word by assumption. apply fold16_verifies.
    + subst w. lia.
    + subst w. rewrite Z.add_mod, <- F2 by lia.
      replace ((fold16 (sum_le hdr) mod 65535 + (65535 - fold16 (sum_le hdr)) mod 65535)) with
        ((fold16 (sum_le hdr) mod 65535 + (65535 - fold16 (sum_le hdr)) mod 65535)) by reflexivity.
      rewrite <- Z.add_mod by lia. replace (fold16 (sum_le hdr) + (65535 - fold16 (sum_le hdr))) with 65535 by lia. reflexivity.
Qed.

(* ---- UDP / TCP with the pseudo header ---- *)
Fixpoint even_len {A} (l : list A) : Prop := match l with [] => True | [_] => False | _ :: _ :: r => even_len r end.

Lemma sum_le_app a : forall b, even_len a -> sum_le (a ++ b) = sum_le a + sum_le b.
Proof.
  induction a as [|x|x y r IH] using list_ind2; intros b He; cbn in He; [reflexivity|contradiction|].
  cbn [app sum_le]. rewrite IH by assumption. lia.
Qed.

Lemma bytes_ok_app a b : bytes_ok a -> bytes_ok b -> bytes_ok (a ++ b).
Proof. unfold bytes_ok. intros. apply Forall_app. split; assumption. Qed.

Theorem l4_checksum_verifies udp ph buf off : bytes_ok ph -> bytes_ok buf -> even_len ph ->
  zlen ph + zlen buf <= 65535 -> field_zero buf off ->
  fold16 (sum_be (ph ++ put_word buf off (l4_check_word udp (sum_le ph) buf))) = 65535.
Proof.
  intros Hp Hb He Hl Hz.
  pose proof (zlen_nonneg ph) as Lp. pose proof (zlen_nonneg buf) as Lb.
  pose proof (sum_le_range ph Hp) as Rp. pose proof (sum_le_range buf Hb) as Rb.
  assert (Hw32 : w32 (sum_le buf) = sum_le buf) by (apply w32_small; lia).
  destruct (fold16_spec (sum_le buf) ltac:(lia)) as (B1 & B2 & B3).
  assert (Hsr : sum_range buf = fold16 (sum_le buf)) by (unfold sum_range; rewrite Hw32; reflexivity).
  set (t := sum_le ph + fold16 (sum_le buf)).
  assert (Ht : 0 <= t < 4294967296) by (subst t; lia).
  destruct (fold16_spec t Ht) as (T1 & T2 & T3).
  assert (Hf0 : t = 0 -> fold16 t = 0) by (intros ->; reflexivity).
  set (w := l4_check_word udp (sum_le ph) buf).
  assert (Hwdef : w = (if udp && (65535 - fold16 t =? 0) then 65535 else 65535 - fold16 t)).
  { subst w. unfold l4_check_word. rewrite Hsr. fold t. rewrite (w32_small t Ht).
    replace (w16 (Z.lnot (fold16 t))) with (65535 - fold16 t) by (unfold w16, Z.lnot; lia). reflexivity. }
  assert (Hw : 0 <= w < 65536) by (rewrite Hwdef; destruct (udp && (65535 - fold16 t =? 0)); lia).
  assert (Hwm : (fold16 t + w) mod 65535 = 0).
  { rewrite Hwdef. destruct (udp && (65535 - fold16 t =? 0)) eqn:E.
    - assert (fold16 t = 65535) by (apply andb_true_iff in E; destruct E; lia). rewrite H. reflexivity.
    - replace (fold16 t + (65535 - fold16 t)) with 65535 by lia. reflexivity. }
  apply le_verifies_implies_be_verifies.
  - apply bytes_ok_app; [assumption|]. apply bytes_ok_put_word; assumption.
  - rewrite zlen_app, zlen_put_word. assumption.
  - rewrite sum_le_app by assumption. rewrite sum_le_put_word by assumption.
    apply fold16_verifies.
    + split; [|lia].
      destruct (Z.eq_dec (sum_le ph + sum_le buf) 0) as [E0|]; [|lia].
      (* everything is zero: then t = 0, fold16 t = 0 and w = 65535 *)
      assert (sum_le ph = 0) by lia. assert (sum_le buf = 0) by lia.
      assert (t = 0) by (subst t; rewrite H0; replace (fold16 0) with 0 by reflexivity; lia).
      rewrite Hwdef, (Hf0 H1). replace (65535 - 0 =? 0) with false by reflexivity. rewrite andb_false_r. rewrite H, H0. reflexivity.
    + (* congruence: sum_le buf = fold16 (sum_le buf), t = fold16 t  (mod 65535) *)
      replace (sum_le ph + (sum_le buf + w)) with (sum_le buf + (sum_le ph + w)) by lia.
      rewrite Z.add_mod, <- B2, <- Z.add_mod by lia.
      replace (fold16 (sum_le buf) + (sum_le ph + w)) with (t + w) by (subst t; lia).
      rewrite Z.add_mod, <- T2, <- Z.add_mod by lia. exact Hwm.
Qed.
