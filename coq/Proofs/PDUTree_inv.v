(* Ownership invariant of the PDU tree model, for EVERY program:
   every identity below the allocation counter is EITHER live exactly once across all variables and
   Packet wrappers (one owner) OR destroyed exactly once — never both, never twice, never lost;
   identities at or above the counter occur nowhere; every layer's parent link designates its owner. *)
From LT Require Import Base.Prelude Model.PDUTree.
From Coq Require Import ZifyBool ZifyNat Arith.
Local Open Scope nat_scope.

Definition cnt (l : list nat) (x : nat) : nat := count_occ Nat.eq_dec l x.
Definition oids (o : option chain) : list nat := match o with Some c => ids c | None => [] end.
Definition live (vs : list (option chain)) : list nat := flat_map oids vs.

Definition opok (o : option chain) : Prop := match o with Some c => Forall (fun l => l_pok l = true) c | None => True end.
Definition all_pok (vs : list (option chain)) : Prop := Forall opok vs.

Definition Inv (st : tstate) : Prop :=
  (forall x, cnt (live (ts_vars st)) x + cnt (ts_freed st) x = if x <? ts_next st then 1 else 0) /\
  all_pok (ts_vars st) /\ length (ts_vars st) = NV + NP.

Lemma cnt_app a b x : cnt (a ++ b) x = cnt a x + cnt b x.
Proof. apply count_occ_app. Qed.

Lemma cnt_cons a l x : cnt (a :: l) x = (if a =? x then 1 else 0) + cnt l x.
Proof. unfold cnt. cbn. destruct (Nat.eq_dec a x) as [->|Hn]; [rewrite Nat.eqb_refl; reflexivity|].
  apply Nat.eqb_neq in Hn. rewrite Hn. reflexivity. Qed.

Lemma cnt_nil x : cnt [] x = 0.
Proof. reflexivity. Qed.

Lemma cnt_seq len : forall n x, cnt (seq n len) x = if (n <=? x) && (x <? n + len) then 1 else 0.
Proof.
  induction len as [|k IH]; intros n x; cbn [seq].
  - rewrite cnt_nil. destruct (n <=? x) eqn:E1, (x <? n + 0) eqn:E2; cbn; try reflexivity; lia.
  - rewrite cnt_cons, IH.
    destruct (n =? x) eqn:E0, (S n <=? x) eqn:E1, (x <? S n + k) eqn:E2, (n <=? x) eqn:E3, (x <? n + S k) eqn:E4; cbn; lia.
Qed.

Lemma cnt_live_set_nth vs : forall i c old x, nth_error vs i = Some old ->
  cnt (live (set_nth i c vs)) x + cnt (oids old) x = cnt (live vs) x + cnt (oids c) x.
Proof.
  induction vs as [|o r IH]; intros i c old x H; [destruct i; discriminate|].
  destruct i as [|j]; cbn [set_nth live flat_map] in *.
  - inversion H; subst. rewrite !cnt_app. lia.
  - rewrite !cnt_app. specialize (IH j c old x H). unfold live in IH. lia.
Qed.

Lemma nth_error_getv st i : i < length (ts_vars st) -> nth_error (ts_vars st) i = Some (getv st i).
Proof. intros H. unfold getv. apply nth_error_nth'. assumption. Qed.

Lemma set_nth_length {A} i (x : A) l : length (set_nth i x l) = length l.
Proof. revert i. induction l as [|y r IH]; intros [|j]; cbn; auto. Qed.

Lemma set_nth_overflow {A} i (x : A) l : length l <= i -> set_nth i x l = l.
Proof. revert i. induction l as [|y r IH]; intros [|j] H; cbn in *; try reflexivity; try lia. f_equal. apply IH. lia. Qed.

Lemma getv_some_lt st i c : getv st i = Some c -> i < length (ts_vars st).
Proof.
  unfold getv. intros H. destruct (Nat.lt_ge_cases i (length (ts_vars st))); [assumption|].
  rewrite nth_overflow in H by assumption. discriminate.
Qed.

Lemma all_pok_set_nth vs i c : all_pok vs -> opok c -> all_pok (set_nth i c vs).
Proof.
  unfold all_pok. revert i. induction vs as [|o r IH]; intros i H Hc; [destruct i; constructor|].
  inversion H; subst. destruct i as [|j]; cbn; constructor; auto.
Qed.

Lemma all_pok_getv st i : all_pok (ts_vars st) -> opok (getv st i).
Proof.
  unfold all_pok, getv. intros H. rewrite Forall_forall in H.
  destruct (Nat.lt_ge_cases i (length (ts_vars st))) as [Hl|Hl].
  - apply H. apply nth_In. assumption.
  - rewrite nth_overflow by assumption. exact I.
Qed.

Lemma ids_fresh_copy c : forall n, ids (fresh_copy n c) = seq n (length c).
Proof. induction c as [|l r IH]; intros n; cbn; [reflexivity|]. rewrite IH. reflexivity. Qed.

Lemma pok_fresh_copy c : forall n, Forall (fun l => l_pok l = true) (fresh_copy n c).
Proof. induction c as [|l r IH]; intros n; cbn; constructor; auto. Qed.

Lemma ids_reparent c : ids (reparent c) = ids c.
Proof. destruct c; reflexivity. Qed.

Lemma pok_reparent c : Forall (fun l => l_pok l = true) c -> Forall (fun l => l_pok l = true) (reparent c).
Proof. destruct c as [|l r]; cbn; intros H; [constructor|]. inversion H; subst. constructor; auto. Qed.

Lemma ids_app a b : ids (a ++ b) = ids a ++ ids b.
Proof. apply map_app. Qed.

(* ---- the two generic state updates every operation is built from ---- *)

(* replace variable i (currently holding [old]) by [c], moving [gone] to the freed list and allocating [k] ids,
   provided the identity bookkeeping balances *)
Lemma inv_update st i c gone k :
  Inv st -> i < length (ts_vars st) -> opok c ->
  (forall x, cnt (oids c) x + cnt gone x = cnt (oids (getv st i)) x + (if (ts_next st <=? x) && (x <? ts_next st + k) then 1 else 0)) ->
  Inv (mkts (set_nth i c (ts_vars st)) (ts_next st + k) (gone ++ ts_freed st)).
Proof.
  intros [Hc [Hp Hl]] Hi Hok Hbal. split; [|split]; cbn [ts_vars ts_next ts_freed].
  - intros x. specialize (Hc x). specialize (Hbal x).
    pose proof (cnt_live_set_nth (ts_vars st) i c (getv st i) x (nth_error_getv st i Hi)) as Hs.
    rewrite cnt_app.
    destruct (x <? ts_next st) eqn:E1, (x <? ts_next st + k) eqn:E2, (ts_next st <=? x) eqn:E3; cbn [andb] in *; lia.
  - apply all_pok_set_nth; assumption.
  - rewrite set_nth_length. assumption.
Qed.

Lemma cnt_live_set_nth2 vs i j ci cj x : i <> j -> i < length vs -> j < length vs ->
  cnt (live (set_nth i ci (set_nth j cj vs))) x + cnt (oids (nth i vs None)) x + cnt (oids (nth j vs None)) x
  = cnt (live vs) x + cnt (oids ci) x + cnt (oids cj) x.
Proof.
  intros Hne Hi Hj.
  assert (H1 : nth_error vs j = Some (nth j vs None)) by (apply nth_error_nth'; assumption).
  pose proof (cnt_live_set_nth vs j cj _ x H1) as E1.
  assert (H2 : nth_error (set_nth j cj vs) i = Some (nth i vs None)).
  { clear E1 H1. revert i j Hne Hi Hj. induction vs as [|o r IH]; intros i j Hne Hi Hj; [cbn in Hi; lia|].
    destruct i as [|i'], j as [|j']; cbn in *; try lia; try reflexivity.
    - apply nth_error_nth'. lia.
    - apply IH; lia. }
  pose proof (cnt_live_set_nth (set_nth j cj vs) i ci _ x H2) as E2. lia.
Qed.

Definition fresh_ind (n k x : nat) : nat := if (n <=? x) && (x <? n + k) then 1 else 0.

Lemma inv_update1 st i c gone k vs' n' fr' :
  Inv st -> i < length (ts_vars st) -> opok c ->
  vs' = set_nth i c (ts_vars st) -> n' = ts_next st + k -> fr' = gone ++ ts_freed st ->
  (forall x, cnt (oids c) x + cnt gone x = cnt (oids (getv st i)) x + fresh_ind (ts_next st) k x) ->
  Inv (mkts vs' n' fr').
Proof. intros Hinv Hi Hok -> -> -> Hbal. apply inv_update; assumption. Qed.

Lemma inv_update2 st i j ci cj gone k vs' n' fr' :
  Inv st -> i <> j -> i < length (ts_vars st) -> j < length (ts_vars st) -> opok ci -> opok cj ->
  vs' = set_nth i ci (set_nth j cj (ts_vars st)) -> n' = ts_next st + k -> fr' = gone ++ ts_freed st ->
  (forall x, cnt (oids ci) x + cnt (oids cj) x + cnt gone x
             = cnt (oids (getv st i)) x + cnt (oids (getv st j)) x + fresh_ind (ts_next st) k x) ->
  Inv (mkts vs' n' fr').
Proof.
  intros [Hc [Hp Hl]] Hne Hi Hj Hoki Hokj -> -> -> Hbal. split; [|split; [|cbn [ts_vars]; rewrite !set_nth_length; assumption]]; cbn [ts_vars ts_next ts_freed].
  - intros x. specialize (Hc x). specialize (Hbal x). unfold getv, fresh_ind in Hbal.
    pose proof (cnt_live_set_nth2 (ts_vars st) i j ci cj x Hne Hi Hj) as Hs.
    rewrite cnt_app.
    destruct (x <? ts_next st) eqn:E1, (x <? ts_next st + k) eqn:E2, (ts_next st <=? x) eqn:E3; cbn [andb] in *; lia.
  - apply all_pok_set_nth; [apply all_pok_set_nth|]; assumption.
Qed.

Lemma fresh_ind_0 n x : fresh_ind n 0 x = 0.
Proof. unfold fresh_ind. destruct (n <=? x) eqn:E1, (x <? n + 0) eqn:E2; cbn; try reflexivity; lia. Qed.

Lemma cnt_ids_fresh n c x : cnt (ids (fresh_copy n c)) x = fresh_ind n (length c) x.
Proof. rewrite ids_fresh_copy. apply cnt_seq. Qed.

Lemma fresh_ind_1 n x : fresh_ind n 1 x = if n =? x then 1 else 0.
Proof. unfold fresh_ind. destruct (n <=? x) eqn:E1, (x <? n + 1) eqn:E2, (n =? x) eqn:E3; cbn; try reflexivity; lia. Qed.

Ltac count_tac :=
  intros ?x; cbn [oids ids map l_id]; rewrite ?ids_reparent, ?ids_app; cbn [ids map l_id];
  rewrite ?cnt_app, ?cnt_cons, ?cnt_nil, ?cnt_ids_fresh, ?fresh_ind_0, ?fresh_ind_1; cbn [ids map l_id]; rewrite ?cnt_cons, ?cnt_nil;
  unfold ids; cbn [ts_next ts_vars ts_freed free_chain]; try lia.

Lemma Forall_tl {A} (P : A -> Prop) x l : Forall P (x :: l) -> Forall P l.
Proof. intros H. inversion H; assumption. Qed.
Lemma Forall_hd {A} (P : A -> Prop) x l : Forall P (x :: l) -> P x.
Proof. intros H. inversion H; assumption. Qed.


Lemma is_var_lt st v : length (ts_vars st) = NV + NP -> is_var v = true -> v < length (ts_vars st).
Proof. unfold is_var, NV, NP. intros -> H. apply Nat.ltb_lt in H. lia. Qed.
Lemma is_pk_lt st v : length (ts_vars st) = NV + NP -> is_pk v = true -> v < length (ts_vars st).
Proof. unfold is_pk, NV, NP. intros -> H. apply andb_true_iff in H. destruct H as [_ H]. apply Nat.ltb_lt in H. lia. Qed.

Lemma opok_getv st i c : all_pok (ts_vars st) -> getv st i = Some c -> Forall (fun l => l_pok l = true) c.
Proof. intros H E. pose proof (all_pok_getv st i H) as G. rewrite E in G. exact G. Qed.

Theorem step_inv st o : Inv st -> Inv (step st o).
Proof.
  intros Hinv. destruct Hinv as [Hcnt [Hpok Hlen]]. assert (Hinv : Inv st) by (split; [|split]; assumption).
  destruct o as [v cls tag|v w|v w|v w|v w|v w|v w|v w|v w|v|v d val|p q|p q]; cbn [step].
  - (* Mk *)
    destruct (is_var v) eqn:Ev; [|assumption]. destruct (getv st v) as [c|] eqn:Eg; [assumption|].
    unfold setv. cbn [ts_vars ts_next ts_freed].
    eapply (inv_update1 st v _ [] 1); try eassumption; try reflexivity.
    + apply is_var_lt; assumption.
    + cbn. repeat constructor.
    + cbn [ts_next free_chain]; lia.
    + rewrite Eg. count_tac.
  - (* Clone *)
    destruct (getv st v) as [cv|] eqn:Egv; [assumption|]. destruct (getv st w) as [cw|] eqn:Egw; [|assumption].
    destruct (is_var v) eqn:Ev; [|assumption]. destruct (is_var w) eqn:Ew; [|assumption]. cbn [andb alloc_copy].
    unfold setv. cbn [ts_vars ts_next ts_freed].
    eapply (inv_update1 st v _ [] (length cw)); try eassumption; try reflexivity.
    + apply is_var_lt; assumption.
    + apply pok_fresh_copy.
    + rewrite Egv. count_tac.
  - (* Assign *)
    destruct (getv st v) as [[|hv tv]|] eqn:Egv; try assumption. destruct (getv st w) as [[|hw tw]|] eqn:Egw; try assumption.
    destruct (is_var v) eqn:Ev; [|assumption]. destruct (is_var w) eqn:Ew; [|assumption]. cbn [andb].
    destruct (negb (v =? w)); [|assumption]. cbn [andb]. destruct (l_cls hv =? l_cls hw)%Z; [|assumption].
    cbn [alloc_copy free_chain]. unfold setv. cbn [ts_vars ts_next ts_freed].
    pose proof (opok_getv st v _ Hpok Egv) as Pv.
    eapply (inv_update1 st v _ (ids tv) (length tw)); try eassumption; try reflexivity.
    + apply is_var_lt; assumption.
    + cbn. constructor; [cbn; exact (Forall_hd _ _ _ Pv)|apply pok_fresh_copy].
    + rewrite Egv. count_tac.
  - (* Move *)
    destruct (getv st v) as [cv|] eqn:Egv; [assumption|]. destruct (getv st w) as [[|hw tw]|] eqn:Egw; try assumption.
    destruct (is_var v) eqn:Ev; [|assumption]. destruct (is_var w) eqn:Ew; [|assumption]. cbn [andb].
    unfold setv. cbn [ts_vars ts_next ts_freed].
    pose proof (opok_getv st w _ Hpok Egw) as Pw.
    assert (Hne : v <> w) by (intros ->; congruence).
    eapply (inv_update2 st v w _ _ [] 1); try eassumption; try reflexivity.
    + apply is_var_lt; assumption.
    + apply is_var_lt; assumption.
    + cbn. constructor; [reflexivity|apply pok_reparent; exact (Forall_tl _ _ _ Pw)].
    + cbn. constructor; [exact (Forall_hd _ _ _ Pw)|constructor].
    + cbn [ts_next free_chain]; lia.
    + rewrite Egv, Egw. count_tac.
  - (* MAssign *)
    destruct (getv st v) as [[|hv tv]|] eqn:Egv; try assumption. destruct (getv st w) as [[|hw tw]|] eqn:Egw; try assumption.
    destruct (is_var v) eqn:Ev; [|assumption]. destruct (is_var w) eqn:Ew; [|assumption]. cbn [andb].
    destruct (negb (v =? w)) eqn:Eneq; [|assumption]. cbn [andb]. destruct (l_cls hv =? l_cls hw)%Z; [|assumption].
    cbn [free_chain]. unfold setv. cbn [ts_vars ts_next ts_freed].
    pose proof (opok_getv st v _ Hpok Egv) as Pv. pose proof (opok_getv st w _ Hpok Egw) as Pw.
    assert (Hne : v <> w) by (apply negb_true_iff, Nat.eqb_neq in Eneq; assumption).
    eapply (inv_update2 st v w _ _ (ids tv) 0); try eassumption; try reflexivity.
    + apply is_var_lt; assumption.
    + apply is_var_lt; assumption.
    + cbn. constructor; [cbn; exact (Forall_hd _ _ _ Pv)|apply pok_reparent; exact (Forall_tl _ _ _ Pw)].
    + cbn. constructor; [exact (Forall_hd _ _ _ Pw)|constructor].
    + cbn [ts_next free_chain]; lia.
    + rewrite Egv, Egw. count_tac.
  - (* SetInner *)
    destruct (getv st v) as [[|hv tv]|] eqn:Egv; try assumption. destruct (getv st w) as [cw|] eqn:Egw; try assumption.
    destruct (is_var v) eqn:Ev; [|assumption]. destruct (is_var w) eqn:Ew; [|assumption]. cbn [andb].
    destruct (negb (v =? w)) eqn:Eneq; [|assumption].
    cbn [free_chain]. unfold setv. cbn [ts_vars ts_next ts_freed].
    pose proof (opok_getv st v _ Hpok Egv) as Pv. pose proof (opok_getv st w _ Hpok Egw) as Pw.
    assert (Hne : v <> w) by (apply negb_true_iff, Nat.eqb_neq in Eneq; assumption).
    eapply (inv_update2 st v w _ _ (ids tv) 0); try eassumption; try reflexivity.
    + apply is_var_lt; assumption.
    + apply is_var_lt; assumption.
    + cbn. constructor; [exact (Forall_hd _ _ _ Pv)|apply pok_reparent; assumption].
    + exact I.
    + cbn [ts_next free_chain]; lia.
    + rewrite Egv, Egw. count_tac.
  - (* SetInnerRef *)
    destruct (getv st v) as [[|hv tv]|] eqn:Egv; try assumption. destruct (getv st w) as [cw|] eqn:Egw; try assumption.
    destruct (is_var v) eqn:Ev; [|assumption]. destruct (is_var w) eqn:Ew; [|assumption]. cbn [andb alloc_copy free_chain].
    unfold setv. cbn [ts_vars ts_next ts_freed].
    pose proof (opok_getv st v _ Hpok Egv) as Pv.
    eapply (inv_update1 st v _ (ids tv) (length cw)); try eassumption; try reflexivity.
    + apply is_var_lt; assumption.
    + cbn. constructor; [exact (Forall_hd _ _ _ Pv)|apply pok_fresh_copy].
    + rewrite Egv. count_tac.
  - (* Release *)
    destruct (getv st v) as [cv|] eqn:Egv; [assumption|]. destruct (getv st w) as [[|hw tw]|] eqn:Egw; try assumption.
    destruct (is_var v) eqn:Ev; [|assumption]. destruct (is_var w) eqn:Ew; [|assumption]. cbn [andb].
    unfold setv. cbn [ts_vars ts_next ts_freed].
    pose proof (opok_getv st w _ Hpok Egw) as Pw.
    assert (Hne : v <> w) by (intros ->; congruence).
    eapply (inv_update2 st v w _ _ [] 0); try eassumption; try reflexivity.
    + apply is_var_lt; assumption.
    + apply is_var_lt; assumption.
    + destruct tw as [|l2 tw2]; [exact I|]. unfold opok. apply pok_reparent. exact (Forall_tl _ _ _ Pw).
    + cbn. constructor; [exact (Forall_hd _ _ _ Pw)|constructor].
    + cbn [ts_next free_chain]; lia.
    + rewrite Egv, Egw. destruct tw; count_tac.
  - (* Div *)
    destruct (getv st v) as [cv|] eqn:Egv; [|assumption]. destruct (getv st w) as [cw|] eqn:Egw; [|assumption].
    destruct (is_var v) eqn:Ev; [|assumption]. destruct (is_var w) eqn:Ew; [|assumption]. cbn [andb alloc_copy].
    unfold setv. cbn [ts_vars ts_next ts_freed].
    pose proof (opok_getv st v _ Hpok Egv) as Pv.
    eapply (inv_update1 st v _ [] (length cw)); try eassumption; try reflexivity.
    + apply is_var_lt; assumption.
    + cbn. apply Forall_app. split; [assumption|apply pok_fresh_copy].
    + rewrite Egv. count_tac.
  - (* Del *)
    destruct (getv st v) as [cv|] eqn:Egv; [|assumption]. destruct (is_var v) eqn:Ev; [|assumption].
    cbn [free_chain]. unfold setv. cbn [ts_vars ts_next ts_freed].
    eapply (inv_update1 st v None (ids cv) 0); try eassumption; try reflexivity; try exact I;
      try (apply is_var_lt; assumption); try (cbn [ts_next free_chain]; lia); try (rewrite Egv; count_tac).
  - (* Tag *)
    destruct (getv st v) as [cv|] eqn:Egv; [|assumption]. destruct (is_var v) eqn:Ev; [|assumption].
    destruct (nth_error cv d) as [l|] eqn:En; [|assumption].
    unfold setv. cbn [ts_vars ts_next ts_freed].
    pose proof (opok_getv st v _ Hpok Egv) as Pv.
    assert (Hids : ids (set_nth d (mklayer (l_id l) (l_cls l) val (l_pok l)) cv) = ids cv).
    { clear - En. revert d En. induction cv as [|a r IH]; intros [|d] En; cbn in *; try discriminate.
      - inversion En; subst. reflexivity.
      - f_equal. apply IH. assumption. }
    eapply (inv_update1 st v _ [] 0); try eassumption; try reflexivity.
    + apply is_var_lt; assumption.
    + cbn. clear - En Pv. revert d En. induction cv as [|a r IH]; intros [|d] En; cbn in *; try discriminate.
      * inversion En; subst. constructor; [cbn; exact (Forall_hd _ _ _ Pv)|exact (Forall_tl _ _ _ Pv)].
      * constructor; [exact (Forall_hd _ _ _ Pv)|]. apply IH; [exact (Forall_tl _ _ _ Pv)|assumption].
    + cbn [ts_next free_chain]; lia.
    + rewrite Egv. cbn [oids]. rewrite Hids. count_tac.
  - (* PkCopy *)
    destruct (is_pk p) eqn:Ep; [|assumption]. destruct (is_pk q) eqn:Eq; [|assumption]. cbn [andb].
    destruct (p =? q) eqn:Epq; [assumption|].
    destruct (getv st p) as [cp|] eqn:Egp; destruct (getv st q) as [cq|] eqn:Egq; cbn [alloc_copy free_chain]; unfold setv; cbn [ts_vars ts_next ts_freed].
    + eapply (inv_update1 st p _ (ids cp) (length cq)); try eassumption; try reflexivity;
        [apply is_pk_lt; assumption|apply pok_fresh_copy|rewrite Egp; count_tac].
    + eapply (inv_update1 st p None (ids cp) 0); try eassumption; try reflexivity;
        try exact I; try (apply is_pk_lt; assumption); try (cbn [ts_next free_chain]; lia); try (rewrite Egp; count_tac).
    + eapply (inv_update1 st p _ [] (length cq)); try eassumption; try reflexivity;
        [apply is_pk_lt; assumption|apply pok_fresh_copy|rewrite Egp; count_tac].
    + eapply (inv_update1 st p None [] 0); try eassumption; try reflexivity;
        try exact I; try (apply is_pk_lt; assumption); try (cbn [ts_next free_chain]; lia); try (rewrite Egp; count_tac).
  - (* PkMove *)
    destruct (is_pk p) eqn:Ep; [|assumption]. destruct (is_pk q) eqn:Eq; [|assumption]. cbn [andb].
    destruct (p =? q) eqn:Epq; [assumption|]. apply Nat.eqb_neq in Epq.
    unfold setv. cbn [ts_vars ts_next ts_freed].
    eapply (inv_update2 st q p (getv st p) (getv st q) [] 0); try eassumption; try reflexivity.
    + congruence.
    + apply is_pk_lt; assumption.
    + apply is_pk_lt; assumption.
    + apply all_pok_getv. assumption.
    + apply all_pok_getv. assumption.
    + cbn [ts_next free_chain]; lia.
    + count_tac.
Qed.
