From LT Require Import Base.Prelude Model.PDUTree Proofs.PDUTree_inv.
From Coq Require Import ZifyBool ZifyNat Arith.
Local Open Scope nat_scope.

Theorem step_ext_inv st code a b c : Inv st -> Inv (step_ext st code a b c).
Proof.
  intros Hinv. destruct Hinv as [Hcnt [Hpok Hlen]]. assert (Hinv : Inv st) by (split; [|split]; assumption).
  unfold step_ext. cbn zeta.
  repeat match goal with |- Inv (if (code =? ?k)%Z then _ else _) => destruct (code =? k)%Z; [try (apply step_inv; assumption)|] end;
  try assumption.
  - (* pkwrap *)
    set (p := NV + Z.to_nat a). set (v := Z.to_nat b).
    destruct (getv st p) as [cp|] eqn:Egp; [assumption|]. destruct (getv st v) as [cv|] eqn:Egv; [|assumption].
    destruct (is_pk p) eqn:Ep; [|assumption]. destruct (is_var v) eqn:Ev; [|assumption]. cbn [andb alloc_copy].
    unfold setv. cbn [ts_vars ts_next ts_freed].
    eapply (inv_update1 st p _ [] (length cv)); try eassumption; try reflexivity.
    + apply is_pk_lt; assumption.
    + apply pok_fresh_copy.
    + rewrite Egp. count_tac.
  - (* pkown *)
    set (p := NV + Z.to_nat a). set (v := Z.to_nat b).
    destruct (getv st p) as [cp|] eqn:Egp; [assumption|]. destruct (getv st v) as [cv|] eqn:Egv; [|assumption].
    destruct (is_pk p) eqn:Ep; [|assumption]. destruct (is_var v) eqn:Ev; [|assumption]. cbn [andb].
    unfold setv. cbn [ts_vars ts_next ts_freed].
    assert (Hne : p <> v) by (intros E; rewrite E in Egp; congruence).
    eapply (inv_update2 st p v (Some cv) None [] 0); try eassumption; try reflexivity; try exact I.
    + apply is_pk_lt; assumption.
    + apply is_var_lt; assumption.
    + exact (opok_getv st v _ Hpok Egv).
    + lia.
    + rewrite Egp, Egv. count_tac.
  - (* pkrel *)
    set (v := Z.to_nat a). set (p := NV + Z.to_nat b).
    destruct (getv st v) as [cv|] eqn:Egv; [assumption|].
    destruct (is_var v) eqn:Ev; [|assumption]. destruct (is_pk p) eqn:Ep; [|assumption]. cbn [andb].
    unfold setv. cbn [ts_vars ts_next ts_freed].
    assert (Hne : v <> p).
    { unfold is_var, is_pk in *. apply Nat.ltb_lt in Ev. apply andb_true_iff in Ep. destruct Ep as [Ep _]. apply Nat.leb_le in Ep. lia. }
    eapply (inv_update2 st v p (getv st p) None [] 0); try eassumption; try reflexivity; try exact I.
    + apply is_var_lt; assumption.
    + apply is_pk_lt; assumption.
    + apply all_pok_getv. assumption.
    + lia.
    + rewrite Egv. count_tac.
  - (* pkdiv *)
    set (p := NV + Z.to_nat a). set (v := Z.to_nat b).
    destruct (getv st p) as [cp|] eqn:Egp; [|assumption]. destruct (getv st v) as [cv|] eqn:Egv; [|assumption].
    destruct (is_pk p) eqn:Ep; [|assumption]. destruct (is_var v) eqn:Ev; [|assumption]. cbn [andb alloc_copy].
    unfold setv. cbn [ts_vars ts_next ts_freed].
    eapply (inv_update1 st p _ [] (length cv)); try eassumption; try reflexivity.
    + apply is_pk_lt; assumption.
    + cbn. apply Forall_app. split; [exact (opok_getv st p _ Hpok Egp)|apply pok_fresh_copy].
    + rewrite Egp. count_tac.
Qed.

Lemma inv_init : Inv ts0.
Proof.
  split; [|split].
  - intros x. cbn. reflexivity.
  - unfold all_pok, ts0. cbn. repeat constructor.
  - reflexivity.
Qed.

Definition xop := (Z * Z * Z * Z)%type.
Definition run_prog (prog : list xop) : tstate :=
  fold_left (fun st o => let '(code, a, b, c) := o in step_ext st code a b c) prog ts0.

Theorem forest_all_programs prog : Inv (run_prog prog).
Proof.
  unfold run_prog. generalize inv_init. generalize ts0.
  induction prog as [|[[[code a] b] c] r IH]; intros st H; cbn [fold_left]; [assumption|].
  apply IH. apply step_ext_inv. assumption.
Qed.

(* consequences *)
Lemma cnt_le1_nodup l : (forall x, cnt l x <= 1) -> NoDup l.
Proof. intros H. apply (NoDup_count_occ Nat.eq_dec). exact H. Qed.

Theorem single_owner st : Inv st ->
  NoDup (live (ts_vars st)) /\ NoDup (ts_freed st) /\ (forall x, In x (live (ts_vars st)) -> ~ In x (ts_freed st)).
Proof.
  intros [Hc _]. repeat split.
  - apply cnt_le1_nodup. intros x. specialize (Hc x). destruct (x <? ts_next st); lia.
  - apply cnt_le1_nodup. intros x. specialize (Hc x). destruct (x <? ts_next st); lia.
  - intros x H1 H2. specialize (Hc x).
    apply (count_occ_In Nat.eq_dec) in H1. apply (count_occ_In Nat.eq_dec) in H2. unfold cnt in Hc.
    destruct (x <? ts_next st); lia.
Qed.

Theorem no_leak st : Inv st -> Forall (fun o => o = None) (ts_vars st) ->
  forall x, x < ts_next st -> cnt (ts_freed st) x = 1.
Proof.
  intros [Hc _] Hnone x Hx. specialize (Hc x).
  assert (Hl : live (ts_vars st) = []).
  { clear - Hnone. induction (ts_vars st) as [|o r IH]; [reflexivity|]. inversion Hnone; subst. cbn. apply IH. assumption. }
  rewrite Hl, cnt_nil in Hc. apply Nat.ltb_lt in Hx. rewrite Hx in Hc. lia.
Qed.

Theorem parent_links st : Inv st -> forall i c, getv st i = Some c -> Forall (fun l => l_pok l = true) c.
Proof. intros [_ [Hp _]] i c H. exact (opok_getv st i c Hp H). Qed.

(* deep copies *)
Definition content (c : chain) : list (Z * Z) := map (fun l => (l_cls l, l_tag l)) c.

Lemma content_fresh_copy c : forall n, content (fresh_copy n c) = content c.
Proof. induction c as [|l r IH]; intros n; cbn; [reflexivity|]. rewrite IH. reflexivity. Qed.

Lemma getv_setv_same st i c : i < length (ts_vars st) -> getv (setv st i c) i = c.
Proof.
  unfold getv, setv. cbn [ts_vars]. generalize (ts_vars st). intros l. revert i.
  induction l as [|y r IH]; intros [|j] H; cbn in *; try lia; [reflexivity|]. apply IH. lia.
Qed.

Lemma getv_setv_other st i j c : i <> j -> getv (setv st i c) j = getv st j.
Proof.
  unfold getv, setv. cbn [ts_vars]. generalize (ts_vars st). intros l. revert i j.
  induction l as [|y r IH]; intros [|i] [|j] H; cbn in *; try lia; try reflexivity. apply IH. lia.
Qed.

Theorem clone_is_deep st v w c : Inv st -> is_var v = true -> is_var w = true ->
  getv st v = None -> getv st w = Some c ->
  exists c', getv (step st (Clone v w)) v = Some c' /\ content c' = content c /\
             (forall x, In x (ids c') -> ts_next st <= x) /\
             getv (step st (Clone v w)) w = Some c.
Proof.
  intros [_ [_ Hlen]] Hv Hw Hgv Hgw. cbn [step]. rewrite Hgv, Hgw, Hv, Hw. cbn [andb alloc_copy].
  assert (Hne : v <> w) by (intros ->; congruence).
  exists (fresh_copy (ts_next st) c). repeat split.
  - apply getv_setv_same. cbn [ts_vars]. apply is_var_lt; assumption.
  - apply content_fresh_copy.
  - intros x Hx. rewrite ids_fresh_copy in Hx. apply in_seq in Hx. lia.
  - rewrite getv_setv_other by assumption. exact Hgw.
Qed.

Theorem assign_is_deep st v w hv tv hw tw : Inv st -> is_var v = true -> is_var w = true -> v <> w ->
  getv st v = Some (hv :: tv) -> getv st w = Some (hw :: tw) -> l_cls hv = l_cls hw ->
  exists c', getv (step st (Assign v w)) v = Some c' /\ content c' = content (hw :: tw) /\
             (forall x, In x (ids (tl c')) -> ts_next st <= x) /\
             getv (step st (Assign v w)) w = Some (hw :: tw).
Proof.
  intros [_ [_ Hlen]] Hv Hw Hne Hgv Hgw Hcls. cbn [step]. rewrite Hgv, Hgw, Hv, Hw. cbn [andb].
  replace (negb (v =? w)) with true by (symmetry; apply negb_true_iff, Nat.eqb_neq; assumption).
  rewrite Hcls, Z.eqb_refl. cbn [andb alloc_copy free_chain ts_next ts_vars ts_freed].
  eexists. split; [|split; [|split]].
  - apply getv_setv_same. cbn [ts_vars]. apply is_var_lt; assumption.
  - cbn [content map l_cls l_tag]. f_equal. apply content_fresh_copy.
  - cbn [tl]. intros x Hx. rewrite ids_fresh_copy in Hx. apply in_seq in Hx. lia.
  - rewrite getv_setv_other by assumption. exact Hgw.
Qed.

(* an operation never changes a variable it does not name *)
Theorem step_frame st o u : (forall v, In v (match o with
    | Mk v _ _ | Del v | Tag v _ _ => [v]
    | Clone v w | Assign v w | Move v w | MAssign v w | SetInner v w | SetInnerRef v w | Release v w | Div v w
    | PkCopy v w | PkMove v w => [v; w] end) -> v <> u) ->
  getv (step st o) u = getv st u.
Proof.
  intros H.
  assert (Hfree : forall s c, getv (free_chain s c) u = getv s u) by reflexivity.
  assert (Hmk : forall s n f, getv (mkts (ts_vars s) n f) u = getv s u) by reflexivity.
  destruct o as [v cls tag|v w|v w|v w|v w|v w|v w|v w|v w|v|v d val|p q|p q]; cbn [step alloc_copy];
    repeat (first
      [ reflexivity
      | rewrite getv_setv_other by (apply H; cbn; auto)
      | rewrite Hfree
      | rewrite Hmk
      | match goal with
        | |- getv (match ?z with _ => _ end) _ = _ => destruct z
        | |- getv (if ?z then _ else _) _ = _ => destruct z
        end ]; cbn [alloc_copy]).
Qed.
