(* RadioTap: the generated padding kernel and metadata table satisfy what the writer's correctness rests on. *)
From LT Require Import Base.Prelude Base.CInt Gen.Kernels Gen.RadioTapMeta Model.RadioTap.
From Coq Require Import ZifyBool.
Local Open Scope Z_scope.
Ltac Zify.zify_post_hook ::= Z.div_mod_to_equations.

(* calculate_padding a off = the least p >= 0 with (off + p) mod a = 0 *)
Theorem calculate_padding_spec a off : 0 < a < 4294967296 -> 0 <= off < 4294967296 ->
  let p := calculate_padding a off in
  0 <= p < a /\ (off + p) mod a = 0 /\ forall q, 0 <= q < p -> (off + q) mod a <> 0.
Proof.
  intros Ha Ho. unfold calculate_padding, wrap. change (2 ^ 32) with 4294967296.
  destruct (off mod a =? 0) eqn:E.
  - cbn zeta. repeat split; try lia. rewrite Z.add_0_r. lia.
  - cbn zeta. rewrite (Z.mod_small (a - off mod a)) by lia. repeat split; try lia.
    + replace (off + (a - off mod a)) with (a * (off / a + 1)) by lia. rewrite Z.mul_comm. apply Z.mod_mul. lia.
    + intros q Hq Hz. 
      assert (Hoq : off + q = a * (off / a) + (off mod a + q)) by lia.
      rewrite Hoq, Z.add_comm, Z.mul_comm, Z.mod_add in Hz by lia.
      rewrite Z.mod_small in Hz by lia. lia.
Qed.

(* every alignment of the generated table is a power of two <= 8 and every size is positive *)
Definition meta_ok (r : Z * Z) : bool :=
  (0 <? fst r) && ((snd r =? 1) || (snd r =? 2) || (snd r =? 4) || (snd r =? 8)).
Theorem metadata_ok : forallb meta_ok radiotap_metadata = true.
Proof. vm_compute. reflexivity. Qed.

(* for power-of-two alignments the parser's align_buffer agrees with the writer's calculate_padding *)
Theorem align_matches_padding ptr n : (n = 1 \/ n = 2 \/ n = 4 \/ n = 8) -> 0 <= ptr < 4294967290 ->
  align_ptr ptr n = ptr + calculate_padding n (ptr + 4).
Proof.
  intros Hn Hp. unfold align_ptr, calculate_padding, wrap. change (2 ^ 32) with 4294967296.
  assert (Hl : Z.land (ptr + 4) (n - 1) = (ptr + 4) mod n).
  { destruct Hn as [Hn|[Hn|[Hn|Hn]]]; subst n.
    - change (1 - 1) with 0. rewrite Z.land_0_r, Z.mod_1_r. reflexivity.
    - change (2 - 1) with (Z.ones 1). rewrite Z.land_ones by lia. reflexivity.
    - change (4 - 1) with (Z.ones 2). rewrite Z.land_ones by lia. reflexivity.
    - change (8 - 1) with (Z.ones 3). rewrite Z.land_ones by lia. reflexivity. }
  rewrite Hl. destruct ((ptr + 4) mod n =? 0) eqn:E; [lia|].
  rewrite (Z.mod_small (n - (ptr + 4) mod n)) by lia. lia.
Qed.
