(* AddressRange iteration, proved once for any address type with a valuation into [0,M):
   iterating [first,last] visits exactly the addresses of value first..last, in increasing order, each once,
   and terminates — for EVERY range size, including ranges ending at the all-ones address. *)
From LT Require Import Base.Prelude Base.CInt Model.Addr.
From Coq Require Import ZifyBool.
Local Open Scope Z_scope.

Fixpoint zseq (s : Z) (k : nat) : list Z := match k with O => [] | S j => s :: zseq (s + 1) j end.

Section Abstract.
  Variable A : Type.
  Variables (lt eq : A -> A -> bool) (incr decr : A -> A * bool).
  Variable wf : A -> Prop.
  Variable val : A -> Z.
  Variable M : Z.
  Hypothesis val_range : forall a, wf a -> 0 <= val a < M.
  Hypothesis eq_spec : forall a b, wf a -> wf b -> eq a b = (val a =? val b).
  Hypothesis incr_spec : forall a, wf a ->
    wf (fst (incr a)) /\ val (fst (incr a)) = (val a + 1) mod M /\ snd (incr a) = (val a + 1 =? M).
  Hypothesis decr_spec : forall a, wf a ->
    wf (fst (decr a)) /\ val (fst (decr a)) = (val a - 1) mod M.

  (* unwrapped position of an iterator state *)
  Definition pos (it : A * bool) : Z := if snd it then M else val (fst it).
  Definition good (it : A * bool) : Prop := wf (fst it) /\ (snd it = true -> val (fst it) = 0).

  Lemma good_incr a : wf a -> good (incr a) /\ pos (incr a) = val a + 1.
  Proof.
    intros Ha. destruct (incr_spec a Ha) as (H1 & H2 & H3). pose proof (val_range a Ha).
    unfold good, pos. rewrite H3. destruct (val a + 1 =? M) eqn:E.
    - assert (HM : val a + 1 = M) by lia. repeat split; [assumption| |lia].
      intros _. rewrite H2, HM. apply Z.mod_same. lia.
    - repeat split; [assumption|discriminate|]. rewrite H2. apply Z.mod_small. lia.
  Qed.

  Lemma it_eq_pos x y : good x -> good y -> it_eq A eq x y = (pos x =? pos y).
  Proof.
    intros [Hx1 Hx2] [Hy1 Hy2]. unfold it_eq, pos. rewrite eq_spec by assumption.
    pose proof (val_range _ Hx1). pose proof (val_range _ Hy1).
    destruct (snd x) eqn:Ex, (snd y) eqn:Ey; cbn [Bool.eqb andb].
    - rewrite Hx2, Hy2 by reflexivity. rewrite !Z.eqb_refl. reflexivity.
    - lia.
    - lia.
    - reflexivity.
  Qed.

  Lemma iterate_core en : good en -> forall k limit it, good it ->
    pos it + Z.of_nat k = pos en -> (k <= limit)%nat ->
    let '(l, d) := iterate A eq incr limit it en in
    d = true /\ map val l = zseq (pos it) k /\ Forall wf l.
  Proof.
    intros Hen. induction k as [|k IH]; intros limit it Hit Hp Hl.
    - assert (E : it_eq A eq it en = true) by (rewrite it_eq_pos by assumption; lia).
      destruct limit; cbn [iterate]; rewrite E; repeat split; constructor.
    - destruct limit as [|limit]; [lia|]. cbn [iterate].
      assert (E : it_eq A eq it en = false) by (rewrite it_eq_pos by assumption; lia).
      rewrite E.
      assert (Hf : snd it = false).
      { destruct (snd it) eqn:Ef; [|reflexivity]. exfalso. unfold pos in Hp at 1. rewrite Ef in Hp.
        destruct Hen as [Hen1 _]. pose proof (val_range _ Hen1). unfold pos in Hp. destruct (snd en); lia. }
      destruct Hit as [Hit1 _].
      destruct (good_incr (fst it) Hit1) as [Hg Hpos].
      assert (Hpit : pos it = val (fst it)) by (unfold pos; rewrite Hf; reflexivity).
      specialize (IH limit (it_next A incr it) Hg). unfold it_next in *.
      rewrite Hpos in IH. specialize (IH ltac:(lia) ltac:(lia)).
      destruct (iterate A eq incr limit (incr (fst it)) en) as [l d].
      destruct IH as (I1 & I2 & I3). repeat split; [assumption| |constructor; assumption].
      cbn [map zseq]. rewrite Hpit. f_equal. exact I2.
  Qed.

  (* every address of [first,last], in order, exactly once; terminates; any size *)
  Theorem iterate_range first last limit : wf first -> wf last -> val first <= val last ->
    (Z.to_nat (val last - val first + 1) <= limit)%nat ->
    let r := mkrange A first last false in
    let '(l, d) := iterate A eq incr limit (it_begin A incr r) (it_end A incr decr r) in
    d = true /\ map val l = zseq (val first) (Z.to_nat (val last - val first + 1)) /\ Forall wf l.
  Proof.
    intros Hf Hl Hle Hlim r. unfold it_begin, it_end. cbn [r_hosts r_first r_last r].
    destruct (good_incr last Hl) as [Hg Hpos].
    pose proof (iterate_core (incr last) Hg (Z.to_nat (val last - val first + 1)) limit (first, false)) as H.
    assert (Hgb : good (first, false)) by (split; [assumption|discriminate]).
    specialize (H Hgb). change (pos (first, false)) with (val first) in H.
    apply H; [rewrite Hpos; lia|assumption].
  Qed.

  (* prefix-derived ranges: hosts only, i.e. first+1 .. last-1 *)
  Theorem iterate_hosts first last limit : wf first -> wf last -> val first < val last ->
    (Z.to_nat (val last - val first - 1) <= limit)%nat ->
    let r := mkrange A first last true in
    let '(l, d) := iterate A eq incr limit (it_begin A incr r) (it_end A incr decr r) in
    d = true /\ map val l = zseq (val first + 1) (Z.to_nat (val last - val first - 1)) /\ Forall wf l.
  Proof.
    intros Hf Hl Hlt Hlim r. unfold it_begin, it_end. cbn [r_hosts r_first r_last r].
    pose proof (val_range _ Hf) as Rf. pose proof (val_range _ Hl) as Rl.
    destruct (incr_spec first Hf) as (F1 & F2 & F3).
    destruct (decr_spec last Hl) as (D1 & D2).
    assert (Vf : val (fst (incr first)) = val first + 1) by (rewrite F2; apply Z.mod_small; lia).
    assert (Vd : val (fst (decr last)) = val last - 1) by (rewrite D2; apply Z.mod_small; lia).
    destruct (good_incr (fst (decr last)) D1) as [Hg Hpos].
    pose proof (iterate_core (incr (fst (decr last))) Hg (Z.to_nat (val last - val first - 1)) limit (fst (incr first), false)) as H.
    assert (Hgb : good (fst (incr first), false)) by (split; [assumption|discriminate]).
    specialize (H Hgb). change (pos (fst (incr first), false)) with (val (fst (incr first))) in H. rewrite Vf in H.
    apply H; [rewrite Hpos, Vd; lia|assumption].
  Qed.

  Theorem contains_spec (lt_spec : forall a b, wf a -> wf b -> lt a b = (val a <? val b)) r x :
    wf (r_first A r) -> wf (r_last A r) -> wf x -> val (r_first A r) <= val (r_last A r) ->
    contains A lt eq r x = ((val (r_first A r) <=? val x) && (val x <=? val (r_last A r))).
  Proof.
    intros Hf Hl Hx Hle. unfold contains. rewrite !lt_spec, !eq_spec by assumption. lia.
  Qed.
End Abstract.
