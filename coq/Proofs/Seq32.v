(* Characterisation of the GENERATED kernel seq_compare (RFC 1982 serial comparison)
   by relative offset.  Everything downstream uses only these lemmas, never the
   syntactic shape of the generated definition. *)
From LT Require Import Base.Prelude Base.CInt Gen.Kernels.
From Coq Require Import ZifyBool.
Local Open Scope Z_scope.
Ltac Zify.zify_post_hook ::= Z.div_mod_to_equations.

Definition u32 (x : Z) : Prop := 0 <= x < 4294967296.
Definition rel (a b : Z) : Z := (b - a) mod 4294967296.   (* how far b is ahead of a *)

Definition seq_cmp_spec (a b : Z) : Z :=
  let d := rel a b in
  if d =? 0 then 0 else if d <? 2147483648 then -1 else 1.

Lemma seq_compare_spec a b : u32 a -> u32 b -> seq_compare a b = seq_cmp_spec a b.
Proof.
  unfold u32, seq_compare, seq_cmp_spec, rel, wrap. intros Ha Hb.
  change (2 ^ 32) with 4294967296.
  destruct (a =? b) eqn:E1.
  - assert (a = b) by lia. subst. replace (b - b) with 0 by lia. reflexivity.
  - destruct (a <? b) eqn:E2.
    + rewrite (Z.mod_small (b - a)) by lia.
      destruct (b - a <? 2147483648) eqn:E3; destruct (b - a =? 0) eqn:E4; try lia; reflexivity.
    + assert (Hm : (b - a) mod 4294967296 = b - a + 4294967296).
      { symmetry. apply Z.mod_unique with (q := -1); lia. }
      rewrite Hm. rewrite (Z.mod_small (a - b)) by lia.
      destruct (a - b >? 2147483648) eqn:E3;
        destruct (b - a + 4294967296 =? 0) eqn:E4;
        destruct (b - a + 4294967296 <? 2147483648) eqn:E5; try lia; reflexivity.
Qed.

Lemma compare_seq_numbers_eq a b : compare_seq_numbers a b = seq_compare a b.
Proof. reflexivity. Qed.

(* the three cases, in the form the tracker proofs use *)
Lemma seq_compare_lt a b : u32 a -> u32 b -> (seq_compare a b <? 0) = (0 <? rel a b) && (rel a b <? 2147483648).
Proof.
  intros Ha Hb. rewrite seq_compare_spec by assumption. unfold seq_cmp_spec.
  assert (0 <= rel a b < 4294967296) by (unfold rel; apply Z.mod_pos_bound; lia).
  destruct (rel a b =? 0) eqn:E1; destruct (rel a b <? 2147483648) eqn:E2; lia.
Qed.

Lemma seq_compare_le a b : u32 a -> u32 b -> (seq_compare a b <=? 0) = (rel a b <? 2147483648).
Proof.
  intros Ha Hb. rewrite seq_compare_spec by assumption. unfold seq_cmp_spec.
  assert (0 <= rel a b < 4294967296) by (unfold rel; apply Z.mod_pos_bound; lia).
  destruct (rel a b =? 0) eqn:E1; destruct (rel a b <? 2147483648) eqn:E2; lia.
Qed.

Lemma seq_compare_gt a b : u32 a -> u32 b -> (seq_compare a b >? 0) = (2147483648 <=? rel a b).
Proof.
  intros Ha Hb. rewrite seq_compare_spec by assumption. unfold seq_cmp_spec. rewrite Z.gtb_ltb.
  assert (0 <= rel a b < 4294967296) by (unfold rel; apply Z.mod_pos_bound; lia).
  destruct (rel a b =? 0) eqn:E1; destruct (rel a b <? 2147483648) eqn:E2; lia.
Qed.

(* the boundary the half-space precondition excludes: at distance exactly 2^31 both orders say "greater" *)
Lemma seq_compare_antipode a : u32 a -> seq_compare a (w32 (a + 2147483648)) = 1 /\ seq_compare (w32 (a + 2147483648)) a = 1.
Proof.
  intros Ha. assert (Hw := w32_range (a + 2147483648)). unfold u32 in Ha.
  rewrite !seq_compare_spec by (unfold u32; lia).
  unfold seq_cmp_spec, rel, w32 in *.
  split.
  - destruct ((((a + 2147483648) mod 4294967296 - a) mod 4294967296) =? 0) eqn:E1;
    destruct ((((a + 2147483648) mod 4294967296 - a) mod 4294967296) <? 2147483648) eqn:E2; lia.
  - destruct (((a - (a + 2147483648) mod 4294967296) mod 4294967296) =? 0) eqn:E1;
    destruct (((a - (a + 2147483648) mod 4294967296) mod 4294967296) <? 2147483648) eqn:E2; lia.
Qed.
