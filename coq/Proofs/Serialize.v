(* C02 framework theorem: if every layer's write_serialization keeps the buffer length and leaves the region of the
   inner layers untouched, then serialize() returns exactly size() bytes and every inner layer's bytes reach the
   output unmodified — for chains of any depth. *)
From LT Require Import Base.Prelude Model.Serialize.
From Coq Require Import ZifyBool ZifyNat.
Local Open Scope Z_scope.

Definition confined (l : layer) (inner : Z) : Prop :=
  forall buf, zlen buf = hs l + inner + ts l ->
    zlen (wr l buf) = zlen buf /\ bsub (wr l buf) (hs l) inner = bsub buf (hs l) inner.

Fixpoint chain_ok (ls : list layer) : Prop :=
  match ls with
  | [] => True
  | l :: r => 0 <= hs l /\ 0 <= ts l /\ confined l (total r) /\ chain_ok r
  end.

Lemma total_nonneg ls : chain_ok ls -> 0 <= total ls.
Proof. induction ls as [|l r IH]; cbn; [lia|]. intros (H1 & H2 & _ & H4). specialize (IH H4). lia. Qed.

Lemma zlen_bsub (l : list Z) off len : 0 <= off -> 0 <= len -> off + len <= zlen l -> zlen (bsub l off len) = len.
Proof. intros. unfold bsub, zfirstn, zskipn, zlen in *. rewrite firstn_length, skipn_length. lia. Qed.

Lemma zlen_bset (l : list Z) off data : 0 <= off -> off + zlen data <= zlen l -> zlen (bset l off data) = zlen l.
Proof.
  intros H1 H2. pose proof (zlen_nonneg data). unfold bset. rewrite !zlen_app.
  unfold zfirstn, zskipn, zlen in *. rewrite firstn_length, skipn_length. lia.
Qed.

Lemma bsub_bset (l : list Z) off data : 0 <= off -> off + zlen data <= zlen l -> bsub (bset l off data) off (zlen data) = data.
Proof.
  intros H1 H2. unfold bsub, bset, zfirstn, zskipn, zlen in *.
  rewrite skipn_app. rewrite firstn_length.
  replace (Init.Nat.min (Z.to_nat off) (length l)) with (Z.to_nat off) by lia.
  rewrite Nat.sub_diag. cbn [skipn].
  rewrite (skipn_all2 (firstn (Z.to_nat off) l)) by (rewrite firstn_length; lia).
  cbn [app]. rewrite Nat2Z.id, firstn_app, Nat.sub_diag, firstn_all. cbn [firstn]. apply app_nil_r.
Qed.

Lemma serialize_into_len ls : chain_ok ls -> forall buf, zlen buf = total ls -> zlen (serialize_into ls buf) = total ls.
Proof.
  induction ls as [|l r IH]; intros Hok buf Hb; cbn [serialize_into]; [assumption|].
  destruct Hok as (H1 & H2 & Hc & Hr). cbn [total] in Hb. pose proof (total_nonneg r Hr) as Hn.
  assert (Hin : zlen (serialize_into r (bsub buf (hs l) (total r))) = total r).
  { apply IH; [assumption|]. apply zlen_bsub; lia. }
  assert (Hs : zlen (bset buf (hs l) (serialize_into r (bsub buf (hs l) (total r)))) = zlen buf).
  { apply zlen_bset; lia. }
  destruct (Hc _ ltac:(rewrite Hs; lia)) as [Hl _]. cbn [total]. lia.
Qed.

(* the inner chain's bytes, as it produced them, sit unmodified in the outer serialisation *)
Theorem inner_region_preserved l r buf : chain_ok (l :: r) -> zlen buf = total (l :: r) ->
  bsub (serialize_into (l :: r) buf) (hs l) (total r) = serialize_into r (bsub buf (hs l) (total r)).
Proof.
  intros (H1 & H2 & Hc & Hr) Hb. cbn [serialize_into]. cbn [total] in Hb. pose proof (total_nonneg r Hr) as Hn.
  set (inner := serialize_into r (bsub buf (hs l) (total r))).
  assert (Hin : zlen inner = total r) by (apply serialize_into_len; [assumption|apply zlen_bsub; lia]).
  assert (Hs : zlen (bset buf (hs l) inner) = zlen buf) by (apply zlen_bset; lia).
  destruct (Hc _ ltac:(rewrite Hs; lia)) as [_ Hkeep]. rewrite Hkeep.
  rewrite <- Hin. apply bsub_bset; lia.
Qed.

Lemma bsub_zeros n off len : 0 <= off -> 0 <= len -> off + len <= Z.of_nat n -> bsub (repeat 0 n) off len = repeat 0 (Z.to_nat len).
Proof.
  intros H1 H2 H3. unfold bsub, zfirstn, zskipn.
  assert (Hsk : skipn (Z.to_nat off) (repeat 0 n) = repeat 0 (n - Z.to_nat off)).
  { generalize (Z.to_nat off) as k. clear. induction n as [|n IH]; intros [|k]; cbn; try reflexivity. apply IH. }
  rewrite Hsk.
  assert (Hfn : forall a b, (a <= b)%nat -> firstn a (repeat 0 b) = repeat 0 a).
  { clear. induction a as [|a IH]; intros [|b] H; cbn; try reflexivity; try lia. f_equal. apply IH. lia. }
  apply Hfn. lia.
Qed.

(* serialize() returns exactly size() bytes, and each layer's output contains the inner serialisation verbatim *)
Theorem serialize_exact ls : chain_ok ls -> zlen (serialize ls) = total ls.
Proof.
  intros Hok. unfold serialize. apply serialize_into_len; [assumption|].
  pose proof (total_nonneg ls Hok). unfold zlen. rewrite repeat_length. lia.
Qed.

Theorem serialize_contains_inner l r : chain_ok (l :: r) ->
  bsub (serialize (l :: r)) (hs l) (total r) = serialize r.
Proof.
  intros Hok. unfold serialize at 1. rewrite inner_region_preserved; [|assumption|].
  - destruct Hok as (H1 & H2 & _ & Hr). pose proof (total_nonneg r Hr). unfold serialize.
    rewrite bsub_zeros; [reflexivity|lia|lia|]. cbn [total]. lia.
  - pose proof (total_nonneg _ Hok). unfold zlen. rewrite repeat_length. lia.
Qed.
