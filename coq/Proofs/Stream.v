From LT Require Import Base.Prelude Model.Stream.
From Coq Require Import ZifyBool.
Local Open Scope Z_scope.

Definition inside (len : Z) (c : cur) : Prop := 0 <= c_pos c <= c_end c /\ c_end c <= len.

Lemma step_inside len c k : inside len c -> checked k = true ->
  match step len c k with Ok c' => inside len c' | Throw e => e = EX_malformed_packet | _ => False end.
Proof.
  unfold inside. intros Hi Hk. destruct k as [n|n|n|n]; cbn in Hk; try discriminate; cbn [step];
    destruct ((n <? 0) || (c_end c - c_pos c <? n)) eqn:E; try reflexivity; cbn [c_pos c_end]; lia.
Qed.

(* a parser that only ever uses the checked cursor operations — on any buffer, with any lengths, however they
   were computed from the packet's own bytes — stays inside the caller's buffer and fails only as malformed_packet *)
Theorem checked_programs_are_safe len prog : forall c, inside len c -> forallb checked prog = true ->
  match run len c prog with Ok c' => inside len c' | Throw e => e = EX_malformed_packet | _ => False end.
Proof.
  induction prog as [|k r IH]; intros c Hi Hc; cbn [run]; [assumption|].
  cbn [forallb] in Hc. apply andb_true_iff in Hc. destruct Hc as [Hk Hr].
  pose proof (step_inside len c k Hi Hk) as Hs. destruct (step len c k) as [c'| | |]; cbn [bind]; try assumption; try contradiction.
  apply IH; assumption.
Qed.

(* and the unguarded use IS expressible: a raw access beyond the buffer is an out-of-bounds outcome *)
Example raw_access_can_escape : run 4 (mkcur 0 4) [Skip 3; Raw 2] = OOB 1.
Proof. reflexivity. Qed.
