(* The type-length-value option codecs (Model/TLV.v), for every format with 1- or 2-octet codes and lengths:
   - what the writer emits for a list of options is parsed back as exactly that list (options set = options read after the wire);
   - what the parser accepts is re-emitted byte for byte (up to the tail the lenient loop ignores);
   - the parsing loop's fuel always suffices. *)
From LT Require Import Base.Prelude Base.CInt Model.TLV.
From Coq Require Import ZifyBool.
Local Open Scope Z_scope.
Ltac Zify.zify_post_hook ::= Z.div_mod_to_equations.

Definition bytes (b : list Z) : Prop := Forall (fun x => 0 <= x < 256) b.

Lemma zfirstn_app_exact {A} (a b : list A) : zfirstn (zlen a) (a ++ b) = a.
Proof. unfold zfirstn, zlen. rewrite Nat2Z.id, firstn_app, Nat.sub_diag, firstn_all. cbn. apply app_nil_r. Qed.

Lemma zskipn_app_exact {A} (a b : list A) : zskipn (zlen a) (a ++ b) = b.
Proof. unfold zskipn, zlen. rewrite Nat2Z.id, skipn_app, Nat.sub_diag, skipn_all. reflexivity. Qed.

Lemma zfirstn_zskipn {A} n (l : list A) : l = zfirstn n l ++ zskipn n l.
Proof. unfold zfirstn, zskipn. symmetry. apply firstn_skipn. Qed.

Lemma zlen_zfirstn {A} n (l : list A) : 0 <= n <= zlen l -> zlen (zfirstn n l) = n.
Proof. unfold zlen, zfirstn. intros. rewrite firstn_length. lia. Qed.

Lemma length_zskipn_le {A} n (l : list A) : (length (zskipn n l) <= length l)%nat.
Proof. unfold zskipn. rewrite skipn_length. lia. Qed.

Lemma length_zskipn_lt {A} n (l : list A) : 1 <= n -> l <> [] -> (length (zskipn n l) < length l)%nat.
Proof. unfold zskipn. intros Hn Hl. rewrite skipn_length. destruct l; [congruence|]. cbn [length]. lia. Qed.

Lemma Forall_firstn' {A} (P : A -> Prop) : forall n l, Forall P l -> Forall P (firstn n l).
Proof. induction n as [|n IH]; intros [|x l] H; cbn; try constructor; inversion H; subst; auto. Qed.

Lemma bytes_zfirstn n b : bytes b -> bytes (zfirstn n b).
Proof. unfold bytes, zfirstn. apply Forall_firstn'. Qed.

Lemma bytes_zskipn n b : bytes b -> bytes (zskipn n b).
Proof.
  unfold bytes, zskipn. intros H. apply Forall_forall. intros x Hx. rewrite Forall_forall in H. apply H.
  rewrite <- (firstn_skipn (Z.to_nat n) b). apply in_or_app. right. assumption.
Qed.

Lemma match_nonempty {A B} (b : list A) (x y : B) : b <> [] -> match b with [] => x | _ :: _ => y end = y.
Proof. destruct b; [congruence|reflexivity]. Qed.

(* ---- numbers of one or two octets ---- *)
Lemma zlen_enc_num w le n : w = 1 \/ w = 2 -> zlen (enc_num w le n) = w.
Proof. intros [-> | ->]; unfold enc_num; cbn; destruct le; reflexivity. Qed.

Lemma dec_enc_num w le n : w = 1 \/ w = 2 -> 0 <= n < 256 ^ w -> dec_num le (enc_num w le n) = n.
Proof.
  intros [-> | ->] Hn; unfold enc_num; cbn [Z.eqb Pos.eqb].
  - change (256 ^ 1) with 256 in Hn. cbn [dec_num]. lia.
  - change (256 ^ 2) with 65536 in Hn. destruct le; cbn [dec_num]; lia.
Qed.

Lemma enc_dec_num w le bs : w = 1 \/ w = 2 -> bytes bs -> zlen bs = w -> enc_num w le (dec_num le bs) = bs.
Proof.
  intros Hw Hb Hl. destruct bs as [|a [|b [|c r]]].
  - rewrite zlen_nil in Hl. destruct Hw; lia.
  - rewrite zlen_cons, zlen_nil in Hl. destruct Hw as [-> | ->]; [|lia]. inversion Hb; subst.
    unfold enc_num. cbn [Z.eqb Pos.eqb dec_num]. f_equal. lia.
  - rewrite !zlen_cons, zlen_nil in Hl. destruct Hw as [-> | ->]; [lia|].
    inversion Hb as [|? ? Ha Hb']; subst. inversion Hb' as [|? ? Hb0 _]; subst.
    unfold enc_num. cbn [Z.eqb Pos.eqb dec_num]. destruct le; f_equal; try lia; f_equal; lia.
  - exfalso. rewrite !zlen_cons in Hl. pose proof (zlen_nonneg r). destruct Hw; lia.
Qed.

Lemma dec_num_nonneg le bs : bytes bs -> 0 <= dec_num le bs.
Proof.
  intros Hb. destruct bs as [|a [|b [|c r]]]; cbn [dec_num]; try lia.
  - inversion Hb; subst. lia.
  - inversion Hb as [|? ? Ha Hb']; subst. inversion Hb' as [|? ? Hb0 _]; subst. destruct le; lia.
Qed.

(* ---- well-formedness ---- *)
Definition wf_fmt (f : fmt) : Prop := (f_cw f = 1 \/ f_cw f = 2) /\ (f_lw f = 1 \/ f_lw f = 2).

(* an option the API can hold and the format can express *)
Definition wf_opt (f : fmt) (o : Z * list Z) : Prop :=
  0 <= fst o < 256 ^ f_cw f /\ f_special f (fst o) = false /\
  (if f_unit8 f then (zlen (snd o) + 2) mod 8 = 0 /\ (zlen (snd o) + 2) / 8 < 256 ^ f_lw f
   else zlen (snd o) < 256 ^ f_lw f).

Lemma zlen_encode_opt f o : wf_fmt f -> zlen (encode_opt f o) = f_cw f + f_lw f + zlen (snd o).
Proof. intros [Hc Hl]. unfold encode_opt. rewrite !zlen_app, !zlen_enc_num by assumption. lia. Qed.

(* ---- written options are read back ---- *)
Lemma decode_encode_fuel f : wf_fmt f -> forall os fuel, Forall (wf_opt f) os ->
  (length (tlv_encode f os) < fuel)%nat -> decode fuel f (tlv_encode f os) = Ok os.
Proof.
  intros Hf. pose proof Hf as [Hc Hl]. induction os as [|[c d] r IH]; intros fuel Hwf Hfu.
  - destruct fuel; [cbn in Hfu; lia|]. cbn. destruct (f_lenient f && _); reflexivity.
  - inversion Hwf as [|? ? Ho Hr]; subst. destruct Ho as (Hcr & Hsp & Hlen). cbn [fst snd] in *.
    destruct fuel as [|n]; [lia|].
    cbn [tlv_encode flat_map]. fold (tlv_encode f r).
    set (rest := tlv_encode f r) in *.
    pose proof (zlen_nonneg d) as Hd0.
    set (lv := if f_unit8 f then (zlen d + 2) / 8 else zlen d).
    assert (Hlv : 0 <= lv < 256 ^ f_lw f).
    { subst lv. destruct (f_unit8 f); [destruct Hlen; split; [apply Z.div_pos; lia|assumption]|lia]. }
    assert (Henc : encode_opt f (c, d) = enc_num (f_cw f) (f_cle f) c ++ enc_num (f_lw f) false lv ++ d) by reflexivity.
    rewrite Henc. cbn [decode].
    set (cb := enc_num (f_cw f) (f_cle f) c). set (lb := enc_num (f_lw f) false lv).
    assert (Hcb : zlen cb = f_cw f) by (apply zlen_enc_num; assumption).
    assert (Hlb : zlen lb = f_lw f) by (apply zlen_enc_num; assumption).
    assert (Htot : zlen ((cb ++ lb ++ d) ++ rest) = f_cw f + f_lw f + zlen d + zlen rest) by (rewrite !zlen_app; lia).
    pose proof (zlen_nonneg rest) as Hr0.
    assert (Hlen1 : (zlen ((cb ++ lb ++ d) ++ rest) <? f_cw f + f_lw f) = false) by lia.
    rewrite Hlen1, Bool.andb_false_r.
    rewrite match_nonempty by (intros Eb; rewrite Eb, zlen_nil in Htot; destruct Hc; lia).
    assert (Hlen2 : (zlen ((cb ++ lb ++ d) ++ rest) <? f_cw f) = false) by lia. rewrite Hlen2.
    rewrite <- !app_assoc.
    assert (E1 : zfirstn (f_cw f) (cb ++ lb ++ d ++ rest) = cb) by (rewrite <- Hcb; apply zfirstn_app_exact).
    assert (E2 : zskipn (f_cw f) (cb ++ lb ++ d ++ rest) = lb ++ d ++ rest) by (rewrite <- Hcb; apply zskipn_app_exact).
    rewrite E1, E2.
    assert (E3 : zfirstn (f_lw f) (lb ++ d ++ rest) = lb) by (rewrite <- Hlb; apply zfirstn_app_exact).
    assert (E4 : zskipn (f_lw f) (lb ++ d ++ rest) = d ++ rest) by (rewrite <- Hlb; apply zskipn_app_exact).
    rewrite E3, E4.
    assert (Hdc : dec_num (f_cle f) cb = c) by (subst cb; apply dec_enc_num; assumption).
    assert (Hdl : dec_num false lb = lv) by (subst lb; apply dec_enc_num; assumption).
    rewrite Hdc, Hdl, Hsp.
    assert (Hlen3 : (zlen (lb ++ d ++ rest) <? f_lw f) = false) by (rewrite !zlen_app; lia). rewrite Hlen3.
    assert (Hsz : (if f_unit8 f then 8 * lv - 2 else lv) = zlen d).
    { subst lv. destruct (f_unit8 f); [destruct Hlen; lia|reflexivity]. }
    assert (Hu : (f_unit8 f && (8 * lv <? 2)) = false).
    { subst lv. destruct (f_unit8 f); [destruct Hlen; cbn [andb]; lia|reflexivity]. }
    rewrite Hu, Hsz.
    assert (Hlen4 : (zlen (d ++ rest) <? zlen d) = false) by (rewrite zlen_app; lia). rewrite Hlen4.
    rewrite zfirstn_app_exact, zskipn_app_exact.
    rewrite IH; [reflexivity|assumption|].
    cbn [tlv_encode flat_map] in Hfu. fold (tlv_encode f r) in Hfu. rewrite app_length in Hfu. subst rest.
    pose proof (zlen_encode_opt f (c, d) Hf) as Hz. unfold zlen in Hz. cbn [snd] in Hz. destruct Hc; lia.
Qed.

Theorem decode_encode f os : wf_fmt f -> Forall (wf_opt f) os -> tlv_decode f (tlv_encode f os) = Ok os.
Proof. intros Hf Hw. unfold tlv_decode. apply decode_encode_fuel; [assumption|assumption|lia]. Qed.

(* ---- accepted regions are re-emitted byte for byte ---- *)
Theorem encode_decode f : wf_fmt f -> (forall c, f_special f c = false) -> forall fuel b os, bytes b ->
  decode fuel f b = Ok os ->
  exists tail, b = tlv_encode f os ++ tail /\ (tail = [] \/ (f_lenient f = true /\ zlen tail < f_cw f + f_lw f)).
Proof.
  intros Hf Hns. pose proof Hf as [Hc Hl]. induction fuel as [|n IH]; intros b os Hb Hd; [discriminate|].
  cbn [decode] in Hd.
  destruct (f_lenient f && (zlen b <? f_cw f + f_lw f)) eqn:Elen.
  { injection Hd as <-. exists b. split; [reflexivity|]. right. apply andb_prop in Elen. destruct Elen. split; [assumption|lia]. }
  destruct b as [|x xs] eqn:Eb.
  { injection Hd as <-. exists []. split; [reflexivity|left; reflexivity]. }
  rewrite <- Eb in *. clear Eb x xs.
  destruct (zlen b <? f_cw f) eqn:E1; [discriminate|].
  rewrite Hns in Hd.
  set (b1 := zskipn (f_cw f) b) in *.
  destruct (zlen b1 <? f_lw f) eqn:E2; [discriminate|].
  set (l := dec_num false (zfirstn (f_lw f) b1)) in *.
  set (b2 := zskipn (f_lw f) b1) in *.
  destruct (f_unit8 f && (8 * l <? 2)) eqn:E3; [discriminate|].
  set (sz := if f_unit8 f then 8 * l - 2 else l) in *.
  destruct (zlen b2 <? sz) eqn:E4; [discriminate|].
  assert (Hb1 : bytes b1) by (apply bytes_zskipn; assumption).
  assert (Hb2 : bytes b2) by (apply bytes_zskipn; assumption).
  assert (Hl0 : 0 <= l) by (apply dec_num_nonneg, bytes_zfirstn; assumption).
  assert (Hsz0 : 0 <= sz) by (subst sz; destruct (f_unit8 f); cbn [andb] in E3; lia).
  destruct (decode n f (zskipn sz b2)) as [r| | |] eqn:Er; try discriminate. cbn [bind] in Hd. injection Hd as <-.
  destruct (IH _ _ (bytes_zskipn sz b2 Hb2) Er) as (tail & Ht & Htail).
  exists tail. split; [|assumption].
  cbn [tlv_encode flat_map]. fold (tlv_encode f r). unfold encode_opt. cbn [fst snd].
  rewrite enc_dec_num; [|assumption|apply bytes_zfirstn; assumption|apply zlen_zfirstn; destruct Hc; lia].
  assert (Hzl : zlen (zfirstn sz b2) = sz) by (apply zlen_zfirstn; lia).
  rewrite Hzl.
  replace (if f_unit8 f then (sz + 2) / 8 else sz) with l by (subst sz; destruct (f_unit8 f); [lia|reflexivity]).
  subst l. rewrite enc_dec_num; [|assumption|apply bytes_zfirstn; assumption|apply zlen_zfirstn; destruct Hl; lia].
  rewrite <- !app_assoc. rewrite <- Ht.
  rewrite <- (zfirstn_zskipn sz b2). subst b2. rewrite <- (zfirstn_zskipn (f_lw f) b1). subst b1. apply zfirstn_zskipn.
Qed.

(* ---- the loop terminates within the fuel granted ---- *)
Lemma decode_fuel f : wf_fmt f -> forall fuel b, (length b < fuel)%nat -> decode fuel f b <> OutOfFuel.
Proof.
  intros [Hc Hl]. induction fuel as [|n IH]; intros b Hfu; [lia|]. cbn [decode].
  destruct (f_lenient f && _); [discriminate|].
  destruct b as [|x xs] eqn:Eb; [discriminate|]. rewrite <- Eb in *.
  assert (Hne : b <> []) by (rewrite Eb; discriminate). clear Eb x xs.
  destruct (zlen b <? f_cw f); [discriminate|].
  assert (Hs1 : (length (zskipn (f_cw f) b) < n)%nat).
  { pose proof (length_zskipn_lt (f_cw f) b ltac:(destruct Hc; lia) Hne). lia. }
  destruct (f_special f _).
  - specialize (IH _ Hs1). destruct (decode n f (zskipn (f_cw f) b)); cbn; congruence.
  - destruct (_ <? f_lw f); [discriminate|]. destruct (f_unit8 f && _); [discriminate|].
    destruct (_ <? _); [discriminate|].
    match goal with |- context [decode n f (zskipn ?s (zskipn ?a (zskipn ?c b)))] =>
      assert (Hs2 : (length (zskipn s (zskipn a (zskipn c b))) < n)%nat)
        by (pose proof (length_zskipn_le s (zskipn a (zskipn c b))); pose proof (length_zskipn_le a (zskipn c b)); lia);
      specialize (IH _ Hs2); destruct (decode n f (zskipn s (zskipn a (zskipn c b)))); cbn; congruence end.
Qed.

Theorem tlv_decode_total f b : wf_fmt f -> tlv_decode f b <> OutOfFuel /\ (forall s, tlv_decode f b <> OOB s).
Proof.
  intros Hf. split; [apply decode_fuel; [assumption|lia]|].
  unfold tlv_decode. generalize (S (length b)). intros fuel. revert b.
  induction fuel as [|n IH]; intros b s; [discriminate|]. cbn [decode].
  destruct (f_lenient f && _); [discriminate|]. destruct b as [|x xs] eqn:Eb; [discriminate|]. rewrite <- Eb. clear Eb.
  destruct (zlen b <? f_cw f); [discriminate|].
  destruct (f_special f _).
  - match goal with |- context [decode n f ?z] => specialize (IH z s); destruct (decode n f z); cbn; congruence end.
  - destruct (_ <? f_lw f); [discriminate|]. destruct (f_unit8 f && _); [discriminate|]. destruct (_ <? _); [discriminate|].
    match goal with |- context [decode n f ?z] => specialize (IH z s); destruct (decode n f z); cbn; congruence end.
Qed.

(* the five formats of libtins *)
Lemma wf_dhcp : wf_fmt fmt_dhcp. Proof. split; cbn; auto. Qed.
Lemma wf_dhcpv6 : wf_fmt fmt_dhcpv6. Proof. split; cbn; auto. Qed.
Lemma wf_dot11 : wf_fmt fmt_dot11. Proof. split; cbn; auto. Qed.
Lemma wf_icmpv6 : wf_fmt fmt_icmpv6. Proof. split; cbn; auto. Qed.
Lemma wf_pppoe : wf_fmt fmt_pppoe. Proof. split; cbn; auto. Qed.

(* ---- the cached size under add / remove histories is the number of octets written ---- *)
Fixpoint total_size (f : fmt) (os : list (Z * list Z)) : Z :=
  match os with [] => 0 | o :: r => opt_size f o + total_size f r end.

Lemma total_size_app f a b : total_size f (a ++ b) = total_size f a + total_size f b.
Proof. induction a as [|o r IH]; cbn [app total_size]; [lia|]. rewrite IH. lia. Qed.

Lemma total_size_encode f os : wf_fmt f -> total_size f os = zlen (tlv_encode f os).
Proof.
  intros Hf. induction os as [|o r IH]; [reflexivity|]. cbn [total_size tlv_encode flat_map].
  fold (tlv_encode f r). rewrite zlen_app, zlen_encode_opt, IH by assumption. unfold opt_size. lia.
Qed.

Lemma remove_first_size f c : forall os,
  match remove_first c os with
  | (Some o, r) => total_size f os = total_size f r + opt_size f o
  | (None, r) => r = os
  end.
Proof.
  induction os as [|o r IH]; cbn [remove_first]; [reflexivity|].
  destruct (fst o =? c); [cbn [total_size]; lia|].
  destruct (remove_first c r) as [[x|] r']; cbn [total_size] in *; [lia|congruence].
Qed.

Lemma hstep_inv f st h : snd st = total_size f (fst st) -> snd (hstep f st h) = total_size f (fst (hstep f st h)).
Proof.
  intros H. destruct h as [o|c]; cbn [hstep fst snd].
  - rewrite total_size_app. cbn [total_size]. lia.
  - pose proof (remove_first_size f c (fst st)) as Hr. destruct (remove_first c (fst st)) as [[o|] r]; cbn [fst snd]; [lia|assumption].
Qed.

Theorem cached_size_exact f hs : wf_fmt f -> snd (hrun f hs) = zlen (tlv_encode f (fst (hrun f hs))).
Proof.
  intros Hf. rewrite <- total_size_encode by assumption. unfold hrun.
  assert (G : forall st, snd st = total_size f (fst st) -> snd (fold_left (hstep f) hs st) = total_size f (fst (fold_left (hstep f) hs st))).
  { induction hs as [|h r IH]; intros st H; [assumption|]. cbn [fold_left]. apply IH, hstep_inv, H. }
  apply G. reflexivity.
Qed.
