(* TCP option codec: size-exactness (C02), encoder/decoder are mutual inverses through the wire (C03/C04),
   the decoder fails only as malformed_packet and never reads outside the option region (C01). *)
From LT Require Import Base.Prelude Base.CInt Gen.Kernels Model.TcpOpts.
From Coq Require Import ZifyBool.
Local Open Scope Z_scope.
Ltac Zify.zify_post_hook ::= Z.div_mod_to_equations.

(* the generated padding kernel: least multiple of 4 not below the size *)
Theorem pad_spec s : 0 <= s < 4294967290 ->
  let p := tcp_pad_options_size s in s <= p < s + 4 /\ p mod 4 = 0.
Proof.
  intros Hs. unfold tcp_pad_options_size, wrap. change (2 ^ 8) with 256. change (2 ^ 32) with 4294967296.
  change 3 with (Z.ones 2). rewrite Z.land_ones by lia. change (2 ^ 2) with 4.
  rewrite (Z.mod_small (s mod 4) 256) by lia.
  destruct (s mod 4 =? 0) eqn:E; cbn [negb].
  - cbn zeta. lia.
  - cbn zeta. rewrite (Z.mod_small (s - s mod 4)) by lia. rewrite Z.mod_small by lia. lia.
Qed.

Theorem ip_pad_same s : 0 <= s -> ip_pad_options_size s = tcp_pad_options_size s.
Proof.
  intros Hs. unfold ip_pad_options_size, tcp_pad_options_size. change 3 with (Z.ones 2). rewrite Z.land_ones by lia. reflexivity.
Qed.

(* what header_size() promises is what write_serialization emits *)
Theorem write_size os : zlen (write_options os) = options_size os.
Proof.
  induction os as [|o r IH]; cbn [write_options flat_map options_size fold_right]; [reflexivity|].
  rewrite zlen_app. fold (write_options r). rewrite IH. f_equal.
  unfold write_option, option_size. destruct (1 <? o_kind o); [rewrite !zlen_cons; lia|reflexivity].
Qed.

Lemma options_size_nonneg os : 0 <= options_size os.
Proof.
  induction os as [|o r IH]; cbn [options_size fold_right]; [lia|]. fold (options_size r).
  generalize dependent (options_size r). intros s Hs.
  unfold option_size. pose proof (zlen_nonneg (o_data o)). destruct (1 <? o_kind o); lia.
Qed.

Lemma zlen_repeat {A} (x : A) n : zlen (repeat x n) = Z.of_nat n.
Proof. unfold zlen. rewrite repeat_length. reflexivity. Qed.

Theorem area_size os : options_size os < 4294967290 ->
  zlen (tcp_options_area os) = tcp_pad_options_size (options_size os) /\ 20 + zlen (tcp_options_area os) = tcp_header_size os /\
  (zlen (tcp_options_area os)) mod 4 = 0.
Proof.
  intros Hs. pose proof (options_size_nonneg os) as Hn.
  destruct (pad_spec (options_size os) ltac:(lia)) as [P1 P2].
  unfold tcp_options_area, tcp_header_size. rewrite zlen_app, write_size.
  rewrite zlen_repeat, Z2Nat.id by lia.
  replace (options_size os + (tcp_pad_options_size (options_size os) - options_size os)) with (tcp_pad_options_size (options_size os)) by lia.
  repeat split; try lia; try reflexivity; assumption.
Qed.

(* well-formed option as the API / the parser produce it *)
Definition opt_wf (o : topt) : Prop :=
  Forall (fun x => 0 <= x < 256) (o_data o) /\
  ((o_kind o = 1 /\ o_data o = [] /\ o_lf o = 0) \/
   (2 <= o_kind o < 256 /\ o_lf o = zlen (o_data o) /\ zlen (o_data o) <= 253)).

Lemma zfirstn_app_exact (a b : list Z) : zfirstn (zlen a) (a ++ b) = a.
Proof. unfold zfirstn, zlen. rewrite Nat2Z.id, firstn_app, Nat.sub_diag, firstn_all. cbn. apply app_nil_r. Qed.
Lemma zskipn_app_exact (a b : list Z) : zskipn (zlen a) (a ++ b) = b.
Proof. unfold zskipn, zlen. rewrite Nat2Z.id, skipn_app, skipn_all, Nat.sub_diag. reflexivity. Qed.

(* decoder after encoder: the option list comes back (zero padding reads as EOL) *)
Theorem parse_write os : Forall opt_wf os -> forall pad fuel, Forall (fun x => x = 0) pad ->
  (length (write_options os ++ pad) < fuel)%nat ->
  parse_options fuel (write_options os ++ pad) = Ok os.
Proof.
  induction 1 as [|o r Ho Hr IH]; intros pad fuel Hp Hf.
  - cbn [write_options flat_map app] in *. destruct fuel as [|fuel]; [lia|]. cbn [parse_options].
    destruct pad as [|z pad']; [reflexivity|]. inversion Hp; subst. reflexivity.
  - destruct fuel as [|fuel]; [lia|].
    cbn [write_options flat_map]. fold (write_options r). rewrite <- app_assoc.
    destruct Ho as [Hd [[Hk [Hdat Hlf]]|[Hk [Hlf Hlen]]]].
    + (* NOP *)
      unfold write_option. rewrite Hk. change (1 <? 1) with false. change (w8 1) with 1. cbn [app parse_options].
      change (1 =? 0) with false. change (1 =? 1) with true. cbn [bind].
      rewrite (IH pad fuel Hp).
      * destruct o as [k lf d]. cbn in *. subst. reflexivity.
      * cbn [write_options flat_map] in Hf. fold (write_options r) in Hf. unfold write_option in Hf. rewrite Hk in Hf.
        change (1 <? 1) with false in Hf. rewrite <- app_assoc in Hf. cbn [app length] in Hf. lia.
    + unfold write_option. replace (1 <? o_kind o) with true by lia. rewrite Hlf, Z.eqb_refl.
      cbn [app parse_options]. unfold w8.
      rewrite (Z.mod_small (o_kind o)) by lia. pose proof (zlen_nonneg (o_data o)) as Hnn.
      rewrite (Z.mod_small (zlen (o_data o) + 2)) by lia.
      replace (o_kind o =? 0) with false by lia. replace (o_kind o =? 1) with false by lia.
      replace (zlen (o_data o) + 2 <? 2) with false by lia.
      replace (zlen (o_data o) + 2 - 2) with (zlen (o_data o)) by lia.
      replace (zlen (o_data o ++ write_options r ++ pad) <? zlen (o_data o)) with false
        by (rewrite zlen_app; pose proof (zlen_nonneg (write_options r ++ pad)); lia).
      rewrite zskipn_app_exact, zfirstn_app_exact.
      rewrite (IH pad fuel Hp).
      * destruct o as [k lf d]. cbn in *. subst. reflexivity.
      * cbn [write_options flat_map] in Hf. fold (write_options r) in Hf. unfold write_option in Hf.
        replace (1 <? o_kind o) with true in Hf by lia. rewrite <- !app_assoc in Hf. cbn [app length] in Hf.
        rewrite !app_length in *. lia.
Qed.

Theorem tcp_options_roundtrip os : Forall opt_wf os -> options_size os < 4294967290 ->
  tcp_parse_options (tcp_options_area os) = Ok os.
Proof.
  intros Hw Hs. unfold tcp_parse_options, tcp_options_area. apply parse_write; [assumption| |lia].
  apply Forall_forall. intros x Hx. apply repeat_spec in Hx. assumption.
Qed.

(* the decoder: total, fails only as malformed_packet, and (being a function of the region alone) reads nothing else *)
Theorem parse_safe fuel : forall r, (length r < fuel)%nat ->
  match parse_options fuel r with Ok _ => True | Throw e => e = EX_malformed_packet | OOB _ => False | OutOfFuel => False end.
Proof.
  induction fuel as [|f IH]; intros r Hf; [lia|]. cbn [parse_options].
  destruct r as [|t r1]; [exact I|].
  destruct (t =? 0); [exact I|].
  destruct (t =? 1).
  - specialize (IH r1 ltac:(cbn in Hf; lia)). destruct (parse_options f r1); cbn [bind]; auto.
  - destruct r1 as [|len r2]; [reflexivity|].
    destruct (len <? 2); [reflexivity|].
    destruct (zlen r2 <? len - 2); [reflexivity|].
    assert (Hl : (length (zskipn (len - 2) r2) < f)%nat).
    { unfold zskipn. rewrite skipn_length. cbn in Hf. lia. }
    specialize (IH _ Hl). destruct (parse_options f (zskipn (len - 2) r2)); cbn [bind]; auto.
Qed.

(* ---- TCP as an instance of the serialisation framework ---- *)
From LT Require Import Model.Serialize Proofs.Serialize.

Definition tcp_wr (hdr20 : list Z) (os : list topt) (buf : list Z) : list Z :=
  hdr20 ++ tcp_options_area os ++ zskipn (tcp_header_size os) buf.

Definition tcp_layer (hdr20 : list Z) (os : list topt) : layer := mklayer (tcp_header_size os) 0 (tcp_wr hdr20 os).

Theorem tcp_confined hdr20 os inner : zlen hdr20 = 20 -> options_size os < 4294967290 -> 0 <= inner ->
  confined (tcp_layer hdr20 os) inner.
Proof.
  intros Hh Hs Hi buf Hb. cbn [hs ts wr tcp_layer] in *.
  destruct (area_size os Hs) as (A1 & A2 & A3).
  pose proof (options_size_nonneg os) as Hn. destruct (pad_spec (options_size os) ltac:(lia)) as [P1 P2].
  assert (Hhs : tcp_header_size os = 20 + zlen (tcp_options_area os)) by lia.
  assert (Hsk : zlen (zskipn (tcp_header_size os) buf) = inner).
  { unfold zskipn, zlen in *. rewrite skipn_length. lia. }
  split.
  - unfold tcp_wr. rewrite !zlen_app. lia.
  - unfold tcp_wr, bsub. rewrite app_assoc.
    replace (tcp_header_size os) with (zlen (hdr20 ++ tcp_options_area os)) at 1 by (rewrite zlen_app; lia).
    rewrite zskipn_app_exact. reflexivity.
Qed.

(* the shipped sizing (before the repair) counted a data-less option of kind > 1 as ONE byte although two are written *)
Definition option_size_shipped (o : topt) : Z :=
  1 + (if negb (zlen (o_data o) =? 0) || (o_kind o =? 4) then 1 + zlen (o_data o) else 0).

Example shipped_sizing_refuted : exists o, opt_wf o /\ zlen (write_option o) <> option_size_shipped o.
Proof. exists (mkopt 8 0 []). split; [split; [constructor|right; cbn; lia]|cbn; lia]. Qed.

Lemma firstn_In_compat {A} (x : A) n : forall l, In x (firstn n l) -> In x l.
Proof. induction n as [|n IH]; intros [|a l] H; cbn in *; try contradiction. destruct H as [->|H]; [left; reflexivity|right; auto]. Qed.
Lemma skipn_In_compat {A} (x : A) n : forall l, In x (skipn n l) -> In x l.
Proof. induction n as [|n IH]; intros [|a l] H; cbn in *; try contradiction; auto. Qed.

(* ---- re-serialising what was parsed (C03): the accepted region is its own encoding up to EOL/padding ---- *)
Theorem write_parse fuel : forall r os, Forall (fun x => 0 <= x < 256) r -> parse_options fuel r = Ok os ->
  Forall opt_wf os /\ exists tail, r = write_options os ++ tail /\ (tail = [] \/ exists rest, tail = 0 :: rest).
Proof.
  induction fuel as [|f IH]; intros r os Hb Hp; [discriminate|]. cbn [parse_options] in Hp.
  destruct r as [|t r1].
  - inversion Hp; subst. split; [constructor|]. exists []. split; [reflexivity|left; reflexivity].
  - inversion Hb as [|? ? Ht Hb1]; subst.
    destruct (t =? 0) eqn:E0.
    + inversion Hp; subst. split; [constructor|]. exists (t :: r1). split; [reflexivity|]. right. exists r1. f_equal. lia.
    + destruct (t =? 1) eqn:E1.
      * destruct (parse_options f r1) as [rest| | |] eqn:Er; cbn [bind] in Hp; try discriminate. inversion Hp; subst.
        destruct (IH r1 rest Hb1 Er) as [Hw [tail [Heq Ht']]]. split.
        -- constructor; [|assumption]. split; [constructor|]. left. cbn. auto.
        -- exists tail. split; [|assumption]. cbn [write_options flat_map]. fold (write_options rest).
           unfold write_option. cbn [o_kind]. change (1 <? 1) with false. cbn [app]. change (w8 1) with 1.
           rewrite <- Heq. f_equal. lia.
      * destruct r1 as [|len r2]; [discriminate|]. inversion Hb1 as [|? ? Hlen Hb2]; subst.
        destruct (len <? 2) eqn:E2; [discriminate|].
        destruct (zlen r2 <? len - 2) eqn:E3; [discriminate|].
        destruct (parse_options f (zskipn (len - 2) r2)) as [rest| | |] eqn:Er; cbn [bind] in Hp; try discriminate.
        inversion Hp; subst.
        assert (Hsk : Forall (fun x => 0 <= x < 256) (zskipn (len - 2) r2)).
        { unfold zskipn. apply Forall_forall. intros x Hx. rewrite Forall_forall in Hb2. apply Hb2. eapply skipn_In_compat. exact Hx. }
        destruct (IH _ rest Hsk Er) as [Hw [tail [Heq Ht']]].
        assert (Hfl : zlen (zfirstn (len - 2) r2) = len - 2).
        { unfold zfirstn, zlen in *. rewrite firstn_length. lia. }
        split.
        -- constructor; [|assumption]. split; cbn [o_data o_kind o_lf].
           ++ unfold zfirstn. apply Forall_forall. intros x Hx. rewrite Forall_forall in Hb2. apply Hb2. eapply firstn_In_compat. exact Hx.
           ++ right. rewrite Hfl. lia.
        -- exists tail. split; [|assumption]. cbn [write_options flat_map]. fold (write_options rest).
           unfold write_option. cbn [o_kind o_lf o_data]. replace (1 <? t) with true by lia.
           rewrite Hfl, Z.eqb_refl. unfold w8. rewrite (Z.mod_small t) by lia. rewrite (Z.mod_small (len - 2 + 2)) by lia.
           replace (len - 2 + 2) with len by lia. cbn [app]. f_equal. f_equal.
           rewrite <- app_assoc, <- Heq. unfold zfirstn, zskipn. symmetry. apply firstn_skipn.
Qed.
