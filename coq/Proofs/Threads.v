From LT Require Import Model.Threads.
From Coq Require Import ZArith List Bool Arith Lia.
Import ListNotations.

(* no schedule of disciplined accesses contains a conflicting pair *)
Theorem disciplined_no_conflict (tr : list access) : Forall disciplined tr ->
  forall a b, In a tr -> In b tr -> ~ conflict a b.
Proof.
  intros H a b Ha Hb (Ht & Hl & Hw). rewrite Forall_forall in H. pose proof (H a Ha) as Da. pose proof (H b Hb) as Db.
  unfold disciplined in Da, Db. rewrite <- Hl in Db. destruct (a_loc a) as [t n|s].
  - congruence.
  - destruct Hw; congruence.
Qed.

Section Run.
  Variables Sh P : Type.
  Variable step : nat -> Sh -> P -> P.

  Lemma upd_same (f : nat -> P) t v : upd P f t v t = v.
  Proof. unfold upd. rewrite Nat.eqb_refl. reflexivity. Qed.
  Lemma upd_other (f : nat -> P) t u v : u <> t -> upd P f t v u = f u.
  Proof. intros H. unfold upd. destruct (Nat.eqb u t) eqn:E; [apply Nat.eqb_eq in E; contradiction|reflexivity]. Qed.

  (* under EVERY schedule a thread ends in the state it reaches when it runs alone the same number of steps *)
  Theorem results_as_alone sh schedule : forall st t,
    run Sh P step sh st schedule t = alone Sh P step sh t (st t) (count_occ Nat.eq_dec schedule t).
  Proof.
    induction schedule as [|u r IH]; intros st t; cbn [run count_occ]; [reflexivity|].
    rewrite IH. destruct (Nat.eq_dec u t) as [->|Hne].
    - rewrite upd_same. reflexivity.
    - rewrite upd_other by congruence. reflexivity.
  Qed.
End Run.
