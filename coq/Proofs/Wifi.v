(* 802.11 decryption: memory safety for every frame body, and decrypt-after-encrypt identities. *)
From LT Require Import Base.Prelude Base.CInt Model.Checksum Model.Wifi.
From Coq Require Import ZifyBool.
Local Open Scope Z_scope.
Ltac Zify.zify_post_hook ::= Z.div_mod_to_equations.

(* ---------- lists as arrays ---------- *)
Lemma nth_firstn_lt {A} (l : list A) d : forall n i, (i < n)%nat -> nth i (firstn n l) d = nth i l d.
Proof. induction l as [|x r IH]; intros [|n] [|i] H; cbn; try reflexivity; try lia. apply IH. lia. Qed.

Lemma nth_skipn_add {A} (l : list A) d : forall n i, nth i (skipn n l) d = nth (n + i) l d.
Proof. induction l as [|x r IH]; intros [|n] i; cbn; try reflexivity; [destruct i; reflexivity|apply IH]. Qed.

Lemma zlen_upd l i v : 0 <= i < zlen l -> zlen (upd l i v) = zlen l.
Proof.
  intros H. unfold upd, zlen, zfirstn, zskipn in *. rewrite app_length. cbn [length]. rewrite firstn_length, skipn_length. lia.
Qed.

Lemma nthz_upd_same l i v : 0 <= i < zlen l -> nthz (upd l i v) i = v.
Proof.
  intros H. unfold nthz, upd, zfirstn, zlen in *. rewrite app_nth2; rewrite firstn_length; [|lia].
  replace (Z.to_nat i - Nat.min (Z.to_nat i) (length l))%nat with 0%nat by lia. reflexivity.
Qed.

Lemma nthz_upd_other l i j v : 0 <= i < zlen l -> 0 <= j -> j <> i -> nthz (upd l i v) j = nthz l j.
Proof.
  intros H Hj Hne. unfold nthz, upd, zfirstn, zskipn, zlen in *.
  destruct (Z_lt_dec j i) as [Hlt|Hge].
  - rewrite app_nth1 by (rewrite firstn_length; lia). apply nth_firstn_lt. lia.
  - rewrite app_nth2; rewrite firstn_length; [|lia].
    replace (Z.to_nat j - Nat.min (Z.to_nat i) (length l))%nat with (S (Z.to_nat j - Z.to_nat i - 1))%nat by lia.
    cbn [nth]. rewrite nth_skipn_add. f_equal. lia.
Qed.

Lemma getb_ok b i : 0 <= i < zlen b -> getb b i = Ok (nthz b i).
Proof. intros H. unfold getb. replace ((i <? 0) || (zlen b <=? i)) with false by lia. reflexivity. Qed.

Lemma setb_ok b i v : 0 <= i < zlen b -> setb b i v = Ok (upd b i v).
Proof. intros H. unfold setb. replace ((i <? 0) || (zlen b <=? i)) with false by lia. reflexivity. Qed.

(* ---------- the in-place shifted xor used by RC4 (WEP: 4, TKIP: 8) and by the CCMP blocks (8) ---------- *)
Lemma xor_inplace_spec n : forall ks buf src dst,
  (n <= length ks)%nat -> 0 <= dst <= src -> src + Z.of_nat n <= zlen buf ->
  exists buf', xor_inplace n ks buf src dst = Ok buf' /\ zlen buf' = zlen buf /\
    (forall t, (t < n)%nat -> nthz buf' (dst + Z.of_nat t) = Z.lxor (nth t ks 0) (nthz buf (src + Z.of_nat t))) /\
    (forall x, 0 <= x -> x < dst \/ dst + Z.of_nat n <= x -> nthz buf' x = nthz buf x).
Proof.
  induction n as [|n IH]; intros ks buf src dst Hk Hd Hs.
  - exists buf. cbn. repeat split; auto. intros t Ht. lia.
  - destruct ks as [|k ks]; [cbn in Hk; lia|]. cbn [xor_inplace].
    rewrite getb_ok by lia. cbn [bind]. rewrite setb_ok by lia. cbn [bind].
    set (buf1 := upd buf dst (Z.lxor k (nthz buf src))).
    assert (Hl1 : zlen buf1 = zlen buf) by (apply zlen_upd; lia).
    destruct (IH ks buf1 (src + 1) (dst + 1)) as (buf' & He & Hl & Hin & Hout); [cbn in Hk; lia|lia|lia|].
    exists buf'. split; [exact He|]. split; [lia|]. split.
    + intros t Ht. destruct t as [|t].
      * rewrite Z.add_0_r. rewrite Hout by lia. unfold buf1. rewrite nthz_upd_same by lia. rewrite Z.add_0_r. reflexivity.
      * replace (dst + Z.of_nat (S t)) with (dst + 1 + Z.of_nat t) by lia. rewrite Hin by lia. cbn [nth].
        unfold buf1. rewrite nthz_upd_other by lia. f_equal. f_equal. lia.
    + intros x Hx Hr. rewrite Hout by lia. unfold buf1. apply nthz_upd_other; lia.
Qed.

(* RC4: the keystream does not depend on the data *)
Fixpoint keystream (n : nat) (s : list Z) (i j : Z) : list Z :=
  match n with
  | O => []
  | S m =>
      let i' := (i + 1) mod 256 in
      let j' := (j + nthz s i') mod 256 in
      let s' := sw s i' j' in
      nthz s' ((nthz s' i' + nthz s' j') mod 256) :: keystream m s' i' j'
  end.

Lemma keystream_length n : forall s i j, length (keystream n s i j) = n.
Proof. induction n as [|n IH]; intros; cbn; [reflexivity|]. rewrite IH. reflexivity. Qed.

Lemma rc4_go_xor n : forall s i j buf src dst, rc4_go n s i j buf src dst = xor_inplace n (keystream n s i j) buf src dst.
Proof.
  induction n as [|n IH]; intros; [reflexivity|]. cbn [rc4_go keystream xor_inplace].
  destruct (getb buf src) as [x| | |]; cbn [bind]; try reflexivity.
  rewrite Z.lxor_comm. destruct (setb buf dst _) as [b| | |]; cbn [bind]; try reflexivity. apply IH.
Qed.

Definition fine {A} (x : res A) : Prop := match x with Ok _ => True | _ => False end.

Lemma icv_ok_fine buf n : 0 <= n -> n + 4 <= zlen buf -> exists b, icv_ok buf n = Ok b.
Proof. intros H1 H2. unfold icv_ok. rewrite !getb_ok by lia. cbn [bind]. eauto. Qed.

(* ---------- WEP ---------- *)
Theorem wep_decrypt_safe pload pw : fine (wep_decrypt pload pw).
Proof.
  unfold wep_decrypt. destruct (zlen pload <=? 8) eqn:E; [exact I|].
  rewrite !getb_ok by lia. cbn [bind]. rewrite rc4_go_xor.
  destruct (xor_inplace_spec (Z.to_nat (zlen pload - 4)) (keystream (Z.to_nat (zlen pload - 4)) (ksa ([nthz pload 0; nthz pload 1; nthz pload 2] ++ pw)) 0 0) pload 4 0)
    as (buf & -> & Hl & _); [rewrite keystream_length; lia|lia|lia|].
  cbn [bind]. destruct (icv_ok_fine buf (zlen pload - 8)) as [b ->]; [lia|lia|]. cbn [bind]. destruct b; exact I.
Qed.

Lemma xor_inplace_fine n : forall ks buf src dst, 0 <= dst <= src -> src + Z.of_nat n <= zlen buf ->
  exists buf', xor_inplace n ks buf src dst = Ok buf' /\ zlen buf' = zlen buf.
Proof.
  induction n as [|n IH]; intros ks buf src dst Hd Hs; [exists buf; split; reflexivity|].
  destruct ks as [|k ks]; [exists buf; split; reflexivity|]. cbn [xor_inplace].
  rewrite getb_ok by lia. cbn [bind]. rewrite setb_ok by lia. cbn [bind].
  destruct (IH ks (upd buf dst (Z.lxor k (nthz buf src))) (src + 1) (dst + 1)) as (b & He & Hl); [lia|rewrite zlen_upd by lia; lia|].
  exists b. split; [exact He|]. rewrite Hl. apply zlen_upd. lia.
Qed.

(* ---------- TKIP ---------- *)
Lemma tkip_key_fine ta tk pload : 8 <= zlen pload -> exists k, tkip_key ta tk pload = Ok k.
Proof.
  intros H. unfold tkip_key. rewrite !getb_ok by lia. cbn [bind].
  destruct (p1_round tk 3 _) as [[[[p0 p1] p2] p3] p4]. eauto.
Qed.

Theorem tkip_decrypt_safe ta tk pload : fine (tkip_decrypt ta tk pload).
Proof.
  unfold tkip_decrypt. destruct (zlen pload <=? 20) eqn:E; [exact I|].
  destruct (tkip_key_fine ta tk pload) as [k ->]; [lia|]. cbn [bind]. rewrite rc4_go_xor.
  destruct (xor_inplace_fine (Z.to_nat (zlen pload - 8)) (keystream (Z.to_nat (zlen pload - 8)) (ksa k) 0 0) pload 8 0) as (buf & -> & Hl); [lia|lia|].
  cbn [bind]. destruct (icv_ok_fine buf (zlen pload - 12)) as [b ->]; [lia|lia|]. cbn [bind]. destruct b; exact I.
Qed.

(* ---------- CCMP ---------- *)
Section CCMP_safe.
  Variable E : list Z -> list Z.

  Lemma ccmp_blocks_fine fuel : forall i mic buf blocks total pfx offset,
    1 <= i -> 0 <= total -> blocks = (total + 15) / 16 -> zlen buf = total + 16 -> (Z.to_nat (blocks + 1 - i) <= fuel)%nat ->
    (i <= blocks -> offset = 8 + 16 * (i - 1)) ->
    exists r, ccmp_blocks E fuel i blocks total offset pfx mic buf = Ok r /\ zlen (snd r) = total + 16.
  Proof.
    induction fuel as [|f IH]; intros i mic buf blocks total pfx offset Hi Ht Hb Hl Hf Ho; cbn [ccmp_blocks].
    - replace (blocks <? i) with true by lia. eexists. split; [reflexivity|exact Hl].
    - destruct (blocks <? i) eqn:Eb; [eexists; split; [reflexivity|exact Hl]|].
      rewrite Ho by lia.
      set (bs0 := if i =? blocks then total mod 16 else 16). set (bs := if bs0 =? 0 then 16 else bs0).
      assert (Hbs : 1 <= bs <= 16 /\ 16 * (i - 1) + bs <= total /\ (i + 1 <= blocks -> bs = 16)).
      { subst bs bs0. destruct (i =? blocks) eqn:Ei.
        - assert (i = blocks) by lia. subst i. destruct (total mod 16 =? 0) eqn:Em; lia.
        - change (16 =? 0) with false. cbv iota. lia. }
      destruct (xor_inplace_fine (Z.to_nat bs) (E (pfx ++ be16 i)) buf (8 + 16 * (i - 1)) ((i - 1) * 16)) as (buf' & He & Hl'); [lia|lia|].
      rewrite He. cbn [bind].
      apply IH; lia.
  Qed.

  Theorem ccmp_decrypt_safe h pload : fine (ccmp_decrypt E h pload).
  Proof.
    unfold ccmp_decrypt. destruct (zlen pload <=? 16) eqn:El; [exact I|].
    rewrite !getb_ok by lia. cbn [bind].
    match goal with |- context [ccmp_blocks E ?f 1 ?b ?t 8 ?p ?m pload] =>
      destruct (ccmp_blocks_fine f 1 m pload b t p 8) as ([mic' buf] & -> & _); [lia|lia|reflexivity|lia|lia|lia|] end.
    cbn [bind]. destruct (beql _ _); exact I.
  Qed.
End CCMP_safe.

(* ---------- decrypt after encrypt ---------- *)
Lemma xorl_length a b : length (xorl a b) = Nat.min (length a) (length b).
Proof. unfold xorl. rewrite map_length, combine_length. reflexivity. Qed.

Lemma nth_xorl a : forall b t, (t < length a)%nat -> (t < length b)%nat -> nth t (xorl a b) 0 = Z.lxor (nth t a 0) (nth t b 0).
Proof.
  induction a as [|x r IH]; intros [|y s] t Ha Hb; cbn in *; try lia. destruct t as [|t]; [reflexivity|]. apply IH; lia.
Qed.

Lemma firstn_ext {A} (d : A) n : forall a b, (n <= length a)%nat -> (n <= length b)%nat ->
  (forall t, (t < n)%nat -> nth t a d = nth t b d) -> firstn n a = firstn n b.
Proof.
  induction n as [|n IH]; intros a b Ha Hb H; [reflexivity|].
  destruct a as [|x r]; [cbn in Ha; lia|]. destruct b as [|y s]; [cbn in Hb; lia|]. cbn.
  f_equal; [exact (H 0%nat ltac:(lia))|]. apply IH; cbn in *; try lia. intros t Ht. exact (H (S t) ltac:(lia)).
Qed.

Lemma lxor_cancel k x : Z.lxor k (Z.lxor k x) = x.
Proof. rewrite <- Z.lxor_assoc, Z.lxor_nilpotent, Z.lxor_0_l. reflexivity. Qed.

(* the RC4 pass of WEP/TKIP undoes the sender's RC4 pass, although it runs in place with overlapping ranges *)
Lemma rc4_shift_roundtrip hdr pt s :
  exists buf', rc4_go (length pt) s 0 0 (hdr ++ xorl (keystream (length pt) s 0 0) pt) (zlen hdr) 0 = Ok buf' /\
               zlen buf' = zlen hdr + zlen pt /\ firstn (length pt) buf' = pt.
Proof.
  set (ks := keystream (length pt) s 0 0). set (c := xorl ks pt). set (body := hdr ++ c).
  assert (Hks : length ks = length pt) by apply keystream_length.
  assert (Hc : length c = length pt) by (unfold c; rewrite xorl_length; lia).
  assert (Hb : zlen body = zlen hdr + zlen pt) by (unfold body; rewrite zlen_app; unfold zlen; lia).
  rewrite rc4_go_xor. fold ks.
  destruct (xor_inplace_spec (length pt) ks body (zlen hdr) 0) as (buf' & He & Hl & Hin & _).
  - lia.
  - pose proof (zlen_nonneg hdr). lia.
  - unfold zlen in *. lia.
  - exists buf'. split; [exact He|]. split; [lia|].
    rewrite <- (firstn_all pt) at 2. apply (firstn_ext 0).
    + unfold zlen in *. lia.
    + lia.
    + intros t Ht. specialize (Hin t Ht). rewrite Z.add_0_l in Hin. unfold nthz in Hin. rewrite Nat2Z.id in Hin. rewrite Hin.
      unfold body. replace (Z.to_nat (zlen hdr + Z.of_nat t)) with (length hdr + t)%nat by (unfold zlen; lia).
      rewrite app_nth2_plus. unfold c. rewrite nth_xorl by lia. apply lxor_cancel.
Qed.

Lemma beql_refl a : beql a a = true.
Proof. induction a as [|x r IH]; cbn; [reflexivity|]. rewrite Z.eqb_refl, IH. reflexivity. Qed.

(* ICV check on a buffer that starts with m followed by the little-endian CRC of m *)
Lemma icv_ok_good buf m : firstn (length m + 4) buf = m ++ le32 (crc32 m) -> icv_ok buf (zlen m) = Ok true.
Proof.
  intros H. unfold icv_ok.
  assert (Hlen : (length m + 4 <= length buf)%nat).
  { apply (f_equal (@length Z)) in H. rewrite firstn_length, app_length in H. cbn in H. lia. }
  assert (Hn : forall t, (t < length m + 4)%nat -> nth t buf 0 = nth t (m ++ le32 (crc32 m)) 0).
  { intros t Ht. rewrite <- H. symmetry. apply nth_firstn_lt. exact Ht. }
  assert (Hf : zfirstn (zlen m) buf = m).
  { unfold zfirstn, zlen. rewrite Nat2Z.id. apply (f_equal (firstn (length m))) in H.
    rewrite firstn_firstn in H. replace (Nat.min (length m) (length m + 4)) with (length m) in H by lia.
    rewrite H. rewrite firstn_app, firstn_all, Nat.sub_diag. cbn. apply app_nil_r. }
  rewrite Hf. rewrite !getb_ok by (unfold zlen; lia). cbn [bind]. f_equal.
  unfold nthz, zlen. 
  replace (Z.to_nat (Z.of_nat (length m))) with (length m + 0)%nat by lia.
  replace (Z.to_nat (Z.of_nat (length m) + 1)) with (length m + 1)%nat by lia.
  replace (Z.to_nat (Z.of_nat (length m) + 2)) with (length m + 2)%nat by lia.
  replace (Z.to_nat (Z.of_nat (length m) + 3)) with (length m + 3)%nat by lia.
  rewrite !Hn by lia. rewrite !app_nth2_plus. cbn [le32 nth]. apply beql_refl.
Qed.

(* WEP: what a sender does (IEEE 802.11 11.2.2), and that libtins' decryption inverts it for every key, IV and payload *)
Definition wep_encrypt (pw : list Z) (i0 i1 i2 kid : Z) (m : list Z) : list Z :=
  let pt := m ++ le32 (crc32 m) in
  [i0; i1; i2; kid] ++ xorl (keystream (length pt) (ksa ([i0; i1; i2] ++ pw)) 0 0) pt.

Theorem wep_roundtrip pw i0 i1 i2 kid m : m <> [] -> wep_decrypt (wep_encrypt pw i0 i1 i2 kid m) pw = Ok (Some m).
Proof.
  intros Hm. unfold wep_encrypt. set (pt := m ++ le32 (crc32 m)). set (s := ksa ([i0; i1; i2] ++ pw)).
  assert (Hpt : length pt = (length m + 4)%nat) by (unfold pt; rewrite app_length; reflexivity).
  assert (Hm1 : (1 <= length m)%nat) by (destruct m; [contradiction|cbn; lia]).
  destruct (rc4_shift_roundtrip [i0; i1; i2; kid] pt s) as (buf & He & Hl & Hf).
  set (body := [i0; i1; i2; kid] ++ xorl (keystream (length pt) s 0 0) pt) in *.
  assert (Hb : zlen body = 4 + zlen pt).
  { unfold body. rewrite zlen_app. unfold zlen. rewrite xorl_length, keystream_length. cbn [length]. lia. }
  unfold wep_decrypt. replace (zlen body <=? 8) with false by (unfold zlen in *; lia).
  rewrite !getb_ok by (unfold zlen in *; lia).
  change (nthz body 0) with i0. change (nthz body 1) with i1. change (nthz body 2) with i2. cbn [bind]. fold s.
  replace (Z.to_nat (zlen body - 4)) with (length pt) by (unfold zlen in *; lia).
  change (zlen [i0; i1; i2; kid]) with 4 in He. rewrite He. cbn [bind].
  replace (zlen body - 8) with (zlen m) by (unfold zlen in *; lia).
  rewrite (icv_ok_good buf m) by (rewrite <- Hpt; exact Hf). cbn [bind]. f_equal. f_equal.
  unfold zfirstn, zlen. rewrite Nat2Z.id. apply (f_equal (firstn (length m))) in Hf.
  rewrite firstn_firstn in Hf. replace (Nat.min (length m) (length pt)) with (length m) in Hf by lia.
  rewrite Hf. unfold pt. rewrite firstn_app, firstn_all, Nat.sub_diag. cbn. apply app_nil_r.
Qed.

(* TKIP: the per-packet key depends on the first 8 body bytes only; decrypting what a sender produced with that key gives
   back the MSDU (the Michael MIC bytes are carried along: libtins strips them without verifying them, see DESIGN.md) *)
Lemma tkip_key_prefix ta tk b0 b1 b2 b3 b4 b5 b6 b7 rest :
  tkip_key ta tk ([b0; b1; b2; b3; b4; b5; b6; b7] ++ rest) = tkip_key ta tk [b0; b1; b2; b3; b4; b5; b6; b7].
Proof.
  unfold tkip_key.
  assert (H : 8 <= zlen ([b0; b1; b2; b3; b4; b5; b6; b7] ++ rest)) by (rewrite zlen_app; change (zlen [b0; b1; b2; b3; b4; b5; b6; b7]) with 8; pose proof (zlen_nonneg rest); lia).
  rewrite !getb_ok by lia. rewrite !getb_ok by (change (zlen [b0; b1; b2; b3; b4; b5; b6; b7]) with 8; lia). reflexivity.
Qed.

Theorem tkip_roundtrip ta tk b0 b1 b2 b3 b4 b5 b6 b7 m mic key :
  m <> [] -> length mic = 8%nat -> tkip_key ta tk [b0; b1; b2; b3; b4; b5; b6; b7] = Ok key ->
  let pt := m ++ mic ++ le32 (crc32 (m ++ mic)) in
  tkip_decrypt ta tk ([b0; b1; b2; b3; b4; b5; b6; b7] ++ xorl (keystream (length pt) (ksa key) 0 0) pt) = Ok (Some m).
Proof.
  intros Hm Hmic Hkey pt. set (hdr := [b0; b1; b2; b3; b4; b5; b6; b7]).
  assert (Hpt : length pt = (length m + 12)%nat) by (unfold pt; rewrite !app_length, Hmic; reflexivity).
  assert (Hm1 : (1 <= length m)%nat) by (destruct m; [contradiction|cbn; lia]).
  destruct (rc4_shift_roundtrip hdr pt (ksa key)) as (buf & He & Hl & Hf).
  set (body := hdr ++ xorl (keystream (length pt) (ksa key) 0 0) pt) in *.
  assert (Hb : zlen body = 8 + zlen pt).
  { unfold body. rewrite zlen_app. unfold zlen. rewrite xorl_length, keystream_length. cbn [length hdr]. lia. }
  unfold tkip_decrypt. replace (zlen body <=? 20) with false by (unfold zlen in *; lia).
  assert (Hk2 : tkip_key ta tk body = Ok key) by (unfold body, hdr; rewrite tkip_key_prefix; exact Hkey).
  rewrite Hk2. cbn [bind].
  replace (Z.to_nat (zlen body - 8)) with (length pt) by (unfold zlen in *; lia).
  change (zlen hdr) with 8 in He. rewrite He. cbn [bind].
  replace (zlen body - 12) with (zlen (m ++ mic)) by (unfold zlen in *; rewrite app_length; lia).
  rewrite (icv_ok_good buf (m ++ mic)).
  2:{ replace (length (m ++ mic) + 4)%nat with (length pt) by (rewrite app_length; lia). rewrite Hf. unfold pt. rewrite app_assoc. reflexivity. }
  cbn [bind]. f_equal. f_equal.
  replace (zlen body - 20) with (zlen m) by (unfold zlen in *; lia).
  unfold zfirstn, zlen. rewrite Nat2Z.id. apply (f_equal (firstn (length m))) in Hf.
  rewrite firstn_firstn in Hf. replace (Nat.min (length m) (length pt)) with (length m) in Hf by lia.
  rewrite Hf. unfold pt. rewrite firstn_app, firstn_all, Nat.sub_diag. cbn. apply app_nil_r.
Qed.

(* never "decrypted" unless the ICV verifies *)
Theorem wep_accepts_only_valid_icv pload pw m : wep_decrypt pload pw = Ok (Some m) ->
  exists buf, rc4_go (Z.to_nat (zlen pload - 4)) (ksa ([nthz pload 0; nthz pload 1; nthz pload 2] ++ pw)) 0 0 pload 4 0 = Ok buf /\
              icv_ok buf (zlen pload - 8) = Ok true /\ m = zfirstn (zlen pload - 8) buf.
Proof.
  unfold wep_decrypt. destruct (zlen pload <=? 8) eqn:E; [discriminate|].
  rewrite !getb_ok by lia. cbn [bind].
  destruct (rc4_go _ _ _ _ _ _ _) as [buf| | |]; cbn [bind]; try discriminate.
  destruct (icv_ok buf _) as [[|]| | |] eqn:Ei; cbn [bind]; try discriminate.
  intros H. injection H as <-. exists buf. auto.
Qed.

(* ---------- the four-way handshake capturer ---------- *)
Fixpoint hs_run (entry : option (list Z)) (msgs : list (hmsg * Z)) : option (list Z) * list (list Z) :=
  match msgs with
  | [] => (entry, [])
  | (m, id) :: r =>
      let '(e, done) := hs_step entry m id in
      let '(e', ds) := hs_run e r in
      (e', match done with Some l => l :: ds | None => ds end)
  end.

Lemma hs_run_app e a b : hs_run e (a ++ b) = let '(e1, d1) := hs_run e a in let '(e2, d2) := hs_run e1 b in (e2, d1 ++ d2).
Proof.
  revert e. induction a as [|[m id] r IH]; intros e; cbn [app hs_run].
  - destruct (hs_run e b). reflexivity.
  - destruct (hs_step e m id) as [e1 done]. rewrite IH. destruct (hs_run e1 r) as [e2 d2]. destruct (hs_run e2 b) as [e3 d3].
    destruct done; reflexivity.
Qed.

Definition rep (m : hmsg) (id : Z) (n : nat) : list (hmsg * Z) := repeat (m, id) n.

Lemma run_dup e m id n : hs_step e m id = (e, None) -> hs_run e (rep m id n) = (e, []).
Proof. intros H. induction n as [|n IH]; [reflexivity|]. change (rep m id (S n)) with ((m, id) :: rep m id n). cbn [hs_run]. rewrite H, IH. reflexivity. Qed.

Lemma run_m1 e a n : hs_run e (rep M1 a (S n)) = (Some [a], []).
Proof. change (rep M1 a (S n)) with ((M1, a) :: rep M1 a n). cbn [hs_run hs_step]. rewrite run_dup; reflexivity. Qed.

Lemma run_m2 a b n : hs_run (Some [a]) (rep M2 b (S n)) = (Some [a; b], []).
Proof.
  change (rep M2 b (S n)) with ((M2, b) :: rep M2 b n). cbn [hs_run].
  change (hs_step (Some [a]) M2 b) with (Some [a; b], @None (list Z)). cbv iota beta. rewrite run_dup; reflexivity.
Qed.

Lemma run_m3 a b c n : hs_run (Some [a; b]) (rep M3 c (S n)) = (Some [a; b; c], []).
Proof.
  change (rep M3 c (S n)) with ((M3, c) :: rep M3 c n). cbn [hs_run].
  change (hs_step (Some [a; b]) M3 c) with (Some [a; b; c], @None (list Z)). cbv iota beta. rewrite run_dup; reflexivity.
Qed.

(* any valid run - message 1, 2, 3 each possibly retransmitted, then message 4, whatever was collected before (an earlier,
   abandoned attempt included) - completes exactly once, at message 4, with the four messages of this run; a retransmitted
   message 4 afterwards completes nothing *)
Theorem handshake_completes e a b c d n1 n2 n3 n4 :
  hs_run e (rep M1 a (S n1) ++ rep M2 b (S n2) ++ rep M3 c (S n3) ++ [(M4, d)] ++ rep M4 d n4) = (None, [[a; b; c; d]]).
Proof.
  rewrite hs_run_app, run_m1. rewrite hs_run_app, run_m2. rewrite hs_run_app, run_m3.
  change ([(M4, d)] ++ rep M4 d n4) with ((M4, d) :: rep M4 d n4). cbn [hs_run].
  change (hs_step (Some [a; b; c]) M4 d) with (@None (list Z), Some [a; b; c; d]). cbv iota beta.
  rewrite run_dup; reflexivity.
Qed.

(* an out-of-place message never completes a handshake: completion needs exactly three collected messages *)
Theorem completion_needs_three e m id l : snd (hs_step e m id) = Some l -> m = M4 /\ exists x y z, e = Some [x; y; z] /\ l = [x; y; z; id].
Proof.
  destruct m; cbn; try discriminate.
  destruct e as [l0|]; cbn; [|discriminate].
  destruct (zlen l0 =? 3) eqn:E; cbn; [|destruct (zlen l0 =? 4); cbn; discriminate].
  intros H. injection H as <-. split; [reflexivity|].
  assert (Hl : length l0 = 3%nat) by (unfold zlen in E; lia).
  destruct l0 as [|x [|y [|z [|w r]]]]; cbn in Hl; try lia. exists x, y, z. split; reflexivity.
Qed.

(* ---------- CCMP: decrypt after encrypt, for any block function with 16-byte output ---------- *)
(* list form of the in-place shifted xor *)
Lemma nth_ext_len (a b : list Z) : length a = length b -> (forall t, (t < length a)%nat -> nth t a 0 = nth t b 0) -> a = b.
Proof.
  revert b. induction a as [|x r IH]; intros [|y s] Hl H; cbn in Hl; try lia; [reflexivity|].
  f_equal; [exact (H 0%nat ltac:(cbn; lia))|]. apply IH; [lia|]. intros t Ht. exact (H (S t) ltac:(cbn; lia)).
Qed.

Lemma xor_inplace_list n ks buf src dst :
  (n <= length ks)%nat -> 0 <= dst <= src -> src + Z.of_nat n <= zlen buf ->
  exists buf', xor_inplace n ks buf src dst = Ok buf' /\
    buf' = firstn (Z.to_nat dst) buf ++ xorl (firstn n ks) (firstn n (skipn (Z.to_nat src) buf)) ++ skipn (Z.to_nat dst + n) buf.
Proof.
  intros Hk Hd Hs. destruct (xor_inplace_spec n ks buf src dst Hk Hd Hs) as (buf' & He & Hl & Hin & Hout).
  exists buf'. split; [exact He|]. unfold zlen in *.
  assert (Hx : length (xorl (firstn n ks) (firstn n (skipn (Z.to_nat src) buf))) = n).
  { rewrite xorl_length, !firstn_length, skipn_length. lia. }
  apply nth_ext_len.
  - rewrite !app_length, Hx, firstn_length, skipn_length. lia.
  - intros t Ht.
    destruct (Nat.lt_ge_cases t (Z.to_nat dst)) as [H1|H1].
    + rewrite app_nth1 by (rewrite firstn_length; lia). rewrite nth_firstn_lt by lia.
      specialize (Hout (Z.of_nat t) ltac:(lia) ltac:(lia)). unfold nthz in Hout. rewrite Nat2Z.id in Hout. exact Hout.
    + rewrite app_nth2 by (rewrite firstn_length; lia). rewrite firstn_length.
      replace (Nat.min (Z.to_nat dst) (length buf)) with (Z.to_nat dst) by lia.
      destruct (Nat.lt_ge_cases (t - Z.to_nat dst) n) as [H2|H2].
      * rewrite app_nth1 by lia. rewrite nth_xorl by (rewrite firstn_length, ?skipn_length; lia).
        rewrite !nth_firstn_lt by lia. rewrite nth_skipn_add.
        specialize (Hin (t - Z.to_nat dst)%nat H2). unfold nthz in Hin.
        replace (Z.to_nat (dst + Z.of_nat (t - Z.to_nat dst))) with t in Hin by lia.
        replace (Z.to_nat (src + Z.of_nat (t - Z.to_nat dst))) with (Z.to_nat src + (t - Z.to_nat dst))%nat in Hin by lia.
        exact Hin.
      * rewrite app_nth2 by lia. rewrite Hx, nth_skipn_add.
        replace (Z.to_nat dst + n + (t - Z.to_nat dst - n))%nat with t by lia.
        specialize (Hout (Z.of_nat t) ltac:(lia) ltac:(lia)). unfold nthz in Hout. rewrite Nat2Z.id in Hout. exact Hout.
Qed.

Lemma skipn_app_plus {A} (a b : list A) k : skipn (length a + k) (a ++ b) = skipn k b.
Proof. induction a as [|x r IH]; cbn; [reflexivity|exact IH]. Qed.
Lemma firstn_app_exact {A} (a b : list A) : firstn (length a) (a ++ b) = a.
Proof. rewrite firstn_app, firstn_all, Nat.sub_diag. cbn. apply app_nil_r. Qed.
Lemma skipn_app_le {A} (a b : list A) n : (n <= length a)%nat -> skipn n (a ++ b) = skipn n a ++ b.
Proof. intros H. rewrite skipn_app. replace (n - length a)%nat with 0%nat by lia. reflexivity. Qed.

Lemma skipn_add {A} (l : list A) : forall a b, skipn (a + b) l = skipn b (skipn a l).
Proof. induction l as [|x r IH]; intros [|a] b; cbn; try reflexivity; [destruct b; reflexivity|apply IH]. Qed.

Section CCMP_roundtrip.
  Variable E : list Z -> list Z.
  Hypothesis E16 : forall x, length (E x) = 16%nat.

  (* what a sender does with the payload (RFC 3610 with the 802.11 parameters): counter-mode blocks and the CBC-MAC chain *)
  Fixpoint ctr_enc (fuel : nat) (pfx : list Z) (i : Z) (m : list Z) : list Z :=
    match fuel, m with
    | S f, _ :: _ => xorl (E (pfx ++ be16 i)) (firstn 16 m) ++ ctr_enc f pfx (i + 1) (skipn 16 m)
    | _, _ => []
    end.
  Fixpoint cbc_mac (fuel : nat) (mic : list Z) (m : list Z) : list Z :=
    match fuel, m with
    | S f, _ :: _ => cbc_mac f (E (xor_first mic (firstn 16 m))) (skipn 16 m)
    | _, _ => mic
    end.

  Lemma xorl_cancel a b : (length b <= length a)%nat -> xorl (firstn (length b) a) (xorl a b) = b.
  Proof.
    revert b. induction a as [|x r IH]; intros [|y s] H; cbn in *; try lia; [reflexivity|reflexivity|].
    f_equal; [apply lxor_cancel|apply IH; lia].
  Qed.

  Lemma xorl_firstn_l a b : xorl (firstn (length b) a) b = xorl a b.
  Proof. revert b. induction a as [|x r IH]; intros [|y s]; cbn; try reflexivity. f_equal. apply IH. Qed.

  (* the decryption loop, from block i on: [done] is the plaintext recovered so far, [gap] the 8 stale bytes behind it *)
  Lemma ccmp_blocks_rt fuel : forall i mic done gap rest tag blocks total pfx,
    1 <= i -> length done = Z.to_nat (16 * (i - 1)) -> length gap = 8%nat ->
    total = Z.of_nat (length done + length rest) -> blocks = (total + 15) / 16 ->
    (length rest <= 16 * fuel)%nat -> (rest = [] -> blocks < i) -> (rest <> [] -> i <= blocks) ->
    ccmp_blocks E fuel i blocks total (8 + 16 * (i - 1)) pfx mic (done ++ gap ++ ctr_enc fuel pfx i rest ++ tag) =
      Ok (cbc_mac fuel mic rest, (done ++ rest) ++ skipn (length rest) (gap ++ ctr_enc fuel pfx i rest) ++ tag).
  Proof.
    induction fuel as [|f IH]; intros i mic done gap rest tag blocks total pfx Hi Hd Hg Ht Hb Hf He Hne.
    - assert (rest = []) by (destruct rest; [reflexivity|cbn in Hf; lia]). subst rest. cbn [ccmp_blocks ctr_enc cbc_mac].
      replace (blocks <? i) with true by (specialize (He eq_refl); lia). rewrite !app_nil_r. cbn [length skipn app]. reflexivity.
    - destruct rest as [|r0 rest'].
      + cbn [ccmp_blocks ctr_enc cbc_mac]. replace (blocks <? i) with true by (specialize (He eq_refl); lia).
        rewrite !app_nil_r. cbn [length skipn app]. reflexivity.
      + set (rest := r0 :: rest') in *. assert (Hle : i <= blocks) by (apply Hne; discriminate).
        cbn [ccmp_blocks]. replace (blocks <? i) with false by lia.
        set (blk := firstn 16 rest). set (bs := Z.of_nat (length blk)).
        assert (Hbl : (1 <= length blk <= 16)%nat) by (unfold blk; rewrite firstn_length; cbn [length rest]; lia).
        assert (Hbs : (if (if i =? blocks then total mod 16 else 16) =? 0 then 16 else (if i =? blocks then total mod 16 else 16)) = bs).
        { unfold bs, blk. rewrite firstn_length.
          assert (Hlr : (1 <= length rest)%nat) by (unfold rest; cbn [length]; lia).
          assert (Hdz : Z.of_nat (length done) = 16 * (i - 1)) by lia.
          assert (Htz : total = 16 * (i - 1) + Z.of_nat (length rest)) by lia.
          clearbody rest. clear Hd Ht.
          destruct (i =? blocks) eqn:Ei.
          - assert (i = blocks) by lia. subst i. destruct (total mod 16 =? 0) eqn:Em; lia.
          - change (16 =? 0) with false. cbv iota. lia. }
        rewrite Hbs.
        assert (Hctr : ctr_enc (S f) pfx i rest = xorl (E (pfx ++ be16 i)) blk ++ ctr_enc f pfx (i + 1) (skipn 16 rest)) by reflexivity.
        rewrite Hctr.
        set (cblk := xorl (E (pfx ++ be16 i)) blk). set (R := ctr_enc f pfx (i + 1) (skipn 16 rest)).
        assert (Hcl : length cblk = length blk) by (unfold cblk; rewrite xorl_length, E16; lia).
        set (buf := done ++ gap ++ (cblk ++ R) ++ tag).
        destruct (xor_inplace_list (Z.to_nat bs) (E (pfx ++ be16 i)) buf (8 + 16 * (i - 1)) ((i - 1) * 16)) as (buf' & Hx & Hbuf').
        { rewrite E16. lia. } { lia. }
        { unfold buf, zlen. rewrite !app_length, Hd, Hg, Hcl. lia. }
        rewrite Hx. cbn [bind].
        (* the new buffer *)
        assert (Hb' : buf' = (done ++ blk) ++ skipn (length blk) (gap ++ cblk) ++ R ++ tag).
        { rewrite Hbuf'. unfold buf, bs. rewrite Nat2Z.id.
          replace (Z.to_nat ((i - 1) * 16)) with (length done) by lia.
          replace (Z.to_nat (8 + 16 * (i - 1))) with (length done + 8)%nat by lia.
          rewrite firstn_app_exact. rewrite !skipn_app_plus.
          replace 8%nat with (length gap + 0)%nat at 1 by lia. rewrite skipn_app_plus. cbn [skipn].
          rewrite <- (app_assoc cblk R tag). rewrite <- Hcl. rewrite firstn_app_exact. rewrite Hcl.
          unfold cblk at 1. rewrite xorl_cancel by (rewrite E16; lia).
          rewrite <- !app_assoc. f_equal. f_equal.
          rewrite (app_assoc gap cblk). rewrite skipn_app_le by (rewrite app_length; lia). reflexivity. }
        (* the MAC input of this round is the recovered block *)
        assert (Hm : zfirstn bs (zskipn ((i - 1) * 16) buf') = blk).
        { rewrite Hb'. unfold zfirstn, zskipn, bs. rewrite Nat2Z.id. replace (Z.to_nat ((i - 1) * 16)) with (length done) by lia.
          rewrite <- app_assoc. rewrite skipn_app, skipn_all2 by lia. cbn [app]. rewrite Nat.sub_diag. cbn [skipn].
          rewrite firstn_app, firstn_all, Nat.sub_diag. cbn [firstn]. apply app_nil_r. }
        rewrite Hm.
        assert (Hgap : length (skipn (length blk) (gap ++ cblk)) = 8%nat) by (rewrite skipn_length, app_length; lia).
        assert (Hrest : rest = blk ++ skipn 16 rest) by (unfold blk; symmetry; apply firstn_skipn).
        assert (Hlr : length rest = (length blk + length (skipn 16 rest))%nat) by (rewrite Hrest at 1; apply app_length).
        destruct (skipn 16 rest) as [|q0 q] eqn:Esk.
        { (* this was the last block *)
          assert (HR : R = []) by (unfold R; destruct f; reflexivity).
          assert (Hblk : blk = rest) by (rewrite app_nil_r in Hrest; symmetry; exact Hrest).
          assert (Hlast : blocks < i + 1).
          { assert (Hdz : Z.of_nat (length done) = 16 * (i - 1)) by lia. cbn [length] in Hlr. clear Hd Hbuf' Hb' Hm. lia. }
          assert (Hend : forall off mc bf, ccmp_blocks E f (i + 1) blocks total off pfx mc bf = Ok (mc, bf)).
          { intros. destruct f; cbn [ccmp_blocks]; replace (blocks <? i + 1) with true by lia; reflexivity. }
          rewrite Hend. f_equal. f_equal.
          * cbn [cbc_mac]. unfold rest at 1. fold rest. fold blk. rewrite Esk. destruct f; reflexivity.
          * rewrite Hb', HR, Hblk. cbn [app]. rewrite app_nil_r. reflexivity. }
        { (* a full block, more to come *)
          assert (Hb16 : length blk = 16%nat).
          { unfold blk. rewrite firstn_length. cbn [length] in Hlr. unfold blk in Hlr. rewrite firstn_length in Hlr. lia. }
          replace (8 + 16 * (i - 1) + bs) with (8 + 16 * (i + 1 - 1)) by (unfold bs; lia).
          rewrite Hb'. unfold R.
          rewrite (IH (i + 1) (E (xor_first mic blk)) (done ++ blk) (skipn (length blk) (gap ++ cblk)) (q0 :: q) tag blocks total pfx).
          * f_equal. f_equal.
            -- cbn [cbc_mac]. unfold rest at 1. fold rest. fold blk. rewrite Esk. reflexivity.
            -- assert (H1 : (done ++ blk) ++ q0 :: q = done ++ rest) by (rewrite <- app_assoc; f_equal; symmetry; exact Hrest).
               rewrite H1. f_equal. f_equal. rewrite Hlr. rewrite skipn_add. f_equal.
               symmetry. rewrite (app_assoc gap cblk). apply skipn_app_le. rewrite app_length. lia.
          * lia.
          * rewrite app_length. lia.
          * exact Hgap.
          * rewrite app_length. rewrite Ht, Hlr. cbn [length]. lia.
          * exact Hb.
          * rewrite Hlr in Hf. cbn [length] in *. lia.
          * discriminate.
          * intros _. assert (Hdz : Z.of_nat (length done) = 16 * (i - 1)) by lia. rewrite Hlr in Ht. cbn [length] in Ht. clear Hd Hbuf' Hb' Hm IH. lia. }
  Qed.
  (* the sender (CCMP encapsulation): header, counter-mode ciphertext, encrypted first 8 bytes of the CBC-MAC *)
  Definition ccmp_encrypt (h : d11) (b0 b1 b2 b3 b4 b5 b6 b7 : Z) (m : list Z) : list Z :=
    let pn := [b7; b6; b5; b4; b1; b0] in
    let prio := if h_qos h then h_tid h else 0 in
    let nonce := [prio] ++ h_a2 h ++ pn in
    let total := zlen m in
    let fuel := Z.to_nat ((total + 15) / 16) in
    let mic := E ([89] ++ nonce ++ be16 total) in
    let mic := E (xorl mic (zfirstn 16 (aad h))) in
    let mic := E (xorl mic (zskipn 16 (aad h))) in
    let pfx := [1] ++ nonce in
    let tag := xorl (firstn 8 (E (pfx ++ [0; 0]))) (firstn 8 (cbc_mac fuel mic m)) in
    [b0; b1; b2; b3; b4; b5; b6; b7] ++ ctr_enc fuel pfx 1 m ++ tag.

  Lemma ctr_enc_length fuel : forall pfx i m, (length m <= 16 * fuel)%nat -> length (ctr_enc fuel pfx i m) = length m.
  Proof.
    induction fuel as [|f IH]; intros pfx i m H; [destruct m; [reflexivity|cbn in H; lia]|].
    destruct m as [|x r]; [reflexivity|]. cbn [ctr_enc]. rewrite app_length, xorl_length, E16, firstn_length.
    rewrite IH by (rewrite skipn_length; lia). rewrite skipn_length. cbn [length]. lia.
  Qed.

  Lemma cbc_mac_length fuel : forall mic m, length mic = 16%nat -> length (cbc_mac fuel mic m) = 16%nat.
  Proof.
    induction fuel as [|f IH]; intros mic m H; [destruct m; exact H|]. destruct m as [|x r]; [exact H|].
    cbn [cbc_mac]. apply IH. apply E16.
  Qed.

  Theorem ccmp_roundtrip h b0 b1 b2 b3 b4 b5 b6 b7 m : m <> [] ->
    ccmp_decrypt E h (ccmp_encrypt h b0 b1 b2 b3 b4 b5 b6 b7 m) = Ok (Some m).
  Proof.
    intros Hm. unfold ccmp_encrypt.
    set (pn := [b7; b6; b5; b4; b1; b0]). set (prio := if h_qos h then h_tid h else 0). set (nonce := [prio] ++ h_a2 h ++ pn).
    set (total := zlen m). set (fuel := Z.to_nat ((total + 15) / 16)).
    set (mic2 := E (xorl (E (xorl (E ([89] ++ nonce ++ be16 total)) (zfirstn 16 (aad h)))) (zskipn 16 (aad h)))).
    set (pfx := [1] ++ nonce). set (c0 := E (pfx ++ [0; 0])). set (micf := cbc_mac fuel mic2 m).
    set (tag := xorl (firstn 8 c0) (firstn 8 micf)). set (hdr := [b0; b1; b2; b3; b4; b5; b6; b7]).
    set (body := hdr ++ ctr_enc fuel pfx 1 m ++ tag).
    assert (Hm1 : (1 <= length m)%nat) by (destruct m; [contradiction|cbn; lia]).
    assert (Htot : total = Z.of_nat (length m)) by reflexivity.
    assert (Hfuel : (length m <= 16 * fuel)%nat) by (unfold fuel; lia).
    assert (Hct : length (ctr_enc fuel pfx 1 m) = length m) by (apply ctr_enc_length; exact Hfuel).
    assert (Hmicf : length micf = 16%nat) by (apply cbc_mac_length; apply E16).
    assert (Htag : length tag = 8%nat) by (unfold tag; rewrite xorl_length, !firstn_length, Hmicf; unfold c0; rewrite E16; reflexivity).
    assert (Hbody : zlen body = total + 16) by (unfold body, zlen; rewrite !app_length, Hct, Htag; cbn [length hdr]; lia).
    unfold ccmp_decrypt. replace (zlen body <=? 16) with false by lia.
    rewrite !getb_ok by lia.
    change (nthz body 0) with b0. change (nthz body 1) with b1. change (nthz body 4) with b4. change (nthz body 5) with b5.
    change (nthz body 6) with b6. change (nthz body 7) with b7. cbn [bind]. fold pn. fold prio. fold nonce.
    replace (zlen body - 16) with total by lia. fold mic2. fold pfx. fold c0.
    replace (Z.to_nat ((total + 15) / 16)) with fuel by reflexivity.
    pose proof (ccmp_blocks_rt fuel 1 mic2 [] hdr m tag ((total + 15) / 16) total pfx) as Hloop.
    cbn [app length] in Hloop. change (8 + 16 * (1 - 1)) with 8 in Hloop. fold body in Hloop.
    rewrite Hloop by first [lia | reflexivity | (intros ->; contradiction) | (intros _; unfold total; lia)].
    cbn [bind]. fold micf.
      (* the received MIC, decrypted, is the first half of the CBC-MAC *)
      assert (Hnice : xorl (zfirstn 8 c0) (zskipn (zlen body - 8) body) = firstn 8 micf).
      { unfold zfirstn, zskipn. change (Z.to_nat 8) with 8%nat.
        assert (Hsk : skipn (Z.to_nat (zlen body - 8)) body = tag).
        { assert (Hn : Z.to_nat (zlen body - 8) = (length (hdr ++ ctr_enc fuel pfx 1 m) + 0)%nat) by (rewrite app_length, Hct; cbn [length hdr]; lia).
          rewrite Hn. unfold body. rewrite app_assoc. rewrite skipn_app_plus. reflexivity. }
        rewrite Hsk. unfold tag.
        assert (H8 : length (firstn 8 micf) = 8%nat) by (rewrite firstn_length; lia).
        assert (Hc8 : length (firstn 8 c0) = 8%nat) by (rewrite firstn_length; unfold c0; rewrite E16; reflexivity).
        pose proof (xorl_cancel (firstn 8 c0) (firstn 8 micf) ltac:(lia)) as Hc. rewrite H8 in Hc.
        rewrite (firstn_all2 (firstn 8 c0)) in Hc by lia. exact Hc. }
      rewrite Hnice. unfold zfirstn. change (Z.to_nat 8) with 8%nat. rewrite beql_refl. f_equal. f_equal.
      rewrite Htot, Nat2Z.id. apply firstn_app_exact.
  Qed.
End CCMP_roundtrip.
