(* Facts about the key-sorted association list (model of std::map). *)
From LT Require Import Base.Prelude.
From Coq Require Import ZifyBool.
Local Open Scope Z_scope.

Section Facts.
  Context {V : Type}.
  Implicit Types m : zmap V.

  (* strictly increasing keys, all above lo *)
  Fixpoint srt (lo : Z) m : Prop :=
    match m with
    | [] => True
    | (k, _) :: r => lo < k /\ srt k r
    end.

  Lemma srt_weaken lo lo' m : lo' <= lo -> srt lo m -> srt lo' m.
  Proof. destruct m as [|[k v] r]; cbn; intros; [trivial|]. intuition lia. Qed.

  Lemma zfind_below lo m k : srt lo m -> k <= lo -> zfind k m = None.
  Proof.
    revert lo. induction m as [|[k' v] r IH]; cbn; intros lo Hs Hk; [reflexivity|].
    destruct Hs as [H1 H2]. destruct (k' =? k) eqn:E; [lia|]. apply (IH k'); [assumption|lia].
  Qed.

  Lemma srt_zput lo m k v : srt lo m -> lo < k -> srt lo (zput k v m).
  Proof.
    revert lo. induction m as [|[k' v'] r IH]; cbn; intros lo Hs Hk; [auto|].
    destruct Hs as [H1 H2].
    destruct (k <? k') eqn:E1; [cbn; intuition lia|].
    destruct (k =? k') eqn:E2.
    - assert (k = k') by lia. subst. cbn. auto.
    - cbn. split; [assumption|]. apply IH; [assumption|lia].
  Qed.

  Lemma srt_zdel lo m k : srt lo m -> srt lo (zdel k m).
  Proof.
    revert lo. induction m as [|[k' v'] r IH]; cbn; intros lo Hs; [auto|].
    destruct Hs as [H1 H2].
    destruct (k' =? k) eqn:E.
    - eapply srt_weaken; [|eassumption]. lia.
    - cbn. auto.
  Qed.

  Lemma zfind_zput_same m k v : zfind k (zput k v m) = Some v.
  Proof.
    induction m as [|[k' v'] r IH]; cbn.
    - rewrite Z.eqb_refl. reflexivity.
    - destruct (k <? k') eqn:E1; [cbn; rewrite Z.eqb_refl; reflexivity|].
      destruct (k =? k') eqn:E2; [cbn; rewrite Z.eqb_refl; reflexivity|].
      cbn. destruct (k' =? k) eqn:E3; [lia|]. assumption.
  Qed.

  Lemma zfind_zput_other m k k2 v : k2 <> k -> zfind k2 (zput k v m) = zfind k2 m.
  Proof.
    intros Hne. induction m as [|[k' v'] r IH]; cbn.
    - destruct (k =? k2) eqn:E; [lia|reflexivity].
    - destruct (k <? k') eqn:E1.
      + cbn. destruct (k =? k2) eqn:E; [lia|reflexivity].
      + destruct (k =? k') eqn:E2.
        * cbn. assert (k = k') by lia. subst.
          destruct (k' =? k2) eqn:E; [lia|reflexivity].
        * cbn. destruct (k' =? k2); [reflexivity|assumption].
  Qed.

  Lemma zfind_zdel_other m k k2 : k2 <> k -> zfind k2 (zdel k m) = zfind k2 m.
  Proof.
    intros Hne. induction m as [|[k' v'] r IH]; cbn; [reflexivity|].
    destruct (k' =? k) eqn:E1.
    - destruct (k' =? k2) eqn:E2; [lia|reflexivity].
    - cbn. destruct (k' =? k2); [reflexivity|assumption].
  Qed.

  Lemma zfind_zdel_same lo m k : srt lo m -> zfind k (zdel k m) = None.
  Proof.
    revert lo. induction m as [|[k' v'] r IH]; cbn; intros lo Hs; [reflexivity|].
    destruct Hs as [H1 H2].
    destruct (k' =? k) eqn:E1.
    - apply (zfind_below k'); [assumption|lia].
    - cbn. rewrite E1. eauto.
  Qed.

  Lemma length_zput lo m k v : srt lo m ->
    length (zput k v m) = match zfind k m with Some _ => length m | None => S (length m) end.
  Proof.
    revert lo. induction m as [|[k' v'] r IH]; cbn; intros lo Hs; [reflexivity|].
    destruct Hs as [H1 H2].
    destruct (k <? k') eqn:E1.
    - destruct (k' =? k) eqn:E2; [lia|]. rewrite (zfind_below k' r k) by (assumption || lia). reflexivity.
    - destruct (k =? k') eqn:E2.
      + destruct (k' =? k) eqn:E3; [reflexivity|lia].
      + destruct (k' =? k) eqn:E3; [lia|]. cbn. rewrite (IH k') by assumption.
        destruct (zfind k r); reflexivity.
  Qed.

  Lemma length_zdel m k :
    length (zdel k m) = match zfind k m with Some _ => pred (length m) | None => length m end.
  Proof.
    induction m as [|[k' v'] r IH]; cbn; [reflexivity|].
    destruct (k' =? k) eqn:E1; [reflexivity|]. cbn. rewrite IH.
    destruct (zfind k r) eqn:E2; [|reflexivity].
    destruct r; [discriminate|reflexivity].
  Qed.
End Facts.

(* total payload held, for maps of byte lists *)
Fixpoint sum_len (m : zmap (list Z)) : Z :=
  match m with [] => 0 | (_, v) :: r => zlen v + sum_len r end.

Definition len_at (k : Z) (m : zmap (list Z)) : Z :=
  match zfind k m with Some v => zlen v | None => 0 end.

Lemma sum_len_zput lo m k v : srt lo m -> sum_len (zput k v m) = sum_len m + zlen v - len_at k m.
Proof.
  unfold len_at. revert lo. induction m as [|[k' v'] r IH]; cbn; intros lo Hs; [lia|].
  destruct Hs as [H1 H2].
  destruct (k <? k') eqn:E1.
  - destruct (k' =? k) eqn:E2; [lia|]. rewrite (zfind_below k' r k) by (assumption || lia). cbn. lia.
  - destruct (k =? k') eqn:E2.
    + destruct (k' =? k) eqn:E3; [cbn; lia|lia].
    + destruct (k' =? k) eqn:E3; [lia|]. cbn. rewrite (IH k') by assumption. lia.
Qed.

Lemma sum_len_zdel m k : sum_len (zdel k m) = sum_len m - len_at k m.
Proof.
  unfold len_at. induction m as [|[k' v'] r IH]; cbn; [lia|].
  destruct (k' =? k) eqn:E1; [lia|]. cbn. rewrite IH. lia.
Qed.

Lemma sum_len_nonneg m : 0 <= sum_len m.
Proof. induction m as [|[k v] r IH]; cbn; [lia|]. pose proof (zlen_nonneg v). lia. Qed.
