(* C01 — parsing untrusted bytes is memory-safe and fails only as malformed_packet (cursor discipline + TCP options). *)
From LT Require Import Base.Prelude Base.CInt Model.Stream Model.TcpOpts Proofs.Stream Proofs.TcpOpts.
Local Open Scope Z_scope.

(* the cursor argument every layer constructor relies on: a parser built only from checked cursor operations, with
   any lengths computed from the packet's own bytes, stays inside the buffer and fails only as malformed_packet *)
Theorem C01_checked_cursor_programs_are_safe : forall len prog c, inside len c -> forallb checked prog = true ->
  match run len c prog with Ok c' => inside len c' | Throw e => e = EX_malformed_packet | _ => False end.
Proof. exact checked_programs_are_safe. Qed.
Print Assumptions C01_checked_cursor_programs_are_safe.

(* a concrete parser (the TCP option loop): total, bounded by the region length, only malformed_packet, for EVERY byte string *)
Theorem C01_tcp_option_parser_safe : forall fuel r, (length r < fuel)%nat ->
  match parse_options fuel r with Ok _ => True | Throw e => e = EX_malformed_packet | OOB _ => False | OutOfFuel => False end.
Proof. exact parse_safe. Qed.
Print Assumptions C01_tcp_option_parser_safe.

Example C01_nonvacuous : inside 10 (mkcur 0 10) /\ run 10 (mkcur 0 10) [Read 4; Shrink 5; Skip 5; Read 1] = Throw EX_malformed_packet
  /\ run 4 (mkcur 0 4) [Skip 3; Raw 2] = OOB 1.
Proof. repeat split; cbn; lia. Qed.
