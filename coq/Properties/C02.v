(* C02 — serialization is total, size-exact, and layers never overwrite each other. *)
From LT Require Import Base.Prelude Base.CInt Gen.Kernels Model.Serialize Model.TcpOpts Proofs.Serialize Proofs.TcpOpts Model.TLV Proofs.TLV.
Local Open Scope Z_scope.

(* framework: if every layer's write keeps the buffer length and the inner region, serialize() has exactly size()
   bytes and contains each inner serialisation verbatim — chains of any depth *)
Theorem C02_size_exact : forall ls, chain_ok ls -> zlen (serialize ls) = total ls.
Proof. exact serialize_exact. Qed.
Print Assumptions C02_size_exact.

Theorem C02_inner_layers_reach_the_output_unmodified : forall l r, chain_ok (l :: r) ->
  bsub (serialize (l :: r)) (hs l) (total r) = serialize r.
Proof. exact serialize_contains_inner. Qed.
Print Assumptions C02_inner_layers_reach_the_output_unmodified.

(* the GENERATED padding kernel *)
Theorem C02_pad_options_size_spec : forall s, 0 <= s < 4294967290 ->
  let p := tcp_pad_options_size s in s <= p < s + 4 /\ p mod 4 = 0.
Proof. exact pad_spec. Qed.
Print Assumptions C02_pad_options_size_spec.

(* TCP: what header_size() counts is what write_serialization emits — every option list (after the repair) *)
Theorem C02_tcp_options_size_exact : forall os, zlen (write_options os) = options_size os.
Proof. exact write_size. Qed.
Print Assumptions C02_tcp_options_size_exact.

Theorem C02_tcp_layer_is_confined : forall hdr20 os inner, zlen hdr20 = 20 -> options_size os < 4294967290 -> 0 <= inner ->
  confined (tcp_layer hdr20 os) inner.
Proof. exact tcp_confined. Qed.
Print Assumptions C02_tcp_layer_is_confined.

(* the shipped sizing violated exactly this (witness: one option of kind 8 without data); repaired by a fix: commit *)
Theorem C02_shipped_tcp_sizing_refuted : exists o, opt_wf o /\ zlen (write_option o) <> option_size_shipped o.
Proof. exact shipped_sizing_refuted. Qed.
Print Assumptions C02_shipped_tcp_sizing_refuted.

Example C02_nonvacuous :
  let os := [mkopt 2 2 [5; 180]; mkopt 8 0 []; mkopt 1 0 []] in
  Forall opt_wf os /\ tcp_header_size os = 28 /\ tcp_options_area os = [2; 4; 5; 180; 8; 2; 1; 0].
Proof. cbn zeta. split; [|split; reflexivity]. repeat constructor; cbn; lia. Qed.

(* the cached option-area size of the classes that share the type-length-value option layout (DHCP, DHCPv6, 802.11 management,
   ICMPv6, PPPoE): after EVERY history of add_option / remove_option calls (remove = the first option with that code, nothing
   when there is none) the counter the class keeps equals the number of octets its writer emits for the options it holds *)
Theorem C02_tlv_cached_size_exact : forall f hs, wf_fmt f -> snd (hrun f hs) = zlen (tlv_encode f (fst (hrun f hs))).
Proof. exact cached_size_exact. Qed.
Print Assumptions C02_tlv_cached_size_exact.

Example C02_tlv_history_nonvacuous :
  hrun fmt_dhcpv6 [HAdd (1, [1;2]); HAdd (8, [0;7]); HAdd (1, [9]); HRem 1; HRem 77] = ([(8, [0;7]); (1, [9])], 11) /\
  tlv_encode fmt_dhcpv6 [(8, [0;7]); (1, [9])] = [0;8;0;2;0;7; 0;1;0;1;9].
Proof. split; reflexivity. Qed.
