(* C02 — serialization is total, size-exact, and layers never overwrite each other. *)
From LT Require Import Base.Prelude Base.CInt Gen.Kernels Model.Serialize Model.TcpOpts Proofs.Serialize Proofs.TcpOpts.
Local Open Scope Z_scope.

(* framework: if every layer's write keeps the buffer length and the inner region, serialize() has exactly size()
   bytes and contains each inner serialisation verbatim — chains of any depth *)
Theorem C02_size_exact : forall ls, chain_ok ls -> zlen (serialize ls) = total ls.
Proof. exact serialize_exact. Qed.
Print Assumptions C02_size_exact.

Theorem C02_inner_layers_reach_the_output_unmodified : forall l r, chain_ok (l :: r) ->
  bsub (serialize (l :: r)) (hs l) (total r) = serialize r.
Proof. exact serialize_contains_inner. Qed.
Print Assumptions C02_inner_layers_reach_the_output_unmodified.

(* the GENERATED padding kernel *)
Theorem C02_pad_options_size_spec : forall s, 0 <= s < 4294967290 ->
  let p := tcp_pad_options_size s in s <= p < s + 4 /\ p mod 4 = 0.
Proof. exact pad_spec. Qed.
Print Assumptions C02_pad_options_size_spec.

(* TCP: what header_size() counts is what write_serialization emits — every option list (after the repair) *)
Theorem C02_tcp_options_size_exact : forall os, zlen (write_options os) = options_size os.
Proof. exact write_size. Qed.
Print Assumptions C02_tcp_options_size_exact.

Theorem C02_tcp_layer_is_confined : forall hdr20 os inner, zlen hdr20 = 20 -> options_size os < 4294967290 -> 0 <= inner ->
  confined (tcp_layer hdr20 os) inner.
Proof. exact tcp_confined. Qed.
Print Assumptions C02_tcp_layer_is_confined.

(* the shipped sizing violated exactly this (witness: one option of kind 8 without data); repaired by a fix: commit *)
Theorem C02_shipped_tcp_sizing_refuted : exists o, opt_wf o /\ zlen (write_option o) <> option_size_shipped o.
Proof. exact shipped_sizing_refuted. Qed.
Print Assumptions C02_shipped_tcp_sizing_refuted.

Example C02_nonvacuous :
  let os := [mkopt 2 2 [5; 180]; mkopt 8 0 []; mkopt 1 0 []] in
  Forall opt_wf os /\ tcp_header_size os = 28 /\ tcp_options_area os = [2; 4; 5; 180; 8; 2; 1; 0].
Proof. cbn zeta. split; [|split; reflexivity]. repeat constructor; cbn; lia. Qed.
