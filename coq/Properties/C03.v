(* C03 — re-serializing a parsed packet preserves it (TCP option area; the byte-level core of the round trip). *)
From LT Require Import Base.Prelude Base.CInt Model.TcpOpts Proofs.TcpOpts Model.TLV Proofs.TLV.
Local Open Scope Z_scope.

(* whatever option region the parser accepts is, byte for byte, the encoding of the options it produced,
   followed by an end-of-list/padding tail (the only part libtins derives) *)
Theorem C03_accepted_region_is_its_own_encoding : forall fuel r os, Forall (fun x => 0 <= x < 256) r ->
  parse_options fuel r = Ok os ->
  Forall opt_wf os /\ exists tail, r = write_options os ++ tail /\ (tail = [] \/ exists rest, tail = 0 :: rest).
Proof. exact write_parse. Qed.
Print Assumptions C03_accepted_region_is_its_own_encoding.

(* and parsing the re-serialisation yields the same options again (order, kinds, bytes) *)
Theorem C03_reparse_gives_same_options : forall os, Forall opt_wf os -> options_size os < 4294967290 ->
  tcp_parse_options (tcp_options_area os) = Ok os.
Proof. exact tcp_options_roundtrip. Qed.
Print Assumptions C03_reparse_gives_same_options.

Example C03_nonvacuous :
  tcp_parse_options [2; 4; 5; 180; 1; 8; 2; 0; 99; 99] = Ok [mkopt 2 2 [5; 180]; mkopt 1 0 []; mkopt 8 0 []].
Proof. reflexivity. Qed.

(* ---- the type-length-value option codecs (DHCPv6, 802.11 tagged parameters, ICMPv6 neighbour-discovery options, PPPoE
   tags; DHCP when no PAD/END octet is present): whatever region of octets the parsing loop accepts is, byte for byte,
   what the writing loop emits for the options it produced -- followed, for the 802.11 loop only, by the tail shorter
   than one header that loop ignores (and which a re-serialization therefore drops). *)
Theorem C03_tlv_accepted_region_is_its_own_encoding : forall f, wf_fmt f -> (forall c, f_special f c = false) ->
  forall fuel b os, Forall (fun x => 0 <= x < 256) b -> decode fuel f b = Ok os ->
  exists tail, b = tlv_encode f os ++ tail /\ (tail = [] \/ (f_lenient f = true /\ zlen tail < f_cw f + f_lw f)).
Proof. exact encode_decode. Qed.
Print Assumptions C03_tlv_accepted_region_is_its_own_encoding.

(* the loop neither runs out of fuel nor has any site that leaves the region *)
Theorem C03_tlv_decode_total : forall f b, wf_fmt f -> tlv_decode f b <> OutOfFuel /\ (forall s, tlv_decode f b <> OOB s).
Proof. exact tlv_decode_total. Qed.
Print Assumptions C03_tlv_decode_total.

(* the one format with codes that carry no length octet: DHCP's END/PAD are parsed from one octet and written as two --
   the statement above is false for it, which is why it is excluded (and why the C03 check does not demand byte identity
   of DHCP option areas that contain them) *)
Example C03_tlv_dhcp_end_is_not_a_fixpoint :
  tlv_decode fmt_dhcp [53;1;1;255] = Ok [(53, [1]); (255, [])] /\ tlv_encode fmt_dhcp [(53, [1]); (255, [])] = [53;1;1;255;0].
Proof. split; reflexivity. Qed.
