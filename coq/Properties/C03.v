(* C03 — re-serializing a parsed packet preserves it (TCP option area; the byte-level core of the round trip). *)
From LT Require Import Base.Prelude Base.CInt Model.TcpOpts Proofs.TcpOpts.
Local Open Scope Z_scope.

(* whatever option region the parser accepts is, byte for byte, the encoding of the options it produced,
   followed by an end-of-list/padding tail (the only part libtins derives) *)
Theorem C03_accepted_region_is_its_own_encoding : forall fuel r os, Forall (fun x => 0 <= x < 256) r ->
  parse_options fuel r = Ok os ->
  Forall opt_wf os /\ exists tail, r = write_options os ++ tail /\ (tail = [] \/ exists rest, tail = 0 :: rest).
Proof. exact write_parse. Qed.
Print Assumptions C03_accepted_region_is_its_own_encoding.

(* and parsing the re-serialisation yields the same options again (order, kinds, bytes) *)
Theorem C03_reparse_gives_same_options : forall os, Forall opt_wf os -> options_size os < 4294967290 ->
  tcp_parse_options (tcp_options_area os) = Ok os.
Proof. exact tcp_options_roundtrip. Qed.
Print Assumptions C03_reparse_gives_same_options.

Example C03_nonvacuous :
  tcp_parse_options [2; 4; 5; 180; 1; 8; 2; 0; 99; 99] = Ok [mkopt 2 2 [5; 180]; mkopt 1 0 []; mkopt 8 0 []].
Proof. reflexivity. Qed.
