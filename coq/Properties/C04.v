(* C04 — what is set through the API is what a parser of the wire bytes gets back (TCP options). *)
From LT Require Import Base.Prelude Base.CInt Model.TcpOpts Proofs.TcpOpts Model.TLV Proofs.TLV.
Local Open Scope Z_scope.

(* any list of well-formed options — however it was accumulated by additions and removals — goes through the
   wire and comes back identical: same order, kinds and bytes; the padding libtins adds is not seen *)
Theorem C04_options_through_the_wire : forall os pad fuel, Forall opt_wf os -> Forall (fun x => x = 0) pad ->
  (length (write_options os ++ pad) < fuel)%nat -> parse_options fuel (write_options os ++ pad) = Ok os.
Proof. intros os pad fuel H. exact (parse_write os H pad fuel). Qed.
Print Assumptions C04_options_through_the_wire.

Theorem C04_sizes_updated : forall os, options_size os < 4294967290 ->
  zlen (tcp_options_area os) = Gen.Kernels.tcp_pad_options_size (options_size os) /\
  20 + zlen (tcp_options_area os) = tcp_header_size os /\ (zlen (tcp_options_area os)) mod 4 = 0.
Proof. exact area_size. Qed.
Print Assumptions C04_sizes_updated.

Example C04_nonvacuous : Forall opt_wf [mkopt 3 1 [7]; mkopt 4 0 []] /\
  parse_options 20 (write_options [mkopt 3 1 [7]; mkopt 4 0 []] ++ [0; 0; 0]) = Ok [mkopt 3 1 [7]; mkopt 4 0 []].
Proof. split; [repeat constructor; cbn; lia|reflexivity]. Qed.

(* ---- the type-length-value option codecs: DHCP, DHCPv6, 802.11 tagged parameters, ICMPv6 neighbour-discovery options,
   PPPoE tags (Model/TLV.v, one parametric loop pair) ----
   For every format with 1- or 2-octet codes and lengths, every list of options the format can express -- however it
   was accumulated by additions and removals -- is read back from the bytes the writer emits as exactly that list:
   same order, codes and data. *)
Theorem C04_tlv_options_through_the_wire : forall f os, wf_fmt f -> Forall (wf_opt f) os ->
  tlv_decode f (tlv_encode f os) = Ok os.
Proof. exact decode_encode. Qed.
Print Assumptions C04_tlv_options_through_the_wire.

(* the five formats libtins uses are instances *)
Theorem C04_tlv_formats : wf_fmt fmt_dhcp /\ wf_fmt fmt_dhcpv6 /\ wf_fmt fmt_dot11 /\ wf_fmt fmt_icmpv6 /\ wf_fmt fmt_pppoe.
Proof. exact (conj wf_dhcp (conj wf_dhcpv6 (conj wf_dot11 (conj wf_icmpv6 wf_pppoe)))). Qed.
Print Assumptions C04_tlv_formats.

Example C04_tlv_nonvacuous :
  Forall (wf_opt fmt_icmpv6) [(1, [0;1;2;3;4;5]); (5, [0;0;0;0;5;220])] /\
  tlv_encode fmt_icmpv6 [(1, [0;1;2;3;4;5]); (5, [0;0;0;0;5;220])] = [1;1;0;1;2;3;4;5; 5;1;0;0;0;0;5;220] /\
  Forall (wf_opt fmt_dhcp) [(53, [1]); (61, [1;2;3])] /\
  tlv_decode fmt_dhcp [53;1;1; 0; 61;3;1;2;3; 255] = Ok [(53, [1]); (0, []); (61, [1;2;3]); (255, [])] /\
  tlv_encode fmt_pppoe [(513, [7;7])] = [1;2;0;2;7;7].
Proof. repeat split; try (repeat constructor; cbn; lia); reflexivity. Qed.
