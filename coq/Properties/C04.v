(* C04 — what is set through the API is what a parser of the wire bytes gets back (TCP options). *)
From LT Require Import Base.Prelude Base.CInt Model.TcpOpts Proofs.TcpOpts.
Local Open Scope Z_scope.

(* any list of well-formed options — however it was accumulated by additions and removals — goes through the
   wire and comes back identical: same order, kinds and bytes; the padding libtins adds is not seen *)
Theorem C04_options_through_the_wire : forall os pad fuel, Forall opt_wf os -> Forall (fun x => x = 0) pad ->
  (length (write_options os ++ pad) < fuel)%nat -> parse_options fuel (write_options os ++ pad) = Ok os.
Proof. intros os pad fuel H. exact (parse_write os H pad fuel). Qed.
Print Assumptions C04_options_through_the_wire.

Theorem C04_sizes_updated : forall os, options_size os < 4294967290 ->
  zlen (tcp_options_area os) = Gen.Kernels.tcp_pad_options_size (options_size os) /\
  20 + zlen (tcp_options_area os) = tcp_header_size os /\ (zlen (tcp_options_area os)) mod 4 = 0.
Proof. exact area_size. Qed.
Print Assumptions C04_sizes_updated.

Example C04_nonvacuous : Forall opt_wf [mkopt 3 1 [7]; mkopt 4 0 []] /\
  parse_options 20 (write_options [mkopt 3 1 [7]; mkopt 4 0 []] ++ [0; 0; 0]) = Ok [mkopt 3 1 [7]; mkopt 4 0 []].
Proof. split; [repeat constructor; cbn; lia|reflexivity]. Qed.
