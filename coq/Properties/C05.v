(* C05 — fields libtins derives are correct on the wire: the checksums. *)
From LT Require Import Base.Prelude Base.CInt Gen.CrcTable Model.Checksum Proofs.OnesCompl Proofs.Crc Model.Wifi Proofs.CrcResidue.
Local Open Scope Z_scope.

(* libtins sums native little-endian words; that is the RFC 1071 big-endian sum up to the byte swap *)
Theorem C05_native_sum_is_swapped_rfc1071_sum : forall b, (sum_le b) mod 65535 = (256 * sum_be b) mod 65535.
Proof. exact sum_le_be. Qed.
Print Assumptions C05_native_sum_is_swapped_rfc1071_sum.

(* folding is reduction mod 65535 (with 0xffff for non-zero multiples) *)
Theorem C05_fold_is_mod_65535 : forall c, 0 <= c < 4294967296 ->
  0 <= fold16 c < 65536 /\ (fold16 c) mod 65535 = c mod 65535 /\ (0 < c -> 0 < fold16 c).
Proof. exact fold16_spec. Qed.
Print Assumptions C05_fold_is_mod_65535.

(* a buffer that verifies in libtins' native-word arithmetic verifies under the standard algorithm *)
Theorem C05_verification_transfers : forall b, bytes_ok b -> zlen b <= 65535 ->
  fold16 (sum_le b) = 65535 -> fold16 (sum_be b) = 65535.
Proof. exact le_verifies_implies_be_verifies. Qed.
Print Assumptions C05_verification_transfers.

(* the IPv4 header checksum libtins fills in verifies — every header (options included), every field value *)
Theorem C05_ipv4_header_checksum_verifies : forall hdr off, bytes_ok hdr -> zlen hdr <= 65535 -> field_zero hdr off ->
  fold16 (sum_be (put_word hdr off (ip_check_word hdr))) = 65535.
Proof. exact ip_header_checksum_verifies. Qed.
Print Assumptions C05_ipv4_header_checksum_verifies.

(* TCP / UDP / ICMPv6-style checksums over pseudo header + segment verify — every payload, odd lengths included,
   including the UDP rule that a computed 0 is sent as 0xffff *)
Theorem C05_pseudo_header_checksum_verifies : forall udp ph buf off, bytes_ok ph -> bytes_ok buf -> even_len ph ->
  zlen ph + zlen buf <= 65535 -> field_zero buf off ->
  fold16 (sum_be (ph ++ put_word buf off (l4_check_word udp (sum_le ph) buf))) = 65535.
Proof. exact l4_checksum_verifies. Qed.
Print Assumptions C05_pseudo_header_checksum_verifies.

(* The CRC libtins derives (the 802.11 FCS RadioTap appends; the WEP/TKIP ICV): Utils::crc32 starts from 0, applies no
   final complement and indexes a 16-entry table (regenerated from the source on every run, Gen/CrcTable.v) that is not
   the textbook nibble table.  For EVERY byte string its result is the IEEE 802.3 CRC-32 as the standard defines it:
   bit-serial division by the reflected polynomial 0xEDB88320, register preset to all ones, result complemented --
   so an independent decoder's FCS/ICV check agrees with libtins on every frame, not only on "123456789". *)
Theorem C05_crc32_is_ieee_802_3_crc32 : forall b, bytes_ok b -> crc32 b = crc32_bitwise b.
Proof. exact crc32_is_bitwise_ieee. Qed.
Print Assumptions C05_crc32_is_ieee_802_3_crc32.

(* ... and the table-driven form with the textbook table (entry i = i pushed through four bit steps), no byte-range premise *)
Theorem C05_crc32_is_table_driven_ieee_crc32 : forall b, crc32 b = crc32_ieee b.
Proof. exact crc32_is_ieee. Qed.
Print Assumptions C05_crc32_is_table_driven_ieee_crc32.

(* the receiver's view: for EVERY frame, running the CRC over the frame followed by the FCS/ICV libtins derived for it (stored
   little-endian, as RadioTap appends it and WEP/TKIP encrypt it) gives the constant residue 0x2144DF1C -- the check
   hardware and streaming decoders apply instead of comparing the stored value *)
Theorem C05_crc32_frame_plus_fcs_has_the_standard_residue : forall m, bytes_ok m -> crc32 (m ++ le32 (crc32 m)) = 558161692.
Proof. exact crc32_residue. Qed.
Print Assumptions C05_crc32_frame_plus_fcs_has_the_standard_residue.

Example C05_crc_nonvacuous :
  (crc32_bitwise [49;50;51;52;53;54;55;56;57] = 3421780262) /\ (crc32_bitwise nil = 0) /\
  (nth 8%nat std_table 0 = crc_poly) /\ (nth 7%nat crc_table 0 = Z.lxor crc_poly 4026531840).
Proof. vm_compute. repeat split. Qed.

(* non-vacuity + labelled TESTS (not proofs): an IPv4 header, and the CRC-32 check value of "123456789" *)
Example C05_nonvacuous :
  let hdr := [69;0;0;28;0;1;0;0;64;17;0;0;10;0;0;1;10;0;0;2] in
  bytes_ok hdr /\ field_zero hdr 10 /\ put_word hdr 10 (ip_check_word hdr) = [69;0;0;28;0;1;0;0;64;17;102;206;10;0;0;1;10;0;0;2] /\
  crc32 [49;50;51;52;53;54;55;56;57] = 3421780262.
Proof. split; [repeat constructor; lia|]. split; [cbn; auto|]. split; vm_compute; reflexivity. Qed.
