(* C06 — TCP stream reassembly (DataTracker / Flow / legacy TCPStream).
   Only statements closed by [exact], non-vacuity examples and Print Assumptions. *)
From LT Require Import Base.Prelude Base.CInt Gen.Kernels Model.DataTracker
  Proofs.ZMapFacts Proofs.Seq32 Proofs.DataTracker_acc Proofs.DataTracker_fuel.
Local Open Scope Z_scope.

(* The generated sequence comparison IS RFC 1982 serial comparison by relative offset. *)
Theorem C06_seq_compare_serial : forall a b, u32 a -> u32 b -> seq_compare a b = seq_cmp_spec a b.
Proof. exact seq_compare_spec. Qed.
Print Assumptions C06_seq_compare_serial.

(* The legacy follower uses the same order. *)
Theorem C06_legacy_same_order : forall a b, compare_seq_numbers a b = seq_compare a b.
Proof. exact compare_seq_numbers_eq. Qed.
Print Assumptions C06_legacy_same_order.

(* "the reported amount of buffered out-of-order data always equals what is actually held":
   for every initial sequence number and EVERY finite history of segments and sequence advances
   (no window assumption, overlaps, duplicates, wrap-around included). *)
Theorem C06_accounting : forall isn ops,
  let st := fold_left dt_apply ops (dt_new isn) in
  dt_total st mod 4294967296 = sum_len (dt_buf st) mod 4294967296.
Proof. exact accounting_all_histories. Qed.
Print Assumptions C06_accounting.

(* the delivery loop terminates within the fuel the model grants (bounded number of steps) *)
Theorem C06_fuel : forall st seq pl,
  srt (-1) (dt_buf st) -> 0 <= dt_seq st < 4294967296 -> process_payload st seq pl <> OutOfFuel.
Proof. exact process_payload_fuel. Qed.
Print Assumptions C06_fuel.

(* non-vacuity: a state with buffered data satisfies the hypotheses of C06_fuel and the
   accounting equation is about a non-empty buffer *)
Example C06_nonvacuous :
  let st := fold_left dt_apply [OSeg 4294967293 [10;11;12;13]; OSeg 4294967295 [12;13;14]] (dt_new 4294967290) in
  srt (-1) (dt_buf st) /\ 0 <= dt_seq st < 4294967296 /\ dt_total st = 7 /\ sum_len (dt_buf st) = 7.
Proof. vm_compute. repeat split; congruence. Qed.
