(* C06 — TCP stream reassembly (DataTracker / Flow / legacy TCPStream).
   Only statements closed by [exact], non-vacuity examples and Print Assumptions. *)
From LT Require Import Base.Prelude Base.CInt Gen.Kernels Model.DataTracker
  Proofs.ZMapFacts Proofs.Seq32 Proofs.DataTracker_acc Proofs.DataTracker_fuel
  Proofs.DataTracker_prefix Proofs.DataTracker_wrap Model.LegacyStream Proofs.LegacyStream.
Local Open Scope Z_scope.

(* The generated sequence comparison IS RFC 1982 serial comparison by relative offset. *)
Theorem C06_seq_compare_serial : forall a b, u32 a -> u32 b -> seq_compare a b = seq_cmp_spec a b.
Proof. exact seq_compare_spec. Qed.
Print Assumptions C06_seq_compare_serial.

(* The legacy follower uses the same order. *)
Theorem C06_legacy_same_order : forall a b, compare_seq_numbers a b = seq_compare a b.
Proof. exact compare_seq_numbers_eq. Qed.
Print Assumptions C06_legacy_same_order.

(* "the reported amount of buffered out-of-order data always equals what is actually held":
   for every initial sequence number and EVERY finite history of segments and sequence advances
   (no window assumption, overlaps, duplicates, wrap-around included). *)
Theorem C06_accounting : forall isn ops,
  let st := fold_left dt_apply ops (dt_new isn) in
  dt_total st mod 4294967296 = sum_len (dt_buf st) mod 4294967296.
Proof. exact accounting_all_histories. Qed.
Print Assumptions C06_accounting.

(* the delivery loop terminates within the fuel the model grants (bounded number of steps) *)
Theorem C06_fuel : forall st seq pl,
  srt (-1) (dt_buf st) -> 0 <= dt_seq st < 4294967296 -> process_payload st seq pl <> OutOfFuel.
Proof. exact process_payload_fuel. Qed.
Print Assumptions C06_fuel.

(* non-vacuity: a state with buffered data satisfies the hypotheses of C06_fuel and the
   accounting equation is about a non-empty buffer *)
Example C06_nonvacuous :
  let st := fold_left dt_apply [OSeg 4294967293 [10;11;12;13]; OSeg 4294967295 [12;13;14]] (dt_new 4294967290) in
  srt (-1) (dt_buf st) /\ 0 <= dt_seq st < 4294967296 /\ dt_total st = 7 /\ sum_len (dt_buf st) = 7.
Proof. vm_compute. repeat split; congruence. Qed.

(* "the data handed to the application is at every moment a prefix of that stream with each byte delivered exactly once,
   for any initial sequence number including ones that wrap past 2^32.  As soon as every byte up to some position has
   arrived everything up to it has been delivered and nothing at or below it stays buffered":
   for EVERY stream s shorter than half the sequence space, EVERY initial sequence number isn (the stream may cross 2^32
   anywhere) and EVERY finite list of segments (offset, bytes) of s -- any order, duplicates, retransmissions with other
   boundaries, overlaps, empty segments -- every call returns normally (no out-of-bounds site, no fuel exhaustion) and at
   the end (hence, the list being arbitrary, after every call)
     - the cumulative delivered data is s[0:p) with p = (seq_number_ - isn) mod 2^32, no more, no less, each byte once;
     - every position below p is covered by an arrived segment and p itself is covered by none: p is the longest
       contiguous covered prefix;
     - every buffered chunk starts strictly after p, holds exactly the stream's bytes for its range, and only covered
       positions; every covered position is either delivered or buffered.
   [run isn st segs] folds process_payload over the segments with sequence numbers isn + offset. *)
Theorem C06_delivered_is_covered_prefix : forall s isn, 0 <= isn < 4294967296 -> zlen s < 2147483648 ->
  forall segs, Forall (seg_ok s) segs ->
  exists st, run isn (dt_new isn) segs = Some st /\
    let p := w32 (dt_seq st - isn) in
    0 <= p <= zlen s /\ dt_out st = zfirstn p s /\
    (forall i, 0 <= i < p -> covered segs i) /\ ~ covered segs p /\
    (forall k v, In (k, v) (dt_buf st) ->
       let o := w32 (k - isn) in
       p < o /\ at_off s o v /\ forall i, o <= i < o + zlen v -> covered segs i) /\
    (forall i, covered segs i ->
       0 <= i < p \/ exists k v, In (k, v) (dt_buf st) /\ w32 (k - isn) <= i < w32 (k - isn) + zlen v).
Proof. exact delivered_prefix_any_isn. Qed.
Print Assumptions C06_delivered_is_covered_prefix.

(* the tracker started at isn IS the tracker started at 0 with shifted numbers (std::map's numeric key order and the
   wrap of the erase loop from end() to begin() notwithstanding) *)
Theorem C06_any_isn_simulates_zero : forall s isn, 0 <= isn < 4294967296 -> zlen s < 2147483648 ->
  forall segs st, PInv s 0 st -> Forall (seg_ok s) segs ->
  run isn (T isn st) segs = option_map (T isn) (run 0 st segs).
Proof. exact run_sim. Qed.
Print Assumptions C06_any_isn_simulates_zero.

(* non-vacuity: a 12-byte stream that crosses 2^32 after 5 bytes, segments reversed, overlapping, one duplicated, one
   empty: the hypotheses hold, nothing is delivered until the first byte arrives, then everything *)
Example C06_prefix_nonvacuous :
  let s := [1;2;3;4;5;6;7;8;9;10;11;12] in
  let isn := 4294967291 in
  let segs := [(8, [9;10;11;12]); (3, [4;5;6;7;8;9]); (3, [4;5]); (6, []); (8, [9;10;11;12]); (1, [2;3;4])] in
  Forall (seg_ok s) segs /\ 
  (option_map (fun st => (dt_seq st, dt_out st, dt_buf st)) (run isn (dt_new isn) segs)
    = Some (isn, [], [(1, []); (3, [9;10;11;12]); (4294967292, [2;3;4]); (4294967294, [4;5;6;7;8;9])])) /\ 
  (option_map (fun st => (dt_seq st, dt_out st, dt_buf st)) (run isn (dt_new isn) (segs ++ [(0, [1;2])]))
    = Some (7, s, [])).
Proof.
  cbn zeta. split.
  - repeat constructor; unfold seg_ok, at_off; cbn [fst snd].
    + exists [1;2;3;4;5;6;7;8], []. split; reflexivity.
    + exists [1;2;3], [10;11;12]. split; reflexivity.
    + exists [1;2;3], [6;7;8;9;10;11;12]. split; reflexivity.
    + exists [1;2;3;4;5;6], [7;8;9;10;11;12]. split; reflexivity.
    + exists [1;2;3;4;5;6;7;8], []. split; reflexivity.
    + exists [1], [5;6;7;8;9;10;11;12]. split; reflexivity.
  - split; vm_compute; reflexivity.
Qed.

(* "the legacy stream follower gives the same delivery guarantee": on the segments of one stream (any initial sequence number,
   any order, duplicates, overlaps) the legacy reassembly (TCPStream::generic_process, Model/LegacyStream.v: its own comparison
   kernel, the newcomer wins a tie) is after every call in the same state as the DataTracker model -- same delivery point, same
   map of fragments, same delivered bytes *)
Theorem C06_legacy_same_state : forall s isn segs, 0 <= isn < 4294967296 -> zlen s < 2147483648 -> Forall (seg_ok s) segs ->
  exists st_l st_d, run_l isn (dt_new isn) segs = Some st_l /\ run isn (dt_new isn) segs = Some st_d /\
    dt_seq st_l = dt_seq st_d /\ dt_buf st_l = dt_buf st_d /\ dt_out st_l = dt_out st_d.
Proof. exact legacy_same_state. Qed.
Print Assumptions C06_legacy_same_state.

(* ... and so delivers exactly the longest contiguous covered prefix, every byte once *)
Theorem C06_legacy_delivers_covered_prefix : forall s isn segs, 0 <= isn < 4294967296 -> zlen s < 2147483648 ->
  Forall (seg_ok s) segs ->
  exists st, run_l isn (dt_new isn) segs = Some st /\
    let p := w32 (dt_seq st - isn) in
    0 <= p <= zlen s /\ dt_out st = zfirstn p s /\
    (forall i, 0 <= i < p -> covered segs i) /\ ~ covered segs p /\
    (forall k v, In (k, v) (dt_buf st) ->
       let o := w32 (k - isn) in
       p < o /\ at_off s o v /\ forall i, o <= i < o + zlen v -> covered segs i).
Proof. exact legacy_delivered_prefix. Qed.
Print Assumptions C06_legacy_delivers_covered_prefix.

Example C06_legacy_nonvacuous :
  let s := [1;2;3;4;5;6;7;8;9;10;11;12] in
  let isn := 4294967291 in
  let segs := [(8, [9;10;11;12]); (3, [4;5;6;7;8;9]); (3, [4;5;6;7;8;9]); (6, []); (1, [2;3;4]); (0, [1;2])] in
  option_map (fun st => (dt_seq st, dt_out st, dt_buf st)) (run_l isn (dt_new isn) segs) = Some (7, s, []).
Proof. vm_compute. reflexivity. Qed.
