(* C07 — the stream follower tracks connections, directions and lifetimes correctly. *)
From LT Require Import Base.Prelude Base.CInt Model.DataTracker Model.Follower Proofs.ZMapFacts Proofs.Follower.
Local Open Scope Z_scope.

(* demultiplexing: two packets get the same map key exactly when they are of the same address family and name the same
   two endpoints, in either direction (ports one apart, swapped hosts, v4 vs v6 with equal leading bytes: all distinct) *)
Theorem C07_same_connection : forall p q, pkt_ok p -> pkt_ok q ->
  (sid_code (make_identifier p) = sid_code (make_identifier q) <-> same_endpoints p q).
Proof. exact same_connection. Qed.
Print Assumptions C07_same_connection.

(* the integer key orders identifiers exactly like StreamIdentifier::operator< *)
Theorem C07_key_order : forall i j, sid_ok i -> sid_ok j -> (sid_code i < sid_code j <-> sid_lt i j).
Proof. exact sid_code_lt. Qed.
Print Assumptions C07_key_order.

(* bookkeeping over every capture: starting from any consistent follower, each call reports a new stream only for an
   untracked connection and at most once, reports only about tracked or just-announced connections, leaves tracked exactly
   (tracked-before or announced) minus (reported closed or terminated), and reports a termination / a close at most once
   per connection and call *)
Theorem C07_bookkeeping : forall ps fo fo' tr,
  Inv fo -> Forall pkt_ok ps -> run fo ps = Ok (fo', tr) ->
  Inv fo' /\ same_cfg fo fo' /\ chain_ok (live fo) tr (live fo').
Proof. exact run_bookkeeping. Qed.
Print Assumptions C07_bookkeeping.

Theorem C07_initial_state : forall a k c b, Inv (fo_init a k c b).
Proof. exact fo_init_inv. Qed.
Print Assumptions C07_initial_state.

(* between calls a tracked connection is never finished (so it is forgotten exactly when both sides sent FIN or either
   sent RST - see C07_finished) and holds at most max_chunks chunks / max_bytes bytes of out-of-order data *)
Theorem C07_tracked_bounded : forall fo k s, Inv fo -> zfind k (fo_streams fo) = Some s ->
  is_finished s = false /\
  zlen (dt_buf (f_dt (s_client s))) + zlen (dt_buf (f_dt (s_server s))) <= fo_max_chunks fo /\
  w32 (dt_total (f_dt (s_client s)) + dt_total (f_dt (s_server s))) <= fo_max_bytes fo /\
  dt_total (f_dt (s_client s)) mod 4294967296 = sum_len (dt_buf (f_dt (s_client s))) mod 4294967296 /\
  dt_total (f_dt (s_server s)) mod 4294967296 = sum_len (dt_buf (f_dt (s_server s))) mod 4294967296.
Proof. exact tracked_streams_bounded. Qed.
Print Assumptions C07_tracked_bounded.

Theorem C07_finished : forall s, is_finished s = true <->
  (f_state (s_client s) = RST_SENT \/ f_state (s_server s) = RST_SENT \/ (f_state (s_client s) = FIN_SENT /\ f_state (s_server s) = FIN_SENT)).
Proof. exact is_finished_iff. Qed.
Print Assumptions C07_finished.

Theorem C07_fin_rst_absorbing : forall f p,
  f_state f = FIN_SENT \/ f_state f = RST_SENT -> f_state (update_state f p) = FIN_SENT \/ f_state (update_state f p) = RST_SENT.
Proof. exact update_state_absorbing. Qed.
Print Assumptions C07_fin_rst_absorbing.

(* the keep-alive: after a call in which the sweep was due nobody has been idle for the keep-alive or longer *)
Theorem C07_sweep : forall fo p fo' e, Inv fo -> pkt_ok p -> process_packet fo p = Ok (fo', e) ->
  fo_last_cleanup fo + fo_keep_alive fo <= p_ts p ->
  fo_last_cleanup fo' = p_ts p /\ forall k s, zfind k (fo_streams fo') = Some s -> p_ts p < s_last s + fo_keep_alive fo.
Proof. exact sweep_leaves_fresh. Qed.
Print Assumptions C07_sweep.

(* interleaving: while no sweep is due, the reports about a connection and the state kept for it are those of the run
   over that connection's packets alone *)
Theorem C07_connections_independent : forall k ps a b a' tr,
  Inv a -> Inv b -> agree k a b -> Forall pkt_ok ps -> Forall (quiet a) ps -> run a ps = Ok (a', tr) ->
  exists b' tr', run b (filter (fun p => pkey p =? k) ps) = Ok (b', tr') /\ agree k a' b' /\
                 concat tr' = filter (fun x => ev_key x =? k) (concat tr).
Proof. exact connections_independent. Qed.
Print Assumptions C07_connections_independent.

(* direction: a packet of a tracked connection goes to the flow its destination names, and to one of the two *)
Theorem C07_routed_by_destination : forall s p, pkt_ok p -> stream_wf s -> key_of (name_of s) = pkey p ->
  (packet_belongs (s_client s) p = true <-> (p_dst p = f_dst (s_client s) /\ p_dport p = f_dport (s_client s))) /\
  (packet_belongs (s_server s) p = true <-> (p_dst p = f_dst (s_server s) /\ p_dport p = f_dport (s_server s))) /\
  (packet_belongs (s_client s) p = true \/ packet_belongs (s_server s) p = true).
Proof. exact routed_by_destination. Qed.
Print Assumptions C07_routed_by_destination.

Theorem C07_wf_preserved : forall fo p fo' e, Inv fo -> Inv_wf fo -> pkt_ok p -> process_packet fo p = Ok (fo', e) -> Inv_wf fo'.
Proof. exact process_packet_wf. Qed.
Print Assumptions C07_wf_preserved.

(* each direction's reassembler is fed exactly the segments routed to it (what it then delivers is C06's subject) *)
Theorem C07_flow_feeds_tracker : forall f p pl f' evs, p_data p = Some pl -> flow_process f p = Ok (f', evs) ->
  exists d' added, process_payload (f_dt (update_state f p)) (p_seq p) pl = Ok (d', added) /\
    dt_seq (f_dt f') = dt_seq d' /\ dt_buf (f_dt f') = dt_buf d' /\ dt_total (f_dt f') = dt_total d' /\
    (added = true -> In (FData (dt_out d')) evs) /\ (added = false -> forall x, ~ In (FData x) evs).
Proof. exact flow_feeds_tracker. Qed.
Print Assumptions C07_flow_feeds_tracker.

(* non-vacuity: a handshake, data both ways, FIN from both sides, on two interleaved connections one port apart *)
Definition ex_pk (sp dp fl q a : Z) (d : option (list Z)) (ts : Z) (rev : bool) : pkt :=
  if rev then mkpkt false 167772162 167772161 sp dp fl q a d ts else mkpkt false 167772161 167772162 sp dp fl q a d ts.
Definition ex_run := run (fo_init false 300000000 512 3145728)
  [ex_pk 1234 80 2 1000 0 None 10 false; ex_pk 1235 80 2 7000 0 None 11 false;
   ex_pk 80 1234 18 5000 1001 None 20 true; ex_pk 1234 80 16 1001 5001 None 30 false;
   ex_pk 1234 80 24 1003 5001 (Some [108;108;111]) 40 false; ex_pk 1235 80 24 7001 0 (Some [33]) 41 false;
   ex_pk 1234 80 24 1001 5001 (Some [104;101]) 50 false;
   ex_pk 1234 80 17 1006 5001 None 60 false; ex_pk 80 1234 17 5001 1007 None 70 true].
Example C07_nonvacuous :
  (exists fo tr, ex_run = Ok (fo, tr) /\ map (@length ev) tr = [1;1;0;0;1;1;1;0;1]%nat /\ zlen (fo_streams fo) = 1) /\
  Forall pkt_ok [ex_pk 1234 80 2 1000 0 None 10 false; ex_pk 80 1234 18 5000 1001 None 20 true].
Proof.
  split.
  - destruct ex_run as [[fo tr]| | |] eqn:E; try (vm_compute in E; discriminate).
    exists fo, tr. split; [reflexivity|]. vm_compute in E. injection E as <- <-. split; reflexivity.
  - repeat constructor; unfold addr_ok, port_ok; cbn; lia.
Qed.
