(* C08 — IPv4 fragment reassembly.  Statements closed by [exact], a non-vacuity example, Print Assumptions. *)
From LT Require Import Base.Prelude Base.CInt Model.IPReasm
  Proofs.IPReasm_tiling Proofs.IPReasm_stream Proofs.IPReasm_process.
Local Open Scope Z_scope.

(* tiling: a sub-family of a partition into non-empty fragments whose byte count equals the total IS the
   partition — why the byte-count completeness test is sound given duplicate suppression *)
Theorem C08_tiling : forall fs ps, sub fs ps -> forall o, tiled o ps -> plen fs = plen ps -> fs = ps.
Proof. exact sub_full. Qed.
Print Assumptions C08_tiling.

(* for every datagram, every partition at multiples of 8 into non-empty fragments, every arrival order
   with duplicates: the stream is declared complete iff every fragment has arrived *)
Theorem C08_never_partial : forall (ttl tos : Z -> Z) ps, tiled 0 ps -> ps <> [] ->
  (forall x, In x ps -> fst x mod 8 = 0) -> plen ps <= 65535 ->
  forall s arr, SInv ttl tos ps s arr ->
  (is_complete s = true <-> forall x, In x ps -> In x arr).
Proof. exact complete_iff_all. Qed.
Print Assumptions C08_never_partial.

(* the per-fragment step: statuses, reassembled payload = original payload, header = first fragment's,
   table entry erased on completion, invariant re-established otherwise *)
Theorem C08_status_and_payload :
  forall upper_ok id src dst proto df (ttl tos : Z -> Z) ps,
  tiled 0 ps -> ps <> [] -> (forall x, In x ps -> fst x mod 8 = 0) -> plen ps <= 65535 -> (2 <= length ps)%nat ->
  let fr := frag id src dst proto df ttl tos ps in
  let k := make_key (fr (0, [])) in
  forall t s arr x, In x ps ->
    (tfind k t = Some s \/ (tfind k t = None /\ s = stream0)) -> SInv ttl tos ps s arr ->
    let all_arrived := forall y, In y ps -> In y (x :: arr) in
    let t' := fst (process upper_ok t (fr x)) in
    let out := snd (process upper_ok t (fr x)) in
    (all_arrived ->
       (upper_ok proto (concat (map snd ps)) = true ->
          out = Reassembled (ttl 0) (tos 0) (concat (map snd ps)) /\ tfind k t' = None) /\
       (upper_ok proto (concat (map snd ps)) = false -> out = Malformed)) /\
    (~ all_arrived ->
       out = Fragmented /\ exists s', tfind k t' = Some s' /\ SInv ttl tos ps s' (x :: arr)).
Proof. exact process_fragment. Qed.
Print Assumptions C08_status_and_payload.

(* interleaving with other datagrams / unfragmented packets cannot disturb a datagram's stream *)
Theorem C08_other_keys_untouched : forall upper_ok t p k,
  make_key p <> k -> tfind k (fst (process upper_ok t p)) = tfind k t.
Proof. exact process_frame. Qed.
Print Assumptions C08_other_keys_untouched.

Theorem C08_unfragmented_untouched : forall upper_ok t p,
  is_fragmented p = false -> process upper_ok t p = (t, NotFragmented).
Proof. exact process_unfragmented. Qed.
Print Assumptions C08_unfragmented_untouched.

(* non-vacuity: a three-fragment datagram satisfies every hypothesis, arrives out of order with a duplicate *)
Example C08_nonvacuous :
  let ps := [(0, [1;2;3;4;5;6;7;8]); (8, [9;10;11;12;13;14;15;16]); (16, [17;18])] in
  tiled 0 ps /\ (forall x, In x ps -> fst x mod 8 = 0) /\
  let fr := frag 7 1 2 253 false (fun o => 60 + o) (fun _ => 0) ps in
  let run := fold_left (fun ts p => let '(t, outs) := ts in let '(t', o) := process upper_ok_run t p in (t', outs ++ [o])) in
  snd (run [fr (16, [17;18]); fr (0, [1;2;3;4;5;6;7;8]); fr (16, [17;18]); fr (8, [9;10;11;12;13;14;15;16])] ([], []))
  = [Fragmented; Fragmented; Fragmented; Reassembled 60 0 [1;2;3;4;5;6;7;8;9;10;11;12;13;14;15;16;17;18]].
Proof.
  cbn zeta. split; [cbn; repeat split; lia|]. split; [intros x [<-|[<-|[<-|[]]]]; reflexivity|]. vm_compute. reflexivity.
Qed.
