(* C09 — WEP and WPA2 (TKIP/CCMP) decryption recovers exactly the plaintext, safely. *)
From LT Require Import Base.Prelude Base.CInt Model.Checksum Model.AES Model.Wifi Proofs.Wifi Proofs.Crc Proofs.IcvForgery.
Local Open Scope Z_scope.

(* memory safety: for EVERY frame body of any length (and any key material, header, block cipher) the decryption code
   reads and writes only inside the body *)
Theorem C09_wep_safe : forall pload pw, fine (wep_decrypt pload pw).
Proof. exact wep_decrypt_safe. Qed.
Print Assumptions C09_wep_safe.

Theorem C09_tkip_safe : forall ta tk pload, fine (tkip_decrypt ta tk pload).
Proof. exact tkip_decrypt_safe. Qed.
Print Assumptions C09_tkip_safe.

Theorem C09_ccmp_safe : forall E h pload, fine (ccmp_decrypt E h pload).
Proof. exact ccmp_decrypt_safe. Qed.
Print Assumptions C09_ccmp_safe.

(* WEP: decryption inverts what a sender does, for every key, IV, key id and non-empty payload *)
Theorem C09_wep_roundtrip : forall pw i0 i1 i2 kid m, m <> [] -> wep_decrypt (wep_encrypt pw i0 i1 i2 kid m) pw = Ok (Some m).
Proof. exact wep_roundtrip. Qed.
Print Assumptions C09_wep_roundtrip.

(* TKIP: with the per-packet key derived from the first 8 body bytes, the transmitter address and the temporal key,
   decryption gives back the MSDU for every payload, Michael field and sequence counter *)
Theorem C09_tkip_roundtrip : forall ta tk b0 b1 b2 b3 b4 b5 b6 b7 m mic key,
  m <> [] -> length mic = 8%nat -> tkip_key ta tk [b0; b1; b2; b3; b4; b5; b6; b7] = Ok key ->
  let pt := m ++ mic ++ le32 (crc32 (m ++ mic)) in
  tkip_decrypt ta tk ([b0; b1; b2; b3; b4; b5; b6; b7] ++ xorl (keystream (length pt) (ksa key) 0 0) pt) = Ok (Some m).
Proof. exact tkip_roundtrip. Qed.
Print Assumptions C09_tkip_roundtrip.

(* CCMP: for ANY block function with 16-byte output (AES under the temporal key is one), every header variant, packet
   number and non-empty payload, decryption inverts the sender's CCM encapsulation - although it runs in place over
   overlapping ranges and handles a partial last block *)
Theorem C09_ccmp_roundtrip : forall E, (forall x, length (E x) = 16%nat) ->
  forall h b0 b1 b2 b3 b4 b5 b6 b7 m, m <> [] ->
  ccmp_decrypt E h (ccmp_encrypt E h b0 b1 b2 b3 b4 b5 b6 b7 m) = Ok (Some m).
Proof. exact ccmp_roundtrip. Qed.
Print Assumptions C09_ccmp_roundtrip.

(* nothing is reported as decrypted unless the integrity value verifies *)
Theorem C09_wep_needs_icv : forall pload pw m, wep_decrypt pload pw = Ok (Some m) ->
  exists buf, rc4_go (Z.to_nat (zlen pload - 4)) (ksa ([nthz pload 0; nthz pload 1; nthz pload 2] ++ pw)) 0 0 pload 4 0 = Ok buf /\
              icv_ok buf (zlen pload - 8) = Ok true /\ m = zfirstn (zlen pload - 8) buf.
Proof. exact wep_accepts_only_valid_icv. Qed.
Print Assumptions C09_wep_needs_icv.

(* the algebra behind the recorded finding (KNOWN_FINDINGS.txt: TKIP is accepted on the ICV alone): the ICV is the IEEE
   CRC-32, which is affine over GF(2) -- xor-ing ANY bit pattern d into a protected string changes its ICV by a value that
   depends on d alone, so the matching ICV patch needs no key.  WEP has this weakness by design; for TKIP it is what the
   Michael MIC, which libtins does not verify, exists to stop. *)
Theorem C09_icv_alone_is_malleable : forall a d, Forall (fun x => 0 <= x < 256) a -> Forall (fun x => 0 <= x < 256) d ->
  length a = length d -> crc32 (xorl a d) = Z.lxor (crc32 a) (crc_delta d).
Proof. exact crc32_malleable. Qed.
Print Assumptions C09_icv_alone_is_malleable.

Example C09_icv_malleable_nonvacuous :
  (crc32 (xorl [170;170;3;0] [0;4;0;0]) = Z.lxor (crc32 [170;170;3;0]) (crc_delta [0;4;0;0])) /\ (crc_delta [0;4;0;0] =? 0) = false.
Proof. split; vm_compute; reflexivity. Qed.

(* ... and the consequence for the decryptor model: a WEP frame modified WITHOUT the key (any payload bits d flipped, the
   encrypted ICV patched by le32 (crc_delta d)) is accepted and the flipped plaintext reported as decrypted.  For WEP this is
   the protocol's own weakness (the property's "ICV verifies" is all WEP offers), stated so that the limit of what
   C09_wep_needs_icv guarantees is visible; the TKIP analogue is the recorded finding. *)
Theorem C09_wep_bitflip_with_patched_icv_is_accepted : forall pw i0 i1 i2 kid m d, m <> [] ->
  Forall (fun x => 0 <= x < 256) m -> Forall (fun x => 0 <= x < 256) d -> length m = length d ->
  let E := wep_encrypt pw i0 i1 i2 kid m in
  wep_decrypt (firstn 4 E ++ xorl (skipn 4 E) (d ++ le32 (crc_delta d))) pw = Ok (Some (xorl m d)).
Proof. exact wep_bitflip_accepted. Qed.
Print Assumptions C09_wep_bitflip_with_patched_icv_is_accepted.

(* THE RECORDED FINDING (KNOWN_FINDINGS.txt, C09 TKIP) as a theorem about the faithful model: "reported as decrypted only if
   the integrity check verifies" is refuted for TKIP -- for EVERY frame and every flip pattern over MSDU and Michael field
   (so in particular patterns that leave the Michael value stale), the frame patched without any key is accepted.  The
   check replays exactly this forgery against Crypto::WPA2Decrypter and prints the KNOWN-FINDING line when it is accepted. *)
Theorem C09_tkip_integrity_refuted : forall ta tk b0 b1 b2 b3 b4 b5 b6 b7 m mic d dm key, m <> [] -> length mic = 8%nat ->
  Forall (fun x => 0 <= x < 256) (m ++ mic) -> Forall (fun x => 0 <= x < 256) (d ++ dm) ->
  length m = length d -> length dm = 8%nat ->
  tkip_key ta tk [b0; b1; b2; b3; b4; b5; b6; b7] = Ok key ->
  let pt := m ++ mic ++ le32 (crc32 (m ++ mic)) in
  let ct := xorl (keystream (length pt) (ksa key) 0 0) pt in
  tkip_decrypt ta tk ([b0; b1; b2; b3; b4; b5; b6; b7] ++ xorl ct ((d ++ dm) ++ le32 (crc_delta (d ++ dm)))) = Ok (Some (xorl m d)).
Proof. exact tkip_bitflip_accepted. Qed.
Print Assumptions C09_tkip_integrity_refuted.

(* the handshake capturer: messages 1-3 each possibly retransmitted, then message 4 (then retransmissions of it), after
   whatever was collected before: exactly one completion, at message 4, holding this run's four messages *)
Theorem C09_handshake_completes : forall e a b c d n1 n2 n3 n4,
  hs_run e (rep M1 a (S n1) ++ rep M2 b (S n2) ++ rep M3 c (S n3) ++ [(M4, d)] ++ rep M4 d n4) = (None, [[a; b; c; d]]).
Proof. exact handshake_completes. Qed.
Print Assumptions C09_handshake_completes.

Theorem C09_completion_needs_three : forall e m id l, snd (hs_step e m id) = Some l ->
  m = M4 /\ exists x y z, e = Some [x; y; z] /\ l = [x; y; z; id].
Proof. exact completion_needs_three. Qed.
Print Assumptions C09_completion_needs_three.

(* non-vacuity: the IEEE 802.11-2012 annex M.6.4 CCMP test vector decrypts to its plaintext under the AES model;
   a WEP frame made by the sender definition decrypts; a 15-byte CCMP body is rejected, not read *)
Example C09_ccmp_ieee_vector :
  ccmp_decrypt (aes_encrypt [201;124;31;103;206;55;17;133;81;74;138;25;242;189;213;47])
    (mkd11 false false false 8 false false [15;210;225;40;165;124] [80;48;241;132;68;8] [171;174;165;184;252;186] [] 0 0)
    [12;231;0;32;118;151;3;181; 243;208;162;254;154;61;191;35;66;166;67;228;50;70;232;12;60;4;208;25; 120;69;206;11;22;249;118;35]
  = Ok (Some [248;186;26;85;208;47;133;174;150;123;182;47;182;205;168;235;126;120;160;80]).
Proof. vm_compute. reflexivity. Qed.

Example C09_nonvacuous :
  wep_decrypt (wep_encrypt [1;2;3;4;5] 9 8 7 0 [170;170;3;0;0;0;8;0;69]) [1;2;3;4;5] = Ok (Some [170;170;3;0;0;0;8;0;69]) /\
  ccmp_decrypt (aes_encrypt [0;0;0;0;0;0;0;0;0;0;0;0;0;0;0;0]) (mkd11 true false false 8 false false [] [] [] [] 0 0) [1;2;3;4;5;6;7;8;9;10;11;12;13;14;15] = Ok None.
Proof. split; vm_compute; reflexivity. Qed.
