(* C10 — DNS messages stay coherent under parsing, editing and name compression. *)
From LT Require Import Base.Prelude Base.CInt Model.DNS Proofs.DNS_names.
Local Open Scope Z_scope.

(* any legal name (labels of 1..63 octets, at most 255 octets on the wire, ANY number of labels), as laid
   down by the encoder, is read back unchanged by compose_name, which consumes exactly the encoded bytes —
   wherever it sits in the message *)
Theorem C10_name_codec : forall labels pre post, legal labels ->
  compose_name (pre ++ encode_labels labels ++ post) (zlen pre) = Ok (zlen (encode_labels labels), dotted labels).
Proof. exact name_codec. Qed.
Print Assumptions C10_name_codec.

(* malformed names, pointer loops and out-of-range pointers are reported as errors (one of the libtins DNS
   exception classes) within a bounded number of steps, never by touching memory outside the message:
   for EVERY byte string and EVERY start offset *)
Theorem C10_name_expansion_safe : forall d p, wire_ok d -> 0 <= p ->
  match compose_name d p with
  | Ok _ => True
  | Throw e => e = EX_malformed_packet \/ e = EX_dns_decompression_pointer_loops \/ e = EX_dns_decompression_pointer_out_of_bounds
  | OOB _ => False
  | OutOfFuel => False
  end.
Proof. exact compose_name_total. Qed.
Print Assumptions C10_name_expansion_safe.

(* non-vacuity: a 40-label name is legal and round-trips (the shipped code rejected it; repaired),
   and a self-referential pointer is reported as a loop *)
Example C10_nonvacuous :
  let ls := repeat [97] 40 in
  legal ls /\ compose_name (encode_labels ls) 0 = Ok (81, dotted ls) /\
  compose_name [192; 12] 0 = Throw EX_dns_decompression_pointer_loops /\
  compose_name [192; 99] 0 = Throw EX_dns_decompression_pointer_out_of_bounds.
Proof.
  cbn zeta. split; [split; [repeat constructor; cbn; lia|vm_compute; discriminate]|]. vm_compute. repeat split.
Qed.
