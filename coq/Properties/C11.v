(* C11 — RadioTap fields can be set in any order and read back. *)
From LT Require Import Base.Prelude Base.CInt Gen.Kernels Gen.RadioTapMeta Model.RadioTap Proofs.RadioTap_basic.
Local Open Scope Z_scope.

(* the GENERATED padding kernel computes the least padding that aligns a field *)
Theorem C11_padding_is_least_aligning : forall a off, 0 < a < 4294967296 -> 0 <= off < 4294967296 ->
  let p := calculate_padding a off in
  0 <= p < a /\ (off + p) mod a = 0 /\ forall q, 0 <= q < p -> (off + q) mod a <> 0.
Proof. exact calculate_padding_spec. Qed.
Print Assumptions C11_padding_is_least_aligning.

(* the GENERATED metadata table has power-of-two alignments (<= 8) and positive sizes *)
Theorem C11_metadata_side_conditions : forallb meta_ok radiotap_metadata = true.
Proof. exact metadata_ok. Qed.
Print Assumptions C11_metadata_side_conditions.

(* reader and writer agree on where an aligned field starts *)
Theorem C11_reader_writer_agree_on_alignment : forall ptr n, (n = 1 \/ n = 2 \/ n = 4 \/ n = 8) -> 0 <= ptr < 4294967290 ->
  align_ptr ptr n = ptr + calculate_padding n (ptr + 4).
Proof. exact align_matches_padding. Qed.
Print Assumptions C11_reader_writer_agree_on_alignment.

(* non-vacuity / regression witness of the repaired writer: the setter order that corrupted the layout *)
Example C11_nonvacuous :
  let app b flag data := match write_option b flag data with Ok b' => b' | _ => b end in
  let b := app (app (app (app rt_default 4 [2]) 32768 [52; 18]) 64 [253]) 131072 [7] in
  find_option b 32768 = Ok [52; 18] /\ find_option b 4 = Ok [2] /\ find_option b 64 = Ok [253] /\ find_option b 131072 = Ok [7] /\
  find_option b 524288 = Throw EX_field_not_present.
Proof. vm_compute. repeat split. Qed.
