(* C12 — packet object trees keep sound ownership.  Statements closed by [exact], non-vacuity, Print Assumptions. *)
From LT Require Import Base.Prelude Model.PDUTree Proofs.PDUTree_inv Proofs.PDUTree_thms.
From Coq Require Import Arith.
Local Open Scope nat_scope.

(* for EVERY program over the 18 script operations (construct, clone/copy-construct, copy/move assignment,
   move construction, inner_pdu(ptr), inner_pdu(ref), release_inner_pdu, operator/=, delete, field edits,
   Packet wrap / own / copy / move / release / operator/=): the ownership invariant holds after every step *)
Theorem C12_forest : forall prog, Inv (run_prog prog).
Proof. exact forest_all_programs. Qed.
Print Assumptions C12_forest.

(* what the invariant says: one owner per layer, nothing destroyed twice, nothing live is destroyed *)
Theorem C12_single_owner : forall st, Inv st ->
  NoDup (live (ts_vars st)) /\ NoDup (ts_freed st) /\ (forall x, In x (live (ts_vars st)) -> ~ In x (ts_freed st)).
Proof. exact single_owner. Qed.
Print Assumptions C12_single_owner.

(* destroying all live objects frees every layer exactly once *)
Theorem C12_no_leak : forall st, Inv st -> Forall (fun o => o = None) (ts_vars st) ->
  forall x, x < ts_next st -> cnt (ts_freed st) x = 1.
Proof. exact no_leak. Qed.
Print Assumptions C12_no_leak.

(* each layer's parent link designates its owner *)
Theorem C12_parent_links : forall st, Inv st -> forall i c, getv st i = Some c -> Forall (fun l => l_pok l = true) c.
Proof. exact parent_links. Qed.
Print Assumptions C12_parent_links.

(* a clone / copy is deep and equal to its source; the source is unchanged *)
Theorem C12_clone_deep : forall st v w c, Inv st -> is_var v = true -> is_var w = true ->
  getv st v = None -> getv st w = Some c ->
  exists c', getv (step st (Clone v w)) v = Some c' /\ content c' = content c /\
             (forall x, In x (ids c') -> ts_next st <= x) /\ getv (step st (Clone v w)) w = Some c.
Proof. exact clone_is_deep. Qed.
Print Assumptions C12_clone_deep.

(* copy assignment: equal to the source — including when the source has fewer layers than the target had *)
Theorem C12_assign_deep : forall st v w hv tv hw tw, Inv st -> is_var v = true -> is_var w = true -> v <> w ->
  getv st v = Some (hv :: tv) -> getv st w = Some (hw :: tw) -> l_cls hv = l_cls hw ->
  exists c', getv (step st (Assign v w)) v = Some c' /\ content c' = content (hw :: tw) /\
             (forall x, In x (ids (tl c')) -> ts_next st <= x) /\ getv (step st (Assign v w)) w = Some (hw :: tw).
Proof. exact assign_is_deep. Qed.
Print Assumptions C12_assign_deep.

(* later changes to one object never show through another: an operation only changes the variables it names *)
Theorem C12_independence : forall st o u, (forall v, In v (match o with
    | Mk v _ _ | Del v | Tag v _ _ => [v]
    | Clone v w | Assign v w | Move v w | MAssign v w | SetInner v w | SetInnerRef v w | Release v w | Div v w
    | PkCopy v w | PkMove v w => [v; w] end) -> v <> u) ->
  getv (step st o) u = getv st u.
Proof. exact step_frame. Qed.
Print Assumptions C12_independence.

Example C12_nonvacuous :
  let st := run_prog [(0,0,4,2048); (0,1,1,7); (0,2,2,80); (6,1,2,0); (6,0,1,0); (1,3,0,0); (0,4,4,5); (3,3,4,0); (12,0,3,0); (15,1,0,0)]%Z in
  getv st 0 = Some [mklayer 0 4 2048 true; mklayer 1 1 7 true; mklayer 2 2 80 true] /\
  getv st 3 = Some [mklayer 3 4 5 true] /\ ts_freed st = [4; 5] /\ ts_next st = 8 /\
  getv st 9 = Some [mklayer 7 4 5 true].
Proof. vm_compute. repeat split. Qed.
