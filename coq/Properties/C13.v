(* C13 — layer look-up and casts never hand back an object of the wrong type.
   The class table is GENERATED from the current headers by compiling and running a program against them. *)
From Coq Require Import ZArith List Bool Arith.
From LT Require Import Gen.ClassTable Spec.Casts Proofs.Casts.
Local Open Scope Z_scope.

(* every concrete class K with a live instance, every class T that can be asked for:
   a chain search or checked cast that succeeds implies K really is a T
   (complete: the domain is the finite generated table; decided by vm_compute, lifted by forallb_forall).
   The caching wrapper rows are excluded HERE and decided by C13_cacher below. *)
Theorem C13_sound : forall K T, In K classes -> In T targets -> is_cacher K = false ->
  (find_accepts K T = true \/ cast_accepts K T = true) -> is_a K T = true.
Proof. exact sound_all. Qed.
Print Assumptions C13_sound.

Theorem C13_self : forall K, In K classes -> In (k_id K) (map fst targets) ->
  find_accepts K (k_id K, k_flag K) = true.
Proof. exact self_all. Qed.
Print Assumptions C13_self.

(* the caching wrapper: whatever pair [first_unsound] computes on the generated table is a genuine
   counterexample (search or cast succeeds, yet the wrapper is not a T).  On the shipped code it
   computes Some _ (see the Eval below): the property is REFUTED for PDUCacher<X>; recorded as a known finding. *)
Theorem C13_cacher_refuted_by : forall K T, first_unsound = Some (K, T) ->
  In K classes /\ In T targets /\ is_cacher K = true /\
  (find_accepts K T = true \/ cast_accepts K T = true) /\ is_a K T = false.
Proof. exact first_unsound_is_counterexample. Qed.
Print Assumptions C13_cacher_refuted_by.

Eval vm_compute in (match first_unsound with Some (K, T) => Some (k_id K, fst T) | None => None end).

(* non-vacuity: the table is not empty and some search across a base class is accepted *)
Example C13_nonvacuous : (50 <= length classes)%nat /\ (50 <= length targets)%nat /\
  existsb (fun K => existsb (fun T => find_accepts K T && negb (fst T =? k_id K)) targets) classes = true.
Proof. split; [apply Nat.leb_le; vm_compute; reflexivity|]. split; [apply Nat.leb_le; vm_compute; reflexivity|vm_compute; reflexivity]. Qed.
