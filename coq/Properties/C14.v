(* C14 — response matching accepts mirrored replies, rejects strangers, is memory-safe. *)
From LT Require Import Base.Prelude Base.CInt Model.Match Proofs.Match.
Local Open Scope Z_scope.

(* for every request stack and every buffer of any length, including zero: matching reads only inside the buffer *)
Theorem C14_safe : forall r b, fine (matches r b).
Proof. exact matches_safe. Qed.
Print Assumptions C14_safe.

Theorem C14_udp_mirror : forall sp dp r' b, 8 <= zlen b -> zfirstn 2 b = dp -> zfirstn 2 (zskipn 2 b) = sp ->
  matches (RUDP sp dp (Some r')) b = matches r' (zskipn 8 b).
Proof. exact udp_mirror. Qed.
Print Assumptions C14_udp_mirror.

Theorem C14_udp_stranger : forall sp dp inner b, 8 <= zlen b -> (zfirstn 2 b <> dp \/ zfirstn 2 (zskipn 2 b) <> sp) ->
  matches (RUDP sp dp inner) b = Ok false.
Proof. exact udp_stranger. Qed.
Print Assumptions C14_udp_stranger.

Theorem C14_icmp_echo_mirror : forall id sq b, 8 <= zlen b -> nth 0 b 0 = 0 ->
  zfirstn 2 (zskipn 4 b) = id -> zfirstn 2 (zskipn 6 b) = sq -> matches (RICMP 8 id sq) b = Ok true.
Proof. exact icmp_echo_mirror. Qed.
Print Assumptions C14_icmp_echo_mirror.

Theorem C14_icmp_echo_stranger : forall id sq b, 8 <= zlen b -> (zfirstn 2 (zskipn 4 b) <> id \/ zfirstn 2 (zskipn 6 b) <> sq) ->
  matches (RICMP 8 id sq) b = Ok false.
Proof. exact icmp_echo_stranger. Qed.
Print Assumptions C14_icmp_echo_stranger.

Theorem C14_dns_id : forall id b, 12 <= zlen b -> matches (RDNS id) b = Ok (beq (zfirstn 2 b) id).
Proof. exact dns_id. Qed.
Print Assumptions C14_dns_id.

Theorem C14_ethernet_mirror : forall src dst r' b, 14 <= zlen b -> zfirstn 6 b = src -> zfirstn 6 (zskipn 6 b) = dst ->
  matches (REth src dst (Some r')) b = matches r' (zskipn 14 b).
Proof. exact eth_mirror. Qed.
Print Assumptions C14_ethernet_mirror.

Theorem C14_ethernet_stranger : forall src dst inner b, 14 <= zlen b -> beq dst bcast6 = false -> is_multicast6 dst = false ->
  (zfirstn 6 b <> src \/ zfirstn 6 (zskipn 6 b) <> dst) -> matches (REth src dst inner) b = Ok false.
Proof. exact eth_stranger. Qed.
Print Assumptions C14_ethernet_stranger.

Theorem C14_tcp_mirror : forall sp dp b, 20 <= zlen b -> zfirstn 2 b = dp -> zfirstn 2 (zskipn 2 b) = sp ->
  matches (RTCP sp dp None) b = Ok true.
Proof. exact tcp_mirror. Qed.
Print Assumptions C14_tcp_mirror.

Theorem C14_tcp_stranger : forall sp dp inner b, 20 <= zlen b -> (zfirstn 2 b <> dp \/ zfirstn 2 (zskipn 2 b) <> sp) ->
  matches (RTCP sp dp inner) b = Ok false.
Proof. exact tcp_stranger. Qed.
Print Assumptions C14_tcp_stranger.

(* a reply that is not ICMP (so cannot quote the request) and differs in an address is rejected *)
Theorem C14_ip_stranger : forall src dst hs proto id inner b, 20 <= zlen b -> nth 9 b 0 <> 1 -> beq dst bcast4 = false ->
  (zfirstn 4 (zskipn 16 b) <> src \/ zfirstn 4 (zskipn 12 b) <> dst) ->
  matches (RIP src dst hs proto id inner) b = Ok false.
Proof. exact ip_stranger. Qed.
Print Assumptions C14_ip_stranger.

Example C14_nonvacuous :
  matches (RUDP [0;53] [4;210] (Some RRaw)) [4;210;0;53;0;8;0;0] = Ok true /\
  matches (RUDP [0;53] [4;210] (Some RRaw)) [4;211;0;53;0;8;0;0] = Ok false /\
  matches (RICMP 8 [1;2] [3;4]) [] = Ok false.
Proof. repeat split. Qed.
