(* C15 — header field accessors are exact inverses and do not disturb neighbouring fields.
   The header layouts are GENERATED from the compiler's own record layout of the current headers. *)
From Coq Require Import ZArith List Bool String.
From LT Require Import Gen.Layouts Model.Fields Proofs.Fields.
Local Open Scope Z_scope.

(* setting any representable value makes the getter return that value — every image, position, width, value *)
Theorem C15_get_set : forall img p w v, 0 <= p -> 0 <= w -> 0 <= v < 2 ^ w -> field_get (field_set img p w v) p w = v.
Proof. exact get_set_small. Qed.
Print Assumptions C15_get_set.

(* what an unchecked setter would store for an over-wide value: only the low w bits (the truncation the property forbids) *)
Theorem C15_store_truncates : forall img p w v, 0 <= p -> 0 <= w -> field_get (field_set img p w v) p w = Z.land v (Z.ones w).
Proof. exact get_set. Qed.
Print Assumptions C15_store_truncates.

(* every field occupying disjoint bits keeps its value *)
Theorem C15_frame : forall img p w v p' w', 0 <= p -> 0 <= w -> 0 <= p' -> 0 <= w' ->
  (p + w <= p' \/ p' + w' <= p) -> field_get (field_set img p w v) p' w' = field_get img p' w'.
Proof. exact frame. Qed.
Print Assumptions C15_frame.

(* in the serialization only the bits of that field change, and they hold the value bit by bit *)
Theorem C15_wire_outside : forall img p w v i, 0 <= p -> 0 <= w -> 0 <= i -> (i < p \/ p + w <= i) ->
  Z.testbit (field_set img p w v) i = Z.testbit img i.
Proof. exact outside_unchanged. Qed.
Print Assumptions C15_wire_outside.

Theorem C15_wire_inside : forall img p w v k, 0 <= p -> 0 <= w -> 0 <= k < w ->
  Z.testbit (field_set img p w v) (p + k) = Z.testbit v k.
Proof. exact inside_holds_value. Qed.
Print Assumptions C15_wire_inside.

(* the generated layouts: every member fits its struct; members of union-free headers are pairwise disjoint,
   so C15_frame applies to every pair of distinct members *)
Theorem C15_generated_layouts_ok : forallb layout_ok layouts = true.
Proof. exact generated_layouts_ok. Qed.
Print Assumptions C15_generated_layouts_ok.

Theorem C15_member_frame : forall img a b v, fits 65536 a = true -> fits 65536 b = true -> disjoint a b = true ->
  member_get (member_set img a v) b = member_get img b.
Proof. exact member_frame. Qed.
Print Assumptions C15_member_frame.

(* non-vacuity: the IPv4 header layout, setting ihl (bits 0..3 of byte 0) in an image where version = 4 *)
Example C15_nonvacuous :
  member_get (member_set 64 ("ihl"%string, 0, 0, 4) 5) ("version"%string, 0, 4, 4) = 4 /\
  member_get (member_set 64 ("ihl"%string, 0, 0, 4) 5) ("ihl"%string, 0, 0, 4) = 5 /\
  (30 <= List.length layouts)%nat.
Proof. split; [reflexivity|split; [reflexivity|]]. apply PeanoNat.Nat.leb_le. vm_compute. reflexivity. Qed.
