(* C16 — address types: text round trip, ordering, range arithmetic.  Statements closed by [exact]. *)
From LT Require Import Base.Prelude Base.CInt Model.Addr Proofs.Range_iter Proofs.Addr_inst Proofs.Addr_text.
Local Open Scope Z_scope.

(* parsing the textual form returns the same address *)
Theorem C16_hw_roundtrip : forall n b, wfb n b -> (1 <= n)%nat -> hw_parse n (hw_to_string b) = Some b.
Proof. exact hw_roundtrip. Qed.
Print Assumptions C16_hw_roundtrip.

Theorem C16_v4_roundtrip : forall a, wf4 a -> pton4 (v4_to_string a) = Some a.
Proof. exact v4_roundtrip. Qed.
Print Assumptions C16_v4_roundtrip.

(* equality and ordering agree with the numeric order of the address bytes (big-endian value) *)
Theorem C16_order_bytes : forall a b, bytes_ok a -> bytes_ok b -> length a = length b ->
  buf_lt a b = (bval a <? bval b) /\ buf_eq a b = (bval a =? bval b).
Proof. exact buf_cmp_spec. Qed.
Print Assumptions C16_order_bytes.

(* a range contains exactly the addresses between its ends *)
Theorem C16_contains_v4 : forall r x, wf4 (r_first Z r) -> wf4 (r_last Z r) -> wf4 x -> r_first Z r <= r_last Z r ->
  contains Z v4_lt v4_eq r x = ((r_first Z r <=? x) && (x <=? r_last Z r)).
Proof. exact v4_contains_spec. Qed.
Print Assumptions C16_contains_v4.

Theorem C16_contains_bytes : forall n r x, wfb n (r_first _ r) -> wfb n (r_last _ r) -> wfb n x ->
  bval (r_first _ r) <= bval (r_last _ r) ->
  contains _ buf_lt buf_eq r x = ((bval (r_first _ r) <=? bval x) && (bval x <=? bval (r_last _ r))).
Proof. exact buf_contains_spec. Qed.
Print Assumptions C16_contains_bytes.

(* iteration visits each address exactly once, in increasing order, and terminates — every range size,
   including ranges that end at the all-ones address (and, after the repair, the whole IPv4 space) *)
Theorem C16_iterate_v4 : forall first last limit, wf4 first -> wf4 last -> first <= last ->
  (Z.to_nat (last - first + 1) <= limit)%nat ->
  let r := mkrange Z first last false in
  let '(l, d) := iterate Z v4_eq v4_incr limit (it_begin Z v4_incr r) (it_end Z v4_incr v4_decr r) in
  d = true /\ map (fun a => a) l = zseq first (Z.to_nat (last - first + 1)) /\ Forall wf4 l.
Proof. exact v4_iterate_range. Qed.
Print Assumptions C16_iterate_v4.

Theorem C16_iterate_hosts_v4 : forall first last limit, wf4 first -> wf4 last -> first < last ->
  (Z.to_nat (last - first - 1) <= limit)%nat ->
  let r := mkrange Z first last true in
  let '(l, d) := iterate Z v4_eq v4_incr limit (it_begin Z v4_incr r) (it_end Z v4_incr v4_decr r) in
  d = true /\ map (fun a => a) l = zseq (first + 1) (Z.to_nat (last - first - 1)) /\ Forall wf4 l.
Proof. exact v4_iterate_hosts. Qed.
Print Assumptions C16_iterate_hosts_v4.

Theorem C16_iterate_bytes : forall n first last limit, wfb n first -> wfb n last -> bval first <= bval last ->
  (Z.to_nat (bval last - bval first + 1) <= limit)%nat ->
  let r := mkrange (list Z) first last false in
  let '(l, d) := iterate _ buf_eq buf_incr limit (it_begin _ buf_incr r) (it_end _ buf_incr buf_decr r) in
  d = true /\ map bval l = zseq (bval first) (Z.to_nat (bval last - bval first + 1)) /\ Forall (wfb n) l.
Proof. exact buf_iterate_range. Qed.
Print Assumptions C16_iterate_bytes.

Theorem C16_iterate_hosts_bytes : forall n first last limit, wfb n first -> wfb n last -> bval first < bval last ->
  (Z.to_nat (bval last - bval first - 1) <= limit)%nat ->
  let r := mkrange (list Z) first last true in
  let '(l, d) := iterate _ buf_eq buf_incr limit (it_begin _ buf_incr r) (it_end _ buf_incr buf_decr r) in
  d = true /\ map bval l = zseq (bval first + 1) (Z.to_nat (bval last - bval first - 1)) /\ Forall (wfb n) l.
Proof. exact buf_iterate_hosts. Qed.
Print Assumptions C16_iterate_hosts_bytes.

(* "strings that are not valid addresses are rejected": REFUTED for the hardware-address parser of the
   shipped code — extra groups / trailing text after six groups and empty groups are accepted, while a final
   one-digit group is rejected.  Witnesses (ASCII codes); recorded as a known finding. *)
Example C16_hw_accept_refuted :
  hw_parse 6 [48;48;58;49;49;58;50;50;58;51;51;58;52;52;58;53;53;58;122;122] = Some [0;17;34;51;68;85] /\   (* "00:11:22:33:44:55:zz" *)
  hw_parse 6 [58;58] = Some [0;0;0;0;0;0] /\                                                                  (* "::" *)
  hw_parse 6 [48;58;49;58;50;58;51;58;52;58;53] = None.                                                       (* "0:1:2:3:4:5" *)
Proof. vm_compute. repeat split. Qed.

(* non-vacuity *)
Example C16_nonvacuous :
  wfb 6 [255;255;255;255;255;253] /\ wf4 4294967290 /\
  fst (iterate Z v4_eq v4_incr 10 (it_begin Z v4_incr (mkrange Z 4294967290 4294967295 false))
                                  (it_end Z v4_incr v4_decr (mkrange Z 4294967290 4294967295 false)))
   = [4294967290; 4294967291; 4294967292; 4294967293; 4294967294; 4294967295].
Proof. split; [split; [reflexivity|repeat constructor; lia]|]. split; [unfold wf4; lia|]. vm_compute. reflexivity. Qed.
