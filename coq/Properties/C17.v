(* C17 — capture files round-trip and the capture loop survives any frame. *)
From LT Require Import Base.Prelude Base.CInt Model.Capture Proofs.Capture.
Local Open Scope Z_scope.

(* a microsecond timestamp survives writer -> file fields -> reader, for every value libpcap's reader can hold (31-bit seconds) *)
Theorem C17_timestamp_roundtrip : forall t, 0 <= t < 2147483648 * 1000000 ->
  read_ts (fst (file_ts t)) (snd (file_ts t)) = t.
Proof. exact ts_roundtrip. Qed.
Print Assumptions C17_timestamp_roundtrip.

(* the per-packet loop, for ANY top-level parser and ANY sequence of frames: what the functor sees is determined by the
   frames that parse, in order; frames that do not parse are skipped wherever they are; the loop ends at end of file *)
Theorem C17_sniff_loop : forall (frame pkt : Type) (parse : frame -> option pkt) fuel cb maxp fs, (length fs < fuel)%nat ->
  sniff_loop parse fuel cb maxp fs = visit cb maxp (parsed parse fs).
Proof. intros. apply sniff_loop_spec. assumption. Qed.
Print Assumptions C17_sniff_loop.

Theorem C17_iteration_is_filter : forall (frame pkt : Type) (parse : frame -> option pkt) fs, iterate parse fs = parsed parse fs.
Proof. intros. apply iterate_is_filter. Qed.
Print Assumptions C17_iteration_is_filter.

Theorem C17_limit_is_prefix : forall (pkt : Type) k (ps : list pkt), (0 < k)%nat -> visit (fun _ => true) (Z.of_nat k) ps = firstn k ps.
Proof. intros. apply limit_is_prefix. assumption. Qed.
Print Assumptions C17_limit_is_prefix.

Example C17_nonvacuous :
  iterate (fun f : Z => if f <? 10 then Some (f * 2) else None) [1; 50; 2; 99; 3] = [2; 4; 6] /\
  sniff_loop (fun f : Z => if f <? 10 then Some f else None) 10 (fun p => negb (p =? 2)) 0 [1; 50; 2; 99; 3] = [1; 2] /\
  file_ts 1234567890123456 = (1234567890, 123456).
Proof. repeat split. Qed.
