(* C18 — independent objects can be used from different threads without data races. *)
From LT Require Import Model.Threads Proofs.Threads Gen.Statics.
From Coq Require Import ZArith List Bool String.
Import ListNotations.
Local Open Scope Z_scope.

(* the generated inventory of the current build: no libtins object with static storage in a writable section is mutable
   shared state - each is a guard variable, a const object initialised before main, a never-written table, the allocator
   registry (explicit registration API), a runtime/boost internal or this verification's guarded hook *)
Theorem C18_no_hidden_mutable_statics : forallb (fun x => negb (snd (fst x) =? 9)) statics = true.
Proof. vm_compute. reflexivity. Qed.
Print Assumptions C18_no_hidden_mutable_statics.

Theorem C18_inventory_nonempty : (10 <= List.length statics)%nat.
Proof. vm_compute. repeat constructor. Qed.

(* code that touches only its own objects and reads statics has no conflicting accesses, under every interleaving *)
Theorem C18_disciplined_no_conflict : forall tr, Forall disciplined tr -> forall a b, In a tr -> In b tr -> ~ conflict a b.
Proof. exact disciplined_no_conflict. Qed.
Print Assumptions C18_disciplined_no_conflict.

(* ... and every thread computes what it computes alone, whatever the schedule *)
Theorem C18_results_as_alone : forall (Sh P : Type) (step : nat -> Sh -> P -> P) sh schedule st t,
  run Sh P step sh st schedule t = alone Sh P step sh t (st t) (count_occ Nat.eq_dec schedule t).
Proof. exact results_as_alone. Qed.
Print Assumptions C18_results_as_alone.

Example C18_nonvacuous :
  Forall disciplined [mkacc 1 (Priv 1 0) true; mkacc 2 (Shared 3) false; mkacc 1 (Shared 3) false] /\
  conflict (mkacc 1 (Shared 3) true) (mkacc 2 (Shared 3) false).
Proof. split; [repeat constructor|]. unfold conflict. cbn. repeat split; auto. Qed.
