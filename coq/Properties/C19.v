(* C19 — ACK/SACK tracker.  Statements closed by [exact], non-vacuity examples, Print Assumptions. *)
From LT Require Import Base.Prelude Base.CInt Gen.Kernels Model.AckTracker
  Proofs.Seq32 Proofs.ISetFacts Proofs.AckRange.
Local Open Scope Z_scope.

(* the interval-set operations the tracker relies on, by membership, canonical form preserved:
   "its set of SACKed intervals is exactly the set of ... byte ranges" is meaningful because the
   representation is canonical (sorted, disjoint, non-adjacent) and these hold for ALL sets/ranges *)
Theorem C19_insert_canonical : forall s lo a b, canon lo s -> lo < a -> a <= b -> canon lo (iset_insert a b s).
Proof. exact insert_canon. Qed.
Print Assumptions C19_insert_canonical.

Theorem C19_insert_membership : forall s lo a b x, canon lo s -> a <= b ->
  (imem x (iset_insert a b s) <-> (a <= x <= b \/ imem x s)).
Proof. exact insert_mem. Qed.
Print Assumptions C19_insert_membership.

Theorem C19_erase_canonical : forall s lo a b, canon lo s -> a <= b -> canon lo (iset_erase a b s).
Proof. exact erase_canon. Qed.
Print Assumptions C19_erase_canonical.

Theorem C19_erase_membership : forall s lo a b x, canon lo s -> a <= b ->
  (imem x (iset_erase a b s) <-> (imem x s /\ ~ a <= x <= b)).
Proof. exact erase_mem. Qed.
Print Assumptions C19_erase_membership.

(* "a segment is reported acknowledged iff every one of its bytes ... lies inside a SACKed range" *)
Theorem C19_contains_iff_all_bytes : forall s lo a b, canon lo s -> a <= b ->
  (iset_contains a b s = true <-> forall x, a <= x <= b -> imem x s).
Proof. exact contains_spec. Qed.
Print Assumptions C19_contains_iff_all_bytes.

(* wrap-around: the AckedRange loop covers exactly the serial range, in at most two pieces *)
Theorem C19_range_covers_serial_interval : forall first last y, u32 first -> u32 last -> u32 y ->
  rel first last < 2147483648 ->
  (in_pieces y (range_pieces first last) <-> rel first y <= rel first last).
Proof. exact range_pieces_mem. Qed.
Print Assumptions C19_range_covers_serial_interval.

Theorem C19_range_at_most_two_pieces : forall first last, u32 first -> u32 last ->
  (length (range_pieces first last) <= 2)%nat.
Proof. exact range_pieces_len. Qed.
Print Assumptions C19_range_at_most_two_pieces.

(* non-vacuity: a wrapping range and a non-trivial canonical set *)
Example C19_nonvacuous :
  range_pieces 4294967294 2 = [(4294967294, 4294967295); (0, 2)] /\
  canon (-1) (iset_insert 10 19 (iset_insert 0 2 [(4294967294, 4294967295)])) /\
  a_ivs (ack_process (ack_new 4294967290 true) 4294967292 true [4294967294; 3; 10; 20])
    = [(0, 2); (10, 19); (4294967294, 4294967295)].
Proof. vm_compute. repeat split; try congruence; reflexivity. Qed.
