(* C19 — ACK/SACK tracker.  Statements closed by [exact], non-vacuity examples, Print Assumptions. *)
From LT Require Import Base.Prelude Base.CInt Gen.Kernels Model.AckTracker
  Proofs.Seq32 Proofs.ISetFacts Proofs.AckRange Proofs.AckRefine.
Local Open Scope Z_scope.

(* the interval-set operations the tracker relies on, by membership, canonical form preserved:
   "its set of SACKed intervals is exactly the set of ... byte ranges" is meaningful because the
   representation is canonical (sorted, disjoint, non-adjacent) and these hold for ALL sets/ranges *)
Theorem C19_insert_canonical : forall s lo a b, canon lo s -> lo < a -> a <= b -> canon lo (iset_insert a b s).
Proof. exact insert_canon. Qed.
Print Assumptions C19_insert_canonical.

Theorem C19_insert_membership : forall s lo a b x, canon lo s -> a <= b ->
  (imem x (iset_insert a b s) <-> (a <= x <= b \/ imem x s)).
Proof. exact insert_mem. Qed.
Print Assumptions C19_insert_membership.

Theorem C19_erase_canonical : forall s lo a b, canon lo s -> a <= b -> canon lo (iset_erase a b s).
Proof. exact erase_canon. Qed.
Print Assumptions C19_erase_canonical.

Theorem C19_erase_membership : forall s lo a b x, canon lo s -> a <= b ->
  (imem x (iset_erase a b s) <-> (imem x s /\ ~ a <= x <= b)).
Proof. exact erase_mem. Qed.
Print Assumptions C19_erase_membership.

(* "a segment is reported acknowledged iff every one of its bytes ... lies inside a SACKed range" *)
Theorem C19_contains_iff_all_bytes : forall s lo a b, canon lo s -> a <= b ->
  (iset_contains a b s = true <-> forall x, a <= x <= b -> imem x s).
Proof. exact contains_spec. Qed.
Print Assumptions C19_contains_iff_all_bytes.

(* wrap-around: the AckedRange loop covers exactly the serial range, in at most two pieces *)
Theorem C19_range_covers_serial_interval : forall first last y, u32 first -> u32 last -> u32 y ->
  rel first last < 2147483648 ->
  (in_pieces y (range_pieces first last) <-> rel first y <= rel first last).
Proof. exact range_pieces_mem. Qed.
Print Assumptions C19_range_covers_serial_interval.

Theorem C19_range_at_most_two_pieces : forall first last, u32 first -> u32 last ->
  (length (range_pieces first last) <= 2)%nat.
Proof. exact range_pieces_len. Qed.
Print Assumptions C19_range_at_most_two_pieces.

(* non-vacuity: a wrapping range and a non-trivial canonical set *)
Example C19_nonvacuous :
  range_pieces 4294967294 2 = [(4294967294, 4294967295); (0, 2)] /\
  canon (-1) (iset_insert 10 19 (iset_insert 0 2 [(4294967294, 4294967295)])) /\
  a_ivs (ack_process (ack_new 4294967290 true) 4294967292 true [4294967294; 3; 10; 20])
    = [(0, 2); (10, 19); (4294967294, 4294967295)].
Proof. vm_compute. repeat split; try congruence; reflexivity. Qed.

(* "For any history of TCP acknowledgements and SACK blocks emitted by a conforming receiver ..., including histories that wrap
   the 32-bit sequence space, the tracker's cumulative ACK equals the highest contiguously acknowledged position, its set of
   SACKed intervals is exactly the set of selectively acknowledged byte ranges above that position":
   for EVERY initial sequence number and EVERY finite history of packets (ack, SACK blocks) in which the cumulative ACK never
   moves backwards (and at most half the sequence space forwards per packet) and every block [l, r) lies strictly above it within
   half the sequence space, the tracker ends with the last cumulative ACK, a canonical interval set of 32-bit numbers, and a
   sequence number is in that set iff the specification (drop what the new cumulative ACK covers, add the blocks: [spec_set])
   says it is selectively acknowledged; everything in the set lies above the cumulative ACK. *)
Theorem C19_tracker_refines_acknowledged_byte_set : forall a0 h, u32 a0 -> conforming a0 h ->
  let st := run_ack (ack_new a0 true) h in
  a_ack st = spec_ack a0 h /\ canon (-1) (a_ivs st) /\ (forall x, imem x (a_ivs st) -> u32 x) /\
  (forall x, u32 x -> (imem x (a_ivs st) <-> spec_set (fun _ => False) h x)) /\
  (forall x, spec_set (fun _ => False) h x -> above (spec_ack a0 h) x).
Proof. exact tracker_refines_byte_set. Qed.
Print Assumptions C19_tracker_refines_acknowledged_byte_set.

(* one packet: the specification step [A_step] is what the tracker does *)
Theorem C19_one_packet : forall st a A a' blks, TInv st a A -> u32 a -> u32 a' -> rel a a' < 2147483648 ->
  Forall (blk_ok a') blks -> TInv (ack_process st a' true (edges_of blks)) a' (A_step a' blks A).
Proof. exact ack_step_refines. Qed.
Print Assumptions C19_one_packet.

(* non-vacuity: a history that wraps 2^32 (ACK 2^32-6 -> 2^32-4 -> 3, blocks across the wrap) is conforming, and the tracker's
   set is what the specification says *)
Example C19_refinement_nonvacuous :
  let h := [(4294967292, [(4294967294, 3); (10, 20)]); (4294967292, [(30, 40)]); (3, [(10, 20); (30, 40)])] in
  conforming 4294967290 h /\
  a_ivs (run_ack (ack_new 4294967290 true) h) = [(10, 19); (30, 39)] /\ a_ack (run_ack (ack_new 4294967290 true) h) = 3.
Proof.
  cbn zeta. split; [|split; vm_compute; reflexivity].
  cbn [conforming]. unfold u32, rel, blk_ok. cbn [fst snd].
  repeat split; try (repeat constructor; cbn [fst snd]; unfold u32, rel; vm_compute; intuition congruence); vm_compute; congruence.
Qed.

(* "a segment is reported acknowledged if and only if every one of its bytes lies below the cumulative ACK or inside a SACKed
   range": in every state the refinement reaches ([TInv]: cumulative ACK a, set A of selectively acknowledged numbers), for every
   segment of 1 .. 2^31-1 bytes that starts at or below the cumulative ACK within half the sequence space, or lies above it
   within half the sequence space (wrap-around of the segment, of the ACK and of the SACKed ranges included) *)
Theorem C19_segment_acked_iff_every_byte : forall st a A seq len, TInv st a A -> u32 a -> u32 seq -> 0 < len < 2147483648 ->
  (rel seq a < 2147483648 \/ rel a seq + len <= 2147483647) ->
  (is_segment_acked st seq len = true <->
   forall x, u32 x -> rel seq x < len -> (0 < rel x a < 2147483648) \/ A x).
Proof. exact seg_acked_spec. Qed.
Print Assumptions C19_segment_acked_iff_every_byte.
