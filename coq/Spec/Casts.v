(* C13 spec over a class table: what the search and cast helpers accept, and what "really is a T" means. *)
From Coq Require Import ZArith List Bool.
From LT Require Import Gen.ClassTable.
Import ListNotations.
Local Open Scope Z_scope.

Definition zin (x : Z) (l : list Z) : bool := existsb (Z.eqb x) l.

(* find_pdu<T>(k): k.matches_flag(T::pdu_flag) *)
Definition find_accepts (K : krow) (T : Z * Z) : bool := zin (snd T) (k_matches K).
(* tins_cast<T*>(k): T::pdu_flag == k.pdu_type() *)
Definition cast_accepts (K : krow) (T : Z * Z) : bool := snd T =? k_type K.
(* the object really is a T: T is K or a base class of K *)
Definition is_a (K : krow) (T : Z * Z) : bool := zin (fst T) (k_bases K).

Definition is_cacher (K : krow) : bool := zin (k_id K) cacher_ids.

Definition sound_pair (K : krow) (T : Z * Z) : bool :=
  implb (find_accepts K T || cast_accepts K T) (is_a K T).

Definition table_sound (cls : list krow) (tg : list (Z * Z)) : bool :=
  forallb (fun K => is_cacher K || forallb (sound_pair K) tg) cls.

(* a search by an object's own exact class finds it (for classes that can be asked for) *)
Definition self_found (K : krow) : bool :=
  implb (zin (k_id K) (map fst targets)) (find_accepts K (k_id K, k_flag K)).

(* first unsound (K,T) pair among the caching wrappers, if any *)
Definition first_unsound : option (krow * (Z * Z)) :=
  let bad := flat_map (fun K => if is_cacher K then map (fun T => (K, T)) (filter (fun T => negb (sound_pair K T)) targets) else []) classes in
  match bad with [] => None | x :: _ => Some x end.
