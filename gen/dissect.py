"""Independent dissector written from the RFCs / IEEE documents (NOT from libtins): checks every derived field of a
serialized packet.  dissect(entry, bytes) -> (layers, problems).  layers: list of (name, dict)."""
import struct, zlib


def csum16(data):
    if len(data) % 2:
        data = data + b'\0'
    s = sum(struct.unpack('>%dH' % (len(data) // 2), data))
    while s >> 16:
        s = (s & 0xffff) + (s >> 16)
    return s


def dissect(entry, b, problems=None, layers=None, ctx=None):
    ctx = ctx if ctx is not None else {'no_ext': True}
    problems = [] if problems is None else problems
    layers = [] if layers is None else layers
    f = globals().get('d_' + entry)
    if f is None or len(b) == 0:
        if len(b):
            layers.append(('raw', {'len': len(b)}))
        return layers, problems
    f(b, problems, layers, ctx)
    return layers, problems


ETHER = {0x0800: 'ip', 0x86dd: 'ipv6', 0x0806: 'arp', 0x8100: 'dot1q', 0x88a8: 'dot1q', 0x8847: 'mpls', 0x8863: 'pppoe', 0x8864: 'pppoe'}
IPPROTO = {6: 'tcp', 17: 'udp', 1: 'icmp', 58: 'icmpv6'}


def d_eth(b, P, L, ctx):
    if len(b) < 14:
        P.append('ethernet: truncated header')
        return
    if ctx.get('top', True) and len(b) < 60:
        P.append('ethernet: frame of %d bytes is shorter than the 60-byte minimum' % len(b))
    et = struct.unpack('>H', b[12:14])[0]
    L.append(('eth', {'dst': b[0:6].hex(), 'src': b[6:12].hex(), 'type': et}))
    ctx = dict(ctx, top=False, frame_end=len(b), eth=True)
    if et in ETHER:
        dissect(ETHER[et], b[14:], P, L, ctx)
    elif len(b) > 14:
        L.append(('raw', {'len': len(b) - 14}))


def d_dot1q(b, P, L, ctx):
    if len(b) < 4:
        P.append('802.1Q: truncated')
        return
    tci, et = struct.unpack('>HH', b[:4])
    L.append(('dot1q', {'prio': tci >> 13, 'cfi': (tci >> 12) & 1, 'id': tci & 0xfff, 'type': et}))
    if et in ETHER:
        dissect(ETHER[et], b[4:], P, L, ctx)


def d_ip(b, P, L, ctx):
    if len(b) < 20:
        P.append('ipv4: truncated header')
        return
    ihl = (b[0] & 15) * 4
    if b[0] >> 4 != 4:
        P.append('ipv4: version field %d' % (b[0] >> 4))
    if ihl < 20 or ihl > len(b):
        P.append('ipv4: header length field %d does not point inside the packet' % ihl)
        return
    tot = struct.unpack('>H', b[2:4])[0]
    padding_allowed = ctx.get('eth', False)
    if tot > len(b) or (tot != len(b) and not padding_allowed):
        P.append('ipv4: total length %d but %d bytes follow' % (tot, len(b)))
        return
    if tot < len(b) and any(b[tot:]):
        P.append('ipv4: non-zero bytes after the datagram (padding must be zero)')
    if csum16(b[:ihl]) != 0xffff:
        P.append('ipv4: header checksum does not verify')
    proto = b[9]
    frag = struct.unpack('>H', b[6:8])[0]
    L.append(('ip', {'ihl': ihl, 'tot': tot, 'proto': proto, 'src': b[12:16].hex(), 'dst': b[16:20].hex(), 'ttl': b[8], 'id': struct.unpack('>H', b[4:6])[0], 'frag': frag}))
    payload = b[ihl:tot]
    if frag & 0x3fff:
        L.append(('raw', {'len': len(payload)}))
        return
    pseudo = b[12:20] + struct.pack('>BBH', 0, proto, len(payload))
    if proto in IPPROTO:
        dissect(IPPROTO[proto], payload, P, L, dict(ctx, pseudo=pseudo, direct=True))
    elif payload:
        L.append(('raw', {'len': len(payload)}))


def d_ipv6(b, P, L, ctx):
    if len(b) < 40:
        P.append('ipv6: truncated header')
        return
    plen = struct.unpack('>H', b[4:6])[0]
    if b[0] >> 4 != 6:
        P.append('ipv6: version field %d' % (b[0] >> 4))
    if 40 + plen > len(b) or (40 + plen != len(b) and not ctx.get('eth', False)):
        P.append('ipv6: payload length %d but %d bytes follow the header' % (plen, len(b) - 40))
        return
    nh = b[6]
    L.append(('ipv6', {'plen': plen, 'nh': nh, 'src': b[8:24].hex(), 'dst': b[24:40].hex(), 'hop': b[7]}))
    off = 40
    end = 40 + plen
    direct = True
    while nh in (0, 43, 60) and off + 8 <= end and not ctx.get('no_ext'):
        nxt, ln = b[off], b[off + 1]
        L.append(('ipv6ext', {'type': nh, 'len': (ln + 1) * 8}))
        off += (ln + 1) * 8
        nh = nxt
        direct = False
        if off > end:
            P.append('ipv6: extension header runs past the payload length')
            return
    payload = b[off:end]
    pseudo = b[8:40] + struct.pack('>IHBB', len(payload), 0, 0, nh)
    if nh in IPPROTO:
        dissect(IPPROTO[nh], payload, P, L, dict(ctx, pseudo=pseudo, direct=direct))
    elif payload:
        L.append(('raw', {'len': len(payload)}))


def d_tcp(b, P, L, ctx):
    if len(b) < 20:
        P.append('tcp: truncated header')
        return
    doff = (b[12] >> 4) * 4
    if doff < 20 or doff > len(b):
        P.append('tcp: data offset %d does not point inside the segment (%d bytes)' % (doff, len(b)))
        return
    if ctx.get('pseudo') and ctx.get('direct') and csum16(ctx['pseudo'] + b) != 0xffff:
        P.append('tcp: checksum does not verify')
    L.append(('tcp', {'sport': struct.unpack('>H', b[0:2])[0], 'dport': struct.unpack('>H', b[2:4])[0], 'doff': doff,
                      'seq': struct.unpack('>I', b[4:8])[0], 'ack': struct.unpack('>I', b[8:12])[0], 'win': struct.unpack('>H', b[14:16])[0]}))
    if len(b) > doff:
        L.append(('raw', {'len': len(b) - doff, 'bytes': b[doff:].hex()}))


def d_udp(b, P, L, ctx):
    if len(b) < 8:
        P.append('udp: truncated header')
        return
    ln = struct.unpack('>H', b[4:6])[0]
    if ln != len(b):
        P.append('udp: length field %d but the datagram has %d bytes' % (ln, len(b)))
    ck = struct.unpack('>H', b[6:8])[0]
    if ctx.get('pseudo') and ctx.get('direct'):
        if ck == 0:
            P.append('udp: checksum field is 0 (= "no checksum") although libtins is to fill it in')
        elif csum16(ctx['pseudo'] + b) != 0xffff:
            P.append('udp: checksum does not verify')
    L.append(('udp', {'sport': struct.unpack('>H', b[0:2])[0], 'dport': struct.unpack('>H', b[2:4])[0], 'len': ln}))
    if len(b) > 8:
        L.append(('raw', {'len': len(b) - 8, 'bytes': b[8:].hex()}))


def d_icmp(b, P, L, ctx):
    if len(b) < 8:
        P.append('icmp: truncated header')
        return
    if csum16(b) != 0xffff:
        P.append('icmp: checksum does not verify')
    L.append(('icmp', {'type': b[0], 'code': b[1]}))
    if len(b) > 8:
        L.append(('raw', {'len': len(b) - 8, 'bytes': b[8:].hex()}))


def d_icmpv6(b, P, L, ctx):
    if len(b) < 4:
        P.append('icmpv6: truncated header')
        return
    if ctx.get('pseudo') and ctx.get('direct') and csum16(ctx['pseudo'] + b) != 0xffff:
        P.append('icmpv6: checksum does not verify')
    L.append(('icmpv6', {'type': b[0], 'code': b[1]}))
    if len(b) > 8:
        L.append(('raw', {'len': len(b) - 8, 'bytes': b[8:].hex()}))


def d_arp(b, P, L, ctx):
    if len(b) < 28:
        P.append('arp: truncated')
        return
    L.append(('arp', {'op': struct.unpack('>H', b[6:8])[0]}))


def d_sll(b, P, L, ctx):
    if len(b) < 16:
        P.append('sll: truncated')
        return
    et = struct.unpack('>H', b[14:16])[0]
    L.append(('sll', {'type': et}))
    if et in ETHER:
        dissect(ETHER[et], b[16:], P, L, ctx)


def d_loopback(b, P, L, ctx):
    if len(b) < 4:
        P.append('loopback: truncated')
        return
    fam = struct.unpack('<I', b[:4])[0]
    L.append(('loopback', {'family': fam}))
    if fam == 2:
        dissect('ip', b[4:], P, L, ctx)
    elif fam in (24, 28, 30, 10):
        dissect('ipv6', b[4:], P, L, ctx)


def d_radiotap(b, P, L, ctx):
    if len(b) < 8:
        P.append('radiotap: truncated')
        return
    ln = struct.unpack('<H', b[2:4])[0]
    present = struct.unpack('<I', b[4:8])[0]
    if ln > len(b) or ln < 8:
        P.append('radiotap: header length %d outside the packet' % ln)
        return
    L.append(('radiotap', {'len': ln, 'present': present}))
    # FLAGS field (bit 1) position: after optional TSFT (8 bytes, aligned 8)
    off = 8
    k = 0
    while present >> (31 + 32 * k) & 1 if False else False:
        pass
    if present & 1:
        off = (off + 7) & ~7
        off += 8
    flags = b[off] if (present & 2) and off < ln else 0
    body = b[ln:]
    if flags & 0x10:
        if len(body) < 4:
            P.append('radiotap: FCS flag set but no room for the FCS')
            return
        fcs = struct.unpack('<I', body[-4:])[0]
        if zlib.crc32(body[:-4]) & 0xffffffff != fcs:
            P.append('radiotap: frame check sequence does not verify (CRC-32 of the 802.11 frame)')
