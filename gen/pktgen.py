"""Generators of packet-building scripts for harness/h_pkt (public API only) and the expectations that go with them."""
import struct

SET = {
    'EthernetII': [('dst_addr', 48), ('src_addr', 48)],
    'Dot1Q': [('priority', 3), ('cfi', 1), ('id', 12)],
    'IP': [('tos', 8), ('id', 16), ('ttl', 8), ('src_addr', 32), ('dst_addr', 32)],
    'IPv6': [('traffic_class', 8), ('flow_label', 20), ('hop_limit', 8), ('src_addr', 64), ('dst_addr', 64)],
    'TCP': [('sport', 16), ('dport', 16), ('seq', 32), ('ack_seq', 32), ('window', 16), ('urg_ptr', 16), ('flags', 12)],
    'UDP': [('sport', 16), ('dport', 16)],
    'ICMP': [('code', 8), ('id', 16), ('sequence', 16)],
    'ICMPv6': [('code', 8), ('identifier', 16), ('sequence', 16)],
    'SLL': [('packet_type', 16), ('lladdr_type', 16)],
    'Loopback': [],
    'ARP': [('opcode', 16), ('sender_ip_addr', 32), ('target_ip_addr', 32)],
}
TCP_OPTS = [('mss', 16), ('winscale', 8)]


def rnd_payload(rng):
    r = rng.random()
    n = rng.choice([0, 1, 2, 3, 5, 6, 17, 18, 19, 40, 100, 1400]) if r < 0.7 else rng.randrange(0, 300)
    k = rng.random()
    if k < 0.25:
        return bytes([0xff] * n)          # drives partial sums to 0xffff / carries
    if k < 0.4:
        return bytes(n)
    if k < 0.5 and n >= 2:
        return bytes([0xff, 0xfe] * (n // 2)) + bytes(n % 2)
    return bytes(rng.randrange(256) for _ in range(n))


def build(rng, sid):
    """returns (lines, info): info = list of (class, {field: value}) + payload + entry name for the dissector"""
    l2 = rng.choice(['EthernetII', 'EthernetII', 'EthernetII', 'none', 'SLL', 'Loopback'])
    l3 = rng.choice(['IP', 'IP', 'IPv6', 'IP'])
    l4 = rng.choice(['TCP', 'UDP', 'ICMP', 'none']) if l3 == 'IP' else rng.choice(['TCP', 'UDP', 'ICMPv6', 'none'])
    if l2 == 'Loopback':
        l3 = 'IP'
        l4 = rng.choice(['TCP', 'UDP', 'ICMP', 'none'])
    stack = []
    if l2 != 'none':
        stack.append(l2)
        if l2 == 'EthernetII':
            for _ in range(rng.choice([0, 0, 0, 1, 2])):
                stack.append('Dot1Q')
    stack.append(l3)
    if l4 != 'none':
        stack.append(l4)
    lines = ['new ' + stack[0]] + ['push ' + c for c in stack[1:]]
    info = []
    for idx, cls in enumerate(stack):
        vals = {}
        for (f, bits) in SET.get(cls, []):
            if rng.random() < 0.7:
                v = rng.choice([0, 1, (1 << bits) - 1, rng.randrange(1 << bits)])
                if f in ('src_addr', 'dst_addr') and cls == 'IP' and v == 0:
                    v = 0x0a000001 + rng.randrange(200)        # 0.0.0.0 makes IP look up an interface address (environment dependent)
                if f == 'flags' and cls == 'TCP':
                    v &= 0x1ff
                vals[f] = v
                lines.append('set %d %s %d' % (idx, f, v))
        if cls == 'Dot1Q' and rng.random() < 0.5:
            lines.append('set %d append_padding 0' % idx)            # as for every tag that was parsed: the Ethernet layer alone must pad the frame
        if cls == 'IPv6' and idx == len(stack) - 1:
            lines.append('set %d next_header 253' % idx)          # raw payload: 0 would announce a hop-by-hop header
        if cls == 'IP' and 'src_addr' not in vals:
            vals['src_addr'] = 0x0a000001
            lines.append('set %d src_addr %d' % (idx, 0x0a000001))
        if cls == 'TCP':
            for (f, bits) in TCP_OPTS:
                if rng.random() < 0.4:
                    v = rng.randrange(1 << bits)
                    vals['opt_' + f] = v
                    lines.append('set %d %s %d' % (idx, f, v))
        info.append((cls, vals))
    payload = rnd_payload(rng)
    if payload and rng.random() < 0.85:
        lines.append('raw x' + payload.hex())
    else:
        payload = b''
    lines.append('ser')
    entry = {'EthernetII': 'eth', 'SLL': 'sll', 'Loopback': 'loopback', 'IP': 'ip', 'IPv6': 'ipv6'}[stack[0]]
    return lines, {'stack': stack, 'fields': info, 'payload': payload, 'entry': entry, 'entry_class': stack[0]}


def ip6_from64(v):
    """the IPv6Address the generated accessor table builds from a 64-bit script value"""
    return bytes(((v >> (8 * (i % 8))) + i) & 255 for i in range(16))


def build_udp_zero6(rng, sid):
    """the same over IPv6 (where a zero checksum is not even allowed on the wire)"""
    s6, d6 = rng.randrange(1 << 64), rng.randrange(1 << 64)
    src, dst = ip6_from64(s6), ip6_from64(d6)
    sport, dport = rng.randrange(65536), rng.randrange(65536)
    n = rng.choice([2, 4, 6, 18, 100]) + rng.choice([0, 0, 1])
    body = bytearray(rng.randrange(256) for _ in range(n))
    even = n - (n % 2)
    ln = 8 + n

    def total(b):
        data = src + dst + struct.pack('>IHBB', ln, 0, 0, 17) + struct.pack('>HHHH', sport, dport, ln, 0) + bytes(b)
        if len(data) % 2:
            data += b'\0'
        t = sum(struct.unpack('>%dH' % (len(data) // 2), data))
        while t >> 16:
            t = (t & 0xffff) + (t >> 16)
        return t
    body[even - 2:even] = b'\0\0'
    rest = total(body)
    w = 0xffff - rest if rest != 0xffff else 0xffff
    body[even - 2:even] = struct.pack('>H', w)
    assert total(body) == 0xffff
    lines = ['new EthernetII', 'push IPv6', 'push UDP', 'set 1 src_addr %d' % s6, 'set 1 dst_addr %d' % d6,
             'set 2 sport %d' % sport, 'set 2 dport %d' % dport, 'raw x' + bytes(body).hex(), 'ser']
    info = [('EthernetII', {}), ('IPv6', {}), ('UDP', {'sport': sport, 'dport': dport})]
    return lines, {'stack': ['EthernetII', 'IPv6', 'UDP'], 'fields': info, 'payload': bytes(body), 'entry': 'eth', 'entry_class': 'EthernetII'}


def build_udp_zero(rng, sid):
    """EthernetII / IP / UDP whose one's complement sum is 0xffff before complementing: the computed checksum is 0,
    which must go on the wire as 0xffff (RFC 768)"""
    src, dst = 0x0a000000 + rng.randrange(1, 255), 0xc0a80000 + rng.randrange(1, 65535)
    sport, dport = rng.randrange(65536), rng.randrange(65536)
    n = rng.choice([2, 4, 6, 18, 100]) + rng.choice([0, 0, 1])
    body = bytearray(rng.randrange(256) for _ in range(n))
    even = n - (n % 2)
    ln = 8 + n
    def total(b):
        data = struct.pack('>IIBBH', src, dst, 0, 17, ln) + struct.pack('>HHHH', sport, dport, ln, 0) + bytes(b)
        if len(data) % 2:
            data += b'\0'
        s = sum(struct.unpack('>%dH' % (len(data) // 2), data))
        while s >> 16:
            s = (s & 0xffff) + (s >> 16)
        return s
    body[even - 2:even] = b'\0\0'
    rest = total(body)
    w = 0xffff - rest if rest != 0xffff else 0xffff
    body[even - 2:even] = struct.pack('>H', w)
    assert total(body) == 0xffff
    lines = ['new EthernetII', 'push IP', 'push UDP', 'set 1 src_addr %d' % src, 'set 1 dst_addr %d' % dst,
             'set 2 sport %d' % sport, 'set 2 dport %d' % dport, 'raw x' + bytes(body).hex(), 'ser']
    info = [('EthernetII', {}), ('IP', {'src_addr': src, 'dst_addr': dst}), ('UDP', {'sport': sport, 'dport': dport})]
    return lines, {'stack': ['EthernetII', 'IP', 'UDP'], 'fields': info, 'payload': bytes(body), 'entry': 'eth', 'entry_class': 'EthernetII'}
