"""Independent 802.11 security implementation written from the standards (IEEE 802.11-2012 clause 11: WEP, TKIP, CCMP;
RFC 3610 CCM; FIPS 197 AES; IEEE 802.11i key hierarchy) - NOT from libtins.  Used to produce protected frames and
four-way handshakes whose plaintext and keys are known, and to judge what libtins does with them."""
import struct, zlib, hashlib, hmac

# ----------------------------------------------------------------------------------------------------------------
# AES-128 (FIPS 197), encryption only


def _xtime(a):
    a <<= 1
    return (a ^ 0x11b) & 0xff if a & 0x100 else a


def _gmul(a, b):
    r = 0
    while b:
        if b & 1:
            r ^= a
        a = _xtime(a)
        b >>= 1
    return r


def _make_sbox():
    # multiplicative inverse in GF(2^8) followed by the affine map
    inv = [0] * 256
    for x in range(1, 256):
        for y in range(1, 256):
            if _gmul(x, y) == 1:
                inv[x] = y
                break
    sb = []
    for x in range(256):
        b = inv[x]
        r = 0
        for i in range(8):
            bit = ((b >> i) ^ (b >> ((i + 4) % 8)) ^ (b >> ((i + 5) % 8)) ^ (b >> ((i + 6) % 8)) ^ (b >> ((i + 7) % 8)) ^ (0x63 >> i)) & 1
            r |= bit << i
        sb.append(r)
    return sb


SBOX = _make_sbox()


def aes_expand(key):
    assert len(key) == 16
    w = [list(key[4 * i:4 * i + 4]) for i in range(4)]
    rcon = 1
    for i in range(4, 44):
        t = list(w[i - 1])
        if i % 4 == 0:
            t = t[1:] + t[:1]
            t = [SBOX[x] for x in t]
            t[0] ^= rcon
            rcon = _xtime(rcon)
        w.append([a ^ b for a, b in zip(w[i - 4], t)])
    return [sum(w[4 * r:4 * r + 4], []) for r in range(11)]


def aes_encrypt_block(rk, block):
    s = [b ^ k for b, k in zip(block, rk[0])]
    for rnd in range(1, 11):
        s = [SBOX[x] for x in s]
        # shift rows (state is column-major: s[4*c + r])
        s = [s[4 * ((c + r) % 4) + r] for c in range(4) for r in range(4)]
        if rnd != 10:
            t = []
            for c in range(4):
                a = s[4 * c:4 * c + 4]
                t += [_gmul(a[0], 2) ^ _gmul(a[1], 3) ^ a[2] ^ a[3], a[0] ^ _gmul(a[1], 2) ^ _gmul(a[2], 3) ^ a[3],
                      a[0] ^ a[1] ^ _gmul(a[2], 2) ^ _gmul(a[3], 3), _gmul(a[0], 3) ^ a[1] ^ a[2] ^ _gmul(a[3], 2)]
            s = t
        s = [b ^ k for b, k in zip(s, rk[rnd])]
    return bytes(s)


assert aes_encrypt_block(aes_expand(bytes(range(16))), bytes.fromhex('00112233445566778899aabbccddeeff')).hex() == '69c4e0d86a7b0430d8cdb78070b4c55a'   # FIPS 197 C.1


# ----------------------------------------------------------------------------------------------------------------
def rc4(key, data):
    s = list(range(256))
    j = 0
    for i in range(256):
        j = (j + s[i] + key[i % len(key)]) & 255
        s[i], s[j] = s[j], s[i]
    i = j = 0
    out = bytearray()
    for b in data:
        i = (i + 1) & 255
        j = (j + s[i]) & 255
        s[i], s[j] = s[j], s[i]
        out.append(b ^ s[(s[i] + s[j]) & 255])
    return bytes(out)


assert rc4(b'Key', b'Plaintext').hex() == 'bbf316e8d940af0ad3'


def icv(data):
    return struct.pack('<I', zlib.crc32(data) & 0xffffffff)


def wep_encrypt(key, iv, keyid, plaintext):
    """key: 5 or 13 bytes; iv: 3 bytes -> frame body (IV, key id octet, RC4(plaintext + ICV))"""
    return bytes(iv) + bytes([keyid << 6]) + rc4(bytes(iv) + bytes(key), plaintext + icv(plaintext))


# ----------------------------------------------------------------------------------------------------------------
# TKIP (802.11-2012 11.4.2): S-box derived from the AES S-box, key mixing, Michael
def _tkip_s(v):
    lo = SBOX[v & 0xff]
    hi = SBOX[v >> 8]
    t0 = (_gmul(lo, 2) << 8) | _gmul(lo, 3)           # table 0 entry for the low byte
    t1 = (_gmul(hi, 3) << 8) | _gmul(hi, 2)           # table 1 = byte-swapped table 0, for the high byte
    return t0 ^ t1


def _mk16(hi, lo):
    return (hi << 8) | lo


def _rotr1(v):
    return ((v >> 1) | (v << 15)) & 0xffff


def tkip_mix(tk, ta, tsc):
    """tk: 16-byte temporal key, ta: transmitter address, tsc: 48-bit sequence counter -> 16-byte RC4 key"""
    iv32 = tsc >> 16
    iv16 = tsc & 0xffff
    p = [iv32 & 0xffff, iv32 >> 16, _mk16(ta[1], ta[0]), _mk16(ta[3], ta[2]), _mk16(ta[5], ta[4])]
    for i in range(8):
        j = 2 * (i & 1)
        p[0] = (p[0] + _tkip_s(p[4] ^ _mk16(tk[1 + j], tk[0 + j]))) & 0xffff
        p[1] = (p[1] + _tkip_s(p[0] ^ _mk16(tk[5 + j], tk[4 + j]))) & 0xffff
        p[2] = (p[2] + _tkip_s(p[1] ^ _mk16(tk[9 + j], tk[8 + j]))) & 0xffff
        p[3] = (p[3] + _tkip_s(p[2] ^ _mk16(tk[13 + j], tk[12 + j]))) & 0xffff
        p[4] = (p[4] + _tkip_s(p[3] ^ _mk16(tk[1 + j], tk[0 + j])) + i) & 0xffff
    q = p + [(p[4] + iv16) & 0xffff]
    q[0] = (q[0] + _tkip_s(q[5] ^ _mk16(tk[1], tk[0]))) & 0xffff
    q[1] = (q[1] + _tkip_s(q[0] ^ _mk16(tk[3], tk[2]))) & 0xffff
    q[2] = (q[2] + _tkip_s(q[1] ^ _mk16(tk[5], tk[4]))) & 0xffff
    q[3] = (q[3] + _tkip_s(q[2] ^ _mk16(tk[7], tk[6]))) & 0xffff
    q[4] = (q[4] + _tkip_s(q[3] ^ _mk16(tk[9], tk[8]))) & 0xffff
    q[5] = (q[5] + _tkip_s(q[4] ^ _mk16(tk[11], tk[10]))) & 0xffff
    q[0] = (q[0] + _rotr1(q[5] ^ _mk16(tk[13], tk[12]))) & 0xffff
    q[1] = (q[1] + _rotr1(q[0] ^ _mk16(tk[15], tk[14]))) & 0xffff
    q[2] = (q[2] + _rotr1(q[1])) & 0xffff
    q[3] = (q[3] + _rotr1(q[2])) & 0xffff
    q[4] = (q[4] + _rotr1(q[3])) & 0xffff
    q[5] = (q[5] + _rotr1(q[4])) & 0xffff
    key = [iv16 >> 8, ((iv16 >> 8) | 0x20) & 0x7f, iv16 & 0xff, ((q[5] ^ _mk16(tk[1], tk[0])) >> 1) & 0xff]
    for x in q:
        key += [x & 0xff, x >> 8]
    return bytes(key)


def michael(key, data):
    """Michael MIC (802.11-2012 11.4.2.3): key 8 bytes, data = DA | SA | priority | 0 0 0 | MSDU"""
    l, r = struct.unpack('<II', key)
    data = bytes(data) + b'\x5a' + bytes(4)
    while len(data) % 4:
        data += b'\0'

    def rol(v, n):
        return ((v << n) | (v >> (32 - n))) & 0xffffffff

    def block(l, r):
        r ^= rol(l, 17)
        l = (l + r) & 0xffffffff
        r ^= ((l & 0xff00ff00) >> 8) | ((l & 0x00ff00ff) << 8)
        l = (l + r) & 0xffffffff
        r ^= rol(l, 3)
        l = (l + r) & 0xffffffff
        r ^= rol(l, 30)          # = ror 2
        l = (l + r) & 0xffffffff
        return l, r
    for i in range(0, len(data), 4):
        l ^= struct.unpack('<I', data[i:i + 4])[0]
        l, r = block(l, r)
    return struct.pack('<II', l, r)


assert michael(bytes(8), b'').hex() == '82925c1ca1d130b8'                      # 802.11 annex test vector (empty message)
assert michael(bytes.fromhex('82925c1ca1d130b8'), b'M').hex() == '434721ca40639b3f'


def tkip_encrypt(tk, mic_key, ta, da, sa, priority, tsc, keyid, plaintext):
    """-> frame body: IV/extended IV (8), RC4(plaintext | Michael MIC (8) | ICV (4))"""
    mic = michael(mic_key, bytes(da) + bytes(sa) + bytes([priority, 0, 0, 0]) + plaintext)
    key = tkip_mix(tk, ta, tsc)
    t = [(tsc >> (8 * i)) & 0xff for i in range(6)]
    hdr = bytes([t[1], (t[1] | 0x20) & 0x7f, t[0], 0x20 | (keyid << 6), t[2], t[3], t[4], t[5]])
    body = plaintext + mic
    return hdr + rc4(key, body + icv(body))


# ----------------------------------------------------------------------------------------------------------------
# CCMP (802.11-2012 11.4.3, RFC 3610 with M=8, L=2)
def _xor(a, b):
    return bytes(x ^ y for x, y in zip(a, b))


def ccmp_aad(hdr):
    """hdr: the MAC header bytes (24, +6 with address 4, +2 with QoS control)"""
    fc0, fc1 = hdr[0], hdr[1]
    to_ds, from_ds = fc1 & 1, (fc1 >> 1) & 1
    qos = (fc0 & 0x0c) == 0x08 and (fc0 & 0x80) != 0
    a4 = bool(to_ds and from_ds)
    fc0m = fc0 & 0x8f                       # subtype bits 4-6 masked
    fc1m = (fc1 & 0xc7) | 0x40              # retry, power management, more data masked; protected = 1
    if qos:
        fc1m &= 0x7f                        # order bit masked in QoS frames
    aad = bytes([fc0m, fc1m]) + hdr[4:22] + bytes([hdr[22] & 0x0f, 0])
    off = 24
    if a4:
        aad += hdr[24:30]
        off = 30
    if qos:
        aad += bytes([hdr[off] & 0x0f, 0])
    return aad


def ccmp_encrypt(tk, hdr, pn, keyid, plaintext):
    """-> frame body: CCMP header (8), ciphertext, MIC (8)"""
    rk = aes_expand(tk)
    fc0, fc1 = hdr[0], hdr[1]
    qos = (fc0 & 0x0c) == 0x08 and (fc0 & 0x80) != 0
    a4 = (fc1 & 3) == 3
    prio = (hdr[30 if a4 else 24] & 0x0f) if qos else 0
    pnb = bytes((pn >> (8 * i)) & 0xff for i in range(6))          # PN0..PN5
    nonce = bytes([prio]) + hdr[10:16] + pnb[::-1]                  # priority, A2, PN5..PN0
    aad = ccmp_aad(hdr)
    # CBC-MAC
    b0 = bytes([0x59]) + nonce + struct.pack('>H', len(plaintext))
    x = aes_encrypt_block(rk, b0)
    blk = struct.pack('>H', len(aad)) + aad
    blk += bytes((-len(blk)) % 16)
    for i in range(0, len(blk), 16):
        x = aes_encrypt_block(rk, _xor(x, blk[i:i + 16]))
    m = plaintext + bytes((-len(plaintext)) % 16)
    for i in range(0, len(m), 16):
        x = aes_encrypt_block(rk, _xor(x, m[i:i + 16]))
    t = x[:8]
    # CTR
    def ctr(i):
        return aes_encrypt_block(rk, bytes([0x01]) + nonce + struct.pack('>H', i))
    ct = bytearray()
    for i in range(0, len(plaintext), 16):
        ct += _xor(plaintext[i:i + 16], ctr(i // 16 + 1))
    mic = _xor(t, ctr(0)[:8])
    ccmp_hdr = bytes([pnb[0], pnb[1], 0, 0x20 | (keyid << 6), pnb[2], pnb[3], pnb[4], pnb[5]])
    return ccmp_hdr + bytes(ct) + mic


# ----------------------------------------------------------------------------------------------------------------
# key hierarchy and the four-way handshake
def pmk_from_passphrase(psk, ssid):
    return hashlib.pbkdf2_hmac('sha1', psk, ssid, 4096, 32)


def prf(key, label, data, nbytes):
    out = b''
    i = 0
    while len(out) < nbytes:
        out += hmac.new(key, label + b'\0' + data + bytes([i]), hashlib.sha1).digest()
        i += 1
    return out[:nbytes]


def ptk_from(pmk, aa, spa, anonce, snonce):
    data = min(aa, spa) + max(aa, spa) + min(anonce, snonce) + max(anonce, snonce)
    return prf(pmk, b'Pairwise key expansion', data, 64)          # KCK 16 | KEK 16 | TK 16 | MIC keys 8+8 (TKIP)


def eapol_key(version, key_info, key_len, replay, nonce, key_data=b'', kck=None, mic_len=16):
    """an EAPOL-Key frame (802.1X header + RSN key descriptor); the MIC is computed with kck when given"""
    desc = bytes([2])                                              # RSN key descriptor
    body = desc + struct.pack('>HHQ', key_info, key_len, replay) + nonce + bytes(16) + bytes(8) + bytes(8) + bytes(16) + struct.pack('>H', len(key_data)) + key_data
    frame = bytes([1, 3]) + struct.pack('>H', len(body)) + body    # protocol version 1, type 3 (key)
    if kck is not None:
        if version == 2:
            mic = hmac.new(kck, frame, hashlib.sha1).digest()[:16]
        else:
            mic = hmac.new(kck, frame, hashlib.md5).digest()
        frame = frame[:81] + mic + frame[97:]
    return frame


LLC_EAPOL = bytes.fromhex('aaaa03000000888e')


def dot11_data_header(to_ds, from_ds, a1, a2, a3, a4=None, qos_tid=None, seq=0, frag=0, protected=True, retry=False, more_frag=False, order=False):
    fc0 = 0x08 | (0x80 if qos_tid is not None else 0)
    fc1 = (1 if to_ds else 0) | (2 if from_ds else 0) | (4 if more_frag else 0) | (8 if retry else 0) | (0x40 if protected else 0) | (0x80 if order else 0)
    h = bytes([fc0, fc1]) + b'\x00\x00' + bytes(a1) + bytes(a2) + bytes(a3) + struct.pack('<H', (seq << 4) | frag)
    if to_ds and from_ds:
        h += bytes(a4)
    if qos_tid is not None:
        h += bytes([qos_tid, 0])
    return h


def addresses(to_ds, from_ds, bssid, sta, peer):
    """(a1, a2, a3) for a frame between the station and a peer behind the AP; returns also (da, sa, ta)"""
    if to_ds and not from_ds:
        return (bssid, sta, peer), (peer, sta, sta)
    if from_ds and not to_ds:
        return (sta, bssid, peer), (sta, peer, bssid)
    return (peer, sta, bssid), (peer, sta, sta)


def beacon(bssid, ssid, seq=0):
    h = bytes([0x80, 0x00, 0, 0]) + b'\xff' * 6 + bytes(bssid) + bytes(bssid) + struct.pack('<H', seq << 4)
    body = bytes(8) + struct.pack('<HH', 100, 0x0411) + bytes([0, len(ssid)]) + ssid + bytes([1, 4, 0x82, 0x84, 0x8b, 0x96])
    return h + body
