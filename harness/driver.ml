(* Generic script runner for the extracted models.  I/O only:
   reads "=== id" / "<op> <args>" lines, maps op names to the opcode table of the chosen
   component, converts decimal / x<hex> / [..] tokens to Models.tok, calls the extracted
   step function and prints the returned tokens in the same syntax. *)
open Models

let rec pos_of_int n = if n = 1 then XH else if n land 1 = 0 then XO (pos_of_int (n lsr 1)) else XI (pos_of_int (n lsr 1))
let z_of_int n = if n = 0 then Z0 else if n > 0 then Zpos (pos_of_int n) else Zneg (pos_of_int (-n))
let small = Array.init 256 z_of_int
let ten = z_of_int 10
let z_of_string s =
  let neg = String.length s > 0 && s.[0] = '-' in
  let s' = if neg then String.sub s 1 (String.length s - 1) else s in
  if String.length s' <= 18 then z_of_int (int_of_string s)
  else begin
    let acc = ref Z0 in
    String.iter (fun c -> acc := Z.add (Z.mul !acc ten) small.(Char.code c - 48)) s';
    if neg then Z.opp !acc else !acc
  end
let rec int_of_pos = function XH -> 1 | XO p -> 2 * int_of_pos p | XI p -> 2 * int_of_pos p + 1
let rec pos_bits = function XH -> 1 | XO p | XI p -> 1 + pos_bits p
let rec string_of_z z =
  match z with
  | Z0 -> "0"
  | Zneg p -> "-" ^ string_of_z (Zpos p)
  | Zpos p ->
    if pos_bits p <= 61 then string_of_int (int_of_pos p)
    else begin
      let (q, r) = Z.div_eucl z ten in
      string_of_z q ^ string_of_z r
    end
let int_of_z = function Z0 -> 0 | Zpos p -> int_of_pos p | Zneg p -> - (int_of_pos p)

let hexval c = match c with
  | '0'..'9' -> Char.code c - 48 | 'a'..'f' -> Char.code c - 87 | 'A'..'F' -> Char.code c - 55
  | _ -> failwith "hex"
let bytes_of_hex s = (* s without the leading x *)
  let n = String.length s / 2 in
  List.init n (fun i -> small.(hexval s.[2*i] * 16 + hexval s.[2*i+1]))
let hexd = "0123456789abcdef"
let hex_of_bytes l =
  let b = Buffer.create 64 in
  Buffer.add_char b 'x';
  List.iter (fun z -> let v = int_of_z z land 255 in
              Buffer.add_char b hexd.[v lsr 4]; Buffer.add_char b hexd.[v land 15]) l;
  Buffer.contents b

let split s = List.filter (fun x -> x <> "") (String.split_on_char ' ' s)

(* tokens with brackets: "[" and "]" may be glued to neighbours *)
let lex line =
  let b = Buffer.create 80 in
  String.iter (fun c -> if c = '[' || c = ']' then (Buffer.add_char b ' '; Buffer.add_char b c; Buffer.add_char b ' ')
                else Buffer.add_char b c) line;
  split (Buffer.contents b)

let rec parse_toks ws =
  match ws with
  | [] -> ([], [])
  | "]" :: r -> ([], r)
  | "[" :: r -> let (inner, r') = parse_toks r in
                let (rest, r'') = parse_toks r' in (TL inner :: rest, r'')
  | w :: r ->
    let t = if w.[0] = 'x' then TB (bytes_of_hex (String.sub w 1 (String.length w - 1)))
      else TN (z_of_string w) in
    let (rest, r') = parse_toks r in (t :: rest, r')

let rec show_tok = function
  | TN z -> string_of_z z
  | TB l -> hex_of_bytes l
  | TL l -> "[" ^ String.concat " " (List.map show_tok l) ^ "]"
let show_toks l = String.concat " " (List.map show_tok l)

(* component table: name -> (op names, fresh-state step closure) *)
let mk init step = fun () -> let st = ref init in fun op args -> let (s', out) = step !st op args in st := s'; out

let components : (string * (string list * (unit -> z -> tok list -> tok list))) list = [
  ("dt", (["new"; "seg"; "adv"], mk (dt_new Z0) dt_step));
  ("tree", (["mk"; "clone"; "copy"; "assign"; "move"; "massign"; "setinner"; "setinnerref"; "release"; "div"; "del"; "tag";
             "pkwrap"; "pkown"; "pkcopy"; "pkmove"; "pkrel"; "pkdiv"], mk ts0 tree_step));
  ("addr", (["v4p"; "v4s"; "v4cmp"; "v4ops"; "v4rng"; "v4it"; "hwp"; "hws"; "bufcmp"; "bufrng"; "bufit"], mk () addr_step));
  ("rt", (["new"; "parse"; "set"; "opt"; "noinner"], mk None rt_step));
  ("dns", (["new"; "parse"; "addq"; "adda"; "addn"; "addr"], mk None dns_step));
  ("sum", (["sum"], mk () sum_step));
  ("tcpo", (["tcpo"], mk () tcpo_step));
  ("match", (["match"], mk () match_step));
  ("sf", (["cfg"; "pkt"; "live"], mk fo_new fo_step));
  ("wifi", (["wep"; "tkip"; "ccmp"; "aes"; "hs"], mk [] wifi_step));
  ("cap", (["ts"; "loop"], mk () cap_step));
  ("tlv", (["dec"; "enc"; "hist"], mk () tlv_step));
  ("ls", (["new"; "seg"], mk (dt_new Z0) ls_step));
  ("ipr", (["pkt"], mk [] ipr_step));
  ("ack", (["new"; "pkt"; "q"], mk (ack_new Z0 false) ack_step));
]

let () =
  let comp = Sys.argv.(1) in
  let (ops, fresh) = List.assoc comp components in
  let opcode name =
    let rec go i = function [] -> -1 | n :: r -> if n = name then i else go (i + 1) r in go 0 ops in
  let cur = ref (fresh ()) in
  (try
    while true do
      let line = input_line stdin in
      if line = "" || line.[0] = '#' then ()
      else if String.length line >= 4 && String.sub line 0 4 = "=== " then begin
        cur := fresh (); print_endline line
      end else begin
        match lex line with
        | [] -> ()
        | name :: args ->
          let (toks, _) = parse_toks args in
          let out = !cur (z_of_int (opcode name)) toks in
          print_endline (show_toks out)
      end
    done
  with End_of_file -> ())
