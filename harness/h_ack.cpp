// C19 harness: drives Tins::TCPIP::AckTracker through real TCP packets (SACK option encoded,
// serialized, parsed back, decoded by TCP::sack()).
//   new <ack> <use_sack>            -> "<ack> [[lo hi] ...]"
//   pkt <ackseq> <has_sack> [e ...] -> "<ack> [[lo hi] ...]"
//   q <seq> <len>                   -> "0|1"
#include "hcommon.h"
#include <tins/tins.h>
#include <tins/tcp_ip/ack_tracker.h>
#include <memory>
using namespace Tins;
using namespace vh;

static std::string show(const TCPIP::AckTracker& t) {
    std::ostringstream os;
    os << t.ack_number() << " [";
    bool first = true;
    typedef TCPIP::AckTracker::interval_set_type set_type;
    const set_type& s = t.acked_intervals();
    for (set_type::const_iterator it = s.begin(); it != s.end(); ++it) {
        using namespace boost::icl;
        uint32_t lo = it->lower(), hi = it->upper();
        if (it->bounds() == interval_bounds::left_open() || it->bounds() == interval_bounds::open()) lo += 1;
        if (it->bounds() == interval_bounds::right_open() || it->bounds() == interval_bounds::open()) hi -= 1;
        if (!first) os << " ";
        first = false;
        os << "[" << lo << " " << hi << "]";
    }
    os << "]";
    return os.str();
}

static void run(const Script& s) {
    std::unique_ptr<TCPIP::AckTracker> tr;
    for (const std::string& line0 : s.lines) {
        std::string line = line0;
        for (char& c : line) if (c == '[' || c == ']') c = ' ';
        std::vector<std::string> t = split(line);
        if (t.empty()) continue;
        if (t[0] == "new") {
            tr.reset(new TCPIP::AckTracker((uint32_t)num(t[1]), num(t[2]) != 0));
            printf("%s\n", show(*tr).c_str());
        } else if (t[0] == "pkt" && tr) {
            TCP tcp(80, 1234);
            tcp.flags(TCP::ACK);
            tcp.ack_seq((uint32_t)num(t[1]));
            if (num(t[2]) != 0) {
                TCP::sack_type edges;
                for (size_t i = 3; i < t.size(); ++i) edges.push_back((uint32_t)num(t[i]));
                tcp.sack(edges);
            }
            PDU::serialization_type buf = tcp.serialize();
            TCP parsed(buf.data(), (uint32_t)buf.size());
            tr->process_packet(parsed);
            printf("%s\n", show(*tr).c_str());
        } else if (t[0] == "q" && tr) {
            printf("%d\n", tr->is_segment_acked((uint32_t)num(t[1]), (uint32_t)num(t[2])) ? 1 : 0);
        } else {
            printf("-3\n");
        }
        fflush(stdout);
    }
}
int main() { return run_all(run); }
