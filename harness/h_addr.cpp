// C16 harness: address text codecs, ordering, masks, ranges and range iteration.
#include "hcommon.h"
#include <tins/tins.h>
#include <tins/address_range.h>
using namespace Tins;
using namespace vh;

static std::string str_of(const bytes& b) { return std::string(b.begin(), b.end()); }
static std::string hexs(const std::string& s) { return hex((const uint8_t*)s.data(), s.size()); }
static IPv4Address v4(uint32_t host) { return IPv4Address(Endian::host_to_be(host)); }
static uint32_t num4(const IPv4Address& a) { return Endian::be_to_host((uint32_t)a); }
typedef HWAddress<6> HW;

template <class R, class F>
static void iterate(const R& r, uint64_t limit, F show) {
    std::vector<typename R::address_type> vis;
    uint64_t n = 0;
    typename R::const_iterator it = r.begin(), en = r.end();
    std::vector<typename R::address_type> first3, last3;
    for (; it != en && n < limit; ++it, ++n) {
        if (first3.size() < 3) first3.push_back(*it);
        last3.push_back(*it);
        if (last3.size() > 3) last3.erase(last3.begin());
    }
    printf("%llu [", (unsigned long long)n);
    for (size_t i = 0; i < first3.size(); ++i) printf("%s%s", i ? " " : "", show(first3[i]).c_str());
    printf("] [");
    for (size_t i = 0; i < last3.size(); ++i) printf("%s%s", i ? " " : "", show(last3[last3.size() - 1 - i]).c_str());
    printf("] %d\n", it == en ? 1 : 0);
}

static void run(const Script& s) {
    for (const std::string& line : s.lines) {
        std::vector<std::string> t = split(line);
        if (t.empty()) continue;
        const std::string& op = t[0];
        try {
            if (op == "v4p") {
                try { IPv4Address a(str_of(unhex(t[1]))); printf("1 %u\n", num4(a)); }
                catch (invalid_address&) { printf("0\n"); }
            } else if (op == "v4s") {
                IPv4Address a = v4((uint32_t)num(t[1]));
                std::string s1 = a.to_string();
                std::ostringstream os; os << a;
                printf("%s%s\n", hexs(s1).c_str(), os.str() == s1 ? "" : " STREAM-DIFFERS");
            } else if (op == "v4cmp") {
                IPv4Address a = v4((uint32_t)num(t[1])), b = v4((uint32_t)num(t[2]));
                bool heq = std::hash<IPv4Address>()(a) == std::hash<IPv4Address>()(b);
                std::string bad;
                if ((a == b) && !heq) bad += " HASH";
                if ((a != b) == (a == b)) bad += " NEQ";
                if ((a > b) != (b < a)) bad += " GT";
                if ((a <= b) != !(b < a)) bad += " LE";
                if ((a >= b) != !(a < b)) bad += " GE";
                // the same relations through const objects and const references (overload resolution must not fall back on the
                // conversion to an integer in network byte order)
                { const IPv4Address ca = a, cb = b; const IPv4Address& ra = a;
                  if ((ca < cb) != (a < b) || (ca > cb) != (a > b) || (ca <= cb) != !(b < a) || (ca >= cb) != !(a < b) || (ca == cb) != (a == b) || (ca != cb) != (a != b)) bad += " CONST";
                  if ((ra <= b) != !(b < a) || (ra >= cb) != !(a < b) || (ca <= b) != !(b < a)) bad += " CONSTREF"; }
                printf("%d %d%s\n", a < b ? 1 : 0, a == b ? 1 : 0, bad.c_str());
            } else if (op == "v4ops") {
                IPv4Address a = v4((uint32_t)num(t[1])), m = v4((uint32_t)num(t[2]));
                printf("%u %u %u\n", num4(a & m), num4(a | m), num4(~a));
            } else if (op == "v4rng") {
                IPv4Range r = v4((uint32_t)num(t[1])) / (int)num(t[2]);
                IPv4Address x = v4((uint32_t)num(t[3]));
                // first/last are private: recover them through begin()/contains on the ends via from_mask arithmetic
                IPv4Address mask = IPv4Address::from_prefix_length((uint32_t)num(t[2]));
                IPv4Address first = v4((uint32_t)num(t[1])) & mask;
                IPv4Address last = Internals::last_address_from_mask(v4((uint32_t)num(t[1])), mask);
                printf("%u %u %d %d\n", num4(first), num4(last), r.contains(x) ? 1 : 0, r.is_iterable() ? 1 : 0);
            } else if (op == "v4it") {
                try {
                    IPv4Range r(v4((uint32_t)num(t[1])), v4((uint32_t)num(t[2])), num(t[3]) != 0);
                    iterate(r, num(t[4]), [](const IPv4Address& a) { return std::to_string(num4(a)); });
                } catch (exception_base&) { printf("-1\n"); }
            } else if (op == "hwp") {
                try { HW a(str_of(unhex(t[1]))); printf("1 %s\n", hex(a.begin(), 6).c_str()); }
                catch (invalid_address&) { printf("0\n"); }
            } else if (op == "hws") {
                bytes b = unhex(t[1]); b.resize(6);
                HW a(b.data());
                std::ostringstream os; os << a;
                printf("%s%s\n", hexs(a.to_string()).c_str(), os.str() == a.to_string() ? "" : " STREAM-DIFFERS");
            } else if (op == "bufcmp") {
                bytes x = unhex(t[1]), y = unhex(t[2]);
                if (x.size() == 6) {
                    HW a(x.data()), b(y.data());
                    bool heq = std::hash<HW>()(a) == std::hash<HW>()(b);
                    std::string bad;
                    if ((a == b) && !heq) bad += " HASH";
                    if ((a > b) != (b < a)) bad += " GT";
                    if ((a <= b) != !(b < a)) bad += " LE";
                    if ((a >= b) != !(a < b)) bad += " GE";
                    if ((a != b) == (a == b)) bad += " NEQ";
                    { const HW ca = a, cb = b; if ((ca < cb) != (a < b) || (ca > cb) != (a > b) || (ca <= cb) != !(b < a) || (ca >= cb) != !(a < b) || (ca == cb) != (a == b)) bad += " CONST"; }
                    printf("%d %d%s\n", a < b ? 1 : 0, a == b ? 1 : 0, bad.c_str());
                } else {
                    IPv6Address a(x.data()), b(y.data());
                    bool heq = std::hash<IPv6Address>()(a) == std::hash<IPv6Address>()(b);
                    std::string bad;
                    if ((a == b) && !heq) bad += " HASH";
                    if ((a > b) != (b < a)) bad += " GT";
                    if ((a <= b) != !(b < a)) bad += " LE";
                    if ((a >= b) != !(a < b)) bad += " GE";
                    if ((a != b) == (a == b)) bad += " NEQ";
                    { const IPv6Address ca = a, cb = b; if ((ca < cb) != (a < b) || (ca > cb) != (a > b) || (ca <= cb) != !(b < a) || (ca >= cb) != !(a < b) || (ca == cb) != (a == b)) bad += " CONST"; }
                    printf("%d %d%s\n", a < b ? 1 : 0, a == b ? 1 : 0, bad.c_str());
                }
            } else if (op == "bufrng") {
                bytes x = unhex(t[1]), q = unhex(t[3]);
                int p = (int)num(t[2]);
                if (x.size() == 6) {
                    HW a(x.data()), y(q.data());
                    AddressRange<HW> r = a / p;
                    HW mask; { HW::iterator it = mask.begin(); int m = p; while (m > 8) { *it = 0xff; ++it; m -= 8; } *it = 0xff << (8 - m); }
                    HW first = a & mask, last = Internals::last_address_from_mask(a, mask);
                    printf("%s %s %d %d\n", hex(first.begin(), 6).c_str(), hex(last.begin(), 6).c_str(), r.contains(y) ? 1 : 0, r.is_iterable() ? 1 : 0);
                } else {
                    IPv6Address a(x.data()), y(q.data());
                    IPv6Range r = a / p;
                    IPv6Address mask = IPv6Address::from_prefix_length(p);
                    IPv6Address first = a & mask, last = Internals::last_address_from_mask(a, mask);
                    printf("%s %s %d %d\n", hex(first.begin(), 16).c_str(), hex(last.begin(), 16).c_str(), r.contains(y) ? 1 : 0, r.is_iterable() ? 1 : 0);
                }
            } else if (op == "bufit") {
                bytes x = unhex(t[1]), y = unhex(t[2]);
                try {
                    if (x.size() == 6) {
                        AddressRange<HW> r(HW(x.data()), HW(y.data()), num(t[3]) != 0);
                        iterate(r, num(t[4]), [](const HW& a) { return hex(a.begin(), 6); });
                    } else {
                        IPv6Range r(IPv6Address(x.data()), IPv6Address(y.data()), num(t[3]) != 0);
                        iterate(r, num(t[4]), [](const IPv6Address& a) { return hex(a.begin(), 16); });
                    }
                } catch (exception_base&) { printf("-1\n"); }
            } else if (op == "v6rt") {
                // IPv6 text round trip (glibc inet_ntop / inet_pton are external): print -> parse gives the same address
                bytes x = unhex(t[1]);
                IPv6Address a(x.data());
                std::string s1 = a.to_string();
                IPv6Address b(s1);
                std::ostringstream os; os << a;
                printf("%d\n", (a == b && os.str() == s1) ? 1 : 0);
            } else if (op == "v6p") {
                try { IPv6Address a(str_of(unhex(t[1]))); printf("1 %s\n", hex(a.begin(), 16).c_str()); }
                catch (invalid_address&) { printf("0\n"); }
            } else {
                printf("-3\n");
            }
        } catch (std::logic_error&) {
            printf("-2\n");
        }
        fflush(stdout);
    }
}
int main() { return run_all(run); }
