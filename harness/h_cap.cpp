// C17 harness: capture files through PacketWriter / FileSniffer / OfflinePacketFilter.  One scratch file per script.
//   wopen <dlt | Class>                PacketWriter(scratch, dlt) / PacketWriter(scratch, DataLinkType<Class>())                                   -> "0"
//   wpkt <dlt> <ts_us> x<bytes>        parse like the sniffer would for that link type, write Packet(pdu, Timestamp(ts))   -> "W <size>"
//   wraw <ts_us> x<bytes>              write RawPDU(bytes) with the timestamp                        -> "W <size>"
//   wclose                             close the writer                                              -> "F x<file bytes>"
//   file x<bytes>                      the scratch file := these bytes (a capture made elsewhere)    -> "0"
//   read <raw> [filter...]             FileSniffer(scratch[, filter]); raw=1: set_extract_raw_pdus; next_packet() until null
//                                        -> "P <n>" then n lines "p <ts_us> <pdu_type> x<serialization>"
//   loop <max> <stop_ts>               sniff_loop(functor, max); functor returns false on the packet with ts == stop_ts, then next_packet()
//                                      on the same sniffer until null                                 -> "L ts ts ... | ts ts ..."
//   iter                               for (auto& pkt : sniffer)                                     -> "L ts ts ..."
//   parses <dlt> x<frame>              does the link type's top-level class accept the frame (direct constructor call)? -> "A 0|1"
//   bpf <dlt> <raw frames file must be loaded> <filter...>   per frame of the scratch file (raw mode): libpcap's own verdict
//                                      (pcap_offline_filter), OfflinePacketFilter::matches_filter, and the ts list FileSniffer
//                                      delivers with set_filter                                      -> "B [pcap ts...] [offline ts...] [sniffer ts...]"
#include "hcommon.h"
#include <tins/tins.h>
#include <tins/sniffer.h>
#include <tins/packet_writer.h>
#include <tins/offline_packet_filter.h>
#include <tins/detail/pdu_helpers.h>
#include "accessors_gen.h"
#include <pcap.h>
#include <unistd.h>
#include <memory>
#include <fstream>
#include <chrono>

using namespace Tins;
using namespace vh;

static std::string scratch() {
    const char* d = getenv("VERIF_SCRATCH");
    std::ostringstream os;
    os << (d ? d : "/var/tmp") << "/cap_" << getpid() << ".pcap";
    return os.str();
}

static uint64_t us(const Timestamp& t) { return (uint64_t)t.seconds() * 1000000ULL + (uint64_t)t.microseconds(); }

static std::string rest(const std::vector<std::string>& t, size_t from) {
    std::string s;
    for (size_t i = from; i < t.size(); ++i) { if (i > from) s += " "; s += t[i]; }
    return s;
}

static PDU* parse_top(int dlt, const uint8_t* p, uint32_t n) {
    switch (dlt) {
        // the rule the sniffer documents for Ethernet captures, written out here (not taken from the library): a type/length octet pair
        // whose first octet is below 8 (a value under 0x0800) announces an 802.3 frame, anything else Ethernet II
        case DLT_EN10MB: if (n >= 13 && p[12] < 8) return new Dot3(p, n); return new EthernetII(p, n);
        case DLT_NULL: return new Loopback(p, n);
        case DLT_LINUX_SLL: return new SLL(p, n);
        case DLT_PPI: return new PPI(p, n);
        case DLT_IEEE802_11_RADIO: return new RadioTap(p, n);
        case DLT_IEEE802_11: return Dot11::from_bytes(p, n);
        case DLT_RAW: if (n && (p[0] >> 4) == 4) return new IP(p, n); if (n && (p[0] >> 4) == 6) return new IPv6(p, n); return 0;
        default: return 0;
    }
}

static OfflinePacketFilter* make_filter(int dlt, const std::string& f) {
    switch (dlt) {
        case DLT_EN10MB: return new OfflinePacketFilter(f, DataLinkType<EthernetII>());
        case DLT_LINUX_SLL: return new OfflinePacketFilter(f, DataLinkType<SLL>());
        case DLT_RAW: return new OfflinePacketFilter(f, DataLinkType<IP>());
        case DLT_IEEE802_11: return new OfflinePacketFilter(f, DataLinkType<Dot11>());
        case DLT_IEEE802_11_RADIO: return new OfflinePacketFilter(f, DataLinkType<RadioTap>());
        case DLT_PPI: return new OfflinePacketFilter(f, DataLinkType<PPI>());
        default: return new OfflinePacketFilter(f, DataLinkType<Loopback>());
    }
}

static PacketWriter* make_writer(const std::string& path, const std::string& entry) {
    if (entry == "EthernetII") return new PacketWriter(path, DataLinkType<EthernetII>());
    if (entry == "Dot3") return new PacketWriter(path, DataLinkType<Dot3>());
    if (entry == "SLL") return new PacketWriter(path, DataLinkType<SLL>());
    if (entry == "Loopback") return new PacketWriter(path, DataLinkType<Loopback>());
    if (entry == "PPI") return new PacketWriter(path, DataLinkType<PPI>());
    if (entry == "Dot11") return new PacketWriter(path, DataLinkType<Dot11>());
    if (entry == "RadioTap") return new PacketWriter(path, DataLinkType<RadioTap>());
    if (entry == "IP") return new PacketWriter(path, DataLinkType<IP>());
    return 0;
}

static void run(const Script& s) {
    std::string path = scratch();
    std::unique_ptr<PacketWriter> writer;
    for (const std::string& line : s.lines) {
        std::vector<std::string> t = split(line);
        if (t.empty()) continue;
        try {
            if (t[0] == "wopen") {
                // a number: the libpcap link type; a class name: DataLinkType<Class>(), the documented way
                if (isdigit(t[1][0])) writer.reset(new PacketWriter(path, (PacketWriter::LinkType)num(t[1])));
                else writer.reset(make_writer(path, t[1]));
                printf(writer ? "0\n" : "N\n");
            } else if (t[0] == "wpkt" && writer) {
                bytes b = unhex(t[3]);
                std::unique_ptr<PDU> p(parse_top((int)num(t[1]), b.data(), (uint32_t)b.size()));
                if (!p) { printf("N\n"); continue; }
                Packet pk(*p, Timestamp(std::chrono::microseconds((long long)num(t[2]))));
                writer->write(pk);
                printf("W %u\n", (unsigned)pk.pdu()->size());
            } else if (t[0] == "wapi" && writer) {
                // a packet built through the API and written WITHOUT having been serialized before (its derived fields are still unset)
                size_t n = (size_t)num(t[2]);
                EthernetII eth = EthernetII("00:01:02:03:04:05", "00:0a:0b:0c:0d:0e") / IP("10.0.0.2", "10.0.0.1") / UDP(53, 1234) / RawPDU(std::string(n, 'a'));
                Packet pk(eth, Timestamp(std::chrono::microseconds((long long)num(t[1]))));
                writer->write(pk);
                printf("W %u %s\n", (unsigned)pk.pdu()->size(), hex(pk.pdu()->serialize()).c_str());
            } else if (t[0] == "wraw" && writer) {
                bytes b = unhex(t[2]);
                RawPDU raw(b.begin(), b.end());
                Packet pk(raw, Timestamp(std::chrono::microseconds((long long)num(t[1]))));
                writer->write(pk);
                printf("W %u\n", (unsigned)b.size());
            } else if (t[0] == "wclose") {
                writer.reset();
                std::ifstream f(path.c_str(), std::ios::binary);
                bytes all((std::istreambuf_iterator<char>(f)), std::istreambuf_iterator<char>());
                printf("F %s\n", hex(all).c_str());
            } else if (t[0] == "file") {
                bytes b = unhex(t[1]);
                std::ofstream f(path.c_str(), std::ios::binary | std::ios::trunc);
                f.write((const char*)b.data(), (std::streamsize)b.size());
                f.close();
                printf("0\n");
            } else if (t[0] == "read") {
                std::string filter = rest(t, 2);
                std::unique_ptr<FileSniffer> sn(filter.empty() ? new FileSniffer(path) : new FileSniffer(path, filter));
                if (num(t[1])) sn->set_extract_raw_pdus(true);
                std::vector<std::string> out;
                for (;;) {
                    Packet pk0(sn->next_packet());
                    if (!pk0.pdu()) break;
                    // handed on the way user code does (into a container, to a by-value callback): a moved packet keeps bytes and timestamp
                    std::vector<Packet> keep; keep.push_back(std::move(pk0));
                    Packet pk(std::move(keep.back()));
                    PDU* own = pk.pdu();
                    std::ostringstream os;
                    std::string ser;
                    try { ser = hex(own->serialize()); } catch (const std::exception& e) { ser = "!"; }
                    os << "p " << us(pk.timestamp()) << " " << (int)own->pdu_type() << " " << ser;
                    out.push_back(os.str());
                }
                printf("P %zu\n", out.size());
                for (size_t i = 0; i < out.size(); ++i) printf("%s\n", out[i].c_str());
            } else if (t[0] == "loop") {
                FileSniffer sn(path);
                uint32_t maxp = (uint32_t)num(t[1]);
                uint64_t stop = num(t[2]);
                std::string out = "L";
                if (maxp % 2) {
                    sn.sniff_loop([&](Packet& pk) -> bool {
                        std::ostringstream os; os << " " << us(pk.timestamp()); out += os.str();
                        return us(pk.timestamp()) != stop;
                    }, maxp);
                } else {
                    // the callback may also take the packet by value
                    sn.sniff_loop([&](Packet pk) -> bool {
                        std::ostringstream os; os << " " << us(pk.timestamp()); out += os.str();
                        return us(pk.timestamp()) != stop;
                    }, maxp);
                }
                // reading goes on with the same sniffer: what the loop did not hand out must still be there
                out += " |";
                for (;;) { Packet pk(sn.next_packet()); if (!pk.pdu()) break; std::ostringstream os; os << " " << us(pk.timestamp()); out += os.str(); }
                printf("%s\n", out.c_str());
            } else if (t[0] == "iter") {
                FileSniffer sn(path);
                std::string out = "L";
                for (auto& pk : sn) { std::ostringstream os; os << " " << us(pk.timestamp()); out += os.str(); }
                printf("%s\n", out.c_str());
            } else if (t[0] == "parses") {
                int dlt = (int)num(t[1]);
                bytes b = unhex(t[2]);
                std::unique_ptr<uint8_t[]> heap(new uint8_t[b.size() ? b.size() : 1]);
                if (!b.empty()) memcpy(heap.get(), b.data(), b.size());
                const uint8_t* p = heap.get(); uint32_t n = (uint32_t)b.size();
                std::unique_ptr<PDU> pdu;
                try {
                    pdu.reset(parse_top(dlt, p, n));
                } catch (malformed_packet&) { }
                if (pdu) printf("A 1 %d\n", (int)pdu->pdu_type()); else printf("A 0\n");
            } else if (t[0] == "bpf") {
                int dlt = (int)num(t[1]);
                std::string filter = rest(t, 2);
                // the frames, raw
                std::vector<std::pair<uint64_t, bytes> > frames;
                {
                    FileSniffer sn(path);
                    sn.set_extract_raw_pdus(true);
                    for (;;) {
                        Packet pk(sn.next_packet());
                        if (!pk.pdu()) break;
                        PDU* own = pk.pdu();
                        frames.push_back(std::make_pair(us(pk.timestamp()), own->rfind_pdu<RawPDU>().payload()));
                    }
                }
                std::string a = "[", b2 = "[", c = "[";
                pcap_t* dead = pcap_open_dead(dlt, 65535);
                bpf_program prog;
                if (pcap_compile(dead, &prog, filter.c_str(), 1, 0xffffffff) == -1) { pcap_close(dead); printf("B invalid\n"); continue; }
                std::unique_ptr<OfflinePacketFilter> offp(make_filter(dlt, filter));
                OfflinePacketFilter& off = *offp;
                for (size_t i = 0; i < frames.size(); ++i) {
                    pcap_pkthdr h; memset(&h, 0, sizeof(h)); h.len = h.caplen = (bpf_u_int32)frames[i].second.size();
                    std::ostringstream os; os << " " << frames[i].first;
                    const bytes& fb = frames[i].second;
                    static const uint8_t none = 0;
                    if (pcap_offline_filter(&prog, &h, fb.empty() ? &none : fb.data())) a += os.str();
                    if (off.matches_filter(fb.empty() ? &none : fb.data(), (uint32_t)fb.size())) b2 += os.str();
                }
                pcap_freecode(&prog); pcap_close(dead);
                {
                    FileSniffer sn(path, filter);
                    sn.set_extract_raw_pdus(true);
                    for (;;) {
                        Packet pk(sn.next_packet());
                        if (!pk.pdu()) break;
                        PDU* own = pk.pdu();
                        std::ostringstream os; os << " " << us(pk.timestamp()); c += os.str();
                    }
                }
                printf("B %s ] %s ] %s ]\n", a.c_str(), b2.c_str(), c.c_str());
            } else {
                printf("N\n");
            }
        } catch (const std::exception& e) {
            printf("E %d %s\n", exn_code(e), e.what());
        }
        fflush(stdout);
    }
    writer.reset();
    unlink(path.c_str());
}

int main() { return run_all(run); }
