// C09 harness: WEP / WPA2 (TKIP, CCMP) decryption and the RSN handshake capturer on raw 802.11 frames.
//   wepkey x<bssid> x<password>             WEPDecrypter::add_password                          -> "0"
//   wep x<frame>                            parse (Dot11::from_bytes), WEPDecrypter::decrypt      -> "R 0 <protected>" | "R 1 <protected> x<inner serialization>"
//   wap x<psk> x<ssid> [x<bssid>]           WPA2Decrypter::add_ap_data                            -> "0"
//   wkey x<addr1> x<addr2> x<ptk> <is_ccmp> WPA2Decrypter::add_decryption_keys(SessionKeys(ptk))  -> "0"
//   wpa x<frame>                            parse, WPA2Decrypter::decrypt                         -> "R 0|1 <protected> [x<inner>] K <number of session keys>"
//   sk x<ptk> <is_ccmp> x<frame>            SessionKeys::decrypt_unicast on the frame's RawPDU    -> "R 0|1 [x<inner>]"
//   hs x<frame>                             RSNHandshakeCapturer::process_packet                  -> "H 0|1 <completed>"
//   snap x<bytes>                           SNAP(bytes).serialize()  (what a decrypted body must serialise to) -> "S x<...>"
//   aes x<key16> x<block16>                 OpenSSL AES_encrypt (the primitive libtins calls)     -> "A x<block>"
//   reset                                   fresh decrypters / capturer
#include "hcommon.h"
#include <tins/tins.h>
#include <tins/crypto.h>
#include <tins/handshake_capturer.h>
#include <openssl/aes.h>
#include <memory>

using namespace Tins;
using namespace vh;

static std::unique_ptr<PDU> parse(const bytes& b) {
    std::unique_ptr<uint8_t[]> heap(new uint8_t[b.size() ? b.size() : 1]);
    if (!b.empty()) memcpy(heap.get(), b.data(), b.size());
    std::unique_ptr<PDU> p(Dot11::from_bytes(heap.get(), (uint32_t)b.size()));
    return p;
}

static std::string inner_hex(PDU& pdu) {
    Dot11Data* d = pdu.find_pdu<Dot11Data>();
    if (!d || !d->inner_pdu()) return "x";
    return hex(d->inner_pdu()->serialize());
}

static int prot(PDU& pdu) {
    Dot11* d = pdu.find_pdu<Dot11>();
    return d ? (int)d->wep() : -1;
}

static HWAddress<6> hw(const std::string& t) { bytes b = unhex(t); b.resize(6); return HWAddress<6>(b.data()); }
static std::string str(const std::string& t) { bytes b = unhex(t); return std::string(b.begin(), b.end()); }

static void run(const Script& s) {
    std::unique_ptr<Crypto::WEPDecrypter> wep(new Crypto::WEPDecrypter());
    std::unique_ptr<Crypto::WPA2Decrypter> wpa(new Crypto::WPA2Decrypter());
    std::unique_ptr<RSNHandshakeCapturer> cap(new RSNHandshakeCapturer());
    size_t completed = 0;
    for (const std::string& line : s.lines) {
        std::vector<std::string> t = split(line);
        if (t.empty()) continue;
        try {
            if (t[0] == "reset") {
                wep.reset(new Crypto::WEPDecrypter()); wpa.reset(new Crypto::WPA2Decrypter()); cap.reset(new RSNHandshakeCapturer()); completed = 0;
                printf("0\n");
            } else if (t[0] == "wepkey") {
                wep->add_password(hw(t[1]), str(t[2]));
                printf("0\n");
            } else if (t[0] == "wep") {
                std::unique_ptr<PDU> p = parse(unhex(t[1]));
                bool r = wep->decrypt(*p);
                if (r) printf("R 1 %d %s\n", prot(*p), inner_hex(*p).c_str()); else printf("R 0 %d\n", prot(*p));
            } else if (t[0] == "wap") {
                if (t.size() > 3) wpa->add_ap_data(str(t[1]), str(t[2]), hw(t[3])); else wpa->add_ap_data(str(t[1]), str(t[2]));
                printf("0\n");
            } else if (t[0] == "wkey") {
                bytes ptk = unhex(t[3]);
                wpa->add_decryption_keys(std::make_pair(hw(t[1]), hw(t[2])), Crypto::WPA2::SessionKeys(ptk, num(t[4]) != 0));
                printf("0\n");
            } else if (t[0] == "wpa") {
                std::unique_ptr<PDU> p = parse(unhex(t[1]));
                bool r = wpa->decrypt(*p);
                if (r) printf("R 1 %d %s K %zu\n", prot(*p), inner_hex(*p).c_str(), wpa->get_keys().size());
                else printf("R 0 %d K %zu\n", prot(*p), wpa->get_keys().size());
            } else if (t[0] == "sk") {
                bytes ptk = unhex(t[1]);
                Crypto::WPA2::SessionKeys keys(ptk, num(t[2]) != 0);
                std::unique_ptr<PDU> p = parse(unhex(t[3]));
                Dot11Data* d = p->find_pdu<Dot11Data>();
                RawPDU* raw = p->find_pdu<RawPDU>();
                if (!d || !raw) { printf("N\n"); continue; }
                std::unique_ptr<SNAP> sn(keys.decrypt_unicast(*d, *raw));
                if (sn) printf("R 1 %s\n", hex(sn->serialize()).c_str()); else printf("R 0\n");
            } else if (t[0] == "hs") {
                std::unique_ptr<PDU> p = parse(unhex(t[1]));
                bool r = cap->process_packet(*p);
                if (r) { completed += cap->handshakes().size(); cap->clear_handshakes(); }
                printf("H %d %zu\n", r ? 1 : 0, completed);
            } else if (t[0] == "snap") {
                bytes b = unhex(t[1]);
                SNAP sn(b.data(), (uint32_t)b.size());
                printf("S %s\n", hex(sn.serialize()).c_str());
            } else if (t[0] == "aes") {
                bytes k = unhex(t[1]), b = unhex(t[2]);
                k.resize(16); b.resize(16);
                AES_KEY ctx; AES_set_encrypt_key(k.data(), 128, &ctx);
                uint8_t out[16]; AES_encrypt(b.data(), out, &ctx);
                printf("A %s\n", hex(out, 16).c_str());
            } else {
                printf("N\n");
            }
        } catch (const std::exception& e) {
            printf("E %d\n", exn_code(e));
        }
        fflush(stdout);
    }
}

int main() { return run_all(run); }
