// C10 harness: DNS parse / edit / getters / serialize.
//   new | parse x<message>
//   addq x<name> <type> <class>
//   adda|addn|addr x<name> <type> <class> <ttl> <pref> x<data>
//        data: A -> 4 raw bytes, AAAA -> 16 raw bytes (formatted to text for the API), anything else -> the string bytes
// after every op one line:
//   [qd an ns ar] Q<section> A<section> N<section> R<section> x<serialization>
//   section = [[x<name> type class (ttl pref x<data>)] ...]  or  -<exception code>
//   getter data for A / AAAA is converted back to raw bytes.
#include "hcommon.h"
#include <tins/tins.h>
#include <memory>
using namespace Tins;
using namespace vh;

static std::string sx(const std::string& s) { return hex((const uint8_t*)s.data(), s.size()); }

static std::string show_resources(const DNS::resources_type& rs) {
    std::ostringstream os;
    os << "[";
    for (size_t i = 0; i < rs.size(); ++i) {
        const DNS::resource& r = rs[i];
        std::string data = r.data();
        std::string shown;
        try {
            if (r.query_type() == DNS::A) { IPv4Address a(data); uint32_t v = a; shown = hex((const uint8_t*)&v, 4); }
            else if (r.query_type() == DNS::AAAA) { IPv6Address a(data); shown = hex(a.begin(), 16); }
            else shown = sx(data);
        } catch (std::exception&) { shown = "xBAD" ; }
        if (i) os << " ";
        os << "[" << sx(r.dname()) << " " << r.query_type() << " " << r.query_class() << " " << r.ttl() << " " << r.preference() << " " << shown << "]";
    }
    os << "]";
    return os.str();
}

static std::string sections_of(DNS& d);
static void show(DNS& d) {
    std::ostringstream os;
    os << "[" << d.questions_count() << " " << d.answers_count() << " " << d.authority_count() << " " << d.additional_count() << "] ";
    try {
        DNS::queries_type qs = d.queries();
        std::ostringstream o2;
        o2 << "[81 [";
        for (size_t i = 0; i < qs.size(); ++i) { if (i) o2 << " "; o2 << "[" << sx(qs[i].dname()) << " " << qs[i].query_type() << " " << qs[i].query_class() << "]"; }
        o2 << "]]";
        os << o2.str();
    } catch (const std::exception& e) { os << "[81 -" << exn_code(e) << "]"; }
    os << " ";
    try { std::string x = show_resources(d.answers()); os << "[65 " << x << "]"; } catch (const std::exception& e) { os << "[65 -" << exn_code(e) << "]"; }
    os << " ";
    try { std::string x = show_resources(d.authority()); os << "[78 " << x << "]"; } catch (const std::exception& e) { os << "[78 -" << exn_code(e) << "]"; }
    os << " ";
    try { std::string x = show_resources(d.additional()); os << "[82 " << x << "]"; } catch (const std::exception& e) { os << "[82 -" << exn_code(e) << "]"; }
    os << " ";
    try { os << hex(d.serialize()); } catch (const std::exception& e) { os << "-" << exn_code(e); }
    printf("%s\n", os.str().c_str());
    // serialize + re-parse gives the same sections
    std::string verdict = "1";
    try {
        PDU::serialization_type ser = d.serialize();
        DNS back(ser.data(), (uint32_t)ser.size());
        if (sections_of(back) != sections_of(d)) verdict = "0 sections";
        else if (back.serialize() != ser) verdict = "0 bytes";
    } catch (const std::exception& e) { verdict = "0 exn " + std::to_string(exn_code(e)); }
    printf("RT %s\n", verdict.c_str());
}

static std::string sections_of(DNS& d) {
    std::ostringstream os;
    os << d.questions_count() << " " << d.answers_count() << " " << d.authority_count() << " " << d.additional_count() << " ";
    try { DNS::queries_type qs = d.queries(); for (size_t i = 0; i < qs.size(); ++i) os << sx(qs[i].dname()) << "," << qs[i].query_type() << "," << qs[i].query_class() << ";"; }
    catch (const std::exception& e) { os << "Qexn" << exn_code(e); }
    try { os << "|" << show_resources(d.answers()); } catch (const std::exception& e) { os << "Aexn" << exn_code(e); }
    try { os << "|" << show_resources(d.authority()); } catch (const std::exception& e) { os << "Nexn" << exn_code(e); }
    try { os << "|" << show_resources(d.additional()); } catch (const std::exception& e) { os << "Rexn" << exn_code(e); }
    return os.str();
}

static void run(const Script& s) {
    std::unique_ptr<DNS> d;
    for (const std::string& line : s.lines) {
        std::vector<std::string> t = split(line);
        if (t.empty()) continue;
        try {
            if (t[0] == "new") { d.reset(new DNS()); show(*d); }
            else if (t[0] == "parse") {
                bytes b = unhex(t[1]);
                d.reset();
                d.reset(new DNS(b.data(), (uint32_t)b.size()));
                show(*d);
            }
            else if (t[0] == "addq" && d) {
                bytes n = unhex(t[1]);
                d->add_query(DNS::query(std::string(n.begin(), n.end()), (DNS::QueryType)num(t[2]), (DNS::QueryClass)num(t[3])));
                show(*d);
            }
            else if ((t[0] == "adda" || t[0] == "addn" || t[0] == "addr") && d) {
                bytes n = unhex(t[1]), dat = unhex(t[6]);
                uint16_t type = (uint16_t)num(t[2]);
                std::string data(dat.begin(), dat.end());
                if (type == DNS::A && dat.size() == 4) { uint32_t v; memcpy(&v, dat.data(), 4); data = IPv4Address(v).to_string(); }
                else if (type == DNS::AAAA && dat.size() == 16) { data = IPv6Address(dat.data()).to_string(); }
                DNS::resource r(std::string(n.begin(), n.end()), data, type, (uint16_t)num(t[3]), (uint32_t)num(t[4]), (uint16_t)num(t[5]));
                if (t[0] == "adda") d->add_answer(r); else if (t[0] == "addn") d->add_authority(r); else d->add_additional(r);
                show(*d);
            }
            else printf("-3\n");
        } catch (const std::exception& e) {
            printf("-%d\n", exn_code(e));
        }
        fflush(stdout);
    }
}
int main() { return run_all(run); }
