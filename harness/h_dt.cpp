// C06 harness: drives Tins::TCPIP::DataTracker, Tins::TCPIP::Flow and the legacy TCPStream
// with the same segment scripts.
//   new <isn>            -> "0"
//   seg <seq> x<hex>     -> "<r> <seq> x<out> [[k len] ...] <total>"   (DataTracker)
//                           "F <same line from Flow>"
//                           "L x<out>"                                  (legacy TCPStream, client side)
//   adv <seq>            -> "0 <seq> x<out> [...] <total>"  and "F ..." (legacy has no such op)
#include "hcommon.h"
#include <tins/tins.h>
#include <tins/tcp_ip/data_tracker.h>
#include <tins/tcp_ip/flow.h>
#include <tins/tcp_stream.h>
#include <memory>

using namespace Tins;
using namespace vh;

template <class T>
static std::string show(int r, const T& t) {
    std::ostringstream os;
    os << r << " " << t.sequence_number() << " " << hex(t.payload()) << " [";
    bool first = true;
    for (auto it = t.buffered_payload().begin(); it != t.buffered_payload().end(); ++it) {
        if (!first) os << " ";
        first = false;
        os << "[" << it->first << " " << it->second.size() << "]";
    }
    os << "] " << t.total_buffered_bytes();
    return os.str();
}

static void run(const Script& s) {
    std::unique_ptr<TCPIP::DataTracker> dt;
    std::unique_ptr<TCPIP::Flow> flow;
    std::unique_ptr<TCPStream> legacy;
    const IPv4Address cli("10.0.0.1"), srv("10.0.0.2");
    bool flow_data = false;
    for (const std::string& line : s.lines) {
        std::vector<std::string> t = split(line);
        if (t.empty()) continue;
        if (t[0] == "new") {
            uint32_t isn = (uint32_t)num(t[1]);
            dt.reset(new TCPIP::DataTracker(isn));
            // the flow learns its initial sequence number the way the stream follower's server-side flows do: constructed with a
            // placeholder (0, or a number far away), then shown the SYN (odd isn: constructed with the number directly)
            if (isn & 1) {
                flow.reset(new TCPIP::Flow(srv, 80, isn));
            } else {
                flow.reset(new TCPIP::Flow(srv, 80, (isn & 2) ? 0 : isn + 0x80000001u));
                IP syn = IP(srv, cli) / TCP(80, 1234);
                syn.rfind_pdu<TCP>().flags(TCP::SYN);
                syn.rfind_pdu<TCP>().seq(isn - 1);
                flow->process_packet(syn);
            }
            flow->data_callback([&](TCPIP::Flow&) { flow_data = true; });
            // legacy: SYN from the client, SYN|ACK from the server acknowledging isn
            IP ip1 = IP(srv, cli) / TCP(80, 1234);
            ip1.rfind_pdu<TCP>().flags(TCP::SYN);
            ip1.rfind_pdu<TCP>().seq(isn - 1);
            legacy.reset(new TCPStream(&ip1, &ip1.rfind_pdu<TCP>(), 0));
            IP ip2 = IP(cli, srv) / TCP(1234, 80);
            ip2.rfind_pdu<TCP>().flags(TCP::SYN | TCP::ACK);
            ip2.rfind_pdu<TCP>().seq(7777);
            ip2.rfind_pdu<TCP>().ack_seq(isn);
            legacy->update(&ip2, &ip2.rfind_pdu<TCP>());
            printf("0\n");
        } else if (t[0] == "seg" && dt) {
            uint32_t seq = (uint32_t)num(t[1]);
            bytes b = unhex(t[2]);
            // optional 4th token: further TCP flags the segment carries (FIN = 1, PSH = 8 ...): seen by Flow and TCPStream only
            small_uint<12>::repr_type extra = t.size() > 3 ? (small_uint<12>::repr_type)(num(t[3]) & 0xfff) : 0;
            bool r = dt->process_payload(seq, b);
            printf("%s\n", show(r, *dt).c_str());
            {
                IP ip = IP(srv, cli) / TCP(80, 1234) / RawPDU(b.begin(), b.end());
                ip.rfind_pdu<TCP>().seq(seq);
                ip.rfind_pdu<TCP>().flags(TCP::ACK | extra);
                flow_data = false;
                flow->process_packet(ip);
                printf("F %s\n", show(flow_data, *flow).c_str());
            }
            {
                IP ip = IP(srv, cli) / TCP(80, 1234) / RawPDU(b.begin(), b.end());
                ip.rfind_pdu<TCP>().seq(seq);
                ip.rfind_pdu<TCP>().flags(TCP::ACK | (extra & ~(small_uint<12>::repr_type)(TCP::FIN | TCP::RST)));
                legacy->update(&ip, &ip.rfind_pdu<TCP>());
                printf("L %s\n", hex(legacy->client_payload()).c_str());
            }
        } else if (t[0] == "adv" && dt) {
            uint32_t seq = (uint32_t)num(t[1]);
            dt->advance_sequence(seq);
            printf("%s\n", show(0, *dt).c_str());
            flow->advance_sequence(seq);
            printf("F %s\n", show(0, *flow).c_str());
        } else {
            printf("-3\n");
        }
        fflush(stdout);
    }
}

int main() { return run_all(run); }
