// C08 harness: feeds IPv4 packets (built as raw bytes, parsed by libtins) to IPv4Reassembler.
//   pkt <id> <src> <dst> <proto> <ttl> <tos> <df> <mf> <off13> x<payload> [<trailer octets behind the IP total length>]
//     -> "0" not fragmented (and the packet must be untouched: "0" is followed by nothing else;
//            if the packet changed, " CHANGED" is appended)
//        "1" fragmented
//        "2 <ttl> <tos> x<inner serialization>"  (+ " BAD <what>" when offset/flags/id/addresses are wrong)
//        "-1" malformed_packet escaped process()
#include "hcommon.h"
#include <tins/tins.h>
#include <tins/ip_reassembler.h>
using namespace Tins;
using namespace vh;

static uint16_t csum(const bytes& h) {
    uint32_t s = 0;
    for (size_t i = 0; i + 1 < h.size(); i += 2) s += (h[i] << 8) | h[i + 1];
    while (s >> 16) s = (s & 0xffff) + (s >> 16);
    return (uint16_t)~s;
}

static void run(const Script& s) {
    IPv4Reassembler re;
    for (const std::string& line : s.lines) {
        std::vector<std::string> t = split(line);
        if ((t.size() != 11 && t.size() != 12) || t[0] != "pkt") { printf("-3\n"); continue; }
        uint16_t id = (uint16_t)num(t[1]);
        uint32_t src = (uint32_t)num(t[2]), dst = (uint32_t)num(t[3]);
        uint8_t proto = (uint8_t)num(t[4]), ttl = (uint8_t)num(t[5]), tos = (uint8_t)num(t[6]);
        bool df = num(t[7]) != 0, mf = num(t[8]) != 0;
        uint16_t off = (uint16_t)num(t[9]) & 0x1fff;
        bytes pl = unhex(t[10]);
        bytes h(20, 0);
        uint16_t tot = (uint16_t)(20 + pl.size());
        h[0] = 0x45; h[1] = tos; h[2] = tot >> 8; h[3] = tot & 0xff; h[4] = id >> 8; h[5] = id & 0xff;
        // 12th token >= 1000: the reserved flag bit (0x8000) is set too (it says nothing about fragmentation); the rest are trailer octets
        bool rf = t.size() == 12 && num(t[11]) >= 1000;
        uint16_t fo = (uint16_t)((rf ? 0x8000 : 0) | (df ? 0x4000 : 0) | (mf ? 0x2000 : 0) | off);
        h[6] = fo >> 8; h[7] = fo & 0xff; h[8] = ttl; h[9] = proto;
        for (int i = 0; i < 4; ++i) { h[12 + i] = (src >> (24 - 8 * i)) & 0xff; h[16 + i] = (dst >> (24 - 8 * i)) & 0xff; }
        uint16_t c = csum(h); h[10] = c >> 8; h[11] = c & 0xff;
        bytes pkt = h; pkt.insert(pkt.end(), pl.begin(), pl.end());
        // optional 12th token: octets behind the IP total length (link-layer padding / trailer of the captured frame)
        if (t.size() == 12) pkt.insert(pkt.end(), (size_t)(num(t[11]) % 1000), (uint8_t)0xee);
        try {
            EthernetII eth = EthernetII() / IP(pkt.data(), (uint32_t)pkt.size());
            PDU::serialization_type before = eth.serialize();
            IPv4Reassembler::PacketStatus st = re.process(eth);
            IP& ip = eth.rfind_pdu<IP>();
            if (st == IPv4Reassembler::REASSEMBLED) {
                std::string bad;
                if (ip.fragment_offset() != 0) bad += " BAD offset";
                if (ip.flags() & IP::MORE_FRAGMENTS) bad += " BAD mf";
                if (ip.id() != id) bad += " BAD id";
                if (!((uint32_t)Endian::be_to_host((uint32_t)ip.src_addr()) == src && (uint32_t)Endian::be_to_host((uint32_t)ip.dst_addr()) == dst) &&
                    !((uint32_t)Endian::be_to_host((uint32_t)ip.src_addr()) == dst && (uint32_t)Endian::be_to_host((uint32_t)ip.dst_addr()) == src)) bad += " BAD addr";
                if (ip.protocol() != proto) bad += " BAD proto";
                PDU::serialization_type inner = ip.inner_pdu() ? ip.inner_pdu()->serialize() : PDU::serialization_type();
                // the whole packet must serialise with a consistent total length
                PDU::serialization_type whole = ip.serialize();
                if (whole.size() != 20 + inner.size()) bad += " BAD size";
                printf("2 %u %u %s%s\n", (unsigned)ip.ttl(), (unsigned)ip.tos(), hex(inner).c_str(), bad.c_str());
            } else {
                PDU::serialization_type after = eth.serialize();
                printf("%d%s\n", st == IPv4Reassembler::FRAGMENTED ? 1 : 0,
                       (st == IPv4Reassembler::NOT_FRAGMENTED && after != before) ? " CHANGED" : "");
            }
        } catch (const malformed_packet&) {
            printf("-1\n");
        }
        fflush(stdout);
    }
}
int main() { return run_all(run); }
