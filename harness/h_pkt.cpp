// Generic packet harness (C01 C02 C03 C04 C05 C14 C15).  Uses the GENERATED accessor table (build/accessors_gen.h).
//   parse <Entry> x<bytes>      construct from a buffer;              -> "P <view>" | "E <code>"
//   new <Class>                 default-construct a root layer         -> "P <view>"
//   newc <Class>                a PDUCacher<Class> as the root layer (UDP, TCP, IP, ICMP, EthernetII)
//   push <Class>                append a default-constructed layer (operator/=)
//   raw x<bytes>                append a RawPDU payload
//   set <layer> <field> <value> call the setter of the field on layer #<layer> -> "P <view>" | "E <code>" | "N" (no such setter)
//   aopt <layer> <code> x<data> add_option(option(code, data))     -> "P 1 <view>"
//   ropt <layer> <code>         remove_option(code)                 -> "P 0|1 <view>"
//   sopt <layer> <code>         search_option(code)                 -> "O 0" | "O 1 x<data>"
//   ptype                       "T <pdu_type()> <dynamic class of the root layer>"
//   ext6 <layer> <type> x<data> IPv6::add_header(ext_header(type, data))
//   icmpext <layer> x<data>     add an RFC 4884 extension object to an ICMP/ICMPv6 layer
//   val <layer> <field> <value> the printed form of the argument set would pass -> "V <value>"
//   ser                         size() + serialize()                   -> "S <size> x<bytes> [M <type> <what> <offset>]*"  (M = hook H1 reports)
//   rt <Entry>                  serialize, re-parse with Entry, serialize again -> "Q <view>" then "S2 <size> x<bytes>"
//   match x<bytes>              matches_response(buffer placed at the END of a heap block) -> "R 0|1"
//   view                        "P <view>"
//   clone                       clone the packet and compare views/serialisations -> "C 1|0"
//   sum x<bytes>                Utils::sum_range / do_checksum / crc32 of the bytes -> "K <sum_range> <do_checksum> <crc32>"
#include "hcommon.h"
#include "accessors_gen.h"
#include <tins/utils/checksum_utils.h>
#include <memory>
#include <tins/pdu_cacher.h>
using namespace Tins;
using namespace vh;

static std::vector<std::string> g_monitor;
static void monitor(int pdu_type, int what, uint32_t offset) {
    std::ostringstream os;
    os << " M " << pdu_type << " " << what << " " << offset;
    g_monitor.push_back(os.str());
}

static PDU* layer_at(PDU* p, int idx) { while (p && idx-- > 0) p = p->inner_pdu(); return p; }

static std::string ser(PDU& p, const char* tag) {
    g_monitor.clear();
    uint32_t sz = p.size();
    PDU::serialization_type b = p.serialize();
    std::ostringstream os;
    os << tag << " " << sz << " " << hex(b);
    for (size_t i = 0; i < g_monitor.size(); ++i) os << g_monitor[i];
    return os.str();
}


// raw option access, uniform over the option-bearing layers: add / remove first / search first
static int g_explen = -1;   // "lopt": explicit length field, the option handed over as a const lvalue (the other overload)
template <class L, class Id> static bool opt_add(PDU* l, Id id, const bytes& d) {
    L* p = dynamic_cast<L*>(l); if (!p) return false;
    if (g_explen >= 0) { const typename L::option o(id, (uint16_t)g_explen, d.begin(), d.end()); p->add_option(o); return true; }
    p->add_option(typename L::option(id, d.begin(), d.end())); return true;
}
template <class L, class Id> static int opt_remove(PDU* l, Id id) { L* p = dynamic_cast<L*>(l); return p ? (p->remove_option(id) ? 1 : 0) : -1; }
template <class L, class Id> static int opt_search(PDU* l, Id id, std::string& out) {
    L* p = dynamic_cast<L*>(l); if (!p) return -1;
    const typename L::option* o = p->search_option(id);
    if (!o) return 0;
    out = hex(o->data_ptr(), o->data_size()); return 1;
}
static IP::option_identifier ip_id(unsigned code) { return IP::option_identifier((IP::OptionNumber)(code & 0x1f), (IP::OptionClass)((code >> 5) & 3), (code >> 7) & 1); }
// op: 0 add, 1 remove, 2 search; returns -1 unsupported layer, else the operation's result
static int opt_op(int op, PDU* l, unsigned code, const bytes& d, std::string& out) {
#define OPT_CASE(L, ID) if (dynamic_cast<L*>(l)) { if (op == 0) return opt_add<L>(l, ID, d) ? 1 : -1; if (op == 1) return opt_remove<L>(l, ID); return opt_search<L>(l, ID, out); }
    if (PPPoE* pp = dynamic_cast<PPPoE*>(l)) {
        // tags: add_tag / search_tag (there is no removal in the API)
        if (op == 0 && g_explen >= 0) { const PPPoE::tag o((PPPoE::TagTypes)code, (uint16_t)g_explen, d.begin(), d.end()); pp->add_tag(o); return 1; }
        if (op == 0) { pp->add_tag(PPPoE::tag((PPPoE::TagTypes)code, d.begin(), d.end())); return 1; }
        if (op == 2) { const PPPoE::tag* o = pp->search_tag((PPPoE::TagTypes)code); if (!o) return 0; out = hex(o->data_ptr(), o->data_size()); return 1; }
        return -1;
    }
    OPT_CASE(TCP, (TCP::OptionTypes)code)
    OPT_CASE(IP, ip_id(code))
    OPT_CASE(DHCP, (DHCP::OptionTypes)code)
    OPT_CASE(DHCPv6, (DHCPv6::OptionTypes)code)
    OPT_CASE(ICMPv6, (ICMPv6::OptionTypes)code)
    OPT_CASE(Dot11, (Dot11::OptionTypes)code)
#undef OPT_CASE
    return -1;
}

static void run(const Script& s) {
    VerifHooks::serialize_monitor = monitor;
    std::unique_ptr<PDU> pkt;
    for (const std::string& line : s.lines) {
        std::vector<std::string> t = split(line);
        if (t.empty()) continue;
        const std::string& op = t[0];
        try {
            if (op == "parse") {
                bytes b = unhex(t[2]);
                pkt.reset();
                // the buffer lives exactly as long as the constructor call, in a heap block of exactly its size
                std::unique_ptr<uint8_t[]> heap(new uint8_t[b.size() ? b.size() : 1]);
                if (!b.empty()) memcpy(heap.get(), b.data(), b.size());
                PDU* p = vacc::construct_from(t[1], heap.get(), (uint32_t)b.size());
                if (!p) { printf("N\n"); continue; }
                pkt.reset(p);
                heap.reset();
                printf("P %s\n", vacc::describe(*pkt).c_str());
            } else if (op == "new") {
                PDU* p = vacc::construct_default(t[1]);
                if (!p) { printf("N\n"); continue; }
                pkt.reset(p);
                printf("P %s\n", vacc::describe(*pkt).c_str());
            } else if (op == "newc") {
                // a PDUCacher<T> around a default-constructed T as the root layer
                PDU* p = 0;
                if (t[1] == "UDP") p = new PDUCacher<UDP>(UDP(53, 1234));
                else if (t[1] == "TCP") p = new PDUCacher<TCP>(TCP(80, 1234));
                else if (t[1] == "IP") p = new PDUCacher<IP>(IP("10.0.0.2", "10.0.0.1"));
                else if (t[1] == "ICMP") p = new PDUCacher<ICMP>(ICMP());
                else if (t[1] == "EthernetII") p = new PDUCacher<EthernetII>(EthernetII());
                if (!p) { printf("N\n"); continue; }
                pkt.reset(p);
                printf("P cacher\n");
            } else if (op == "push" && pkt) {
                std::unique_ptr<PDU> l(vacc::construct_default(t[1]));
                if (!l) { printf("N\n"); continue; }
                *pkt /= *l;
                printf("P %s\n", vacc::describe(*pkt).c_str());
            } else if (op == "cut" && pkt) {
                // drop everything below layer <idx> (inner_pdu(0)): the object is then given other inner layers
                PDU* l = layer_at(pkt.get(), (int)num(t[1]));
                if (!l) { printf("N\n"); continue; }
                l->inner_pdu(0);
                printf("P %s\n", vacc::describe(*pkt).c_str());
            } else if (op == "raw" && pkt) {
                bytes b = unhex(t[1]);
                *pkt /= RawPDU(b.begin(), b.end());
                printf("P %s\n", vacc::describe(*pkt).c_str());
            } else if (op == "set" && pkt) {
                PDU* l = layer_at(pkt.get(), (int)num(t[1]));
                if (!l) { printf("N\n"); continue; }
                std::ostringstream one; vacc::describe_layer(*l, one);
                std::string cls = one.str().substr(0, one.str().find(' '));
                if (!vacc::set_field(*l, cls, t[2], num(t[3]))) { printf("N\n"); continue; }
                printf("P %s\n", vacc::describe(*pkt).c_str());
            } else if ((op == "aopt" || op == "ropt" || op == "sopt" || op == "lopt") && pkt) {
                // lopt <layer> <code> <len> x<data>: a const lvalue option whose length field is given explicitly
                PDU* l = layer_at(pkt.get(), (int)num(t[1]));
                if (!l) { printf("N\n"); continue; }
                std::string found;
                int r;
                if (op == "lopt") { g_explen = (int)num(t[3]); r = opt_op(0, l, (unsigned)num(t[2]), t.size() > 4 ? unhex(t[4]) : bytes(), found); g_explen = -1; }
                else r = opt_op(op == "aopt" ? 0 : op == "ropt" ? 1 : 2, l, (unsigned)num(t[2]), t.size() > 3 ? unhex(t[3]) : bytes(), found);
                if (r < 0) { printf("N\n"); continue; }
                if (op == "sopt") printf("O %d %s\n", r, found.c_str());
                else printf("P %d %s\n", r, vacc::describe(*pkt).c_str());
            } else if (op == "tnames") {
                printf("T %s\n", vacc::type_names().c_str());
            } else if (op == "rows" && pkt) {
                // what layer <idx> answers to (matches_flag for every class flag) and what it is (dynamic_cast to every class)
                PDU* l = layer_at(pkt.get(), (int)num(t[1]));
                if (!l) { printf("N\n"); continue; }
                printf("R %s\n", vacc::type_rows(*l).c_str());
            } else if (op == "selffind" && pkt) {
                // for every layer of the chain: find_pdu<its own class>() started at that layer must return that layer
                std::string out = "F";
                for (PDU* l = pkt.get(); l; l = l->inner_pdu()) { out += " "; out += std::to_string(vacc::self_find(*l)); }
                printf("%s\n", out.c_str());
            } else if (op == "newcc") {
                // a PDUCacher<T> around a T that carries inner layers of its own
                PDU* p = 0;
                if (t[1] == "IP") p = new PDUCacher<IP>(IP("10.0.0.2", "10.0.0.1") / TCP(80, 1234) / RawPDU("abc"));
                else if (t[1] == "EthernetII") p = new PDUCacher<EthernetII>(EthernetII() / IP("10.0.0.2", "10.0.0.1") / UDP(53, 1234) / RawPDU("abc"));
                else if (t[1] == "UDP") p = new PDUCacher<UDP>(UDP(53, 1234) / DNS());
                else if (t[1] == "IPv6") p = new PDUCacher<IPv6>(IPv6() / ICMPv6());
                if (!p) { printf("N\n"); continue; }
                pkt.reset(p);
                printf("P cacher\n");
            } else if (op == "ptype" && pkt) {
                // what the object claims to be (pdu_type()) next to what it is (the class the generated dynamic_cast chain finds)
                std::ostringstream one; vacc::describe_layer(*pkt, one);
                printf("T %d %s\n", (int)pkt->pdu_type(), one.str().substr(0, one.str().find(' ')).c_str());
            } else if ((op == "rsn" || op == "rsnget") && pkt) {
                // rsn <layer> <version> <group> <capabilities> <pairwise,...|-> <akm,...|->: Dot11ManagementFrame::rsn_information(RSNInformation)
                // rsnget <layer>: what rsn_information() returns
                Dot11ManagementFrame* l = dynamic_cast<Dot11ManagementFrame*>(layer_at(pkt.get(), (int)num(t[1])));
                if (!l) { printf("N\n"); continue; }
                if (op == "rsn") {
                    RSNInformation r;
                    r.version((uint16_t)num(t[2])); r.group_suite((RSNInformation::CypherSuites)num(t[3])); r.capabilities((uint16_t)num(t[4]));
                    for (int w = 5; w <= 6; ++w) {
                        std::string csv = t[w] == "-" ? "" : t[w];
                        size_t pos = 0;
                        while (pos < csv.size()) {
                            size_t e = csv.find(',', pos); if (e == std::string::npos) e = csv.size();
                            uint32_t v = (uint32_t)num(csv.substr(pos, e - pos));
                            if (w == 5) r.add_pairwise_cypher((RSNInformation::CypherSuites)v); else r.add_akm_cypher((RSNInformation::AKMSuites)v);
                            pos = e + 1;
                        }
                    }
                    l->rsn_information(r);
                    printf("P %s\n", vacc::describe(*pkt).c_str());
                } else {
                    RSNInformation r = l->rsn_information();
                    printf("R %u %u %u", (unsigned)r.version(), (unsigned)r.group_suite(), (unsigned)r.capabilities());
                    printf(" p");
                    for (size_t i = 0; i < r.pairwise_cyphers().size(); ++i) printf("%s%u", i ? "," : "=", (unsigned)r.pairwise_cyphers()[i]);
                    printf(" a");
                    for (size_t i = 0; i < r.akm_cyphers().size(); ++i) printf("%s%u", i ? "," : "=", (unsigned)r.akm_cyphers()[i]);
                    printf("\n");
                }
            } else if (op == "ext6" && pkt) {
                // IPv6::add_header(ext_header(type, data))
                IPv6* l = dynamic_cast<IPv6*>(layer_at(pkt.get(), (int)num(t[1])));
                if (!l) { printf("N\n"); continue; }
                bytes d = unhex(t[3]);
                l->add_header(IPv6::ext_header((uint8_t)num(t[2]), d.begin(), d.end()));
                printf("P %s\n", vacc::describe(*pkt).c_str());
            } else if ((op == "ladd" || op == "lrem") && pkt) {
                // list-valued members with their own add/remove API: RTP CSRC identifiers and extension words
                RTP* l = dynamic_cast<RTP*>(layer_at(pkt.get(), (int)num(t[1])));
                if (!l) { printf("N\n"); continue; }
                uint32_t v = (uint32_t)num(t[3]);
                int r = 1;
                if (t[2] == "csrc") { if (op == "ladd") l->add_csrc_id(v); else r = l->remove_csrc_id(v); }
                else if (t[2] == "ext") { if (op == "ladd") l->add_extension_data(v); else r = l->remove_extension_data(v); }
                else { printf("N\n"); continue; }
                printf("P %d %s\n", r, vacc::describe(*pkt).c_str());
            } else if (op == "icmpext" && pkt) {
                // add an RFC 4884 extension object (class 1, type 1) to an ICMP / ICMPv6 layer
                PDU* l = layer_at(pkt.get(), (int)num(t[1]));
                bytes d = unhex(t[2]);
                ICMPExtension e(1, 1);
                e.payload(ICMPExtension::payload_type(d.begin(), d.end()));
                if (ICMP* i4 = dynamic_cast<ICMP*>(l)) i4->extensions().add_extension(e);
                else if (ICMPv6* i6 = dynamic_cast<ICMPv6*>(l)) i6->extensions().add_extension(e);
                else { printf("N\n"); continue; }
                printf("P %s\n", vacc::describe(*pkt).c_str());
            } else if (op == "val" && pkt) {
                PDU* l = layer_at(pkt.get(), (int)num(t[1]));
                if (!l) { printf("N\n"); continue; }
                std::ostringstream one; vacc::describe_layer(*l, one);
                std::string cls = one.str().substr(0, one.str().find(' '));
                printf("V %s\n", vacc::value_of(cls, t[2], num(t[3])).c_str());
            } else if (op == "ser" && pkt) {
                printf("%s\n", ser(*pkt, "S").c_str());
            } else if (op == "rt" && pkt) {
                PDU::serialization_type y = pkt->serialize();
                std::unique_ptr<uint8_t[]> heap(new uint8_t[y.size() ? y.size() : 1]);
                if (!y.empty()) memcpy(heap.get(), y.data(), y.size());
                std::unique_ptr<PDU> q(vacc::construct_from(t[1], heap.get(), (uint32_t)y.size()));
                heap.reset();
                if (!q) { printf("N\n"); continue; }
                printf("Q %s\n", vacc::describe(*q).c_str());
                printf("%s\n", ser(*q, "S2").c_str());
            } else if (op == "match" && pkt) {
                bytes b = unhex(t[1]);
                std::unique_ptr<uint8_t[]> heap(new uint8_t[b.size() ? b.size() : 1]);
                if (!b.empty()) memcpy(heap.get(), b.data(), b.size());
                bool r = pkt->matches_response(heap.get(), (uint32_t)b.size());
                printf("R %d\n", r ? 1 : 0);
            } else if (op == "view" && pkt) {
                printf("P %s\n", vacc::describe(*pkt).c_str());
            } else if (op == "clone" && pkt) {
                std::unique_ptr<PDU> c(pkt->clone());
                bool same = vacc::describe(*c) == vacc::describe(*pkt);
                try { same = same && c->serialize() == pkt->serialize(); } catch (std::exception&) {}
                printf("C %d\n", same ? 1 : 0);
            } else if (op == "sum") {
                bytes b = unhex(t[1]);
                uint32_t sr = b.empty() ? 0 : Utils::sum_range(b.data(), b.data() + b.size());
                uint16_t ck = b.empty() ? 0 : Utils::do_checksum(b.data(), b.data() + b.size());
                uint32_t crc = Utils::crc32(b.data(), (uint32_t)b.size());
                printf("K %u %u %u\n", sr, (unsigned)ck, crc);
            } else if (op == "fields") {
                fputs(vacc::list_fields().c_str(), stdout);
            } else {
                printf("N\n");
            }
        } catch (const std::exception& e) {
            printf("E %d\n", exn_code(e));
        }
        fflush(stdout);
    }
}
int main() { return run_all(run); }
