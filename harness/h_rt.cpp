// C11 harness: RadioTap setters in any order, getters, options payload, present flags, serialization + parse-back.
//   new                  default-constructed RadioTap (over a Dot11Ack inner frame)
//   parse x<payload>     RadioTap parsed from header(0,0,len) + payload + Dot11 ACK frame
//   set <bit> x<value>   the typed setter of that field (value bytes little-endian as the API takes them)
//   opt <flag> x<data>   raw add_option
// after every op: "x<options_payload> <present> [[bit x<value>|-code] ...] <header_size>" and, on a second line,
// "RT <ok>" = serialize + parse back gives the same getter values, payload and inner frame.
#include "hcommon.h"
#include <tins/tins.h>
#include <memory>
using namespace Tins;
using namespace vh;

static const int BITS[] = {0, 1, 2, 3, 5, 6, 7, 11, 12, 14, 15, 17, 18, 19};

template <class T> static std::string le(T v) { uint8_t b[sizeof(T)]; memcpy(b, &v, sizeof(T)); return hex(b, sizeof(T)); }

static std::string getter(const RadioTap& r, int bit) {
    switch (bit) {
        case 0: return le<uint64_t>(r.tsft());
        case 1: return le<uint8_t>((uint8_t)r.flags());
        case 2: return le<uint8_t>(r.rate());
        case 3: { std::string a = le<uint16_t>(r.channel_freq()), b = le<uint16_t>(r.channel_type()); return a + b.substr(1); }
        case 5: return le<int8_t>(r.dbm_signal());
        case 6: return le<int8_t>(r.dbm_noise());
        case 7: return le<uint16_t>(r.signal_quality());
        case 11: return le<uint8_t>(r.antenna());
        case 12: return le<uint8_t>(r.db_signal());
        case 14: return le<uint16_t>(r.rx_flags());
        case 15: return le<uint16_t>(r.tx_flags());
        case 17: return le<uint8_t>(r.data_retries());
        case 18: { RadioTap::xchannel_type x = r.xchannel(); return le<uint32_t>(x.flags) + le<uint16_t>(x.frequency).substr(1) + le<uint8_t>(x.channel).substr(1) + le<uint8_t>(x.max_power).substr(1); }
        case 19: { RadioTap::mcs_type m = r.mcs(); return le<uint8_t>(m.known) + le<uint8_t>(m.flags).substr(1) + le<uint8_t>(m.mcs).substr(1); }
    }
    return "?";
}

static std::string all_getters(const RadioTap& r) {
    std::ostringstream os;
    os << "[";
    for (size_t i = 0; i < sizeof(BITS) / sizeof(BITS[0]); ++i) {
        if (i) os << " ";
        os << "[" << BITS[i] << " ";
        try { os << getter(r, BITS[i]); }
        catch (const std::exception& e) { os << -exn_code(e); }
        os << "]";
    }
    os << "]";
    return os.str();
}

static void setter(RadioTap& r, int bit, const bytes& v) {
    auto u16 = [&](size_t o) { return (uint16_t)(v.at(o) | (v.at(o + 1) << 8)); };
    switch (bit) {
        case 0: { uint64_t x = 0; for (int i = 7; i >= 0; --i) x = (x << 8) | v.at(i); r.tsft(x); break; }
        case 1: r.flags((RadioTap::FrameFlags)v.at(0)); break;
        case 2: r.rate(v.at(0)); break;
        case 3: r.channel(u16(0), u16(2)); break;
        case 5: r.dbm_signal((int8_t)v.at(0)); break;
        case 6: r.dbm_noise((int8_t)v.at(0)); break;
        case 7: r.signal_quality(v.at(0)); break;
        case 11: r.antenna(v.at(0)); break;
        case 12: r.db_signal(v.at(0)); break;
        case 14: r.rx_flags(u16(0)); break;
        case 15: r.tx_flags(u16(0)); break;
        case 17: r.data_retries(v.at(0)); break;
        case 18: { RadioTap::xchannel_type x; x.flags = v.at(0) | (v.at(1) << 8) | (v.at(2) << 16) | ((uint32_t)v.at(3) << 24); x.frequency = u16(4); x.channel = v.at(6); x.max_power = v.at(7); r.xchannel(x); break; }
        case 19: { RadioTap::mcs_type m; m.known = v.at(0); m.flags = v.at(1); m.mcs = v.at(2); r.mcs(m); break; }
        default: throw std::out_of_range("bit");
    }
}

static void show(RadioTap& r) {
    printf("%s %u %s %u\n", hex(r.options_payload()).c_str(), (unsigned)r.present(), all_getters(r).c_str(), r.header_size());
    // serialize + parse back
    std::string verdict = "1";
    try {
        PDU::serialization_type ser = r.serialize();
        if (ser.size() != r.size()) verdict = "0 size";
        else {
            RadioTap back(ser.data(), (uint32_t)ser.size());
            if (back.options_payload() != r.options_payload()) verdict = "0 payload";
            else if (all_getters(back) != all_getters(r)) verdict = "0 getters";
            else if (back.length() != r.header_size()) verdict = "0 length";
            else if ((back.inner_pdu() != 0) != (r.inner_pdu() != 0)) verdict = "0 inner";
            else if (back.inner_pdu() && back.inner_pdu()->serialize() != r.inner_pdu()->serialize()) verdict = "0 innerbytes";
        }
    } catch (const std::exception& e) { verdict = "0 exn " + std::to_string(exn_code(e)); }
    printf("RT %s\n", verdict.c_str());
}

static void run(const Script& s) {
    std::unique_ptr<RadioTap> r;
    for (const std::string& line : s.lines) {
        std::vector<std::string> t = split(line);
        if (t.empty()) continue;
        try {
            if (t[0] == "new") {
                r.reset(new RadioTap());
                *r /= Dot11Ack(Dot11::address_type("00:01:02:03:04:05"));
                show(*r);
            } else if (t[0] == "parse") {
                bytes pl = unhex(t[1]);
                bytes pkt(4, 0);
                uint16_t len = (uint16_t)(4 + pl.size());
                pkt[2] = len & 0xff; pkt[3] = len >> 8;
                pkt.insert(pkt.end(), pl.begin(), pl.end());
                static const uint8_t ack[] = {0xd4, 0x00, 0x00, 0x00, 0x00, 0x01, 0x02, 0x03, 0x04, 0x05};
                pkt.insert(pkt.end(), ack, ack + sizeof(ack));
                r.reset(new RadioTap(pkt.data(), (uint32_t)pkt.size()));
                show(*r);
            } else if (t[0] == "set" && r) {
                setter(*r, (int)num(t[1]), unhex(t[2]));
                show(*r);
            } else if (t[0] == "noinner" && r) {
                // the header alone (the 802.11 frame is taken away): it must still serialize to something RadioTap(buffer) accepts
                r->inner_pdu(0);
                show(*r);
            } else if (t[0] == "opt" && r) {
                bytes d = unhex(t[2]);
                r->add_option(RadioTap::option((RadioTap::PresentFlags)num(t[1]), d.size(), d.data()));
                show(*r);
            } else {
                printf("-3\n");
            }
        } catch (const std::out_of_range&) {
            printf("-3\n");
        } catch (const std::exception& e) {
            printf("%d\n", -exn_code(e));
        }
        fflush(stdout);
    }
}
int main() { return run_all(run); }
