// C07 harness: drives Tins::TCPIP::StreamFollower with abstract packet scripts; prints the callback trace of every call.
//   cfg <attach> <keep_alive_us> <max_chunks> <max_bytes>      new follower (limits are private members: set through
//                                                              "#define private public", harness only)       -> "0"
//   pkt x<src> x<dst> <sport> <dport> <flags> <seq> <ack> x<data>|-1 <ts_us>   (4-byte = IPv4, 16-byte = IPv6 addresses)
//        -> the callbacks fired during process_packet, in order, as bracketed events:
//           [1 caddr cport saddr sport]                new stream
//           [2 caddr cport saddr sport client seq data] out-of-order callback
//           [3 caddr cport saddr sport client data]     data callback (payload as seen by the callback)
//           [4 caddr cport saddr sport]                 stream closed callback
//           [5 caddr cport saddr sport reason]          termination callback
//   defaults -> "<keep_alive_us> <max_chunks> <max_bytes>" of a freshly constructed follower
//   live  -> the streams still tracked, in map order
#include "hcommon.h"
#include <tins/tins.h>
#define private public
#include <tins/tcp_ip/stream_follower.h>
#undef private
#include <tins/tcp_ip/stream.h>
#include <tins/packet.h>
#include <memory>
#include <chrono>

using namespace Tins;
using namespace Tins::TCPIP;
using namespace vh;

static std::vector<std::string> g_ev;

static std::string name(const Stream& s) {
    std::ostringstream os;
    if (s.is_v6()) {
        IPv6Address c = s.client_addr_v6(), v = s.server_addr_v6();
        os << hex(c.begin(), 16) << " " << s.client_port() << " " << hex(v.begin(), 16) << " " << s.server_port();
    } else {
        // IPv4Address converts to its network-order integer: print the bytes in memory order
        uint32_t cn = (uint32_t)s.client_addr_v4(), vn = (uint32_t)s.server_addr_v4();
        os << hex((const uint8_t*)&cn, 4) << " " << s.client_port() << " " << hex((const uint8_t*)&vn, 4) << " " << s.server_port();
    }
    return os.str();
}

static bool g_acktrack = false;

static void on_new(Stream& s) {
    g_ev.push_back("[1 " + name(s) + "]");
    if (g_acktrack) s.enable_ack_tracking();
    s.client_data_callback([](Stream& st) { g_ev.push_back("[3 " + name(st) + " 1 " + hex(st.client_payload()) + "]"); });
    s.server_data_callback([](Stream& st) { g_ev.push_back("[3 " + name(st) + " 0 " + hex(st.server_payload()) + "]"); });
    s.client_out_of_order_callback([](Stream& st, uint32_t seq, const Stream::payload_type& pl) {
        std::ostringstream os; os << "[2 " << name(st) << " 1 " << seq << " " << hex(pl) << "]"; g_ev.push_back(os.str()); });
    s.server_out_of_order_callback([](Stream& st, uint32_t seq, const Stream::payload_type& pl) {
        std::ostringstream os; os << "[2 " << name(st) << " 0 " << seq << " " << hex(pl) << "]"; g_ev.push_back(os.str()); });
    s.stream_closed_callback([](Stream& st) { g_ev.push_back("[4 " + name(st) + "]"); });
}

static void on_term(Stream& s, StreamFollower::TerminationReason r) {
    std::ostringstream os; os << "[5 " << name(s) << " " << (int)r << "]"; g_ev.push_back(os.str());
}

static void run(const Script& s) {
    std::unique_ptr<StreamFollower> fo;
    for (const std::string& line : s.lines) {
        std::vector<std::string> t = split(line);
        if (t.empty()) continue;
        try {
            if (t[0] == "cfg" && t.size() >= 5 && t.size() <= 7) {
                // optional 6th token: every new stream gets enable_ack_tracking() (ACK / SACK bookkeeping; only its termination reason is observable here)
                g_acktrack = t.size() >= 6 && num(t[5]) != 0;
                fo.reset(new StreamFollower());
                fo->new_stream_callback(on_new);
                // optional 7th token: the user registers NO termination callback (over-limit and idle connections are dropped all the same)
                if (!(t.size() == 7 && num(t[6]) != 0)) fo->stream_termination_callback(on_term);
                fo->follow_partial_streams(num(t[1]) != 0);
                // -1: keep what the constructor set (the shipped defaults)
                if (t[2] != "-1") fo->stream_keep_alive(std::chrono::microseconds(snum(t[2])));
                if (t[3] != "-1") fo->max_buffered_chunks_ = (size_t)num(t[3]);
                if (t[4] != "-1") fo->max_buffered_bytes_ = (uint32_t)num(t[4]);
                printf("0\n");
            } else if (t[0] == "defaults") {
                StreamFollower d;
                printf("%lld %llu %llu\n", (long long)d.stream_keep_alive_.count(), (unsigned long long)d.max_buffered_chunks_, (unsigned long long)d.max_buffered_bytes_);
            } else if (t[0] == "pkt" && fo && t.size() >= 10) {
                bytes src = unhex(t[1]), dst = unhex(t[2]);
                TCP tcp((uint16_t)num(t[4]), (uint16_t)num(t[3]));
                tcp.flags((small_uint<12>::repr_type)(num(t[5]) & 0xfff));
                tcp.seq((uint32_t)num(t[6]));
                tcp.ack_seq((uint32_t)num(t[7]));
                // optional trailing tokens "[ l r l r ... ]": the edges of a SACK option
                if (t.size() > 10) {
                    TCP::sack_type edges;
                    for (size_t i = 10; i < t.size(); ++i) if (t[i] != "[" && t[i] != "]") edges.push_back((uint32_t)num(t[i]));
                    if (!edges.empty()) tcp.sack(edges);
                }
                std::unique_ptr<PDU> pdu;
                if (src.size() == 16) {
                    pdu.reset(new IPv6(IPv6Address(dst.data()), IPv6Address(src.data())));
                } else {
                    uint32_t s4, d4; memcpy(&s4, src.data(), 4); memcpy(&d4, dst.data(), 4);
                    pdu.reset(new IP(IPv4Address(d4), IPv4Address(s4)));
                }
                *pdu /= tcp;
                if (t[8] != "-1") { bytes b = unhex(t[8]); *pdu /= RawPDU(b.begin(), b.end()); }
                Packet pk(*pdu, Timestamp(std::chrono::microseconds(snum(t[9]))));
                g_ev.clear();
                fo->process_packet(pk);
                std::string out;
                for (size_t i = 0; i < g_ev.size(); ++i) { if (i) out += " "; out += g_ev[i]; }
                printf("%s\n", out.c_str());
            } else if (t[0] == "live" && fo) {
                std::string out;
                for (auto it = fo->streams_.begin(); it != fo->streams_.end(); ++it) {
                    if (!out.empty()) out += " ";
                    out += "[" + name(it->second) + "]";
                }
                printf("%s\n", out.c_str());
            } else {
                printf("-3\n");
            }
        } catch (const std::exception& e) {
            printf("E %d\n", exn_code(e));
        }
        fflush(stdout);
    }
}

int main() { return run_all(run); }
