// C18 harness (built with -fsanitize=thread): k threads, each running its own workload on thread-private libtins
// objects, started together behind a barrier, with randomised yields; every thread's outputs are compared with the
// outputs of the same workload run alone beforehand.
// stdin:   "cfg <threads> <rounds> <seed>" then lines "<thread> <op> args..."
//   P <Entry> x<bytes>            construct from buffer, list every getter, serialize
//   D x<bytes>                    DNS(bytes): queries(), answers(), authority(), additional()
//   F x<ip packet> x<ip packet>.. IPv4Reassembler over the packets
//   S x<ip packet> ...            TCPIP::StreamFollower over the packets (data callbacks)
//   W x<bssid> x<key> x<frame>    WEPDecrypter
//   K x<ptk> <ccmp> x<frame>      WPA2::SessionKeys::decrypt_unicast
//   C x<bytes>                    Utils::crc32 / do_checksum
//   A <a.b.c.d/len>               IPv4 text, range iteration, HWAddress text
// stdout:  "REF <n ops>"  then per round "ROUND r OK" | "ROUND r DIFF thread <t> op <j>"
#include <tins/tins.h>
#include <tins/tcp_ip/stream_follower.h>
#include <tins/crypto.h>
#include <tins/utils/checksum_utils.h>
#include "accessors_gen.h"
#include <thread>
#include <atomic>
#include <vector>
#include <string>
#include <sstream>
#include <iostream>
#include <memory>
#include <random>
#include <sched.h>

using namespace Tins;
typedef std::vector<uint8_t> bytes;

static bytes unhex(const std::string& t) {
    bytes b; size_t i = (t.size() && t[0] == 'x') ? 1 : 0;
    for (; i + 1 < t.size(); i += 2) b.push_back((uint8_t)strtoul(t.substr(i, 2).c_str(), 0, 16));
    return b;
}
static std::string hex(const bytes& b) {
    static const char* d = "0123456789abcdef"; std::string s;
    for (size_t i = 0; i < b.size(); ++i) { s += d[b[i] >> 4]; s += d[b[i] & 15]; }
    return s;
}
static std::vector<std::string> split(const std::string& s) {
    std::vector<std::string> out; std::istringstream is(s); std::string t;
    while (is >> t) out.push_back(t);
    return out;
}

static std::string run_op(const std::vector<std::string>& t) {
    std::ostringstream os;
    try {
        const std::string& op = t[1];
        if (op == "P") {
            bytes b = unhex(t[3]);
            std::unique_ptr<PDU> p(vacc::construct_from(t[2], b.data(), (uint32_t)b.size()));
            if (!p) return "N";
            os << vacc::describe(*p) << " S " << hex(p->serialize());
            std::unique_ptr<PDU> c(p->clone());
            os << " C " << hex(c->serialize());
        } else if (op == "D") {
            bytes b = unhex(t[2]);
            DNS dns(b.data(), (uint32_t)b.size());
            for (const auto& q : dns.queries()) os << "q " << q.dname() << " " << q.query_type() << ";";
            for (const auto& r : dns.answers()) os << "a " << r.dname() << " " << r.data() << ";";
            for (const auto& r : dns.authority()) os << "n " << r.dname() << " " << r.data() << ";";
            for (const auto& r : dns.additional()) os << "x " << r.dname() << " " << r.data() << ";";
        } else if (op == "F") {
            IPv4Reassembler re;
            for (size_t i = 2; i < t.size(); ++i) {
                bytes b = unhex(t[i]);
                IP ip(b.data(), (uint32_t)b.size());
                os << (int)re.process(ip) << ":" << hex(ip.serialize()) << ";";
            }
        } else if (op == "S") {
            TCPIP::StreamFollower fo;
            std::string* out = new std::string();
            std::unique_ptr<std::string> own(out);
            fo.new_stream_callback([out](TCPIP::Stream& s) {
                *out += "N;";
                s.client_data_callback([out](TCPIP::Stream& st) { *out += "c" + hex(st.client_payload()) + ";"; });
                s.server_data_callback([out](TCPIP::Stream& st) { *out += "s" + hex(st.server_payload()) + ";"; });
            });
            for (size_t i = 2; i < t.size(); ++i) {
                bytes b = unhex(t[i]);
                IP ip(b.data(), (uint32_t)b.size());
                Packet pk(ip, Timestamp(std::chrono::microseconds(1000 + i)));
                fo.process_packet(pk);
            }
            os << *out;
        } else if (op == "W") {
            Crypto::WEPDecrypter d;
            bytes a = unhex(t[2]), k = unhex(t[3]), f = unhex(t[4]);
            a.resize(6);
            d.add_password(HWAddress<6>(a.data()), std::string(k.begin(), k.end()));
            std::unique_ptr<PDU> p(Dot11::from_bytes(f.data(), (uint32_t)f.size()));
            os << d.decrypt(*p) << " " << hex(p->serialize());
        } else if (op == "K") {
            bytes ptk = unhex(t[2]), f = unhex(t[4]);
            Crypto::WPA2::SessionKeys keys(ptk, t[3] != "0");
            std::unique_ptr<PDU> p(Dot11::from_bytes(f.data(), (uint32_t)f.size()));
            Dot11Data* d = p->find_pdu<Dot11Data>(); RawPDU* raw = p->find_pdu<RawPDU>();
            if (!d || !raw) return "N";
            std::unique_ptr<SNAP> sn(keys.decrypt_unicast(*d, *raw));
            os << (sn ? hex(sn->serialize()) : std::string("0"));
        } else if (op == "C") {
            bytes b = unhex(t[2]);
            os << Utils::crc32(b.data(), (uint32_t)b.size()) << " " << (b.empty() ? 0 : Utils::do_checksum(b.data(), b.data() + b.size()));
        } else if (op == "A") {
            IPv4Range r = IPv4Range::from_mask(IPv4Address(t[2]), IPv4Address(t[3]));
            size_t n = 0; uint32_t acc = 0;
            for (const auto& a : r) { ++n; acc ^= (uint32_t)a; if (n > 5000) break; }
            os << n << " " << acc << " " << IPv4Address(t[2]).to_string() << " " << IPv4Address(t[2]).is_private() << IPv4Address(t[2]).is_multicast()
               << " " << HWAddress<6>(t[4]).to_string() << " " << HWAddress<6>(t[4]).is_broadcast() << " " << IPv6Address(t[5]).to_string() << IPv6Address(t[5]).is_loopback();
        } else {
            return "?";
        }
    } catch (const std::exception& e) {
        os << " E:" << e.what();
    }
    return os.str();
}

int main() {
    std::string line;
    int k = 2, rounds = 1; unsigned seed = 1;
    std::vector<std::vector<std::vector<std::string> > > work;
    while (std::getline(std::cin, line)) {
        std::vector<std::string> t = split(line);
        if (t.empty()) continue;
        if (t[0] == "cfg") { k = atoi(t[1].c_str()); rounds = atoi(t[2].c_str()); seed = (unsigned)strtoul(t[3].c_str(), 0, 10); work.assign(k, std::vector<std::vector<std::string> >()); continue; }
        int th = atoi(t[0].c_str());
        if (th >= 0 && th < k) work[th].push_back(t);
    }
    // the concurrent rounds come FIRST: whatever the library initialises or caches lazily on first use must happen while
    // the threads run (a sequential warm-up in the same process would hide it); the run alone follows and is the reference
    std::vector<std::vector<std::vector<std::string> > > outs;
    for (int r = 0; r < rounds; ++r) {
        std::atomic<int> ready(0);
        std::atomic<bool> go(false);
        std::vector<std::vector<std::string> > out(k);
        std::vector<std::thread> ths;
        for (int i = 0; i < k; ++i) {
            ths.push_back(std::thread([&, i, r]() {
                std::mt19937 rng(seed * 7919u + (unsigned)r * 104729u + (unsigned)i);
                ready.fetch_add(1);
                while (!go.load()) sched_yield();
                for (size_t j = 0; j < work[i].size(); ++j) {
                    if (rng() % 3 == 0) sched_yield();
                    out[i].push_back(run_op(work[i][j]));
                }
            }));
        }
        while (ready.load() < k) sched_yield();
        go.store(true);
        for (auto& t : ths) t.join();
        outs.push_back(out);
    }
    std::vector<std::vector<std::string> > ref(k);
    size_t nops = 0;
    for (int i = 0; i < k; ++i) for (size_t j = 0; j < work[i].size(); ++j) { ref[i].push_back(run_op(work[i][j])); ++nops; }
    printf("REF %zu\n", nops);
    for (int r = 0; r < rounds; ++r) {
        bool same = true;
        for (int i = 0; i < k && same; ++i)
            for (size_t j = 0; j < ref[i].size(); ++j)
                if (outs[r][i][j] != ref[i][j]) { printf("ROUND %d DIFF thread %d op %zu: alone \"%.80s\" concurrent \"%.80s\"\n", r, i, j, ref[i][j].c_str(), outs[r][i][j].c_str()); same = false; break; }
        if (same) printf("ROUND %d OK\n", r);
    }
    return 0;
}
