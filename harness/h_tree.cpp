// C12 harness: programs over a pool of PDU objects (vars 0..7) and Packet wrappers (0..3).
// After every op prints the whole forest: [[var [[cls tag pok] ...]] ...]  (packets are var 100+i),
// followed by " ALIAS" if two live layers share an address.  ASan/LSan give the free-exactly-once oracle.
//   mk v cls tag | clone v w | assign v w | move v w | massign v w | setinner v w | setinnerref v w
//   release w v  | div v w   | del v      | tag v depth val
//   subclone v w depth | subcopy v w depth     (copy of an inner layer; outside the model)
//   pkwrap p v | pkown p v | pkcopy p q | pkmove p q | pkrel v p | pkdiv p w
// An op whose precondition fails is skipped (the state is printed unchanged), exactly as the model does.
#include "hcommon.h"
#include <tins/tins.h>
#include <set>
using namespace Tins;
using namespace vh;

enum { C_RAW = 0, C_IP, C_TCP, C_UDP, C_ETH, C_DNS, C_ICMP, C_SNAP, C_DOT11DATA, NCLS };

static int cls_of(const PDU* p) {
    switch (p->pdu_type()) {
        case PDU::RAW: return C_RAW; case PDU::IP: return C_IP; case PDU::TCP: return C_TCP; case PDU::UDP: return C_UDP;
        case PDU::ETHERNET_II: return C_ETH; case PDU::DNS: return C_DNS; case PDU::ICMP: return C_ICMP;
        case PDU::SNAP: return C_SNAP; case PDU::DOT11_DATA: return C_DOT11DATA; default: return -1;
    }
}
static void set_tag(PDU* p, uint16_t tag);
// a TCP layer also carries options that are a function of its tag (short in-place ones, long heap ones, none): copies and
// assignments must carry them over exactly; tcp_opts_ok() is how a wrong option shows up in the printed tag (99997)
static void tcp_opts_for(TCP* t, uint16_t tag) {
    t->remove_option(TCP::SACK); t->remove_option(TCP::WSCALE); t->remove_option(TCP::TSOPT); t->remove_option(TCP::MSS);
    if (tag % 3 == 1) { t->timestamp(0xdeadbe00u | (tag & 0xff), 0x01020304u); t->mss((uint16_t)(tag ^ 0x5555)); }
    else if (tag % 3 == 2) { TCP::sack_type e; e.push_back(tag); e.push_back(tag + 10u); e.push_back(0x10000u + tag); e.push_back(0x20000u + tag); t->sack(e); t->winscale((uint8_t)(tag & 7)); }
}
static bool tcp_opts_ok(const TCP* t, uint16_t tag) {
    try {
        if (tag % 3 == 0) return t->options().empty();
        if (tag % 3 == 1) { std::pair<uint32_t, uint32_t> ts = t->timestamp(); return t->options().size() == 2 && ts.first == (0xdeadbe00u | (tag & 0xff)) && ts.second == 0x01020304u && t->mss() == (uint16_t)(tag ^ 0x5555); }
        TCP::sack_type e = t->sack();
        return t->options().size() == 2 && e.size() == 4 && e[0] == tag && e[1] == tag + 10u && e[2] == 0x10000u + tag && e[3] == 0x20000u + tag && t->winscale() == (tag & 7);
    } catch (std::exception&) { return false; }
}
static PDU* make(int cls, uint16_t tag) {
    switch (cls) {
        case C_RAW: { uint8_t b[2] = {(uint8_t)(tag >> 8), (uint8_t)tag}; return new RawPDU(b, 2); }
        case C_IP: { IP* p = new IP(); p->id(tag); return p; }
        case C_TCP: { TCP* p = new TCP(); p->sport(tag); tcp_opts_for(p, tag); return p; }
        case C_UDP: { UDP* p = new UDP(); p->sport(tag); return p; }
        case C_ETH: { EthernetII* p = new EthernetII(); set_tag(p, tag); return p; }
        case C_DNS: { DNS* p = new DNS(); p->id(tag); return p; }
        case C_ICMP: { ICMP* p = new ICMP(); p->id(tag); return p; }
        case C_SNAP: { SNAP* p = new SNAP(); p->org_code(tag); return p; }
        case C_DOT11DATA: { Dot11Data* p = new Dot11Data(); p->duration_id(tag); return p; }
    }
    return 0;
}
static unsigned get_tag(const PDU* p) {
    switch (cls_of(p)) {
        case C_RAW: { const RawPDU::payload_type& b = static_cast<const RawPDU*>(p)->payload(); return b.size() >= 2 ? (b[0] << 8) | b[1] : 99999; }
        case C_IP: return static_cast<const IP*>(p)->id();
        case C_TCP: { const TCP* t = static_cast<const TCP*>(p); return tcp_opts_ok(t, t->sport()) ? t->sport() : 99997; }
        case C_UDP: return static_cast<const UDP*>(p)->sport();
        case C_ETH: { EthernetII::address_type a = static_cast<const EthernetII*>(p)->dst_addr(); return (a[4] << 8) | a[5]; }
        case C_DNS: return static_cast<const DNS*>(p)->id();
        case C_ICMP: return static_cast<const ICMP*>(p)->id();
        case C_SNAP: return static_cast<const SNAP*>(p)->org_code();
        case C_DOT11DATA: return static_cast<const Dot11Data*>(p)->duration_id();
    }
    return 99998;
}
static void set_tag(PDU* p, uint16_t tag) {
    switch (cls_of(p)) {
        case C_RAW: { RawPDU::payload_type& b = static_cast<RawPDU*>(p)->payload(); b.assign(2, 0); b[0] = tag >> 8; b[1] = (uint8_t)tag; break; }
        case C_IP: static_cast<IP*>(p)->id(tag); break;
        case C_TCP: static_cast<TCP*>(p)->sport(tag); tcp_opts_for(static_cast<TCP*>(p), tag); break;
        case C_UDP: static_cast<UDP*>(p)->sport(tag); break;
        case C_ETH: { EthernetII::address_type a; a[0] = 2; a[4] = tag >> 8; a[5] = (uint8_t)tag; static_cast<EthernetII*>(p)->dst_addr(a); break; }
        case C_DNS: static_cast<DNS*>(p)->id(tag); break;
        case C_ICMP: static_cast<ICMP*>(p)->id(tag); break;
        case C_SNAP: static_cast<SNAP*>(p)->org_code(tag); break;
        case C_DOT11DATA: static_cast<Dot11Data*>(p)->duration_id(tag); break;
    }
}
template <class T> static void assign_t(PDU* a, const PDU* b) { *static_cast<T*>(a) = *static_cast<const T*>(b); }
template <class T> static void massign_t(PDU* a, PDU* b) { *static_cast<T*>(a) = std::move(*static_cast<T*>(b)); }
template <class T> static PDU* movector_t(PDU* b) { return new T(std::move(*static_cast<T*>(b))); }
template <class T> static PDU* copyctor_t(const PDU* b) { return new T(*static_cast<const T*>(b)); }
#define DISPATCH(cls, F, ...) \
    switch (cls) { case C_RAW: return F<RawPDU>(__VA_ARGS__); case C_IP: return F<IP>(__VA_ARGS__); case C_TCP: return F<TCP>(__VA_ARGS__); \
    case C_UDP: return F<UDP>(__VA_ARGS__); case C_ETH: return F<EthernetII>(__VA_ARGS__); case C_DNS: return F<DNS>(__VA_ARGS__); \
    case C_ICMP: return F<ICMP>(__VA_ARGS__); case C_SNAP: return F<SNAP>(__VA_ARGS__); case C_DOT11DATA: return F<Dot11Data>(__VA_ARGS__); }
static void do_assign(PDU* a, const PDU* b) { DISPATCH(cls_of(a), assign_t, a, b) }
static void do_massign(PDU* a, PDU* b) { DISPATCH(cls_of(a), massign_t, a, b) }
static PDU* do_movector(PDU* b) { DISPATCH(cls_of(b), movector_t, b) return 0; }
static PDU* do_copyctor(const PDU* b) { DISPATCH(cls_of(b), copyctor_t, b) return 0; }

static const int NV = 8, NP = 4;

static void show(PDU* const* vars, Packet* pk) {
    std::ostringstream os;
    std::set<const PDU*> seen;
    bool alias = false;
    os << "[";
    bool firstv = true;
    for (int i = 0; i < NV + NP; ++i) {
        const PDU* root = i < NV ? vars[i] : pk[i - NV].pdu();
        if (!root) continue;
        if (!firstv) os << " ";
        firstv = false;
        os << "[" << (i < NV ? i : 100 + i - NV) << " [";
        const PDU* prev = 0;
        bool first = true;
        int guard = 0;
        for (const PDU* p = root; p && guard < 64; p = p->inner_pdu(), ++guard) {
            if (!seen.insert(p).second) alias = true;
            if (!first) os << " ";
            first = false;
            os << "[" << cls_of(p) << " " << get_tag(p) << " " << (p->parent_pdu() == prev ? 1 : 0) << "]";
            prev = p;
        }
        os << "]]";
    }
    os << "]";
    if (alias) os << " ALIAS";
    printf("%s\n", os.str().c_str());
}

static PDU* at_depth(PDU* p, int d) { while (p && d-- > 0) p = p->inner_pdu(); return p; }

static void run(const Script& s) {
    PDU* vars[NV] = {0};
    Packet pk[NP];
    for (const std::string& line : s.lines) {
        std::vector<std::string> t = split(line);
        if (t.empty()) continue;
        const std::string& op = t[0];
        int a = t.size() > 1 ? (int)num(t[1]) : 0, b = t.size() > 2 ? (int)num(t[2]) : 0, c = t.size() > 3 ? (int)num(t[3]) : 0;
        std::string extra;
        if (op == "mk") { if (a < NV && !vars[a] && b < NCLS) vars[a] = make(b, (uint16_t)c); }
        else if (op == "clone") {
            if (a < NV && b < NV && !vars[a] && vars[b]) {
                vars[a] = vars[b]->clone();
                try { if (vars[a]->serialize() != vars[b]->serialize()) extra = " NEQ"; } catch (std::exception&) {}
            }
        }
        else if (op == "copy") { if (a < NV && b < NV && !vars[a] && vars[b]) vars[a] = do_copyctor(vars[b]); }
        else if (op == "assign") {
            if (a < NV && b < NV && vars[a] && vars[b] && a != b && cls_of(vars[a]) == cls_of(vars[b])) {
                do_assign(vars[a], vars[b]);
                try { if (vars[a]->serialize() != vars[b]->serialize()) extra = " NEQ"; } catch (std::exception&) {}
            }
            else if (a < NV && a == b && vars[a]) {
                // self-assignment through a reference: must leave the object (and everything below it) as it was, which is
                // what the model's unchanged state says
                do_assign(vars[a], vars[a]);
            }
        }
        else if (op == "move") { if (a < NV && b < NV && !vars[a] && vars[b]) { vars[a] = do_movector(vars[b]); set_tag(vars[b], 0); } }
        else if (op == "massign") { if (a < NV && b < NV && vars[a] && vars[b] && a != b && cls_of(vars[a]) == cls_of(vars[b])) { do_massign(vars[a], vars[b]); set_tag(vars[b], 0); } }
        else if (op == "setinner") { if (a < NV && b < NV && vars[a] && vars[b] && a != b) { vars[a]->inner_pdu(vars[b]); vars[b] = 0; } }
        else if (op == "setinnerref") { if (a < NV && b < NV && vars[a] && vars[b]) vars[a]->inner_pdu(*vars[b]); }
        else if (op == "release") { if (a < NV && b < NV && !vars[a] && vars[b]) vars[a] = vars[b]->release_inner_pdu(); }
        else if (op == "div") { if (a < NV && b < NV && vars[a] && vars[b]) { *vars[a] /= *vars[b]; } }
        else if (op == "subclone" || op == "subcopy") {
            // a copy taken from an INNER layer (clone() / the copy constructor of its class): a fresh root with that layer's chain
            // (not an operation of the Coq model: scripts with it are judged by the Python reference only)
            PDU* src = (a < NV && b < NV && !vars[a] && vars[b]) ? at_depth(vars[b], c) : 0;
            if (src) vars[a] = op == "subclone" ? src->clone() : do_copyctor(src);
        }
        else if (op == "del") { if (a < NV && vars[a]) { delete vars[a]; vars[a] = 0; } }
        else if (op == "tag") { if (a < NV && vars[a]) { PDU* p = at_depth(vars[a], b); if (p) set_tag(p, (uint16_t)c); } }
        else if (op == "pkwrap") { if (a < NP && b < NV && !pk[a].pdu() && vars[b]) pk[a] = Packet(*vars[b]); }
        else if (op == "pkown") { if (a < NP && b < NV && !pk[a].pdu() && vars[b]) { pk[a] = Packet(vars[b], Timestamp(), Packet::own_pdu()); vars[b] = 0; } }
        else if (op == "pkcopy") { if (a < NP && b < NP) pk[a] = pk[b]; }
        else if (op == "pkmove") { if (a < NP && b < NP) pk[a] = std::move(pk[b]); }
        else if (op == "pkrel") { if (a < NV && b < NP && !vars[a]) vars[a] = pk[b].release_pdu(); }
        else if (op == "pkdiv") { if (a < NP && b < NV && pk[a].pdu() && vars[b]) pk[a] /= *vars[b]; }
        show(vars, pk);
        if (!extra.empty()) printf("!! copy is not equal to its source (serialization differs)\n");
        fflush(stdout);
    }
    for (int i = 0; i < NV; ++i) delete vars[i];
}
int main() { return run_all(run); }
