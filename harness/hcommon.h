// Shared plumbing of the C++ correspondence harnesses.
// A harness reads scripts from stdin:
//     === <id>
//     <op> <arg> <arg> ...
// args: decimal integers, x<hex> byte strings (x alone = empty), bare words.
// Every script runs in a forked child (a sanitizer abort costs one script, not the run);
// the child prints one canonical result line per op; the parent relays them and appends
// "!! crash <kind>" when the child died.
#ifndef VERIF_HCOMMON_H
#define VERIF_HCOMMON_H
#include <cstdio>
#include <cstdlib>
#include <cstring>
#include <cstdint>
#include <string>
#include <vector>
#include <sstream>
#include <iostream>
#include <functional>
#include <stdexcept>
#include <typeinfo>
#include <unistd.h>
#include <poll.h>
#include <sys/wait.h>
#include <sanitizer/lsan_interface.h>
#include <tins/exceptions.h>
#include <tins/small_uint.h>

namespace vh {

typedef std::vector<uint8_t> bytes;

inline std::vector<std::string> split(const std::string& s) {
    std::vector<std::string> out;
    std::istringstream is(s);
    std::string t;
    while (is >> t) out.push_back(t);
    return out;
}

inline bytes unhex(const std::string& t) {
    // t starts with 'x'
    bytes b;
    for (size_t i = 1; i + 1 < t.size(); i += 2) {
        b.push_back((uint8_t)strtoul(t.substr(i, 2).c_str(), 0, 16));
    }
    return b;
}

inline std::string hex(const uint8_t* p, size_t n) {
    static const char* d = "0123456789abcdef";
    std::string s = "x";
    for (size_t i = 0; i < n; ++i) { s += d[p[i] >> 4]; s += d[p[i] & 15]; }
    return s;
}
inline std::string hex(const bytes& b) { return hex(b.data(), b.size()); }

inline uint64_t num(const std::string& t) { return strtoull(t.c_str(), 0, 10); }
inline int64_t snum(const std::string& t) { return strtoll(t.c_str(), 0, 10); }

// exception -> code shared with coq/Base/Prelude.v
inline int exn_code(const std::exception& e) {
    if (dynamic_cast<const Tins::dns_decompression_pointer_loops*>(&e)) return 7;
    if (dynamic_cast<const Tins::dns_decompression_pointer_out_of_bounds*>(&e)) return 8;
    if (dynamic_cast<const Tins::malformed_packet*>(&e)) return 1;
    if (dynamic_cast<const Tins::serialization_error*>(&e)) return 2;
    if (dynamic_cast<const Tins::option_not_found*>(&e)) return 3;
    if (dynamic_cast<const Tins::field_not_present*>(&e)) return 4;
    if (dynamic_cast<const Tins::invalid_address*>(&e)) return 5;
    if (dynamic_cast<const Tins::value_too_large*>(&e)) return 6;
    if (dynamic_cast<const Tins::dns_decompression_pointer_loops*>(&e)) return 7;
    if (dynamic_cast<const Tins::dns_decompression_pointer_out_of_bounds*>(&e)) return 8;
    if (dynamic_cast<const Tins::pdu_not_found*>(&e)) return 9;
    if (dynamic_cast<const Tins::malformed_option*>(&e)) return 11;
    if (dynamic_cast<const Tins::invalid_domain_name*>(&e)) return 12;
    if (dynamic_cast<const Tins::pdu_not_serializable*>(&e)) return 13;
    if (dynamic_cast<const Tins::option_payload_too_large*>(&e)) return 14;
    if (dynamic_cast<const Tins::invalid_option_value*>(&e)) return 10;
    if (dynamic_cast<const Tins::exception_base*>(&e)) return 90;   // some other libtins exception
    return 99;                                                // foreign exception
}

struct Script {
    std::string id;
    std::vector<std::string> lines;
};

inline std::vector<Script> read_scripts(std::istream& in) {
    std::vector<Script> out;
    std::string l;
    while (std::getline(in, l)) {
        if (l.empty() || l[0] == '#') continue;
        if (l.compare(0, 4, "=== ") == 0) {
            Script s; s.id = l.substr(4); out.push_back(s);
        } else if (!out.empty()) {
            out.back().lines.push_back(l);
        }
    }
    return out;
}

// run(script) executes in the child and prints lines to stdout.
// the scripts are read one at a time: the parent stays small, so that forking a child (page tables) and the child's leak check
// (a scan of the whole heap) cost the same for the 100th and the 100000th script
inline bool next_script(std::istream& in, std::string& pending_header, Script& s) {
    s.id.clear(); s.lines.clear();
    std::string l;
    bool have = false;
    if (!pending_header.empty()) { s.id = pending_header.substr(4); pending_header.clear(); have = true; }
    while (std::getline(in, l)) {
        if (l.empty() || l[0] == '#') continue;
        if (l.compare(0, 4, "=== ") == 0) {
            if (have) { pending_header = l; return true; }
            s.id = l.substr(4); have = true;
        } else if (have) {
            s.lines.push_back(l);
        }
    }
    return have;
}

inline int run_all(const std::function<void(const Script&)>& run) {
    const bool nofork = getenv("VERIF_NOFORK") != 0;
    std::string pending;
    std::vector<Script> scripts(1);
    const size_t i = 0;
    while (next_script(std::cin, pending, scripts[0])) {
        printf("=== %s\n", scripts[i].id.c_str());
        fflush(stdout);
        if (nofork) { run(scripts[i]); fflush(stdout); continue; }
        int po[2], pe[2];
        if (pipe(po) || pipe(pe)) { perror("pipe"); return 2; }
        pid_t pid = fork();
        for (int attempt = 0; pid < 0 && attempt < 100; ++attempt) { usleep(100000); pid = fork(); }     // EAGAIN on a loaded machine
        if (pid < 0) { close(po[0]); close(po[1]); close(pe[0]); close(pe[1]); printf("!! harness-fork-failed\n"); fflush(stdout); continue; }
        if (pid == 0) {
            close(po[0]); close(pe[0]);
            dup2(po[1], 1); dup2(pe[1], 2);
            close(po[1]); close(pe[1]);
            alarm(20);
            try {
                run(scripts[i]);
            } catch (const std::exception& e) {
                printf("!! uncaught %d %s\n", exn_code(e), typeid(e).name());
            } catch (...) {
                printf("!! uncaught 99 unknown\n");
            }
            if (__lsan_do_recoverable_leak_check()) printf("!! crash lsan:leak\n");
            fflush(stdout);
            _exit(0);
        }
        close(po[1]); close(pe[1]);
        std::string so, se;
        struct pollfd fds[2] = {{po[0], POLLIN, 0}, {pe[0], POLLIN, 0}};
        int open_n = 2;
        char buf[65536];
        while (open_n > 0) {
            if (poll(fds, 2, -1) < 0) break;
            for (int k = 0; k < 2; ++k) {
                if (fds[k].fd >= 0 && (fds[k].revents & (POLLIN | POLLHUP | POLLERR))) {
                    ssize_t n = read(fds[k].fd, buf, sizeof buf);
                    if (n <= 0) { close(fds[k].fd); fds[k].fd = -1; --open_n; }
                    else (k == 0 ? so : se).append(buf, n);
                }
            }
        }
        int st = 0;
        waitpid(pid, &st, 0);
        fputs(so.c_str(), stdout);
        if (!so.empty() && so[so.size() - 1] != '\n') fputc('\n', stdout);
        if (!(WIFEXITED(st) && WEXITSTATUS(st) == 0)) {
            // summarise the sanitizer report: its first "ERROR"/"runtime error" line
            std::string kind = "unknown";
            std::istringstream es(se);
            std::string l;
            while (std::getline(es, l)) {
                size_t p;
                if ((p = l.find("ERROR: AddressSanitizer: ")) != std::string::npos) {
                    kind = "asan:" + l.substr(p + 25, l.find(' ', p + 25) - (p + 25)); break;
                }
                if ((p = l.find("ERROR: LeakSanitizer")) != std::string::npos) { kind = "lsan:leak"; break; }
                if ((p = l.find("runtime error: ")) != std::string::npos) {
                    kind = "ubsan:" + l.substr(p + 15); break;
                }
                if (l.find("Assertion") != std::string::npos) { kind = "assert:" + l; break; }
            }
            if (WIFSIGNALED(st) && WTERMSIG(st) == SIGALRM) kind = "timeout";
            for (size_t c = 0; c < kind.size(); ++c) if (kind[c] == '\n') kind[c] = ' ';
            printf("!! crash %s\n", kind.c_str());
            if (getenv("VERIF_SHOW_STDERR")) fprintf(stderr, "%s\n", se.c_str());
        }
        else if (se.find("runtime error: load of value") != std::string::npos) {
            // recoverable UBSan report (out-of-range enum load): execution continued; noted, not a crash
            size_t p = se.find("runtime error: ");
            std::string l = se.substr(p + 15, se.find('\n', p) - (p + 15));
            printf("!~ ubsan-recovered %s\n", l.c_str());
        }
        fflush(stdout);
    }
    return 0;
}

} // namespace vh
#endif
