"""Shared machinery of ./check: builds, translators, Coq, extraction, script running, verdict, evidence."""
import os, sys, json, subprocess, time, hashlib, random, fcntl, re, shutil, glob

V = os.environ.get('VERIF_ROOT') or os.path.dirname(os.path.dirname(os.path.abspath(__file__)))
REPO = os.environ.get('VERIF_REPO', '/repo')
BUILD = os.path.join(V, 'build')
ASAN = os.path.join(BUILD, 'asan')
BIN = os.path.join(BUILD, 'bin')
ML = os.path.join(BUILD, 'ml')
COQ = os.path.join(V, 'coq')
EVID = os.path.join(V, 'evidence')
REPLAY = os.path.join(EVID, 'replay')
NPROC = min(16, os.cpu_count() or 4)
GUARD = 'TINS_VERIF_HOOKS'
CXXFLAGS = ('-O1 -g -fsanitize=address,undefined -fno-sanitize-recover=all -fsanitize-recover=enum -fno-omit-frame-pointer '
            '-D' + GUARD)


def log(*a):
    print('[check]', *a, file=sys.stderr, flush=True)


def sh(cmd, timeout=None, cwd=None, env=None, inp=None):
    e = dict(os.environ)
    e.setdefault('ASAN_OPTIONS', 'detect_leaks=1:abort_on_error=0:allocator_may_return_null=1')
    if env:
        e.update(env)
    p = subprocess.run(cmd, shell=isinstance(cmd, str), cwd=cwd, env=e, input=inp,
                       stdout=subprocess.PIPE, stderr=subprocess.STDOUT, universal_newlines=True,
                       timeout=timeout, errors='replace')
    return p.returncode, p.stdout


class Lock:
    def __init__(self, name):
        os.makedirs(BUILD, exist_ok=True)
        self.path = os.path.join(BUILD, name + '.lock')

    def __enter__(self):
        self.f = open(self.path, 'w')
        fcntl.flock(self.f, fcntl.LOCK_EX)
        return self

    def __exit__(self, *a):
        fcntl.flock(self.f, fcntl.LOCK_UN)
        self.f.close()


class BuildError(Exception):
    pass


# --------------------------------------------------------------------------- repo build
def ensure_repo_build():
    """incremental out-of-tree sanitizer build of /repo's working tree"""
    t0 = time.time()
    with Lock('repo'):
        stamp = os.path.join(BUILD, 'asan.flags')
        if not os.path.exists(os.path.join(ASAN, 'build.ninja')) or not os.path.exists(stamp) or open(stamp).read() != CXXFLAGS:
            os.makedirs(ASAN, exist_ok=True)
            rc, out = sh(['cmake', '-G', 'Ninja', '-S', REPO, '-B', ASAN, '-DLIBTINS_BUILD_SHARED=0',
                          '-DLIBTINS_BUILD_TESTS=0', '-DLIBTINS_BUILD_EXAMPLES=0', '-DCMAKE_BUILD_TYPE=None',
                          '-DCMAKE_CXX_FLAGS=' + CXXFLAGS], timeout=600)
            if rc != 0:
                raise BuildError('cmake configure failed:\n' + out[-3000:])
            open(stamp, 'w').write(CXXFLAGS)
        rc, out = sh(['ninja', '-C', ASAN, '-j', str(NPROC)], timeout=1800)
        if rc != 0:
            raise BuildError('libtins does not build:\n' + out[-4000:])
    return time.time() - t0


TSAN = os.path.join(BUILD, 'tsan')
TSAN_FLAGS = '-O1 -g -fsanitize=thread -fno-omit-frame-pointer -DTINS_VERIF_HOOKS'


def ensure_tsan_build():
    """incremental out-of-tree ThreadSanitizer build of /repo's working tree (C18)"""
    with Lock('repo_tsan'):
        stamp = os.path.join(BUILD, 'tsan.flags')
        if not os.path.exists(os.path.join(TSAN, 'build.ninja')) or not os.path.exists(stamp) or open(stamp).read() != TSAN_FLAGS:
            os.makedirs(TSAN, exist_ok=True)
            rc, out = sh(['cmake', '-G', 'Ninja', '-S', REPO, '-B', TSAN, '-DLIBTINS_BUILD_SHARED=0',
                          '-DLIBTINS_BUILD_TESTS=0', '-DLIBTINS_BUILD_EXAMPLES=0', '-DCMAKE_BUILD_TYPE=None',
                          '-DCMAKE_CXX_FLAGS=' + TSAN_FLAGS], timeout=600)
            if rc != 0:
                raise BuildError('cmake configure (tsan) failed:\n' + out[-3000:])
            open(stamp, 'w').write(TSAN_FLAGS)
        rc, out = sh(['ninja', '-C', TSAN, '-j', str(NPROC)], timeout=1800)
        if rc != 0:
            raise BuildError('libtins does not build (tsan):\n' + out[-4000:])


def build_tsan_harness(name):
    src = os.path.join(V, 'harness', name + '.cpp')
    out = os.path.join(BIN, name)
    lib = os.path.join(TSAN, 'lib', 'libtins.a')
    os.makedirs(BIN, exist_ok=True)
    with Lock('harness_' + name):
        if os.path.exists(out) and all(os.path.getmtime(d) <= os.path.getmtime(out) for d in (src, lib, os.path.join(BUILD, 'accessors_gen.h'))):
            return out
        cmd = ('g++ -std=c++11 %s -I%s/include -I%s/include -I%s/harness -I%s %s -o %s %s -lpcap -lssl -lcrypto -lpthread'
               % (TSAN_FLAGS, REPO, TSAN, V, BUILD, src, out + '.tmp', lib))
        rc, o = sh(cmd, timeout=900)
        if rc != 0:
            raise BuildError('harness %s does not build:\n%s' % (name, o[-4000:]))
        os.replace(out + '.tmp', out)
    return out


def build_harness(name, extra_src=(), flags=''):
    src = os.path.join(V, 'harness', name + '.cpp')
    out = os.path.join(BIN, name)
    lib = os.path.join(ASAN, 'lib', 'libtins.a')
    os.makedirs(BIN, exist_ok=True)
    with Lock('harness_' + name):
        deps = [src, lib, os.path.join(V, 'harness', 'hcommon.h')] + list(extra_src)
        # headers of /repo can change behaviour of inline code: depend on newest header too
        newest_hdr = 0
        for root, _, files in os.walk(os.path.join(REPO, 'include')):
            for f in files:
                try:
                    newest_hdr = max(newest_hdr, os.path.getmtime(os.path.join(root, f)))
                except OSError:
                    pass
        if os.path.exists(out):
            mt = os.path.getmtime(out)
            if all(os.path.getmtime(d) <= mt for d in deps) and newest_hdr <= mt:
                return out
        cmd = ('g++ -std=c++11 %s %s -I%s/include -I%s/include -I%s/harness -I%s %s -o %s %s -lpcap -lssl -lcrypto -lpthread'
               % (CXXFLAGS, flags, REPO, ASAN, V, BUILD, src, out + '.tmp', lib))
        rc, o = sh(cmd, timeout=900)
        if rc != 0:
            raise BuildError('harness %s does not build:\n%s' % (name, o[-4000:]))
        os.replace(out + '.tmp', out)
    return out


# --------------------------------------------------------------------------- translators
def run_translators(which=('kernels',)):
    """regenerate coq/Gen/*.v from the current working tree; returns status dict"""
    sys.path.insert(0, os.path.join(V, 'translate'))
    status = {}
    with Lock('gen'):
        if 'kernels' in which:
            import cxx2gallina
            spec = json.load(open(os.path.join(V, 'translate', 'kernels.json')))
            status['kernels'] = cxx2gallina.translate_kernels(spec, os.path.join(COQ, 'Gen', 'Kernels.v'))
        for w in which:
            if w == 'kernels':
                continue
            mod = __import__(w)
            status[w] = mod.generate(os.path.join(COQ, 'Gen'))
    return status


# --------------------------------------------------------------------------- Coq
FORBIDDEN = re.compile(r'\b(Admitted|admit|Axiom|Parameter|Conjecture|Abort All|Unset Guard Checking|bypass_check|Admit Obligations)\b|Unset\s+(Guard|Positivity|Universe)\s+Checking|-type-in-type|-impredicative-set')


def coq_files():
    out = []
    for d in ('Base', 'Gen', 'Model', 'Spec', 'Proofs', 'Properties'):
        for f in sorted(glob.glob(os.path.join(COQ, d, '*.v'))):
            out.append(os.path.relpath(f, COQ))
    return out


def strip_comments(text):
    # remove (* ... *) comments, nested
    out = []
    depth = 0
    i = 0
    while i < len(text):
        if text.startswith('(*', i):
            depth += 1
            i += 2
        elif text.startswith('*)', i) and depth > 0:
            depth -= 1
            i += 2
        else:
            if depth == 0:
                out.append(text[i])
            i += 1
    return ''.join(out)


def grep_gate():
    bad = []
    for f in coq_files() + ['Extract/Extract.v']:
        p = os.path.join(COQ, f)
        if not os.path.exists(p):
            continue
        txt = strip_comments(open(p).read())
        for m in FORBIDDEN.finditer(txt):
            bad.append('%s: %s' % (f, m.group(0)))
        if re.search(r'^\s*(Variable|Hypothesis|Variables|Hypotheses)\b', txt, re.M) and not re.search(r'^\s*Section\b', txt, re.M):
            bad.append('%s: Variable/Hypothesis outside a Section' % f)
    return bad


def coq_make(targets, timeout=1500):
    """full .vo build of the given targets; returns (ok, output, per-target status)"""
    with Lock('coq'):
        files = coq_files()
        proj = '-Q . LT\n-arg -w -arg -all\n' + '\n'.join(files) + '\n'
        pp = os.path.join(COQ, '_CoqProject')
        if not os.path.exists(pp) or open(pp).read() != proj or not os.path.exists(os.path.join(COQ, 'Makefile')):
            open(pp, 'w').write(proj)
            rc, o = sh('coq_makefile -f _CoqProject -o Makefile', cwd=COQ, timeout=120)
            if rc != 0:
                return False, o, {}
        rc, o = sh(['make', '-k', '-j', str(NPROC)] + list(targets), cwd=COQ, timeout=timeout)
        st = {}
        for t in targets:
            vo = os.path.join(COQ, t)
            src = vo[:-1]
            st[t] = os.path.exists(vo) and os.path.getmtime(vo) >= os.path.getmtime(src) and rc == 0
        if rc != 0:
            # which targets exist and are fresh regardless of others failing
            for t in targets:
                rc2, _ = sh(['make', '-q', t], cwd=COQ, timeout=120)
                st[t] = (rc2 == 0)
        return rc == 0, o, st


def print_assumptions(vfile):
    """re-run coqc on a Properties file (cheap: deps are compiled) and collect the Print Assumptions output"""
    rc, o = sh(['coqc', '-Q', '.', 'LT', '-w', '-all', vfile], cwd=COQ, timeout=900)
    res = []
    cur = None
    for line in o.splitlines():
        if line.startswith('Closed under the global context'):
            res.append('closed')
        elif line.startswith('Axioms:'):
            cur = []
            res.append(cur)
        elif cur is not None and line.strip() and not line.startswith(' '):
            cur.append(line.strip())
        elif not line.strip():
            cur = None
    return rc == 0, o, res


def theorem_names(vfile):
    txt = strip_comments(open(os.path.join(COQ, vfile)).read())
    return re.findall(r'^\s*(?:Theorem|Corollary)\s+([A-Za-z0-9_\']+)', txt, re.M)


def build_runner():
    """extract Model/* to OCaml and build the script runner"""
    os.makedirs(ML, exist_ok=True)
    with Lock('runner'):
        ex = os.path.join(COQ, 'Extract', 'Extract.v')
        txt = open(ex).read()
        mods = re.findall(r'(Model\.[A-Za-z0-9_]+|Spec\.[A-Za-z0-9_]+|Gen\.[A-Za-z0-9_]+|Base\.[A-Za-z0-9_]+)', txt)
        vos = sorted(set(m.replace('.', '/') + '.vo' for m in mods))
        ok, o, st = coq_make(vos)
        if not ok:
            raise BuildError('model does not compile (broken tie between generated kernels and the model?):\n' + o[-3000:])
        runner = os.path.join(ML, 'runner')
        deps = [os.path.join(COQ, v) for v in vos] + [ex, os.path.join(V, 'harness', 'driver.ml')]
        if os.path.exists(runner) and all(os.path.getmtime(d) <= os.path.getmtime(runner) for d in deps):
            return runner
        rc, o = sh(['coqc', '-Q', COQ, 'LT', '-w', '-all', ex], cwd=ML, timeout=600)
        if rc != 0:
            raise BuildError('extraction failed:\n' + o[-3000:])
        shutil.copy(os.path.join(V, 'harness', 'driver.ml'), os.path.join(ML, 'driver.ml'))
        rc, o = sh('ocamlfind ocamlopt -w -a -O2 models.mli models.ml driver.ml -o runner.tmp', cwd=ML, timeout=600)
        if rc != 0:
            raise BuildError('ocaml build failed:\n' + o[-3000:])
        os.replace(os.path.join(ML, 'runner.tmp'), runner)
    return runner


# --------------------------------------------------------------------------- scripts
def format_scripts(scripts):
    """scripts: list of (id, [lines])"""
    out = []
    for sid, lines in scripts:
        out.append('=== %s' % sid)
        out.extend(lines)
    return '\n'.join(out) + '\n'


def parse_output(text):
    res = {}
    cur = None
    for line in text.splitlines():
        if line.startswith('=== '):
            cur = line[4:]
            res[cur] = []
        elif cur is not None:
            res[cur].append(line)
    return res


def run_sharded(cmd, scripts, shards=None, timeout=1200, env=None):
    """run `cmd` over the scripts split in shards, in parallel; returns dict id -> lines"""
    if not scripts:
        return {}
    shards = shards or NPROC
    shards = max(1, min(shards, len(scripts)))
    parts = [scripts[i::shards] for i in range(shards)]
    # every script is bounded by the harness itself (alarm(20) in its forked child), so a shard needs at most that much per script:
    # the shard limit only guards against a wedged parent process, it must never cut a slow (loaded) machine short
    timeout = max(timeout, 600 + 21 * max(len(p) for p in parts))
    procs = []
    e = dict(os.environ)
    # a small quarantine: the harness parent lives for hundreds of thousands of scripts and everything it frees would otherwise sit in
    # ASan's 256 MB quarantine, which every forked child then inherits (page tables) and scans (leak check)
    e.setdefault('ASAN_OPTIONS', 'detect_leaks=1:allocator_may_return_null=1:max_allocation_size_mb=2048:quarantine_size_mb=8:thread_local_quarantine_size_kb=64')
    e.setdefault('UBSAN_OPTIONS', 'print_stacktrace=0')
    if env:
        e.update(env)
    for p in parts:
        pr = subprocess.Popen(cmd, stdin=subprocess.PIPE, stdout=subprocess.PIPE, stderr=subprocess.DEVNULL,
                              universal_newlines=True, env=e, errors='replace')
        procs.append((pr, format_scripts(p)))
    # feed + collect with threads to avoid pipe deadlocks
    import threading
    outs = [None] * len(procs)

    def work(i):
        pr, data = procs[i]
        try:
            o, _ = pr.communicate(data, timeout=timeout)
        except subprocess.TimeoutExpired:
            pr.kill()
            o, _ = pr.communicate()
            o += '\n!! harness-timeout\n'
        outs[i] = o
    ths = [threading.Thread(target=work, args=(i,)) for i in range(len(procs))]
    for t in ths:
        t.start()
    for t in ths:
        t.join()
    res = {}
    for o in outs:
        res.update(parse_output(o or ''))
    return res


def run_model(comp, scripts, **kw):
    return run_sharded([os.path.join(ML, 'runner'), comp], scripts, **kw)


def run_harness(name, scripts, args=(), **kw):
    res = run_sharded([os.path.join(BIN, name)] + list(args), scripts, **kw)
    # a script without any output line, or hit by an infrastructure failure (fork EAGAIN, shard timeout on a loaded
    # machine), is run once more, alone: only what the second run says is judged
    again = [(sid, lines) for sid, lines in scripts if lines and (not res.get(sid) or any(l.startswith('!! harness-') for l in res.get(sid, [])))]
    if again:
        res.update(run_sharded([os.path.join(BIN, name)] + list(args), again, shards=min(4, len(again)), **{k: v for k, v in kw.items() if k != 'shards'}))
    return res


# --------------------------------------------------------------------------- shrinking
def shrink_lines(lines, still_fails, keep_first=1, budget=200):
    """delta-debug a script's op list (keeping the first `keep_first` lines)"""
    head, body = lines[:keep_first], lines[keep_first:]
    n = 2
    tries = 0
    while len(body) >= 1 and tries < budget:
        chunk = max(1, len(body) // n)
        reduced = False
        for i in range(0, len(body), chunk):
            cand = body[:i] + body[i + chunk:]
            tries += 1
            if still_fails(head + cand):
                body = cand
                n = max(n - 1, 2)
                reduced = True
                break
            if tries >= budget:
                break
        if not reduced:
            if chunk == 1:
                break
            n = min(len(body), n * 2)
    return head + body


# --------------------------------------------------------------------------- known findings
def load_known(pid):
    """KNOWN_FINDINGS.txt lines:  known: property=Cxx key=<classifier> <text>   |  fixed: property=Cxx <commit> <text>"""
    known, fixed = [], []
    p = os.path.join(V, 'KNOWN_FINDINGS.txt')
    if os.path.exists(p):
        for line in open(p):
            line = line.strip()
            if not line or line.startswith('#'):
                continue
            m = re.match(r'known:\s+property=(\S+)\s+key=(\S+)\s+(.*)', line)
            if m and m.group(1) == pid:
                known.append({'key': m.group(2), 'text': m.group(3)})
            m = re.match(r'fixed:\s+property=(\S+)\s+(\S+)\s+(.*)', line)
            if m and m.group(1) == pid:
                fixed.append({'commit': m.group(2), 'text': m.group(3)})
    return known, fixed


# --------------------------------------------------------------------------- context / verdict
class Ctx:
    def __init__(self, pid, tier, seed):
        self.pid = pid
        self.tier = tier
        self.seed = seed
        self.rng = random.Random(seed)
        self.t0 = time.time()
        self.violations = []       # (replay_path, text, has_input)
        self.known_hits = []       # text
        self.cov = {'evaluations': 0, 'distinct_nontrivial': 0, 'samples': [], 'obligations': 0, 'discharged': 0,
                    'trusted_base': [], 'checker_cmd': '', 'rule': ''}
        self.assumptions = []
        self.notes = {}
        os.makedirs(REPLAY, exist_ok=True)
        self._n = 0

    def replay_path(self, suffix='script'):
        self._n += 1
        return os.path.join(REPLAY, '%s-%d.%s' % (self.pid, self._n, suffix))

    def violation(self, text, replay_text, has_input=True, suffix='script'):
        p = self.replay_path(suffix)
        with open(p, 'w') as f:
            f.write(replay_text)
        self.violations.append((p, text, has_input))

    def known(self, text):
        if text not in self.known_hits:
            self.known_hits.append(text)

    def finish(self):
        ev = {
            'property_id': self.pid, 'tier': self.tier, 'seed': self.seed, 'level': 'proof',
            'coverage': self.cov, 'assumptions': self.assumptions,
            'wall_s': round(time.time() - self.t0, 2), 'violations': len(self.violations),
        }
        ev['coverage'].update(self.notes)
        ev['coverage']['known_findings_reproduced'] = self.known_hits
        os.makedirs(EVID, exist_ok=True)
        tmp = os.path.join(EVID, self.pid + '.json.tmp')
        with open(tmp, 'w') as f:
            json.dump(ev, f, indent=1, default=str)
        os.replace(tmp, os.path.join(EVID, self.pid + '.json'))
        for k in self.known_hits:
            print('KNOWN-FINDING: property=%s %s' % (self.pid, k))
        if self.violations:
            if any(v[2] for v in self.violations):
                # concrete failing inputs were found: the obligations that merely stopped checking add nothing
                self.violations = [v for v in self.violations if v[2]]
            for p, text, has_input in self.violations[:20]:
                print('# %s' % text)
                print('VIOLATION property=%s replay=%s%s' % (self.pid, p, '' if has_input else ' no-failing-input-found'))
            return 1
        print('OK property=%s tier=%s obligations=%d/%d evaluations=%d wall=%.1fs' % (
            self.pid, self.tier, self.cov['discharged'], self.cov['obligations'], self.cov['evaluations'],
            time.time() - self.t0))
        return 0


def prove(ctx, prop_file, extra_obligation_files=()):
    """compile Properties/<prop_file>.vo (full build), apply the grep gate, record obligations.
    Returns (ok, failing_output)."""
    bad = grep_gate()
    target = 'Properties/%s.vo' % prop_file
    ok, out, st = coq_make([target])
    names = theorem_names('Properties/%s.v' % prop_file)
    ctx.cov['obligations'] += len(names) + 1   # + the grep gate
    ctx.cov['checker_cmd'] = 'cd /verif/coq && make -k -j16 %s  (coqc 8.16.1, full .vo build) + grep gate + Print Assumptions' % target
    assum = []
    if ok and st.get(target):
        ok2, o2, res = print_assumptions('Properties/%s.v' % prop_file)
        for r in res:
            if r != 'closed':
                assum.extend(r)
        ctx.cov['discharged'] += len(names)
        ctx.notes['print_assumptions'] = ('Closed under the global context (all %d theorems)' % len(res)) if not assum else sorted(set(assum))
    if not bad:
        ctx.cov['discharged'] += 1
    ctx.notes['theorems'] = names
    tb = ['Coq 8.16.1 kernel (coqc, vm_compute used, native_compute not used)',
          'axioms: ' + ('none (Print Assumptions: Closed under the global context)' if not assum else '; '.join(sorted(set(assum))))]
    for t in tb:
        if t not in ctx.cov['trusted_base']:
            ctx.cov['trusted_base'].append(t)
    if bad:
        return False, 'grep gate: ' + '; '.join(bad)
    if not (ok and st.get(target)):
        # isolate the Coq error message
        m = re.search(r'(File "[^"]+", line \d+.*?)(?=\nmake|\Z)', out, re.S)
        return False, (m.group(1) if m else out[-2500:])
    return True, ''


# --------------------------------------------------------------------------- generic differential driver
def default_cmp(lm, lh):
    """model lines must equal the harness lines (harness lines starting with '!!' are crash reports)"""
    if lm == lh:
        return []
    for i, (a, b) in enumerate(zip(lm + ['<none>'] * len(lh), lh + ['<none>'] * len(lm))):
        if a != b:
            return ['op %d: model "%s" vs C++ "%s"' % (i, a[:300], b[:300])]
    return ['length differs']


def model_oob_matches_crash(lm, lh):
    """the model reports an out-of-bounds access (code <= -1000) at some op and the C++ died exactly at that op,
    agreeing on everything before it"""
    k = None
    for i, l in enumerate(lm or []):
        try:
            if int(l.split()[0]) <= -1000:
                k = i
                break
        except (ValueError, IndexError):
            pass
    if k is None:
        return False
    main = [l for l in lh if not l.startswith('!!') and not l.startswith('RT')]
    # after an out-of-bounds access the C++ behaviour is undefined: it may fault there, later, or not at all
    return main[:k] == lm[:k]


def differential(ctx, comp, harness, batch, oracle, cmp=default_cmp, keep_first=1, nontrivial=None,
                 runner_ok=True, known=None, max_reports=3, shrink_budget=60, harness_args=(), oob_is_crash=False):
    """batch: list of (sid, lines).  oracle(lines, cpp_lines) -> list of complaints ([] ok) or None (precondition not met).
    known(lines, complaints) -> text of a KNOWN_FINDINGS entry this failure belongs to, or None.
    Returns stats dict."""
    recovered = [0]

    def evaluate(scripts):
        h = run_harness(harness, scripts, args=harness_args)
        m = run_model(comp, scripts) if runner_ok else {}
        out = []
        for sid, lines in scripts:
            lh_all = h.get(sid, ['<no harness output>'])
            lh = [l for l in lh_all if not l.startswith('!~')]      # recovered UBSan notes: counted, not compared
            recovered[0] += len(lh_all) - len(lh)
            lm = m.get(sid, ['<no model output>']) if runner_ok else None
            orc = oracle(lines, lh)
            crashes = [l for l in lh if l.startswith('!!')]
            if orc is None:
                orc_c = crashes
            else:
                orc_c = orc + [c for c in crashes if c not in orc]
            corr = cmp(lm, lh) if runner_ok else []
            if oob_is_crash and runner_ok and orc is None and model_oob_matches_crash(lm, lh):
                # outside the property's input class; model predicts an out-of-bounds access and the C++ indeed faults: they agree
                corr, orc_c = [], []
            # complaints attributed to a recorded known finding are set aside (per complaint, not per script)
            kf = []
            if known:
                keep = []
                for c in orc_c:
                    k = known(lines, c, lh)
                    if k:
                        kf.append(k)
                    else:
                        keep.append(c)
                orc_c = keep
                keep = []
                for c in corr:
                    k = known(lines, c, lh)
                    if k:
                        kf.append(k)
                    else:
                        keep.append(c)
                corr = keep
            out.append((sid, lines, corr, orc_c, lm, lh, orc is not None, kf))
        return out
    results = evaluate(batch)
    stats = {'evaluated': len(batch), 'oracle_applicable': sum(1 for r in results if r[6]),
             'failing': 0, 'known_hits': 0}
    stats['ubsan_recovered_enum_reports'] = recovered[0]
    if nontrivial:
        ctx.cov['distinct_nontrivial'] += len(set(tuple(r[1]) for r in results if nontrivial(r[1], r[5])))
    ctx.cov['evaluations'] += len(batch)
    if runner_ok:
        ctx.cov['traces_validated_against_impl'] = ctx.cov.get('traces_validated_against_impl', 0) + len(batch)
    for r in results:
        for k in r[7]:
            ctx.known(k)
            stats['known_hits'] += 1
    fails = [r for r in results if r[2] or r[3]]
    stats['failing'] = len(fails)
    fails.sort(key=lambda r: (0 if r[3] else 1, len(r[1])))
    seen = set()
    reported = 0
    for sid, lines, corr, orc, lm, lh, app, _kf in fails:
        if reported >= max_reports:
            continue
        key = re.sub(r'\d+', 'N', (orc or corr)[0])[:60]
        if key in seen:
            continue
        seen.add(key)
        want_oracle = bool(orc)

        def still(ls):
            r = evaluate([('s', ls)])[0]
            return bool(r[3]) if want_oracle else bool(r[2] or r[3])
        small = shrink_lines(lines, still, keep_first=keep_first, budget=shrink_budget)
        r = evaluate([('s', small)])[0]
        if not (r[2] or r[3]):
            small = lines
            r = evaluate([('s', small)])[0]
        _, _, corr2, orc2, lm2, lh2, _, _ = r
        msg = (orc2 or corr2 or orc or corr)[0]
        text = '=== replay\n' + '\n'.join(small) + '\n--- spec-oracle complaints (C++ vs Spec)\n' + '\n'.join(orc2) + \
               '\n--- correspondence complaints (model vs C++)\n' + '\n'.join(corr2) + \
               '\n--- model output\n' + '\n'.join(lm2 or []) + '\n--- C++ output\n' + '\n'.join(lh2) + '\n'
        if orc2:
            ctx.violation('C++ violates the spec: ' + msg[:300], text, has_input=True)
        else:
            ctx.violation('correspondence Model(%s) <-> C++ broken (%s); the spec oracle has no complaint on this input' % (comp, msg[:300]),
                          text, has_input=False)
        reported += 1
    return stats


def read_replay(path):
    lines = []
    for l in open(path):
        l = l.rstrip('\n')
        if l.startswith('---'):
            break
        if l.startswith('==='):
            continue
        if l.strip():
            lines.append(l)
    return lines


def obligations_failed(ctx, ok, why, what):
    """a proof or tie obligation no longer checks and no failing input was found elsewhere"""
    if not ok:
        ctx.violation(what, 'PROOF/TIE OBLIGATION FAILED\n' + why, has_input=False, suffix='txt')
