#!/usr/bin/env python3
"""Regenerates MANIFEST.json from the table below (single source of truth)."""
import json
CLAIMED = {
 'C06': dict(
   text="Coq theorems over a faithful executable model of DataTracker::process_payload/advance_sequence: buffered-byte accounting holds for every history (no window assumption), the delivery loop terminates within the model's fuel, the generated seq_compare is RFC1982 serial order; the model is tied to the code by regenerating seq_compare from the clang AST on every run and by running the extracted model and DataTracker/Flow/legacy TCPStream on the same scripts; a Spec oracle (prefix-of-stream, nothing stale buffered, accounting) judges the C++ directly.",
   note="Trusted: Coq kernel, cxx2gallina translator + clang AST, extraction (ExtrOcamlBasic only), harness/h_dt.cpp, generators. The full 'delivered = covered prefix for all arrival orders' statement is stated but so far decided by exhaustive small orders + random differential runs, not yet by a theorem (see DESIGN.md status table).",
   tech="Coq proof (invariant by induction over histories) + generated kernel + model/code correspondence on scripts", ref="3/C06"),
 'C19': dict(
   text="Coq theorems over a faithful executable model of AckTracker/AckedRange: interval-set insert/erase/contains are characterised by membership and keep the canonical (sorted, disjoint, non-adjacent) form for all sets and ranges; the AckedRange loop covers exactly the serial range in at most two pieces for every pair of 32-bit sequence numbers (wrap included); seq_compare is regenerated from the source each run. The extracted model and the real AckTracker (driven through real TCP packets whose SACK option goes through the wire codec) run the same histories; a set-of-acknowledged-bytes oracle judges the C++ directly on conforming histories.",
   note="Trusted: Coq kernel, cxx2gallina + clang AST, extraction, harness/h_ack.cpp, boost::icl modelled as canonical interval lists (validated by correspondence only). The end-to-end statement 'tracker state = acknowledged-byte set for every conforming history' is decided by differential runs + the component theorems, not yet by a single refinement theorem.",
   tech="Coq proof (interval-set algebra, wrap-around range lemma) + generated kernel + model/code correspondence on receiver-simulated histories", ref="3/C19"),
 'C08': dict(
   text="Coq theorems over a faithful executable model of IPv4Reassembler/IPv4Stream: for every datagram, every partition of its payload into non-empty fragments at multiples of 8, every arrival order with duplicates and every interleaving with other keys, the stream is declared complete iff all fragments arrived (tiling lemma), the completing fragment yields REASSEMBLED with exactly the original payload and the first fragment's header, all others FRAGMENTED, unfragmented packets are untouched and other keys' streams are not disturbed. The hand-written model is tied to the code by running the extracted model and the real reassembler (raw IPv4 packets parsed by libtins) on the same scripts; a reference reassembler judges the C++ directly.",
   note="Trusted: Coq kernel, extraction, harness/h_ipr.cpp, the abstraction of the upper-layer parser as a predicate (UDP/raw/TCP-short exercised), std::vector/std::map behaviour as modelled. Overlapping fragments are outside the property and only compared model-vs-code.",
   tech="Coq proof (invariant + tiling lemma, all partitions/orders) + model/code correspondence + reference-reassembler oracle", ref="3/C08"),
 'C13': dict(
   text="The class table (flag, pdu_type of a live instance, matches_flag for every flag, is_base_of for every class) is regenerated on every run by compiling and running a generated program against the current headers; Coq proves by complete evaluation of that finite table (forallb/vm_compute lifted with forallb_forall) that for every concrete class K and every askable class T a successful find_pdu/tins_cast implies K is-a T, and that a search by the exact class succeeds; the same program evaluates find_pdu, tins_cast and dynamic_cast on live objects for all pairs and the results are compared with the table-derived predictions. PDUCacher<X> refutes the property (theorem C13_cacher_refuted_by + witness) and is a recorded known finding.",
   note="Trusted: Coq kernel (vm_compute), translate/gen_classtable.py (header scan + generated C++), g++; classes without a default constructor and abstract classes (Dot11ControlTA, Dot11ManagementFrame, EAPOL) only appear as targets T, not as K.",
   tech="Coq proof by exhaustive evaluation of a generated finite table + live-object cross-check", ref="3/C13"),
 'C12': dict(
   text="Coq theorems over an executable model of PDU/Packet ownership in which every layer object has an identity: for every program over 18 operations (construct, clone/copy, copy and move assignment, move construction, inner_pdu(ptr/ref), release_inner_pdu, operator/=, delete, field edits, Packet wrap/own/copy/move/release//=) every identity is live exactly once or destroyed exactly once (one owner, no double free, no leak once the roots are destroyed), parent links designate the owner, clones and copy-assignments are deep and equal to the source (including a shorter source), and an operation changes only the variables it names. The extracted model and real libtins objects (9 layer classes + Packet) run the same programs; an independent value-semantics reference, address-aliasing checks, ASan and LSan judge the C++ directly.",
   note="Trusted: Coq kernel, extraction, harness/h_tree.cpp; object identities exist only in the model — in C++ ownership is observed through addresses, ASan and LSan, the allocator itself is not modelled; the moved-from object's own fields are unspecified and reset by the script. One genuine defect was repaired (fix: copy-assignment from a PDU without inner layers).",
   tech="Coq proof (counting invariant over all programs) + model/code correspondence + reference oracle under ASan/LSan", ref="3/C12"),
 'C16': dict(
   text="Coq theorems over an executable model of IPv4Address, HWAddress<n>/IPv6Address (byte buffers), AddressRange and its iterator: printed text parses back to the same address (HW for every n>=1; IPv4 against a model of glibc's inet_pton), byte-wise ordering/equality equal numeric order of the big-endian value, contains() is exactly first<=x<=last, and — proved once for any address type with a valuation into [0,M) and instantiated for IPv4 (M=2^32) and n-byte buffers (M=256^n) — iterating a range visits each address (each host address for prefix ranges) exactly once in increasing order and terminates for EVERY range size, including ranges ending at the all-ones address and the whole IPv4 space. The model is tied to the code by running extracted model and real classes on the same scripts; an independent Python reference judges the C++ directly.",
   note="Trusted: Coq kernel, extraction, harness/h_addr.cpp, glibc inet_pton(AF_INET) as modelled (validated by correspondence), glibc IPv6 text functions external (round trip checked differentially only). One defect repaired (fix: IPv4 whole-space iteration); the HW text parser's accept set is a recorded known finding (C16_hw_accept_refuted).",
   tech="Coq proof (abstract iterator theorem by induction on distance, codec round trips) + model/code correspondence + reference oracle", ref="3/C16"),
 'C11': dict(
   text="A faithful executable Coq model of RadioTapParser / RadioTapWriter (write_option, build_padding_vector, update_paddings) and the RadioTap setters/getters over the options buffer, using the padding kernel and the metadata table REGENERATED from the source on every run; proved: the generated calculate_padding is the least aligning padding for every alignment/offset, the generated table has power-of-two alignments and positive sizes, reader alignment and writer padding agree. The extracted model and the real class run the same setter scripts (all orders of all subsets of <=3/4 of the 14 setters exhaustively, random sequences from default and parsed headers, wild raw options); a canonical-layout last-write reference judges the C++ directly incl. serialize + parse-back.",
   note="Trusted: Coq kernel, translators (cxx2gallina, gen_tables) + clang AST, extraction, harness/h_rt.cpp. The end-to-end theorem 'any setter sequence yields the canonical layout of the last-write map' is stated in DESIGN.md and currently decided by the exhaustive/random differential runs, not yet by a Coq refinement proof. Headers with extended present words are outside the model. Three defects repaired (fix: update_paddings offset, signal_quality width/field, out-of-bounds write on truncated parsed headers).",
   tech="Coq proof (generated kernel/table obligations) + faithful writer model in correspondence + canonical-layout oracle", ref="3/C11"),
 'C10': dict(
   text="A faithful executable Coq model of DNS (constructor walkers, compose_name, the four section getters incl. A/AAAA/NS/CNAME/PTR/MX/SOA/opaque decoding, encode_domain_name, add_query/add_record with update_records/update_dname and their unchecked accesses as OOB outcomes, serialisation). Proved: a legal name with ANY number of labels laid down by the encoder is read back unchanged by compose_name wherever it sits; compose_name terminates within its fuel for every byte string and offset and fails only with the libtins DNS exception classes (never out of bounds). The extracted model and the real class run the same scripts (messages from a reference encoder with and without compression, random insertions, hostile mutations); an independent section reference judges the C++ after every edit and after serialize + re-parse.",
   note="Trusted: Coq kernel, extraction, harness/h_dns.cpp, glibc text conversion for A/AAAA undone by the harness. The relocation theorem (sections preserved by insertions in the presence of pointers) is stated in DESIGN.md and currently decided by the differential runs, not by a Coq proof. Five defects repaired (update_dname off-by-one OOB, pointer threshold off by 12, label counter, compose_name over-read, SOA rdata relocation).",
   tech="Coq proof (name codec round trip, termination/safety of name expansion) + faithful model in correspondence + section oracle", ref="3/C10"),
}
ALL = ['C%02d' % i for i in range(1, 20)]
NA_REASON = "check not built yet in this session (machinery is being extended property by property; see DESIGN.md section 7)"
m = {
 "version": 1,
 "setup_cmd": "./setup.sh",
 "hooks": {"guard": "TINS_VERIF_HOOKS", "enable": "checks build /repo out-of-tree into /verif/build/asan with -DTINS_VERIF_HOOKS (plus ASan/UBSan)",
           "baseline_off_cmd": "/verif/baseline_off.sh", "source_commits": [], "add_only": True},
 "engines": [{"name": "check", "path": "/verif/check", "serves_properties": sorted(CLAIMED), "kind_free_text": "Coq 8.16 proofs over executable models + translators + extracted-model/C++ correspondence"}],
 "checks": [],
 "not_applicable": [],
 "notes": "Family: machine-checked proof in Coq. See DESIGN.md."
}
for pid in ALL:
    if pid in CLAIMED:
        c = CLAIMED[pid]
        m['checks'].append({
            "property_id": pid, "quick_cmd": "./check %s --tier quick" % pid, "thorough_cmd": "./check %s --tier thorough" % pid,
            "evidence_file": "/verif/evidence/%s.json" % pid, "replay_cmd_template": "./check %s --replay {path}" % pid, "engine": "check",
            "level_claimed": {"category": "proof", "text": c['text'], "design_ref": c['ref']},
            "level_note": c['note'], "technique": c['tech']})
    else:
        m['not_applicable'].append({"property_id": pid, "reason": NA_REASON})
json.dump(m, open('/verif/MANIFEST.json', 'w'), indent=1)
