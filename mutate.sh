#!/bin/sh
# usage: mutate.sh <Cxx> <file-relative-to-repo> <sed-expression> [tier]
# applies the mutation to /repo, runs the check, restores /repo.  For self-tests only.
cd /repo || exit 2
cp "$2" /var/tmp/mutate.bak
sed -i "$3" "$2"
if git diff --quiet -- "$2"; then echo "MUTATION DID NOT APPLY"; exit 3; fi
git diff -- "$2" | grep '^[-+]' | grep -v '^+++\|^---'
cd /verif && ./check "$1" --tier "${4:-quick}" 2>/dev/null | grep -v '^\[check\]' | tail -8
echo "exit=$?"
cd /repo && git checkout -- "$2" && touch "$2"
