"""C01 — parsing untrusted bytes is memory-safe and fails only as malformed-packet."""
import os, re, struct
import common as C
import pktcommon as PC

KN = {}
MALFORMED = {'1', '7', '8'}      # malformed_packet and its DNS subclasses


def judge(lines, lh):
    bad = [l for l in lh if l.startswith('!!')]
    if bad:
        return bad
    if not lh:
        return ['no output']
    if lh[0].startswith('E '):
        code = lh[0].split()[1]
        if code not in MALFORMED:
            return ['the constructor lets an exception other than malformed_packet escape (code %s)' % code]
        return []
    if lh[0].startswith('P '):
        if re.search(r'=!99\b', lh[0]):
            return ['a read accessor of an accepted packet throws a non-libtins exception: %s' % re.findall(r'(\w+)=!99', lh[0])[:3]]
        for l in lh[1:]:
            if l.startswith('E 99'):
                return ['an operation on an accepted packet throws a non-libtins exception']
    return []


def run(ctx):
    st, acc = PC.prepare(ctx, ('gen_accessors',))
    kn, _ = C.load_known('C01')
    for k in kn:
        KN[k['key']] = k['text']
    ctx.cov['trusted_base'] += ['translate/gen_accessors.py: every from-buffer entry point and every read accessor found in the current headers',
                                'ASan + UBSan (enum loads recoverable and reported separately) + LSan in harness/h_pkt.cpp; the buffer handed to a constructor is an exact-size heap block freed right after the call',
                                'Model/Stream.v and Model/TcpOpts.v are the modelled parts; every other parser is explored, not proved']
    ok, why = C.prove(ctx, 'C01')
    runner_ok = True
    try:
        C.build_runner()
    except C.BuildError as e:
        runner_ok = False; ok = False; why = (why + '\n' + str(e)).strip()
    rng = ctx.rng
    quick = ctx.tier == 'quick'
    PC.tcp_option_correspondence(ctx, rng, 400 if quick else 8000, runner_ok)
    entries = acc['from_buffer']
    hv = PC.harvested_corpus(entries)
    corp = PC.corpus(rng, 300 if quick else 3000)
    valid = [(e, b) for e, b in hv] + [(c[0], c[1]) for c in corp]
    scripts = []
    n = 0
    def add(e, b):
        nonlocal n
        scripts.append(('x%d' % n, ['parse %s x%s' % (e, b.hex()), 'view', 'clone', 'ser']))
        n += 1
    # every entry point on the shortest buffers
    for e in entries:
        add(e, b'')
        for v in (0, 1, 0x45, 0x60, 0x80, 0xff):
            add(e, bytes([v]))
        for _ in range(6 if quick else 40):
            add(e, bytes(rng.randrange(256) for _ in range(rng.choice([2, 3, 4, 7, 8, 12, 20, 40]))))
    # truncation of valid packets at every offset (sampled in the quick tier)
    for (e, b) in valid[:(120 if quick else 100000)]:
        if quick:
            cuts = sorted(set(rng.randrange(len(b)) for _ in range(min(len(b), 12))))
        elif len(b) <= 256:
            cuts = range(len(b))
        else:
            # long packets: every offset of the first 96 and the last 32 octets (where the headers and trailers are), 128 sampled ones between
            cuts = sorted(set(range(96)) | set(range(len(b) - 32, len(b))) | set(rng.sample(range(len(b)), 128)))
        for k in cuts:
            add(e, b[:k])
    # structure-aware mutations
    for _ in range(4000 if quick else 120000):
        e, b = valid[rng.randrange(len(valid))]
        m = PC.mutate(rng, b)
        if rng.random() < 0.3:
            m = PC.mutate(rng, m)
        add(e if rng.random() < 0.85 else rng.choice(entries), m)
    for _ in range(1500 if quick else 40000):
        add('IP', PC.ip_packet(rng, wild=True))
        add('TCP', PC.tcp_segment(rng, wild=True))
    # option sweeps aimed at the typed option decoders (every getter is called on every accepted packet): every option code,
    # lengths around the units of the format, and leading data bytes around the option's own size (inner length fields)
    def lead(nn):
        return sorted(set(x & 0xff for x in (0, 1, nn - 2, nn - 1, nn, nn + 1, 255)))
    n_opt = 0
    codes = list(range(0, 64)) + [rng.randrange(64, 256) for _ in range(8 if quick else 192)] if quick else list(range(256))
    for code in codes:
        # ICMPv6 neighbour discovery options (8-octet units) behind a router advertisement
        for units in (1, 2, 3):
            nn = 8 * units - 2
            for b0 in (lead(nn) if not quick else rng.sample(lead(nn), 3)):
                for b1 in ((0, nn - 1, nn) if not quick else (nn - 1,)):
                    body = bytes([b0, b1 & 0xff]) + bytes(rng.randrange(256) for _ in range(nn - 2))
                    add('ICMPv6', bytes([134, 0, 0, 0, 64, 0, 0, 30, 0, 0, 0, 0, 0, 0, 0, 0, code, units]) + body)
                    n_opt += 1
        # DHCP (code, length, data) and DHCPv6 (16-bit code, 16-bit length)
        for nn in ((0, 1, 2, 3, 4, 5, 8, 9, 17) if not quick else rng.sample([0, 1, 2, 3, 4, 5, 8, 9, 17], 3)):
            data = bytes([rng.choice(lead(nn))]) + bytes(rng.randrange(256) for _ in range(max(0, nn - 1))) if nn else b''
            add('DHCP', bytes(236) + bytes([99, 130, 83, 99, code, nn]) + data + b'\xff')
            add('DHCPv6', bytes([1, 1, 2, 3]) + struct.pack('>HH', code, nn) + data)
            add('TCP', struct.pack('>HHIIBBHHH', 1, 2, 3, 4, (5 + (nn + 2 + 3) // 4) << 4, 0x10, 100, 0, 0) + (bytes([code, nn + 2]) + data + bytes(3))[:4 * ((nn + 2 + 3) // 4)])
            add('PPPoE', bytes([0x11, 9]) + struct.pack('>HH', 0, 4 + nn) + struct.pack('>HH', code, nn) + data)
            n_opt += 4
    # 802.11 tagged parameters behind a beacon: every element id, lengths 0..13 (all residues of the 2- and 3-byte records) and
    # the largest ones
    bhdr = bytes([0x80, 0]) + bytes(2) + b'\xff' * 6 + bytes([2, 0, 0, 0, 0, 1]) * 2 + bytes(2) + bytes(8) + struct.pack('<HH', 100, 0x0411)
    for code in codes:
        for ln in (list(range(0, 14)) + [253, 254, 255] if not quick else rng.sample(list(range(0, 14)), 5) + [254, 255]):
            data = bytes(rng.randrange(256) for _ in range(ln))
            add('Dot11Beacon', bhdr + bytes([code, ln]) + data)
            add('Dot11::from_bytes', bhdr + bytes([0, 3]) + b'abc' + bytes([code, ln]) + data)
            nn_opt = 0
            n_opt += 2
    # next-protocol dispatch with almost nothing behind it: every EtherType / IP protocol / well-known port libtins knows, followed by
    # 0..12 octets (a length field larger than what is there, a type octet right behind the end, ...)
    def short(nb):
        return bytes(rng.choice([0, 1, 3, 0x5f, 0xff, rng.randrange(256)]) for _ in range(nb))
    for et in (0x0800, 0x86dd, 0x0806, 0x8100, 0x88a8, 0x888e, 0x8847, 0x8863, 0x8864, 0x88cc, 0x0026, 0x0003):
        for nb in range(0, 13):
            for rep in range(1 if quick else 6):
                add('EthernetII', bytes(12) + struct.pack('>H', et) + short(nb))
                add('SLL', struct.pack('>HHH', 0, 1, 6) + bytes(8) + struct.pack('>H', et) + short(nb))
                n_opt += 2
    for proto in (1, 2, 4, 6, 17, 41, 47, 50, 51, 58, 132):
        for nb in range(0, 13):
            body = short(nb)
            ip4 = struct.pack('>BBHHHBBH', 0x45, 0, 20 + nb, 1, 0, 64, proto, 0) + bytes([10, 0, 0, 1, 10, 0, 0, 2]) + body
            ip6 = struct.pack('>IHBB', 6 << 28, nb, proto, 64) + bytes(32) + body
            add('IP', ip4); add('IPv6', ip6)
            n_opt += 2
    for port in (53, 67, 68, 546, 547, 4789, 5353, 1812):
        for nb in range(0, 13):
            body = short(nb)
            add('UDP', struct.pack('>HHHH', 40000, port, 8 + nb, 0) + body)
            add('UDP', struct.pack('>HHHH', port, 40000, 8 + nb, 0) + body)
            n_opt += 2
    for dsap in (0x42, 0xaa, 0xf0, 0x00):
        for nb in range(0, 10):
            add('Dot3', bytes(12) + struct.pack('>H', 3 + nb) + bytes([dsap, dsap, 3]) + short(nb))
            n_opt += 1
    # DHCPv6 class options (user class 15: entries of 16-bit length + data; vendor class 16: enterprise number first): well-formed
    # entry lists followed by 0..3 stray octets, the whole longer than the 8 octets an option keeps in place (so that the data
    # sits in its own heap block), read through the typed accessors
    for rep in range(40 if quick else 600):
        for code in (15, 16):
            ents = b''.join(struct.pack('>H', ln) + bytes(rng.randrange(256) for _ in range(ln)) for ln in (rng.choice([0, 1, 3, 6, 9]) for _ in range(rng.randrange(1, 4))))
            data = (struct.pack('>I', rng.randrange(1 << 32)) if code == 16 else b'') + ents + bytes(rng.randrange(256) for _ in range(rng.choice([0, 1, 1, 2, 3])))
            add('DHCPv6', bytes([1, 1, 2, 3]) + struct.pack('>HH', code, len(data)) + data)
            n_opt += 1
    # MLDv2 reports (ICMPv6 type 143): records announcing sources and auxiliary words, cut at every length
    for rep in range(4 if quick else 40):
        recs = b''
        for _ in range(rng.randrange(1, 3)):
            ns, aux = rng.choice([0, 1, 1, 2, 3]), rng.choice([0, 0, 1, 2])
            recs += bytes([rng.randrange(1, 7), aux]) + struct.pack('>H', ns) + bytes([0xff, 2] + [rng.randrange(256) for _ in range(14)]) + bytes(rng.randrange(256) for _ in range(16 * ns + 4 * aux))
        rep_b = bytes([143, 0, 0, 0, 0, 0]) + struct.pack('>H', rng.choice([1, 2])) + recs
        for cut in range(8, len(rep_b) + 1):
            add('ICMPv6', rep_b[:cut])
            n_opt += 1
    # link-layer headers that announce their own length: RadioTap (it_len against the chain of present words whose bit 31 announces
    # another word) and PPI (pph_len against the 802.11-common field the FCS flag is read from), every announced length around the
    # word / field boundaries, with and without bytes behind the header
    for chain in range(0, 4):
        for it_len in range(4, 8 + 4 * chain + 7):
            for tail in ((0, 1, 4, 12, 30) if not quick else (0, 4, 30)):
                for last_ext in (0, 1):
                    words = [0x80000000 | rng.randrange(1 << 29) for _ in range(chain)] + [(0x80000000 if last_ext else 0) | rng.choice([0, 0x2e, 0x4008006f])]
                    body = b''.join(struct.pack('<I', w) for w in words) + bytes(rng.randrange(256) for _ in range(24))
                    add('RadioTap', (bytes([0, 0]) + struct.pack('<H', it_len) + body)[:max(it_len, 4)] + bytes(rng.randrange(256) for _ in range(tail)))
                    n_opt += 1
    for pph_len in range(4, 44):
        for dlt in (105, 1, 127, 0):
            for tail in ((0, 1, 4, 10, 24, 40) if not quick else (0, 4, 24)):
                fld = struct.pack('<HH', rng.choice([2, 2, 2, 3, 0]), rng.choice([20, max(0, pph_len - 12), 0])) + bytes(rng.choice([0, 1, 0xff]) if i == 8 else rng.randrange(256) for i in range(40))
                add('PPI', (bytes([0, 0]) + struct.pack('<HI', pph_len, dlt) + fld)[:max(pph_len, 8)] + bytes(rng.randrange(256) for _ in range(tail)))
                n_opt += 1
    # truncated DNS responses (TC set, section counts larger than what is there), cut at every length: the getters must not walk
    # past the record data
    for rep in range(3 if quick else 30):
        hdr = struct.pack('>HHHHHH', 0x4242, 0x8380, 1, rng.randrange(1, 4), rng.randrange(0, 3), rng.randrange(0, 3))
        nm = b'\x03www\x07example\x03com\x00'
        body = nm + struct.pack('>HH', 1, 1)
        for _ in range(rng.randrange(1, 3)):
            body += b'\xc0\x0c' + struct.pack('>HHIH', 1, 1, 60, 4) + bytes(rng.randrange(256) for _ in range(4))
        for cut in range(12, len(hdr + body) + 1):
            add('DNS', (hdr + body)[:cut])
            n_opt += 1
    # DNS names whose decoded length sits around the 255-character limit, plain and reached through a pointer
    for total in range(248, 262):
        for shape in range(3 if quick else 8):
            labels, left = [], total
            while left > 0:
                ln = min(63, left - 1 if left > 1 else 1, rng.choice([63, 63, 62, 31, 1, 2])) if left > 1 else 1
                ln = max(1, min(ln, left - (1 if left > ln + 1 else 0)))
                labels.append(ln)
                left -= ln + 1
            name = b''.join(bytes([l]) + bytes(rng.choice(b'abcdefghijklmnopqrstuvwxyz') for _ in range(l)) for l in labels) + b'\0'
            hdr = struct.pack('>HHHHHH', 0x1234, 0x8180, 1, 1, 0, 0)
            add('DNS', hdr + name + struct.pack('>HH', 1, 1) + b'\xc0\x0c' + struct.pack('>HHIH', 1, 1, 60, 4) + bytes([1, 2, 3, 4]))
            add('DNS', hdr + name + struct.pack('>HH', 1, 1) + b'\x03www\xc0\x0c' + struct.pack('>HHIH', 5, 1, 60, len(name)) + name)
            n_opt += 2
    ctx.notes['aimed_option_and_name_cases'] = n_opt
    h = C.run_harness('h_pkt', scripts)
    ctx.cov['evaluations'] += len(scripts)
    nontriv, seen, reported, kinds, recovered = set(), set(), 0, {}, {}
    for sid, lines in scripts:
        lh_all = h.get(sid, [])
        for l in lh_all:
            if l.startswith('!~'):
                k = re.sub(r'\d+', 'N', l)[:90]
                recovered[k] = recovered.get(k, 0) + 1
        lh = [l for l in lh_all if not l.startswith('!~')]
        bad = judge(lines, lh)
        if lh and lh[0].startswith('P ') and ' | ' in lh[0]:
            nontriv.add(lines[0])
        if not bad:
            continue
        kf = known(lines, bad, lh)
        if kf:
            ctx.known(kf)
            continue
        key = re.sub(r'x[0-9a-f]+|\d+', 'N', bad[0])[:70] + '|' + lines[0].split()[1]
        kinds[key] = kinds.get(key, 0) + 1
        if key in seen or reported >= 6:
            continue
        seen.add(key); reported += 1
        ctx.violation(bad[0][:200] + ' [entry ' + lines[0].split()[1] + ']', '=== replay\n' + '\n'.join(lines) + '\n--- problems\n' + '\n'.join(bad) + '\n--- C++ output\n' + '\n'.join(l[:300] for l in lh) + '\n')
    ctx.notes['violation_kinds'] = kinds
    ctx.notes['ubsan_recovered_reports'] = recovered
    if recovered and 'enum' in KN:
        ctx.known(KN['enum'])
    ctx.cov['distinct_nontrivial'] = len(nontriv)
    ctx.cov['rule'] = ('%d entry points x (empty / 1-byte / short random buffers, truncations of valid packets of ~50 protocols, structure-aware mutations, cross-entry parses); '
                       'each accepted packet is walked by every generated read accessor, cloned, serialised and destroyed under ASan/UBSan/LSan; '
                       'non-trivial = distinct accepted multi-layer input' % len(entries))
    ctx.cov['samples'] = [[l[:120] for l in scripts[0][1]], [l[:160] for l in scripts[-1][1]]]
    C.obligations_failed(ctx, ok, why, 'theorems of Properties/C01.v no longer check')


def known(lines, bad, lh):
    return None


def replay(ctx, path):
    C.build_harness('h_pkt')
    lines = C.read_replay(path)
    lh = [l for l in C.run_harness('h_pkt', [('r', lines)]).get('r', []) if not l.startswith('!~')]
    print('\n'.join(l[:300] for l in lh))
    bad = judge(lines, lh)
    if bad:
        ctx.violation(bad[0], open(path).read())
    return ctx.finish()
