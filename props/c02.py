"""C02 — serialization is total, size-exact and layers never overwrite each other."""
import os, re, struct
import common as C
import pktcommon as PC

KN = {}


def judge_ser(lines, lh):
    """problems with the serialisation lines (S/S2) of one script"""
    bad = []
    for l in lh:
        if l.startswith('!!'):
            bad.append(l)
        if l.startswith('S ') or l.startswith('S2 '):
            t = l.split()
            size, y = int(t[1]), bytes.fromhex(t[2][1:])
            if size != len(y):
                bad.append('size() = %d but serialize() returned %d bytes' % (size, len(y)))
            if ' M ' in l:
                for m in re.finditer(r' M (\d+) (\d+) (\d+)', l):
                    if m.group(2) == '2':
                        bad.append('layer of pdu_type %s overwrote a byte produced by its inner layers at offset %s (hook H1)' % (m.group(1), m.group(3)))
                    else:
                        bad.append('layer of pdu_type %s was handed a buffer smaller than header+trailer (%s bytes) (hook H1)' % (m.group(1), m.group(3)))
    return bad


def run(ctx):
    st, acc = PC.prepare(ctx, ('kernels', 'gen_accessors'))
    kn, _ = C.load_known('C02')
    for k in kn:
        KN[k['key']] = k['text']
    ctx.cov['trusted_base'] += ['translate/cxx2gallina.py (TCP/IP pad_options_size regenerated each run), translate/gen_accessors.py',
                                'hook H1 in PDU::serialize (guard TINS_VERIF_HOOKS) reports inner-region overwrites; harness/h_pkt.cpp',
                                'Model/TcpOpts.v hand-written, tied by correspondence; other layers are judged by the hook and size oracle only (not modelled)']
    ok, why = C.prove(ctx, 'C02')
    tie = all(k['ok'] for k in st['kernels'] if 'pad_options_size' in k['kernel'])
    runner_ok = True
    try:
        C.build_runner()
    except C.BuildError as e:
        runner_ok = False; ok = False; why = (why + '\n' + str(e)).strip()
    rng = ctx.rng
    quick = ctx.tier == 'quick'
    PC.tcp_option_correspondence(ctx, rng, 800 if quick else 12000, runner_ok)
    PC.tlv_correspondence(ctx, rng, 600 if quick else 10000, runner_ok)
    # API-built packets and parsed (mutated) packets: serialize() must succeed with exactly size() bytes and no overwrite
    corp = PC.corpus(rng, 500 if quick else 6000)
    scripts = []
    for i, (ecls, y, meta, lines) in enumerate(corp):
        scripts.append(('a%d' % i, lines))
    entries = acc['from_buffer']
    serializable = [e for e in entries if e not in ('PPI', 'PKTAP')]
    n_mut = 2500 if quick else 40000
    for i in range(n_mut):
        ecls, y, meta, _ = corp[rng.randrange(len(corp))]
        b = PC.mutate(rng, y) if rng.random() < 0.8 else y
        e = ecls if rng.random() < 0.7 else rng.choice(serializable)
        if rng.random() < 0.15:
            b = PC.tcp_segment(rng, wild=rng.random() < 0.3); e = 'TCP'
        scripts.append(('m%d' % i, ['parse %s x%s' % (e, b.hex()), 'ser', 'rt ' + e]))
    # every typed (struct / byte-string / list valued) setter with a sweep of values, alone and under IPv6, in front of a payload
    import c04 as R4
    fl = [l.split() for l in C.run_harness('h_pkt', [('fl', ['fields'])]).get('fl', [])]
    dflt = set(acc['default_constructible'])
    for t in fl:
        if len(t) == 4 and t[2] in ('7', '8', '9') and t[0] in dflt and (t[0], t[1]) not in R4.TYPED_EXCLUDE:
            prep = R4.PREP.get((t[0], t[1]), R4.PREP.get(t[0], []))
            for v in list(range(0, 24)) + [rng.randrange(1 << 64) for _ in range(4 if quick else 60)]:
                scripts.append(('y%d' % len(scripts), ['new ' + t[0]] + prep + ['set 0 %s %d' % (t[1], v), 'raw x5041594c4f414421', 'ser']))
                if t[0] == 'ICMPv6':
                    scripts.append(('y%d' % len(scripts), ['new IPv6', 'push ICMPv6'] + [p.replace('set 0', 'set 1') for p in prep] + ['set 1 %s %d' % (t[1], v), 'raw x5041594c4f414421', 'ser', 'ser']))
    # ICMP / ICMPv6 error messages with RFC 4884 extensions in front of quoted payloads around the 128-byte mark (the layer
    # zero-pads the quoted datagram itself, with a raw memset), alone and under IP / IPv6
    for cls, ty, outer in (('ICMP', 3, None), ('ICMP', 11, 'IP'), ('ICMPv6', 3, None), ('ICMPv6', 1, 'IPv6')):
        for n in list(range(0, 9)) + list(range(120, 141)) + [200, 255, 256]:
            pl = bytes(rng.randrange(1, 256) for _ in range(n))
            k = 1 if outer else 0
            pre = (['new ' + outer, 'push ' + cls] + (['set 0 src_addr 167772161'] if outer == 'IP' else [])) if outer else ['new ' + cls]
            scripts.append(('e%d' % len(scripts), pre + ['set %d type %d' % (k, ty), 'icmpext %d x%s' % (k, bytes(rng.randrange(256) for _ in range(rng.choice([0, 4, 8]))).hex())] +
                            (['raw x' + pl.hex()] if n else []) + ['ser', 'ser']))
    # RTP: every combination of padding bit, extension bit with 0..2 extension words, CSRC count, payload and padding length
    for p_bit in (0, 1):
        for x_bit in (0, 1):
            for cc in (0, 1, 2):
                for words in ((0,) if not x_bit else (0, 1, 2)):
                    for npay in (0, 1, 8, 20):
                        for pad in ((0,) if not p_bit else (1, 2, 4)):
                            b = bytes([0x80 | (p_bit << 5) | (x_bit << 4) | cc, 96]) + struct.pack('>HII', 7, 1000, 0xdeadbeef) + bytes(range(1, 4 * cc + 1))
                            if x_bit:
                                b += struct.pack('>HH', 0xbede, words) + bytes(range(0x40, 0x40 + 4 * words))
                            b += bytes(0xc0 + (i % 32) for i in range(npay))
                            if p_bit:
                                b += bytes(pad - 1) + bytes([pad])
                            scripts.append(('r%d' % len(scripts), ['parse RTP x' + b.hex(), 'ser', 'rt RTP']))
    # cached layers in front of a payload, serialised twice
    for cname in ('UDP', 'TCP', 'IP', 'ICMP', 'EthernetII'):
        for n in (0, 1, 8, 36, 300):
            scripts.append(('k%s%d' % (cname, n), ['newc ' + cname] + (['raw x' + bytes(rng.randrange(256) for _ in range(n)).hex()] if n else []) + ['ser', 'ser']))
    # options handed over as const lvalues whose length field is given explicitly (PDUOption(type, length, begin, end): "this can be
    # different to std::distance(start, end)"): the cached size must count what is written, whatever the length field says
    for cls, code in (('PPPoE', 0x0101), ('PPPoE', 0x0103), ('TCP', 8), ('IP', 7), ('DHCP', 12), ('DHCPv6', 1), ('ICMPv6', 1), ('Dot11Beacon', 0), ('Dot11ProbeResponse', 221)):
        for n in (0, 1, 4, 6, 14, 30):
            for ln in sorted(set([0, 1, max(0, n - 1), n, n + 1, n + 8])):
                for two in (0, 1):
                    d = bytes(rng.randrange(256) for _ in range(n))
                    lines = ['new ' + cls, 'lopt 0 %d %d x%s' % (code, ln, d.hex())]
                    if two:
                        lines.append(rng.choice(['lopt 0 %d %d x%s' % (code, rng.randrange(0, 9), bytes(rng.randrange(256) for _ in range(rng.randrange(0, 9))).hex()), 'aopt 0 %d xaabb' % code]))
                    scripts.append(('t%d' % len(scripts), lines + ['raw x5041594c4f414421', 'ser', 'ser']))
    # IPv6 extension headers of every kind the class knows (Fragment included: its second octet is read and written as a length like
    # the others'), bodies of 0..24 octets through the API and second octets 0..2 on the wire, in front of 0, 8 and 33 octets
    for ty in (0, 43, 44, 51, 60, 135, 139, 140):
        for n in range(0, 25):
            pl = bytes(rng.randrange(256) for _ in range(rng.choice([0, 8, 8, 33])))
            lines = ['new IPv6'] + (['ext6 0 60 x%s' % bytes(rng.randrange(256) for _ in range(rng.randrange(0, 12))).hex()] if rng.random() < 0.3 else []) + ['ext6 0 %d x%s' % (ty, bytes(rng.randrange(256) for _ in range(n)).hex())]
            scripts.append(('x%d' % len(scripts), lines + (['raw x' + pl.hex()] if pl else []) + ['ser', 'ser']))
        for l2 in (0, 1, 2):
            for npl in (0, 8, 33):
                body = bytes(rng.randrange(256) for _ in range(8 * l2 + 6))
                y = bytes([0x60, 0, 0, 0]) + struct.pack('>HBB', 8 * l2 + 8 + npl, ty, 64) + bytes(range(32)) + bytes([59, l2]) + body + bytes(0xa0 + i % 16 for i in range(npl))
                scripts.append(('m%d' % len(scripts), ['parse IPv6 x' + y.hex(), 'ser', 'rt IPv6']))
    # option histories (add / remove / replace, serialized in the middle and again at the end): the cached sizes must stay exact
    hs, _ = R4.option_histories(rng, 400 if quick else 8000)
    scripts += [('h' + sid, lines) for sid, lines in hs]
    h = C.run_harness('h_pkt', scripts)
    ctx.cov['evaluations'] += len(scripts)
    nontriv = set()
    seen = set()
    reported = 0
    for sid, lines in scripts:
        lh = [l for l in h.get(sid, []) if not l.startswith('!~')]
        accepted = sid.startswith('a') or (lh and lh[0].startswith('P '))
        if lh and PC.env_dependent(lh[0]) and not any(l.startswith('set 0 src_addr ') for l in lines):
            continue          # (a top-level IPv4 layer whose source is never set: filled in from the routing table)
        if sid.startswith('y') and any(l.startswith('E ') for i, l in enumerate(lh) if i < len(lines) and lines[i].startswith('set ')):
            continue          # the setter refused the value
        if not accepted:
            continue
        bad = judge_ser(lines, lh)
        # serialize() of an accepted / API-built packet must not throw
        for i, l in enumerate(lines):
            if l == 'ser' and i < len(lh) and lh[i].startswith('E '):
                bad.append('serialize() threw (exception code %s)' % lh[i].split()[1])
        if any(l.startswith('S ') for l in lh) and lh[0].count(' | ') >= 1:
            nontriv.add(tuple(lines))
        if not bad:
            continue
        kf = known(lines, bad, lh)
        if kf:
            ctx.known(kf)
            continue
        key = re.sub(r'\d+', 'N', bad[0])[:50]
        if key in seen or reported >= 4:
            continue
        seen.add(key)
        reported += 1
        ctx.violation(bad[0], '=== replay\n' + '\n'.join(lines) + '\n--- problems\n' + '\n'.join(bad) + '\n--- C++ output\n' + '\n'.join(l[:400] for l in lh) + '\n')
    ctx.cov['distinct_nontrivial'] = len(nontriv)
    ctx.cov['rule'] = ('(1) TCP segments with crafted option regions: model vs TCP(buffer)+serialize(); (2) packets built through the public API; '
                       '(3) mutated valid packets re-parsed through %d entry classes: when accepted, serialize() must not throw, return exactly size() bytes and '
                       'hook H1 must report no overwritten inner byte; non-trivial = distinct accepted multi-layer packet that was serialised' % len(serializable))
    ctx.cov['samples'] = [scripts[0][1][:8], [l[:200] for l in scripts[len(corp)][1]]]
    C.obligations_failed(ctx, ok and tie, why, 'theorems of Properties/C02.v / generated pad_options_size kernels no longer check')


def known(lines, bad, lh):
    """IP options whose type octet has number <= 1 but class/copied bits set are parsed as one byte, sized and written differently"""
    if 'ipopt' in KN and all(('pdu_type 28 ' in b or 'pdu_type 29 ' in b or 'serialize() threw' in b or 'size()' in b) for b in bad):
        m = re.search(r'options=\{([^}]*)\}', lh[0] if lh else '')
        if m and ' IP ' in (' ' + lh[0]):
            for o in re.findall(r'\((\d+),', m.group(1)):
                v = int(o)
                if (v & 0x1f) <= 1 and v > 1:
                    return KN['ipopt']
    return None


def replay(ctx, path):
    C.build_harness('h_pkt')
    lines = C.read_replay(path)
    lh = C.run_harness('h_pkt', [('r', lines)]).get('r', [])
    print('\n'.join(l[:300] for l in lh))
    bad = judge_ser(lines, lh)
    if bad:
        ctx.violation(bad[0], open(path).read())
    return ctx.finish()
