"""C03 — re-serializing a parsed packet preserves it."""
import os, re, struct
import common as C
import pktcommon as PC

KN = {}
LENGTHS_AND_CHECKSUMS = {'checksum', 'tot_len', 'length', 'head_len', 'data_offset', 'payload_length', 'len', 'header_len', 'hlen', 'padding', 'bottom_of_stack'}
# getters that alias the octet holding the RFC 4884 length (ICMP: byte 5, ICMPv6: byte 4); seen with VERIF_SEED=2 (hop_limit)
RFC4884_TYPES = {'ICMP': {'3', '11', '12'}, 'ICMPv6': {'1', '3'}}
ICMP_UNION = {'gateway', 'id', 'pointer', 'mtu', 'sequence', 'identifier', 'reachable_time', 'hop_limit', 'maximum_response_code', 'override', 'solicited', 'router'}
TAGS = {'eth_type', 'protocol', 'payload_type', 'next_header', 'family', 'type'}
# getters that expose a cache libtins fills while serialising (derived from the option list): not part of the view
DERIVED_CACHES = {('DHCP', 'vend'), ('Dot1Q', 'append_padding')}


def split_layers(view):
    return view[2:].split(' | ')


def judge(lines, lh):
    if lh and PC.env_dependent(lh[0]):
        return []
    """lines: parse E x.. ; ser ; view ; rt E     lh: P.. ; S.. ; P'.. ; Q.. ; S2.."""
    bad = []
    if not lh or not lh[0].startswith('P '):
        return None          # not accepted: outside the property
    for l in lh:
        if l.startswith('!!'):
            bad.append(l)
    if bad:
        return bad
    if len(lh) < 2 or not lh[1].startswith('S '):
        return None          # serialisation problems are C02's business
    if len(lh) >= 4 and not lh[3].startswith('Q '):
        return ['the serialization of the accepted packet is rejected by the same parser: %s' % lh[3][:80]]
    if len(lh) < 5:
        return None
    p2, q = split_layers(lh[2]), split_layers(lh[3])
    # an empty payload counts as no payload
    strip = lambda ls: [x for x in ls if not re.fullmatch(r'RawPDU payload=x payload_size=0', x)]
    p2, q = strip(p2), strip(q)
    # minimum-frame padding is derived: below an Ethernet layer, zero bytes appended to the innermost payload up to the
    # 46-byte minimum do not count (and an all-zero payload that appears there counts as no payload)
    if any(x.split(' ')[0] in ('EthernetII', 'Dot3', 'Dot1Q') for x in p2):
        def payload(ls):
            return ls[-1].split(' ')[1][len('payload=x'):] if ls and ls[-1].startswith('RawPDU payload=x') else None
        pp, qp = payload(p2), payload(q)
        if qp is not None and len(qp) <= 92 and (pp or '') != qp and qp.startswith(pp or '') and set(qp[len(pp or ''):]) <= {'0'}:
            q = q[:-1] + ([p2[-1]] if pp is not None else [])
    if [x.split(' ')[0] for x in p2] != [x.split(' ')[0] for x in q]:
        bad.append('layer stack changed: %s -> %s' % ([x.split(' ')[0] for x in p2], [x.split(' ')[0] for x in q]))
    else:
        for a, b in zip(p2, q):
            if a != b:
                fa = dict(t.split('=', 1) for t in a.split(' ')[1:] if '=' in t)
                fb = dict(t.split('=', 1) for t in b.split(' ')[1:] if '=' in t)
                diff = [k for k in fa if fa.get(k) != fb.get(k) and (a.split(' ')[0], k) not in DERIVED_CACHES]
                if not diff:
                    continue
                bad.append('%s: field(s) %s changed by serialize + re-parse: %s -> %s' % (a.split(' ')[0], diff[:4], [fa[k][:40] for k in diff[:4]], [fb.get(k, '')[:40] for k in diff[:4]]))
                break
    # serialising must not alter a parsed packet's own (non-derived) fields: compare the view before and after serialize()
    if not bad:
        p0 = strip(split_layers(lh[0]))
        p1 = strip(split_layers(lh[2]))
        for i, (a, b) in enumerate(zip(p0, p1)):
            if a == b:
                continue
            cls = a.split(' ')[0]
            fa = dict(t.split('=', 1) for t in a.split(' ')[1:] if '=' in t)
            fb = dict(t.split('=', 1) for t in b.split(' ')[1:] if '=' in t)
            nxt = p0[i + 1].split(' ')[0] if i + 1 < len(p0) else None
            for k in fa:
                if fa[k] == fb.get(k) or (cls, k) in DERIVED_CACHES or k in LENGTHS_AND_CHECKSUMS:
                    continue
                if cls in ('ICMP', 'ICMPv6') and k in ICMP_UNION and fa.get('length') != fb.get('length') and \
                        fa.get('type') in RFC4884_TYPES[cls]:
                    continue          # these getters alias the RFC 4884 length octet, which libtins derives (only in the message
                                      # types for which RFC 4884 defines it; seeded mutation C03/m2 showed the tolerance was too wide)
                if k in TAGS and nxt != 'RawPDU':
                    continue          # tag followed by a recognised layer (or by nothing): libtins may derive it
                bad.append('%s.%s = %s in the parsed packet but %s after serialize()%s' % (cls, k, fa[k][:40], fb.get(k, '')[:40],
                           ' (next-protocol tag in front of an unrecognised payload)' if k in TAGS else ''))
                break
            if bad:
                break
    s1, s2 = lh[1].split(), lh[4].split()
    payload_nonempty = 'RawPDU payload=x' in lh[2] and 'RawPDU payload=x payload_size=0' not in lh[2]
    eth = any(x.split(' ')[0] in ('EthernetII', 'Dot3', 'Dot1Q') for x in p2)
    same = s1[2] == s2[2] or (eth and len(s1) > 2 and len(s2) > 2 and re.sub(r'(00)+$', '', s1[2]) == re.sub(r'(00)+$', '', s2[2]) and max(len(s1[2]), len(s2[2])) <= 1 + 2 * 68)
    if not bad and s2[0] == 'S2' and payload_nonempty and not same:
        bad.append('second serialization differs from the first: %s vs %s' % (s1[2][:120], s2[2][:120]))
    return bad


def run(ctx):
    st, acc = PC.prepare(ctx, ('gen_accessors',))
    kn, _ = C.load_known('C03')
    for k in kn:
        KN[k['key']] = k['text']
    ctx.cov['trusted_base'] += ['translate/gen_accessors.py: the view = every public getter of every layer, regenerated from the current headers',
                                'Model/TcpOpts.v tied by correspondence; all other layers are judged on the real code only (view equality after serialize + re-parse)',
                                'harness/h_pkt.cpp']
    ok, why = C.prove(ctx, 'C03')
    runner_ok = True
    try:
        C.build_runner()
    except C.BuildError as e:
        runner_ok = False; ok = False; why = (why + '\n' + str(e)).strip()
    rng = ctx.rng
    quick = ctx.tier == 'quick'
    PC.tcp_option_correspondence(ctx, rng, 500 if quick else 8000, runner_ok)
    PC.tlv_correspondence(ctx, rng, 600 if quick else 10000, runner_ok)
    corp = PC.corpus(rng, 500 if quick else 6000)
    entries = [e for e in acc['from_buffer'] if e not in ('PPI', 'PKTAP')]
    hv = PC.harvested_corpus(entries)
    ctx.notes['harvested_pairs'] = len(hv)
    scripts = []
    for j, (e, b) in enumerate(hv):
        scripts.append(('h%d' % j, ['parse %s x%s' % (e, b.hex()), 'ser', 'view', 'rt ' + e]))
    for j in range(1500 if quick else 30000):
        e, b = hv[rng.randrange(len(hv))]
        scripts.append(('hm%d' % j, ['parse %s x%s' % (e, PC.mutate(rng, b).hex()), 'ser', 'view', 'rt ' + e]))
    # every ICMP / ICMPv6 message type with a non-zero second header word, in front of payloads around the 128-byte mark
    # (RFC 4884 length handling must leave the other message types' fields alone)
    k = 0
    for ent, types in (('ICMP', list(range(0, 20)) + [30, 40, 41, 42, 43, 255]), ('ICMPv6', [1, 2, 3, 4, 100, 127] + list(range(128, 162)) + [200, 255])):
        for t in types:
            for plen in (0, 8, 64, 128, 129, 136, 200):
                word = bytes(rng.randrange(1, 256) for _ in range(4))
                b = bytes([t, 0, 0, 0]) + word + bytes(rng.randrange(256) for _ in range(plen))
                scripts.append(('ic%d' % k, ['parse %s x%s' % (ent, b.hex()), 'ser', 'view', 'rt ' + ent]))
                k += 1
    # RadioTap headers whose FLAGS field announces a frame check sequence, followed by 0..14 octets (nothing, less than an FCS,
    # exactly an FCS and no frame, a short frame + FCS): what is accepted must come back byte for byte
    for j in range(60 if quick else 600):
        fl = rng.choice([0x10, 0x10, 0x12, 0x50, 0x00])
        hdr = rng.choice([bytes([0, 0, 9, 0, 2, 0, 0, 0, fl]),
                          bytes([0, 0, 17, 0, 3, 0, 0, 0]) + bytes(8) + bytes([fl]),
                          bytes([0, 0, 10, 0, 6, 0, 0, 0, fl, 12])])
        tail = bytes(rng.randrange(256) for _ in range(rng.choice([0, 1, 3, 4, 4, 5, 8, 10, 14])))
        if rng.random() < 0.5 and len(tail) >= 4:
            tail = bytes([0xd4, 0]) + tail[2:]          # an 802.11 ACK-like control frame start
        scripts.append(('rf%d' % j, ['parse RadioTap x' + (hdr + tail).hex(), 'ser', 'view', 'rt RadioTap']))
    # ICMP / ICMPv6 error messages carrying an RFC 4884 extension structure (own encoder: quoted datagram padded to the length
    # attribute, header with version 2 and checksum, objects with payloads of every length 0..9): objects must come back unchanged
    import dissect as _D
    for j in range(200 if quick else 4000):
        ent, t, unit, lpos = rng.choice([('ICMP', 3, 4, 5), ('ICMP', 11, 4, 5), ('ICMP', 12, 4, 5), ('ICMPv6', 1, 8, 4), ('ICMPv6', 3, 8, 4)])
        qlen = rng.choice([128, 128, 136, 160])
        quoted = bytes(rng.randrange(1, 256) for _ in range(rng.choice([20, 28, 64, qlen]))).ljust(qlen, b'\0')
        objs = b''.join(struct.pack('>HBB', 4 + len(o), rng.choice([1, 2, 3]), rng.randrange(1, 4)) + o
                        for o in (bytes(rng.randrange(256) for _ in range(rng.randrange(0, 10))) for _ in range(rng.randrange(1, 4))))
        ext = bytes([0x20, 0, 0, 0]) + objs
        ext = ext[:2] + struct.pack('>H', 0xffff - _D.csum16(ext)) + ext[4:]
        hdr = bytearray([t, 0, 0, 0, 0, 0, 0, 0])
        hdr[lpos] = qlen // unit
        b = bytes(hdr) + quoted + ext
        if ent == 'ICMP':
            b = b[:2] + struct.pack('>H', 0xffff - _D.csum16(b)) + b[4:]
        scripts.append(('ie%d' % j, ['parse %s x%s' % (ent, b.hex()), 'ser', 'view', 'rt ' + ent]))
    for j in range(150 if quick else 3000):
        b, _ = PC.ipv6_ext_packet(rng)
        scripts.append(('x6%d' % j, ['parse IPv6 x' + b.hex(), 'ser', 'view', 'rt IPv6']))
    pairs = [c for c in corp if len(c[2].get('stack', [])) == 2 and not c[2].get('fields')]
    for j, (ecls, y, meta, _) in enumerate(pairs):
        scripts.append(('pp%d' % j, ['parse %s x%s' % (ecls, y.hex()), 'ser', 'view', 'rt ' + ecls]))
    for i in range(3000 if quick else 50000):
        ecls, y, meta, _ = corp[rng.randrange(len(corp))]
        r = rng.random()
        if r < 0.35:
            b, e = y, ecls
        elif r < 0.85:
            b, e = PC.mutate(rng, y), ecls
        elif r < 0.93:
            b, e = PC.tcp_segment(rng, wild=False), 'TCP'
        else:
            b, e = PC.mutate(rng, y), rng.choice(entries)
        scripts.append(('r%d' % i, ['parse %s x%s' % (e, b.hex()), 'ser', 'view', 'rt ' + e]))
    h = C.run_harness('h_pkt', scripts)
    ctx.cov['evaluations'] += len(scripts)
    nontriv, seen, reported, kinds = set(), set(), 0, {}
    for sid, lines in scripts:
        lh = [l for l in h.get(sid, []) if not l.startswith('!~')]
        bad = judge(lines, lh)
        if bad is None:
            continue
        if lh[0].count(' | ') >= 1:
            nontriv.add(lines[0])
        if not bad:
            continue
        kf = known(lines, bad, lh)
        if kf:
            ctx.known(kf)
            continue
        key = re.sub(r'x[0-9a-f]+|\d+', 'N', bad[0])[:60]
        kinds[key] = kinds.get(key, 0) + 1
        if key in seen or reported >= 5:
            continue
        seen.add(key)
        reported += 1
        ctx.violation(bad[0][:300], '=== replay\n' + '\n'.join(lines) + '\n--- problems\n' + '\n'.join(bad) + '\n--- C++ output\n' + '\n'.join(l[:600] for l in lh) + '\n')
    ctx.notes['violation_kinds'] = kinds
    ctx.cov['distinct_nontrivial'] = len(nontriv)
    ctx.cov['rule'] = ('valid packets (API-built, serialised by libtins), their mutations, crafted TCP option regions, and cross-entry parses: every accepted input is serialised, '
                       're-parsed with the same entry point and serialised again; the complete getter view (all layers, all fields, raw option lists, payload) after the first serialisation must '
                       'equal the view of the re-parsed packet and, with a non-empty payload, the two serialisations must be identical; non-trivial = distinct accepted multi-layer input')
    ctx.cov['samples'] = [[l[:200] for l in scripts[0][1]], [l[:200] for l in scripts[1][1]]]
    C.obligations_failed(ctx, ok, why, 'theorems of Properties/C03.v no longer check')


def known(lines, bad, lh):
    for key, pred in KNOWN_PREDICATES.items():
        if key in KN and pred(lines, bad, lh):
            return KN[key]
    return None


KNOWN_PREDICATES = {}


def replay(ctx, path):
    C.build_harness('h_pkt')
    lines = C.read_replay(path)
    lh = [l for l in C.run_harness('h_pkt', [('r', lines)]).get('r', []) if not l.startswith('!~')]
    print('\n'.join(l[:300] for l in lh))
    bad = judge(lines, lh)
    if bad:
        ctx.violation(bad[0], open(path).read())
    return ctx.finish()
