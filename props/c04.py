"""C04 — what is set through the API is what a parser of the wire bytes gets back."""
import os, re
import common as C
import pktcommon as PC
import pktgen as G
import c03 as R3

ADDR32 = {('IP', 'src_addr'), ('IP', 'dst_addr'), ('ARP', 'sender_ip_addr'), ('ARP', 'target_ip_addr')}
ADDR48 = {('EthernetII', 'dst_addr'), ('EthernetII', 'src_addr')}
ADDR128 = {('IPv6', 'src_addr'), ('IPv6', 'dst_addr')}


def shown(cls, f, v):
    if (cls, f) in ADDR32:
        return 'x%08x' % v
    if (cls, f) in ADDR48:
        return 'x' + bytes((v >> (8 * ((5 - i) % 8))) & 0xff for i in range(6)).hex()
    if (cls, f) in ADDR128:
        return 'x' + bytes(((v >> (8 * (i % 8))) + i) & 0xff for i in range(16)).hex()
    return str(v)


def judge(lines, lh, stack):
    bad = [l for l in lh if l.startswith('!!')]
    if bad:
        return bad
    # (1) getters reflect the accumulated edits after every step
    last = {}
    for i, l in enumerate(lines):
        t = l.split()
        if t[0] == 'set' and i < len(lh):
            if not lh[i].startswith('P '):
                bad.append('%s failed: %s' % (l, lh[i][:60]))
                return bad
            idx, f, v = int(t[1]), t[2], int(t[3])
            last[(idx, f)] = v
            layers = lh[i][2:].split(' | ')
            for (j, g), val in last.items():
                if j < len(layers):
                    d = dict(x.split('=', 1) for x in layers[j].split(' ')[1:] if '=' in x)
                    cls = layers[j].split(' ')[0]
                    if g in d and d[g] != shown(cls, g, val):
                        bad.append('after "%s": %s.%s reads %s, last value set was %s' % (l, cls, g, d[g], shown(cls, g, val)))
                        return bad
    # (2) through the wire
    try:
        i_ser = lines.index('ser')
    except ValueError:
        return bad
    if len(lh) < i_ser + 3:
        return ['missing output: %s' % [x[:80] for x in lh[i_ser:]]]
    ser, pview, q = lh[i_ser], lh[i_ser + 1], lh[i_ser + 2]
    if not ser.startswith('S '):
        return ['serialize() failed: %s' % ser[:80]]
    if not q.startswith('Q '):
        return ['libtins rejects its own serialization (%s): %s' % (q[:20], ser[:120])]
    s2 = lh[i_ser + 3] if len(lh) > i_ser + 3 else 'S2 0 x'
    fake = [pview, ser, pview, q, s2]
    r = R3.judge(['parse %s x' % stack[0]] + lines[i_ser:], fake)
    return r or []


def run(ctx):
    st, acc = PC.prepare(ctx, ('gen_accessors',))
    ctx.cov['trusted_base'] += ['translate/gen_accessors.py (getter view / setter table regenerated from the headers); harness/h_pkt.cpp',
                                'Model/TcpOpts.v tied by correspondence; all other layers and typed options are judged on the real code only']
    ok, why = C.prove(ctx, 'C04')
    runner_ok = True
    try:
        C.build_runner()
    except C.BuildError as e:
        runner_ok = False; ok = False; why = (why + '\n' + str(e)).strip()
    rng = ctx.rng
    quick = ctx.tier == 'quick'
    PC.tcp_option_correspondence(ctx, rng, 500 if quick else 8000, runner_ok)
    scripts, stacks = [], {}
    for i in range(1500 if quick else 25000):
        lines, meta = G.build(rng, i)
        lines = lines + ['view', 'rt ' + meta['entry_class']]
        scripts.append(('a%d' % i, lines)); stacks['a%d' % i] = meta['stack']
    dflt = [c for c in acc['default_constructible'] if c in acc['from_buffer']]
    outers = [c for c in ('EthernetII', 'Dot1Q', 'SLL', 'SNAP', 'Loopback', 'IP', 'IPv6', 'PPPoE', 'MPLS', 'Dot3', 'LLC', 'UDP', 'IPSecAH', 'VXLAN') if c in dflt]
    k = 0
    for o in outers:
        for inner in dflt:
            if inner in ('PKTAP', 'PPI') or (o == 'VXLAN' and inner != 'EthernetII'):
                continue          # documented as not serializable
            lines = ['new ' + o, 'push ' + inner] + (['set 0 src_addr 167772161'] if o == 'IP' else []) + (['set 0 next_header 253'] if o == 'IPv6' else []) + (['set 1 next_header 253'] if inner == 'IPv6' else []) + ([] if inner == 'STP' else ['raw x0102030405060708']) + ['ser', 'view', 'rt ' + o]
            scripts.append(('p%d' % k, lines)); stacks['p%d' % k] = [o, inner]
            k += 1
    h = C.run_harness('h_pkt', scripts)
    ctx.cov['evaluations'] += len(scripts)
    import json
    pj = os.path.join(C.V, 'corpus', 'C04_pairs.json')
    known_pairs = set(json.load(open(pj))) if os.path.exists(pj) else set()
    pair_result = {}
    nontriv, seen, reported, kinds = set(), set(), 0, {}
    for sid, lines in scripts:
        lh = [l for l in h.get(sid, []) if not l.startswith('!~')]
        bad = judge(lines, lh, stacks[sid])
        if sid.startswith('p'):
            # pair sweep: when libtins has no next-protocol tag for this pair the inner layer legitimately comes back raw;
            # the pairs for which it HAS one are recorded in corpus/C04_pairs.json (a pair must not silently drop out)
            pair = '%s/%s' % tuple(stacks[sid])
            roundtrips = not bad
            pair_result[pair] = roundtrips
            if bad and pair not in known_pairs and not any(x.startswith('!!') for x in bad):
                continue          # libtins has no (working) next-protocol tag for this pair in the recorded baseline
        if len(stacks[sid]) >= 2:
            nontriv.add(tuple(lines))
        if not bad:
            continue
        key = re.sub(r'x[0-9a-f]+|\d+', 'N', bad[0])[:70]
        kinds[key] = kinds.get(key, 0) + 1
        if key in seen or reported >= 5:
            continue
        seen.add(key); reported += 1
        ctx.violation(bad[0][:300], '=== replay\n' + '\n'.join(lines) + '\n--- problems\n' + '\n'.join(bad) + '\n--- C++ output\n' + '\n'.join(l[:500] for l in lh) + '\n')
    ctx.notes['violation_kinds'] = kinds
    ctx.notes['pairs_with_known_tag'] = sum(1 for v in pair_result.values() if v)
    if os.environ.get('VERIF_RECORD_PAIRS'):
        json.dump(sorted(k for k, v in pair_result.items() if v), open(pj, 'w'), indent=0)
    ctx.cov['distinct_nontrivial'] = len(nontriv)
    ctx.cov['rule'] = ('packets assembled through the public API (random stacks, field setters, TCP typed options, payloads) and every (outer, inner) pair of %d default-constructible classes: '
                       'after every setter the getters must show the last value set for every field set so far; the serialization re-parsed by libtins must give the same layers, fields, '
                       'options and payload; non-trivial = distinct multi-layer program' % len(dflt))
    ctx.cov['samples'] = [scripts[0][1], scripts[-1][1]]
    C.obligations_failed(ctx, ok, why, 'theorems of Properties/C04.v no longer check')


def replay(ctx, path):
    C.build_harness('h_pkt')
    lines = C.read_replay(path)
    lh = [l for l in C.run_harness('h_pkt', [('r', lines)]).get('r', []) if not l.startswith('!~')]
    print('\n'.join(l[:300] for l in lh))
    return ctx.finish()
