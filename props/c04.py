"""C04 — what is set through the API is what a parser of the wire bytes gets back."""
import os, re
import struct
import common as C
import pktcommon as PC
import pktgen as G
import c03 as R3

ADDR32 = {('IP', 'src_addr'), ('IP', 'dst_addr'), ('ARP', 'sender_ip_addr'), ('ARP', 'target_ip_addr')}
ADDR48 = {('EthernetII', 'dst_addr'), ('EthernetII', 'src_addr')}
ADDR128 = {('IPv6', 'src_addr'), ('IPv6', 'dst_addr')}


def shown(cls, f, v):
    if (cls, f) in ADDR32:
        return 'x%08x' % v
    if (cls, f) in ADDR48:
        return 'x' + bytes((v >> (8 * ((5 - i) % 8))) & 0xff for i in range(6)).hex()
    if (cls, f) in ADDR128:
        return 'x' + bytes(((v >> (8 * (i % 8))) + i) & 0xff for i in range(16)).hex()
    return str(v)


# what a layer needs before its typed options mean anything on the wire
PREP = {'ICMPv6': ['set 0 type 134'], 'PPPoE': ['set 0 code 9'], 'IP': ['set 0 src_addr 167772161'],      # (an unset IPv4 source is filled in from the routing table)
        ('ICMPv6', 'multicast_address_records'): ['set 0 type 143'], ('ICMPv6', 'sources'): ['set 0 type 130'], ('ICMPv6', 'multicast_addr'): ['set 0 type 130']}


def norm_type(t):
    return re.sub(r'\bconst\b|&|\s+|Tins::', '', t)


# option codes / data lengths / padding codes per option-bearing class (option histories)
OPT_POOLS = {
    'TCP': ([2, 3, 4, 8, 30, 254], [0, 1, 2, 4, 8, 10], {0, 1}),
    'IP': ([7, 0x87, 0x44, 0x83, 0x94, 0x07 | 0x60, 0, 1, 0, 1], [0, 1, 2, 3, 6, 10], {0, 1}),       # END / NOP added through the API too, anywhere in the list
    'DHCP': ([1, 3, 6, 12, 51, 53, 60, 61, 250, 0, 255], [0, 1, 4, 9, 253, 254, 255], {0, 255}),
    'DHCPv6': ([1, 2, 6, 8, 16, 100], [0, 1, 2, 8, 300], set()),
    'ICMPv6': ([1, 2, 3, 5, 14, 25, 100], [6, 14, 22], set()),
    'Dot11Beacon': ([0, 1, 3, 5, 7, 16, 48, 221], [0, 1, 8, 9, 253, 254, 255], set()),
}
TYPED_EXCLUDE = {('BootP', 'vend'), ('DHCP', 'vend')}     # the size of the vendor area is a constructor parameter of the parser, not a property of the packet


def padded_eq(a, b):
    """equal, or equal up to zero bytes appended to byte strings (formats with 4/8-byte granularity pad, and have no inner length)"""
    if a == b:
        return True
    if a is None or b is None:
        return False
    # members called reserved* are not carried by the formats
    a, b = re.sub(r'reserved\w*=[^,{}]*', 'reserved=_', a), re.sub(r'reserved\w*=[^,{}]*', 'reserved=_', b)
    if a == b:
        return True
    ta, tb = re.split(r'([{},;=<>])', a), re.split(r'([{},;=<>])', b)
    if len(ta) != len(tb):
        return False
    for x, y in zip(ta, tb):
        if x == y:
            continue
        if x.startswith('x') and y.startswith('x') and y.startswith(x) and set(y[len(x):]) <= {'0'}:
            continue
        return False
    return True


def typed_verdict(cls, fld, lines, lh, n0):
    """-> (category, message) for a failure, (None, None) for a round trip, (None, 'skip') when the setter refused the value"""
    crash = [l for l in lh if l.startswith('!!')]
    v = lines[-3].split()[3]
    want = lh[n0][2:] if len(lh) > n0 and lh[n0].startswith('V ') else None
    if crash:
        empty = want in ('x', '{}') or (want or '').endswith('={}}') or '={}' in (want or '') or '=x}' in (want or '') or '=x,' in (want or '')
        if 'reference binding to null' in crash[0] and empty:
            return 'ub-empty', '%s.%s(%s): %s (the value holds an empty list/byte string: &v[0] of an empty vector)' % (cls, fld, want, crash[0])
        return 'crash', '%s.%s(%s): %s' % (cls, fld, want, crash[0])
    if len(lh) <= n0 + 1 or not lh[n0 + 1].startswith('P '):
        return None, 'skip'

    def fieldval(line):
        d = dict(x.split('=', 1) for x in line[2:].split(' | ')[0].split(' ')[1:] if '=' in x)
        return d.get(fld)
    got = fieldval(lh[n0 + 1])
    if got is not None and got.startswith('!'):
        return 'getter-throws', '%s.%s: the getter throws (%s) right after the setter accepted %s' % (cls, fld, got, (want or '')[:100])
    if want not in (None, '?') and got is not None and want[0] == got[0] and not padded_eq(want, got):
        return 'set-ne-get', '%s.%s: set %s, the getter returns %s' % (cls, fld, want[:120], got[:120])
    if len(lh) > n0 + 2 and not lh[n0 + 2].startswith('S '):
        return 'ser-fails', '%s.%s: serialize() fails (%s) after the setter accepted %s' % (cls, fld, lh[n0 + 2][:20], (want or '')[:100])
    if len(lh) > n0 + 3:
        q = lh[n0 + 3]
        if not q.startswith('Q '):
            return 'reparse-fails', '%s.%s = %s: libtins rejects its own serialization (%s)' % (cls, fld, (want or '')[:100], q[:20])
        back = fieldval(q)
        if not padded_eq(got, back):
            return 'wire-diff', '%s.%s: %s on the object, %s after serialize + parse' % (cls, fld, (got or '')[:120], (back or '')[:120])
    return None, None


def judge(lines, lh, stack):
    bad = [l for l in lh if l.startswith('!!')]
    if bad:
        return bad
    # (1) getters reflect the accumulated edits after every step
    last = {}
    for i, l in enumerate(lines):
        t = l.split()
        if t[0] == 'set' and i < len(lh):
            if not lh[i].startswith('P '):
                bad.append('%s failed: %s' % (l, lh[i][:60]))
                return bad
            idx, f, v = int(t[1]), t[2], int(t[3])
            last[(idx, f)] = v
            layers = lh[i][2:].split(' | ')
            for (j, g), val in last.items():
                if j < len(layers):
                    d = dict(x.split('=', 1) for x in layers[j].split(' ')[1:] if '=' in x)
                    cls = layers[j].split(' ')[0]
                    if g in d and d[g] != shown(cls, g, val):
                        bad.append('after "%s": %s.%s reads %s, last value set was %s' % (l, cls, g, d[g], shown(cls, g, val)))
                        return bad
    # (2) through the wire
    try:
        i_ser = lines.index('ser')
    except ValueError:
        return bad
    if len(lh) < i_ser + 3:
        return ['missing output: %s' % [x[:80] for x in lh[i_ser:]]]
    ser, pview, q = lh[i_ser], lh[i_ser + 1], lh[i_ser + 2]
    if not ser.startswith('S '):
        return ['serialize() failed: %s' % ser[:80]]
    if not q.startswith('Q '):
        return ['libtins rejects its own serialization (%s): %s' % (q[:20], ser[:120])]
    s2 = lh[i_ser + 3] if len(lh) > i_ser + 3 else 'S2 0 x'
    fake = [pview, ser, pview, q, s2]
    r = R3.judge(['parse %s x' % stack[0]] + lines[i_ser:], fake)
    return r or []


def option_histories(rng, count):
    """add / remove-first / search-first option histories against a shadow list; some are serialized in the middle and then
    edited again (also by replacing an option with another of the same encoded size) before the final serialize + re-parse.
    -> (scripts, meta: sid -> (class, index of the first step line, steps, pad codes))"""
    hscripts, hmeta = [], {}
    for i in range(count):
        cls = rng.choice(sorted(OPT_POOLS))
        codes, lens, pad = OPT_POOLS[cls]
        lines = ['new ' + cls] + PREP.get(cls, [])
        if cls == 'ICMPv6':
            # every message type that carries neighbour-discovery options (router/neighbour solicitation and advertisement, redirect)
            lines = ['new ICMPv6', 'set 0 type %d' % rng.choice([133, 134, 135, 136, 137])]
        base = len(lines)
        shadow, steps = [], []
        budget = 36 if cls in ('TCP', 'IP') else 100000
        phases = rng.choice([1, 1, 2])
        for ph in range(phases):
            for _ in range(rng.randrange(1, 9) if ph == 0 else rng.randrange(1, 4)):
                r = rng.random()
                code = rng.choice(codes)
                if ph == 1 and shadow and r < 0.5:
                    # replace an option by another one of the same encoded size
                    oc, od = rng.choice(shadow)
                    idx = next(j for j, (c, _) in enumerate(shadow) if c == oc)
                    oc, od = shadow[idx]
                    lines.append('ropt 0 %d' % oc)
                    shadow.pop(idx)
                    steps.append(('r', list(shadow), 1))
                    nc = rng.choice([c for c in codes if (c in pad) == (oc in pad)] or [oc])
                    data = bytes(rng.randrange(256) for _ in range(len(od)))
                    lines.append('aopt 0 %d x%s' % (nc, data.hex()))
                    shadow.append((nc, data))
                    steps.append(('a', list(shadow), None))
                elif r < 0.55 or not shadow:
                    ln = 0 if code in pad else rng.choice(lens)
                    if sum(len(d) + 2 for _, d in shadow) + ln + 2 > budget:
                        continue
                    data = bytes(rng.randrange(256) for _ in range(ln))
                    lines.append('aopt 0 %d x%s' % (code, data.hex()))
                    shadow.append((code, data))
                    steps.append(('a', list(shadow), None))
                elif r < 0.8:
                    code = rng.choice([c for c, _ in shadow] + [code])
                    idx = next((j for j, (c, _) in enumerate(shadow) if c == code), None)
                    lines.append('ropt 0 %d' % code)
                    if idx is not None:
                        shadow.pop(idx)
                    steps.append(('r', list(shadow), 1 if idx is not None else 0))
                else:
                    code = rng.choice([c for c, _ in shadow] + [code])
                    hit = next((d for c, d in shadow if c == code), None)
                    lines.append('sopt 0 %d' % code)
                    steps.append(('s', list(shadow), hit))
            if ph + 1 < phases:
                lines.append('ser')
                steps.append(('S', list(shadow), None))
        lines += ['ser', 'rt ' + cls]
        sid = 'o%d' % i
        hscripts.append((sid, lines))
        hmeta[sid] = (cls, base, steps, pad)
    return hscripts, hmeta


def run(ctx):
    st, acc = PC.prepare(ctx, ('gen_accessors',))
    ctx.cov['trusted_base'] += ['translate/gen_accessors.py (getter view / setter table regenerated from the headers); harness/h_pkt.cpp',
                                'Model/TcpOpts.v tied by correspondence; all other layers and typed options are judged on the real code only']
    ok, why = C.prove(ctx, 'C04')
    runner_ok = True
    try:
        C.build_runner()
    except C.BuildError as e:
        runner_ok = False; ok = False; why = (why + '\n' + str(e)).strip()
    rng = ctx.rng
    quick = ctx.tier == 'quick'
    PC.tcp_option_correspondence(ctx, rng, 500 if quick else 8000, runner_ok)
    PC.tlv_correspondence(ctx, rng, 600 if quick else 10000, runner_ok)
    scripts, stacks = [], {}
    for i in range(1500 if quick else 25000):
        lines, meta = G.build(rng, i)
        lines = lines + ['view', 'rt ' + meta['entry_class']]
        scripts.append(('a%d' % i, lines)); stacks['a%d' % i] = meta['stack']
    dflt = [c for c in acc['default_constructible'] if c in acc['from_buffer']]
    outers = [c for c in ('EthernetII', 'Dot1Q', 'SLL', 'SNAP', 'Loopback', 'IP', 'IPv6', 'PPPoE', 'MPLS', 'Dot3', 'LLC', 'UDP', 'IPSecAH', 'VXLAN') if c in dflt]
    k = 0
    for o in outers:
        for inner in dflt:
            if inner in ('PKTAP', 'PPI') or (o == 'VXLAN' and inner != 'EthernetII'):
                continue          # documented as not serializable
            lines = ['new ' + o, 'push ' + inner] + (['set 0 src_addr 167772161'] if o == 'IP' else []) + (['set 0 next_header 253'] if o == 'IPv6' else []) + (['set 1 next_header 253'] if inner == 'IPv6' else []) + ([] if inner == 'STP' else ['raw x0102030405060708']) + ['ser', 'view', 'rt ' + o]
            scripts.append(('p%d' % k, lines)); stacks['p%d' % k] = [o, inner]
            k += 1
    nontriv, seen = set(), set()
    # ---- structured values: every setter whose argument is a struct / byte string / container (typed options, ids, ...) ----
    fl = [l.split() for l in C.run_harness('h_pkt', [('fl', ['fields'])]).get('fl', [])]
    typed = [(t[0], t[1]) for t in fl if len(t) == 4 and t[2] in ('7', '8', '9') and t[0] in dflt and (t[0], t[1]) not in TYPED_EXCLUDE]
    tscripts = []
    for (cls, fld) in typed:
        vals = list(range(0, 24)) + [rng.randrange(1 << 64) for _ in range(8 if quick else 150)]
        prep = PREP.get((cls, fld), PREP.get(cls, []))
        for v in vals:
            tscripts.append(('t%d' % len(tscripts), ['new ' + cls] + prep + ['val 0 %s %d' % (fld, v), 'set 0 %s %d' % (fld, v), 'ser', 'rt ' + cls]))
    th = C.run_harness('h_pkt', tscripts)
    ctx.cov['evaluations'] += len(tscripts)
    tkinds, treported = {}, 0
    tried, accepted = {}, {}
    known, _ = C.load_known('C04')
    known_typed = {}
    for k in known:
        if k['key'].startswith('typed-'):
            m = re.search(r'setters: ([a-z_0-9 ]+)', k['text'])
            for f in (m.group(1).split() if m else []):
                known_typed[(f, k['key'][6:])] = k['text']
    for sid, lines in tscripts:
        lh = [l for l in th.get(sid, []) if not l.startswith('!~')]
        cls, fld = lines[0].split()[1], lines[-3].split()[2]
        n0 = len(lines) - 4                        # index of the 'val' line
        cat, bad = typed_verdict(cls, fld, lines, lh, n0)
        tried[(cls, fld)] = tried.get((cls, fld), 0) + 1
        if cat is None:
            if bad is None:
                nontriv.add((cls, fld, lines[-3]))
                accepted[(cls, fld)] = accepted.get((cls, fld), 0) + 1
            continue
        accepted[(cls, fld)] = accepted.get((cls, fld), 0) + 1
        kshort = '%s %s' % (fld, cat)
        tkinds[kshort] = tkinds.get(kshort, 0) + 1
        if (fld, cat) in known_typed:
            ctx.known(known_typed[(fld, cat)])
            continue
        if kshort in seen or treported >= 8:
            continue
        seen.add(kshort); treported += 1
        ctx.violation(bad[:300], '=== replay\n' + '\n'.join(lines) + '\n--- ' + bad + '\n--- C++ output\n' + '\n'.join(l[:600] for l in lh) + '\n')
    ctx.notes['typed_setters_swept'] = len(typed)
    ctx.notes['typed_failure_kinds'] = tkinds
    ctx.notes['typed_setters_never_accepting_a_generated_value'] = sorted('%s.%s' % k for k in tried if not accepted.get(k))
    # ---- option histories: add / remove-first / search-first against a shadow list, then through the wire ----
    hscripts, hmeta = option_histories(rng, 600 if quick else 12000)
    hh = C.run_harness('h_pkt', hscripts)
    ctx.cov['evaluations'] += len(hscripts)
    optre = re.compile(r'\((\d+),(\d+),x([0-9a-f]*)\)')

    def opts_of(view_line):
        m = re.search(r' options=\{([^}]*)\}', view_line.split(' | ')[0])
        return [(int(a), bytes.fromhex(c)) for a, b, c in optre.findall(m.group(1))] if m else None
    for sid, lines in hscripts:
        cls, base, steps, pad = hmeta[sid]
        lh = [l for l in hh.get(sid, []) if not l.startswith('!~')]
        bad = None
        crash = [l for l in lh if l.startswith('!!')]
        if crash:
            bad = '%s option history: %s' % (cls, crash[0])
        else:
            for j, (kind, sh, res) in enumerate(steps):
                l = lh[base + j] if base + j < len(lh) else '<missing>'
                if kind == 'S':
                    if not l.startswith('S '):
                        bad = '%s: serialize after %s fails: %s' % (cls, lines[base:base + j][-3:], l[:60])
                        break
                    continue
                if kind == 's':
                    want = 'O 1 x' + res.hex() if res is not None else 'O 0'
                    if l.strip() != want:
                        bad = '%s: after %s, "%s" answers %s, the first matching option is %s' % (cls, lines[base:base + j], lines[base + j], l[:60], want[:60])
                        break
                    continue
                if not l.startswith('P '):
                    bad = '%s: "%s" fails: %s' % (cls, lines[base + j], l[:60])
                    break
                if kind == 'r' and l.split()[1] != str(res):
                    bad = '%s: "%s" returned %s, expected %d' % (cls, lines[base + j], l.split()[1], res)
                    break
                got = opts_of(l)
                if got != sh:
                    bad = '%s: after "%s" the options are %s, expected %s' % (cls, lines[base + j], [(c, d.hex()[:12]) for c, d in (got or [])][:6], [(c, d.hex()[:12]) for c, d in sh][:6])
                    break
            else:
                n = base + len(steps)
                if len(lh) > n + 1 and lh[n].startswith('S ') and lh[n + 1].startswith('Q '):
                    back = [o for o in (opts_of(lh[n + 1]) or []) if o[0] not in pad]
                    full = list(steps[-1][1] if steps else [])
                    if cls in ('IP', 'TCP') and any(o[0] == 0 for o in full):
                        full = full[:next(j for j, o in enumerate(full) if o[0] == 0)]       # End of Option List: a reader stops there
                    final = [o for o in full if o[0] not in pad]
                    if back != final:
                        bad = '%s: options %s come back from the wire as %s' % (cls, [(c, len(d)) for c, d in final][:8], [(c, len(d)) for c, d in back][:8])
                    else:
                        nontriv.add(tuple(lines))
                elif len(lh) > n:
                    bad = '%s: serialize/re-parse after an option history fails: %s' % (cls, [x[:30] for x in lh[n:n + 2]])
        if bad:
            kshort = re.sub(r'x[0-9a-f]+|\d+', 'N', bad)[:60]
            if kshort in seen:
                continue
            seen.add(kshort)
            ctx.violation(bad[:400], '=== replay\n' + '\n'.join(lines) + '\n--- ' + bad + '\n--- C++ output\n' + '\n'.join(l[:400] for l in lh) + '\n')
    # ---- list-valued members with their own add / remove-first API (RTP CSRC identifiers, extension words): histories with
    #      repeated values against a shadow list, then through the wire in front of a payload ----
    ls = []
    for i in range(300 if quick else 6000):
        shadow = {'csrc': [], 'ext': []}
        lines, steps = ['new RTP'], []
        pool = rng.choice([[1, 2, 3], [7, 7, 9, 0xdeadbeef], [0, 1, 0xffffffff]])
        for _ in range(rng.randrange(1, 12)):
            which = rng.choice(['csrc', 'ext'])
            v = rng.choice(pool)
            if rng.random() < 0.6 or not shadow[which]:
                if which == 'csrc' and len(shadow[which]) >= 15:
                    continue
                lines.append('ladd 0 %s %d' % (which, v)); shadow[which].append(v); steps.append((1, list(shadow['csrc']), list(shadow['ext'])))
            else:
                v = rng.choice(shadow[which] + [v])
                r = 1 if v in shadow[which] else 0
                if r:
                    shadow[which].remove(v)
                lines.append('lrem 0 %s %d' % (which, v)); steps.append((r, list(shadow['csrc']), list(shadow['ext'])))
        pl = bytes(rng.randrange(256) for _ in range(rng.choice([4, 8, 13])))
        lines += ['raw x' + pl.hex(), 'ser', 'rt RTP']
        ls.append(('l%d' % i, lines, steps, pl))
    lhh = C.run_harness('h_pkt', [(a_, b_) for a_, b_, _, _ in ls])
    ctx.cov['evaluations'] += len(ls)

    def lists_of(view_line):
        first = view_line.split(' | ')[0]
        out = []
        for nm in ('csrc_ids', 'extension_data'):
            m = re.search(r' %s=\{([^}]*)\}' % nm, first)
            if not m:
                return None
            # the accessors hand out the stored words, which are in network byte order (the unit tests pin this): swapped back here
            out.append([struct.unpack('<I', struct.pack('>I', int(x)))[0] for x in m.group(1).split(';') if x != ''])
        return out
    for sid, lines, steps, pl in ls:
        lh = [l for l in lhh.get(sid, []) if not l.startswith('!~')]
        bad = None
        if any(l.startswith('!!') for l in lh):
            bad = 'RTP list history: %s' % [l for l in lh if l.startswith('!!')][0]
        else:
            for j, (r, cs, ex) in enumerate(steps):
                l = lh[1 + j] if 1 + j < len(lh) else '<missing>'
                t = l.split(' ', 2)
                if t[0] != 'P' or len(t) < 3:
                    bad = 'RTP: "%s" fails: %s' % (lines[1 + j], l[:60]); break
                if t[1] != str(r):
                    bad = 'RTP: "%s" after %s returned %s, expected %d' % (lines[1 + j], lines[1:1 + j], t[1], r); break
                got = lists_of('P ' + t[2])
                if got != [cs, ex]:
                    bad = 'RTP: after %s the CSRC ids / extension words are %s, expected %s' % (lines[1:2 + j], got, [cs, ex]); break
                if ' csrc_count=%d ' % len(cs) not in t[2] or ' extension_length=%d ' % len(ex) not in t[2]:
                    bad = 'RTP: after %s csrc_count / extension_length disagree with the %d CSRC ids and %d extension words held' % (lines[1:2 + j], len(cs), len(ex)); break
            else:
                n = 1 + len(steps) + 1
                if len(lh) > n + 1 and lh[n].startswith('S ') and lh[n + 1].startswith('Q '):
                    back = lists_of(lh[n + 1])
                    final = [steps[-1][1], steps[-1][2]]
                    if back != final:
                        bad = 'RTP: CSRC ids / extension words %s come back from the wire as %s (history %s)' % (final, back, lines[1:-3])
                    elif ('payload=x' + pl.hex()) not in lh[n + 1]:
                        bad = 'RTP: after the history %s the payload does not come back from the wire: %s' % (lines[1:-3], lh[n + 1][-80:])
                    else:
                        nontriv.add(tuple(lines))
                else:
                    bad = 'RTP: serialize/re-parse after a list history fails: %s' % [x[:40] for x in lh[n:n + 2]]
        if bad:
            kshort = re.sub(r'x[0-9a-f]+|\d+', 'N', bad)[:40]
            if kshort not in seen:
                seen.add(kshort)
                ctx.violation(bad[:400], '=== replay\n' + '\n'.join(lines) + '\n--- ' + bad + '\n--- C++ output\n' + '\n'.join(l[:400] for l in lh) + '\n')
    # ---- IPv6 extension headers added through the API, every data length 0..24, in front of UDP ----
    xs = []
    for n in range(0, 25):
        for rep in range(2 if quick else 12):
            hdrs = [(rng.choice([0, 43, 60, 51]) if j or rng.random() < 0.5 else 0, bytes(rng.randrange(256) for _ in range(n if j == 0 else rng.randrange(0, 25)))) for j in range(rng.choice([1, 1, 2, 3]))]
            hdrs = [(t if (t != 0 or j == 0) else 60, d) for j, (t, d) in enumerate(hdrs)]
            pl = bytes(rng.randrange(256) for _ in range(rng.choice([1, 8, 33])))
            lines = ['new IPv6'] + ['ext6 0 %d x%s' % (t, d.hex()) for t, d in hdrs] + ['push UDP', 'set 1 sport 1234', 'set 1 dport 53', 'raw x' + pl.hex(), 'ser', 'rt IPv6']
            xs.append(('x%d' % len(xs), lines, hdrs, pl))
    xh = C.run_harness('h_pkt', [(a, b) for a, b, _, _ in xs])
    ctx.cov['evaluations'] += len(xs)
    for sid, lines, hdrs, pl in xs:
        lh = [l for l in xh.get(sid, []) if not l.startswith('!~')]
        bad = None
        if any(l.startswith('!!') for l in lh):
            bad = 'IPv6 extension headers: %s' % [l for l in lh if l.startswith('!!')][0]
        elif len(lh) < 2 or not lh[-2].startswith('Q '):
            bad = 'IPv6 with extension headers %s: serialize/re-parse fails: %s' % ([(t, len(d)) for t, d in hdrs], [x[:30] for x in lh[-2:]])
        else:
            q = lh[-2]
            m = re.search(r' headers=\{([^}]*)\}', q.split(' | ')[0])
            got = [(int(a), bytes.fromhex(c)) for a, b, c in re.findall(r'\((\d+),(\d+),x([0-9a-f]*)\)', m.group(1))] if m else None
            want = [(t, d + bytes((-(len(d) + 2)) % 8)) for t, d in hdrs]
            layers = [x.split(' ')[0] for x in q[2:].split(' | ')]
            if got != want:
                bad = 'IPv6 extension headers %s come back from the wire as %s' % ([(t, d.hex()) for t, d in want], [(t, d.hex()) for t, d in (got or [])])
            elif layers != ['IPv6', 'UDP', 'RawPDU'] or ('payload=x' + pl.hex()) not in q:
                bad = 'IPv6 with extension headers %s: the layers behind them come back as %s' % ([(t, len(d)) for t, d in hdrs], layers)
            else:
                nontriv.add(tuple(lines))
        if bad:
            kshort = re.sub(r'x[0-9a-f]+|\d+', 'N', bad)[:60]
            if kshort not in seen:
                seen.add(kshort)
                ctx.violation(bad[:400], '=== replay\n' + '\n'.join(lines) + '\n--- ' + bad + '\n--- C++ output\n' + '\n'.join(l[:400] for l in lh) + '\n')
    # ---- RSN information element (a value with two lists of its own): every combination of 0..3 pairwise and 0..3 AKM suites through
    # Dot11ManagementFrame::rsn_information, the element on the wire against IEEE 802.11 9.4.2.25 written out here, and back through the parser ----
    CY = [0x01ac0f00, 0x02ac0f00, 0x04ac0f00, 0x05ac0f00]
    AK = [0x01ac0f00, 0x02ac0f00]
    rs = []
    for npw in range(0, 4):
        for nak in range(0, 4):
            for rep in range(2 if quick else 10):
                ver, grp, caps = rng.choice([1, 1, rng.randrange(65536)]), rng.choice(CY), rng.randrange(65536)
                pw = [rng.choice(CY) for _ in range(npw)]; ak = [rng.choice(AK) for _ in range(nak)]
                body = struct.pack('<HI', ver, grp) + struct.pack('<H', npw) + b''.join(struct.pack('<I', x) for x in pw) + \
                    struct.pack('<H', nak) + b''.join(struct.pack('<I', x) for x in ak) + struct.pack('<H', caps)
                cls = rng.choice(['Dot11Beacon', 'Dot11ProbeResponse', 'Dot11AssocRequest'])
                lines = ['new ' + cls, 'rsn 0 %d %d %d %s %s' % (ver, grp, caps, ','.join(map(str, pw)) or '-', ','.join(map(str, ak)) or '-'), 'rsnget 0', 'ser']
                want = 'R %d %d %d p%s a%s' % (ver, grp, caps, ('=' + ','.join(map(str, pw))) if pw else '', ('=' + ','.join(map(str, ak))) if ak else '')
                rs.append(('n%d' % len(rs), lines, body, want, cls))
    rh = C.run_harness('h_pkt', [(a_, b_) for a_, b_, _, _, _ in rs])
    ctx.cov['evaluations'] += len(rs)
    rs2 = []
    for sid, lines, body, want, cls in rs:
        lh = [l for l in rh.get(sid, []) if not l.startswith('!~')]
        bad = None
        elem = bytes([48, len(body)]) + body
        if any(l.startswith('!!') for l in lh):
            bad = 'RSN information: %s' % [l for l in lh if l.startswith('!!')][0]
        elif len(lh) < 4 or not lh[3].startswith('S '):
            bad = 'RSN information: set / serialize fails: %s' % [x[:60] for x in lh[1:]]
        elif lh[2].strip() != want:
            bad = 'RSN information: set %s, rsn_information() returns %s' % (want, lh[2].strip())
        else:
            y = bytes.fromhex(lh[3].split()[2][1:])
            if not y.endswith(elem):
                bad = 'RSN information %s is on the wire as ...%s, IEEE 802.11 9.4.2.25 says %s' % (want, y[-len(elem) - 2:].hex(), elem.hex())
            else:
                rs2.append(('w' + sid, ['parse %s x%s' % (cls, y.hex()), 'rsnget 0'], want))
                nontriv.add(tuple(lines))
        if bad:
            kshort = re.sub(r'x[0-9a-f]+|\d+', 'N', bad)[:50]
            if kshort not in seen:
                seen.add(kshort)
                ctx.violation(bad[:400], '=== replay\n' + '\n'.join(lines) + '\n--- ' + bad + '\n--- C++ output\n' + '\n'.join(l[:400] for l in lh) + '\n')
    rh2 = C.run_harness('h_pkt', [(a_, b_) for a_, b_, _ in rs2])
    ctx.cov['evaluations'] += len(rs2)
    for sid, lines, want in rs2:
        lh = [l for l in rh2.get(sid, []) if not l.startswith('!~')]
        if len(lh) < 2 or lh[1].strip() != want:
            bad = 'RSN information %s, written as specified, comes back from the wire as %s' % (want, [x[:80] for x in lh[1:]])
            kshort = re.sub(r'x[0-9a-f]+|\d+', 'N', bad)[:50]
            if kshort not in seen:
                seen.add(kshort)
                ctx.violation(bad[:400], '=== replay\n' + '\n'.join(lines) + '\n--- ' + bad + '\n--- C++ output\n' + '\n'.join(l[:400] for l in lh) + '\n')
    h = C.run_harness('h_pkt', scripts)
    ctx.cov['evaluations'] += len(scripts)
    import json
    pj = os.path.join(C.V, 'corpus', 'C04_pairs.json')
    known_pairs = set(json.load(open(pj))) if os.path.exists(pj) else set()
    pair_result = {}
    reported, kinds = 0, {}
    for sid, lines in scripts:
        lh = [l for l in h.get(sid, []) if not l.startswith('!~')]
        bad = judge(lines, lh, stacks[sid])
        if sid.startswith('p'):
            # pair sweep: when libtins has no next-protocol tag for this pair the inner layer legitimately comes back raw;
            # the pairs for which it HAS one are recorded in corpus/C04_pairs.json (a pair must not silently drop out)
            pair = '%s/%s' % tuple(stacks[sid])
            roundtrips = not bad
            pair_result[pair] = roundtrips
            if bad and pair not in known_pairs and not any(x.startswith('!!') for x in bad):
                continue          # libtins has no (working) next-protocol tag for this pair in the recorded baseline
        if len(stacks[sid]) >= 2:
            nontriv.add(tuple(lines))
        if not bad:
            continue
        key = re.sub(r'x[0-9a-f]+|\d+', 'N', bad[0])[:70]
        kinds[key] = kinds.get(key, 0) + 1
        if key in seen or reported >= 5:
            continue
        seen.add(key); reported += 1
        ctx.violation(bad[0][:300], '=== replay\n' + '\n'.join(lines) + '\n--- problems\n' + '\n'.join(bad) + '\n--- C++ output\n' + '\n'.join(l[:500] for l in lh) + '\n')
    ctx.notes['violation_kinds'] = kinds
    ctx.notes['pairs_with_known_tag'] = sum(1 for v in pair_result.values() if v)
    if os.environ.get('VERIF_RECORD_PAIRS'):
        json.dump(sorted(k for k, v in pair_result.items() if v), open(pj, 'w'), indent=0)
    ctx.cov['distinct_nontrivial'] = len(nontriv)
    ctx.cov['rule'] = ('packets assembled through the public API (random stacks, field setters, TCP typed options, payloads) and every (outer, inner) pair of %d default-constructible classes: '
                       'after every setter the getters must show the last value set for every field set so far; the serialization re-parsed by libtins must give the same layers, fields, '
                       'options and payload; non-trivial = distinct multi-layer program' % len(dflt))
    ctx.cov['samples'] = [scripts[0][1], scripts[-1][1]]
    C.obligations_failed(ctx, ok, why, 'theorems of Properties/C04.v no longer check')


def replay(ctx, path):
    C.build_harness('h_pkt')
    lines = C.read_replay(path)
    lh = [l for l in C.run_harness('h_pkt', [('r', lines)]).get('r', []) if not l.startswith('!~')]
    print('\n'.join(l[:300] for l in lh))
    return ctx.finish()
