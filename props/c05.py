"""C05 — fields libtins derives are correct on the wire for independent decoders."""
import os, struct
import common as C
import dissect as D
import pktgen as G


def v6bytes(v):
    return bytes(((v >> (8 * (i % 8))) + i) & 0xff for i in range(16))


def check_values(meta, layers):
    """the dissector must see the values that were set"""
    bad = []
    want = {}
    for cls, vals in meta['fields']:
        want.setdefault(cls, []).append(vals)
    got = {}
    for name, d in layers:
        got.setdefault(name, []).append(d)
    def cmp(cls, name, mapping):
        for i, vals in enumerate(want.get(cls, [])):
            if i >= len(got.get(name, [])):
                bad.append('dissector finds no %s layer #%d' % (name, i))
                return
            g = got[name][i]
            for f, key, conv in mapping:
                if f in vals and conv(vals[f]) != g.get(key):
                    bad.append('%s.%s was set to %s but the wire says %s' % (cls, f, conv(vals[f]), g.get(key)))
    cmp('EthernetII', 'eth', [('dst_addr', 'dst', lambda v: v.to_bytes(8, 'big')[2:].hex()), ('src_addr', 'src', lambda v: v.to_bytes(8, 'big')[2:].hex())])
    cmp('Dot1Q', 'dot1q', [('priority', 'prio', int), ('cfi', 'cfi', int), ('id', 'id', int)])
    cmp('IP', 'ip', [('ttl', 'ttl', int), ('id', 'id', int), ('src_addr', 'src', lambda v: '%08x' % v), ('dst_addr', 'dst', lambda v: '%08x' % v)])
    cmp('IPv6', 'ipv6', [('hop_limit', 'hop', int), ('src_addr', 'src', lambda v: v6bytes(v).hex()), ('dst_addr', 'dst', lambda v: v6bytes(v).hex())])
    cmp('TCP', 'tcp', [('sport', 'sport', int), ('dport', 'dport', int), ('seq', 'seq', int), ('ack_seq', 'ack', int), ('window', 'win', int)])
    cmp('UDP', 'udp', [('sport', 'sport', int), ('dport', 'dport', int)])
    # the layer sequence itself (next-protocol tags name what follows)
    names = {'EthernetII': 'eth', 'Dot1Q': 'dot1q', 'IP': 'ip', 'IPv6': 'ipv6', 'TCP': 'tcp', 'UDP': 'udp', 'ICMP': 'icmp', 'ICMPv6': 'icmpv6', 'SLL': 'sll', 'Loopback': 'loopback'}
    exp = [names[c] for c in meta['stack']]
    seen = [n for n, _ in layers if n not in ('raw', 'ipv6ext')]
    if seen != exp:
        bad.append('layers on the wire %s, layers built %s (a next-protocol tag does not name the layer that follows)' % (seen, exp))
    if meta['payload']:
        raws = [d for n, d in layers if n == 'raw']
        if not raws or raws[-1].get('bytes', meta['payload'].hex()) != meta['payload'].hex():
            bad.append('payload bytes differ on the wire')
    return bad


def run(ctx):
    st = C.run_translators(('gen_tables',))
    ctx.notes['tables'] = st['gen_tables']
    ctx.cov['trusted_base'] += ['translate/gen_tables.py (crc_table regenerated each run); Model/Checksum.v hand-written, tied by correspondence on sum_range/crc32 and on the check words of real serialisations',
                                'gen/dissect.py: independent dissector written from the RFCs (reading of the standards); zlib.crc32 as the CRC-32 reference',
                                'extraction: ExtrOcamlBasic only; harness/h_pkt.cpp']
    ok, why = C.prove(ctx, 'C05')
    runner_ok = True
    try:
        C.build_runner()
    except C.BuildError as e:
        runner_ok = False; ok = False; why = (why + '\n' + str(e)).strip()
    C.build_harness('h_pkt', extra_src=[os.path.join(C.BUILD, 'accessors_gen.h')] if os.path.exists(os.path.join(C.BUILD, 'accessors_gen.h')) else ())
    rng = ctx.rng
    quick = ctx.tier == 'quick'
    # (1) correspondence of the checksum kernels on byte strings aimed at the fold boundaries
    sums = []
    for i in range(600 if quick else 8000):
        n = rng.choice([0, 1, 2, 3, 4, 5, 19, 20, 21, 64, 65, 1499, 1500]) if rng.random() < 0.7 else rng.randrange(0, 400)
        k = rng.random()
        if k < 0.3:
            b = bytes([0xff] * n)
        elif k < 0.4:
            b = bytes(n)
        elif k < 0.5:
            b = bytes([0xff, 0xfe] * (n // 2)) + bytes([1] * (n % 2))
        else:
            b = bytes(rng.randrange(256) for _ in range(n))
        sums.append(('k%d' % i, ['sum x' + b.hex()]))
    h = C.run_harness('h_pkt', sums)
    m = C.run_model('sum', sums) if runner_ok else {}
    nbad = 0
    for sid, lines in sums:
        lh = [l for l in h.get(sid, []) if not l.startswith('!~')]
        b = bytes.fromhex(lines[0].split()[1][1:])
        # independent expectation: RFC 1071 big-endian sum, byte-swapped into libtins' native-word convention
        be = D.csum16(b) if b else 0
        import zlib
        exp_crc = zlib.crc32(b) & 0xffffffff
        if not lh or not lh[0].startswith('K '):
            ctx.violation('checksum kernels crashed on %s: %s' % (lines[0][:80], lh), '=== replay\n%s\n' % lines[0]); nbad += 1
            continue
        t = lh[0].split()
        sr, crc = int(t[1]), int(t[3])
        swapped = ((sr & 0xff) << 8) | (sr >> 8)
        if b and (swapped % 65535) != (be % 65535):
            ctx.violation('Utils::sum_range disagrees with the RFC 1071 sum on %s' % lines[0][:80], '=== replay\n%s\n--- C++ %s, big-endian reference sum %d\n' % (lines[0], lh[0], be)); nbad += 1
        if crc != exp_crc:
            ctx.violation('Utils::crc32 = %d but CRC-32 = %d on %s' % (crc, exp_crc, lines[0][:80]), '=== replay\n%s\n' % lines[0]); nbad += 1
        if runner_ok and ['K ' + m.get(sid, ['?'])[0]] != lh[:1]:
            ctx.violation('correspondence Model.Checksum <-> C++ broken on %s: model "%s" C++ "%s"' % (lines[0][:60], m.get(sid), lh[:1]),
                          '=== replay\n%s\n' % lines[0], has_input=False); nbad += 1
        if nbad > 4:
            break
    ctx.cov['evaluations'] += len(sums)
    # (2) API-built packets through the independent dissector
    scripts, metas = [], {}
    for i in range(1500 if quick else 25000):
        lines, meta = G.build_udp_zero(rng, i) if i % 25 == 7 else (G.build_udp_zero6(rng, i) if i % 25 == 8 else G.build(rng, i))
        scripts.append(('p%d' % i, lines))
        metas['p%d' % i] = meta
    h = C.run_harness('h_pkt', scripts)
    ctx.cov['evaluations'] += len(scripts)
    nontriv = set()
    reported = 0
    seen = set()
    ck_cases = []
    for sid, lines in scripts:
        lh = [l for l in h.get(sid, []) if not l.startswith('!~')]
        meta = metas[sid]
        crash = [l for l in lh if l.startswith('!!')]
        last = lh[-1] if lh else ''
        bad = []
        if crash:
            bad = crash
        elif not last.startswith('S '):
            bad = ['serialize() failed: %s' % last]
        else:
            t = last.split()
            y = bytes.fromhex(t[2][1:])
            if len(y) > 65535:
                continue
            layers, probs = D.dissect(meta['entry'], y)
            bad = probs + check_values(meta, layers)
            if len(layers) >= 3:
                nontriv.add(tuple(lines))
            ck_cases.append((meta, y))
        if bad and reported < 4:
            key = bad[0][:40]
            if key in seen:
                continue
            seen.add(key)
            reported += 1
            ctx.violation('independent dissector: ' + bad[0], '=== replay\n' + '\n'.join(lines) + '\n--- problems\n' + '\n'.join(bad) + '\n--- C++ output\n' + '\n'.join(lh[-2:]) + '\n')
    # (3) IPv6 extension-header chains: the next-header values are derived on serialisation and must name the headers that follow
    import struct as _st

    def chain_of(b):
        nh, off, out = b[6], 40, []
        while nh in (0, 43, 60, 51) and off + 8 <= len(b):
            out.append(nh)
            nh, off = b[off], off + 8 * (b[off + 1] + 1)
        return out + [nh], off

    xs = []
    for i in range(150 if quick else 3000):
        k = rng.choice([1, 2, 2, 3, 3])
        types = [rng.choice([0, 43, 60, 51]) for _ in range(k)]
        if 0 in types:
            types = [0] + [t for t in types if t != 0][:k - 1]          # hop-by-hop goes first
        l4p = rng.choice([17, 6])
        pl = bytes(rng.randrange(256) for _ in range(rng.choice([0, 1, 8, 33])))
        src, dst = bytes(rng.randrange(256) for _ in range(16)), bytes(rng.randrange(256) for _ in range(16))
        l4 = (_st.pack('>HHHH', 1234, 53, 8 + len(pl), 0) + pl) if l4p == 17 else (_st.pack('>HHIIBBHHH', 1234, 80, 1, 2, 0x50, 0x18, 100, 0, 0) + pl)
        ck = 0xffff - D.csum16(src + dst + _st.pack('>IHBB', len(l4), 0, 0, l4p) + l4)
        ck = ck or 0xffff
        l4 = l4[:6] + _st.pack('>H', ck) + l4[8:] if l4p == 17 else l4[:16] + _st.pack('>H', ck) + l4[18:]
        ext = b''
        for j, t in enumerate(types):
            nxt = types[j + 1] if j + 1 < len(types) else l4p
            n8 = rng.choice([0, 0, 1]) if t != 51 else rng.choice([1, 2, 4])
            body = bytes([1, 6 + 8 * n8 - 2]) + bytes(6 + 8 * n8 - 2) if t != 43 else bytes([0, 0]) + bytes(4 + 8 * n8)
            ext += bytes([nxt, n8]) + body[:6 + 8 * n8]
        b = _st.pack('>IHBB', 6 << 28, len(ext) + len(l4), types[0], 64) + src + dst + ext + l4
        xs.append(('x%d' % i, ['parse IPv6 x' + b.hex(), 'ser'], b, types + [l4p]))
    xh = C.run_harness('h_pkt', [(sid, lines) for sid, lines, _, _ in xs])
    ctx.cov['evaluations'] += len(xs)
    for sid, lines, b, want in xs:
        lh = [l for l in xh.get(sid, []) if not l.startswith('!~')]
        if not lh or not lh[0].startswith('P ') or not lh[-1].startswith('S '):
            bad = 'IPv6 packet with extension headers %s: %s' % (want[:-1], (lh[-1] if lh else '<none>')[:80])
        else:
            y = bytes.fromhex(lh[-1].split()[2][1:])
            got, off = chain_of(y)
            bad = None
            if got != want:
                bad = 'IPv6 next-header chain on the wire is %s, the packet that was parsed had %s' % (got, want)
            elif D.csum16(y[8:40] + _st.pack('>IHBB', len(y) - off, 0, 0, got[-1]) + y[off:]) != 0xffff:
                bad = 'transport checksum behind IPv6 extension headers %s does not verify' % want[:-1]
            else:
                nontriv.add(tuple(lines))
        if bad and reported < 6 and bad[:40] not in seen:
            seen.add(bad[:40]); reported += 1
            ctx.violation('independent dissector: ' + bad, '=== replay\n' + '\n'.join(lines) + '\n--- ' + bad + '\n--- C++ output\n' + '\n'.join(l[:300] for l in lh[-2:]) + '\n')
    # (4) RFC 4884 extension structures built through the API (one to four objects, payloads of every length 0..9, so objects of odd
    #     size in front of others): the structure's own checksum, the length field locating it, the objects, and the outer checksum
    es = []
    for i in range(120 if quick else 2500):
        cls, ty = rng.choice([('ICMP', 3), ('ICMP', 11), ('ICMP', 12), ('ICMPv6', 1), ('ICMPv6', 3)])
        objs = [bytes(rng.randrange(256) for _ in range(rng.randrange(0, 10))) for _ in range(rng.randrange(1, 5))]
        quoted = bytes(rng.randrange(1, 256) for _ in range(rng.choice([1, 20, 28, 127, 128, 129, 140])))          # an error message always quotes the offending datagram
        lines = ['new ' + cls, 'set 0 type %d' % ty] + ['icmpext 0 x' + o.hex() for o in objs] + (['raw x' + quoted.hex()] if quoted else []) + ['ser']
        es.append(('e%d' % i, lines, cls, objs, quoted))
    eh = C.run_harness('h_pkt', [(sid, lines) for sid, lines, _, _, _ in es])
    ctx.cov['evaluations'] += len(es)
    for sid, lines, cls, objs, quoted in es:
        lh = [l for l in eh.get(sid, []) if not l.startswith('!~')]
        bad = None
        if not lh or not lh[-1].startswith('S '):
            bad = '%s with %d extension objects: %s' % (cls, len(objs), (lh[-1] if lh else '<none>')[:80])
        else:
            y = bytes.fromhex(lh[-1].split()[2][1:])
            unit = 4 if cls == 'ICMP' else 8
            ln = (y[5] if cls == 'ICMP' else y[4]) * unit
            if ln == 0 and len(quoted) <= 128:
                ln = 128          # RFC 4884 section 5.5 compatibility: no length attribute, the structure sits behind 128 octets
            ext = y[8 + ln:]
            if cls == 'ICMP' and D.csum16(y) != 0xffff:
                bad = 'ICMP checksum of a message with extensions does not verify'
            elif ln < max(128, len(quoted)) or y[8:8 + len(quoted)] != quoted or any(y[8 + len(quoted):8 + ln]):
                bad = '%s length field %d does not locate the zero-padded quoted datagram (%d octets quoted)' % (cls, ln, len(quoted))
            elif len(ext) < 4 or ext[0] >> 4 != 2:
                bad = '%s: no RFC 4884 extension header behind the %d octets the length field announces' % (cls, ln)
            elif D.csum16(ext) != 0xffff:
                bad = '%s extension structure checksum does not verify (objects of %s octets)' % (cls, [len(o) for o in objs])
            else:
                off, got = 4, []
                while off + 4 <= len(ext):
                    ol = _st.unpack('>H', ext[off:off + 2])[0]
                    if ol < 4 or off + ol > len(ext):
                        got = None
                        break
                    got.append(ext[off + 4:off + ol]); off += ol
                if got != objs:
                    bad = '%s extension objects on the wire %s, objects added %s' % (cls, None if got is None else [g.hex() for g in got], [o.hex() for o in objs])
                else:
                    nontriv.add(tuple(lines))
        if bad and reported < 8 and bad[:40] not in seen:
            seen.add(bad[:40]); reported += 1
            ctx.violation('independent dissector: ' + bad, '=== replay\n' + '\n'.join(lines) + '\n--- ' + bad + '\n--- C++ output\n' + '\n'.join(l[:300] for l in lh[-2:]) + '\n')
    # (5) PPPoE under Ethernet: the EtherType is derived from the PPPoE stage (RFC 2516: 0x8863 for the discovery codes PADI/PADO/PADR/
    #     PADS/PADT, 0x8864 for session data, code 0), whatever the session identifier; the payload length field covers tags / payload
    ps = []
    for i in range(100 if quick else 2000):
        code = rng.choice([0, 0, 0x09, 0x07, 0x19, 0x65, 0xa7])
        sess = rng.choice([0, 0, 1, 0x1234, 0xffff, rng.randrange(65536)])
        tags = [(rng.choice([0x0101, 0x0102, 0x0103, 0x0104]), bytes(rng.randrange(256) for _ in range(rng.choice([0, 1, 4, 9])))) for _ in range(rng.randrange(0, 3))] if code else []
        pl = bytes(rng.randrange(256) for _ in range(rng.choice([1, 2, 8, 40]))) if not code else b''
        lines = ['new EthernetII', 'push PPPoE', 'set 1 code %d' % code, 'set 1 session_id %d' % sess]
        lines += ['aopt 1 %d x%s' % (((t & 0xff) << 8) | (t >> 8), d.hex()) for t, d in tags] + (['raw x' + pl.hex()] if pl else []) + ['ser']
        ps.append(('q%d' % i, lines, code, sess, tags, pl))
    ph = C.run_harness('h_pkt', [(sid, lines) for sid, lines, _, _, _, _ in ps])
    ctx.cov['evaluations'] += len(ps)
    for sid, lines, code, sess, tags, pl in ps:
        lh = [l for l in ph.get(sid, []) if not l.startswith('!~')]
        bad = None
        if not lh or not lh[-1].startswith('S '):
            bad = 'EthernetII/PPPoE code %d: %s' % (code, (lh[-1] if lh else '<none>')[:80])
        else:
            y = bytes.fromhex(lh[-1].split()[2][1:])
            et = _st.unpack('>H', y[12:14])[0]
            body = b''.join(_st.pack('>HH', t, len(d)) + d for t, d in tags) + pl
            if et != (0x8864 if code == 0 else 0x8863):
                bad = 'PPPoE code 0x%02x with session id 0x%04x goes out with EtherType 0x%04x' % (code, sess, et)
            elif y[14:20] != bytes([0x11, code]) + _st.pack('>HH', sess, len(body)) or y[20:20 + len(body)] != body or any(y[20 + len(body):]):
                bad = 'PPPoE header / length field / tags on the wire differ from what was built: %s' % y[14:20 + len(body)].hex()[:80]
            else:
                nontriv.add(tuple(lines))
        if bad and reported < 10 and bad[:30] not in seen:
            seen.add(bad[:30]); reported += 1
            ctx.violation('independent dissector: ' + bad, '=== replay\n' + '\n'.join(lines) + '\n--- ' + bad + '\n--- C++ output\n' + '\n'.join(l[:300] for l in lh[-2:]) + '\n')
    # (6) MPLS label stacks under Ethernet (RFC 3032): EtherType 0x8847, the bottom-of-stack bit on the last label and only there,
    #     whatever follows (IPv4, IPv6, a raw payload, nothing); labels and TTLs as set
    ms = []
    for i in range(80 if quick else 1500):
        k = rng.randrange(1, 4)
        labels = [(rng.randrange(1 << 20), rng.randrange(256)) for _ in range(k)]
        tail = rng.choice([['push IP', 'set %d src_addr 167772161' % (k + 1), 'push UDP', 'raw x0102030405'], ['push IPv6', 'push UDP', 'raw x01'],
                           ['raw x' + bytes(rng.randrange(256) for _ in range(rng.choice([1, 4, 46]))).hex()], []])
        lines = ['new EthernetII'] + ['push MPLS'] * k
        for j, (lb, ttl) in enumerate(labels):
            lines += ['set %d label %d' % (j + 1, lb), 'set %d ttl %d' % (j + 1, ttl)]
        lines += tail + ['ser']
        ms.append(('m%d' % i, lines, labels))
    mh = C.run_harness('h_pkt', [(sid, lines) for sid, lines, _ in ms])
    ctx.cov['evaluations'] += len(ms)
    for sid, lines, labels in ms:
        lh = [l for l in mh.get(sid, []) if not l.startswith('!~')]
        bad = None
        if not lh or not lh[-1].startswith('S '):
            bad = 'EthernetII/MPLS x %d: %s' % (len(labels), (lh[-1] if lh else '<none>')[:80])
        else:
            y = bytes.fromhex(lh[-1].split()[2][1:])
            ents = [_st.unpack('>I', y[14 + 4 * j:18 + 4 * j])[0] for j in range(len(labels))]
            if y[12:14] != b'\x88\x47':
                bad = 'MPLS under Ethernet goes out with EtherType 0x%s' % y[12:14].hex()
            elif [((e >> 12), e & 0xff) for e in ents] != labels:
                bad = 'MPLS labels / TTLs on the wire %s, set %s' % ([((e >> 12), e & 0xff) for e in ents], labels)
            elif [(e >> 8) & 1 for e in ents] != [0] * (len(labels) - 1) + [1]:
                bad = 'MPLS bottom-of-stack bits on the wire %s for a stack of %d labels followed by %s' % ([(e >> 8) & 1 for e in ents], len(labels), (lines[1 + len(labels) + 2 * len(labels)] if len(lines) > 2 + 3 * len(labels) else 'nothing'))
            else:
                nontriv.add(tuple(lines))
        if bad and reported < 12 and bad[:30] not in seen:
            seen.add(bad[:30]); reported += 1
            ctx.violation('independent dissector: ' + bad, '=== replay\n' + '\n'.join(lines) + '\n--- ' + bad + '\n--- C++ output\n' + '\n'.join(l[:300] for l in lh[-2:]) + '\n')
    # (7) an object that was serialized (or parsed) in front of one network layer and is then given another one: the next-protocol
    #     tag must follow the layer that is there NOW (EtherType of Ethernet II, 802.1Q, SLL; protocol of Loopback)
    rs = []
    inner = {'IP': (['set %d src_addr 167772161'], 'ip'), 'IPv6': ([], 'ipv6'), 'ARP': ([], 'arp')}
    for i in range(60 if quick else 900):
        outer = rng.choice([['EthernetII'], ['EthernetII', 'Dot1Q'], ['SLL'], ['Loopback'], ['EthernetII', 'Dot1Q', 'Dot1Q']])
        a_, b_ = rng.sample([k for k in inner if not (outer == ['Loopback'] and k == 'ARP')], 2)
        k = len(outer)
        lines = ['new ' + outer[0]] + ['push ' + o for o in outer[1:]]
        lines += ['push ' + a_] + [x % k for x in inner[a_][0]] + (['push UDP', 'raw x0102'] if a_ != 'ARP' else []) + ['ser', 'cut %d' % (k - 1)]
        lines += ['push ' + b_] + [x % k for x in inner[b_][0]] + (['push UDP', 'raw x0304'] if b_ != 'ARP' else []) + ['ser']
        rs.append(('r%d' % i, lines, outer, b_))
    rh = C.run_harness('h_pkt', [(sid, lines) for sid, lines, _, _ in rs])
    ctx.cov['evaluations'] += len(rs)
    names5 = {'EthernetII': 'eth', 'Dot1Q': 'dot1q', 'SLL': 'sll', 'Loopback': 'loopback'}
    for sid, lines, outer, b_ in rs:
        lh = [l for l in rh.get(sid, []) if not l.startswith('!~')]
        bad = None
        if not lh or not lh[-1].startswith('S '):
            bad = '%s re-used in front of %s: %s' % ('/'.join(outer), b_, (lh[-1] if lh else '<none>')[:80])
        else:
            y = bytes.fromhex(lh[-1].split()[2][1:])
            layers, probs = D.dissect(names5[outer[0]], y)
            seenl = [n for n, _ in layers if n not in ('raw', 'ipv6ext')]
            want = [names5[o] for o in outer] + [inner[b_][1]] + (['udp'] if b_ != 'ARP' else [])
            if seenl != want:
                bad = 'after being serialized in front of another layer, %s in front of %s is dissected as %s (a next-protocol tag was not refreshed)' % ('/'.join(outer), b_, seenl)
            elif probs:
                bad = '%s re-used in front of %s: %s' % ('/'.join(outer), b_, probs[0])
            else:
                nontriv.add(tuple(lines))
        if bad and reported < 14 and bad[:30] not in seen:
            seen.add(bad[:30]); reported += 1
            ctx.violation('independent dissector: ' + bad, '=== replay\n' + '\n'.join(lines) + '\n--- ' + bad + '\n--- C++ output\n' + '\n'.join(l[:300] for l in lh[-2:]) + '\n')
    # (8) hand-built IPv4 fragments (MF set or a fragment offset) in front of a transport layer: the protocol field still names it;
    #     IPv6 with extension headers and nothing behind them: the payload length covers the extension headers, last next header 59
    fs = []
    for i in range(60 if quick else 900):
        inner_, proto_ = rng.choice([('UDP', 17), ('TCP', 6), ('ICMP', 1)])
        fl, off = rng.choice([(1, 0), (1, 0), (0, 185), (1, 370), (3, 0)])
        lines = ['new IP', 'set 0 src_addr 167772161', 'set 0 dst_addr 167772162', 'set 0 flags %d' % fl, 'set 0 fragment_offset %d' % off,
                 'push ' + inner_, 'raw x' + bytes(rng.randrange(256) for _ in range(rng.choice([8, 24]))).hex(), 'ser']
        fs.append(('f%d' % i, lines, ('frag', proto_, fl, off)))
    for i in range(60 if quick else 900):
        hdrs = [(rng.choice([0, 43, 60]) if j else 0, bytes(rng.randrange(256) for _ in range(rng.choice([0, 6, 14])))) for j in range(rng.randrange(1, 4))]
        hdrs = [(t if (t != 0 or j == 0) else 60, d) for j, (t, d) in enumerate(hdrs)]
        lines = ['new IPv6'] + ['ext6 0 %d x%s' % (t, d.hex()) for t, d in hdrs] + ['ser']
        fs.append(('g%d' % i, lines, ('ext', hdrs)))
    fh = C.run_harness('h_pkt', [(sid, lines) for sid, lines, _ in fs])
    ctx.cov['evaluations'] += len(fs)
    for sid, lines, what in fs:
        lh = [l for l in fh.get(sid, []) if not l.startswith('!~')]
        bad = None
        if not lh or not lh[-1].startswith('S '):
            bad = '%s: %s' % (lines[:6], (lh[-1] if lh else '<none>')[:80])
        else:
            y = bytes.fromhex(lh[-1].split()[2][1:])
            if what[0] == 'frag':
                _, proto_, fl, off = what
                fo = _st.unpack('>H', y[6:8])[0]
                if y[9] != proto_:
                    bad = 'IPv4 fragment (flags %d, offset %d) built in front of protocol %d goes out with protocol field %d' % (fl, off, proto_, y[9])
                elif (fo >> 13, fo & 0x1fff) != (fl, off):
                    bad = 'IPv4 flags / fragment offset on the wire (%d, %d), set (%d, %d)' % (fo >> 13, fo & 0x1fff, fl, off)
                elif _st.unpack('>H', y[2:4])[0] != len(y) or D.csum16(y[:20]) != 0xffff:
                    bad = 'IPv4 fragment: total length / header checksum wrong'
                else:
                    nontriv.add(tuple(lines))
            else:
                hdrs = what[1]
                extlen = sum(len(d) + 2 + ((-(len(d) + 2)) % 8) for _, d in hdrs)
                plen = _st.unpack('>H', y[4:6])[0]
                chain, off = [y[6]], 40
                while off + 2 <= len(y) and len(chain) <= len(hdrs):
                    chain.append(y[off]); off += 8 * (y[off + 1] + 1)
                if plen != len(y) - 40 or plen != extlen:
                    bad = 'IPv6 with %d extension headers and no upper layer: payload length field %d, octets behind the fixed header %d (extension headers take %d)' % (len(hdrs), plen, len(y) - 40, extlen)
                elif chain != [t for t, _ in hdrs] + [59]:
                    bad = 'IPv6 next-header chain on the wire %s, headers added %s (+ 59, no next header)' % (chain, [t for t, _ in hdrs])
                else:
                    nontriv.add(tuple(lines))
        if bad and reported < 16 and bad[:30] not in seen:
            seen.add(bad[:30]); reported += 1
            ctx.violation('independent dissector: ' + bad, '=== replay\n' + '\n'.join(lines) + '\n--- ' + bad + '\n--- C++ output\n' + '\n'.join(l[:300] for l in lh[-2:]) + '\n')
    # (9) the 802.3 length field counts the octets behind the MAC header, whatever their number (1 .. beyond 1500)
    ds = []
    for n_ in [1, 3, 38, 43, 46, 100, 1496, 1497, 1498, 1500, 1503, 2000][:(12 if not quick else 12)]:
        ds.append(('d%d' % n_, ['new Dot3', 'push LLC', 'raw x' + bytes(rng.randrange(256) for _ in range(n_)).hex(), 'ser'], n_))
    dh = C.run_harness('h_pkt', [(a_, b_) for a_, b_, _ in ds])
    ctx.cov['evaluations'] += len(ds)
    for sid, lines, n_ in ds:
        lh = [l for l in dh.get(sid, []) if not l.startswith('!~')]
        if lh and lh[-1].startswith('S '):
            y = bytes.fromhex(lh[-1].split()[2][1:])
            lf = _st.unpack('>H', y[12:14])[0]
            # (frames shorter than the Ethernet minimum are zero-padded: the field still counts the LLC header + payload)
            if lf != min(len(y) - 14, 3 + n_) and lf != len(y) - 14:
                ctx.violation('independent dissector: Dot3 length field %d, %d octets follow the MAC header (LLC + %d payload octets)' % (lf, len(y) - 14, n_),
                              '=== replay\n' + '\n'.join(l[:200] for l in lines) + '\n--- C++ output\n' + lh[-1][:200] + '\n')
                break
    ctx.cov['distinct_nontrivial'] = len(nontriv)
    ctx.cov['traces_validated_against_impl'] = len(sums)
    ctx.cov['rule'] = ('(1) byte strings aimed at the folding boundaries (all-ones, alternating, odd lengths) through Utils::sum_range / crc32 against the model and independent references; '
                       '(2) packets built through the public API over EthernetII/802.1Q/SLL/Loopback x IPv4/IPv6 x TCP/UDP/ICMP/ICMPv6 with random field values, TCP options and payloads '
                       '(sizes around the 60-byte minimum, payloads driving sums to 0xffff), dissected by an independent dissector: lengths, offsets, next-protocol tags, padding, checksums, '
                       'and the values that were set; (3) parsed IPv6 packets with 1-3 extension headers (hop-by-hop, routing, destination options) in front of UDP/TCP: next-header chain and checksum after serialize(); non-trivial = distinct packet with >= 3 dissected layers')
    ctx.cov['samples'] = [scripts[0][1], scripts[1][1]]
    C.obligations_failed(ctx, ok and st['gen_tables'].get('ok', False), why, 'theorems of Properties/C05.v / generated crc table no longer check')


def replay(ctx, path):
    C.build_harness('h_pkt')
    lines = C.read_replay(path)
    print('\n'.join(C.run_harness('h_pkt', [('r', lines)]).get('r', [])))
    return ctx.finish()
