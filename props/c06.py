"""C06 — TCP stream reassembly delivers exactly the sent byte stream."""
import os, json, random
import common as C

M32 = 1 << 32
ISNS = [0, 1, 1000, (1 << 31) - 3, (1 << 31), (1 << 32) - 1, (1 << 32) - 2, (1 << 32) - 3, (1 << 32) - 40, (1 << 32) - 70000, 0x90000002, 0xffffff82, 0x7ffffffe]


def hexs(b):
    return 'x' + bytes(b).hex()


def gen_consistent(rng, sid, max_len, nseg):
    """segments of one underlying stream (plus stale bytes before the ISN), any order/overlap/duplication"""
    isn = rng.choice(ISNS) if rng.random() < 0.8 else rng.randrange(M32)
    n = rng.choice([1, 2, 5, 8, 17, max_len]) if rng.random() < 0.5 else rng.randrange(1, max_len + 1)
    pre = rng.randrange(0, 6)
    data = [rng.randrange(256) for _ in range(pre + n)]
    segs = []
    style = rng.random()
    if style < 0.35:
        # a partition, shuffled, with some duplicates and re-cut retransmissions
        cuts = sorted(set([0, n] + [rng.randrange(0, n + 1) for _ in range(rng.randrange(0, nseg))]))
        for a, b in zip(cuts, cuts[1:]):
            segs.append((a, b - a))
        for _ in range(rng.randrange(0, 4)):
            a = rng.randrange(-pre, n)
            segs.append((a, rng.randrange(0, n - a + 1)))
        rng.shuffle(segs)
        if rng.random() < 0.3:
            segs.sort(key=lambda s: -s[0])
    else:
        for _ in range(rng.randrange(1, nseg + 2)):
            a = rng.randrange(-pre, n + 1)
            ln = rng.randrange(0, min(n - a, rng.choice([1, 2, 3, 8, n + pre])) + 1)
            segs.append((a, ln))
        if rng.random() < 0.5:
            segs.append((0, n))
        rng.shuffle(segs)
    lines = ['new %d' % isn]
    # the segment that carries the stream's last byte may carry FIN (whatever arrives after it must still be reassembled: the
    # peer retransmits, the network reorders), any segment may carry PSH / URG / ECE
    finish = rng.random() < 0.5
    for a, ln in segs:
        fl = (1 if (finish and ln > 0 and a + ln == n) else 0) | (rng.choice([0, 0, 8, 0x20, 0x40]))
        lines.append('seg %d %s' % ((isn + a) % M32, hexs(data[pre + a: pre + a + ln])) + (' %d' % fl if fl else ''))
    meta = {'isn': isn, 'pre': pre, 'data': data, 'segs': segs, 'kind': 'consistent'}
    return (sid, lines), meta


def gen_wild(rng, sid):
    """anything: inconsistent bytes, far-away sequence numbers, advances; model-vs-code only"""
    isn = rng.choice(ISNS)
    lines = ['new %d' % isn]
    for _ in range(rng.randrange(1, 10)):
        r = rng.random()
        if r < 0.15:
            lines.append('adv %d' % ((isn + rng.choice([0, 1, 5, 20, 1 << 31, (1 << 31) + 1, M32 - 5, rng.randrange(M32)])) % M32))
        else:
            off = rng.choice([0, 1, 2, 3, 5, 8, 13, 30, M32 - 1, M32 - 2, M32 - 6, (1 << 31) - 1, 1 << 31, (1 << 31) + 1, rng.randrange(M32)])
            ln = rng.randrange(0, 12)
            lines.append('seg %d %s' % ((isn + off) % M32, hexs([rng.randrange(256) for _ in range(ln)])))
    return (sid, lines), {'kind': 'wild'}


def exhaustive_small(max_n=4):
    """all arrival orders of all segment sets (<=3 segments) of streams of length <= max_n at wrap ISNs"""
    import itertools
    out = []
    k = 0
    for isn in (0, M32 - 2):
        for n in range(1, max_n + 1):
            data = list(range(0x41, 0x41 + n))
            allsegs = [(a, l) for a in range(0, n) for l in range(1, n - a + 1)]
            for r in (1, 2, 3):
                for combo in itertools.combinations(allsegs, r):
                    for perm in itertools.permutations(combo):
                        lines = ['new %d' % isn] + ['seg %d %s' % ((isn + a) % M32, hexs(data[a:a + l])) for a, l in perm]
                        out.append((('ex%d' % k, lines), {'isn': isn, 'pre': 0, 'data': data, 'segs': list(perm), 'kind': 'consistent'}))
                        k += 1
    return out


def parse_line(l):
    """'<r> <seq> x<out> [[k len] ...] <total>' -> dict or None"""
    t = l.replace('[', ' [ ').replace(']', ' ] ').split()
    try:
        r, seq, out = int(t[0]), int(t[1]), bytes.fromhex(t[2][1:])
        i = 3
        assert t[i] == '['
        i += 1
        buf = []
        while t[i] == '[':
            buf.append((int(t[i + 1]), int(t[i + 2])))
            assert t[i + 3] == ']'
            i += 4
        assert t[i] == ']'
        total = int(t[i + 1])
        return {'r': r, 'seq': seq, 'out': out, 'buf': buf, 'total': total}
    except Exception:
        return None


def oracle(meta, lines_cpp):
    """Spec applied to the C++ outputs of a consistent script. Returns list of complaints."""
    isn, pre, data, segs = meta['isn'], meta['pre'], meta['data'], meta['segs']
    S = bytes(data[pre:])
    bad = []
    covered = 0
    arrived = []
    idx = 1  # skip the 'new' result
    groups = []
    i = 1
    # lines come in groups of 3 per seg: main, F, L
    for a, ln in segs:
        if i + 2 >= len(lines_cpp) + 0 and i >= len(lines_cpp):
            bad.append('missing output for segment (%d,%d)' % (a, ln))
            break
        main = lines_cpp[i] if i < len(lines_cpp) else ''
        fl = lines_cpp[i + 1] if i + 1 < len(lines_cpp) else ''
        ll = lines_cpp[i + 2] if i + 2 < len(lines_cpp) else ''
        i += 3
        arrived.append((a, ln))
        # longest covered prefix
        prev_cov = covered
        changed = True
        while changed:
            changed = False
            for (x, l) in arrived:
                if x <= covered < x + l:
                    covered = x + l
                    changed = True
        for name, l in (('DataTracker', main), ('Flow', fl[2:] if fl.startswith('F ') else None)):
            if l is None:
                bad.append('%s: missing line' % name)
                continue
            d = parse_line(l)
            if d is None:
                bad.append('%s: %s' % (name, l))
                continue
            if d['out'] != S[:covered]:
                bad.append('%s: delivered %s but the stream prefix covered so far is %s' % (name, d['out'].hex(), S[:covered].hex()))
            if d['seq'] != (isn + covered) % M32:
                bad.append('%s: sequence number %d, expected %d' % (name, d['seq'], (isn + covered) % M32))
            if d['total'] != sum(x[1] for x in d['buf']):
                bad.append('%s: total_buffered_bytes=%d but chunks hold %d' % (name, d['total'], sum(x[1] for x in d['buf'])))
            for (k, ln2) in d['buf']:
                rel = (k - isn) % M32
                if rel >= (1 << 31) or rel <= covered:
                    bad.append('%s: chunk at %d (offset %d) stays buffered at or below the delivered position %d' % (name, k, rel if rel < (1 << 31) else rel - M32, covered))
            if d['r'] == 0 and covered > prev_cov and name == 'DataTracker':
                bad.append('%s: return value 0 although new bytes were delivered' % name)
        if ll.startswith('L x'):
            lo = bytes.fromhex(ll[3:])
            if lo != S[:covered]:
                bad.append('legacy TCPStream: delivered %s, expected %s' % (lo.hex(), S[:covered].hex()))
        else:
            bad.append('legacy: %s' % ll)
        if bad:
            break
    for l in lines_cpp:
        if l.startswith('!!'):
            bad.append(l)
    return bad


def compare(lines_model, lines_cpp, check_legacy):
    """model/C++ correspondence for one script; returns list of complaints"""
    bad = []
    main = [l for l in lines_cpp if not l.startswith('F ') and not l.startswith('L ')]
    fl = [l[2:] for l in lines_cpp if l.startswith('F ')]
    if main != lines_model:
        for i, (a, b) in enumerate(zip(lines_model + ['<none>'] * len(main), main + ['<none>'] * len(lines_model))):
            if a != b:
                bad.append('op %d: model "%s" vs DataTracker "%s"' % (i, a, b))
                break
    # Flow lines must equal the DataTracker lines (except the op-0 line)
    exp = [l for l in lines_model[1:]]
    if fl != exp:
        for i, (a, b) in enumerate(zip(exp + ['<none>'] * len(fl), fl + ['<none>'] * len(exp))):
            if a != b:
                bad.append('op %d: model "%s" vs Flow "%s"' % (i + 1, a, b))
                break
    return bad


def run_pair(scripts):
    m = C.run_model('dt', scripts)
    h = C.run_harness('h_dt', scripts)
    return m, h


def compare_legacy(lines_model, lines_cpp):
    """Model.LegacyStream <-> TCPStream: the bytes delivered after every segment"""
    got = [l[2:] for l in lines_cpp if l.startswith('L ')]
    exp = lines_model[1:]
    for i, (a, b) in enumerate(zip(exp, got)):
        if a.startswith('-'):
            return []            # the model reports a site the C++ leaves undefined: not compared from here on
        if a != b:
            return ['segment %d: legacy model delivers "%s", TCPStream "%s"' % (i + 1, a[:80], b[:80])]
    if len(got) != len(exp) and not any(a.startswith('-') for a in exp):
        return ['legacy model has %d segment results, TCPStream %d' % (len(exp), len(got))]
    return []


def evaluate(batch):
    """batch: list of ((sid, lines), meta).  returns list of (sid, kind, complaints)"""
    scripts = [b[0] for b in batch]
    m, h = run_pair(scripts)
    noadv = [(sid, lines) for sid, lines in scripts if not any(l.startswith('adv') for l in lines)]
    ml = C.run_model('ls', noadv) if noadv else {}
    out = []
    for (sid, lines), meta in batch:
        lm, lh = m.get(sid, ['<no model output>']), h.get(sid, ['<no harness output>'])
        corr = compare(lm, lh, meta['kind'] == 'consistent')
        if sid in ml and any(l.startswith('L ') for l in lh):
            corr = corr + compare_legacy(ml[sid], lh)
        orc = oracle(meta, lh) if meta['kind'] == 'consistent' else [l for l in lh if l.startswith('!!')]
        out.append((sid, corr, orc, lm, lh))
    return out


def run(ctx):
    st = C.run_translators(('kernels',))
    ctx.notes['translated_kernels'] = st['kernels']
    ctx.cov['trusted_base'] += ['translate/cxx2gallina.py over clang-14 JSON AST (seq_compare, compare_seq_numbers regenerated each run)',
                                'extraction: ExtrOcamlBasic only; harness/driver.ml (I/O); harness/h_dt.cpp (public API observers)',
                                'std::map / std::vector move semantics as modelled (validated by the correspondence run)']
    tie_broken = [k for k in st['kernels'] if not k['ok'] and k['kernel'] in ('seq_compare', 'compare_seq_numbers')]
    ok, why = C.prove(ctx, 'C06')
    runner_ok = True
    try:
        C.build_runner()
    except C.BuildError as e:
        runner_ok = False
        why = (why + '\n' + str(e)).strip()
    C.build_harness('h_dt')
    rng = ctx.rng
    quick = ctx.tier == 'quick'
    batch = []
    # corpus first
    corp = os.path.join(C.V, 'corpus', 'C06.json')
    if os.path.exists(corp):
        for i, item in enumerate(json.load(open(corp))):
            batch.append((('corpus%d' % i, item['lines']), item['meta']))
    ex = exhaustive_small(3 if quick else 4)
    batch += ex
    n_rand = 1500 if quick else 30000
    for i in range(n_rand):
        big = (not quick) and i % 50 == 0
        batch.append(gen_consistent(rng, 'c%d' % i, 65536 if big and i % 500 == 0 else (3000 if big else 40), 8 if not big else 40))
    for i in range(400 if quick else 6000):
        batch.append(gen_wild(rng, 'w%d' % i))
    if not runner_ok:
        # model unavailable: C++ vs Spec oracle only
        h = C.run_harness('h_dt', [b[0] for b in batch])
        results = [(b[0][0], [], oracle(b[1], h.get(b[0][0], [])) if b[1]['kind'] == 'consistent' else [], [], h.get(b[0][0], [])) for b in batch]
    else:
        results = evaluate(batch)
    metas = {b[0][0]: b for b in batch}
    ctx.cov['evaluations'] = len(batch)
    nontriv = set()
    for sid, corr, orc, lm, lh in results:
        d = [parse_line(l) for l in lh if not l.startswith(('F ', 'L ', '!!'))]
        if any(x and x['buf'] for x in d) and any(x and x['out'] for x in d):
            nontriv.add(tuple(metas[sid][0][1]))
    ctx.cov['distinct_nontrivial'] = len(nontriv)
    ctx.cov['rule'] = ('scripts = exhaustive arrival orders of <=3 overlapping segments of streams of length <=%d at ISN 0 and 2^32-2, '
                       'plus random consistent segmentations (overlap, duplication, stale pre-ISN data, boundary ISNs) and wild scripts '
                       '(inconsistent bytes, out-of-window sequence numbers, advance_sequence); non-trivial = distinct script in which data was '
                       'both buffered out of order and delivered' % (3 if quick else 4))
    ctx.cov['exhaustive_small_cases'] = len(ex)
    ctx.cov['samples'] = [metas[s][0][1] for s in list(metas)[len(ex):len(ex) + 2]] + [metas['w0'][0][1]]
    ctx.cov['traces_validated_against_impl'] = len(batch) if runner_ok else 0
    ctx.notes['input_distribution'] = {
        'consistent': sum(1 for b in batch if b[1]['kind'] == 'consistent'), 'wild': sum(1 for b in batch if b[1]['kind'] == 'wild'),
        'segments_total': sum(len(b[0][1]) - 1 for b in batch),
        'isn_wrapping': sum(1 for b in batch if b[1].get('isn', 0) > M32 - 100000)}
    # verdict
    fails = [(sid, corr, orc, lm, lh) for sid, corr, orc, lm, lh in results if corr or orc]
    reported = 0
    seen_msgs = set()
    fails.sort(key=lambda f: (0 if f[2] else 1))
    for sid, corr, orc, lm, lh in fails:
        if reported >= 3:
            break
        key0 = (orc or corr)[0].split(':')[0]
        if key0 in seen_msgs:
            continue
        seen_msgs.add(key0)
        (sid_, lines), meta = metas[sid]

        want_oracle = bool(orc)

        def still(ls, meta=meta, want_oracle=want_oracle):
            if meta['kind'] == 'consistent':
                # rebuild meta for the reduced script
                segs = []
                isn = meta['isn']
                for l in ls[1:]:
                    t = l.split()
                    a = (int(t[1]) - isn) % M32
                    if a >= 1 << 31:
                        a -= M32
                    segs.append((a, (len(t[2]) - 1) // 2))
                m2 = dict(meta, segs=segs)
            else:
                m2 = meta
            r = evaluate([(('s', ls), m2)]) if runner_ok else [('s', [], oracle(m2, C.run_harness('h_dt', [('s', ls)]).get('s', [])), [], [])]
            return bool(r[0][2]) if want_oracle else bool(r[0][1] or r[0][2])
        small = C.shrink_lines(lines, still, keep_first=1, budget=60)
        # recompute outputs for the shrunk script
        segs = []
        if meta['kind'] == 'consistent':
            for l in small[1:]:
                t = l.split()
                a = (int(t[1]) - meta['isn']) % M32
                if a >= 1 << 31:
                    a -= M32
                segs.append((a, (len(t[2]) - 1) // 2))
        m2 = dict(meta, segs=segs) if meta['kind'] == 'consistent' else meta
        if runner_ok:
            r = evaluate([(('s', small), m2)])[0]
        else:
            lh2 = C.run_harness('h_dt', [('s', small)]).get('s', [])
            r = ('s', [], oracle(m2, lh2), [], lh2)
        corr2, orc2, lm2, lh2 = r[1], r[2], r[3], r[4]
        msg = (orc2 or corr2 or orc or corr)[0]
        text = '=== replay\n' + '\n'.join(small) + '\n--- spec-oracle complaints (C++ vs Spec)\n' + '\n'.join(orc2) + \
               '\n--- correspondence complaints (model vs C++)\n' + '\n'.join(corr2) + \
               '\n--- model output\n' + '\n'.join(lm2) + '\n--- C++ output\n' + '\n'.join(lh2) + '\n'
        if meta['kind'] == 'consistent':
            text += '--- stream\nisn=%d stale_prefix=%s stream=%s\n' % (meta['isn'], bytes(meta['data'][:meta['pre']]).hex(), bytes(meta['data'][meta['pre']:]).hex())
        if orc2:
            ctx.violation('C++ violates the reassembly spec: ' + msg, text, has_input=True)
        else:
            # model and code differ, but the Spec oracle has no complaint on this input
            ctx.violation('correspondence Model.DataTracker <-> C++ broken (%s); spec oracle found no failing input' % msg, text, has_input=False)
        reported += 1
    if not ok or tie_broken:
        if not any(v[2] for v in ctx.violations):
            txt = 'PROOF/TIE OBLIGATION FAILED\n' + why + '\n' + json.dumps(tie_broken)
            ctx.violation('theorems of Properties/C06.v no longer check against the regenerated kernels', txt, has_input=False, suffix='txt')
    ctx.notes['failing_scripts'] = len(fails)


def replay(ctx, path):
    C.build_runner()
    C.build_harness('h_dt')
    lines = []
    for l in open(path):
        l = l.rstrip('\n')
        if l.startswith('---'):
            break
        if l.startswith('==='):
            continue
        lines.append(l)
    m, h = run_pair([('replay', lines)])
    print('\n'.join('model: ' + x for x in m.get('replay', [])))
    print('\n'.join('c++  : ' + x for x in h.get('replay', [])))
    corr = compare(m.get('replay', []), h.get('replay', []), False)
    if corr:
        ctx.violation('replay still disagrees: ' + corr[0], open(path).read(), has_input=True)
    return ctx.finish()
