"""C07 — the stream follower tracks connections, directions and lifetimes correctly."""
import os, re, json
import common as C

M32 = 1 << 32
FIN, SYN, RST, PSH, ACK = 1, 2, 4, 8, 16


def hexs(b):
    return 'x' + bytes(b).hex()


def sgn(d):
    d %= M32
    return d - M32 if d >= (1 << 31) else d


# ---------------------------------------------------------------------------------------------------------------
# reference connection table (written from RFC 793 semantics and the documented behaviour of StreamFollower; it
# knows nothing about libtins' data structures)
class RefDir:
    def __init__(self, exp):
        self.exp = exp % M32
        self.buf = {}        # start seq -> bytes (segments waiting for a hole to be filled)
        self.fin = False
        self.rst = False

    def segment(self, seq, data):
        rel = sgn(seq - self.exp)
        if rel + len(data) < 0:
            return b''
        if rel < 0:
            data = data[-rel:]
            seq = self.exp
        old = self.buf.get(seq)
        if old is None or len(old) < len(data):
            self.buf[seq] = bytes(data)
        out = b''
        while self.exp in self.buf:
            ch = self.buf.pop(self.exp)
            out += ch
            self.exp = (self.exp + len(ch)) % M32
        return out


class RefConn:
    def __init__(self, p, syn):
        self.fam = len(p['src'])
        self.client = (p['src'], p['sport'])
        self.server = (p['dst'], p['dport'])
        # client bytes start right after the SYN; when attaching, at the first data byte seen
        self.c = RefDir(p['seq'] + 1 if syn else p['seq'])
        self.s = RefDir(p['ack'])
        self.s_syn_seen = not syn
        self.c_syn_seen = True
        self.last = p['ts']

    def name(self):
        return (self.client[0].hex(), self.client[1], self.server[0].hex(), self.server[1])


class RefFollower:
    def __init__(self, attach, keep, max_chunks, max_bytes):
        self.attach, self.keep, self.max_chunks, self.max_bytes = attach, keep, max_chunks, max_bytes
        self.conns = {}
        self.last_cleanup = 0

    @staticmethod
    def key(p):
        return (len(p['src']), frozenset([(p['src'], p['sport']), (p['dst'], p['dport'])]))

    def packet(self, p):
        ev = []
        k = self.key(p)
        c = self.conns.get(k)
        syn = bool(p['flags'] & SYN) and not (p['flags'] & ACK)
        if c is None:
            if syn or (self.attach and p['data'] is not None):
                c = RefConn(p, syn)
                self.conns[k] = c
                ev.append(('new',) + c.name())
        if c is not None:
            c.last = p['ts']
            from_client = (p['dst'], p['dport']) == c.server
            d = c.c if from_client else c.s
            if p['flags'] & FIN:
                d.fin = True
            elif p['flags'] & RST:
                d.rst = True
            elif p['flags'] & SYN:
                seen = c.c_syn_seen if from_client else c.s_syn_seen
                if not seen:
                    d.exp = (p['seq'] + 1) % M32
                    if from_client:
                        c.c_syn_seen = True
                    else:
                        c.s_syn_seen = True
            if p['data'] is not None:
                out = d.segment(p['seq'], p['data'])
                if out:
                    ev.append(('data',) + c.name() + (1 if from_client else 0, out.hex()))
            closed = c.c.rst or c.s.rst or ((c.c.fin and not c.c.rst) and (c.s.fin and not c.s.rst))
            if closed:
                ev.append(('closed',) + c.name())
            chunks = len(c.c.buf) + len(c.s.buf)
            nbytes = sum(len(v) for v in c.c.buf.values()) + sum(len(v) for v in c.s.buf.values())
            over = chunks > self.max_chunks or nbytes > self.max_bytes
            if over:
                ev.append(('term',) + c.name() + (1,))
            if closed or over:
                del self.conns[k]
        if self.last_cleanup + self.keep <= p['ts']:
            gone = [kk for kk, cc in self.conns.items() if cc.last + self.keep <= p['ts']]
            ev += sorted(('term',) + self.conns[kk].name() + (0,) for kk in gone)
            for kk in gone:
                del self.conns[kk]
            self.last_cleanup = p['ts']
        return ev


# ---------------------------------------------------------------------------------------------------------------
def parse_events(line):
    """'[1 x.. 10 x.. 20] [3 ...]' -> list of tuples comparable with the reference's"""
    out = []
    for m in re.finditer(r'\[([^\[\]]*)\]', line):
        t = m.group(1).split()
        kind = int(t[0])
        nm = (t[1][1:], int(t[2]), t[3][1:], int(t[4]))
        if kind == 1:
            out.append(('new',) + nm)
        elif kind == 2:
            out.append(('ooo',) + nm + (int(t[5]), int(t[6]), t[7][1:]))
        elif kind == 3:
            out.append(('data',) + nm + (int(t[5]), t[6][1:]))
        elif kind == 4:
            out.append(('closed',) + nm)
        elif kind == 5:
            out.append(('term',) + nm + (int(t[5]),))
    return out


def canon(evs):
    """reference-comparable view: no out-of-order notifications; simultaneous timeouts as a set"""
    # a data callback that carries no bytes (exact retransmission of the last delivered segment) delivers nothing: not compared
    evs = [e for e in evs if e[0] != 'ooo' and not (e[0] == 'data' and e[-1] == '')]
    head = [e for e in evs if not (e[0] == 'term' and e[-1] == 0)]
    tail = sorted(e for e in evs if e[0] == 'term' and e[-1] == 0)
    return head + tail


def pkt_line(p):
    return 'pkt %s %s %d %d %d %d %d %s %d' % (hexs(p['src']), hexs(p['dst']), p['sport'], p['dport'], p['flags'], p['seq'] % M32,
                                                 p['ack'] % M32, hexs(p['data']) if p['data'] is not None else '-1', p['ts']) + \
        ((' [ ' + ' '.join(str(x % M32) for x in p['sack']) + ' ]') if p.get('sack') else '')


def endpoints_pool(rng):
    """connections that differ as little as possible: one port apart, swapped hosts with the same ports, the same host on
    both sides, and IPv6 addresses whose leading bytes equal an IPv4 address used by another connection"""
    a = bytes([10, 0, 0, rng.randrange(1, 250)])
    b = bytes([10, 0, rng.randrange(2), rng.randrange(1, 250)])
    while b == a:
        b = bytes([10, 0, 1, rng.randrange(1, 250)])
    p, q = rng.choice([1024, 40000, 65534]), rng.choice([80, 443, 1025])
    a6 = a + bytes(12)
    b6 = b + bytes(12)
    m6 = bytes(10) + b'\xff\xff' + a
    r6 = bytes([0x20, 1] + [rng.randrange(256) for _ in range(14)])
    pool = [(a, p, b, q), (a, p + 1, b, q), (a, p, b, q + 1), (b, p, a, q), (a, q, b, p), (a, p, a, q),
            (a6, p, b6, q), (m6, p, b6, q), (r6, p, b6, q), (a6, p + 1, b6, q), (b6, p, a6, q),
            (bytes([192, 168, 1, 1]), p, b, q), (a, p, bytes([a[0], a[1], a[2], a[3] ^ 1]), q)]
    rng.shuffle(pool)
    out, seen = [], set()
    for c in pool:
        k = (len(c[0]), frozenset([(c[0], c[1]), (c[2], c[3])]))
        if k in seen or (c[0], c[1]) == (c[2], c[3]):
            continue
        seen.add(k)
        out.append(c)
    return out


def conn_script(rng, c, attach, big=False, overflow=None):
    """packets of one connection in causal order (dicts without timestamps)"""
    ca, cp, sa, sp = c
    isn_c = rng.choice([0, 1000, M32 - 2, M32 - 300, (1 << 31) - 5, rng.randrange(M32)])
    isn_s = rng.choice([0, 5000, M32 - 1, M32 - 200, rng.randrange(M32)])

    def mk(from_client, flags, seq, ack, data=None):
        s, d = ((ca, cp), (sa, sp)) if from_client else ((sa, sp), (ca, cp))
        return {'src': s[0], 'sport': s[1], 'dst': d[0], 'dport': d[1], 'flags': flags, 'seq': seq % M32, 'ack': ack % M32, 'data': data}
    pk = []
    mode = 'attach' if (attach and rng.random() < 0.4) else 'full'
    if mode == 'full':
        # the opening segments may carry other legal bits: ECN setup (RFC 3168: SYN|ECE|CWR, answered SYN|ACK|ECE), PSH, URG
        xc = rng.choice([0, 0, 0xc0, 0xc0, 0x40, 0x80, PSH, 0x20, 0xc0 | PSH])
        xs = rng.choice([0, 0, 0x40, 0x40, 0xc0, PSH])
        pk += [mk(True, SYN | xc, isn_c, 0), mk(False, SYN | ACK | xs, isn_s, isn_c + 1), mk(True, ACK, isn_c + 1, isn_s + 1)]
        if rng.random() < 0.15:
            pk.insert(1, mk(True, SYN | xc, isn_c, 0))        # retransmitted SYN
    streams = {}
    for from_client, isn in ((True, isn_c), (False, isn_s)):
        n = rng.choice([0, 1, 5, 20, 60]) if not big else rng.choice([200, 700])
        data = bytes(rng.randrange(256) for _ in range(n))
        cuts = sorted(set([0, n] + [rng.randrange(0, n + 1) for _ in range(rng.randrange(0, 6) if not big else rng.randrange(20, 60))]))
        segs = [(a, data[a:b]) for a, b in zip(cuts, cuts[1:]) if b > a]
        order = list(range(len(segs)))
        # local reordering and duplication
        for _ in range(rng.randrange(0, 1 + len(segs))):
            i = rng.randrange(len(segs))
            j = min(len(segs) - 1, i + rng.randrange(1, 4))
            order[i], order[j] = order[j], order[i]
        if overflow and from_client:
            order = order[1:] + order[:1]                      # the first segment arrives last: everything else waits
        for _ in range(rng.randrange(0, 3)):
            if segs:
                order.insert(rng.randrange(len(order) + 1), rng.randrange(len(segs)))
        streams[from_client] = [mk(from_client, ACK | (PSH if rng.random() < 0.5 else 0), isn + 1 + segs[i][0],
                                   (isn_s if from_client else isn_c) + 1, segs[i][1]) for i in order], isn + 1 + n
    cq, sq = list(streams[True][0]), list(streams[False][0])
    if mode == 'attach' and cq and rng.random() < 0.3:
        cq[0] = dict(cq[0], flags=cq[0]['flags'] | rng.choice([PSH, PSH | FIN]))      # the first segment seen may already close its direction
        if cq[0]['flags'] & FIN:
            cq[:] = cq[:1]
    if mode == 'attach' and not cq and not sq:
        cq = [mk(True, ACK, isn_c + 1, isn_s + 1, b'x')]
        streams[True] = (cq, isn_c + 2)
    while cq or sq:
        if cq and (not sq or rng.random() < 0.5):
            pk.append(cq.pop(0))
        else:
            pk.append(sq.pop(0))
    if mode == 'full' and len(pk) > 4 and rng.random() < 0.3:
        # a late duplicate of the SYN or of the SYN|ACK (a retransmission overtaken by the data): it opens nothing and rewinds nothing
        dup = dict(pk[0]) if rng.random() < 0.5 else dict(next(p for p in pk if p['flags'] & SYN and p['flags'] & ACK))
        pk.insert(rng.randrange(4, len(pk) + 1), dup)
    end_c, end_s = streams[True][1], streams[False][1]
    close = rng.choice(['fin', 'fin', 'rst_c', 'rst_s', 'open', 'fin_one', 'fin_rst', 'fin_rst'])
    if close == 'fin':
        first = rng.random() < 0.5
        pk += [mk(first, FIN | ACK, end_c if first else end_s, end_s if first else end_c),
               mk(not first, ACK, end_s if first else end_c, (end_c if first else end_s) + 1),
               mk(not first, FIN | ACK, end_s if first else end_c, (end_c if first else end_s) + 1),
               mk(first, ACK, (end_c if first else end_s) + 1, (end_s if first else end_c) + 1)]
    elif close == 'rst_c':
        pk.append(mk(True, RST, end_c, 0))
    elif close == 'rst_s':
        pk.append(mk(False, RST | ACK, end_s, end_c))
    elif close == 'fin_one':
        pk.append(mk(True, FIN | ACK, end_c, end_s))
    elif close == 'fin_rst':
        # one side closes its direction and then aborts (RST) before the peer closes: the connection is over
        who = rng.random() < 0.5
        pk.append(mk(who, FIN | ACK, end_c if who else end_s, end_s if who else end_c))
        if rng.random() < 0.5:
            pk.append(mk(not who, ACK, end_s if who else end_c, (end_c if who else end_s) + 1))
        pk.append(mk(who, RST, (end_c if who else end_s) + 1, 0))
    return pk


def gen_case(rng, sid, quick):
    attach = rng.random() < 0.4
    keep = rng.choice([300000000, 300000000, 5000, 200])
    style = rng.random()
    overflow = style < 0.2
    max_chunks = rng.choice([2, 3, 6]) if overflow else 512
    max_bytes = rng.choice([40, 3145728]) if overflow else 3145728
    pool = endpoints_pool(rng)
    conns = pool[:rng.choice([1, 2, 3, 5, len(pool)])]
    scripts = [conn_script(rng, c, attach, big=overflow and rng.random() < 0.5, overflow=overflow) for c in conns]
    # a closed connection may come back on the same 4-tuple (only when the first incarnation really ended with an RST or a
    # FIN from both sides: otherwise the new ISNs would be arbitrary sequence numbers inside a connection that is still
    # tracked, which no reassembly guarantee covers - false alarm seen with VERIF_SEED=21)
    def ended(pk):
        fins = set((p['src'], p['sport']) for p in pk if p['flags'] & FIN)
        return any(p['flags'] & RST for p in pk) or len(fins) == 2
    if rng.random() < 0.3 and ended(scripts[0]):
        scripts[0] = scripts[0] + conn_script(rng, conns[0], attach)
    merged = []
    qs = [list(s) for s in scripts]
    while any(qs):
        i = rng.choice([i for i, q in enumerate(qs) if q])
        burst = rng.choice([1, 1, 2, 5])
        for _ in range(burst):
            if qs[i]:
                merged.append(qs[i].pop(0))
    ts = rng.choice([0, 1, 1000000])
    for p in merged:
        r = rng.random()
        ts += rng.choice([0, 1, 10, 100]) if r < 0.8 else (keep + rng.choice([-1, 0, 1]) if r < 0.9 else rng.choice([keep // 2, keep * 2]))
        p['ts'] = ts
    # ACK tracking switched on for every stream, acknowledgements carrying SACK blocks (few intervals, many bytes): the only
    # observable effect it may have is the SACKED_SEGMENTS termination, which needs more than 1024 intervals and never happens here
    acktrack = rng.random() < 0.3
    if acktrack:
        for p in merged:
            if p['flags'] & ACK and not p['flags'] & SYN and rng.random() < 0.4:
                edges, at = [], p['ack'] + rng.choice([1, 100, 1460])
                for _ in range(rng.randrange(1, 4)):
                    ln = rng.choice([10, 1460, 3000, 70000])
                    edges += [at, at + ln]
                    at += ln + rng.choice([1, 1460])
                p['sack'] = edges
    lines = ['cfg %d %d %d %d' % (attach, keep, max_chunks, max_bytes) + (' 1' if acktrack else '')] + [pkt_line(p) for p in merged] + ['live']
    return (sid, lines), {'cfg': (attach, keep, max_chunks, max_bytes), 'pkts': merged, 'nconn': len(conns)}


def reference_trace(meta):
    ref = RefFollower(*meta['cfg'])
    return [ref.packet(p) for p in meta['pkts']], sorted(c.name() for c in ref.conns.values())


def default_limits_case(rng, sid, which, dflt):
    """the shipped limits (512 chunks / 3 MiB at the pinned commit; read from the code): one connection whose first segment
    never arrives.  The C++ follower keeps its constructor's values (cfg ... -1 -1 -1); model and reference are given the numbers."""
    keep, nchunks, nbytes = dflt
    c = (bytes([10, 1, 1, 1]), 5555, bytes([10, 1, 1, 2]), 80)
    isn = rng.choice([7, M32 - 100])
    pk = [{'src': c[0], 'sport': c[1], 'dst': c[2], 'dport': c[3], 'flags': SYN, 'seq': isn, 'ack': 0, 'data': None}]
    if which == 'chunks':
        for i in range(nchunks + 2):
            pk.append({'src': c[0], 'sport': c[1], 'dst': c[2], 'dport': c[3], 'flags': ACK, 'seq': (isn + 2 + 2 * i) % M32, 'ack': 1, 'data': bytes([i & 255])})
    else:
        seg = 60000
        for i in range(nbytes // seg + 2):
            pk.append({'src': c[0], 'sport': c[1], 'dst': c[2], 'dport': c[3], 'flags': ACK, 'seq': (isn + 2 + seg * i) % M32, 'ack': 1,
                       'data': bytes((i + j) & 255 for j in range(seg))})
    for i, p in enumerate(pk):
        p['ts'] = 10 + i
    lines = ['cfg 0 %d %d %d' % (keep, nchunks, nbytes)] + [pkt_line(p) for p in pk] + ['live']
    return (sid, lines), {'cfg': (0, keep, nchunks, nbytes), 'pkts': pk, 'nconn': 1}


def run(ctx):
    C.ensure_repo_build()
    C.run_translators(('kernels',))
    ctx.cov['trusted_base'] += ['Model/Follower.v hand-written from stream_follower.cpp/stream.cpp/flow.cpp/stream_identifier.cpp, tied by correspondence on identical packet scripts',
                                'seq_compare is the GENERATED kernel (translate/cxx2gallina.py)',
                                'harness/h_sf.cpp sets the private limits through "#define private public"; packets are built through the API (IP|IPv6 / TCP / RawPDU) and handed over as Packet with a timestamp',
                                'modelled with ack tracking off and auto-cleanup of delivered payloads on (the defaults)',
                                'extraction: ExtrOcamlBasic only']
    ok, why = C.prove(ctx, 'C07')
    runner_ok = True
    try:
        C.build_runner()
    except C.BuildError as e:
        runner_ok = False; ok = False; why = (why + '\n' + str(e)).strip()
    C.build_harness('h_sf')
    rng = ctx.rng
    quick = ctx.tier == 'quick'
    cases = [gen_case(rng, 'f%d' % i, quick) for i in range(1500 if quick else 12000)]
    dflt = tuple(int(x) for x in C.run_harness('h_sf', [('d', ['defaults'])])['d'][0].split())
    ctx.cov['shipped_defaults'] = {'keep_alive_us': dflt[0], 'max_chunks': dflt[1], 'max_bytes': dflt[2]}
    dcases = [default_limits_case(rng, 'dchunks', 'chunks', dflt)] + ([] if quick else [default_limits_case(rng, 'dbytes', 'bytes', dflt)])
    scripts = [c[0] for c in cases]
    meta = {c[0][0]: c[1] for c in cases}
    known, _ = C.load_known('C07')

    def oracle(lines, lh):
        if not lines or not lines[0].startswith('cfg '):
            return None
        cfg = tuple(int(x) for x in lines[0].split()[1:5])
        ref = RefFollower(*cfg)
        out = []
        for i, l in enumerate(lines[1:], 1):
            t = l.split()
            got_l = lh[i] if i < len(lh) else '<missing>'
            if got_l.startswith('E ') or got_l.startswith('!!') or got_l == '<missing>':
                out.append('line %d: %s' % (i, got_l))
                break
            if t[0] == 'pkt':
                p = {'src': bytes.fromhex(t[1][1:]), 'dst': bytes.fromhex(t[2][1:]), 'sport': int(t[3]), 'dport': int(t[4]), 'flags': int(t[5]),
                     'seq': int(t[6]), 'ack': int(t[7]), 'data': None if t[8] == '-1' else bytes.fromhex(t[8][1:]), 'ts': int(t[9])}
                e = canon(ref.packet(p))
                got = canon(parse_events(got_l))
                if got != e:
                    out.append('packet %d (%s): callbacks %s, reference connection table predicts %s' % (i, l[:120], got, e))
                    break
            elif t[0] == 'live':
                live = sorted(c.name() for c in ref.conns.values())
                gl = sorted((x[0][1:], int(x[1]), x[2][1:], int(x[3])) for x in (y.split() for y in re.findall(r'\[([^\[\]]*)\]', got_l)))
                if gl != live:
                    out.append('connections still tracked: %s, reference: %s' % (gl, live))
                    break
        return out

    def known_fn(lines, complaint, lh):
        for k in known:
            if k['key'] == 'v4v6' and is_v4v6_collision(lines):
                return k['text']
        return None

    # the shipped limits: the C++ side keeps its constructor's values, model and reference get the numbers read from the code
    if dflt[1] <= 5000 and dflt[2] <= (8 << 20):
        hs = [(sid, ['cfg 0 -1 -1 -1'] + lines[1:]) for (sid, lines), _ in dcases]
        h = C.run_harness('h_sf', hs)
        m = C.run_model('sf', [c[0] for c in dcases]) if runner_ok else {}
        for ((sid, lines), _), (_, hl) in zip(dcases, hs):
            lh = [l for l in h.get(sid, []) if not l.startswith('!~')]
            bad = oracle(lines, lh)
            if runner_ok and not bad and m.get(sid) != lh:
                bad = ['model and code differ under the shipped limits']
            ctx.cov['evaluations'] += 1
            if bad:
                ctx.violation('shipped limits (%d chunks, %d bytes): %s' % (dflt[1], dflt[2], bad[0][:300]),
                              '=== replay\n' + '\n'.join(l[:200] for l in hl) + '\n--- ' + bad[0][:2000] + '\n', has_input=True)
    # a follower whose user registered no termination callback: connections over the limits or idle too long are dropped all the same
    # (judged against the reference connection table with its termination reports left out; outside the Coq model's script interface)
    nt = []
    for i in range(40 if quick else 600):
        (sid_, lines_), _m = gen_case(rng, 'n%d' % i, quick)
        t0 = lines_[0].split()
        nt.append(('n%d' % i, [' '.join(t0[:5] + ['0', '1'])] + lines_[1:]))
    nh = C.run_harness('h_sf', nt)
    ctx.cov['evaluations'] += len(nt)
    for sid_, lines_ in nt:
        lh_ = [l for l in nh.get(sid_, []) if not l.startswith('!~')]
        cfg_ = tuple(int(x) for x in lines_[0].split()[1:5])
        ref_ = RefFollower(*cfg_)
        bad_ = None
        for i_, l_ in enumerate(lines_[1:], 1):
            t_ = l_.split()
            got_l = lh_[i_] if i_ < len(lh_) else '<missing>'
            if got_l.startswith('E ') or got_l.startswith('!!') or got_l == '<missing>':
                bad_ = 'line %d: %s' % (i_, got_l); break
            if t_[0] == 'pkt':
                p_ = {'src': bytes.fromhex(t_[1][1:]), 'dst': bytes.fromhex(t_[2][1:]), 'sport': int(t_[3]), 'dport': int(t_[4]), 'flags': int(t_[5]),
                      'seq': int(t_[6]), 'ack': int(t_[7]), 'data': None if t_[8] == '-1' else bytes.fromhex(t_[8][1:]), 'ts': int(t_[9])}
                e_ = [x for x in canon(ref_.packet(p_)) if x[0] != 'term']
                g_ = canon(parse_events(got_l))
                if g_ != e_:
                    bad_ = 'no termination callback registered; packet %d (%s): callbacks %s, the reference connection table (terminations not reported) predicts %s' % (i_, l_[:100], g_, e_); break
            elif t_[0] == 'live':
                live_ = sorted(c.name() for c in ref_.conns.values())
                gl_ = sorted((x[0][1:], int(x[1]), x[2][1:], int(x[3])) for x in (y.split() for y in re.findall(r'\[([^\[\]]*)\]', got_l)))
                if gl_ != live_:
                    bad_ = 'no termination callback registered: still tracked %s, the reference says %s' % (gl_, live_); break
        if bad_:
            ctx.violation(bad_[:400], '=== replay\n' + '\n'.join(lines_) + '\n--- ' + bad_ + '\n--- C++ output\n' + '\n'.join(l[:300] for l in lh_) + '\n')
            break
    C.differential(ctx, 'sf', 'h_sf', scripts, oracle=oracle, runner_ok=runner_ok, known=known_fn,
                   nontrivial=lambda lines, lh: any('[3 ' in l or '[5 ' in l for l in lh))
    ctx.cov['rule'] = ('1..13 simultaneous connections chosen to differ minimally (one port, swapped hosts, same host, IPv6 addresses sharing their leading bytes with an IPv4 one), '
                       'each with handshake or mid-stream attach, data both ways cut at fixed boundaries with local reordering and duplication, FIN/RST/half/no close, 4-tuple reuse; '
                       'random interleaving in bursts; timestamps with gaps around the keep-alive; small limits in 20% of the cases and the shipped limits (512 chunks; 3 MiB in the thorough tier); '
                       'compared: model vs code on every callback (incl. out-of-order notifications, exact order) and code vs the reference connection table (new/data/closed/terminated, live set at the end); '
                       'non-trivial = a run that delivered data or terminated a stream')
    C.obligations_failed(ctx, ok, why, 'theorems of Properties/C07.v no longer check')


def is_v4v6_collision(lines):
    """does the script contain an IPv4 and an IPv6 connection whose identifiers coincide (address bytes + zero padding, same ports)?"""
    v4, v6 = set(), set()
    for l in lines:
        t = l.split()
        if t and t[0] == 'pkt':
            a, b = bytes.fromhex(t[1][1:]), bytes.fromhex(t[2][1:])
            key = frozenset([(a.ljust(16, b'\0'), int(t[3])), (b.ljust(16, b'\0'), int(t[4]))])
            (v4 if len(a) == 4 else v6).add(key)
    return bool(v4 & v6)


def replay(ctx, path):
    C.ensure_repo_build()
    C.build_harness('h_sf')
    lines = C.read_replay(path)
    print('\n'.join(l[:300] for l in C.run_harness('h_sf', [('r', lines)]).get('r', [])))
    return ctx.finish()
