"""C08 — IPv4 fragment reassembly reconstructs the original datagram."""
import struct
import common as C


def udp_datagram(src, dst, n_payload, rng):
    pl = bytes(rng.randrange(256) for _ in range(n_payload))
    ln = 8 + len(pl)
    hdr = struct.pack('>HHHH', rng.randrange(1, 65536), rng.randrange(1, 65536), ln, 0)
    pseudo = struct.pack('>IIBBH', src, dst, 0, 17, ln)
    data = pseudo + hdr + pl
    if len(data) % 2:
        data += b'\0'
    s = sum(struct.unpack('>%dH' % (len(data) // 2), data))
    while s >> 16:
        s = (s & 0xffff) + (s >> 16)
    c = (~s) & 0xffff
    if c == 0:
        c = 0xffff
    return hdr[:6] + struct.pack('>H', c) + pl


def gen(rng, sid, max_payload, ndg):
    dgs = []
    used = set()
    for d in range(ndg):
        while True:
            ident = rng.choice([0, 1, 7, 65535, rng.randrange(65536)])
            src = rng.choice([0x0a000001, 0x0a000002, 0xc0a80001, 0xffffffff, 1])
            dst = rng.choice([0x0a000002, 0x0a000003, 0xc0a80001, 2])
            if dgs and rng.random() < 0.5:
                # a second datagram in flight that a sloppy stream key would confuse with the first one: same id and an
                # address pair with the same XOR / the same sum / one address in common
                f0 = dgs[0][0]
                ident = f0['id']
                m = rng.choice([1, 4, 0x0100, 0xff, rng.randrange(1, 1 << 32)])
                src, dst = rng.choice([(f0['src'] ^ m, f0['dst'] ^ m), ((f0['src'] + m) & 0xffffffff, (f0['dst'] - m) & 0xffffffff),
                                       (f0['src'], f0['dst'] ^ m), (f0['src'] ^ m, f0['dst']), (f0['dst'], f0['src'] ^ m)])
            if src == dst:
                continue
            key = (ident, min(src, dst), max(src, dst))
            if key not in used:
                used.add(key)
                break
        proto = rng.choice([253, 253, 17, 200])
        n = rng.choice([1, 7, 8, 9, 16, 17, 64, max_payload]) if rng.random() < 0.5 else rng.randrange(1, max_payload + 1)
        if proto == 17:
            payload = udp_datagram(src, dst, max(0, n - 8), rng)
        else:
            payload = bytes(rng.randrange(256) for _ in range(n))
        n = len(payload)
        # cut points at multiples of 8
        cands = list(range(8, n, 8))
        kcuts = rng.randrange(0, min(len(cands), 6) + 1)
        cuts = [0] + sorted(rng.sample(cands, kcuts)) + [n]
        tos = rng.randrange(256)
        df = rng.randrange(2) if len(cuts) == 2 else 0
        frs = []
        for a, b in zip(cuts, cuts[1:]):
            frs.append({'id': ident, 'src': src, 'dst': dst, 'proto': proto, 'ttl': rng.randrange(1, 256), 'tos': tos,
                        'df': df, 'mf': 0 if b == n else 1, 'off': a // 8, 'pl': payload[a:b]})
        dgs.append(frs)
    # interleave with duplicates
    seq = []
    for frs in dgs:
        for f in frs:
            seq.append(f)
            if rng.random() < 0.2:
                seq.append(f)
    # whole (unfragmented) datagrams that re-use the identification and the address pair (either direction) of a datagram
    # whose fragments are in flight: RFC 6864 lets atomic datagrams carry any id, they must not disturb the pending reassembly
    for frs in dgs:
        if len(frs) > 1 and rng.random() < 0.5:
            f0 = frs[0]
            for _ in range(rng.choice([1, 1, 2])):
                a, b = (f0['src'], f0['dst']) if rng.random() < 0.5 else (f0['dst'], f0['src'])
                seq.append({'id': f0['id'], 'src': a, 'dst': b, 'proto': 253, 'ttl': rng.randrange(1, 256), 'tos': 0, 'df': rng.randrange(2),
                            'mf': 0, 'off': 0, 'pl': bytes(rng.randrange(256) for _ in range(rng.choice([1, 8, 20])))})
    rng.shuffle(seq)
    # some packets arrive in frames with octets behind the IP total length (Ethernet minimum-size padding, trailers), some with the
    # reserved flag bit set (token >= 1000): neither says anything about fragmentation
    trailer = rng.random() < 0.4
    lines = ['pkt %d %d %d %d %d %d %d %d %d x%s' % (f['id'], f['src'], f['dst'], f['proto'], f['ttl'], f['tos'], f['df'], f['mf'], f['off'], f['pl'].hex())
             + ((' %d' % (rng.choice([0, 1, 6, 18, 26]) + (1000 if rng.random() < 0.3 else 0))) if trailer and rng.random() < 0.5 else '') for f in seq]
    return (sid, lines)


def gen_wild(rng, sid):
    lines = []
    proto = rng.choice([253, 253, 6])      # TCP only ever completes with 16 bytes here: the malformed path
    for _ in range(rng.randrange(1, 9)):
        mf = rng.randrange(2)
        lines.append('pkt %d %d %d %d %d %d %d %d %d x%s' % (
            rng.choice([1, 2]), rng.choice([5, 6]), rng.choice([6, 7]), proto, rng.randrange(1, 256), 0,
            rng.randrange(2), mf, rng.choice([0, 0, 1, 2, 3, 8191] if (proto != 6 or mf) else [1, 2, 3]),
            bytes(rng.randrange(256) for _ in range(rng.choice([0, 1, 8, 8, 16, 9] if proto != 6 else [8, 8, 0]))).hex()))
    return (sid, lines)


def udp_ok(src, dst, payload):
    if len(payload) < 8:
        return False
    ln = struct.unpack('>H', payload[4:6])[0]
    if ln != len(payload):
        return False
    data = struct.pack('>IIBBH', src, dst, 0, 17, ln) + payload
    if len(data) % 2:
        data += b'\0'
    s = sum(struct.unpack('>%dH' % (len(data) // 2), data))
    while s >> 16:
        s = (s & 0xffff) + (s >> 16)
    return s == 0xffff and payload[6:8] != b'\0\0'


def oracle(lines, lh):
    """reference reassembler; None unless the script is a set of consistent non-overlapping partitions"""
    # group by key; check consistency: each key's fragments must agree on (offset -> payload) and tile
    pk = []
    for l in lines:
        t = l.split()
        if t[0] != 'pkt' or len(t) not in (11, 12):
            return None
        ident, src, dst, proto, ttl, tos, df, mf, off = map(int, t[1:10])
        pl = bytes.fromhex(t[10][1:])
        if proto not in (17, 253, 200):
            return None
        pk.append(dict(key=(ident, min(src, dst), max(src, dst)), proto=proto, ttl=ttl, tos=tos, mf=mf, off=off * 8, pl=pl, src=src, dst=dst))
    by = {}
    for p in pk:
        if p['mf'] or p['off']:
            by.setdefault(p['key'], []).append(p)
    parts = {}
    for k, ps in by.items():
        d = {}
        for p in ps:
            if not p['pl']:
                return None
            if p['off'] in d and (d[p['off']]['pl'] != p['pl'] or d[p['off']]['mf'] != p['mf']):
                return None
            d.setdefault(p['off'], p)
            if p['src'] != ps[0]['src'] or p['proto'] != ps[0]['proto']:
                return None
        exp = 0
        offs = sorted(d)
        for i, o in enumerate(offs):
            if o != exp:
                return None        # not a full non-overlapping partition in this script
            exp = o + len(d[o]['pl'])
            if (d[o]['mf'] == 0) != (i == len(offs) - 1):
                return None
        if len(offs) < 2 and d[offs[0]]['mf'] == 0:
            pass
        parts[k] = d
        if ps[0]['proto'] == 17 and not udp_ok(ps[0]['src'], ps[0]['dst'], b''.join(d[o]['pl'] for o in offs)):
            return None
    for p in pk:
        if not (p['mf'] or p['off']) and p['proto'] == 17 and p['pl'] and not udp_ok(p['src'], p['dst'], p['pl']):
            return None
    bad = []
    have = {}
    for i, p in enumerate(pk):
        out = lh[i] if i < len(lh) else '<missing>'
        if not p['pl'] or not (p['mf'] or p['off']):
            exp = '0'
        else:
            k = p['key']
            got = have.setdefault(k, {})
            got.setdefault(p['off'], p)
            if set(got) == set(parts[k]):
                payload = b''.join(parts[k][o]['pl'] for o in sorted(parts[k]))
                exp = '2 %d %d x%s' % (got[0]['ttl'], got[0]['tos'], payload.hex())
                have[k] = {}
            else:
                exp = '1'
        if out != exp:
            bad.append('packet %d (%s...): reassembler says "%s", reference says "%s"' % (i, lines[i][:60], out[:200], exp[:200]))
            break
    return bad


def nontrivial(lines, lh):
    return any(l.startswith('2 ') for l in lh) and len(lines) >= 3


def run(ctx):
    ctx.cov['trusted_base'] += ['extraction: ExtrOcamlBasic only; harness/driver.ml; harness/h_ipr.cpp (raw IPv4 packets parsed by libtins)',
                                'upper-layer parser abstracted as upper_ok (UDP: >= 8 bytes; unknown protocols: raw) — validated by the correspondence run',
                                'hand-written model Model/IPReasm.v tied by correspondence (no translated kernel)']
    ok, why = C.prove(ctx, 'C08')
    runner_ok = True
    try:
        C.build_runner()
    except C.BuildError as e:
        runner_ok = False; ok = False; why = (why + '\n' + str(e)).strip()
    C.build_harness('h_ipr')
    rng = ctx.rng
    quick = ctx.tier == 'quick'
    batch = []
    nmain = 1200 if quick else 20000
    for i in range(nmain):
        big = (not quick) and i % 100 == 0
        batch.append(gen(rng, 'd%d' % i, 65515 if big and i % 1000 == 0 else (1500 if big else 80), rng.choice([1, 1, 2, 3])))
    for i in range(400 if quick else 5000):
        batch.append(gen_wild(rng, 'w%d' % i))
    stats = C.differential(ctx, 'ipr', 'h_ipr', batch, oracle, keep_first=0, nontrivial=nontrivial, runner_ok=runner_ok)
    ctx.cov['rule'] = ('1-3 concurrent datagrams (distinct id/address pair; raw and UDP payloads; sizes at 8-byte boundaries), each cut at random multiples of 8, '
                       'fragments shuffled together with duplicates and per-fragment TTLs; wild scripts (overlaps, gaps, empty fragments, short UDP) model-vs-code only; '
                       'non-trivial = distinct script of >=3 packets in which a datagram was reassembled')
    ctx.cov['samples'] = [batch[0][1][:6], batch[nmain][1]]
    ctx.notes['stats'] = stats
    C.obligations_failed(ctx, ok, why, 'theorems of Properties/C08.v no longer check')


def replay(ctx, path):
    C.build_runner(); C.build_harness('h_ipr')
    C.differential(ctx, 'ipr', 'h_ipr', [('replay', C.read_replay(path))], oracle, keep_first=0)
    return ctx.finish()
