"""C09 — WEP and WPA2 (TKIP/CCMP) decryption recovers exactly the plaintext, safely."""
import os, re, struct, zlib
import common as C
import wifi as W

SNAP_RAW = bytes.fromhex('aaaa0300000088b5')       # LLC/SNAP with an ethertype libtins does not dissect: the body stays raw bytes
LENS = [1, 2, 7, 8, 9, 15, 16, 17, 24, 31, 32, 33, 48, 64, 100, 255, 256, 1000, 1500, 2304]


def rb(rng, n):
    return bytes(rng.randrange(256) for _ in range(n))


def hx(b):
    return 'x' + bytes(b).hex()


def header_variant(rng, bssid, sta, peer, force=None):
    """a data-frame MAC header: (to_ds, from_ds, qos tid or None, bytes, (da, sa, ta))"""
    to_ds, from_ds = force if force else rng.choice([(1, 0), (1, 0), (0, 1), (0, 1), (0, 0), (1, 1)])
    qos = rng.choice([None, None, 0, 3, 7, 15])
    if to_ds and from_ds:
        a1, a2, a3, a4 = bssid, sta, peer, rb(rng, 6)
        da, sa, ta = peer, a4, sta
    else:
        (a1, a2, a3), (da, sa, ta) = W.addresses(to_ds, from_ds, bssid, sta, peer)
        a4 = None
    hdr = W.dot11_data_header(to_ds, from_ds, a1, a2, a3, a4=a4, qos_tid=qos, seq=rng.randrange(4096), frag=rng.choice([0, 0, 0, 1, 15]),
                              retry=rng.random() < 0.2, more_frag=rng.random() < 0.1, order=(qos is None and rng.random() < 0.1))
    return to_ds, from_ds, qos, hdr, (da, sa, ta), (a1, a2, a3, a4)


def model_hdr(to_ds, from_ds, qos, hdr, addrs):
    a1, a2, a3, a4 = addrs
    fc0 = hdr[0] & 0x8f if qos is not None else hdr[0] & 0x0f | (hdr[0] & 0x80)
    fc0 = (hdr[0] & 0x03) | (hdr[0] & 0x0c) | (((hdr[0] >> 4) << 4) & 0x80)
    return '[%d %d %d %d %d %d %s %s %s %s %d %d]' % (to_ds, from_ds, 1 if qos is not None else 0, fc0, (hdr[1] >> 2) & 1, (hdr[1] >> 7) & 1,
                                                       hx(a1), hx(a2), hx(a3), hx(a4 or b''), struct.unpack('<H', hdr[22:24])[0] & 15, (qos or 0) & 15)


def plaintext(rng, n):
    if rng.random() < 0.15 and n >= 28:
        # an IPv4/UDP datagram behind LLC/SNAP: libtins dissects it; the expectation is SNAP(plaintext).serialize()
        body = rb(rng, n - 28)
        udp = struct.pack('>HHHH', 1234, 53, 8 + len(body), 0) + body
        ip = struct.pack('>BBHHHBBH', 0x45, 0, 20 + len(udp), 7, 0, 64, 17, 0) + bytes([10, 0, 0, 1, 10, 0, 0, 2])
        return bytes.fromhex('aaaa030000000800') + ip + udp
    return SNAP_RAW + rb(rng, n)


def forge_icv(body, off, ln, bit):
    """flip one plaintext bit of an RC4-protected body whose encrypted part starts at off and covers ln bytes + 4 ICV bytes,
    and patch the encrypted ICV so that it still verifies (CRC-32 is affine)"""
    b = bytearray(body)
    mask = bytearray(ln)
    mask[bit // 8] ^= 1 << (bit % 8)
    delta = (zlib.crc32(bytes(mask)) ^ zlib.crc32(bytes(ln))) & 0xffffffff
    b[off + bit // 8] ^= 1 << (bit % 8)
    for i in range(4):
        b[off + ln + i] ^= (delta >> (8 * i)) & 0xff
    return bytes(b)


class Cases:
    def __init__(self):
        self.h, self.m, self.exp = [], [], {}
        self.n = 0

    def add(self, hlines, mline, expect, what, known=None):
        sid = 'c%d' % self.n
        self.n += 1
        self.h.append((sid, hlines))
        if mline:
            self.m.append((sid, [mline]))
        self.exp[sid] = (expect, what, known)
        return sid


def gen_frames(rng, cs, quick):
    bssid, sta, peer = bytes.fromhex('02aabbccdd01'), bytes.fromhex('02aabbccdd02'), bytes.fromhex('02aabbccdd03')
    lens = LENS if not quick else [1, 8, 15, 16, 17, 32, 33, 100, 1500]
    reps = 2 if quick else 8
    for n in lens:
        for _ in range(reps):
            pt = plaintext(rng, n)
            to_ds, from_ds, qos, hdr, (da, sa, ta), addrs = header_variant(rng, bssid, sta, peer)
            bss_for_wep = addrs[2] if (not to_ds and not from_ds) or (to_ds and from_ds) else (addrs[0] if to_ds else addrs[1])
            # ---- WEP
            key = rb(rng, rng.choice([5, 13]))
            body = W.wep_encrypt(key, rb(rng, 3), rng.randrange(4), pt)
            base = ['wepkey %s %s' % (hx(bss_for_wep), hx(key)), 'snap ' + hx(pt)]
            cs.add(base + ['wep ' + hx(hdr + body)], 'wep %s %s' % (hx(key), hx(body)), pt, 'WEP frame')
            bad = bytearray(body); bad[4 + rng.randrange(len(body) - 4)] ^= 1 << rng.randrange(8)
            cs.add(base + ['wep ' + hx(hdr + bytes(bad))], 'wep %s %s' % (hx(key), hx(bad)), None, 'WEP frame with one ciphertext bit flipped')
            wrong = bytes([key[0] ^ 1]) + key[1:]
            cs.add(['wepkey %s %s' % (hx(bss_for_wep), hx(wrong)), 'wep ' + hx(hdr + body)], 'wep %s %s' % (hx(wrong), hx(body)), None, 'WEP frame, different key')
            cs.add(['wepkey %s %s' % (hx(rb(rng, 6)), hx(key)), 'wep ' + hx(hdr + body)], None, None, 'WEP frame, key registered for another BSSID')
            # one decrypter holding keys of different lengths (WEP-104 for another network registered before or after, a key
            # replaced by one of another length): every network is decrypted with its own key
            other = rb(rng, 13 if len(key) == 5 else 5)
            cs.add(['wepkey %s %s' % (hx(rb(rng, 6)), hx(other))] + base + ['wep ' + hx(hdr + body)], 'wep %s %s' % (hx(key), hx(body)), pt, 'WEP frame, a key of another length registered first for another network')
            cs.add(base + ['wepkey %s %s' % (hx(rb(rng, 6)), hx(other)), 'wep ' + hx(hdr + body)], 'wep %s %s' % (hx(key), hx(body)), pt, 'WEP frame, a key of another length registered afterwards for another network')
            cs.add(['wepkey %s %s' % (hx(bss_for_wep), hx(other))] + base + ['wep ' + hx(hdr + body)], 'wep %s %s' % (hx(key), hx(body)), pt, 'WEP frame, the key replaced one of another length')
            # ---- TKIP and CCMP with directly supplied keys (not for WDS frames: pairwise keys are per station)
            if to_ds and from_ds:
                continue
            ptk = rb(rng, 80)
            tsc = rng.choice([0, 1, 0xffff, 0x10000, 0x10001, 0x20dcfd43ffff, 0xffffffffffff, rng.randrange(1 << 48)])
            mh = model_hdr(to_ds, from_ds, qos, hdr, addrs)
            for cipher in ('tkip', 'ccmp'):
                if cipher == 'tkip':
                    mic_key = ptk[48:56] if from_ds else ptk[56:64]
                    body = W.tkip_encrypt(ptk[32:48], mic_key, ta, da, sa, (qos or 0) & 7, tsc, 0, pt)
                    mline = lambda b, tk=ptk[32:48]: 'tkip %s %s %s' % (hx(ta), hx(tk), hx(b))
                else:
                    body = W.ccmp_encrypt(ptk[32:48], hdr, tsc, 0, pt)
                    mline = lambda b, tk=ptk[32:48]: 'ccmp %s %s %s' % (hx(tk), mh, hx(b))
                isc = 1 if cipher == 'ccmp' else 0
                cs.add(['snap ' + hx(pt), 'sk %s %d %s' % (hx(ptk), isc, hx(hdr + body))], mline(body), pt, '%s frame (TSC/PN %#x, to_ds=%d from_ds=%d qos=%s, %d bytes)' % (cipher.upper(), tsc, to_ds, from_ds, qos, len(pt)))
                pair = (bssid, sta)
                cs.add(['snap ' + hx(pt), 'wkey %s %s %s %d' % (hx(pair[0]), hx(pair[1]), hx(ptk), isc), 'wpa ' + hx(hdr + body)], None, pt,
                       '%s frame through WPA2Decrypter with the session keys supplied directly' % cipher.upper())
                bad = bytearray(body); bad[8 + rng.randrange(len(body) - 8)] ^= 1 << rng.randrange(8)
                cs.add(['sk %s %d %s' % (hx(ptk), isc, hx(hdr + bytes(bad)))], mline(bytes(bad)), None, '%s frame with one protected bit flipped' % cipher.upper())
                ptk2 = bytearray(ptk); ptk2[32 + rng.randrange(16)] ^= 1 << rng.randrange(8)
                cs.add(['sk %s %d %s' % (hx(ptk2), isc, hx(hdr + body))], None, None, '%s frame, different temporal key' % cipher.upper())
                cs.add(['wkey %s %s %s %d' % (hx(bssid), hx(rb(rng, 6)), hx(ptk), isc), 'wpa ' + hx(hdr + body)], None, None, '%s frame, keys known for another station only' % cipher.upper())
                if cipher == 'tkip':
                    forged = forge_icv(body, 8, len(pt) + 8, rng.randrange(8 * len(pt)))
                    cs.add(['sk %s 0 %s' % (hx(ptk), hx(hdr + forged))], mline(forged), None,
                           'TKIP frame with a flipped payload bit and the ICV patched to match (Michael MIC no longer verifies)', known='michael')
                # every truncation of the protected body
                for k in sorted(set(list(range(0, 24)) + [len(body) - 1])):
                    if k < len(body):
                        cs.add(['sk %s %d %s' % (hx(ptk), isc, hx(hdr + body[:k]))], mline(body[:k]), 'safe', '%s frame truncated to %d body bytes' % (cipher.upper(), k))
    # hostile bodies
    for _ in range(150 if quick else 3000):
        to_ds, from_ds, qos, hdr, (da, sa, ta), addrs = header_variant(rng, bssid, sta, peer, force=rng.choice([(1, 0), (0, 1)]))
        n = rng.choice([0, 1, 3, 4, 8, 9, 12, 16, 20, 21, 40, 100, 2400]) if rng.random() < 0.6 else rng.randrange(0, 2401)
        body = rb(rng, n)
        ptk = rb(rng, 80)
        mh = model_hdr(to_ds, from_ds, qos, hdr, addrs)
        cs.add(['sk %s 1 %s' % (hx(ptk), hx(hdr + body))], 'ccmp %s %s %s' % (hx(ptk[32:48]), mh, hx(body)), 'safe', 'random CCMP body of %d bytes' % n)
        cs.add(['sk %s 0 %s' % (hx(ptk), hx(hdr + body))], 'tkip %s %s %s' % (hx(ta), hx(ptk[32:48]), hx(body)), 'safe', 'random TKIP body of %d bytes' % n)
        key = rb(rng, 5)
        cs.add(['wepkey %s %s' % (hx(bssid), hx(key)), 'wep ' + hx(W.dot11_data_header(1, 0, bssid, sta, peer) + body)], 'wep %s %s' % (hx(key), hx(body)), 'safe', 'random WEP body of %d bytes' % n)
    # the block cipher itself
    for _ in range(20 if quick else 300):
        k, b = rb(rng, 16), rb(rng, 16)
        cs.add(['aes %s %s' % (hx(k), hx(b))], 'aes %s %s' % (hx(k), hx(b)), ('aes', W.aes_encrypt_block(W.aes_expand(k), b)), 'AES block')


# ---------------------------------------------------------------------------------------------------------------
KI = {2: {1: 0x008a, 2: 0x010a, 3: 0x13ca, 4: 0x030a}, 1: {1: 0x0089, 2: 0x0109, 3: 0x13c9, 4: 0x0309}}


def handshake_history(rng, sid_n, quick):
    """one capture: APs, stations, four-way handshakes with retransmissions and restarts, interleaved with beacons and data.
    Returns (harness lines, expectation per line, model hs lines)"""
    psk = rb(rng, rng.randrange(8, 20)).hex().encode()[:rng.randrange(8, 30)]
    ssid = b'net-' + rb(rng, 3).hex().encode()
    bssid = bytes([2]) + rb(rng, 5)
    pmk = W.pmk_from_passphrase(psk, ssid)
    learn = rng.choice(['given', 'beacon'])
    lines, exp, mlines = [], [], []
    lines.append('wap %s %s' % (hx(psk), hx(ssid)) + (' ' + hx(bssid) if learn == 'given' else ''))
    exp.append(None)
    if learn == 'beacon':
        lines.append('wpa ' + hx(W.beacon(bssid, ssid)))
        exp.append(('plain', 0))
    aps = [bssid]
    if rng.random() < 0.4:
        # the same network name served by a second access point, which is only ever seen in its beacons
        aps.append(bytes([2]) + rb(rng, 5))
        lines.append('wpa ' + hx(W.beacon(aps[1], ssid)))
        exp.append(('plain', 0))
    nsta = rng.choice([1, 1, 2, 3])
    events = []
    stations = []
    first_ap = bssid
    for i in range(nsta):
        bssid = rng.choice(aps)
        sta = bytes([2]) + rb(rng, 5)
        version = rng.choice([2, 2, 1])
        anonce, snonce = rb(rng, 32), rb(rng, 32)
        ptk = W.ptk_from(pmk, bssid, sta, anonce, snonce)
        kck = ptk[:16]
        replay = rng.randrange(1, 1000)
        bad_mic = rng.random() < 0.15

        def frame(msg, rep, from_ap, nonce, secure_kd=b''):
            ki = KI[version][msg]
            e = W.eapol_key(version, ki, 16 if version == 2 else 32, rep, nonce, key_data=secure_kd, kck=None if msg == 1 else kck)
            if bad_mic and msg == 4:
                e = e[:81] + bytes([e[81] ^ 1]) + e[82:]
            hdr = W.dot11_data_header(0 if from_ap else 1, 1 if from_ap else 0, sta if from_ap else bssid, bssid if from_ap else sta, bssid,
                                      protected=False, seq=rng.randrange(4096), retry=rng.random() < 0.3)
            return hdr + W.LLC_EAPOL + e
        m1 = frame(1, replay, True, anonce)
        m2 = frame(2, replay, False, snonce, rb(rng, 22))
        m3 = frame(3, replay + 1, True, anonce, rb(rng, 56))
        m4 = frame(4, replay + 1, False, bytes(32))
        seq = []
        # an abandoned first attempt, then the real one; each message possibly retransmitted
        if rng.random() < 0.4:
            # (message 1 again restarts the collection: the answer to the retransmission carries a fresh SNonce, and the key must come from it)
            kck_real = kck
            snonce_a = rb(rng, 32)
            kck = W.ptk_from(pmk, bssid, sta, anonce, snonce_a)[:16]
            m2a = frame(2, replay, False, snonce_a, rb(rng, 22))
            kck = kck_real
            seq += [(1, m1, 0)] * rng.choice([1, 2]) + ([(2, rng.choice([m2, m2a, m2a]), 0)] if rng.random() < 0.7 else [])
        for msg, fr in ((1, m1), (2, m2), (3, m3), (4, m4)):
            seq += [(msg, fr, 0)] * rng.choice([1, 1, 1, 2, 3])
        ptks = [ptk]
        bads = [bad_mic]
        if rng.random() < 0.35:
            # the station re-associates: a second complete handshake with fresh nonces replaces the session keys
            anonce, snonce = rb(rng, 32), rb(rng, 32)
            ptk = W.ptk_from(pmk, bssid, sta, anonce, snonce)
            kck = ptk[:16]
            bad_mic = False
            replay += 10
            for msg, fr in ((1, frame(1, replay, True, anonce)), (2, frame(2, replay, False, snonce, rb(rng, 22))),
                            (3, frame(3, replay + 1, True, anonce, rb(rng, 56))), (4, frame(4, replay + 1, False, bytes(32)))):
                seq += [(msg, fr, 1)] * rng.choice([1, 1, 2])
            ptks.append(ptk)
            bads.append(False)
        stations.append({'ap': bssid, 'sta': sta, 'ptks': ptks, 'bads': bads, 'ptk': None, 'old': None, 'version': version, 'seq': seq, 'done': False, 'idx': i})
    # interleave the stations' sequences, beacons and protected data frames
    queues = [list(s['seq']) for s in stations]
    nkeys = 0
    seen4 = set()
    last = [0] * nsta
    while any(queues) or rng.random() < 0.5:
        r = rng.random()
        if r < 0.1:
            lines.append('wpa ' + hx(W.beacon(rng.choice(aps), ssid, seq=rng.randrange(4096))))
            exp.append(('plain', nkeys))
            continue
        live = [i for i, q in enumerate(queues) if q]
        if live and r < 0.75:
            i = rng.choice(live)
            msg, fr, hsi = queues[i].pop(0)
            s = stations[i]
            first4 = msg == 4 and (i, hsi) not in seen4
            if first4:
                seen4.add((i, hsi))
                if not s['bads'][hsi]:
                    if not s['done']:
                        nkeys += 1
                    s['done'] = True
                    s['old'], s['ptk'] = s['ptk'], s['ptks'][hsi]
            lines.append('wpa ' + hx(fr))
            exp.append(('eapol', nkeys))
            mlines.append((len(lines) - 1, 'hs %d %d %d' % (i, msg, len(lines))))
            continue
        # a protected data frame of a random station
        i = rng.randrange(nsta)
        s = stations[i]
        pt = plaintext(rng, rng.choice([1, 16, 40, 200]))
        to_ds, from_ds, qos, hdr, (da, sa, ta), addrs = header_variant(rng, s['ap'], s['sta'], bytes([2]) + rb(rng, 5), force=rng.choice([(1, 0), (0, 1)]))
        # packet numbers of one station mostly share their upper 32 bits (the TKIP phase-1 input), in both directions
        pn = ((s.setdefault('iv32', rng.randrange(1 << 32)) << 16) | rng.randrange(1 << 16)) if rng.random() < 0.7 else rng.randrange(1 << 48)
        # under the current session keys (or, before any handshake completed, the ones to come), sometimes under superseded ones
        stale = s['old'] is not None and rng.random() < 0.3
        key = s['old'] if stale else (s['ptk'] or s['ptks'][0])
        if s['version'] == 2:
            body = W.ccmp_encrypt(key[32:48], hdr, pn, 0, pt)
        else:
            body = W.tkip_encrypt(key[32:48], key[48:56] if from_ds else key[56:64], ta, da, sa, (qos or 0) & 7, pn, 0, pt)
        lines.append('snap ' + hx(pt))
        exp.append(None)
        lines.append('wpa ' + hx(hdr + body))
        exp.append(('data', nkeys, pt if (s['done'] and not stale) else None))
        if not any(queues) and rng.random() < 0.5:
            break
    return lines, exp, mlines


def run(ctx):
    C.ensure_repo_build()
    C.run_translators(('gen_tables',))
    ctx.cov['trusted_base'] += ['Model/Wifi.v hand-written from src/crypto.cpp and src/handshake_capturer.cpp (TKIP S-box table GENERATED from the source), tied by correspondence on identical frame bodies',
                                'Model/AES.v: AES-128 written from FIPS 197, compared block by block with OpenSSL\'s AES_encrypt (what libtins calls); the CCMP theorems hold for any block function',
                                'gen/wifi.py: independent WEP/TKIP/CCMP/Michael/PBKDF2/PRF/EAPOL implementation written from IEEE 802.11 and RFC 3610, self-checked against the annex test vectors (TKIP mixing #1-#3, CCMP M.6.4, Michael) and the openssl CLI',
                                'HMAC-SHA1, HMAC-MD5, PBKDF2 are OpenSSL on the libtins side and hashlib on the oracle side: not modelled in Coq (external primitives)',
                                'harness/h_crypto.cpp: frames are parsed with Dot11::from_bytes from exact-size heap blocks; extraction: ExtrOcamlBasic only']
    ok, why = C.prove(ctx, 'C09')
    runner_ok = True
    try:
        C.build_runner()
    except C.BuildError as e:
        runner_ok = False; ok = False; why = (why + '\n' + str(e)).strip()
    C.build_harness('h_crypto')
    rng = ctx.rng
    quick = ctx.tier == 'quick'
    known, _ = C.load_known('C09')
    known_keys = {k['key']: k for k in known}
    cs = Cases()
    gen_frames(rng, cs, quick)
    h = C.run_harness('h_crypto', cs.h)
    m = C.run_model('wifi', cs.m) if runner_ok else {}
    ctx.cov['evaluations'] += len(cs.h)
    ctx.cov['traces_validated_against_impl'] = len(cs.m) if runner_ok else 0
    seen = set()
    nontriv = 0
    kinds = {}

    def report(msg, lines, lh, has_input=True):
        key = re.sub(r'[0-9a-fx]{6,}|\d+', 'N', msg)[:70]
        if key in seen or len(seen) >= 6:
            return
        seen.add(key)
        ctx.violation(msg[:400], '=== replay\n' + '\n'.join(lines) + '\n--- ' + msg + '\n--- C++ output\n' + '\n'.join(l[:300] for l in lh[-3:]) + '\n', has_input=has_input)

    for sid, lines in cs.h:
        expect, what, kn = cs.exp[sid]
        lh = [l for l in h.get(sid, ['<no output>']) if not l.startswith('!~')]
        last = lh[-1] if lh else ''
        crash = [l for l in lh if l.startswith('!!')]
        kinds[what.split(' (')[0].split(' of ')[0][:40]] = kinds.get(what.split(' (')[0].split(' of ')[0][:40], 0) + 1
        if crash:
            report('%s: %s' % (what, crash[0]), lines, lh)
            continue
        if isinstance(expect, tuple) and expect[0] == 'aes':
            if last != 'A x' + expect[1].hex():
                report('OpenSSL AES block differs from FIPS 197: %s' % last, lines, lh)
            lm = m.get(sid, ['?'])[0] if runner_ok else None
            if runner_ok and lm != 'x' + expect[1].hex():
                report('correspondence: Model/AES.v differs from AES on %s' % lines[-1], lines, lh, has_input=False)
            continue
        got1 = last.startswith('R 1')
        got_exn = last.startswith('E ')
        if expect == 'safe':
            pass                                     # anything but a memory error (checked above) is fine
        elif expect is None:
            if got1:
                if kn and kn in known_keys:
                    ctx.known(known_keys[kn]['text'])
                else:
                    report('%s is reported as decrypted: %s' % (what, last[:120]), lines, lh)
        else:
            nontriv += 1
            snap = [l for l in lh if l.startswith('S ')]
            want = snap[-1].split()[1] if snap else None
            if not got1:
                report('%s is not decrypted (%s); plaintext %s...' % (what, last[:60], expect.hex()[:40]), lines, lh)
            else:
                t = last.split()
                inner = [x for x in t[2:] if x.startswith('x')][0]
                if want is not None and inner != want:
                    report('%s decrypts to %s..., expected %s...' % (what, inner[:60], want[:60]), lines, lh)
                if t[0] == 'R' and len(t) > 2 and not t[2].startswith('x') and t[2] != '0':
                    report('%s: decrypted but the frame is still marked protected' % what, lines, lh)
        # model vs code
        if runner_ok and sid in m:
            lm = m[sid][0].split()
            mod1 = lm[0] == '1'
            if lm[0].startswith('-'):
                report('correspondence: the model reports an out-of-bounds access (%s) on %s' % (lm[0], what), lines, lh, has_input=False)
            elif mod1 and len(bytes.fromhex(lm[1][1:])) < 8:
                pass                                  # fewer than 8 plaintext bytes: no LLC/SNAP header to build, outside the property
            elif mod1 != got1 and not got_exn:
                report('correspondence Model/Wifi.v <-> C++ broken on %s: model %s, C++ %s' % (what, lm[0], last[:40]), lines, lh, has_input=False)
            elif mod1 and got1 and expect not in (None, 'safe') and lm[1] != 'x' + expect.hex():
                report('correspondence: model plaintext differs from the sender\'s on %s' % what, lines, lh, has_input=False)
    # ---- handshake histories
    hs_scripts, hs_exp, hs_model = [], {}, []
    for i in range(40 if quick else 600):
        lines, exp, mlines = handshake_history(rng, i, quick)
        sid = 'h%d' % i
        hs_scripts.append((sid, lines))
        hs_exp[sid] = exp
        cap_lines = [l.replace('wpa ', 'hs ', 1) for l in lines if l.startswith('wpa ')]
        hs_scripts.append((sid + 'c', cap_lines))
        idx = [j for j, l in enumerate(lines) if l.startswith('wpa ')]
        ml = []
        mm = dict(mlines)
        for j in idx:
            ml.append(mm.get(j, 'hs 99 0 0'))
        hs_model.append((sid + 'c', ml))
    hh = C.run_harness('h_crypto', hs_scripts)
    hm = C.run_model('wifi', hs_model) if runner_ok else {}
    ctx.cov['evaluations'] += len(hs_scripts)
    for sid, lines in hs_scripts:
        lh = [l for l in hh.get(sid, []) if not l.startswith('!~')]
        crash = [l for l in lh if l.startswith('!!')]
        if crash:
            report('handshake history: %s' % crash[0], lines, lh)
            continue
        if sid.endswith('c'):
            if runner_ok:
                done = 0
                for j, (l, lmod) in enumerate(zip(lh, hm.get(sid, []))):
                    done += 1 if lmod.strip().startswith('[') else 0
                    t = l.split()
                    if len(t) == 3 and t[0] == 'H' and int(t[2]) != done:
                        report('correspondence: handshake capturer completed %s handshakes after message %d, model %d' % (t[2], j, done), lines[:j + 1], lh[:j + 1], has_input=False)
                        break
            continue
        exp = hs_exp[sid]
        for j, (l, e) in enumerate(zip(lh, exp)):
            if e is None:
                continue
            t = l.split()
            if l.startswith('E '):
                report('handshake history: exception %s on line %d' % (l, j), lines[:j + 1], lh[:j + 1])
                break
            nk = int(t[t.index('K') + 1]) if 'K' in t else -1
            if nk != e[1]:
                report('four-way handshakes: %d session keys known after line %d, %d handshakes have completed with a valid MIC' % (nk, j, e[1]), lines[:j + 1], lh[:j + 1])
                break
            if e[0] == 'data':
                nontriv += 1
                want = lh[j - 1].split()[1] if lh[j - 1].startswith('S ') else None
                if e[2] is None and t[1] == '1':
                    report('a protected frame of a station whose handshake has not completed is reported as decrypted', lines[:j + 1], lh[:j + 1])
                    break
                if e[2] is not None and (t[1] != '1' or t[3] != want):
                    report('frame after a completed handshake (learned keys) is not decrypted to the plaintext: %s' % l[:80], lines[:j + 1], lh[:j + 1])
                    break
            elif t[1] == '1':
                report('a handshake/beacon frame is reported as decrypted', lines[:j + 1], lh[:j + 1])
                break
    ctx.cov['distinct_nontrivial'] = nontriv
    ctx.cov['input_kinds'] = dict(sorted(kinds.items(), key=lambda kv: -kv[1])[:25])
    ctx.cov['rule'] = ('frames produced by the independent implementation: WEP-40/104, TKIP, CCMP x to/from-DS/IBSS/WDS x QoS tid x retry/more-frag/order bits x TSC/PN values with non-zero upper bytes x '
                       'payload lengths %s (incl. multiples of 16, raw and IPv4/UDP bodies); each also with one protected bit flipped, a different key, keys of another station/BSSID, every truncation 0..23, '
                       'a TKIP bit-flip with patched ICV; random bodies 0..2400 bytes for all three ciphers; capture histories with 1-3 stations, CCMP or TKIP, passphrase+SSID given or learned from a beacon, '
                       'retransmitted messages, an abandoned first attempt, a bad message-4 MIC, interleaved beacons and data frames; non-trivial = frames that must decrypt to a known plaintext' % lens_txt(quick))
    C.obligations_failed(ctx, ok, why, 'theorems of Properties/C09.v no longer check')


def lens_txt(quick):
    return str(LENS if not quick else [1, 8, 15, 16, 17, 32, 33, 100, 1500])


def replay(ctx, path):
    C.ensure_repo_build()
    C.build_harness('h_crypto')
    lines = C.read_replay(path)
    print('\n'.join(l[:300] for l in C.run_harness('h_crypto', [('r', lines)]).get('r', [])))
    return ctx.finish()
