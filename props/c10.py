"""C10 — DNS messages stay coherent under parsing, editing and name compression."""
import struct
import common as C

A, NS, CNAME, SOA, PTR, MX, TXT, AAAA = 1, 2, 5, 6, 12, 15, 16, 28
NAME_TYPES = (NS, CNAME, PTR, MX)


def H(b):
    return 'x' + bytes(b).hex()


def rnd_label(rng):
    n = rng.choice([1, 1, 2, 3, 7, 20, 63]) if rng.random() < 0.9 else rng.randrange(1, 64)
    return ''.join(rng.choice('abcdefghijklmnopqrstuvwxyz0123456789-') for _ in range(n))


def rnd_name(rng, pool):
    r = rng.random()
    if r < 0.05:
        return ''          # the root name (priming queries, root NS/SOA records, OPT): one zero octet on the wire
    if pool and r < 0.35:
        base = rng.choice(pool)
        labels = base.split('.')
        k = rng.randrange(0, len(labels))
        name = '.'.join([rnd_label(rng) for _ in range(rng.randrange(0, 3))] + labels[k:])
    elif r < 0.45:
        name = '.'.join(rng.choice('abcdefgh') for _ in range(rng.choice([32, 40, 60, 100, 126])))     # many labels
    elif r < 0.53:
        # the longest legal names: 250..253 characters (253 = 255 octets on the wire)
        total = rng.choice([253, 253, 252, 251, 250])
        labels, left = [], total
        while left > 0:
            ln = min(63, left) if left <= 63 or left - 64 >= 1 else left - 2
            ln = min(ln, rng.choice([63, 63, 62, 40])) if left - min(ln, 63) - 1 > 0 else ln
            labels.append(''.join(rng.choice('abcdefghijklmnopqrstuvwxyz') for _ in range(ln)))
            left -= ln + 1
        name = '.'.join(labels)
        if len(name) > 253 or any(len(l) == 0 or len(l) > 63 for l in labels):
            name = '.'.join(['a' * 63, 'b' * 63, 'c' * 63, 'd' * 61])
    else:
        name = '.'.join(rnd_label(rng) for _ in range(rng.randrange(1, 6)))
    while len(name) > 253:
        name = name.split('.', 1)[1]
    pool.append(name)
    return name


def enc_plain(name):
    out = b''
    for l in (name.split('.') if name else []):
        out += bytes([len(l)]) + l.encode()
    return out + b'\0'


class Enc:
    """reference wire encoder with optional suffix compression"""
    def __init__(self, compress, rng):
        self.buf = bytearray()
        self.table = {}
        self.compress = compress
        self.rng = rng

    def name(self, name):
        labels = name.split('.') if name else []
        for i in range(len(labels)):
            suffix = '.'.join(labels[i:])
            if self.compress and suffix in self.table and self.rng.random() < 0.9:
                self.buf += struct.pack('>H', 0xc000 | self.table[suffix])
                return
            off = 12 + len(self.buf)
            if off < 0x3fff:
                self.table.setdefault(suffix, off)
            self.buf += bytes([len(labels[i])]) + labels[i].encode()
        self.buf += b'\0'

    def record(self, r):
        self.name(r['name'])
        self.buf += struct.pack('>HHI', r['type'], r['cls'], r['ttl'])
        lenpos = len(self.buf)
        self.buf += b'\0\0'
        if r['type'] == MX:
            self.buf += struct.pack('>H', r['pref'])
        if r['type'] in NAME_TYPES:
            self.name(r['target'])
        elif r['type'] == SOA:
            self.name(r['mname']); self.name(r['rname']); self.buf += r['tail']
        else:
            self.buf += r['raw']
        struct.pack_into('>H', self.buf, lenpos, len(self.buf) - lenpos - 2)


def rnd_record(rng, pool):
    t = rng.choice([A, AAAA, NS, CNAME, PTR, MX, SOA, TXT, 99])
    r = {'name': rnd_name(rng, pool), 'type': t, 'cls': rng.choice([1, 1, 3, 255]), 'ttl': rng.choice([0, 60, 0xffffffff, rng.randrange(1 << 32)]), 'pref': 0}
    if t == A:
        r['raw'] = bytes(rng.randrange(256) for _ in range(4))
    elif t == AAAA:
        r['raw'] = bytes(rng.randrange(256) for _ in range(16))
    elif t in NAME_TYPES:
        r['target'] = rnd_name(rng, pool)
        if t == MX:
            r['pref'] = rng.choice([0, 10, 65535])
    elif t == SOA:
        r['mname'] = rnd_name(rng, pool); r['rname'] = rnd_name(rng, pool)
        r['tail'] = bytes(rng.randrange(256) for _ in range(20))
    else:
        r['raw'] = bytes(rng.randrange(1, 256) for _ in range(rng.choice([0, 1, 5, 40])))
    return r


def expected_rr(r):
    if r['type'] in NAME_TYPES:
        data = r['target'].encode()
    elif r['type'] == SOA:
        data = enc_plain(r['mname']) + enc_plain(r['rname']) + r['tail']
    else:
        data = r['raw']
    return '[%s %d %d %d %d %s]' % (H(r['name'].encode()), r['type'], r['cls'], r['ttl'], r['pref'], H(data))


def add_line(which, r):
    if r['type'] in NAME_TYPES:
        data = r['target'].encode()
    elif r['type'] == SOA:
        data = enc_plain(r['mname']) + enc_plain(r['rname']) + r['tail']
    else:
        data = r['raw']
    return '%s %s %d %d %d %d %s' % (which, H(r['name'].encode()), r['type'], r['cls'], r['ttl'], r['pref'], H(data))


def gen(rng, sid, nops):
    pool = []
    sections = {'Q': [], 'A': [], 'N': [], 'R': []}
    lines = []
    expect = []
    if rng.random() < 0.35:
        lines.append('new')
    else:
        enc = Enc(rng.random() < 0.7, rng)
        for _ in range(rng.randrange(0, 3)):
            q = (rnd_name(rng, pool), rng.choice([1, 28, 255]), 1)
            sections['Q'].append(q)
            enc.name(q[0]); enc.buf += struct.pack('>HH', q[1], q[2])
        for sec in 'ANR':
            for _ in range(rng.randrange(0, 3)):
                r = rnd_record(rng, pool)
                sections[sec].append(r)
                enc.record(r)
        hdr = struct.pack('>HHHHHH', rng.randrange(65536), rng.choice([0x0100, 0x8180]), len(sections['Q']), len(sections['A']), len(sections['N']), len(sections['R']))
        lines.append('parse ' + H(hdr + bytes(enc.buf)))

    def snap():
        return '[%d %d %d %d] [81 [%s]] [65 [%s]] [78 [%s]] [82 [%s]]' % (
            len(sections['Q']), len(sections['A']), len(sections['N']), len(sections['R']),
            ' '.join('[%s %d %d]' % (H(q[0].encode()), q[1], q[2]) for q in sections['Q']),
            ' '.join(expected_rr(r) for r in sections['A']), ' '.join(expected_rr(r) for r in sections['N']), ' '.join(expected_rr(r) for r in sections['R']))
    expect.append(snap())
    for _ in range(nops):
        k = rng.choice('QANR')
        if k == 'Q':
            q = (rnd_name(rng, pool), rng.choice([1, 28, 15]), rng.choice([1, 255]))
            sections['Q'].append(q)
            lines.append('addq %s %d %d' % (H(q[0].encode()), q[1], q[2]))
        else:
            r = rnd_record(rng, pool)
            sections[k].append(r)
            lines.append(add_line({'A': 'adda', 'N': 'addn', 'R': 'addr'}[k], r))
        expect.append(snap())
    return (sid, lines), expect


def gen_wild(rng, sid):
    """hostile messages: mutated valid wire (pointer loops, out-of-range pointers, bad label types, truncation) + edits"""
    (sid_, lines), _ = gen(rng, sid, 0)
    if lines[0] == 'new':
        b = bytearray(struct.pack('>HHHHHH', 1, 0x100, 1, 0, 0, 0) + b'\x03www\x00\x00\x01\x00\x01')
    else:
        b = bytearray(bytes.fromhex(lines[0].split()[1][1:]))
    for _ in range(rng.randrange(1, 4)):
        k = rng.random()
        if len(b) > 13 and k < 0.3:
            i = rng.randrange(12, len(b) - 1)
            b[i] = 0xc0; b[i + 1] = rng.choice([i, i - 1, 12, 0, 5, len(b) - 1, len(b), 0xff, i + 1 & 0xff]) & 0xff
        elif k < 0.45 and len(b) > 12:
            del b[rng.randrange(12, len(b)):]
        elif k < 0.6 and len(b) > 12:
            b[rng.randrange(12, len(b))] = rng.choice([0x40, 0x80, 0xbf, 0x3f, 0xff, 0])
        elif k < 0.75:
            b[rng.choice([5, 7, 9, 11])] = rng.choice([0, 1, 2, 5])
        else:
            b += bytes(rng.randrange(256) for _ in range(rng.randrange(1, 6)))
    out = ['parse ' + H(b)]
    for _ in range(rng.randrange(0, 3)):
        pool = []
        if rng.random() < 0.4:
            out.append('addq %s 1 1' % H(rnd_name(rng, pool).encode()))
        else:
            out.append(add_line(rng.choice(['adda', 'addn', 'addr']), rnd_record(rng, pool)))
    return (sid, out)


EXPECT = {}


def oracle(lines, lh):
    exp = EXPECT.get(tuple(lines))
    if exp is None:
        # a shrunk prefix of a generated script: the expectation of a prefix is the prefix of the expectation
        for k, v in EXPECT.items():
            if len(lines) <= len(k) and list(k[:len(lines)]) == list(lines):
                exp = v[:len(lines)]
                break
    if exp is None:
        return None
    main = [l for l in lh if not l.startswith('RT') and not l.startswith('!!')]
    rts = [l for l in lh if l.startswith('RT')]
    bad = []
    for i, e in enumerate(exp):
        got = main[i] if i < len(main) else '<missing>'
        gp = got.rsplit(' ', 1)[0] if ' x' in got else got
        if gp != e:
            bad.append('after op %d (%s): sections differ from the reference\n   got      %s\n   expected %s' % (i, lines[i][:100], gp[:700], e[:700]))
            break
        if i >= len(rts) or rts[i] != 'RT 1':
            bad.append('after op %d (%s): serialize + re-parse: %s' % (i, lines[i][:100], rts[i] if i < len(rts) else '<missing>'))
            break
    return bad


def cmp(lm, lh):
    return C.default_cmp(lm, [l for l in lh if not l.startswith('RT') and not l.startswith('!!')])


def run(ctx):
    ctx.cov['trusted_base'] += ['extraction: ExtrOcamlBasic only; harness/driver.ml; harness/h_dns.cpp',
                                'hand-written model Model/DNS.v tied by correspondence; glibc text conversion of A/AAAA data is undone by the harness (raw bytes compared)']
    ok, why = C.prove(ctx, 'C10')
    runner_ok = True
    try:
        C.build_runner()
    except C.BuildError as e:
        runner_ok = False; ok = False; why = (why + '\n' + str(e)).strip()
    C.build_harness('h_dns')
    rng = ctx.rng
    quick = ctx.tier == 'quick'
    batch = []
    for i in range(1200 if quick else 20000):
        s, exp = gen(rng, 'g%d' % i, rng.choice([0, 1, 2, 4, 8]))
        EXPECT[tuple(s[1])] = exp
        batch.append(s)
    nw = 600 if quick else 10000
    for i in range(nw):
        batch.append(gen_wild(rng, 'w%d' % i))
    stats = C.differential(ctx, 'dns', 'h_dns', batch, oracle, cmp=cmp, keep_first=1, oob_is_crash=True,
                           nontrivial=lambda lines, lh: len(lines) >= 3, runner_ok=runner_ok)
    ctx.cov['rule'] = ('initial message = empty or produced by a reference encoder with/without suffix compression (names of 1..126 labels, record types A AAAA NS CNAME PTR MX SOA TXT opaque), '
                       'then random add_query/add_answer/add_authority/add_additional; sections and counts checked against the reference after every op and after serialize + re-parse; '
                       'hostile messages (pointer loops, out-of-range pointers, bad label types, truncation, wrong counts) + edits compared model-vs-code under ASan; non-trivial = distinct script with >=2 edits')
    ctx.cov['samples'] = [[l[:160] for l in batch[0][1][:4]], [l[:160] for l in batch[-1][1][:3]]]
    ctx.notes['stats'] = stats
    C.obligations_failed(ctx, ok, why, 'theorems of Properties/C10.v no longer check')


def replay(ctx, path):
    C.build_runner(); C.build_harness('h_dns')
    C.differential(ctx, 'dns', 'h_dns', [('replay', C.read_replay(path))], oracle, cmp=cmp, keep_first=1, oob_is_crash=True)
    return ctx.finish()
