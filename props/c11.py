"""C11 — RadioTap fields can be set in any order and read back."""
import itertools
import common as C

META = [(8, 8), (1, 1), (1, 1), (4, 2), (2, 2), (1, 1), (1, 1), (2, 2), (2, 2), (2, 2), (1, 1), (1, 1), (1, 1), (1, 1), (2, 2), (2, 2), (1, 1), (1, 1), (8, 4), (3, 1), (8, 4), (12, 2)]
SETTABLE = [0, 1, 2, 3, 5, 6, 7, 11, 12, 14, 15, 17, 18, 19]
APIW = {0: 8, 1: 1, 2: 1, 3: 4, 5: 1, 6: 1, 7: 1, 11: 1, 12: 1, 14: 2, 15: 2, 17: 1, 18: 8, 19: 3}   # bytes the typed setter takes
DEFAULT = {3: bytes([0x6c, 0x09, 0xa0, 0x00]), 1: bytes([0x10]), 0: bytes(8), 5: bytes([0xce]), 14: bytes(2), 11: bytes(1)}


def layout(m):
    present = 0
    for b in m:
        present |= 1 << b
    buf = bytearray(present.to_bytes(4, 'little'))
    for b in sorted(m):
        size, al = META[b]
        off = 4 + len(buf)
        pad = (-off) % al
        buf += bytes(pad) + m[b]
    return bytes(buf)


def expected_line(m):
    buf = layout(m)
    present = int.from_bytes(buf[:4], 'little')
    gs = ' '.join('[%d %s]' % (b, ('x' + m[b].hex()) if b in m else '-4') for b in SETTABLE)
    return 'x%s %d [%s] %d' % (buf.hex(), present, gs, 4 + len(buf))


def rndval(rng, n):
    r = rng.random()
    if r < 0.2:
        return bytes(n)
    if r < 0.4:
        return bytes([255] * n)
    return bytes(rng.randrange(256) for _ in range(n))


def rndmap(rng):
    m = {}
    for b in rng.sample(range(22), rng.randrange(0, 8)):
        if b in (1,):
            m[b] = bytes([rng.choice([0, 2, 4, 8, 0x20])])    # FLAGS without FCS / bad-FCS
        else:
            m[b] = rndval(rng, META[b][0])
    return m


def gen(rng, sid, n, start):
    if start == 'new':
        lines = ['new']
    else:
        lines = ['parse x' + layout(rndmap(rng)).hex()]
    for _ in range(n):
        b = rng.choice(SETTABLE)
        if b == 1:
            v = bytes([rng.choice([0, 2, 0x10, 0x12, 0x04, 0x10])])     # never FAILED_FCS (0x40): the constructor rejects such frames by design
        else:
            v = rndval(rng, APIW[b])
        lines.append('set %d x%s' % (b, v.hex()))
        if rng.random() < 0.12:
            lines.append('noinner')          # the header alone, with or without the FCS flag: still serializable and re-parsable
    return lines


def perms(quick):
    """all orders of all subsets of <= k setters from the default-constructed header (the design's enumerated search)"""
    out = []
    k = 3 if quick else 4
    for r in range(1, k + 1):
        for combo in itertools.combinations(SETTABLE, r):
            for perm in itertools.permutations(combo):
                lines = ['new'] + ['set %d x%s' % (b, bytes([(17 * b + 3 * i + 1) % 256 for i in range(APIW[b])]).hex()) for b in perm]
                if any(l.startswith('set 1 ') for l in lines):
                    lines = [l if not l.startswith('set 1 ') else 'set 1 x12' for l in lines]
                out.append(lines)
    return out


def gen_wild(rng, sid):
    junk = bytearray(rndval(rng, rng.randrange(4, 20)))
    junk[3] &= 0x7f            # no extended present words: outside the model (differential C01 territory)
    junk[2] &= 0x3f
    lines = [rng.choice(['new', 'parse x' + layout(rndmap(rng)).hex(), 'parse x' + bytes(junk).hex()])]
    for _ in range(rng.randrange(1, 5)):
        lines.append('opt %d x%s' % (1 << rng.randrange(0, 20), rndval(rng, rng.choice([0, 1, 2, 3, 4, 8, 12])).hex()))
    return lines


def oracle(lines, lh):
    t0 = lines[0].split()
    if t0[0] == 'new':
        m = dict(DEFAULT)
    elif t0[0] == 'parse':
        # only canonical single-namespace layouts: re-derive the map and check it is canonical
        buf = bytes.fromhex(t0[1][1:])
        if len(buf) < 4:
            return None
        present = int.from_bytes(buf[:4], 'little')
        if present >> 22:
            return None
        m = {}
        pos = 4
        for b in range(22):
            if present >> b & 1:
                size, al = META[b]
                pos += (-(pos + 4)) % al
                if pos + size > len(buf):
                    return None
                m[b] = buf[pos:pos + size]
                pos += size
        if layout(m) != buf:
            return None
        if 1 in m and m[1][0] & 0x50:
            return None
    else:
        return None
    main = [l for l in lh if not l.startswith('RT') and not l.startswith('!!')]
    rts = [l for l in lh if l.startswith('RT')]
    bad = []
    bare = False
    for i, line in enumerate(lines):
        t = line.split()
        if t[0] == 'set':
            b = int(t[1]); v = bytes.fromhex(t[2][1:])
            if b not in APIW or len(v) != APIW[b]:
                return None
            m[b] = v + b'\0' if b == 7 else v
        elif t[0] == 'opt':
            flag = int(t[1]); v = bytes.fromhex(t[2][1:])
            b = flag.bit_length() - 1
            if flag != 1 << b or b >= 22 or len(v) != META[b][0]:
                return None
            m[b] = v
        if 1 in m and m[1][0] & 0x40:
            return None if not bad else bad      # FAILED_FCS frames are rejected by the parser by design
        exp = expected_line(m)
        got = main[i] if i < len(main) else '<missing>'
        if got != exp:
            bad.append('after op %d (%s): C++ state differs from the canonical layout of the last-write map:\n   got      %s\n   expected %s' % (i, line, got[:600], exp[:600]))
            break
        bare = bare or t[0] == 'noinner'
        if bare and not (1 in m and m[1][0] & 0x10):
            # a header with nothing behind it and no FCS announced: RadioTap(buffer) asks for at least four octets behind the header
            # (the property speaks of headers in front of an 802.11 frame); only the header state is judged
            continue
        if i >= len(rts) or rts[i] != 'RT 1':
            bad.append('after op %d (%s): serialize + parse back: %s' % (i, line, rts[i] if i < len(rts) else '<missing>'))
            break
    return bad


def cmp(lm, lh):
    return C.default_cmp(lm, [l for l in lh if not l.startswith('RT') and not l.startswith('!!')])


def run(ctx):
    st = C.run_translators(('kernels', 'gen_tables'))
    ctx.notes['translated'] = {'kernels': [k for k in st['kernels'] if k['kernel'] == 'calculate_padding'], 'tables': st['gen_tables']}
    tie_ok = st['gen_tables'].get('ok') and all(k['ok'] for k in st['kernels'] if k['kernel'] == 'calculate_padding')
    ctx.cov['trusted_base'] += ['translate/cxx2gallina.py (calculate_padding) and translate/gen_tables.py (RADIOTAP_METADATA) over the clang-14 AST, regenerated each run',
                                'extraction: ExtrOcamlBasic only; harness/driver.ml; harness/h_rt.cpp',
                                'model covers headers with one present-flags word (extended namespaces only differentially)']
    ok, why = C.prove(ctx, 'C11')
    runner_ok = True
    try:
        C.build_runner()
    except C.BuildError as e:
        runner_ok = False; ok = False; why = (why + '\n' + str(e)).strip()
    C.build_harness('h_rt')
    rng = ctx.rng
    quick = ctx.tier == 'quick'
    batch = []
    pp = perms(quick)
    for i, l in enumerate(pp):
        batch.append(('perm%d' % i, l))
    for i in range(800 if quick else 15000):
        batch.append(('r%d' % i, gen(rng, i, rng.choice([2, 5, 9, 16]), rng.choice(['new', 'parse']))))
    nw = 300 if quick else 4000
    for i in range(nw):
        batch.append(('w%d' % i, gen_wild(rng, i)))
    stats = C.differential(ctx, 'rt', 'h_rt', batch, oracle, cmp=cmp, keep_first=1, oob_is_crash=True,
                           nontrivial=lambda lines, lh: len(set(l.split()[1] for l in lines if l.startswith('set'))) >= 3, runner_ok=runner_ok)
    ctx.cov['exhaustive_permutations'] = len(pp)
    ctx.cov['rule'] = ('all orders of all subsets of <=%d of the 14 setters from the default header (exhaustive), random setter sequences with repetitions from the default and from '
                       'parsed canonical headers, and wild raw add_option calls (wrong sizes, truncated headers) compared model-vs-code only; '
                       'non-trivial = distinct script setting >=3 different fields' % (3 if quick else 4))
    ctx.cov['samples'] = [pp[-1], batch[len(pp)][1][:6]]
    ctx.notes['stats'] = stats
    C.obligations_failed(ctx, ok and tie_ok, why + json_dump(st), 'theorems of Properties/C11.v / generated kernel+table tie no longer check')


def json_dump(x):
    import json
    return '\n' + json.dumps(x)[:1500]


def replay(ctx, path):
    C.build_runner(); C.build_harness('h_rt')
    C.differential(ctx, 'rt', 'h_rt', [('replay', C.read_replay(path))], oracle, cmp=cmp, keep_first=1)
    return ctx.finish()
